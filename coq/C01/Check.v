(* C01 — executable checks: (correspondence code, oracle code); 0 = fine *)
From Coq Require Import List Arith Bool.
Import ListNotations.
From LinDBV.C01 Require Import Model.

Inductive hop := HOpen | HFlush (c : content) | HCompact (c : content).

(* projected trace of file-system operations: kind code and number
   1 create table, 2 close table, 3 remove table, 4 create manifest, 5 append record, 6 remove manifest, 7 write CURRENT.tmp, 8 rename *)
Definition proj (o : fsop) : nat * nat :=
  match o with
  | CreateTab n => (1, n) | CloseTab n _ => (2, n) | RemoveTab _ => (3, 0)
  | CreateMan n => (4, n) | AppendRec n _ => (5, n) | RemoveMan _ => (6, 0)
  | WriteTmp n => (7, n) | RenameTmp => (8, 0)
  end.

(* what reopening an image showed: the family's tables with their content, and the number the next table received *)
Record robs := { r_ok : bool; r_files : list (fileno * content); r_next : nat }.
(* an image: taken inside operation number i_op after i_k of its model file-system operations *)
Record image := { i_op : nat; i_k : nat; i_obs : robs }.

Definition steps_of (s : fs) (m : option mem) (o : hop) : option (list fsop * mem) :=
  match o, m with
  | HOpen, _ => open_steps s
  | HFlush c, Some mm => Some (op_steps mm (Flush c))
  | HCompact c, Some mm => Some (op_steps mm (Compact c))
  | _, None => None
  end.

Fixpoint pairs_eq (a b : list (nat * nat)) : bool :=
  match a, b with
  | [], [] => true
  | (x, y) :: a', (x', y') :: b' => (x =? x') && (y =? y') && pairs_eq a' b'
  | _, _ => false
  end.
Definition files_eq (a b : list (fileno * content)) : bool :=
  forallb (fun p => existsb (fun q => (fst p =? fst q) && (snd p =? snd q)) b) a &&
  forallb (fun p => existsb (fun q => (fst p =? fst q) && (snd p =? snd q)) a) b && (length a =? length b).

Definition image_ok (s : fs) (l : list fsop) (im : image) : bool :=
  let s' := exec s (firstn (i_k im) l) in
  match recover s' with
  | None => false
  | Some (nx, mn, v) =>
      match visible s' v with
      | None => false
      | Some g => r_ok (i_obs im) && files_eq g (r_files (i_obs im)) && (r_next (i_obs im) =? nx)
      end
  end.

(* the first open of a fresh store writes no family snapshot record (no family exists yet): drop it from the trace *)
Definition real_trace (first : bool) (l : list fsop) : list (nat * nat) :=
  map proj (filter (fun o => match o with AppendRec _ (RFam [] [] None) => negb first | _ => true end) l).

Fixpoint cmp (s : fs) (m : option mem) (first : bool) (i : nat) (ops : list hop) (traces : list (list (nat * nat))) (ims : list image) : nat :=
  match ops, traces with
  | [], [] => 0
  | o :: ops', t :: traces' =>
      match steps_of s m o with
      | None => 700 + i
      | Some (l, m') =>
          if negb (pairs_eq (real_trace (first && match o with HOpen => true | _ => false end) l) t) then 100 + i
          else if negb (forallb (fun im => if i_op im =? i then image_ok s l im else true) ims) then 400 + i
          else cmp (exec s l) (match o with HOpen => Some m' | _ => Some m' end) (first && match o with HOpen => false | _ => true end) (S i) ops' traces' ims
      end
  | _, _ => 799
  end.

(* ---- oracle: from the ledger of completed operations (with the table numbers the implementation used) ---- *)
Record done := { d_op : hop; d_table : nat }.     (* table number created by the operation (0 for open) *)
Definition ledger_step (g : list (fileno * content)) (d : done) : list (fileno * content) :=
  match d_op d with
  | HOpen => g
  | HFlush c => (d_table d, c) :: g
  | HCompact c => [(d_table d, c)]
  end.
Definition ledger (ds : list done) : list (fileno * content) := fold_left ledger_step ds [].
Definition oracle_image (ds : list done) (im : image) : nat :=
  let before := ledger (firstn (i_op im) ds) in
  let after := ledger (firstn (S (i_op im)) ds) in
  let o := i_obs im in
  if negb (r_ok o) then 101                                                            (* reopening failed *)
  else if negb (files_eq before (r_files o) || files_eq after (r_files o)) then 102      (* neither the committed state nor that plus the operation in flight *)
  else if negb (forallb (fun p => fst p <? r_next o) (r_files o)) then 103               (* a new table reuses a referenced number *)
  else 0.
Fixpoint first_nz (l : list nat) : nat := match l with [] => 0 | x :: r => if x =? 0 then first_nz r else x end.

Definition check_hist (ops : list hop) (traces : list (list (nat * nat))) (ds : list done) (ims : list image) : nat * nat :=
  (cmp fs0 None true 0 ops traces ims, first_nz (map (oracle_image ds) ims)).

(* ---- several families of one store: operations and, after each of them, for every pool name the id under which it is
   registered (None = no such family) and the contents its family shows ---- *)
From LinDBV.C01 Require Families.
Definition fobs := list (option nat * list nat).
Definition nat_list_eqb (a b : list nat) : bool := if list_eq_dec Nat.eq_dec a b then true else false.
Definition oid_eqb (a b : option nat) : bool :=
  match a, b with Some x, Some y => x =? y | None, None => true | _, _ => false end.
Fixpoint distinct_ids (l : list (option nat)) : bool :=
  match l with
  | [] => true
  | None :: l' => distinct_ids l'
  | Some x :: l' => negb (existsb (fun y => oid_eqb y (Some x)) l') && distinct_ids l'
  end.
Fixpoint fam_go (pool : list nat) (s : Families.st) (ops : list Families.op) (obs : list fobs) (k : nat) (acc : nat * nat)
  : nat * nat :=
  match ops, obs with
  | o :: ops', ob :: obs' =>
    let s' := Families.step true true s o in
    let corr_ok := (length ob =? length pool) &&
      forallb (fun '(n, (oid, cs)) => oid_eqb (Families.lookup n (Families.fams (Families.m s'))) oid
                                      && nat_list_eqb (Families.view s' n) cs) (combine pool ob) in
    let orac_ok := forallb (fun '(n, (_, cs)) => nat_list_eqb cs (Families.committed s' n)) (combine pool ob)
                   && distinct_ids (map fst ob) in
    fam_go pool s' ops' obs' (S k)
      ((if (fst acc =? 0) && negb corr_ok then k else fst acc), (if (snd acc =? 0) && negb orac_ok then 120 else snd acc))
  | [], [] => acc
  | _, _ => (if fst acc =? 0 then 999 else fst acc, snd acc)
  end.
Definition check_families (pool : list nat) (ops : list Families.op) (obs : list fobs) : nat * nat :=
  fam_go pool Families.init ops obs 1 (0, 0).

(* the same with groups of operations: the commits of one group ran at the same time (each on its own goroutine, queued
   behind one another on the store's manifest lock) and are observed once, after all of them returned; the model applies
   them one after the other, in the order of their table numbers *)
Fixpoint famg_go (pool : list nat) (s : Families.st) (groups : list (list Families.op)) (obs : list fobs) (k : nat) (acc : nat * nat)
  : nat * nat :=
  match groups, obs with
  | g :: groups', ob :: obs' =>
    let s' := fold_left (Families.step true true) g s in
    let corr_ok := (length ob =? length pool) &&
      forallb (fun '(n, (oid, cs)) => oid_eqb (Families.lookup n (Families.fams (Families.m s'))) oid
                                      && nat_list_eqb (Families.view s' n) cs) (combine pool ob) in
    let orac_ok := forallb (fun '(n, (_, cs)) => nat_list_eqb cs (Families.committed s' n)) (combine pool ob)
                   && distinct_ids (map fst ob) in
    famg_go pool s' groups' obs' (S k)
      ((if (fst acc =? 0) && negb corr_ok then k else fst acc), (if (snd acc =? 0) && negb orac_ok then 120 else snd acc))
  | [], [] => acc
  | _, _ => (if fst acc =? 0 then 999 else fst acc, snd acc)
  end.
Definition check_family_groups (pool : list nat) (groups : list (list Families.op)) (obs : list fobs) : nat * nat :=
  famg_go pool Families.init groups obs 1 (0, 0).
