(* C01 — several families of one store: the family-id bookkeeping (kv/store.go newStore / CreateFamily, the OPTIONS file,
   kv/version/version_set.go recover: a manifest record is routed to a family by its id).

   The base model (Model.v / Proofs.v) treats one family at file-system granularity: a flush or compaction appears
   entirely or not at all after a crash.  This layer sits above it, at operation granularity (an operation is atomic by the
   base theorem; a crash or a clean close is the event Reopen between two operations), and says what ties a committed
   table to ITS family across restarts: the family ids.

   disk: OPTIONS (family name -> id, replaced atomically) and the manifest's records (family id, content).
   memory: the registered families, the family-id sequence.
   Two switches describe plausible slips:
   [restore_seq = false]: the sequence is not restored from OPTIONS at open (stays 0) - the first family created after a
       reopen gets id 1 again;
   [inc_first = false]: CreateFamily takes the id before incrementing (the counter means "next free id" while running but
       open restores it as "highest id in use") - the first family created after a reopen gets the id of the newest
       family. *)
From Coq Require Import List Arith Lia Bool.
Import ListNotations.

Definition name := nat. Definition fid := nat. Definition content := nat.

Record disk := { opts : list (name * fid); recs : list (fid * content) }.
Record mem := { fams : list (name * fid); fseq : nat }.
Record st := { d : disk; m : mem; ghost : list (name * content) (* what was committed into which family, by name *) }.

Fixpoint lookup (n : name) (l : list (name * fid)) : option fid :=
  match l with [] => None | (k, v) :: l' => if Nat.eqb k n then Some v else lookup n l' end.

Inductive op := CreateFam (n : name) | Flush (n : name) (c : content) | Reopen.

Section Code.
Variables restore_seq inc_first : bool.

Definition max_id (l : list (name * fid)) : nat := fold_right (fun p acc => Nat.max (snd p) acc) 0 l.

Definition step (s : st) (o : op) : st :=
  match o with
  | CreateFam n =>
    match lookup n (fams (m s)) with
    | Some _ => s                                         (* returns the existing family *)
    | None =>
      let id := if inc_first then S (fseq (m s)) else fseq (m s) in
      {| d := {| opts := opts (d s) ++ [(n, id)]; recs := recs (d s) |};
         m := {| fams := fams (m s) ++ [(n, id)]; fseq := S (fseq (m s)) |};
         ghost := ghost s |}
    end
  | Flush n c =>
    match lookup n (fams (m s)) with
    | None => s                                           (* no such family: the harness does not do this *)
    | Some id =>
      {| d := {| opts := opts (d s); recs := recs (d s) ++ [(id, c)] |}; m := m s; ghost := ghost s ++ [(n, c)] |}
    end
  | Reopen =>
    {| d := d s;
       m := {| fams := opts (d s); fseq := if restore_seq then max_id (opts (d s)) else 0 |};
       ghost := ghost s |}
  end.
Definition run (s : st) (l : list op) : st := fold_left step l s.
End Code.

Definition init : st := {| d := {| opts := []; recs := [] |}; m := {| fams := []; fseq := 0 |}; ghost := [] |}.

(* what a reader of family [n] sees: the records carrying the id under which [n] is registered *)
Definition view (s : st) (n : name) : list content :=
  match lookup n (fams (m s)) with
  | Some id => map snd (filter (fun r => Nat.eqb (fst r) id) (recs (d s)))
  | None => []
  end.
(* what was committed into family [n] *)
Definition committed (s : st) (n : name) : list content :=
  map snd (filter (fun r => Nat.eqb (fst r) n) (ghost s)).
