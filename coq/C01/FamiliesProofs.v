(* C01 — families layer, proofs: with the id sequence restored at open and incremented before it is taken, every history
   of create-family / flush / reopen shows in every family exactly what was committed into it, and ids are one-to-one;
   without either, a history mixes two families. *)
From Coq Require Import List Arith Lia Bool.
Import ListNotations.
From LinDBV.C01 Require Import Families.

Lemma lookup_in n l id : lookup n l = Some id -> In (n, id) l.
Proof.
  induction l as [|[k v] l IH]; cbn; [discriminate|].
  destruct (Nat.eqb_spec k n) as [E|E]; intros H.
  - inversion H. subst. left. reflexivity.
  - right. auto.
Qed.
Lemma lookup_none_notin n l id : lookup n l = None -> ~ In (n, id) l.
Proof.
  induction l as [|[k v] l IH]; cbn; [tauto|].
  destruct (Nat.eqb_spec k n) as [E|E]; [discriminate|].
  intros H [H1|H1]; [inversion H1; congruence|exact (IH H H1)].
Qed.
Lemma lookup_app_some n l l' id : lookup n l = Some id -> lookup n (l ++ l') = Some id.
Proof. induction l as [|[k v] l IH]; cbn; [discriminate|]. destruct (Nat.eqb k n); auto. Qed.
Lemma lookup_app_none n l k v : lookup n l = None -> lookup n (l ++ [(k, v)]) = if Nat.eqb k n then Some v else None.
Proof.
  induction l as [|[k' v'] l IH]; cbn; [reflexivity|]. destruct (Nat.eqb k' n); [discriminate|exact IH].
Qed.

Lemma max_id_ge l n id : In (n, id) l -> id <= max_id l.
Proof.
  unfold max_id. induction l as [|[k v] l IH]; cbn [fold_right snd In]; [tauto|]. intros [H|H].
  - inversion H. subst. lia.
  - specialize (IH H). lia.
Qed.

Definition one_to_one (l : list (name * fid)) : Prop :=
  forall n1 i1 n2 i2, In (n1, i1) l -> In (n2, i2) l -> (n1 = n2 <-> i1 = i2).

Definition sel {A} (k : nat) (l : list (nat * A)) : list A := map snd (filter (fun r => Nat.eqb (fst r) k) l).
Lemma sel_app {A} k (l l' : list (nat * A)) : sel k (l ++ l') = sel k l ++ sel k l'.
Proof. unfold sel. rewrite filter_app, map_app. reflexivity. Qed.

Record Inv (s : st) : Prop := {
  i_fams : fams (m s) = opts (d s);
  i_bound : forall n id, In (n, id) (opts (d s)) -> id <= fseq (m s);
  i_121 : one_to_one (opts (d s));
  i_recs : forall id c, In (id, c) (recs (d s)) -> exists n, In (n, id) (opts (d s));
  i_view : forall n id, lookup n (opts (d s)) = Some id -> sel id (recs (d s)) = sel n (ghost s);
  i_none : forall n, lookup n (opts (d s)) = None -> sel n (ghost s) = [] }.

Lemma in_lookup l n id : one_to_one l -> In (n, id) l -> lookup n l = Some id.
Proof.
  intros O H. destruct (lookup n l) as [v|] eqn:E.
  - f_equal. apply (O n v n id); [exact (lookup_in _ _ _ E)|exact H|reflexivity].
  - exfalso. exact (lookup_none_notin _ _ id E H).
Qed.

Lemma sel_none_id s id : Inv s -> fseq (m s) < id -> sel id (recs (d s)) = [].
Proof.
  intros HI Hlt. unfold sel.
  assert (H : forall l : list (fid * content), (forall i c, In (i, c) l -> i <= fseq (m s)) -> filter (fun r => Nat.eqb (fst r) id) l = []).
  { induction l as [|[i c] l IH]; intros Hl; cbn; [reflexivity|].
    destruct (Nat.eqb_spec i id) as [E|E].
    - specialize (Hl i c (or_introl eq_refl)). lia.
    - apply IH. intros i' c' H'. apply (Hl i' c'). right. exact H'. }
  rewrite H; [reflexivity|]. intros i c Hin. destruct (i_recs s HI i c Hin) as [n Hn]. exact (i_bound s HI n i Hn).
Qed.

Lemma step_inv s o : Inv s -> Inv (step true true s o).
Proof.
  intros HI. destruct o as [n|n c|]; cbn [step].
  - (* CreateFam *)
    rewrite (i_fams s HI). destruct (lookup n (opts (d s))) as [id|] eqn:El; [exact HI|].
    set (id := S (fseq (m s))).
    constructor; cbn [d m opts recs fams fseq ghost].
    + reflexivity.
    + intros n' id' H. apply in_app_or in H. destruct H as [H|[H|[]]].
      * specialize (i_bound s HI n' id' H). lia.
      * inversion H. subst. unfold id. lia.
    + intros n1 i1 n2 i2 H1 H2. apply in_app_or in H1, H2.
      destruct H1 as [H1|[H1|[]]], H2 as [H2|[H2|[]]].
      * exact (i_121 s HI _ _ _ _ H1 H2).
      * inversion H2. subst n2 i2. pose proof (i_bound s HI n1 i1 H1). split; intros E.
        -- subst n1. exfalso. exact (lookup_none_notin _ _ i1 El H1).
        -- unfold id in E. lia.
      * inversion H1. subst n1 i1. pose proof (i_bound s HI n2 i2 H2). split; intros E.
        -- subst n2. exfalso. exact (lookup_none_notin _ _ i2 El H2).
        -- unfold id in E. lia.
      * inversion H1. inversion H2. subst. tauto.
    + intros i c H. destruct (i_recs s HI i c H) as [n' Hn']. exists n'. apply in_or_app. left. exact Hn'.
    + intros n' id' H. destruct (lookup n' (opts (d s))) as [v|] eqn:E.
      * rewrite (lookup_app_some _ _ _ _ E) in H. inversion H. subst v. exact (i_view s HI n' id' E).
      * rewrite (lookup_app_none _ _ _ _ E) in H. destruct (Nat.eqb_spec n n') as [En|En]; [|discriminate].
        inversion H. subst n' id'. rewrite (i_none s HI n E). apply sel_none_id; [exact HI|unfold id; lia].
    + intros n' H. destruct (lookup n' (opts (d s))) as [v|] eqn:E.
      * rewrite (lookup_app_some _ _ _ _ E) in H. discriminate.
      * exact (i_none s HI n' E).
  - (* Flush *)
    rewrite (i_fams s HI). destruct (lookup n (opts (d s))) as [id|] eqn:El; [|exact HI].
    pose proof (lookup_in _ _ _ El) as Hin.
    constructor; cbn [d m opts recs fams fseq ghost].
    + exact (i_fams s HI).
    + exact (i_bound s HI).
    + exact (i_121 s HI).
    + intros i c' H. apply in_app_or in H. destruct H as [H|[H|[]]].
      * exact (i_recs s HI i c' H).
      * inversion H. subst. exists n. exact Hin.
    + intros n' id' H. rewrite !sel_app. rewrite (i_view s HI n' id' H). f_equal.
      unfold sel. cbn [filter fst snd]. pose proof (lookup_in _ _ _ H) as Hin'.
      destruct (Nat.eqb_spec id id') as [E1|E1], (Nat.eqb_spec n n') as [E2|E2]; try reflexivity.
      * exfalso. apply E2. apply (i_121 s HI n id n' id' Hin Hin'). exact E1.
      * exfalso. apply E1. apply (i_121 s HI n id n' id' Hin Hin'). exact E2.
    + intros n' H. rewrite sel_app, (i_none s HI n' H). unfold sel. cbn [filter fst snd].
      destruct (Nat.eqb_spec n n') as [E|E]; [subst n'; congruence|reflexivity].
  - (* Reopen *)
    constructor; cbn [d m opts recs fams fseq ghost].
    + reflexivity.
    + intros n id H. exact (max_id_ge _ _ _ H).
    + exact (i_121 s HI).
    + exact (i_recs s HI).
    + exact (i_view s HI).
    + exact (i_none s HI).
Qed.

Lemma init_inv : Inv init.
Proof.
  constructor; cbn; try tauto; try discriminate.
  intros ? ? ? ? [].
Qed.

Lemma run_inv l : forall s, Inv s -> Inv (run true true s l).
Proof. induction l as [|o l IH]; intros s H; [exact H|]. cbn. apply IH. apply step_inv. exact H. Qed.

(* every history of create-family / flush / reopen: every family shows exactly what was committed into it, in commit
   order, and the family ids are one-to-one with the names *)
Theorem families_routed : forall l n,
  let s := run true true init l in
  view s n = committed s n /\ one_to_one (opts (d s)).
Proof.
  intros l n s. assert (HI : Inv s) by (apply run_inv; exact init_inv).
  split; [|exact (i_121 s HI)].
  unfold view, committed. rewrite (i_fams s HI). fold (sel n (ghost s)).
  destruct (lookup n (opts (d s))) as [id|] eqn:E.
  - exact (i_view s HI n id E).
  - symmetry. exact (i_none s HI n E).
Qed.

(* the slips *)
Definition mixed (s : st) (names : list name) : bool :=
  existsb (fun n => negb (if list_eq_dec Nat.eq_dec (view s n) (committed s n) then true else false)) names.

(* life 1: family 1, flush a; reopen; create family 2 (id 1 again), flush b into 2 and c into 1; reopen *)
Definition hist := [CreateFam 1; Flush 1 10; Reopen; CreateFam 2; Flush 2 20; Flush 1 11; Reopen].

Theorem seq_not_restored_refuted : mixed (run false true init hist) [1; 2] = true.
Proof. vm_compute. reflexivity. Qed.
Theorem id_taken_before_increment_refuted : mixed (run true false init hist) [1; 2] = true.
Proof. vm_compute. reflexivity. Qed.
Example code_as_it_is_on_that_history : mixed (run true true init hist) [1; 2] = false.
Proof. vm_compute. reflexivity. Qed.
