(* C01 — crash atomicity of the kv store, one family: abstract file system at record granularity (manifests with
   their synced records, CURRENT, CURRENT.tmp, table files partial/closed), the file-system operations of flush,
   compaction and open in program order (kv/flusher.go, kv/compact_job.go, kv/version/version_set.go initJournal /
   setCurrent / CommitFamilyEditLog / recover, kv/store.go deleteObsoleteFiles, kv/family.go deleteObsoleteFiles), a
   crash between any two of them.  Definitions only. *)
From Coq Require Import List Arith Lia Bool.
Import ListNotations.

(* one family; a table's whole key/value content is an opaque id *)
Definition fileno := nat. Definition content := nat.

Inductive rec := RStore (next : nat) | RFam (adds dels : list fileno) (onext : option nat).

Record fs := {
  mans : list (nat * list rec);              (* MANIFEST-n -> synced records (newest binding first) *)
  cur : option nat;                          (* CURRENT *)
  tmp : option nat;                          (* CURRENT.tmp *)
  tabs : list (fileno * option content)      (* table files: None = created/partial, Some c = closed *)
}.
Definition fs0 : fs := {| mans := []; cur := None; tmp := None; tabs := [] |}.

Fixpoint alookup {A} (n : nat) (l : list (nat * A)) : option A :=
  match l with [] => None | (k, v) :: l' => if k =? n then Some v else alookup n l' end.
Definition aset {A} (n : nat) (v : A) (l : list (nat * A)) : list (nat * A) := (n, v) :: l.
Definition adel {A} (n : nat) (l : list (nat * A)) : list (nat * A) := filter (fun kv => negb (fst kv =? n)) l.

Inductive fsop :=
| CreateTab (n : fileno) | CloseTab (n : fileno) (c : content) | RemoveTab (n : fileno)
| CreateMan (n : nat) | AppendRec (n : nat) (r : rec) | RemoveMan (n : nat)
| WriteTmp (n : nat) | RenameTmp.

Definition apply_fs (s : fs) (o : fsop) : fs :=
  match o with
  | CreateTab n => {| mans := mans s; cur := cur s; tmp := tmp s; tabs := aset n None (tabs s) |}
  | CloseTab n c => {| mans := mans s; cur := cur s; tmp := tmp s; tabs := aset n (Some c) (tabs s) |}
  | RemoveTab n => {| mans := mans s; cur := cur s; tmp := tmp s; tabs := adel n (tabs s) |}
  | CreateMan n => {| mans := aset n [] (mans s); cur := cur s; tmp := tmp s; tabs := tabs s |}
  | AppendRec n r =>
    match alookup n (mans s) with
    | Some rs => {| mans := aset n (rs ++ [r]) (mans s); cur := cur s; tmp := tmp s; tabs := tabs s |}
    | None => s
    end
  | RemoveMan n => {| mans := adel n (mans s); cur := cur s; tmp := tmp s; tabs := tabs s |}
  | WriteTmp n => {| mans := mans s; cur := cur s; tmp := Some n; tabs := tabs s |}
  | RenameTmp => match tmp s with Some n => {| mans := mans s; cur := Some n; tmp := None; tabs := tabs s |} | None => s end
  end.

(* volatile state of the running store *)
Record mem := { next : nat; mno : nat; mfile : nat; vers : list fileno }.

Definition rm (dels l : list fileno) : list fileno := filter (fun x => negb (existsb (Nat.eqb x) dels)) l.

(* replay of the manifest named by CURRENT (storeVersionSet.recover) *)
Definition replay1 (st : nat * nat * list fileno) (r : rec) : nat * nat * list fileno :=
  let '(nx, mn, v) := st in
  match r with
  | RStore n => (n + 1, n, v)
  | RFam adds dels on =>
    let v' := adds ++ rm dels v in
    match on with Some n => (n + 1, n, v') | None => (nx, mn, v') end
  end.
Definition replay (rs : list rec) := fold_left replay1 rs (2, 1, []).

Definition recover (s : fs) : option (nat * nat * list fileno) :=
  match cur s with
  | None => Some (2, 1, [])                     (* new store *)
  | Some n => match alookup n (mans s) with Some rs => Some (replay rs) | None => None end
  end.

(* high-level operations *)
Inductive op := Flush (c : content) | Compact (c : content).

(* the file-system operations of one operation, in program order, and the memory state after it.
   the position of the committing AppendRec is where the operation takes effect *)
Definition op_steps (m : mem) (o : op) : list fsop * mem :=
  let n := next m in
  let nx := n + 1 in                                         (* next after allocating n *)
  match o with
  | Flush c =>
    ([CreateTab n; CloseTab n c; AppendRec (mfile m) (RFam [n] [] (Some nx))],
     {| next := nx + 1; mno := nx; mfile := mfile m; vers := n :: vers m |})
  | Compact c =>
    ([CreateTab n; CloseTab n c; AppendRec (mfile m) (RFam [n] (vers m) (Some nx))] ++ map RemoveTab (vers m),
     {| next := nx + 1; mno := nx; mfile := mfile m; vers := [n] |})
  end.

(* opening: recover, then a new manifest with a full snapshot, switch CURRENT, delete the stale files *)
Definition open_steps (s : fs) : option (list fsop * mem) :=
  match recover s with
  | None => None
  | Some (nx, mn, v) =>
    Some ([CreateMan mn; AppendRec mn (RFam v [] None); AppendRec mn (RStore nx); WriteTmp mn; RenameTmp]
            ++ map RemoveMan (filter (fun k => negb (k =? mn)) (nodup Nat.eq_dec (map fst (mans s))))
            ++ map RemoveTab (filter (fun k => negb (existsb (Nat.eqb k) v)) (nodup Nat.eq_dec (map fst (tabs s)))),
          {| next := nx; mno := mn; mfile := mn; vers := v |})
  end.

Definition exec (s : fs) (l : list fsop) : fs := fold_left apply_fs l s.

(* ghost: the logical content = files with their content, updated exactly when an operation commits *)
Definition ghost := list (fileno * content).
Definition commit (g : ghost) (m : mem) (o : op) : ghost :=
  match o with Flush c => (next m, c) :: g | Compact c => [(next m, c)] end.
(* number of fs-ops after which the operation is committed *)
Definition commit_point (o : op) : nat := 3.

Inductive reach : fs -> ghost -> option mem -> Prop :=
| r_init : reach fs0 [] None
| r_crash s g m : reach s g (Some m) -> reach s g None
| r_open_cut s g l m k : reach s g None -> open_steps s = Some (l, m) -> reach (exec s (firstn k l)) g None
| r_open s g l m : reach s g None -> open_steps s = Some (l, m) -> reach (exec s l) g (Some m)
| r_op s g m o : reach s g (Some m) ->
    reach (exec s (fst (op_steps m o))) (commit g m o) (Some (snd (op_steps m o)))
| r_op_cut s g m o k : reach s g (Some m) ->
    reach (exec s (firstn k (fst (op_steps m o)))) (if commit_point o <=? k then commit g m o else g) None.

(* what a reader of the recovered store sees *)
Definition visible (s : fs) (v : list fileno) : option (list (fileno * content)) :=
  fold_right (fun n acc => match alookup n (tabs s), acc with Some (Some c), Some r => Some ((n, c) :: r) | _, _ => None end) (Some []) v.

Definition crash_ok (s : fs) (g : ghost) : Prop :=
  exists nx mn v, recover s = Some (nx, mn, v) /\ visible s v = Some g /\
     (forall n, In n v -> n < mn) /\ mn < nx.

