(* C01 — proofs *)
From Coq Require Import List Arith Lia Bool.
Import ListNotations.
From LinDBV.C01 Require Import Model.

(* ================= proofs ================= *)
Lemma alookup_aset_same {A} n (v : A) l : alookup n (aset n v l) = Some v.
Proof. unfold aset. simpl. rewrite Nat.eqb_refl. reflexivity. Qed.
Lemma alookup_aset_other {A} n k (v : A) l : k <> n -> alookup n (aset k v l) = alookup n l.
Proof. unfold aset. simpl. intros H. destruct (Nat.eqb_spec k n); congruence. Qed.
Lemma alookup_adel_other {A} n k (l : list (nat * A)) : k <> n -> alookup n (adel k l) = alookup n l.
Proof.
  intros H. unfold adel. induction l as [|[a v] l IH]; simpl; [reflexivity|].
  destruct (Nat.eqb_spec a k) as [->|Hak]; simpl.
  - destruct (Nat.eqb_spec k n); [congruence|]. exact IH.
  - destruct (a =? n); [reflexivity|exact IH].
Qed.

Lemma visible_ext s s' v : (forall n, In n v -> alookup n (tabs s') = alookup n (tabs s)) -> visible s' v = visible s v.
Proof.
  induction v as [|n v IH]; intros H; simpl; [reflexivity|].
  rewrite (H n (or_introl eq_refl)). rewrite IH; [reflexivity|]. intros k Hk. apply H. right; exact Hk.
Qed.

(* removing tables / manifests that are not looked at changes nothing that matters *)
Lemma exec_removetabs ks : forall s,
  mans (exec s (map RemoveTab ks)) = mans s /\ cur (exec s (map RemoveTab ks)) = cur s /\
  tmp (exec s (map RemoveTab ks)) = tmp s /\
  (forall n, ~ In n ks -> alookup n (tabs (exec s (map RemoveTab ks))) = alookup n (tabs s)).
Proof.
  induction ks as [|k ks IH]; intros s; simpl; [auto|].
  destruct (IH (apply_fs s (RemoveTab k))) as (H1 & H2 & H3 & H4). simpl in *.
  repeat split; auto. intros n Hn. rewrite H4 by tauto. apply alookup_adel_other. intro E. apply Hn. left. exact E.
Qed.
Lemma exec_removemans ks : forall s,
  tabs (exec s (map RemoveMan ks)) = tabs s /\ cur (exec s (map RemoveMan ks)) = cur s /\
  tmp (exec s (map RemoveMan ks)) = tmp s /\
  (forall n, ~ In n ks -> alookup n (mans (exec s (map RemoveMan ks))) = alookup n (mans s)).
Proof.
  induction ks as [|k ks IH]; intros s; simpl; [auto|].
  destruct (IH (apply_fs s (RemoveMan k))) as (H1 & H2 & H3 & H4). simpl in *.
  repeat split; auto. intros n Hn. rewrite H4 by tauto. apply alookup_adel_other. intro E. apply Hn. left. exact E.
Qed.

Lemma exec_app s a b : exec s (a ++ b) = exec (exec s a) b.
Proof. unfold exec. apply fold_left_app. Qed.

Lemma firstn_map {A B} (f : A -> B) k l : firstn k (map f l) = map f (firstn k l).
Proof. revert k; induction l as [|x l IH]; intros [|k]; simpl; auto. f_equal. apply IH. Qed.
Lemma In_firstn {A} (x : A) k l : In x (firstn k l) -> In x l.
Proof. revert k; induction l as [|y l IH]; intros [|k]; simpl; try tauto. intros [H|H]; auto. right. eapply IH; eauto. Qed.

Lemma rm_self v : rm v v = [].
Proof.
  unfold rm. assert (H : forall l, (forall x, In x l -> In x v) -> filter (fun x => negb (existsb (Nat.eqb x) v)) l = []).
  { induction l as [|x l IH]; intros Hl; simpl; [reflexivity|].
    assert (existsb (Nat.eqb x) v = true) as ->.
    { apply existsb_exists. exists x. split; [apply Hl; left; reflexivity|apply Nat.eqb_refl]. }
    simpl. apply IH. intros y Hy. apply Hl. right; exact Hy. }
  apply H. auto.
Qed.
Lemma rm_nil v : rm [] v = v.
Proof. unfold rm. induction v as [|x v IH]; simpl; [reflexivity|]. f_equal. exact IH. Qed.

Lemma replay_app rs r : replay (rs ++ [r]) = replay1 (replay rs) r.
Proof. unfold replay. rewrite fold_left_app. reflexivity. Qed.

(* the state of a dead process's directory *)
Definition Dead (s : fs) (g : ghost) : Prop :=
  exists nx mn v, recover s = Some (nx, mn, v) /\ visible s v = Some g /\
     (forall n, In n v -> n < mn) /\ mn < nx /\ (forall c, cur s = Some c -> c < mn).

(* the directory and the memory of a running store agree *)
Definition Live (s : fs) (g : ghost) (m : mem) : Prop :=
  cur s = Some (mfile m) /\
  exists rs nxr mnr, alookup (mfile m) (mans s) = Some rs /\ replay rs = (nxr, mnr, vers m) /\
     mnr <= next m <= nxr /\ mfile m < mnr /\ mnr < nxr /\
     visible s (vers m) = Some g /\ (forall n, In n (vers m) -> n < mnr).

Lemma Live_Dead s g m : Live s g m -> Dead s g.
Proof.
  intros (Hc & rs & nxr & mnr & Hl & Hr & Hn & Hf & Hlt & Hv & Hb).
  exists nxr, mnr, (vers m). unfold recover. rewrite Hc, Hl, Hr. repeat split; auto.
  intros c E. inversion E; subst. exact Hf.
Qed.

Lemma Live_removetabs s g m ks : Live s g m -> (forall n, In n ks -> ~ In n (vers m)) ->
  Live (exec s (map RemoveTab ks)) g m.
Proof.
  intros (Hc & rs & nxr & mnr & Hl & Hr & Hn & Hf & Hlt & Hv & Hb) Hks.
  destruct (exec_removetabs ks s) as (E1 & E2 & E3 & E4).
  assert (Hv' : visible (exec s (map RemoveTab ks)) (vers m) = Some g).
  { rewrite <- Hv. apply visible_ext. intros n Hin. apply E4. intro Hk. exact (Hks n Hk Hin). }
  split; [rewrite E2; exact Hc|]. exists rs, nxr, mnr. rewrite E1.
  split; [exact Hl|]. split; [exact Hr|]. split; [exact Hn|]. split; [exact Hf|]. split; [exact Hlt|]. split; [exact Hv'|exact Hb].
Qed.

Lemma exec3 s n c mf r rs : alookup mf (mans s) = Some rs ->
  exec s [CreateTab n; CloseTab n c; AppendRec mf r] =
  {| mans := aset mf (rs ++ [r]) (mans s); cur := cur s; tmp := tmp s; tabs := aset n (Some c) (aset n None (tabs s)) |}.
Proof. intros H. unfold exec. simpl. rewrite H. reflexivity. Qed.

Lemma visible_cons s n v : visible s (n :: v) =
  match alookup n (tabs s), visible s v with Some (Some c), Some r => Some ((n, c) :: r) | _, _ => None end.
Proof. reflexivity. Qed.

(* the three steps up to and including the committing record *)
Lemma op_commit s g m o :
  Live s g m ->
  Live (exec s (firstn 3 (fst (op_steps m o)))) (commit g m o) (snd (op_steps m o)).
Proof.
  intros (Hc & rs & nxr & mnr & Hl & Hr & Hn & Hf & Hlt & Hv & Hb).
  set (n := next m).
  assert (Hfresh : forall k, In k (vers m) -> k <> n) by (intros k Hk; specialize (Hb k Hk); unfold n; lia).
  assert (Hvis : forall r c, visible {| mans := aset (mfile m) (rs ++ [r]) (mans s); cur := cur s; tmp := tmp s;
                            tabs := aset n (Some c) (aset n None (tabs s)) |} (vers m) = Some g).
  { intros r c. rewrite <- Hv. apply visible_ext. intros k Hk. cbn [tabs].
    rewrite !alookup_aset_other by (apply not_eq_sym, Hfresh, Hk). reflexivity. }
  destruct o as [c|c]; cbn [op_steps fst snd firstn app commit]; fold n;
    rewrite (exec3 s n c (mfile m) _ rs Hl); (split; [exact Hc|]).
  - (* Flush *)
    exists (rs ++ [RFam [n] [] (Some (n + 1))]), (n + 1 + 1), (n + 1). cbn [vers next mno mfile mans].
    split; [apply alookup_aset_same|]. split; [rewrite replay_app, Hr; cbn [replay1]; rewrite rm_nil; reflexivity|].
    split; [lia|]. split; [unfold n; lia|]. split; [lia|]. split.
    + rewrite visible_cons. cbn [tabs]. rewrite alookup_aset_same. rewrite Hvis. reflexivity.
    + intros k [<-|Hk]; [lia|]. specialize (Hb k Hk). unfold n. lia.
  - (* Compact *)
    exists (rs ++ [RFam [n] (vers m) (Some (n + 1))]), (n + 1 + 1), (n + 1). cbn [vers next mno mfile mans].
    split; [apply alookup_aset_same|]. split; [rewrite replay_app, Hr; cbn [replay1]; rewrite rm_self; reflexivity|].
    split; [lia|]. split; [unfold n; lia|]. split; [lia|]. split.
    + rewrite visible_cons. cbn [tabs visible fold_right]. rewrite alookup_aset_same. reflexivity.
    + intros k [<-|[]]. lia.
Qed.

Lemma Live_tabs s s' g m : Live s g m -> mans s' = mans s -> cur s' = cur s ->
  (forall n, In n (vers m) -> alookup n (tabs s') = alookup n (tabs s)) -> Live s' g m.
Proof.
  intros (Hc & rs & nxr & mnr & Hl & Hr & Hn & Hf & Hlt & Hv & Hb) Em Ec Et.
  split; [rewrite Ec; exact Hc|]. exists rs, nxr, mnr. rewrite Em.
  split; [exact Hl|]. split; [exact Hr|]. split; [exact Hn|]. split; [exact Hf|]. split; [exact Hlt|]. split; [|exact Hb].
  rewrite <- Hv. apply visible_ext, Et.
Qed.

Lemma op_full s g m o : Live s g m ->
  Live (exec s (fst (op_steps m o))) (commit g m o) (snd (op_steps m o)).
Proof.
  intros HL. pose proof (op_commit s g m o HL) as H3.
  destruct HL as (Hc & rs & nxr & mnr & Hl & Hr & Hn & Hf & Hlt & Hv & Hb).
  destruct o as [c|c]; cbn [op_steps fst snd] in *.
  - exact H3.
  - rewrite exec_app. cbn [firstn app] in H3.
    apply Live_removetabs; [exact H3|]. cbn [vers]. intros k Hk [E|[]]. specialize (Hb k Hk). lia.
Qed.

Lemma op_cut s g m o k : Live s g m ->
  Dead (exec s (firstn k (fst (op_steps m o)))) (if commit_point o <=? k then commit g m o else g).
Proof.
  intros HL. pose proof (op_commit s g m o HL) as H3.
  assert (Hfresh : forall j, In j (vers m) -> j <> next m).
  { destruct HL as (_ & rs & nxr & mnr & _ & _ & Hn & _ & _ & _ & Hb). intros j Hj. specialize (Hb j Hj). lia. }
  unfold commit_point.
  destruct k as [|[|[|k]]]; cbn [Nat.leb].
  - (* nothing done *) cbn [firstn exec fold_left]. apply (Live_Dead _ _ m), HL.
  - (* table created *)
    apply (Live_Dead _ _ m). destruct o; cbn [op_steps fst firstn exec fold_left apply_fs];
      (eapply Live_tabs; [exact HL|reflexivity|reflexivity|]); intros j Hj; cbn [tabs];
      apply alookup_aset_other, not_eq_sym, Hfresh, Hj.
  - (* table closed, record not yet appended *)
    apply (Live_Dead _ _ m). destruct o; cbn [op_steps fst firstn app exec fold_left apply_fs];
      (eapply Live_tabs; [exact HL|reflexivity|reflexivity|]); intros j Hj; cbn [tabs];
      rewrite !alookup_aset_other by (apply not_eq_sym, Hfresh, Hj); reflexivity.
  - (* committed; possibly some of the input tables already removed *)
    apply (Live_Dead _ _ (snd (op_steps m o))).
    destruct o as [c|c]; cbn [op_steps fst snd] in *.
    + cbn [firstn app] in *. destruct k; exact H3.
    + change (firstn (S (S (S k))) ([CreateTab (next m); CloseTab (next m) c; AppendRec (mfile m) (RFam [next m] (vers m) (Some (next m + 1)))] ++ map RemoveTab (vers m)))
        with ([CreateTab (next m); CloseTab (next m) c; AppendRec (mfile m) (RFam [next m] (vers m) (Some (next m + 1)))] ++ firstn k (map RemoveTab (vers m))).
      rewrite exec_app, firstn_map. cbn [firstn app] in H3.
      apply Live_removetabs; [exact H3|]. cbn [vers]. intros j Hj [E|[]]. apply In_firstn in Hj. apply (Hfresh j Hj). symmetry. exact E.
Qed.

Lemma Live_removemans s g m ks : Live s g m -> ~ In (mfile m) ks -> Live (exec s (map RemoveMan ks)) g m.
Proof.
  intros (Hc & rs & nxr & mnr & Hl & Hr & Hn & Hf & Hlt & Hv & Hb) Hks.
  destruct (exec_removemans ks s) as (E1 & E2 & E3 & E4).
  split; [rewrite E2; exact Hc|]. exists rs, nxr, mnr.
  split; [rewrite E4; [exact Hl|exact Hks]|]. split; [exact Hr|]. split; [exact Hn|]. split; [exact Hf|]. split; [exact Hlt|].
  split; [|exact Hb]. rewrite <- Hv. apply visible_ext. intros n _. rewrite E1. reflexivity.
Qed.

Definition pre (nx mn : nat) (v : list fileno) : list fsop :=
  [CreateMan mn; AppendRec mn (RFam v [] None); AppendRec mn (RStore nx); WriteTmp mn; RenameTmp].

Lemma apply_append s n r rs : alookup n (mans s) = Some rs ->
  apply_fs s (AppendRec n r) = {| mans := aset n (rs ++ [r]) (mans s); cur := cur s; tmp := tmp s; tabs := tabs s |}.
Proof. intros H. cbn [apply_fs]. rewrite H. reflexivity. Qed.

Definition st1 s (mn : nat) := {| mans := aset mn [] (mans s); cur := cur s; tmp := tmp s; tabs := tabs s |}.
Definition st2 s mn (v : list fileno) := {| mans := aset mn [RFam v [] None] (aset mn [] (mans s)); cur := cur s; tmp := tmp s; tabs := tabs s |}.
Definition st3 s mn v (nx : nat) := {| mans := aset mn [RFam v [] None; RStore nx] (aset mn [RFam v [] None] (aset mn [] (mans s)));
                                     cur := cur s; tmp := tmp s; tabs := tabs s |}.
Definition st4 s mn v nx := {| mans := mans (st3 s mn v nx); cur := cur s; tmp := Some mn; tabs := tabs s |}.
Definition st5 s mn v nx := {| mans := mans (st3 s mn v nx); cur := Some mn; tmp := None; tabs := tabs s |}.

Lemma pre_states s nx mn v :
  exec s (firstn 1 (pre nx mn v)) = st1 s mn /\ exec s (firstn 2 (pre nx mn v)) = st2 s mn v /\
  exec s (firstn 3 (pre nx mn v)) = st3 s mn v nx /\ exec s (firstn 4 (pre nx mn v)) = st4 s mn v nx /\
  exec s (pre nx mn v) = st5 s mn v nx.
Proof.
  assert (E1 : apply_fs s (CreateMan mn) = st1 s mn) by reflexivity.
  assert (E2 : apply_fs (st1 s mn) (AppendRec mn (RFam v [] None)) = st2 s mn v).
  { rewrite (apply_append _ _ _ []); [reflexivity|apply alookup_aset_same]. }
  assert (E3 : apply_fs (st2 s mn v) (AppendRec mn (RStore nx)) = st3 s mn v nx).
  { rewrite (apply_append _ _ _ [RFam v [] None]); [reflexivity|apply alookup_aset_same]. }
  assert (E4 : apply_fs (st3 s mn v nx) (WriteTmp mn) = st4 s mn v nx) by reflexivity.
  assert (E5 : apply_fs (st4 s mn v nx) RenameTmp = st5 s mn v nx) by reflexivity.
  unfold exec, pre. cbn [firstn fold_left]. rewrite E1, E2, E3, E4, E5. auto.
Qed.

Lemma exec_pre s nx mn v : exec s (pre nx mn v) = st5 s mn v nx.
Proof. apply pre_states. Qed.

(* before the rename nothing that recovery looks at has changed *)
Lemma pre_cut_dead s g nx mn v k : k <= 4 ->
  recover s = Some (nx, mn, v) -> visible s v = Some g -> (forall n, In n v -> n < mn) -> mn < nx ->
  (forall c, cur s = Some c -> c < mn) ->
  Dead (exec s (firstn k (pre nx mn v))) g.
Proof.
  intros Hk Hrec Hvis Hb Hlt Hc.
  assert (G : forall s', cur s' = cur s -> tabs s' = tabs s ->
              (forall c, c <> mn -> alookup c (mans s') = alookup c (mans s)) -> Dead s' g).
  { intros s' Ec Et Em. exists nx, mn, v.
    split; [|split; [|split; [exact Hb|split; [exact Hlt|]]]].
    - unfold recover in *. rewrite Ec. destruct (cur s) as [c|] eqn:E; [|exact Hrec].
      rewrite Em; [exact Hrec|]. specialize (Hc c eq_refl). lia.
    - transitivity (visible s v); [|exact Hvis]. apply visible_ext. intros n _. rewrite Et. reflexivity.
    - intros c E. apply Hc. rewrite <- Ec. exact E. }
  destruct (pre_states s nx mn v) as (P1 & P2 & P3 & P4 & _).
  destruct k as [|[|[|[|[|k]]]]]; try lia.
  - apply G; auto.
  - rewrite P1. apply G; [reflexivity|reflexivity|]. intros c Hne. unfold st1; cbn [mans]. rewrite !alookup_aset_other by auto. reflexivity.
  - rewrite P2. apply G; [reflexivity|reflexivity|]. intros c Hne. unfold st2; cbn [mans]. rewrite !alookup_aset_other by auto. reflexivity.
  - rewrite P3. apply G; [reflexivity|reflexivity|]. intros c Hne. unfold st3; cbn [mans]. rewrite !alookup_aset_other by auto. reflexivity.
  - rewrite P4. apply G; [reflexivity|reflexivity|]. intros c Hne. unfold st4, st3; cbn [mans]. rewrite !alookup_aset_other by auto. reflexivity.
Qed.

Lemma pre_live s g nx mn v :
  visible s v = Some g -> (forall n, In n v -> n < mn) -> mn < nx ->
  Live (exec s (pre nx mn v)) g {| next := nx; mno := mn; mfile := mn; vers := v |}.
Proof.
  intros Hvis Hb Hlt. rewrite exec_pre. unfold st5, st3. split; [reflexivity|].
  exists [RFam v [] None; RStore nx], (nx + 1), nx. cbn [mfile vers next mans].
  split; [apply alookup_aset_same|]. split.
  { unfold replay. cbn [fold_left replay1]. rewrite rm_nil. cbn [app]. rewrite app_nil_r. reflexivity. }
  split; [lia|]. split; [lia|]. split; [lia|]. split.
  - transitivity (visible s v); [|exact Hvis]. apply visible_ext. intros n _. reflexivity.
  - intros n Hn. specialize (Hb n Hn). lia.
Qed.

Lemma open_shape s l m : open_steps s = Some (l, m) ->
  exists nx mn v ks ts, recover s = Some (nx, mn, v) /\
    l = pre nx mn v ++ map RemoveMan ks ++ map RemoveTab ts /\
    m = {| next := nx; mno := mn; mfile := mn; vers := v |} /\
    ~ In mn ks /\ (forall t, In t ts -> ~ In t v).
Proof.
  unfold open_steps. destruct (recover s) as [[[nx mn] v]|] eqn:E; [|discriminate].
  intros H. inversion H; subst. exists nx, mn, v.
  exists (filter (fun k => negb (k =? mn)) (nodup Nat.eq_dec (map fst (mans s)))), (filter (fun k => negb (existsb (Nat.eqb k) v)) (nodup Nat.eq_dec (map fst (tabs s)))).
  repeat split; auto.
  - intros Hin. apply filter_In in Hin as [_ Hf]. rewrite Nat.eqb_refl in Hf. discriminate.
  - intros t Hin Hv. apply filter_In in Hin as [_ Hf]. apply negb_true_iff in Hf.
    assert (existsb (Nat.eqb t) v = true) by (apply existsb_exists; exists t; split; [exact Hv|apply Nat.eqb_refl]). congruence.
Qed.

Lemma open_live_prefix s g nx mn v ks ts j1 j2 :
  visible s v = Some g -> (forall n, In n v -> n < mn) -> mn < nx ->
  ~ In mn ks -> (forall t, In t ts -> ~ In t v) ->
  Live (exec s (pre nx mn v ++ map RemoveMan (firstn j1 ks) ++ map RemoveTab (firstn j2 ts))) g
       {| next := nx; mno := mn; mfile := mn; vers := v |}.
Proof.
  intros Hvis Hb Hlt Hks Hts. rewrite !exec_app.
  apply Live_removetabs; [apply Live_removemans; [apply pre_live; assumption|]|].
  - cbn [mfile]. intro H. apply Hks. eapply In_firstn; eauto.
  - cbn [vers]. intros t Ht. apply Hts. eapply In_firstn; eauto.
Qed.

Lemma open_full s g l m : Dead s g -> open_steps s = Some (l, m) -> Live (exec s l) g m.
Proof.
  intros (nx & mn & v & Hrec & Hvis & Hb & Hlt & Hc) Ho.
  destruct (open_shape s l m Ho) as (nx' & mn' & v' & ks & ts & Hrec' & -> & -> & Hks & Hts).
  rewrite Hrec in Hrec'. inversion Hrec'; subst nx' mn' v'.
  pose proof (open_live_prefix s g nx mn v ks ts (length ks) (length ts) Hvis Hb Hlt Hks Hts) as H.
  rewrite !firstn_all in H. exact H.
Qed.

Lemma firstn_app_le {A} (a b : list A) k : k <= length a -> firstn k (a ++ b) = firstn k a.
Proof. intros H. rewrite firstn_app. replace (k - length a) with 0 by lia. simpl. apply app_nil_r. Qed.

Lemma open_cut s g l m k : Dead s g -> open_steps s = Some (l, m) -> Dead (exec s (firstn k l)) g.
Proof.
  intros (nx & mn & v & Hrec & Hvis & Hb & Hlt & Hc) Ho.
  destruct (open_shape s l m Ho) as (nx' & mn' & v' & ks & ts & Hrec' & -> & -> & Hks & Hts).
  rewrite Hrec in Hrec'. inversion Hrec'; subst nx' mn' v'.
  destruct (le_lt_dec k 4) as [Hk|Hk].
  - rewrite firstn_app_le by (simpl; lia). apply pre_cut_dead; assumption.
  - (* the rename has happened: some prefix of the deletions *)
    rewrite firstn_app. replace (firstn k (pre nx mn v)) with (pre nx mn v) by (symmetry; apply firstn_all2; simpl; lia).
    rewrite firstn_app, !firstn_map.
    eapply Live_Dead. apply open_live_prefix; assumption.
Qed.

(* ---------- the property ---------- *)
Theorem crash_atomic_durable s g p : reach s g p ->
  Dead s g /\ (forall m, p = Some m -> Live s g m).
Proof.
  induction 1 as [|s g m H IH|s g l m k H IH Ho|s g l m H IH Ho|s g m o H IH|s g m o k H IH].
  - split; [|intros ? E; discriminate]. exists 2, 1, []. repeat split; auto; try lia; [intros ? []|intros ? E; discriminate].
  - destruct IH as [Hd _]. split; [exact Hd|intros ? E; discriminate].
  - destruct IH as [Hd _]. split; [eapply open_cut; eauto|intros ? E; discriminate].
  - destruct IH as [Hd _]. pose proof (open_full s g l m Hd Ho) as HL.
    split; [eapply Live_Dead; exact HL|]. intros m' E. inversion E; subst. exact HL.
  - destruct IH as [_ HL]. specialize (HL m eq_refl). pose proof (op_full s g m o HL) as HL'.
    split; [eapply Live_Dead; exact HL'|]. intros m' E. inversion E; subst. exact HL'.
  - destruct IH as [_ HL]. specialize (HL m eq_refl). split; [apply op_cut, HL|intros ? E; discriminate].
Qed.

(* corollaries in the words of the property *)
Corollary reopen_never_blocked s g p : reach s g p -> open_steps s <> None.
Proof.
  intros H. destruct (crash_atomic_durable s g p H) as [(nx & mn & v & Hrec & _) _].
  unfold open_steps. rewrite Hrec. discriminate.
Qed.
Corollary recovered_content_is_committed s g p : reach s g p ->
  exists nx mn v, recover s = Some (nx, mn, v) /\ visible s v = Some g /\ (forall n, In n v -> n < mn) /\ mn < nx.
Proof.
  intros H. destruct (crash_atomic_durable s g p H) as [(nx & mn & v & H1 & H2 & H3 & H4 & _) _]. exists nx, mn, v. auto.
Qed.

(* numbers handed out after recovery are above everything the recovered state references *)
Corollary fresh_numbers s g p l m : reach s g p -> open_steps s = Some (l, m) ->
  (forall n, In n (vers m) -> n < next m) /\ mfile m < next m /\ visible s (vers m) = Some g.
Proof.
  intros H Ho. destruct (crash_atomic_durable s g p H) as [(nx & mn & v & Hrec & Hvis & Hb & Hlt & _) _].
  unfold open_steps in Ho. rewrite Hrec in Ho. inversion Ho; subst. cbn [vers next mfile].
  repeat split; auto. intros n Hn. specialize (Hb n Hn). lia.
Qed.
