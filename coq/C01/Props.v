(* C01 — the property theorems *)
From Coq Require Import List Arith Bool.
Import ListNotations.
From LinDBV.C01 Require Import Model Proofs.

(* every state the directory can be left in - after any history of open / flush / compaction, each of them cut between
   any two of its file-system operations, recovery itself included - reopens, and shows exactly the committed content *)
Theorem C01_crash_atomic_durable s g p : reach s g p ->
  Dead s g /\ (forall m, p = Some m -> Live s g m).
Proof. exact (crash_atomic_durable s g p). Qed.
Print Assumptions C01_crash_atomic_durable.

Theorem C01_reopen_never_blocked s g p : reach s g p -> open_steps s <> None.
Proof. exact (reopen_never_blocked s g p). Qed.
Print Assumptions C01_reopen_never_blocked.

Theorem C01_recovered_content_is_committed s g p : reach s g p ->
  exists nx mn v, recover s = Some (nx, mn, v) /\ visible s v = Some g /\ (forall n, In n v -> n < mn) /\ mn < nx.
Proof. exact (recovered_content_is_committed s g p). Qed.
Print Assumptions C01_recovered_content_is_committed.

Theorem C01_fresh_numbers s g p l m : reach s g p -> open_steps s = Some (l, m) ->
  (forall n, In n (vers m) -> n < next m) /\ mfile m < next m /\ visible s (vers m) = Some g.
Proof. exact (fresh_numbers s g p l m). Qed.
Print Assumptions C01_fresh_numbers.

(* several families of one store (kv/store.go newStore / CreateFamily, OPTIONS, manifest records routed by family id), at
   operation granularity: every history of create-family / flush / reopen shows in every family exactly what was committed
   into it, in commit order, and family ids are one-to-one with the family names *)
From LinDBV.C01 Require Families FamiliesProofs.
Theorem C01_families_routed : forall l n,
  let s := Families.run true true Families.init l in
  Families.view s n = Families.committed s n /\ FamiliesProofs.one_to_one (Families.opts (Families.d s)).
Proof. exact FamiliesProofs.families_routed. Qed.
Print Assumptions C01_families_routed.
(* the id sequence not restored at open / the id taken before the increment: a family created after a reopen shares an id *)
Theorem C01_seq_not_restored_refuted :
  FamiliesProofs.mixed (Families.run false true Families.init FamiliesProofs.hist) [1; 2] = true.
Proof. exact FamiliesProofs.seq_not_restored_refuted. Qed.
Print Assumptions C01_seq_not_restored_refuted.
Theorem C01_id_taken_before_increment_refuted :
  FamiliesProofs.mixed (Families.run true false Families.init FamiliesProofs.hist) [1; 2] = true.
Proof. exact FamiliesProofs.id_taken_before_increment_refuted. Qed.
Print Assumptions C01_id_taken_before_increment_refuted.
