(* C01 — the property theorems *)
From Coq Require Import List Arith Bool.
Import ListNotations.
From LinDBV.C01 Require Import Model Proofs.

(* every state the directory can be left in - after any history of open / flush / compaction, each of them cut between
   any two of its file-system operations, recovery itself included - reopens, and shows exactly the committed content *)
Theorem C01_crash_atomic_durable s g p : reach s g p ->
  Dead s g /\ (forall m, p = Some m -> Live s g m).
Proof. exact (crash_atomic_durable s g p). Qed.
Print Assumptions C01_crash_atomic_durable.

Theorem C01_reopen_never_blocked s g p : reach s g p -> open_steps s <> None.
Proof. exact (reopen_never_blocked s g p). Qed.
Print Assumptions C01_reopen_never_blocked.

Theorem C01_recovered_content_is_committed s g p : reach s g p ->
  exists nx mn v, recover s = Some (nx, mn, v) /\ visible s v = Some g /\ (forall n, In n v -> n < mn) /\ mn < nx.
Proof. exact (recovered_content_is_committed s g p). Qed.
Print Assumptions C01_recovered_content_is_committed.

Theorem C01_fresh_numbers s g p l m : reach s g p -> open_steps s = Some (l, m) ->
  (forall n, In n (vers m) -> n < next m) /\ mfile m < next m /\ visible s (vers m) = Some g.
Proof. exact (fresh_numbers s g p l m). Qed.
Print Assumptions C01_fresh_numbers.
