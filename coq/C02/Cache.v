(* C02 — the table reader cache of a store (kv/table/cache.go): readers are opened on the first request for a file and
   shared; every request retains the entry, closing a snapshot releases once per reader it was handed
   (kv/version/snapshot.go Close -> ReleaseReaders); the entries are kept in order of last use (every request and
   every release moves the entry to the front); Cleanup closes (unmaps) entries from the least recently used end as
   long as nobody references them (the TTL is taken as expired) and stops at the first referenced one; Evict closes
   the reader of a deleted file.
   [retain_on_hit = true]: the code.  [false]: a cache hit that does not count the new holder (refuted below). *)
From Coq Require Import List Arith ZArith Lia Bool.
Import ListNotations.

Definition file := nat.
Record cst := {
  entries : list (file * Z);          (* open readers, most recently used first: file, reference count *)
  holders : list (nat * list file);   (* open snapshots: id, the readers handed to it, in request order (with multiplicity) *)
  closed_held : bool                  (* ghost: a reader was closed while an open snapshot held it *)
}.
Definition cinit : cst := {| entries := []; holders := []; closed_held := false |}.
Inductive cev := CGet (s : nat) (f : file) | CRelease (s : nat) | CCleanup | CEvict (f : file).

Fixpoint ref_of (f : file) (es : list (file * Z)) : option Z :=
  match es with [] => None | (g, r) :: es' => if Nat.eqb g f then Some r else ref_of f es' end.
Definition remove_key (f : file) (es : list (file * Z)) : list (file * Z) := filter (fun p => negb (Nat.eqb (fst p) f)) es.
(* use: the entry moves to the front with its new count *)
Definition touch (f : file) (r : Z) (es : list (file * Z)) : list (file * Z) := (f, r) :: remove_key f es.
Fixpoint held_of (s : nat) (hs : list (nat * list file)) : list file :=
  match hs with [] => [] | (t, l) :: hs' => if Nat.eqb t s then l else held_of s hs' end.
Fixpoint add_held (s : nat) (f : file) (hs : list (nat * list file)) : list (nat * list file) :=
  match hs with
  | [] => [(s, [f])]
  | (t, l) :: hs' => if Nat.eqb t s then (t, l ++ [f]) :: hs' else (t, l) :: add_held s f hs'
  end.
Definition drop_holder (s : nat) (hs : list (nat * list file)) : list (nat * list file) :=
  filter (fun h => negb (Nat.eqb (fst h) s)) hs.
Definition all_held (hs : list (nat * list file)) : list file := flat_map snd hs.
Definition is_held (f : file) (hs : list (nat * list file)) : bool := existsb (Nat.eqb f) (all_held hs).
Definition release_all (l : list file) (es : list (file * Z)) : list (file * Z) :=
  fold_left (fun es f => match ref_of f es with Some r => touch f (r - 1)%Z es | None => es end) l es.
(* from the least recently used end, as long as nobody references the entry *)
Fixpoint drop_zero (l : list (file * Z)) : list (file * Z) :=
  match l with (f, r) :: l' => if Z.eqb r 0 then drop_zero l' else l | [] => [] end.
Definition cleanup (es : list (file * Z)) : list (file * Z) := rev (drop_zero (rev es)).

Definition cstep (retain_on_hit : bool) (c : cst) (e : cev) : cst :=
  match e with
  | CGet s f =>
      let es := match ref_of f (entries c) with
                | Some r => touch f (if retain_on_hit then r + 1 else r)%Z (entries c)
                | None => (f, 1%Z) :: entries c
                end in
      {| entries := es; holders := add_held s f (holders c); closed_held := closed_held c |}
  | CRelease s =>
      {| entries := release_all (held_of s (holders c)) (entries c); holders := drop_holder s (holders c); closed_held := closed_held c |}
  | CCleanup =>
      let gone := filter (fun p => match ref_of (fst p) (cleanup (entries c)) with Some _ => false | None => true end) (entries c) in
      {| entries := cleanup (entries c); holders := holders c;
         closed_held := closed_held c || existsb (fun p => is_held (fst p) (holders c)) gone |}
  | CEvict f =>
      {| entries := filter (fun p => negb (Nat.eqb (fst p) f)) (entries c); holders := holders c;
         closed_held := closed_held c || (match ref_of f (entries c) with Some _ => is_held f (holders c) | None => false end) |}
  end.
Definition crun (b : bool) (evs : list cev) : cst := fold_left (cstep b) evs cinit.
(* Evict is called for files no active version holds (C02's first theorem): no open snapshot holds their reader *)
Definition cev_ok (c : cst) (e : cev) : bool :=
  match e with CEvict f => negb (is_held f (holders c)) | _ => true end.
Fixpoint crun_ok (b : bool) (c : cst) (evs : list cev) : bool :=
  match evs with [] => true | e :: r => cev_ok c e && crun_ok b (cstep b c e) r end.
