(* C02 — the table reader cache: no reader is closed while an open snapshot holds it *)
From Coq Require Import List Arith ZArith Lia Bool.
Import ListNotations.
From LinDBV.C02 Require Import Cache.

Definition cnt (f : file) (l : list file) : nat := length (filter (Nat.eqb f) l).
Lemma cnt_app f a b : cnt f (a ++ b) = (cnt f a + cnt f b)%nat.
Proof. unfold cnt. rewrite filter_app, app_length. reflexivity. Qed.
Lemma cnt_cons f x l : cnt f (x :: l) = ((if Nat.eqb f x then 1 else 0) + cnt f l)%nat.
Proof. unfold cnt. cbn [filter]. destruct (Nat.eqb f x); reflexivity. Qed.
Lemma cnt_pos_in f l : (0 < cnt f l)%nat <-> In f l.
Proof.
  unfold cnt. induction l as [|x l IH]; cbn [filter]; [cbn; split; [lia|tauto]|].
  destruct (Nat.eqb_spec f x) as [->|Hne]; cbn [length In].
  - split; [intros _; left; reflexivity|lia].
  - rewrite IH. split; [intros H; right; exact H|intros [H|H]; [congruence|exact H]].
Qed.
Lemma is_held_in f hs : is_held f hs = true <-> In f (all_held hs).
Proof.
  unfold is_held. rewrite existsb_exists. split.
  - intros [x [Hx E]]. apply Nat.eqb_eq in E. subst. exact Hx.
  - intros H. exists f. split; [exact H|apply Nat.eqb_refl].
Qed.

(* ---- entries ---- *)
Lemma ref_of_none_notin f es : ref_of f es = None <-> ~ In f (map fst es).
Proof.
  induction es as [|[g r] es IH]; cbn [ref_of map fst In]; [tauto|].
  destruct (Nat.eqb_spec g f) as [->|Hne]; [split; [discriminate|intros H; exfalso; apply H; left; reflexivity]|].
  rewrite IH. split; [intros H [E|E]; [congruence|exact (H E)]|intros H E; apply H; right; exact E].
Qed.
Lemma ref_of_remove_key f g es : ref_of g (remove_key f es) = if Nat.eqb g f then None else ref_of g es.
Proof.
  unfold remove_key. induction es as [|[h r0] es IH]; cbn [filter ref_of fst]; [destruct (Nat.eqb g f); reflexivity|].
  destruct (Nat.eqb_spec h f) as [->|Hhf]; cbn [negb ref_of].
  - rewrite IH. destruct (Nat.eqb_spec g f) as [->|Hgf]; [reflexivity|]. destruct (Nat.eqb_spec f g); [congruence|reflexivity].
  - rewrite IH. destruct (Nat.eqb_spec h g) as [->|Hhg]; [|reflexivity]. destruct (Nat.eqb_spec g f); [congruence|reflexivity].
Qed.
Lemma ref_of_touch f r g es : ref_of g (touch f r es) = if Nat.eqb g f then Some r else ref_of g es.
Proof.
  unfold touch. cbn [ref_of]. rewrite ref_of_remove_key. destruct (Nat.eqb_spec f g) as [->|Hne]; [rewrite Nat.eqb_refl; reflexivity|].
  destruct (Nat.eqb_spec g f); [congruence|reflexivity].
Qed.
Lemma remove_key_keys f es : NoDup (map fst es) -> NoDup (map fst (remove_key f es)) /\ ~ In f (map fst (remove_key f es)).
Proof.
  unfold remove_key. induction es as [|[h r] es IH]; intros Hn; [split; [constructor|intros []]|].
  cbn [map fst] in Hn. inversion Hn as [|? ? Hh Hn']; subst. destruct (IH Hn') as [A B]. cbn [filter fst].
  destruct (Nat.eqb_spec h f) as [->|Hne]; cbn [negb]; [split; assumption|]. cbn [map fst]. split.
  - constructor; [|exact A]. intros H. apply Hh. clear -H. induction es as [|[g s] es IH]; [destruct H|]. cbn [filter fst] in H.
    destruct (Nat.eqb g f); cbn [negb map fst In] in *; [right; apply IH, H|destruct H as [H|H]; [left; exact H|right; apply IH, H]].
  - intros [H|H]; [congruence|exact (B H)].
Qed.
Lemma touch_keys f r es : NoDup (map fst es) -> NoDup (map fst (touch f r es)).
Proof. intros Hn. unfold touch. cbn [map fst]. destruct (remove_key_keys f es Hn) as [A B]. constructor; assumption. Qed.
Lemma ref_of_filter (p : file * Z -> bool) g es : NoDup (map fst es) ->
  ref_of g (filter p es) = match ref_of g es with Some r => if p (g, r) then Some r else None | None => None end.
Proof.
  induction es as [|[h r] es IH]; intros Hn; [reflexivity|]. cbn [map fst] in Hn. inversion Hn as [|? ? Hh Hn']; subst.
  cbn [filter ref_of]. destruct (Nat.eqb_spec h g) as [->|Hne].
  - destruct (p (g, r)) eqn:Ep; cbn [ref_of]; [rewrite Nat.eqb_refl; reflexivity|].
    rewrite (IH Hn'). assert (ref_of g es = None) by (apply ref_of_none_notin; exact Hh). rewrite H. reflexivity.
  - destruct (p (h, r)); cbn [ref_of]; [destruct (Nat.eqb_spec h g); [congruence|]|]; apply IH, Hn'.
Qed.
Lemma filter_keys_nodup (p : file * Z -> bool) es : NoDup (map fst es) -> NoDup (map fst (filter p es)).
Proof.
  induction es as [|[h r] es IH]; intros Hn; [constructor|]. cbn [map fst] in Hn. inversion Hn as [|? ? Hh Hn']; subst.
  cbn [filter]. destruct (p (h, r)); [|apply IH, Hn']. cbn [map fst]. constructor; [|apply IH, Hn'].
  intros H. apply Hh. clear -H. induction es as [|[g s] es IH]; [destruct H|]. cbn [filter] in H.
  destruct (p (g, s)); cbn [map fst In] in *; [destruct H as [H|H]; [left; exact H|right; apply IH, H]|right; apply IH, H].
Qed.

(* releasing a list of readers *)
Lemma release_all_keys l : forall es, NoDup (map fst es) -> NoDup (map fst (release_all l es)).
Proof.
  unfold release_all. induction l as [|f l IH]; intros es Hn; [exact Hn|]. cbn [fold_left]. apply IH.
  destruct (ref_of f es); [apply touch_keys, Hn|exact Hn].
Qed.
Lemma release_all_ref l : forall es g, ref_of g (release_all l es) =
  match ref_of g es with Some r => Some (r - Z.of_nat (cnt g l))%Z | None => None end.
Proof.
  unfold release_all. induction l as [|f l IH]; intros es g; cbn [fold_left].
  - destruct (ref_of g es) as [r|]; [f_equal; cbn; lia|reflexivity].
  - rewrite IH. rewrite cnt_cons. destruct (ref_of f es) as [rf|] eqn:Ef.
    + rewrite ref_of_touch. destruct (Nat.eqb_spec g f) as [->|Hne].
      * rewrite Ef. f_equal. lia.
      * destruct (ref_of g es); [f_equal; lia|reflexivity].
    + destruct (Nat.eqb_spec g f) as [->|Hne]; [rewrite Ef; reflexivity|]. destruct (ref_of g es); [f_equal; lia|reflexivity].
Qed.

(* cleanup keeps a prefix and drops only entries nobody references *)
Lemma drop_zero_split l : exists z, l = z ++ drop_zero l /\ Forall (fun p => snd p = 0%Z) z.
Proof.
  induction l as [|[f r] l IH]; [exists []; split; [reflexivity|constructor]|]. cbn [drop_zero].
  destruct (Z.eqb_spec r 0) as [->|Hne]; [|exists []; split; [reflexivity|constructor]].
  destruct IH as [z [E Hz]]. exists ((f, 0%Z) :: z). split; [cbn [app]; f_equal; exact E|constructor; [reflexivity|exact Hz]].
Qed.
Lemma cleanup_split es : exists z, es = cleanup es ++ z /\ Forall (fun p => snd p = 0%Z) z.
Proof.
  unfold cleanup. destruct (drop_zero_split (rev es)) as [z [E Hz]]. exists (rev z). split.
  - rewrite <- rev_app_distr, <- E, rev_involutive. reflexivity.
  - apply Forall_rev, Hz.
Qed.
Lemma ref_of_app g a b : ref_of g (a ++ b) = match ref_of g a with Some r => Some r | None => ref_of g b end.
Proof. induction a as [|[h r] a IH]; [reflexivity|]. cbn [app ref_of]. destruct (Nat.eqb h g); [reflexivity|exact IH]. Qed.
Lemma ref_of_zeros g z r : Forall (fun p : file * Z => snd p = 0%Z) z -> ref_of g z = Some r -> r = 0%Z.
Proof.
  induction z as [|[h s] z IH]; intros Hz H; [discriminate|]. inversion Hz as [|? ? Hs0 Hz']. cbn [snd] in Hs0. cbn [ref_of] in H.
  destruct (Nat.eqb h g); [inversion H; congruence|apply IH; assumption].
Qed.
Lemma nodup_app_l {A} (a b : list A) : NoDup (a ++ b) -> NoDup a.
Proof.
  induction a as [|x a IH]; intros H; [constructor|]. cbn [app] in H. inversion H as [|? ? Hx H']; subst.
  constructor; [intros Hin; apply Hx, in_or_app; left; exact Hin|apply IH, H'].
Qed.
Lemma cleanup_keys es : NoDup (map fst es) -> NoDup (map fst (cleanup es)).
Proof.
  intros Hn. destruct (cleanup_split es) as [z [E _]]. rewrite E in Hn. rewrite map_app in Hn. apply nodup_app_l in Hn. exact Hn.
Qed.
(* what cleanup keeps is unchanged; what it drops had count 0 *)
Lemma cleanup_ref g es : NoDup (map fst es) ->
  match ref_of g (cleanup es) with
  | Some r => ref_of g es = Some r
  | None => ref_of g es = None \/ ref_of g es = Some 0%Z
  end.
Proof.
  intros Hn. destruct (cleanup_split es) as [z [E Hz]]. pose proof (f_equal (ref_of g) E) as Hes. rewrite ref_of_app in Hes.
  destruct (ref_of g (cleanup es)) as [r|]; [exact Hes|]. destruct (ref_of g z) as [r|] eqn:Ez; [|left; exact Hes].
  right. rewrite Hes. f_equal. eapply ref_of_zeros; eassumption.
Qed.

(* ---- holders ---- *)
Lemma add_held_cnt g s f hs : cnt g (all_held (add_held s f hs)) = ((if Nat.eqb g f then 1 else 0) + cnt g (all_held hs))%nat.
Proof.
  induction hs as [|[t l] hs IH]; cbn [add_held all_held flat_map snd].
  - rewrite app_nil_r. rewrite cnt_cons. cbn. lia.
  - destruct (Nat.eqb t s); cbn [all_held flat_map snd].
    + rewrite !cnt_app, cnt_cons. cbn. lia.
    + rewrite !cnt_app. unfold all_held in IH. rewrite IH. lia.
Qed.
Lemma add_held_keys s f hs : NoDup (map fst hs) -> NoDup (map fst (add_held s f hs)).
Proof.
  induction hs as [|[t l] hs IH]; intros Hn; cbn [add_held]; [repeat constructor; intros []|].
  cbn [map fst] in Hn. inversion Hn as [|? ? Ht Hn']; subst.
  destruct (Nat.eqb_spec t s) as [->|Hne]; cbn [map fst]; [constructor; assumption|].
  constructor; [|apply IH, Hn']. intros H. apply Ht. clear -H Hne.
  induction hs as [|[u m] hs IH]; cbn [add_held map fst In] in *; [destruct H as [H|[]]; congruence|].
  destruct (Nat.eqb u s); cbn [map fst In] in H; [exact H|]. destruct H as [H|H]; [left; exact H|right; apply IH, H].
Qed.
Lemma drop_holder_keys s hs : NoDup (map fst hs) -> NoDup (map fst (drop_holder s hs)).
Proof.
  unfold drop_holder. induction hs as [|[t l] hs IH]; intros Hn; [constructor|]. cbn [map fst] in Hn. inversion Hn as [|? ? Ht Hn']; subst.
  cbn [filter fst]. destruct (Nat.eqb t s); cbn [negb]; [apply IH, Hn'|]. cbn [map fst]. constructor; [|apply IH, Hn'].
  intros H. apply Ht. clear -H. induction hs as [|[u m] hs IH]; [destruct H|]. cbn [filter fst] in H.
  destruct (Nat.eqb u s); cbn [negb map fst In] in *; [right; apply IH, H|destruct H as [H|H]; [left; exact H|right; apply IH, H]].
Qed.
Lemma split_holder g s hs : NoDup (map fst hs) ->
  cnt g (all_held hs) = (cnt g (held_of s hs) + cnt g (all_held (drop_holder s hs)))%nat.
Proof.
  unfold drop_holder, all_held. induction hs as [|[t l] hs IH]; intros Hn; [reflexivity|].
  cbn [map fst] in Hn. inversion Hn as [|? ? Ht Hn']; subst.
  cbn [held_of flat_map snd filter fst]. destruct (Nat.eqb_spec t s) as [->|Hne]; cbn [negb].
  - rewrite cnt_app. f_equal.
    assert (E : filter (fun h : nat * list file => negb (Nat.eqb (fst h) s)) hs = hs).
    { clear -Ht. induction hs as [|[u m] hs IH]; [reflexivity|]. cbn [filter fst map In] in *.
      destruct (Nat.eqb_spec u s) as [->|Hne]; [exfalso; apply Ht; left; reflexivity|]. cbn [negb]. f_equal. apply IH. intros H. apply Ht. right. exact H. }
    rewrite E. reflexivity.
  - cbn [flat_map snd]. rewrite !cnt_app. rewrite (IH Hn'). lia.
Qed.

(* ---- the invariant ---- *)
Record Inv (c : cst) : Prop := {
  i_keys : NoDup (map fst (entries c));
  i_ref : forall f r, ref_of f (entries c) = Some r -> r = Z.of_nat (cnt f (all_held (holders c)));
  i_open : forall f, In f (all_held (holders c)) -> ref_of f (entries c) <> None;
  i_safe : closed_held c = false;
  i_ids : NoDup (map fst (holders c))
}.
Lemma inv_init : Inv cinit.
Proof. constructor; cbn; try constructor; try discriminate; intros f []. Qed.

Lemma step_inv c e : Inv c -> cev_ok c e = true -> Inv (cstep true c e).
Proof.
  intros [Hk Hr Ho Hs Hi] Hok. destruct e as [s f|s| |f]; cbn [cstep].
  - (* request *)
    destruct (ref_of f (entries c)) as [r|] eqn:Ef; constructor; cbn [entries holders closed_held]; try assumption; try (apply add_held_keys; exact Hi).
    + apply touch_keys, Hk.
    + intros g r' H. rewrite add_held_cnt. rewrite ref_of_touch in H. destruct (Nat.eqb_spec g f) as [E|Hne].
      * subst g. inversion H; subst. rewrite (Hr f r Ef). lia.
      * rewrite (Hr g r' H). lia.
    + intros g Hg. rewrite ref_of_touch. destruct (Nat.eqb_spec g f) as [E|Hne]; [discriminate|].
      apply Ho. apply cnt_pos_in in Hg. rewrite add_held_cnt in Hg. destruct (Nat.eqb_spec g f); [congruence|]. apply cnt_pos_in. lia.
    + cbn [map fst]. constructor; [apply ref_of_none_notin, Ef|exact Hk].
    + intros g r' H. rewrite add_held_cnt. cbn [ref_of] in H. destruct (Nat.eqb_spec f g) as [E|Hne].
      * subst g. inversion H; subst. rewrite Nat.eqb_refl.
        assert (cnt f (all_held (holders c)) = 0%nat).
        { destruct (cnt f (all_held (holders c))) eqn:E'; [reflexivity|]. exfalso. apply (Ho f); [apply cnt_pos_in; lia|exact Ef]. }
        lia.
      * destruct (Nat.eqb_spec g f); [congruence|]. rewrite (Hr g r' H). lia.
    + intros g Hg. cbn [ref_of]. destruct (Nat.eqb_spec f g); [discriminate|]. apply Ho. apply cnt_pos_in in Hg. rewrite add_held_cnt in Hg.
      destruct (Nat.eqb_spec g f); [congruence|]. apply cnt_pos_in. lia.
  - (* close of a snapshot *)
    constructor; cbn [entries holders closed_held]; try assumption.
    + apply release_all_keys, Hk.
    + intros g r' H. rewrite release_all_ref in H. destruct (ref_of g (entries c)) as [r|] eqn:Eg; [|discriminate].
      inversion H; subst. rewrite (Hr g r Eg). rewrite (split_holder g s (holders c) Hi). lia.
    + intros g Hg. rewrite release_all_ref.
      assert (Hin : In g (all_held (holders c))).
      { apply cnt_pos_in. apply cnt_pos_in in Hg. rewrite (split_holder g s (holders c) Hi). lia. }
      destruct (ref_of g (entries c)) eqn:Eg; [discriminate|]. exfalso. exact (Ho g Hin Eg).
    + apply drop_holder_keys, Hi.
  - (* cleanup: only entries nobody references are closed *)
    assert (Hkept : forall g, In g (all_held (holders c)) -> ref_of g (cleanup (entries c)) <> None).
    { intros g Hg E. pose proof (cleanup_ref g (entries c) Hk) as H. rewrite E in H. destruct H as [H|H]; [exact (Ho g Hg H)|].
      pose proof (Hr g 0%Z H). apply cnt_pos_in in Hg. lia. }
    constructor; cbn [entries holders closed_held]; try assumption.
    + apply cleanup_keys, Hk.
    + intros g r' H. pose proof (cleanup_ref g (entries c) Hk) as H'. rewrite H in H'. apply Hr, H'.
    + rewrite Hs. cbn [orb].
      match goal with |- existsb ?P ?l = false => destruct (existsb P l) eqn:E; [|reflexivity] end.
      apply existsb_exists in E. destruct E as [[g r] [Hin Hh]]. apply filter_In in Hin. destruct Hin as [_ Hz]. cbn [fst] in *.
      apply is_held_in in Hh. specialize (Hkept g Hh). destruct (ref_of g (cleanup (entries c))); [discriminate|congruence].
  - (* evict: the file is held by no open snapshot *)
    cbn [cev_ok] in Hok. apply negb_true_iff in Hok.
    constructor; cbn [entries holders closed_held]; try assumption.
    + apply filter_keys_nodup, Hk.
    + intros g r' H. rewrite (ref_of_filter _ g _ Hk) in H. destruct (ref_of g (entries c)) as [r|] eqn:Eg; [|discriminate].
      cbn [fst] in H. destruct (Nat.eqb g f); cbn [negb] in H; [discriminate|]. inversion H; subst. apply Hr, Eg.
    + intros g Hg. rewrite (ref_of_filter _ g _ Hk). destruct (ref_of g (entries c)) as [r|] eqn:Eg; [|exfalso; exact (Ho g Hg Eg)].
      cbn [fst]. destruct (Nat.eqb_spec g f) as [E|Hne]; cbn [negb]; [subst g|discriminate].
      apply is_held_in in Hg. congruence.
    + rewrite Hs, Hok. destruct (ref_of f (entries c)); reflexivity.
Qed.

Lemma run_inv evs : forall c, Inv c -> crun_ok true c evs = true -> Inv (fold_left (cstep true) evs c).
Proof.
  induction evs as [|e evs IH]; intros c HI Hok; [exact HI|]. cbn [crun_ok] in Hok. apply andb_prop in Hok. destruct Hok as [H1 H2].
  cbn [fold_left]. apply IH; [apply step_inv; assumption|exact H2].
Qed.

(* every history of requests, snapshot closes, cleanups and evictions of files no open snapshot holds: no reader is
   closed while an open snapshot holds it, every held reader is open, and an entry's reference count is the number of
   times open snapshots hold it *)
Theorem cache_never_closes_held evs : crun_ok true cinit evs = true ->
  let c := crun true evs in
  closed_held c = false /\
  (forall f, In f (all_held (holders c)) -> ref_of f (entries c) <> None) /\
  (forall f r, ref_of f (entries c) = Some r -> r = Z.of_nat (cnt f (all_held (holders c)))).
Proof.
  intros Hok. cbv zeta. unfold crun. destruct (run_inv evs cinit inv_init Hok) as [_ Hr Ho Hs _]. repeat split; assumption.
Qed.

(* refuted for a cache hit that does not count the new holder: two snapshots share a reader, the first closes, the
   cleanup closes the reader under the second *)
Theorem uncounted_hit_refuted :
  crun_ok false cinit [CGet 1 7; CGet 2 7; CRelease 1; CCleanup] = true /\
  closed_held (crun false [CGet 1 7; CGet 2 7; CRelease 1; CCleanup]) = true.
Proof. vm_compute. split; reflexivity. Qed.

Example cache_nontrivial :
  let evs := [CGet 1 7; CGet 2 7; CGet 1 8; CRelease 1; CCleanup; CGet 3 8; CRelease 2; CCleanup; CEvict 7; CRelease 3] in
  crun_ok true cinit evs = true /\ entries (crun true evs) = [(8, 0%Z)] /\ holders (crun true evs) = [].
Proof. vm_compute. repeat split. Qed.
