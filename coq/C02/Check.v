(* C02 — executable checks: (correspondence code, oracle code); 0 = fine *)
From Coq Require Import List Arith Bool.
Import ListNotations.
From LinDBV.C02 Require Import Model.

Record obs := { o_disk : list nat; o_cur : list nat; o_active : list nat; o_snaps : list (list nat); o_healthy : bool }.

Definition subset (a b : list nat) : bool := forallb (fun x => mem x b) a.
Definition seteq (a b : list nat) : bool := subset a b && subset b a.
Definition files_or_nil (v : vid) (vs : list (vid * list file)) : list file :=
  match files_of v vs with Some fs => fs | None => [] end.
Fixpoint all2 {A B} (p : A -> B -> bool) (a : list A) (b : list B) : bool :=
  match a, b with [], [] => true | x :: a', y :: b' => p x y && all2 p a' b' | _, _ => false end.

Definition agree (s : st) (o : obs) : bool :=
  seteq (disk s) (o_disk o) && seteq (files_or_nil (cur s) (vers s)) (o_cur o) &&
  seteq (all_files (vers s)) (o_active o) &&
  all2 (fun v fs => seteq (files_or_nil v (vers s)) fs) (snaps s) (o_snaps o).

(* None: the harness could not look at the state after this event (inside a compaction run) *)
Fixpoint cmp (s : st) (evs : list ev) (os : list (option obs)) (i : nat) : nat :=
  match evs, os with
  | [], [] => 0
  | e :: evs', o :: os' =>
      let s' := step s e in
      match o with
      | None => cmp s' evs' os' (S i)
      | Some ob => if agree s' ob then cmp s' evs' os' (S i) else S i
      end
  | _, _ => 799
  end.

Fixpoint oracle (evs : list ev) (os : list (option obs)) : nat :=
  match evs, os with
  | e :: evs', None :: os' => oracle evs' os'
  | e :: evs', Some o :: os' =>
      if negb (forallb (fun fs => subset fs (o_disk o)) (o_snaps o)) then 101      (* a file of a held snapshot is gone *)
      else if negb (subset (o_cur o) (o_disk o)) then 104                           (* a table of the current version is gone *)
      else if negb (o_healthy o) then 102                                           (* a held snapshot no longer reads what it read at acquisition *)
      else if (match e with
               | Commit f _ => negb (mem f (o_cur o))
               | Snap => match o_snaps o with fs :: _ => negb (seteq fs (o_cur o)) | [] => true end
               | _ => false end) then 103                                           (* a completed commit is not in the current version / a new snapshot is not the current version *)
      else oracle evs' os'
  | _, _ => 0
  end.

Definition check_hist (evs : list ev) (os : list (option obs)) : nat * nat := (cmp init evs os 0, oracle evs os).

(* ---- the table reader cache: events (reader requests of snapshots, snapshot closes, cleanups) and, after every event,
   the cache's entries with their reference counts ---- *)
From Coq Require Import ZArith.
From LinDBV.C02 Require Cache.
Definition centries_eqb (a b : list (Cache.file * Z)) : bool :=
  Nat.eqb (length a) (length b) &&
  forallb (fun p => match Cache.ref_of (fst p) b with Some r => Z.eqb r (snd p) | None => false end) a.
Fixpoint ccmp (c : Cache.cst) (evs : list Cache.cev) (os : list (list (Cache.file * Z))) (i : nat) : nat :=
  match evs, os with
  | [], [] => 0
  | e :: evs', o :: os' => let c' := Cache.cstep true c e in
                           if centries_eqb (Cache.entries c') o then ccmp c' evs' os' (S i) else S i
  | _, _ => 799
  end.
(* oracle: the holders follow from the events alone; a reader an open snapshot holds is in the cache *)
Fixpoint coracle (c : Cache.cst) (evs : list Cache.cev) (os : list (list (Cache.file * Z))) : nat :=
  match evs, os with
  | e :: evs', o :: os' => let c' := Cache.cstep true c e in
                           if forallb (fun f => match Cache.ref_of f o with Some _ => true | None => false end) (Cache.all_held (Cache.holders c'))
                           then coracle c' evs' os' else 105
  | _, _ => 0
  end.
Definition check_cache (evs : list Cache.cev) (os : list (list (Cache.file * Z))) : nat * nat :=
  (ccmp Cache.cinit evs os 0, coracle Cache.cinit evs os).

(* ---- rollup layer: the directory of the source family after every event (table files in order of first appearance,
   numbered from 0), compared with the model; oracle: every file whose rollup to some target has not succeeded - by the
   events alone - is in the observed directory ---- *)
From LinDBV.C02 Require Rollup.
Fixpoint rcmp (ds os : list (list nat)) (i : nat) : nat :=
  match ds, os with
  | [], [] => 0
  | d :: ds', o :: os' => if seteq d o then rcmp ds' os' (S i) else S i
  | _, _ => 799
  end.
Fixpoint roracle (ws : list (list (nat * nat))) (os : list (list nat)) (i : nat) : nat :=
  match ws, os with
  | w :: ws', o :: os' => if forallb (fun p => mem (fst p) o) w then roracle ws' os' (S i) else 200 + i
  | _, _ => 0
  end.
Definition check_rollup (evs : list Rollup.ev) (os : list (list nat)) : nat * nat :=
  (rcmp (Rollup.disks false Rollup.init evs) os 0, roracle (Rollup.waiting false Rollup.init evs) os 1).
