(* C02 — snapshots, versions and obsolete-file deletion of one kv family as an interleaving system: one event per
   lock-delimited region of kv/version/family_version.go (GetSnapshot, appendVersion, removeVersion), kv/version/
   snapshot.go (Close), kv/flusher.go (builder allocation with pending output, commit, removePendingOutput) and
   kv/family.go deleteObsoleteFiles (list directory, read pending outputs, read active versions, delete).
   Definitions only. *)
From Coq Require Import List Arith Lia Bool.
Import ListNotations.

Definition file := nat. Definition vid := nat.
Definition mem (x : nat) (l : list nat) : bool := existsb (Nat.eqb x) l.
Fixpoint remove1 (x : nat) (l : list nat) : list nat :=
  match l with [] => [] | y :: l' => if y =? x then l' else y :: remove1 x l' end.
Definition del (x : nat) (l : list nat) : list nat := filter (fun y => negb (y =? x)) l.
Definition delv (v : vid) (vs : list (vid * list file)) := filter (fun p => negb (fst p =? v)) vs.
Fixpoint files_of (v : vid) (vs : list (vid * list file)) : option (list file) :=
  match vs with [] => None | (w, fs) :: vs' => if w =? v then Some fs else files_of v vs' end.
Definition all_files (vs : list (vid * list file)) : list file := flat_map snd vs.

Record deleter := { cand : list file; live : list file; phase : nat }.

Record st := {
  vers : list (vid * list file);     (* activeVersions *)
  cur : vid;
  nextv : vid; nextf : file;
  snaps : list vid;                  (* open snapshots (each holds one reference on its version) *)
  pend : list file;                  (* pendingOutputs *)
  disk : list file;                  (* table files present in the family directory *)
  dels : list deleter                (* running deleteObsoleteFiles calls with their local variables *)
}.
Definition init : st :=
  {| vers := [(0, [])]; cur := 0; nextv := 1; nextf := 0; snaps := []; pend := []; disk := []; dels := [] |}.

Inductive ev :=
| Snap                                  (* GetSnapshot: read current + Retain, under the family-version lock *)
| Close (v : vid)                       (* Snapshot.Close: Release, remove the version when unreferenced and not current *)
| Alloc                                 (* newTableBuilder: allocate number, addPendingOutput, create the file *)
| Commit (f : file) (drop : list file)  (* commit an edit log: new version = current - drop + f; swap; drop previous if unreferenced *)
| Unpend (f : file)                     (* removePendingOutput *)
| DList                                 (* deleteObsoleteFiles: list the directory *)
| DPend (i : nat)                       (*   ... read pendingOutputs *)
| DActive (i : nat)                     (*   ... read the files of all active versions *)
| DDelete (i : nat) (f : file).         (*   ... delete one listed file that is not live *)

Fixpoint set_nth {A} (l : list A) (i : nat) (x : A) : list A :=
  match l, i with [], _ => [] | _ :: l', O => x :: l' | y :: l', S i' => y :: set_nth l' i' x end.

Definition step (s : st) (e : ev) : st :=
  match e with
  | Snap => {| vers := vers s; cur := cur s; nextv := nextv s; nextf := nextf s; snaps := cur s :: snaps s; pend := pend s; disk := disk s; dels := dels s |}
  | Close v =>
    if mem v (snaps s) then
      let sn := remove1 v (snaps s) in
      let vs := if mem v sn || (v =? cur s) then vers s else delv v (vers s) in
      {| vers := vs; cur := cur s; nextv := nextv s; nextf := nextf s; snaps := sn; pend := pend s; disk := disk s; dels := dels s |}
    else s
  | Alloc => {| vers := vers s; cur := cur s; nextv := nextv s; nextf := S (nextf s); snaps := snaps s;
                pend := nextf s :: pend s; disk := nextf s :: disk s; dels := dels s |}
  | Commit f drop =>
    if mem f (pend s) then
      match files_of (cur s) (vers s) with
      | Some fs =>
        let nv := nextv s in
        let vs := (nv, f :: filter (fun x => negb (mem x drop)) fs) :: vers s in
        let vs' := if mem (cur s) (snaps s) then vs else delv (cur s) vs in
        {| vers := vs'; cur := nv; nextv := S nv; nextf := nextf s; snaps := snaps s; pend := pend s; disk := disk s; dels := dels s |}
      | None => s
      end
    else s
  | Unpend f => {| vers := vers s; cur := cur s; nextv := nextv s; nextf := nextf s; snaps := snaps s; pend := del f (pend s); disk := disk s; dels := dels s |}
  | DList => {| vers := vers s; cur := cur s; nextv := nextv s; nextf := nextf s; snaps := snaps s; pend := pend s; disk := disk s;
                dels := dels s ++ [{| cand := disk s; live := []; phase := 1 |}] |}
  | DPend i =>
    match nth_error (dels s) i with
    | Some d => if phase d =? 1
                then {| vers := vers s; cur := cur s; nextv := nextv s; nextf := nextf s; snaps := snaps s; pend := pend s; disk := disk s;
                        dels := set_nth (dels s) i {| cand := cand d; live := pend s; phase := 2 |} |}
                else s
    | None => s
    end
  | DActive i =>
    match nth_error (dels s) i with
    | Some d => if phase d =? 2
                then {| vers := vers s; cur := cur s; nextv := nextv s; nextf := nextf s; snaps := snaps s; pend := pend s; disk := disk s;
                        dels := set_nth (dels s) i {| cand := cand d; live := live d ++ all_files (vers s); phase := 3 |} |}
                else s
    | None => s
    end
  | DDelete i f =>
    match nth_error (dels s) i with
    | Some d => if (phase d =? 3) && mem f (cand d) && negb (mem f (live d))
                then {| vers := vers s; cur := cur s; nextv := nextv s; nextf := nextf s; snaps := snaps s; pend := pend s; disk := del f (disk s); dels := dels s |}
                else s
    | None => s
    end
  end.

Definition run (evs : list ev) : st := fold_left step evs init.

