(* C02 — proofs *)
From Coq Require Import List Arith Lia Bool.
Import ListNotations.
From LinDBV.C02 Require Import Model.

Lemma mem_In x l : mem x l = true <-> In x l.
Proof. unfold mem. rewrite existsb_exists. split; [intros (y & H & E); apply Nat.eqb_eq in E; subst; exact H|].
  intros H. exists x. split; [exact H|apply Nat.eqb_refl]. Qed.
Lemma mem_false x l : mem x l = false <-> ~ In x l.
Proof. rewrite <- mem_In. destruct (mem x l); split; congruence. Qed.


(* ================= invariant ================= *)
Definition dok (s : st) (d : deleter) : Prop :=
  (forall f, In f (cand d) -> f < nextf s) /\
  (2 <= phase d -> forall f, In f (cand d) -> ~ In f (live d) -> ~ In f (pend s)) /\
  (phase d = 3 -> forall f, In f (cand d) -> ~ In f (live d) -> ~ In f (all_files (vers s))).

Definition Inv (s : st) : Prop :=
  (forall v fs, In (v, fs) (vers s) -> v < nextv s /\ forall f, In f fs -> In f (disk s)) /\
  NoDup (map fst (vers s)) /\
  (exists fs, In (cur s, fs) (vers s)) /\
  (forall v, In v (snaps s) -> exists fs, In (v, fs) (vers s)) /\
  (forall f, In f (pend s) -> In f (disk s)) /\
  (forall f, In f (disk s) -> f < nextf s) /\
  (forall d, In d (dels s) -> dok s d).

Lemma In_del x y l : In x (del y l) <-> In x l /\ x <> y.
Proof. unfold del. rewrite filter_In, negb_true_iff, Nat.eqb_neq. tauto. Qed.
Lemma In_delv v w fs vs : In (w, fs) (delv v vs) <-> In (w, fs) vs /\ w <> v.
Proof. unfold delv. rewrite filter_In. simpl. rewrite negb_true_iff, Nat.eqb_neq. tauto. Qed.
Lemma In_all_files f vs : In f (all_files vs) <-> exists v fs, In (v, fs) vs /\ In f fs.
Proof.
  unfold all_files. rewrite in_flat_map. split.
  - intros ([v fs] & H1 & H2). exists v, fs. auto.
  - intros (v & fs & H1 & H2). exists (v, fs). auto.
Qed.
Lemma files_of_In v vs fs : files_of v vs = Some fs -> In (v, fs) vs.
Proof. induction vs as [|[w gs] vs IH]; simpl; [discriminate|]. destruct (Nat.eqb_spec w v) as [->|]; [intros H; inversion H; auto|auto]. Qed.
Lemma In_remove1 x y l : In x (remove1 y l) -> In x l.
Proof. induction l as [|z l IH]; simpl; [tauto|]. destruct (z =? y); simpl; [auto|]. intros [H|H]; auto. Qed.
Lemma remove1_keep x y l : In x l -> x <> y -> In x (remove1 y l).
Proof. induction l as [|z l IH]; simpl; [tauto|]. intros [->|H] Hne.
  - destruct (Nat.eqb_spec x y); [congruence|left; reflexivity].
  - destruct (z =? y); [exact H|right; apply IH; assumption]. Qed.
Lemma NoDup_delv v vs : NoDup (map fst vs) -> NoDup (map fst (delv v vs)).
Proof.
  induction vs as [|[w fs] vs IH]; simpl; intros H; [constructor|]. inversion H as [|? ? Hn Hd]; subst.
  destruct (w =? v); simpl; [apply IH, Hd|]. constructor; [|apply IH, Hd].
  intros Hin. apply Hn. apply in_map_iff in Hin as ([w' fs'] & E & Hin). simpl in E. subst w'.
  apply In_delv in Hin as [Hin _]. apply in_map_iff. exists (w, fs'). auto.
Qed.
Lemma In_set_nth {A} (l : list A) i x y : In y (set_nth l i x) -> y = x \/ In y l.
Proof. revert i; induction l as [|a l IH]; intros [|i] H; simpl in *; try tauto.
  - destruct H; auto. - destruct H; auto. destruct (IH _ H); auto. Qed.

(* a deleter's knowledge survives any change that only adds fresh files to pend and only builds new
   versions from the current version's files plus a pending file *)
Lemma dok_mono s s' d : dok s d ->
  nextf s <= nextf s' ->
  (forall f, In f (pend s') -> In f (pend s) \/ nextf s <= f) ->
  (forall f, In f (all_files (vers s')) -> In f (all_files (vers s)) \/ In f (pend s)) ->
  dok s' d.
Proof.
  intros (H1 & H2 & H3) Hn Hp Hv. split; [|split].
  - intros f Hf. specialize (H1 f Hf). lia.
  - intros Hph f Hf Hl Hin. destruct (Hp f Hin) as [Hin'|Hge]; [exact (H2 Hph f Hf Hl Hin')|]. specialize (H1 f Hf). lia.
  - intros Hph f Hf Hl Hin. destruct (Hv f Hin) as [Hin'|Hin']; [exact (H3 Hph f Hf Hl Hin')|].
    apply (H2 ltac:(lia) f Hf Hl Hin').
Qed.

Lemma dok_same s s' d : dok s d -> nextf s' = nextf s -> pend s' = pend s -> vers s' = vers s -> dok s' d.
Proof. intros H E1 E2 E3. unfold dok in *. rewrite E1, E2, E3. exact H. Qed.

Lemma step_inv s e : Inv s -> Inv (step s e).
Proof.
  intros HI. pose proof HI as (I1 & I2 & I3 & I4 & I5 & I6 & I7). destruct e as [|v| |f drop|f| |i|i|i f]; cbn [step].
  - (* Snap *)
    unfold Inv; cbn [vers cur nextv nextf snaps pend disk dels].
    split; [exact I1|]. split; [exact I2|]. split; [exact I3|]. split.
    { intros w [<-|Hw]; [exact I3|exact (I4 w Hw)]. }
    split; [exact I5|]. split; [exact I6|]. intros d Hd. eapply dok_same; [exact (I7 d Hd)|reflexivity..].
  - (* Close *)
    destruct (mem v (snaps s)) eqn:Ev; [|exact HI].
    destruct (mem v (remove1 v (snaps s)) || (v =? cur s)) eqn:Ek.
    + unfold Inv; cbn [vers cur nextv nextf snaps pend disk dels].
      split; [exact I1|]. split; [exact I2|]. split; [exact I3|]. split.
      { intros w Hw. apply I4. eapply In_remove1; eauto. }
      split; [exact I5|]. split; [exact I6|]. intros d Hd. eapply dok_same; [exact (I7 d Hd)|reflexivity..].
    + apply orb_false_elim in Ek as [Ek1 Ek2]. apply mem_false in Ek1. apply Nat.eqb_neq in Ek2.
      unfold Inv; cbn [vers cur nextv nextf snaps pend disk dels].
      split. { intros w fs Hin. apply In_delv in Hin as [Hin _]. exact (I1 w fs Hin). }
      split; [apply NoDup_delv, I2|]. split.
      { destruct I3 as (fs & Hfs). exists fs. apply In_delv. split; [exact Hfs|congruence]. }
      split.
      { intros w Hw. destruct (I4 w (In_remove1 _ _ _ Hw)) as (fs & Hfs). exists fs. apply In_delv. split; [exact Hfs|].
        intro E. subst w. exact (Ek1 Hw). }
      split; [exact I5|]. split; [exact I6|].
      intros d Hd. eapply dok_mono; [exact (I7 d Hd)|cbn; lia|cbn; auto|].
      cbn [vers pend]. intros f Hf. left. apply In_all_files in Hf as (w & fs & Hin & Hf).
      apply In_delv in Hin as [Hin _]. apply In_all_files. eauto.
  - (* Alloc *)
    unfold Inv; cbn [vers cur nextv nextf snaps pend disk dels].
    split. { intros w fs Hin. destruct (I1 w fs Hin) as [H1 H2]. split; [exact H1|]. intros f Hf. right. exact (H2 f Hf). }
    split; [exact I2|]. split; [exact I3|]. split; [exact I4|].
    split. { intros f [<-|Hf]; [left; reflexivity|right; exact (I5 f Hf)]. }
    split. { intros f [<-|Hf]; [lia|specialize (I6 f Hf); lia]. }
    intros d Hd. eapply dok_mono; [exact (I7 d Hd)|cbn; lia| |cbn [vers]; auto].
    cbn [pend]. intros f [<-|Hf]; [right; lia|left; exact Hf].
  - (* Commit *)
    destruct (mem f (pend s)) eqn:Ef; [|exact HI]. apply mem_In in Ef.
    destruct (files_of (cur s) (vers s)) as [fs|] eqn:Efs; [|exact HI].
    pose proof (files_of_In _ _ _ Efs) as Hcur. destruct (I1 _ _ Hcur) as [Hclt Hcdisk].
    set (nfs := f :: filter (fun x => negb (mem x drop)) fs).
    assert (Hnew : forall g, In g nfs -> In g (disk s)).
    { intros g [<-|Hg]; [exact (I5 _ Ef)|]. apply filter_In in Hg as [Hg _]. exact (Hcdisk g Hg). }
    assert (Hfresh : ~ In (nextv s) (map fst (vers s))).
    { intros Hin. apply in_map_iff in Hin as ([w gs] & E & Hin). simpl in E. subst w. destruct (I1 _ _ Hin). lia. }
    assert (Hfiles : forall g, In g (all_files ((nextv s, nfs) :: vers s)) -> In g (all_files (vers s)) \/ In g (pend s)).
    { intros g Hg. unfold all_files in Hg. cbn [flat_map snd] in Hg. apply in_app_or in Hg as [[<-|Hg]|Hg].
      - right. exact Ef.
      - left. apply filter_In in Hg as [Hg _]. apply In_all_files. eauto.
      - left. exact Hg. }
    destruct (mem (cur s) (snaps s)) eqn:Ec.
    + unfold Inv; cbn [vers cur nextv nextf snaps pend disk dels].
      split. { intros w gs [E|Hin]; [inversion E; subst; split; [lia|exact Hnew]|]. destruct (I1 w gs Hin). split; [lia|assumption]. }
      split; [cbn [map fst]; constructor; assumption|]. split; [exists nfs; left; reflexivity|].
      split. { intros w Hw. destruct (I4 w Hw) as (gs & Hgs). exists gs. right. exact Hgs. }
      split; [exact I5|]. split; [exact I6|].
      intros d Hd. eapply dok_mono; [exact (I7 d Hd)|cbn; lia|cbn; auto|exact Hfiles].
    + apply mem_false in Ec.
      unfold Inv; cbn [vers cur nextv nextf snaps pend disk dels].
      split. { intros w gs Hin. apply In_delv in Hin as [[E|Hin] _]; [inversion E; subst; split; [lia|exact Hnew]|].
               destruct (I1 w gs Hin). split; [lia|assumption]. }
      split; [apply NoDup_delv; cbn [map fst]; constructor; assumption|].
      split; [exists nfs; apply In_delv; split; [left; reflexivity|lia]|].
      split. { intros w Hw. destruct (I4 w Hw) as (gs & Hgs). exists gs. apply In_delv. split; [right; exact Hgs|]. intro E. subst w. exact (Ec Hw). }
      split; [exact I5|]. split; [exact I6|].
      intros d Hd. eapply dok_mono; [exact (I7 d Hd)|cbn; lia|cbn; auto|].
      cbn [vers pend]. intros g Hg. apply Hfiles. apply In_all_files in Hg as (w & gs & Hin & Hg).
      apply In_delv in Hin as [Hin _]. apply In_all_files. eauto.
  - (* Unpend *)
    unfold Inv; cbn [vers cur nextv nextf snaps pend disk dels].
    split; [exact I1|]. split; [exact I2|]. split; [exact I3|]. split; [exact I4|].
    split. { intros g Hg. apply In_del in Hg as [Hg _]. exact (I5 g Hg). }
    split; [exact I6|].
    intros d Hd. eapply dok_mono; [exact (I7 d Hd)|cbn; lia| |cbn [vers]; auto].
    cbn [pend]. intros g Hg. apply In_del in Hg as [Hg _]. left. exact Hg.
  - (* DList *)
    unfold Inv; cbn [vers cur nextv nextf snaps pend disk dels].
    split; [exact I1|]. split; [exact I2|]. split; [exact I3|]. split; [exact I4|]. split; [exact I5|]. split; [exact I6|].
    intros d Hd. apply in_app_or in Hd as [Hd|[<-|[]]].
    + eapply dok_same; [exact (I7 d Hd)|reflexivity..].
    + split; [|split]; cbn [cand live phase]; [exact I6|lia|discriminate].
  - (* DPend *)
    destruct (nth_error (dels s) i) as [d|] eqn:En; [|exact HI].
    destruct (Nat.eqb_spec (phase d) 1); [|exact HI].
    pose proof (I7 d (nth_error_In _ _ En)) as (D1 & D2 & D3).
    unfold Inv; cbn [vers cur nextv nextf snaps pend disk dels].
    split; [exact I1|]. split; [exact I2|]. split; [exact I3|]. split; [exact I4|]. split; [exact I5|]. split; [exact I6|].
    intros d' Hd'. apply In_set_nth in Hd' as [->|Hd'].
    + split; [|split]; cbn [cand live phase]; [exact D1|intros _ g _ Hl; exact Hl|discriminate].
    + eapply dok_same; [exact (I7 d' Hd')|reflexivity..].
  - (* DActive *)
    destruct (nth_error (dels s) i) as [d|] eqn:En; [|exact HI].
    destruct (Nat.eqb_spec (phase d) 2); [|exact HI].
    pose proof (I7 d (nth_error_In _ _ En)) as (D1 & D2 & D3).
    unfold Inv; cbn [vers cur nextv nextf snaps pend disk dels].
    split; [exact I1|]. split; [exact I2|]. split; [exact I3|]. split; [exact I4|]. split; [exact I5|]. split; [exact I6|].
    intros d' Hd'. apply In_set_nth in Hd' as [->|Hd'].
    + split; [|split]; cbn [cand live phase]; [exact D1| |].
      * intros _ g Hg Hl. apply (D2 ltac:(lia) g Hg). intro H. apply Hl. apply in_or_app. left. exact H.
      * intros _ g Hg Hl H. apply Hl. apply in_or_app. right. exact H.
    + eapply dok_same; [exact (I7 d' Hd')|reflexivity..].
  - (* DDelete *)
    destruct (nth_error (dels s) i) as [d|] eqn:En; [|exact HI].
    destruct ((phase d =? 3) && mem f (cand d) && negb (mem f (live d))) eqn:Ed; [|exact HI].
    apply andb_prop in Ed as [Ed E3]. apply andb_prop in Ed as [E1 E2].
    apply Nat.eqb_eq in E1. apply mem_In in E2. apply negb_true_iff in E3. apply mem_false in E3.
    pose proof (I7 d (nth_error_In _ _ En)) as (D1 & D2 & D3).
    pose proof (D2 ltac:(lia) f E2 E3) as Hnp. pose proof (D3 E1 f E2 E3) as Hnv.
    unfold Inv; cbn [vers cur nextv nextf snaps pend disk dels].
    split. { intros w gs Hin. destruct (I1 w gs Hin) as [H1 H2]. split; [exact H1|]. intros g Hg. apply In_del. split; [exact (H2 g Hg)|].
             intro E. subst g. apply Hnv. apply In_all_files. eauto. }
    split; [exact I2|]. split; [exact I3|]. split; [exact I4|].
    split. { intros g Hg. apply In_del. split; [exact (I5 g Hg)|]. intro E. subst g. exact (Hnp Hg). }
    split. { intros g Hg. apply In_del in Hg as [Hg _]. exact (I6 g Hg). }
    intros d' Hd'. eapply dok_same; [exact (I7 d' Hd')|reflexivity..].
Qed.

Theorem run_inv evs : Inv (run evs).
Proof.
  unfold run. assert (H : Inv init).
  { unfold Inv, init; cbn. repeat split; try (intros; contradiction); try lia.
    - destruct H as [E|[]]. inversion E; subst. lia.
    - destruct H as [E|[]]. inversion E; subst. intros ? [].
    - constructor; [intros []|constructor].
    - exists []. left. reflexivity. }
  revert H. generalize init. induction evs as [|e evs IH]; intros s H; simpl; [exact H|]. apply IH, step_inv, H.
Qed.

(* whatever interleaving of readers, flushes, compactions and obsolete-file cleanups: the files of every
   version an open snapshot holds, and every pending output, are on disk *)
Theorem snapshot_files_alive evs :
  let s := run evs in
  (forall v, In v (snaps s) -> exists fs, In (v, fs) (vers s) /\ forall f, In f fs -> In f (disk s)) /\
  (forall f, In f (pend s) -> In f (disk s)).
Proof.
  intros s. destruct (run_inv evs) as (I1 & _ & _ & I4 & I5 & _). fold s in I1, I4, I5. split; [|exact I5].
  intros v Hv. destruct (I4 v Hv) as (fs & Hfs). exists fs. split; [exact Hfs|]. exact (proj2 (I1 v fs Hfs)).
Qed.

(* a version's file list never changes while the version exists: a held snapshot keeps seeing the same files *)
Theorem version_immutable s e v fs fs' : Inv s -> In (v, fs) (vers s) -> In (v, fs') (vers (step s e)) -> fs' = fs.
Proof.
  intros (I1 & I2 & _) Hin Hin'.
  assert (Huniq : forall gs, In (v, gs) (vers s) -> gs = fs).
  { intros gs Hgs. clear -I2 Hin Hgs. induction (vers s) as [|[w hs] l IH]; [destruct Hin|].
    simpl in I2. inversion I2 as [|? ? Hn Hd]; subst.
    destruct Hin as [E|Hin]; destruct Hgs as [E'|Hgs].
    - congruence.
    - inversion E; subst. exfalso. apply Hn. apply in_map_iff. exists (v, gs). auto.
    - inversion E'; subst. exfalso. apply Hn. apply in_map_iff. exists (v, fs). auto.
    - auto. }
  assert (Hsub : In (v, fs') (vers s) \/ v = nextv s).
  { destruct e as [|w| |f drop|f| |i|i|i f]; cbn [step] in Hin'.
    - left. exact Hin'.
    - destruct (mem w (snaps s)); [|left; exact Hin']. cbn [vers] in Hin'.
      destruct (mem w (remove1 w (snaps s)) || (w =? cur s)); [left; exact Hin'|]. apply In_delv in Hin' as [H _]. left. exact H.
    - left. exact Hin'.
    - destruct (mem f (pend s)); [|left; exact Hin']. destruct (files_of (cur s) (vers s)); [|left; exact Hin'].
      cbn [vers] in Hin'. destruct (mem (cur s) (snaps s)).
      + destruct Hin' as [E|H]; [right; inversion E; reflexivity|left; exact H].
      + apply In_delv in Hin' as [[E|H] _]; [right; inversion E; reflexivity|left; exact H].
    - left. exact Hin'.
    - left. exact Hin'.
    - destruct (nth_error (dels s) i) as [d|]; [|left; exact Hin']. destruct (phase d =? 1); left; exact Hin'.
    - destruct (nth_error (dels s) i) as [d|]; [|left; exact Hin']. destruct (phase d =? 2); left; exact Hin'.
    - destruct (nth_error (dels s) i) as [d|]; [|left; exact Hin'].
      destruct ((phase d =? 3) && mem f (cand d) && negb (mem f (live d))); left; exact Hin'. }
  destruct Hsub as [H|E]; [apply Huniq, H|]. destruct (I1 v fs Hin). lia.
Qed.

(* a reader that starts after a commit sees it: the snapshot is taken on the version the commit installed *)
Theorem later_reader_sees_commit s f drop : Inv s -> mem f (pend s) = true ->
  let s1 := step s (Commit f drop) in
  let s2 := step s1 Snap in
  exists fs, In (cur s1, fs) (vers s2) /\ In f fs /\ hd_error (snaps s2) = Some (cur s1).
Proof.
  intros (I1 & I2 & (fs0 & I3) & _) Hp. cbn [step]. rewrite Hp.
  assert (Hf : files_of (cur s) (vers s) = Some fs0).
  { clear -I2 I3. induction (vers s) as [|[w hs] l IH]; [destruct I3|]. simpl in *. inversion I2 as [|? ? Hn Hd]; subst.
    destruct I3 as [E|Hin].
    - inversion E; subst. rewrite Nat.eqb_refl. reflexivity.
    - destruct (Nat.eqb_spec w (cur s)) as [->|Hne]; [exfalso; apply Hn; apply in_map_iff; exists (cur s, fs0); auto|]. apply IH; assumption. }
  rewrite Hf. cbn [step vers cur snaps]. exists (f :: filter (fun x => negb (mem x drop)) fs0).
  split; [|split; [left; reflexivity|reflexivity]].
  destruct (mem (cur s) (snaps s)); [left; reflexivity|].
  unfold delv. apply filter_In. split; [left; reflexivity|]. cbn [fst].
  destruct (I1 (cur s) fs0 I3) as [Hlt _]. destruct (Nat.eqb_spec (nextv s) (cur s)); [lia|reflexivity].
Qed.
