(* C02 — the property theorems *)
From Coq Require Import List Arith Bool.
Import ListNotations.
From LinDBV.C02 Require Import Model Proofs.

(* whatever interleaving of readers, flushes, compactions and obsolete-file deletions: the files of every version an
   open snapshot holds, and every pending output, are on disk *)
Theorem C02_snapshot_files_alive evs :
  let s := run evs in
  (forall v, In v (snaps s) -> exists fs, In (v, fs) (vers s) /\ forall f, In f fs -> In f (disk s)) /\
  (forall f, In f (pend s) -> In f (disk s)).
Proof. exact (snapshot_files_alive evs). Qed.
Print Assumptions C02_snapshot_files_alive.

(* a version's file list never changes while the version exists *)
Theorem C02_version_immutable s e v fs fs' : Inv s -> In (v, fs) (vers s) -> In (v, fs') (vers (step s e)) -> fs' = fs.
Proof. exact (version_immutable s e v fs fs'). Qed.
Print Assumptions C02_version_immutable.

Theorem C02_run_inv evs : Inv (run evs).
Proof. exact (run_inv evs). Qed.
Print Assumptions C02_run_inv.

(* a reader that starts after a commit sees it *)
Theorem C02_later_reader_sees_commit s f drop : Inv s -> mem f (pend s) = true ->
  let s1 := step s (Commit f drop) in
  let s2 := step s1 Snap in
  exists fs, In (cur s1, fs) (vers s2) /\ In f fs /\ hd_error (snaps s2) = Some (cur s1).
Proof. exact (later_reader_sees_commit s f drop). Qed.
Print Assumptions C02_later_reader_sees_commit.

(* ---- the table reader cache (kv/table/cache.go): every history of reader requests by snapshots, snapshot closes,
   cleanups and evictions of files no open snapshot holds - no reader is closed (unmapped) while an open snapshot holds
   it, every held reader is open, an entry's reference count is the number of times open snapshots hold it ---- *)
From Coq Require Import ZArith.
From LinDBV.C02 Require Cache CacheProofs.
Theorem C02_cache_never_closes_held evs : Cache.crun_ok true Cache.cinit evs = true ->
  let c := Cache.crun true evs in
  Cache.closed_held c = false /\
  (forall f, In f (Cache.all_held (Cache.holders c)) -> Cache.ref_of f (Cache.entries c) <> None) /\
  (forall f r, Cache.ref_of f (Cache.entries c) = Some r -> r = Z.of_nat (CacheProofs.cnt f (Cache.all_held (Cache.holders c)))).
Proof. exact (CacheProofs.cache_never_closes_held evs). Qed.
Print Assumptions C02_cache_never_closes_held.
(* refuted for a cache hit that does not count the new holder *)
Theorem C02_uncounted_hit_refuted :
  Cache.crun_ok false Cache.cinit [Cache.CGet 1 7; Cache.CGet 2 7; Cache.CRelease 1; Cache.CCleanup] = true /\
  Cache.closed_held (Cache.crun false [Cache.CGet 1 7; Cache.CGet 2 7; Cache.CRelease 1; Cache.CCleanup]) = true.
Proof. exact CacheProofs.uncounted_hit_refuted. Qed.
Print Assumptions C02_uncounted_hit_refuted.

(* ---- the rollup layer (kv/family_rollup.go, kv/family.go deleteObsoleteFiles): every history of flushes, compactions,
   rollup runs whose work succeeds or fails per target, and sweeps - a file whose rollup to some target has not succeeded is
   in the directory and still marked; the files of the current version are in the directory ---- *)
From LinDBV.C02 Require Rollup RollupProofs.
Theorem C02_rollup_files_kept : forall evs f t,
  let s := Rollup.run false evs in
  In (f, t) (Rollup.unrolled s) -> In f (Rollup.disk s) /\ In (f, t) (Rollup.marks s).
Proof. exact RollupProofs.rollup_files_kept. Qed.
Print Assumptions C02_rollup_files_kept.
Theorem C02_rollup_version_files_kept : forall evs f,
  let s := Rollup.run false evs in In f (Rollup.l0 s ++ Rollup.l1 s) -> In f (Rollup.disk s).
Proof. exact RollupProofs.version_files_kept. Qed.
Print Assumptions C02_rollup_version_files_kept.
(* refuted for a rollup run that removes the marks of a target whose work failed *)
Theorem C02_failed_rollup_unmarks_refuted : RollupProofs.lost (Rollup.run true RollupProofs.hist) = true.
Proof. exact RollupProofs.failed_rollup_unmarks_refuted. Qed.
Print Assumptions C02_failed_rollup_unmarks_refuted.
