(* C02 — the property theorems *)
From Coq Require Import List Arith Bool.
Import ListNotations.
From LinDBV.C02 Require Import Model Proofs.

(* whatever interleaving of readers, flushes, compactions and obsolete-file deletions: the files of every version an
   open snapshot holds, and every pending output, are on disk *)
Theorem C02_snapshot_files_alive evs :
  let s := run evs in
  (forall v, In v (snaps s) -> exists fs, In (v, fs) (vers s) /\ forall f, In f fs -> In f (disk s)) /\
  (forall f, In f (pend s) -> In f (disk s)).
Proof. exact (snapshot_files_alive evs). Qed.
Print Assumptions C02_snapshot_files_alive.

(* a version's file list never changes while the version exists *)
Theorem C02_version_immutable s e v fs fs' : Inv s -> In (v, fs) (vers s) -> In (v, fs') (vers (step s e)) -> fs' = fs.
Proof. exact (version_immutable s e v fs fs'). Qed.
Print Assumptions C02_version_immutable.

Theorem C02_run_inv evs : Inv (run evs).
Proof. exact (run_inv evs). Qed.
Print Assumptions C02_run_inv.

(* a reader that starts after a commit sees it *)
Theorem C02_later_reader_sees_commit s f drop : Inv s -> mem f (pend s) = true ->
  let s1 := step s (Commit f drop) in
  let s2 := step s1 Snap in
  exists fs, In (cur s1, fs) (vers s2) /\ In f fs /\ hd_error (snaps s2) = Some (cur s1).
Proof. exact (later_reader_sees_commit s f drop). Qed.
Print Assumptions C02_later_reader_sees_commit.
