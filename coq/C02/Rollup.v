(* C02 — rollup layer (kv/family_rollup.go rollup, kv/flusher.go Commit, kv/family.go deleteObsoleteFiles): the files of a
   source family that a pending rollup still needs.  A flush marks its file "to be rolled up" for every target interval of
   the store; a compaction replaces the files of the version but leaves the marks; a rollup run removes the marks of the
   targets whose work succeeded and of no other; every background job ends with the obsolete-file sweep, whose live set is
   the files of the version plus the marked files.  Ghost state: the (file, target) pairs whose rollup has not succeeded.
   One caller at a time (the interleavings of the sweep with commits are the subject of Model.v).  Definitions. *)
From Coq Require Import List Arith Bool.
Import ListNotations.

Definition file := nat.
Definition target := nat.
Definition mem (x : nat) (l : list nat) : bool := existsb (Nat.eqb x) l.

Record st := {
  l0 : list file; l1 : list file;        (* files of the current version, per level *)
  marks : list (file * target);          (* rollup marks of the current version *)
  disk : list file;                      (* table files in the family directory *)
  unrolled : list (file * target);       (* ghost: flushed, and the rollup to that target has not succeeded yet *)
  nextf : file }.
Definition init : st := {| l0 := []; l1 := []; marks := []; disk := []; unrolled := []; nextf := 0 |}.

Inductive ev :=
| EFlush                         (* a flush commit: new level-0 file, marked for both targets *)
| ECompact                       (* Family.Compact: with two or more level-0 files, the compaction job, then the sweep *)
| ERollup (ok0 ok1 : bool)       (* a rollup run: the work for target t succeeds iff ok_t; then the sweep *)
| ESweep.                        (* deleteObsoleteFiles on its own *)

Definition sweep (s : st) : st :=
  {| l0 := l0 s; l1 := l1 s; marks := marks s;
     disk := filter (fun f => mem f (l0 s) || mem f (l1 s) || mem f (map fst (marks s))) (disk s);
     unrolled := unrolled s; nextf := nextf s |}.

Section Rollup.
  (* the slip: the marks of a target are removed although its work failed *)
  Variable fail_unmarks : bool.

  Definition keep (ok0 ok1 : bool) (p : file * target) : bool :=
    match snd p with 0 => negb ok0 | _ => negb ok1 end.

  Definition step (s : st) (e : ev) : st :=
    match e with
    | EFlush =>
      let f := nextf s in
      {| l0 := l0 s ++ [f]; l1 := l1 s; marks := marks s ++ [(f, 0); (f, 1)]; disk := disk s ++ [f];
         unrolled := unrolled s ++ [(f, 0); (f, 1)]; nextf := S f |}
    | ECompact =>
      if 2 <=? length (l0 s) then
        let f := nextf s in
        sweep {| l0 := []; l1 := [f]; marks := marks s; disk := disk s ++ [f]; unrolled := unrolled s; nextf := S f |}
      else s                       (* Compact() starts no job below two level-0 files *)
    | ERollup ok0 ok1 =>
      sweep {| l0 := l0 s; l1 := l1 s;
               marks := if fail_unmarks then [] else filter (keep ok0 ok1) (marks s);
               disk := disk s; unrolled := filter (keep ok0 ok1) (unrolled s); nextf := nextf s |}
    | ESweep => sweep s
    end.

  Definition run (evs : list ev) : st := fold_left step evs init.
  (* the directory after every event *)
  Fixpoint disks (s : st) (evs : list ev) : list (list file) :=
    match evs with [] => [] | e :: evs' => let s' := step s e in disk s' :: disks s' evs' end.
  (* ... and the pairs still waiting for their rollup *)
  Fixpoint waiting (s : st) (evs : list ev) : list (list (file * target)) :=
    match evs with [] => [] | e :: evs' => let s' := step s e in unrolled s' :: waiting s' evs' end.
End Rollup.
