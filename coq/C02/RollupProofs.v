(* C02 — rollup layer, proofs: the marks are exactly the pairs whose rollup has not succeeded, and every marked file is in
   the directory, after every history; with the slip a file of a failed rollup is deleted. *)
From Coq Require Import List Arith Bool Lia.
Import ListNotations.
From LinDBV.C02 Require Import Rollup.

Record Inv (s : st) : Prop := {
  i_marks : marks s = unrolled s;
  i_disk : forall f t, In (f, t) (marks s) -> In f (disk s);
  i_l0 : forall f, In f (l0 s) -> In f (disk s);
  i_l1 : forall f, In f (l1 s) -> In f (disk s);
  i_fresh : forall f, In f (disk s) -> f < nextf s }.

Lemma mem_in x l : mem x l = true <-> In x l.
Proof.
  unfold mem. rewrite existsb_exists. split.
  - intros (y & Hy & E). apply Nat.eqb_eq in E. subst. exact Hy.
  - intros H. exists x. split; [exact H|apply Nat.eqb_refl].
Qed.

Lemma sweep_inv s : Inv s -> Inv (sweep s).
Proof.
  intros [M D A B F]. constructor; cbn [sweep marks unrolled disk l0 l1 nextf].
  - exact M.
  - intros f t H. apply filter_In. split; [exact (D f t H)|].
    apply orb_true_iff. right. apply mem_in. apply in_map_iff. exists (f, t). split; [reflexivity|exact H].
  - intros f H. apply filter_In. split; [exact (A f H)|]. apply mem_in in H. rewrite H. reflexivity.
  - intros f H. apply filter_In. split; [exact (B f H)|]. apply mem_in in H. rewrite H, orb_true_r. reflexivity.
  - intros f H. apply filter_In in H. exact (F f (proj1 H)).
Qed.

Lemma step_inv s e : Inv s -> Inv (step false s e).
Proof.
  intros HI. destruct e as [| |ok0 ok1|]; cbn [step].
  - destruct HI as [M D A B F]. constructor; cbn [marks unrolled disk l0 l1 nextf].
    + rewrite M. reflexivity.
    + intros f t H. apply in_app_or in H. apply in_or_app. destruct H as [H|H]; [left; exact (D f t H)|right].
      destruct H as [H|[H|[]]]; inversion H; subst; left; reflexivity.
    + intros f H. apply in_app_or in H. apply in_or_app. destruct H as [H|[H|[]]]; [left; exact (A f H)|right; left; exact H].
    + intros f H. apply in_or_app. left. exact (B f H).
    + intros f H. apply in_app_or in H. destruct H as [H|[H|[]]]; [specialize (F f H); lia|subst; lia].
  - destruct (2 <=? length (l0 s)); [apply sweep_inv|exact HI].
    destruct HI as [M D A B F]. constructor; cbn [marks unrolled disk l0 l1 nextf].
    + exact M.
    + intros f t H. apply in_or_app. left. exact (D f t H).
    + intros f [].
    + intros f [H|[]]. subst. apply in_or_app. right. left. reflexivity.
    + intros f H. apply in_app_or in H. destruct H as [H|[H|[]]]; [specialize (F f H); lia|subst; lia].
  - apply sweep_inv. destruct HI as [M D A B F]. constructor; cbn [marks unrolled disk l0 l1 nextf].
    + rewrite M. reflexivity.
    + intros f t H. apply filter_In in H. exact (D f t (proj1 H)).
    + exact A.
    + exact B.
    + exact F.
  - apply sweep_inv. exact HI.
Qed.

Lemma init_inv : Inv init.
Proof. constructor; cbn; try reflexivity; intros; try tauto. Qed.

Lemma run_inv evs : forall s, Inv s -> Inv (fold_left (step false) evs s).
Proof. induction evs as [|e evs IH]; intros s H; [exact H|]. cbn. apply IH, step_inv, H. Qed.

(* every history of flushes, compactions, rollup runs (each target succeeding or failing) and sweeps: a file whose rollup to
   some target has not succeeded is in the directory, and it is still marked (so the next run picks it up) *)
Theorem rollup_files_kept : forall evs f t,
  let s := run false evs in
  In (f, t) (unrolled s) -> In f (disk s) /\ In (f, t) (marks s).
Proof.
  intros evs f t s H. assert (HI : Inv s) by (apply run_inv, init_inv).
  rewrite (i_marks s HI). split; [|exact H]. apply (i_disk s HI f t). rewrite (i_marks s HI). exact H.
Qed.

(* the sweep deletes nothing of the current version *)
Theorem version_files_kept : forall evs f,
  let s := run false evs in In f (l0 s ++ l1 s) -> In f (disk s).
Proof.
  intros evs f s H. assert (HI : Inv s) by (apply run_inv, init_inv).
  apply in_app_or in H. destruct H as [H|H]; [exact (i_l0 s HI f H)|exact (i_l1 s HI f H)].
Qed.

Definition lost (s : st) : bool := existsb (fun p => negb (mem (fst p) (disk s))) (unrolled s).

(* two flushes, a rollup whose work fails for both targets, a compaction *)
Definition hist := [EFlush; EFlush; ERollup false false; ECompact].
Theorem failed_rollup_unmarks_refuted : lost (run true hist) = true.
Proof. vm_compute. reflexivity. Qed.
Example code_as_it_is_on_that_history :
  lost (run false hist) = false /\ disk (run false hist) = [0; 1; 2] /\ unrolled (run false hist) = [(0, 0); (0, 1); (1, 0); (1, 1)].
Proof. vm_compute. auto. Qed.
Example one_target_succeeds :
  let s := run false [EFlush; EFlush; ERollup true false; ECompact; ERollup false true; ESweep] in
  (disk s, marks s, l1 s) = ([2], [], [2]).
Proof. vm_compute. reflexivity. Qed.
