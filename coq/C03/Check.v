(* C03 — executable checks: (correspondence code, oracle code); 0 = fine *)
From Coq Require Import List ZArith Bool.
Import ListNotations.
From LinDBV.C04 Require Import Model.
From LinDBV.C03 Require Import Model.
Open Scope Z_scope.

(* what one file holds: metric -> (series, field, type, points) *)
Definition fentry := (nat * Z * nat * nat * points)%type.      (* metric, series, field id, field type, points *)
Definition cfile := list fentry.

Definition key_eqb (a b : nat * Z * nat) : bool :=
  let '(m1, s1, f1) := a in let '(m2, s2, f2) := b in Nat.eqb m1 m2 && (s1 =? s2) && Nat.eqb f1 f2.
Definition key_of (e : fentry) : nat * Z * nat := let '(m, s, f, _, _) := e in (m, s, f).
Definition type_of (e : fentry) : nat := let '(_, _, _, t, _) := e in t.
Definition pts_of (e : fentry) : points := let '(_, _, _, _, p) := e in p.

Fixpoint nodup_keys (l : list (nat * Z * nat)) : list (nat * Z * nat) :=
  match l with [] => [] | k :: r => if existsb (key_eqb k) r then nodup_keys r else k :: nodup_keys r end.
Definition keys (fs : list cfile) : list (nat * Z * nat) := nodup_keys (map key_of (concat fs)).
(* all points of a key over the files in order, and its field type *)
Definition key_points (fs : list cfile) (k : nat * Z * nat) : points :=
  flat_map (fun e => if key_eqb (key_of e) k then pts_of e else []) (concat fs).
Definition key_type (fs : list cfile) (k : nat * Z * nat) : nat :=
  match find (fun e => key_eqb (key_of e) k) (concat fs) with Some e => type_of e | None => 0%nat end.

Fixpoint pts_eqb (a b : points) : bool :=
  match a, b with [], [] => true | (p, v) :: a', (q, w) :: b' => (p =? q) && (v =? w) && pts_eqb a' b' | _, _ => false end.
Definition slots_eqb (a b : points) : bool := pts_eqb (map (fun pv => (fst pv, 0)) a) (map (fun pv => (fst pv, 0)) b).
Definition keyset_eq (a b : list (nat * Z * nat)) : bool :=
  forallb (fun k => existsb (key_eqb k) b) a && forallb (fun k => existsb (key_eqb k) a) b.

(* the reader's view of two versions agrees: same keys; per key the same slots; equal values for sum/min/max/histogram;
   for first/last each value is one of those contributed by [src] at that slot *)
Definition same_view (src a b : list cfile) : bool :=
  keyset_eq (filter (fun k => negb (match observe (key_type src k) (key_points a k) with [] => true | _ => false end)) (keys a))
            (filter (fun k => negb (match observe (key_type src k) (key_points b k) with [] => true | _ => false end)) (keys b)) &&
  forallb (fun k =>
    let ft := key_type src k in
    let va := observe ft (key_points a k) in
    let vb := observe ft (key_points b k) in
    if commutative_type ft then pts_eqb va vb
    else slots_eqb va vb && forallb (fun pv => existsb (Z.eqb (snd pv)) (values_at (fst pv) (key_points src k))) vb) (keys a).

Inductive cev := CFlush (f : cfile) | CCompact.
(* after each event: the files of the version, oldest first *)
Definition cobs := list cfile.

(* model: a compaction replaces all files by their merge (the harness makes every file overlap every other) *)
Definition merge_all (fs : list cfile) : cfile :=
  flat_map (fun k => match observe (key_type fs k) (key_points fs k) with [] => [] | ps => [(fst (fst k), snd (fst k), snd k, key_type fs k, ps)] end) (keys fs).
Definition mstep (fs : list cfile) (e : cev) : list cfile :=
  match e with CFlush f => fs ++ [f] | CCompact => match fs with [] | [_] => fs | _ => [merge_all fs] end end.

Fixpoint cmp (fs flushed : list cfile) (evs : list cev) (os : list cobs) (i : nat) : nat :=
  match evs, os with
  | [], [] => 0%nat
  | e :: evs', o :: os' =>
      let fs' := mstep fs e in
      let flushed' := match e with CFlush f => flushed ++ [f] | _ => flushed end in
      if same_view flushed' fs' o then cmp fs' flushed' evs' os' (S i) else S i
  | _, _ => 799%nat
  end.

(* oracle, observations only: the view after every event equals the view of everything flushed so far *)
Fixpoint oracle (flushed : list cfile) (evs : list cev) (os : list cobs) : nat :=
  match evs, os with
  | e :: evs', o :: os' =>
      let flushed' := match e with CFlush f => flushed ++ [f] | _ => flushed end in
      if same_view flushed' flushed' o then oracle flushed' evs' os' else 101%nat
  | _, _ => 0%nat
  end.
Definition check_hist (evs : list cev) (os : list cobs) : nat * nat := (cmp [] [] evs os 0, oracle [] evs os).
