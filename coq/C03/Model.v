(* C03 — compaction of metric data: what a reader observes of a family is, per (metric, series, field, slot), the
   aggregate by field type over all files of the version; a compaction replaces a set of files by their merge
   (tsdb/tblstore/metricsdata/merger.go, series_merger.go; aggregation/down_sampling_agg.go with ratio 1).
   The per-series/field merge is C04's [downsample] with the identity position.  Definitions only. *)
From Coq Require Import List ZArith Bool.
Import ListNotations.
From LinDBV.C04 Require Import Model.
Open Scope Z_scope.

(* points of one (series, field) in file order, slots ascending inside a file *)
Definition observe (ft : nat) (pts : points) : points := downsample (fun p => p) ft pts.

Fixpoint lookup (p : Z) (l : points) : option Z :=
  match l with [] => None | (q, v) :: r => if q =? p then Some v else lookup p r end.
Definition values_at (p : Z) (pts : points) : list Z := map snd (filter (fun pv => fst pv =? p) pts).
(* aggregate of a non-empty list of values in order *)
Definition aggl (ft : nat) (vs : list Z) : option Z :=
  match vs with [] => None | v :: r => Some (fold_left (agg ft) r v) end.

(* order-insensitive field types: sum (also histogram), min, max *)
Definition commutative_type (ft : nat) : bool := match ft with 1%nat | 2%nat | 3%nat => true | _ => false end.

(* a family version as the reader sees it for one (series, field): the files' points in version order;
   compaction of the files in the middle segment: they are replaced by their merge *)
Definition compact_segment (ft : nat) (before seg after : points) : points := before ++ observe ft seg ++ after.
