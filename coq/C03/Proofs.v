(* C03 — proofs *)
From Coq Require Import List ZArith Lia Bool Permutation.
Import ListNotations.
From LinDBV.C04 Require Import Model.
From LinDBV.C03 Require Import Model.
Open Scope Z_scope.

(* [put] keeps the slots sorted and distinct, and aggregates at its slot *)
Inductive sorted : points -> Prop :=
| s_nil : sorted []
| s_one p v : sorted [(p, v)]
| s_cons p v q w r : p < q -> sorted ((q, w) :: r) -> sorted ((p, v) :: (q, w) :: r).

Lemma sorted_tail a w r : sorted ((a, w) :: r) -> sorted r.
Proof. intros H. inversion H; subst; [constructor|assumption]. Qed.
Lemma sorted_lookup_below p l : sorted l -> (forall a w r, l = (a, w) :: r -> p < a) -> lookup p l = None.
Proof.
  induction l as [|[a w] r IH]; intros Hs Hlt; [reflexivity|]. cbn [lookup].
  pose proof (Hlt a w r eq_refl) as Ha. destruct (Z.eqb_spec a p); [lia|].
  apply IH; [eapply sorted_tail; exact Hs|]. intros b x r' E. subst r. inversion Hs; subst. lia.
Qed.

Lemma put_lookup ft acc p v q : sorted acc ->
  lookup q (put ft acc p v) = if q =? p then (match lookup p acc with Some w => Some (agg ft w v) | None => Some v end) else lookup q acc.
Proof.
  induction acc as [|[a w] r IH]; intros Hs; cbn [put lookup].
  - destruct (Z.eqb_spec p q); destruct (Z.eqb_spec q p); try lia; reflexivity.
  - destruct (Z.eqb_spec a p) as [Eap|Hne].
    + cbn [lookup]. destruct (Z.eqb_spec a q); destruct (Z.eqb_spec q p); try lia; reflexivity.
    + destruct (Z.ltb_spec p a) as [Hlt|Hge].
      * cbn [lookup]. destruct (Z.eqb_spec p q) as [Epq|Hpq]; destruct (Z.eqb_spec q p); try lia; [|reflexivity].
        destruct (Z.eqb_spec a p); [lia|].
        rewrite (sorted_lookup_below p r); [reflexivity|eapply sorted_tail; exact Hs|].
        intros b x r' E. subst r. inversion Hs; subst. lia.
      * cbn [lookup]. rewrite (IH (sorted_tail _ _ _ Hs)).
        destruct (Z.eqb_spec a q); destruct (Z.eqb_spec q p); try lia; reflexivity.
Qed.

Lemma put_sorted ft acc p v : sorted acc -> sorted (put ft acc p v).
Proof.
  induction acc as [|[a w] r IH]; intros Hs; cbn [put]; [constructor|].
  destruct (Z.eqb_spec a p) as [->|Hne].
  - inversion Hs; subst; constructor; assumption.
  - destruct (Z.ltb_spec p a); [constructor; [exact H|exact Hs]|].
    assert (Hs' : sorted r) by (inversion Hs; subst; [constructor|assumption]).
    specialize (IH Hs'). destruct r as [|[b x] r']; cbn [put] in *; [constructor; [lia|constructor]|].
    inversion Hs; subst.
    destruct (Z.eqb_spec b p); [constructor; [lia|exact IH]|].
    destruct (Z.ltb_spec p b); constructor; try lia; exact IH.
Qed.

Lemma fold_put_sorted ft pts : forall acc, sorted acc ->
  sorted (fold_left (fun a sv => put ft a (fst sv) (snd sv)) pts acc).
Proof. induction pts as [|[p v] pts IH]; intros acc Hs; cbn [fold_left]; [exact Hs|]. apply IH, put_sorted, Hs. Qed.

(* the aggregate a reader sees at a slot: fold of the field type's aggregation over the values at that slot, in order *)
Definition agg_opt (ft : nat) (o : option Z) (v : Z) : option Z := match o with Some w => Some (agg ft w v) | None => Some v end.
Lemma fold_put_lookup ft pts q : forall acc, sorted acc ->
  lookup q (fold_left (fun a sv => put ft a (fst sv) (snd sv)) pts acc) = fold_left (agg_opt ft) (values_at q pts) (lookup q acc).
Proof.
  induction pts as [|[p v] pts IH]; intros acc Hs; [reflexivity|].
  cbn [fold_left fst snd]. rewrite (IH _ (put_sorted ft acc p v Hs)). rewrite (put_lookup ft acc p v q Hs).
  unfold values_at. cbn [filter fst snd].
  destruct (Z.eqb_spec p q) as [Epq|Hne].
  - subst q. rewrite Z.eqb_refl. cbn [map fold_left snd]. unfold agg_opt at 2. reflexivity.
  - destruct (Z.eqb_spec q p); [lia|]. reflexivity.
Qed.
Lemma agg_opt_fold ft vs : forall o, fold_left (agg_opt ft) vs o = match o with Some w => Some (fold_left (agg ft) vs w) | None => aggl ft vs end.
Proof.
  induction vs as [|v vs IH]; intros o; cbn [fold_left]; [destruct o; reflexivity|].
  rewrite IH. destruct o; reflexivity.
Qed.
Theorem observe_lookup ft pts q : lookup q (observe ft pts) = aggl ft (values_at q pts).
Proof. unfold observe, downsample. rewrite (fold_put_lookup ft pts q [] s_nil). cbn [lookup]. apply agg_opt_fold. Qed.
Lemma observe_sorted ft pts : sorted (observe ft pts).
Proof. unfold observe, downsample. apply fold_put_sorted. constructor. Qed.

(* a sorted list has one value per slot *)
Lemma sorted_values_at q l : sorted l -> values_at q l = match lookup q l with Some v => [v] | None => [] end.
Proof.
  induction l as [|[a w] r IH]; intros Hs; [reflexivity|].
  assert (Hs' : sorted r) by (inversion Hs; subst; [constructor|assumption]).
  unfold values_at in *. cbn [filter map lookup fst snd]. destruct (Z.eqb_spec a q) as [->|Hne].
  - cbn [map]. rewrite (IH Hs'). 
    assert (Hn : lookup q r = None).
    { clear IH Hs'. revert w Hs. induction r as [|[b x] r IHr]; intros w Hs; [reflexivity|].
      inversion Hs; subst. cbn [lookup]. destruct (Z.eqb_spec b q); [lia|]. 
      apply (IHr x). inversion H5; subst; [constructor|]. constructor; [lia|assumption]. }
    rewrite Hn. reflexivity.
  - apply IH, Hs'.
Qed.
Lemma values_at_app q a b : values_at q (a ++ b) = values_at q a ++ values_at q b.
Proof. unfold values_at. rewrite filter_app, map_app. reflexivity. Qed.

(* ---- order-insensitive types ---- *)
Lemma agg_assoc ft a b c : commutative_type ft = true -> agg ft (agg ft a b) c = agg ft a (agg ft b c).
Proof. destruct ft as [|[|[|[|ft]]]]; cbn; try discriminate; intros _; lia. Qed.
Lemma agg_comm ft a b : commutative_type ft = true -> agg ft a b = agg ft b a.
Proof. destruct ft as [|[|[|[|ft]]]]; cbn; try discriminate; intros _; lia. Qed.

Lemma fold_agg_shift ft vs : commutative_type ft = true -> forall a b, fold_left (agg ft) vs (agg ft a b) = agg ft a (fold_left (agg ft) vs b).
Proof.
  intros Hc. induction vs as [|v vs IH]; intros a b; cbn [fold_left]; [reflexivity|].
  rewrite agg_assoc by exact Hc. apply IH.
Qed.
Definition comb (ft : nat) (x y : option Z) : option Z :=
  match x, y with Some a, Some b => Some (agg ft a b) | Some a, None => Some a | None, o => o end.
Lemma aggl_app ft a b : commutative_type ft = true -> aggl ft (a ++ b) = comb ft (aggl ft a) (aggl ft b).
Proof.
  intros Hc. destruct a as [|x a]; [cbn [app aggl comb]; destruct (aggl ft b); reflexivity|]. cbn [app aggl].
  rewrite fold_left_app. destruct b as [|y b]; cbn [aggl comb fold_left]; [reflexivity|].
  f_equal. rewrite <- fold_agg_shift by exact Hc. reflexivity.
Qed.
Lemma comb_comm ft x y : commutative_type ft = true -> comb ft x y = comb ft y x.
Proof. intros Hc. destruct x, y; cbn; try reflexivity. f_equal. apply agg_comm, Hc. Qed.
Lemma comb_assoc ft x y z : commutative_type ft = true -> comb ft (comb ft x y) z = comb ft x (comb ft y z).
Proof. intros Hc. destruct x, y, z; cbn; try reflexivity. f_equal. apply agg_assoc, Hc. Qed.
Lemma aggl_perm ft a b : commutative_type ft = true -> Permutation a b -> aggl ft a = aggl ft b.
Proof.
  intros Hc Hp. induction Hp as [|x a b Hp IH|x y a|a b c H1 IH1 H2 IH2]; [reflexivity| | |congruence].
  - change (x :: a) with ([x] ++ a). change (x :: b) with ([x] ++ b). rewrite !aggl_app by exact Hc. rewrite IH. reflexivity.
  - change (y :: x :: a) with ([y] ++ [x] ++ a). change (x :: y :: a) with ([x] ++ [y] ++ a).
    rewrite !aggl_app by exact Hc. rewrite <- !comb_assoc by exact Hc. f_equal. apply comb_comm, Hc.
Qed.
Lemma aggl_single ft o : aggl ft (match o with Some v => [v] | None => [] end) = o.
Proof. destruct o; reflexivity. Qed.

(* ---- the property, per (series, field) ---- *)
(* compaction of any segment of the version's files leaves every slot's value unchanged, whatever order the merge visits
   the files in, for sum / min / max / histogram fields *)
Theorem compaction_preserves ft before seg seg' after q : commutative_type ft = true -> Permutation seg seg' ->
  lookup q (observe ft (compact_segment ft before seg' after)) = lookup q (observe ft (before ++ seg ++ after)).
Proof.
  intros Hc Hp. unfold compact_segment. rewrite !observe_lookup, !values_at_app.
  rewrite (sorted_values_at q (observe ft seg') (observe_sorted ft seg')), observe_lookup.
  rewrite !aggl_app by exact Hc. rewrite aggl_single. f_equal. f_equal.
  apply aggl_perm; [exact Hc|]. unfold values_at. apply Permutation_map. 
  clear -Hp. induction Hp as [|x a b Hp IH|x y a|a b c H1 IH1 H2 IH2]; cbn [filter]; [constructor| | |eapply perm_trans; eauto].
  - destruct (fst x =? q); [constructor|]; exact IH.
  - destruct (fst x =? q), (fst y =? q); try apply perm_swap; apply Permutation_refl.
Qed.

(* first / last (and every other type): no slot appears or disappears, and the value is one of the contributed ones *)
Lemma fold_agg_in ft vs : forall a, In (fold_left (agg ft) vs a) (a :: vs) \/ commutative_type ft = true.
Proof.
  destruct (commutative_type ft) eqn:Hc; [right; reflexivity|]. intros a. left.
  revert a. induction vs as [|v vs IH]; intros a; cbn [fold_left]; [left; reflexivity|].
  assert (Hv : agg ft a v = a \/ agg ft a v = v).
  { destruct ft as [|[|[|[|ft]]]]; cbn in *; try discriminate; auto. destruct ft; auto. }
  destruct (IH (agg ft a v)) as [E|Hin].
  - rewrite <- E. destruct Hv as [Hv|Hv]; rewrite Hv; [left; reflexivity|right; left; reflexivity].
  - right. right. exact Hin.
Qed.
Theorem compaction_keeps_slots ft before seg after q :
  (lookup q (observe ft (compact_segment ft before seg after)) = None <-> lookup q (observe ft (before ++ seg ++ after)) = None).
Proof.
  unfold compact_segment. rewrite !observe_lookup, !values_at_app.
  rewrite (sorted_values_at q (observe ft seg) (observe_sorted ft seg)), observe_lookup.
  destruct (values_at q before) as [|x xs]; destruct (values_at q seg) as [|y ys]; destruct (values_at q after) as [|z zs]; cbn; split; intros H; try discriminate; reflexivity.
Qed.
Theorem compaction_value_contributed ft before seg after q v : commutative_type ft = false ->
  lookup q (observe ft (compact_segment ft before seg after)) = Some v -> In v (values_at q (before ++ seg ++ after)).
Proof.
  intros Hc. unfold compact_segment. rewrite observe_lookup, !values_at_app.
  rewrite (sorted_values_at q (observe ft seg) (observe_sorted ft seg)), observe_lookup.
  set (va := values_at q before). set (vs := values_at q seg). set (vc := values_at q after).
  assert (Hin1 : forall l w, aggl ft l = Some w -> In w l).
  { intros l w. destruct l as [|a l]; cbn [aggl]; [discriminate|]. intros E. inversion E.
    destruct (fold_agg_in ft l a) as [H|H]; [exact H|congruence]. }
  intros E. apply Hin1 in E. apply in_app_or in E as [E|E]; [apply in_or_app; left; exact E|].
  apply in_app_or in E as [E|E]; [|apply in_or_app; right; apply in_or_app; right; exact E].
  apply in_or_app. right. apply in_or_app. left.
  destruct (aggl ft vs) as [w|] eqn:Ea; [|destruct E]. destruct E as [<-|[]]. apply Hin1, Ea.
Qed.

Example ex_compaction :
  observe 1%nat (compact_segment 1%nat [(3, 10); (5, 1)] [(3, 4); (7, 2); (3, 1)] [(7, 5)]) = [(3, 15); (5, 1); (7, 7)].
Proof. vm_compute. reflexivity. Qed.
