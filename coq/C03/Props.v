(* C03 — the property theorems, per (metric, series, field): the points of the version's files in order *)
From Coq Require Import List ZArith Bool Permutation.
Import ListNotations.
From LinDBV.C04 Require Import Model.
From LinDBV.C03 Require Import Model Proofs.
Open Scope Z_scope.

(* what a reader sees at a slot is the aggregate, by field type, of the values stored for that slot *)
Theorem C03_observe_lookup ft pts q : lookup q (observe ft pts) = aggl ft (values_at q pts).
Proof. exact (observe_lookup ft pts q). Qed.
Print Assumptions C03_observe_lookup.

(* sum / min / max / histogram: compacting any run of files, visited in any order, changes no slot's value *)
Theorem C03_compaction_preserves ft before seg seg' after q : commutative_type ft = true -> Permutation seg seg' ->
  lookup q (observe ft (compact_segment ft before seg' after)) = lookup q (observe ft (before ++ seg ++ after)).
Proof. exact (compaction_preserves ft before seg seg' after q). Qed.
Print Assumptions C03_compaction_preserves.

(* every type: no slot appears or disappears *)
Theorem C03_compaction_keeps_slots ft before seg after q :
  (lookup q (observe ft (compact_segment ft before seg after)) = None <-> lookup q (observe ft (before ++ seg ++ after)) = None).
Proof. exact (compaction_keeps_slots ft before seg after q). Qed.
Print Assumptions C03_compaction_keeps_slots.

(* first / last: the value is one of the contributed ones *)
Theorem C03_compaction_value_contributed ft before seg after q v : commutative_type ft = false ->
  lookup q (observe ft (compact_segment ft before seg after)) = Some v -> In v (values_at q (before ++ seg ++ after)).
Proof. exact (compaction_value_contributed ft before seg after q v). Qed.
Print Assumptions C03_compaction_value_contributed.
