(* C04 — executable checks: (correspondence code, oracle code); 0 = fine *)
From Coq Require Import List ZArith Bool.
Import ListNotations.
From LinDBV.C13 Require Import Model.
From LinDBV.C04 Require Import Model.
Open Scope Z_scope.

Definition entry := (Z * nat * points)%type.
Fixpoint points_eqb (a b : points) : bool :=
  match a, b with
  | [], [] => true
  | (p, v) :: a', (q, w) :: b' => (p =? q) && (v =? w) && points_eqb a' b'
  | _, _ => false
  end.
Definition entry_eqb (a b : entry) : bool :=
  (fst (fst a) =? fst (fst b)) && Nat.eqb (snd (fst a)) (snd (fst b)) && points_eqb (snd a) (snd b).
Definition entries_eq (a b : list entry) : bool :=
  forallb (fun x => existsb (entry_eqb x) b) a && forallb (fun x => existsb (entry_eqb x) a) b && Nat.eqb (length a) (length b).
Definition natset_eq (a b : list nat) : bool :=
  forallb (fun x => mem x b) a && forallb (fun x => mem x a) b.

(* configuration of one case *)
Record cfg := { c_off : Z; c_si : Z; c_ti : Z; c_ts0 : Z }.
Definition pos_code (c : cfg) (s : Z) : Z := target_pos (c_off c) (c_si c) (c_ti c) (c_ts0 c) s.
Definition pos_ts (c : cfg) (s : Z) : Z := slot_by_timestamp (c_off c) (c_si c) (c_ti c) (c_ts0 c) s.

Inductive hev :=
| HFlush (f : nat) (content : mfile)
| HRollup (n : nat)                 (* a rollup run cut after n of its three commits (3 = complete) *)
| HCompact (fs : list nat)
| HReopen.
Record hobs := { o_marks : list nat; o_refs : list nat; o_tfiles : list (list entry) (* oldest first *) }.

Definition contents := list (nat * mfile).
Definition content_of (cs : contents) (f : nat) : mfile :=
  match find (fun p => Nat.eqb (fst p) f) cs with Some p => snd p | None => [] end.
Fixpoint insert_nat (x : nat) (l : list nat) : list nat :=
  match l with [] => [x] | y :: r => if Nat.leb x y then x :: l else y :: insert_nat x r end.
Definition sort_nat (l : list nat) : list nat := fold_right insert_nat [] l.

Definition expand (s : st) (e : hev) : list ev :=
  match e with
  | HFlush f _ => [Flush f]
  | HRollup n => rollup_run s n
  | HCompact fs => [CompactSource fs]
  | HReopen => []
  end.
Definition agree (c : cfg) (cs : contents) (s : st) (o : hobs) : bool :=
  natset_eq (marks s) (o_marks o) && natset_eq (refs s) (o_refs o) &&
  Nat.eqb (length (tfiles s)) (length (o_tfiles o)) &&
  forallb (fun p => entries_eq (rollup_file (pos_code c) (map (content_of cs) (sort_nat (fst p)))) (snd p))
          (combine (rev (tfiles s)) (o_tfiles o)).
Fixpoint cmp (c : cfg) (cs : contents) (s : st) (evs : list hev) (os : list hobs) (i : nat) : nat :=
  match evs, os with
  | [], [] => 0%nat
  | e :: evs', o :: os' =>
      let cs' := match e with HFlush f m => (f, m) :: cs | _ => cs end in
      let s' := fold_left step (expand s e) s in
      if agree c cs' s' o then cmp c cs' s' evs' os' (S i) else S i
  | _, _ => 799%nat
  end.

(* ---- oracle: once no rollup mark is left, the target family as a whole holds, for every series and field, the
   aggregate by timestamp of everything that was flushed - each source file counted exactly once ---- *)
Fixpoint insert_pt (p : Z * Z) (l : points) : points :=
  match l with [] => [p] | q :: r => if fst p <? fst q then p :: l else q :: insert_pt p r end.
Definition sort_pts (l : points) : points := fold_left (fun acc p => insert_pt p acc) l [].   (* stable: later equal slots after *)
Definition ftype_of (files : list mfile) (fid : nat) : nat :=
  match find (fun fd => Nat.eqb (fst fd) fid) (all_fields files) with Some fd => snd fd | None => 0%nat end.
Definition by_timestamp (c : cfg) (files : list mfile) : list entry :=
  flat_map (fun sid => flat_map (fun fd =>
     let src := sort_pts (flat_map (fun f => field_points f sid (fst fd)) files) in
     match downsample (pos_ts c) (snd fd) src with [] => [] | ps => [(sid, fst fd, ps)] end) (all_fields files)) (all_sids files).
(* the target family read as a whole: its files merged by field type, oldest first *)
Definition merged_target (files : list mfile) (tfs : list (list entry)) : list entry :=
  let all := concat tfs in
  let keys := nodup (fun a b : Z * nat => match Z.eq_dec (fst a) (fst b), Nat.eq_dec (snd a) (snd b) with
                      | left e1, left e2 => left (match a, b return fst a = fst b -> snd a = snd b -> a = b with (x, y), (x', y') => fun h1 h2 => f_equal2 pair h1 h2 end e1 e2)
                      | right n, _ => right (fun h => n (f_equal fst h))
                      | _, right n => right (fun h => n (f_equal snd h)) end) (map fst all) in
  map (fun k => (k, fold_left (fun acc e => if (fst (fst e) =? fst k) && Nat.eqb (snd (fst e)) (snd k)
                                          then fold_left (fun a pv => put (ftype_of files (snd k)) a (fst pv) (snd pv)) (snd e) acc else acc) all [])) keys.
Definition oracle (c : cfg) (evs : list hev) (os : list hobs) : nat :=
  match rev os with
  | [] => 0%nat
  | o :: _ =>
      match o_marks o with
      | _ :: _ => 0%nat
      | [] =>
          let files := flat_map (fun e => match e with HFlush _ m => [m] | _ => [] end) evs in
          if entries_eq (by_timestamp c files) (merged_target files (o_tfiles o)) then 0%nat else 101%nat
      end
  end.

Definition check_hist (c : cfg) (evs : list hev) (os : list hobs) : nat * nat :=
  (cmp c [] init evs os 0, oracle c evs os).
