(* C04 — rollup.  Part A: where a source slot lands in the target family (kv/family_rollup.go rollup type and the
   family selection in family.rollup, tsdb/tblstore/metricsdata/merger.go prepare, aggregation/down_sampling_agg.go
   DownSamplingMultiSeriesInto), on top of the calendar model of C13.  Part B: the bookkeeping of rollup marks
   (source version), reference files (target version) and target files over flush / rollup runs cut by a crash /
   re-runs / source compaction (kv/family_rollup.go rollup, doRollupWork, cleanReferenceFiles; kv/flusher.go).
   Definitions only. *)
From Coq Require Import List ZArith Bool.
Import ListNotations.
From LinDBV.C13 Require Import Model.
Open Scope Z_scope.

(* ================= Part A ================= *)
Section Slots.
Variable off : Z.        (* zone offset, seconds *)
Variables si ti : Z.     (* source and target interval, ms *)
Variable ts0 : Z.        (* any timestamp inside the source family *)

Definition src_start : Z := family_time off Day ts0.                      (* familyStartTime in family.rollup *)
Definition ttype : itype := interval_type ti.
Definition tgt_start : Z := family_time off ttype src_start.              (* fSTime: target family the code selects *)
Definition base_slot : Z := slot ttype src_start tgt_start ti.        (* rollup.BaseSlot *)
Definition ratio : Z := Z.quot ti si.                                     (* rollup.IntervalRatio *)
Definition target_pos (s : Z) : Z := base_slot + Z.quot s ratio.          (* position used by DownSamplingMultiSeriesInto *)
Definition timestamp (s : Z) : Z := src_start + s * si.                   (* rollup.GetTimestamp *)
Definition slot_by_timestamp (s : Z) : Z := slot ttype (timestamp s) tgt_start ti.   (* where the timestamp belongs *)
End Slots.

(* aggregation by field type: 1 sum, 2 min, 3 max, 4 last, 5 first (field.Type.AggType) *)
Definition agg (ft : nat) (old new : Z) : Z :=
  match ft with
  | 1%nat => old + new
  | 2%nat => Z.min old new
  | 3%nat => Z.max old new
  | 4%nat => new
  | _ => old
  end.

(* data of one metric in one file: series -> field -> (slot, value), slots ascending *)
Definition points := list (Z * Z).
Definition fblock := (nat * nat * points)%type.          (* field id, field type, points *)
Definition sblock := (Z * list fblock)%type.              (* series id, fields *)
Definition mfile := list sblock.

Fixpoint put (ft : nat) (acc : points) (p v : Z) : points :=
  match acc with
  | [] => [(p, v)]
  | (q, w) :: r => if q =? p then (q, agg ft w v) :: r else if p <? q then (p, v) :: acc else (q, w) :: put ft r p v
  end.
(* down-sample a sequence of source points (in the order the code visits them) into target positions *)
Definition downsample (pos : Z -> Z) (ft : nat) (src : points) : points :=
  fold_left (fun acc sv => put ft acc (pos (fst sv)) (snd sv)) src [].

Definition field_points (f : mfile) (sid : Z) (fid : nat) : points :=
  flat_map (fun sb => if fst sb =? sid then flat_map (fun fb => if Nat.eqb (fst (fst fb)) fid then snd fb else []) (snd sb) else []) f.
Definition all_sids (fs : list mfile) : list Z := nodup Z.eq_dec (flat_map (fun f => map fst f) fs).
Definition all_fields (fs : list mfile) : list (nat * nat) :=
  nodup (fun a b => match Nat.eq_dec (fst a) (fst b), Nat.eq_dec (snd a) (snd b) with
                    | left e1, left e2 => left (match a, b return fst a = fst b -> snd a = snd b -> a = b with (x, y), (x', y') => fun h1 h2 => f_equal2 pair h1 h2 end e1 e2)
                    | right n, _ => right (fun h => n (f_equal fst h))
                    | _, right n => right (fun h => n (f_equal snd h)) end)
        (flat_map (fun f => flat_map (fun sb => map fst (snd sb)) f) fs).
(* the target file a rollup of the given source files writes: per series and field, the files in order *)
Definition rollup_file (pos : Z -> Z) (fs : list mfile) : list (Z * nat * points) :=
  flat_map (fun sid => flat_map (fun fd =>
     let src := flat_map (fun f => field_points f sid (fst fd)) fs in
     match downsample pos (snd fd) src with [] => [] | ps => [(sid, fst fd, ps)] end) (all_fields fs)) (all_sids fs).

(* ================= Part B ================= *)
Definition file := nat.
Definition mem (f : file) (l : list file) : bool := existsb (Nat.eqb f) l.
Definition remove_all (fs l : list file) : list file := filter (fun x => negb (mem x fs)) l.
Definition count (f : file) (l : list file) : nat := length (filter (Nat.eqb f) l).

Record st := {
  flushed : list file;       (* ghost: files ever flushed (file numbers are unique) *)
  level0 : list file;        (* source version: files in level 0 *)
  marks : list file;         (* source version: rollupFiles (for the one target interval) *)
  refs : list file;          (* target version: referenceFiles of this source family *)
  tfiles : list (list file)  (* target files, newest first: the source files each was merged from *)
}.
Definition init : st := {| flushed := []; level0 := []; marks := []; refs := []; tfiles := [] |}.
Definition contrib (s : st) : list file := concat (tfiles s).

Inductive ev :=
| Flush (f : file)
| TargetCommit (fs : list file)       (* doRollupWork: merge the files not yet referenced, add references *)
| SourceCommit (fs : list file)       (* delete the rollup marks of fs *)
| CleanRefs (fs : list file)          (* cleanReferenceFiles *)
| CompactSource (fs : list file).     (* level-0 compaction of the source family moves fs out of level 0 *)

Definition step (s : st) (e : ev) : st :=
  match e with
  | Flush f => {| flushed := f :: flushed s; level0 := f :: level0 s; marks := f :: marks s; refs := refs s; tfiles := tfiles s |}
  | TargetCommit fs =>
    let todo := filter (fun f => negb (mem f (refs s))) fs in
    let found := filter (fun f => mem f (level0 s)) todo in
    match todo with
    | [] => s
    | _ => {| flushed := flushed s; level0 := level0 s; marks := marks s; refs := found ++ refs s;
              tfiles := match found with [] => tfiles s | _ => found :: tfiles s end |}
    end
  | SourceCommit fs => {| flushed := flushed s; level0 := level0 s; marks := remove_all fs (marks s); refs := refs s; tfiles := tfiles s |}
  | CleanRefs fs => {| flushed := flushed s; level0 := level0 s; marks := marks s; refs := remove_all fs (refs s); tfiles := tfiles s |}
  | CompactSource fs => {| flushed := flushed s; level0 := remove_all fs (level0 s); marks := marks s; refs := refs s; tfiles := tfiles s |}
  end.
Definition run (evs : list ev) : st := fold_left step evs init.

(* a rollup run as the code performs it, cut after n of its three commits (n = 3: complete) *)
Definition rollup_run (s : st) (n : nat) : list ev :=
  firstn n [TargetCommit (marks s); SourceCommit (marks s); CleanRefs (marks s)].
