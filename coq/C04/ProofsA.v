(* C04 part A — proofs *)
From Coq Require Import List ZArith Lia Bool.
Import ListNotations.
From LinDBV.C13 Require Import Model Proofs.
From LinDBV.C04 Require Import Model.
Open Scope Z_scope.

(* the arithmetic core: A = offset of the source family inside the target family (a whole number of hours),
   x = s * si = offset of the source slot inside the source family (less than an hour) *)
Lemma slot_core A si ti s :
  0 <= A -> (one_hour | A) -> 0 < si -> (si | ti) -> 0 < ti -> ((ti | one_hour) \/ (one_hour | ti)) ->
  0 <= s -> s * si < one_hour ->
  A / ti + s / (ti / si) = (A + s * si) / ti.
Proof.
  intros HA [a Ha] Hsi [r Hr] Hti Hdiv Hs Hx. subst ti.
  assert (Hrpos : 0 < r) by nia.
  rewrite Z.div_mul by lia.
  assert (Hsr : s / r = (s * si) / (r * si)) by (symmetry; apply Z.div_mul_cancel_r; lia).
  rewrite Hsr. destruct Hdiv as [[q Hq]|[n Hn]].
  - (* the target interval divides the hour, hence A *)
    assert (HAq : A = (a * q) * (r * si)) by (rewrite Ha, Hq; ring).
    rewrite HAq at 1 2. rewrite Z.div_mul by lia. rewrite Z.div_add_l by lia. reflexivity.
  - (* the target interval is a whole number of hours: nothing of one source family crosses a target slot *)
    assert (Hnpos : 0 < n) by (unfold one_hour in *; nia).
    rewrite (Z.div_small (s * si) (r * si)) by (unfold one_hour in *; nia).
    rewrite Z.add_0_r. rewrite Hn, Ha.
    rewrite (Z.mul_comm n one_hour). rewrite <- !Z.div_div by (unfold one_hour; lia).
    rewrite Z.div_mul by (unfold one_hour; lia).
    rewrite Z.div_add_l by (unfold one_hour; lia). rewrite (Z.div_small (s * si)) by lia. rewrite Z.add_0_r. reflexivity.
Qed.

Section Zone.
Variable off : Z.

Lemma src_start_shape ts0 : one_day <= ts0 ->
  let D := local_day off ts0 in
  exists h, src_start off ts0 = day_ms off D + h * one_hour /\ 0 <= h <= 23 /\ 0 <= src_start off ts0 /\
            local_day off (src_start off ts0) = D.
Proof.
  intros H D. assert (H0 : 0 <= ts0) by (unfold one_day in H; lia).
  destruct (family_time_day off ts0 H0) as (E & Hh & Hr). fold D in E, Hh, Hr.
  exists (Z.quot (ts0 - day_ms off D) one_hour). unfold src_start. rewrite E.
  assert (Hpos : 0 <= day_ms off D + Z.quot (ts0 - day_ms off D) one_hour * one_hour) by (unfold one_day, one_hour in *; lia).
  repeat split; try lia.
  apply local_day_unique; [exact Hpos|]. rewrite day_ms_succ. unfold one_day, one_hour in *. lia.
Qed.

(* families of the coarser types depend on the local day only *)
Lemma family_time_same_day t a b : t <> Day -> local_day off a = local_day off b -> family_time off t a = family_time off t b.
Proof.
  intros Ht E. unfold family_time, seg_time, family, civil. rewrite E. destruct t; [contradiction| |]; reflexivity.
Qed.

Theorem rollup_slot_correct si ti ts0 s :
  one_day <= ts0 -> 0 < si -> (si | ti) -> 5 * one_minute <= ti -> ((ti | one_hour) \/ (one_hour | ti)) ->
  0 <= s -> s * si < one_hour ->
  target_pos off si ti ts0 s = slot_by_timestamp off si ti ts0 s
  /\ family_time off (ttype ti) (timestamp off si ts0 s) = tgt_start off ti ts0.
Proof.
  intros Hts Hsi Hdiv Hmin Hal Hs Hx.
  destruct (src_start_shape ts0 Hts) as (h & Esf & Hh & Hsf0 & Hld). set (D := local_day off ts0) in *.
  assert (Hti : 0 < ti) by (unfold one_minute in Hmin; lia).
  (* the timestamp of the slot lies in the same local day as the source family *)
  assert (Hts_day : local_day off (timestamp off si ts0 s) = D).
  { unfold timestamp. apply local_day_unique; [lia|]. rewrite Esf, day_ms_succ. unfold one_day, one_hour in *. lia. }
  assert (Htype : ttype ti <> Day).
  { unfold ttype, interval_type. destruct (one_hour <=? ti); [discriminate|].
    destruct (Z.leb_spec (5 * one_minute) ti); [discriminate|lia]. }
  split.
  2:{ unfold tgt_start. apply family_time_same_day; [exact Htype|]. rewrite Hts_day, Hld. reflexivity. }
  unfold target_pos, slot_by_timestamp, base_slot, ratio, tgt_start, timestamp.
  unfold ttype, interval_type in *. destruct (Z.leb_spec one_hour ti) as [Hy|Hy].
  - (* year type: the target family is the month *)
    pose proof (family_time_year off (src_start off ts0) Hsf0) as Hfy.
    pose proof (day_in_month (local_day off (src_start off ts0))) as Hdm.
    unfold civil in Hfy. destruct (civil_from_days (local_day off (src_start off ts0))) as [[y m] d]. destruct Hfy as (Ey & Hm).
    rewrite Ey. cbn [slot]. rewrite Hld in Hdm. destruct Hdm as (Hd1 & Hd2).
    set (M0 := days_from_civil y m 1) in *.
    assert (EA : src_start off ts0 - day_ms off M0 = (D - M0) * one_day + h * one_hour) by (rewrite Esf; unfold day_ms, one_day; lia).
    assert (HA0 : 0 <= (D - M0) * one_day + h * one_hour) by (unfold one_day, one_hour; lia).
    rewrite !Z.quot_div_nonneg; try lia; try (unfold one_hour in *; nia).
    2:{ rewrite Z.quot_div_nonneg by lia. destruct Hdiv as [r Hr]. subst ti. assert (0 < r) by nia. rewrite Z.div_mul by lia. lia. }
    replace (src_start off ts0 + s * si - day_ms off M0) with ((src_start off ts0 - day_ms off M0) + s * si) by lia.
    rewrite EA. apply slot_core; try assumption; try lia.
    exists ((D - M0) * 24 + h). unfold one_day, one_hour. lia.
  - (* month type: the target family is the day *)
    destruct (Z.leb_spec (5 * one_minute) ti) as [_|X]; [|lia].
    rewrite (family_time_month off (src_start off ts0) Hsf0), Hld. cbn [slot].
    assert (EA : src_start off ts0 - day_ms off D = h * one_hour) by (rewrite Esf; lia).
    replace (src_start off ts0 + s * si - day_ms off D) with (h * one_hour + s * si) by lia. rewrite EA.
    rewrite !Z.rem_small by (unfold one_day, one_hour in *; lia).
    rewrite !Z.quot_div_nonneg; try lia; try (unfold one_hour in *; nia).
    2:{ rewrite Z.quot_div_nonneg by lia. destruct Hdiv as [r Hr]. subst ti. assert (0 < r) by nia. rewrite Z.div_mul by lia. lia. }
    apply slot_core; try assumption; try lia; [unfold one_hour; lia|exists h; reflexivity].
Qed.
End Zone.

(* the value claim: with equal positions the code's down-sampling is the down-sampling by timestamp *)
Lemma downsample_ext pos pos' ft src : (forall p, In p src -> pos (fst p) = pos' (fst p)) ->
  downsample pos ft src = downsample pos' ft src.
Proof.
  unfold downsample. generalize (@nil (Z * Z)). induction src as [|sv src IH]; intros acc H; cbn [fold_left]; [reflexivity|].
  rewrite (H sv (or_introl eq_refl)). apply IH. intros p Hp. apply H. right. exact Hp.
Qed.

(* the configuration accepted by option.Intervals.IsValid and confirmed on the implementation: 10 s -> 7 min *)
Theorem misaligned_refuted :
  let off := 0 in let si := 10000 in let ti := 420000 in let ts0 := 1562029200000 in   (* 2019-07-02 01:00 UTC *)
  (target_pos off si ti ts0 18, slot_by_timestamp off si ti ts0 18) = (8, 9).
Proof. vm_compute. reflexivity. Qed.

Example aligned_example :
  let off := 19800 in let si := 10000 in let ti := 300000 in let ts0 := 1562029200000 + 1234567 in
  (target_pos off si ti ts0 200, slot_by_timestamp off si ti ts0 200, base_slot off ti ts0) = (78, 78, 72).
Proof. vm_compute. reflexivity. Qed.
