(* C04 part B — proofs *)
From Coq Require Import List Arith Lia Bool.
Import ListNotations.
From LinDBV.C04 Require Import Model.

(* histories the code can produce: a run reads the marks, then performs a prefix of its three commits (a crash or
   restart cuts it), flushes interleave freely, file numbers are fresh; the source family's level-0 compaction only
   takes files whose rollup is complete (otherwise see compaction_before_rollup_refuted) *)
Inductive wf : st -> list ev -> Prop :=
| wf_nil s : wf s []
| wf_flush s f evs : mem f (flushed s) = false -> wf (step s (Flush f)) evs -> wf s (Flush f :: evs)
| wf_target s fs evs : NoDup fs -> (forall f, In f fs -> mem f (marks s) = true) ->
    wf (step s (TargetCommit fs)) evs -> wf s (TargetCommit fs :: evs)
| wf_source s fs evs : (forall f, In f fs -> mem f (refs s) = true) ->     (* only after the target commit of the same run *)
    wf (step s (SourceCommit fs)) evs -> wf s (SourceCommit fs :: evs)
| wf_clean s fs evs : (forall f, In f fs -> mem f (marks s) = false) ->    (* only after the source commit *)
    wf (step s (CleanRefs fs)) evs -> wf s (CleanRefs fs :: evs)
| wf_compact s fs evs : (forall f, In f fs -> mem f (marks s) = false) ->
    wf (step s (CompactSource fs)) evs -> wf s (CompactSource fs :: evs).

Definition okf (fl m r : bool) (c : nat) : Prop :=
  if fl then (m = true /\ r = false /\ c = 0) \/ (m = true /\ r = true /\ c = 1) \/ (m = false /\ c = 1)
  else m = false /\ r = false /\ c = 0.
Definition Inv (s : st) : Prop :=
  NoDup (flushed s) /\
  (forall f, okf (mem f (flushed s)) (mem f (marks s)) (mem f (refs s)) (count f (contrib s))) /\
  (forall f, mem f (marks s) = true -> mem f (level0 s) = true).

Lemma mem_In f l : mem f l = true <-> In f l.
Proof. unfold mem. rewrite existsb_exists. split; [intros (x & H & E); apply Nat.eqb_eq in E; subst; exact H|].
  intros H. exists f. split; [exact H|apply Nat.eqb_refl]. Qed.
Lemma mem_false f l : mem f l = false <-> ~ In f l.
Proof. rewrite <- mem_In. destruct (mem f l); split; congruence. Qed.
Lemma mem_app f a b : mem f (a ++ b) = mem f a || mem f b.
Proof. unfold mem. apply existsb_app. Qed.
Lemma count_app f a b : count f (a ++ b) = count f a + count f b.
Proof. unfold count. rewrite filter_app, app_length. reflexivity. Qed.
Lemma count_nodup_in f l : NoDup l -> In f l -> count f l = 1.
Proof.
  induction 1 as [|x l Hn Hd IH]; intros Hin; [destruct Hin|]. unfold count in *. simpl.
  destruct (Nat.eqb_spec f x) as [->|Hne].
  - simpl. f_equal. destruct Hin as [_|_]; clear IH.
    all: induction l as [|y l IHl]; [reflexivity|]; simpl;
      destruct (Nat.eqb_spec x y) as [->|]; [exfalso; apply Hn; left; reflexivity|];
      apply IHl; [intro; apply Hn; right; assumption|inversion Hd; assumption].
  - destruct Hin as [E|Hin]; [congruence|]. apply IH, Hin.
Qed.
Lemma count_notin f l : ~ In f l -> count f l = 0.
Proof. induction l as [|x l IH]; intros H; [reflexivity|]. unfold count in *. simpl.
  destruct (Nat.eqb_spec f x) as [->|]; [exfalso; apply H; left; reflexivity|]. apply IH. intro; apply H; right; assumption. Qed.
Lemma mem_remove_all f fs l : mem f (remove_all fs l) = mem f l && negb (mem f fs).
Proof.
  unfold remove_all. induction l as [|x l IH]; [reflexivity|]. simpl.
  destruct (mem x fs) eqn:Ex; simpl.
  - rewrite IH. destruct (Nat.eqb_spec f x) as [->|]; simpl; [rewrite Ex; simpl; destruct (mem x l); reflexivity|reflexivity].
  - rewrite IH. destruct (Nat.eqb_spec f x) as [->|]; simpl; [rewrite Ex; reflexivity|reflexivity].
Qed.

Lemma count_todo f todo : NoDup todo -> count f todo = if mem f todo then 1 else 0.
Proof.
  intros Hnd. destruct (mem f todo) eqn:E; [apply count_nodup_in; [exact Hnd|apply mem_In, E]|apply count_notin, mem_false, E].
Qed.


Lemma filter_all {A} (p : A -> bool) l : (forall x, In x l -> p x = true) -> filter p l = l.
Proof. induction l as [|x l IH]; intros H; [reflexivity|]. simpl. rewrite (H x (or_introl eq_refl)). f_equal. apply IH. intros y Hy. apply H. right. exact Hy. Qed.

Lemma step_inv s e evs : Inv s -> wf s (e :: evs) -> Inv (step s e).
Proof.
  intros (Hnd & Hok & Hl0) Hwf.
  inversion Hwf as [|? f ? Hfresh _|? fs ? Hfs Hmk _|? fs ? Hrf _|? fs ? Hmf _|? fs ? Hcf _]; subst; unfold Inv, contrib; cbn [step flushed level0 marks refs tfiles].
  - (* Flush *)
    split; [constructor; [apply mem_false, Hfresh|exact Hnd]|]. split.
    + intros g. specialize (Hok g).
      replace (mem g (f :: flushed s)) with (Nat.eqb g f || mem g (flushed s)) by reflexivity.
      replace (mem g (f :: marks s)) with (Nat.eqb g f || mem g (marks s)) by reflexivity.
      destruct (Nat.eqb_spec g f) as [->|Hne]; cbn [orb]; [|exact Hok].
      rewrite Hfresh in Hok. destruct Hok as (A & B & C). unfold okf. left. auto.
    + intros g.
      replace (mem g (f :: marks s)) with (Nat.eqb g f || mem g (marks s)) by reflexivity.
      replace (mem g (f :: level0 s)) with (Nat.eqb g f || mem g (level0 s)) by reflexivity.
      destruct (Nat.eqb_spec g f); cbn [orb]; [reflexivity|apply Hl0].
  - (* TargetCommit *)
    set (todo := filter (fun f => negb (mem f (refs s))) fs).
    assert (Hfound : filter (fun f => mem f (level0 s)) todo = todo).
    { apply filter_all. intros x Hx. unfold todo in Hx. apply filter_In in Hx as [Hx _]. apply Hl0, Hmk, Hx. }
    rewrite Hfound.
    assert (Hndt : NoDup todo) by (apply NoDup_filter, Hfs).
    assert (Hin_todo : forall g, In g todo -> In g fs /\ mem g (refs s) = false).
    { intros g Hg. unfold todo in Hg. apply filter_In in Hg as [A B]. apply negb_true_iff in B. auto. }
    clearbody todo. destruct todo as [|t0 todo'] eqn:Et; [split; [exact Hnd|split; [exact Hok|exact Hl0]]|].
    rewrite <- Et in *. cbn [flushed level0 marks refs tfiles].
    split; [exact Hnd|]. split; [|exact Hl0]. intros g. specialize (Hok g).
    cbn [concat]. rewrite mem_app, count_app, (count_todo g todo Hndt).
    destruct (mem g todo) eqn:Etg; simpl; [|exact Hok].
    apply mem_In in Etg. destruct (Hin_todo g Etg) as [Hin Hnr].
    pose proof (Hmk g Hin) as Hmg. rewrite Hmg, Hnr in Hok.
    unfold okf in *. destruct (mem g (flushed s)).
    + destruct Hok as [(A & B & C)|[(A & B & C)|(A & C)]]; try discriminate. right. left. unfold contrib in C. rewrite C. auto.
    + destruct Hok as (A & _). discriminate.
  - (* SourceCommit *)
    split; [exact Hnd|]. split.
    + intros g. specialize (Hok g). rewrite mem_remove_all.
      destruct (mem g fs) eqn:Eg; simpl; [|rewrite andb_true_r; exact Hok].
      rewrite andb_false_r. pose proof (Hrf g (proj1 (mem_In _ _) Eg)) as Hr. rewrite Hr in Hok.
      unfold okf in *. destruct (mem g (flushed s)).
      * destruct Hok as [(A & B & C)|[(A & B & C)|(A & C)]]; try discriminate; right; right; auto.
      * destruct Hok as (_ & B & _). discriminate.
    + intros g Hg. rewrite mem_remove_all in Hg. apply andb_prop in Hg as [Hg _]. apply Hl0, Hg.
  - (* CleanRefs *)
    split; [exact Hnd|]. split; [|exact Hl0]. intros g. specialize (Hok g). rewrite mem_remove_all.
    destruct (mem g fs) eqn:Eg; simpl; [|rewrite andb_true_r; exact Hok].
    rewrite andb_false_r. pose proof (Hmf g (proj1 (mem_In _ _) Eg)) as Hm. rewrite Hm in Hok.
    unfold okf in *. destruct (mem g (flushed s)).
    + destruct Hok as [(A & B & C)|[(A & B & C)|(A & C)]]; try discriminate. right. right. auto.
    + destruct Hok as (_ & _ & C). auto.
  - (* CompactSource: only files whose marks are gone *)
    split; [exact Hnd|]. split; [exact Hok|]. intros g Hg. rewrite mem_remove_all. rewrite (Hl0 g Hg). cbn [andb].
    destruct (mem g fs) eqn:Eg; [|reflexivity]. rewrite (Hcf g (proj1 (mem_In _ _) Eg)) in Hg. discriminate.
Qed.

Lemma wf_tail s e evs : wf s (e :: evs) -> wf (step s e) evs.
Proof. intros H. inversion H; subst; assumption. Qed.

(* every flushed file is merged into the target at most once, whatever the history of flushes, rollup runs cut by
   crashes, re-runs and compactions of rolled-up files; and exactly once as soon as its rollup mark is gone *)
Theorem rollup_exactly_once evs : wf init evs ->
  let s := run evs in
  forall f, count f (contrib s) <= 1 /\
            (mem f (flushed s) = true -> mem f (marks s) = false -> count f (contrib s) = 1).
Proof.
  intros Hwf.
  assert (HI : Inv init) by (split; [constructor|split; [intros f; simpl; auto|intros f H; discriminate H]]).
  assert (G : forall evs s, Inv s -> wf s evs -> Inv (fold_left step evs s)).
  { clear. induction evs as [|e evs IH]; intros s HI Hwf; simpl; [exact HI|].
    apply IH; [eapply step_inv; eauto|apply wf_tail, Hwf]. }
  pose proof (G evs init HI Hwf) as (_ & Hok & _). cbn zeta. intros f. specialize (Hok f). unfold run.
  unfold okf in Hok. destruct (mem f (flushed (fold_left step evs init))).
  - destruct Hok as [(A & B & C)|[(A & B & C)|(A & C)]]; split; try lia; intros _ Hm; congruence.
  - destruct Hok as (A & B & C). split; [lia|discriminate].
Qed.

(* the source family's compaction takes a marked file out of level 0 before the rollup runs: the rollup skips it and
   deletes its mark all the same (known finding) *)
Theorem compaction_before_rollup_refuted :
  let s := run [Flush 1; Flush 2; CompactSource [1; 2]; TargetCommit [2; 1]; SourceCommit [2; 1]; CleanRefs [2; 1]] in
  (mem 1 (flushed s), mem 1 (marks s), count 1 (contrib s)) = (true, false, 0).
Proof. vm_compute. reflexivity. Qed.

Example nonvacuous :
  wf init [Flush 1; Flush 2; TargetCommit [1; 2]; TargetCommit [1; 2]; SourceCommit [1; 2]; Flush 3; CleanRefs [1; 2]; CompactSource [1; 2]; TargetCommit [3]].
Proof. repeat (constructor; simpl; try (intros f [<-|[<-|[]]]; reflexivity); try (intros f [<-|[]]; reflexivity); try reflexivity);
  try (intro H; simpl in H; intuition congruence); try (constructor; simpl; intuition congruence). Qed.
