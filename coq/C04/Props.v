(* C04 — the property theorems *)
From Coq Require Import List ZArith Bool.
Import ListNotations.
From LinDBV.C13 Require Import Model.
From LinDBV.C04 Require Import Model ProofsA ProofsB.
Open Scope Z_scope.

(* the position the code writes a source slot to is the slot of its timestamp in the target family the code selects,
   and that family is the one containing the timestamp *)
Theorem C04_rollup_slot_correct off si ti ts0 s :
  one_day <= ts0 -> 0 < si -> (si | ti) -> 5 * one_minute <= ti -> ((ti | one_hour) \/ (one_hour | ti)) ->
  0 <= s -> s * si < one_hour ->
  target_pos off si ti ts0 s = slot_by_timestamp off si ti ts0 s
  /\ family_time off (ttype ti) (timestamp off si ts0 s) = tgt_start off ti ts0.
Proof. exact (rollup_slot_correct off si ti ts0 s). Qed.
Print Assumptions C04_rollup_slot_correct.

(* equal positions give equal aggregates, whatever the field type *)
Theorem C04_downsample_ext pos pos' ft src : (forall p, In p src -> pos (fst p) = pos' (fst p)) ->
  downsample pos ft src = downsample pos' ft src.
Proof. exact (downsample_ext pos pos' ft src). Qed.
Print Assumptions C04_downsample_ext.

(* intervals accepted by the option check but not aligned: the position is wrong (known finding) *)
Theorem C04_misaligned_refuted :
  let off := 0 in let si := 10000 in let ti := 420000 in let ts0 := 1562029200000 in
  (target_pos off si ti ts0 18, slot_by_timestamp off si ti ts0 18) = (8, 9).
Proof. exact misaligned_refuted. Qed.
Print Assumptions C04_misaligned_refuted.

(* exactly once *)
Theorem C04_rollup_exactly_once evs : wf init evs ->
  let s := run evs in
  forall f, (count f (contrib s) <= 1)%nat /\
            (mem f (flushed s) = true -> mem f (marks s) = false -> count f (contrib s) = 1%nat).
Proof. exact (rollup_exactly_once evs). Qed.
Print Assumptions C04_rollup_exactly_once.

(* source compaction before the rollup (known finding) *)
Theorem C04_compaction_before_rollup_refuted :
  let s := run [Flush 1; Flush 2; CompactSource [1; 2]; TargetCommit [2; 1]; SourceCommit [2; 1]; CleanRefs [2; 1]]%nat in
  (mem 1%nat (flushed s), mem 1%nat (marks s), count 1%nat (contrib s)) = (true, false, 0%nat).
Proof. exact compaction_before_rollup_refuted. Qed.
Print Assumptions C04_compaction_before_rollup_refuted.
