From Coq Require Import List Arith NArith Bool.
Import ListNotations.
From LinDBV.C05 Require Import Model.

Definition omsg_eqb (a b : option msg) : bool :=
  match a, b with Some x, Some y => x =? y | None, None => true | _, _ => false end.
Fixpoint omsgs_eqb (a b : list (option msg)) : bool :=
  match a, b with [] , [] => true | x :: a', y :: b' => omsg_eqb x y && omsgs_eqb a' b' | _, _ => false end.

(* one history: after all operations, the appended position (+1) and Get(n) for n = 0 .. appended+1
   (Some id = the bytes of message id, None = error); observed appended after every operation as well *)
Fixpoint apps (s : q) (ops : list op) : list nat :=
  match ops with [] => [] | o :: ops' => let s' := step s o in app s' :: apps s' ops' end.
Fixpoint nats_eqb (a b : list nat) : bool :=
  match a, b with [], [] => true | x :: a', y :: b' => (x =? y) && nats_eqb a' b' | _, _ => false end.

Definition check_hist (ops : list op) (obs_apps : list nat) (gets : list (option msg)) : nat * nat :=
  let '(s, lg) := run init [] ops in
  ((if nats_eqb (apps init ops) obs_apps && omsgs_eqb (map (get s) (seq 0 (length gets))) gets then 0 else 1),
   (* the property on the implementation's reads: the abstract log is readable message by message, nothing more *)
   (if omsgs_eqb (map Some lg ++ [None]) gets then 0 else 1)).

(* the same with an acknowledged position: the queue's read barrier was moved (SetAcknowledgedSeq) at some points of the
   history - no operation of the model, nothing about the appended messages may change - so the first [acked] positions are
   legitimately unreadable at the end *)
Definition mask {A} (acked : nat) (l : list (option A)) : list (option A) :=
  repeat None (Nat.min acked (length l)) ++ skipn acked l.
Definition check_hist_acked (acked : nat) (ops : list op) (obs_apps : list nat) (gets : list (option msg)) : nat * nat :=
  let '(s, lg) := run init [] ops in
  ((if nats_eqb (apps init ops) obs_apps && omsgs_eqb (mask acked (map (get s) (seq 0 (length gets)))) gets then 0 else 1),
   (if omsgs_eqb (mask acked (map Some lg ++ [None])) gets then 0 else 1)).
