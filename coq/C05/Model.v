(* C05 — WAL queue (pkg/queue/queue.go): Put = alloc (page roll-over) + copy + index entry + meta,
   reopen = initSequence + initDataPageIndex, crash = the process stops between two stores of an append
   (or in the middle of the copy).  Linear addresses: page * P + offset, in N.  Appends are serialised
   (the code after the fix: commit holds one mutex over the whole Put).  Definitions only. *)
From Coq Require Import List Arith NArith Bool.
Import ListNotations.

Definition P : N := 134217728%N.            (* dataPageSize = 128 MiB *)
Definition msg := nat.

Record q := {
  data : list (N * N * msg);               (* intact regions: start address, length, content id *)
  index : list (nat * (N * N));            (* seq -> (start, length); newest binding first *)
  meta : nat;                              (* persisted appended sequence + 1 (0 = empty queue) *)
  cursor : N;                              (* volatile write cursor (linear address = page * P + offset) *)
  app : nat                                (* volatile appended + 1 *)
}.
Definition init : q := {| data := []; index := []; meta := 0; cursor := 0%N; app := 0 |}.

Definition overlaps (a l b m : N) : bool := ((a <? b + m) && (b <? a + l))%N.
Definition write (d : list (N * N * msg)) (a l : N) (m : msg) :=
  (a, l, m) :: filter (fun '(b, k, _) => negb (overlaps a l b k)) d.
Definition scribble (d : list (N * N * msg)) (a l : N) :=      (* a torn copy: destroys what it overlaps *)
  filter (fun '(b, k, _) => negb (overlaps a l b k)) d.
Fixpoint read_ne (d : list (N * N * msg)) (a l : N) : option msg :=
  match d with [] => None | (b, k, m) :: d' => if ((b =? a) && (k =? l))%N then Some m else read_ne d' a l end.
(* reading zero bytes gives the empty message (content id 0) whatever the page holds *)
Definition read (d : list (N * N * msg)) (a l : N) : option msg :=
  if (l =? 0)%N then Some 0 else read_ne d a l.
Fixpoint lookup (s : nat) (ix : list (nat * (N * N))) : option (N * N) :=
  match ix with [] => None | (t, e) :: ix' => if t =? s then Some e else lookup s ix' end.

(* alloc: roll over to the next page when the message does not fit *)
Definition place (c l : N) : N := (if c mod P + l <=? P then c else (c / P + 1) * P)%N.

(* crash points inside one append: in the middle of the copy, after the copy, after a part of the index entry
   (invisible: the meta store has not happened), after the whole index entry, after the meta store *)
Inductive crash := AfterCopyTorn | AfterCopy | AfterIndexPart | AfterIndex | AfterMeta.
Inductive op := Put (m : msg) (l : N) | PutCrash (m : msg) (l : N) (c : crash) | Reopen.

Definition reopen (s : q) : q :=
  let c := match meta s with
           | 0 => 0%N
           | S n => match lookup n (index s) with Some (a, l) => (a + l)%N | None => 0%N end
           end in
  {| data := data s; index := index s; meta := meta s; cursor := c; app := meta s |}.

Definition step (s : q) (o : op) : q :=
  match o with
  | Put m l =>
    let a := place (cursor s) l in
    {| data := write (data s) a l m; index := (app s, (a, l)) :: index s; meta := S (app s);
       cursor := (a + l)%N; app := S (app s) |}
  | PutCrash m l c =>
    let a := place (cursor s) l in
    reopen
      match c with
      | AfterCopyTorn => {| data := scribble (data s) a l; index := index s; meta := meta s; cursor := (a + l)%N; app := app s |}
      | AfterCopy | AfterIndexPart => {| data := write (data s) a l m; index := index s; meta := meta s; cursor := (a + l)%N; app := app s |}
      | AfterIndex => {| data := write (data s) a l m; index := (app s, (a, l)) :: index s; meta := meta s; cursor := (a + l)%N; app := app s |}
      | AfterMeta => {| data := write (data s) a l m; index := (app s, (a, l)) :: index s; meta := S (app s); cursor := (a + l)%N; app := app s |}
      end
  | Reopen => reopen s
  end.

Definition get (s : q) (n : nat) : option msg :=
  if n <? app s then match lookup n (index s) with Some (a, l) => read (data s) a l | None => None end else None.

(* abstract log: what must be readable *)
Definition alog (lg : list msg) (o : op) : list msg :=
  match o with
  | Put m _ => lg ++ [m]
  | PutCrash m _ AfterMeta => lg ++ [m]          (* the in-flight append became visible as a whole *)
  | _ => lg
  end.

(* messages fit a page; the empty message has content id 0 *)
Definition ok_op (o : op) : Prop :=
  match o with Put m l | PutCrash m l _ => (l <= P)%N /\ (l = 0%N -> m = 0) | Reopen => True end.

Fixpoint run (s : q) (lg : list msg) (ops : list op) : q * list msg :=
  match ops with [] => (s, lg) | o :: ops' => run (step s o) (alog lg o) ops' end.
