From Coq Require Import List Arith NArith ZArith Lia Bool ZifyN ZifyNat ZifyBool.
Import ListNotations.
From LinDBV.C05 Require Import Model.
Ltac Zify.zify_post_hook ::= Z.div_mod_to_equations.

(* ---------- refinement invariant ---------- *)
Definition R (s : q) (lg : list msg) : Prop :=
  app s = length lg /\ meta s = length lg /\
  (forall n m, nth_error lg n = Some m ->
     exists a l, lookup n (index s) = Some (a, l) /\ read (data s) a l = Some m /\ (a + l <= cursor s)%N) /\
  (* entries are laid out in sequence order, so the last one ends highest *)
  (forall n n' a l a' l', n < n' -> n' < length lg ->
     lookup n (index s) = Some (a, l) -> lookup n' (index s) = Some (a', l') -> (a + l <= a')%N).

Lemma place_ge c l : (c <= place c l)%N.
Proof. unfold place, P. destruct (N.leb_spec (c mod 134217728 + l) 134217728); lia. Qed.

Lemma read_write_same d a l m : (l = 0%N -> m = 0) -> read (write d a l m) a l = Some m.
Proof.
  intros H0. unfold read. destruct (N.eqb_spec l 0) as [E|E]; [rewrite (H0 E); reflexivity|].
  unfold write. simpl. rewrite !N.eqb_refl. reflexivity.
Qed.

Lemma read_ne_filter_other d a l b k : (1 <= k)%N -> (b + k <= a)%N ->
  read_ne (filter (fun '(b0, k0, _) => negb (overlaps a l b0 k0)) d) b k = read_ne d b k.
Proof.
  intros Hk Hb. induction d as [|[[b0 k0] m0] d IH]; simpl; [reflexivity|].
  destruct (N.eqb_spec b0 b) as [->|Nb]; destruct (N.eqb_spec k0 k) as [->|Nk]; simpl.
  - assert (overlaps a l b k = false) as ->.
    { unfold overlaps. destruct (N.ltb_spec a (b + k)); [lia|reflexivity]. }
    simpl. rewrite !N.eqb_refl. reflexivity.
  - destruct (negb (overlaps a l b k0)); simpl; [|exact IH].
    rewrite N.eqb_refl. destruct (N.eqb_spec k0 k); [congruence|]. simpl. exact IH.
  - destruct (negb (overlaps a l b0 k)); simpl; [|exact IH].
    destruct (N.eqb_spec b0 b); [congruence|]. simpl. exact IH.
  - destruct (negb (overlaps a l b0 k0)); simpl; [|exact IH].
    destruct (N.eqb_spec b0 b); [congruence|]. simpl. exact IH.
Qed.

Lemma read_filter_other d a l b k : (b + k <= a)%N ->
  read (filter (fun '(b0, k0, _) => negb (overlaps a l b0 k0)) d) b k = read d b k.
Proof.
  intros Hb. unfold read. destruct (N.eqb_spec k 0) as [E|E]; [reflexivity|].
  apply read_ne_filter_other; [lia|exact Hb].
Qed.

Lemma read_write_other d a l m b k : (b + k <= a)%N -> read (write d a l m) b k = read d b k.
Proof.
  intros Hb. unfold read. destruct (N.eqb_spec k 0) as [E|E]; [reflexivity|].
  unfold write. simpl. destruct (N.eqb_spec a b); [lia|]. simpl. apply read_ne_filter_other; [lia|exact Hb].
Qed.

(* the part of R that survives a crash: persisted structures only *)
Definition C (s : q) (lg : list msg) : Prop :=
  meta s = length lg /\
  (forall n m, nth_error lg n = Some m ->
     exists a l, lookup n (index s) = Some (a, l) /\ read (data s) a l = Some m) /\
  (forall n n' a l a' l', n < n' -> n' < length lg ->
     lookup n (index s) = Some (a, l) -> lookup n' (index s) = Some (a', l') -> (a + l <= a')%N).

Lemma R_C s lg : R s lg -> C s lg.
Proof. intros (H1 & H2 & H3 & H4). split; [exact H2|]. split; [|exact H4].
  intros n m Hn. destruct (H3 n m Hn) as (a & l & ? & ? & ?). exists a, l. auto. Qed.

Lemma reopen_R s lg : C s lg -> R (reopen s) lg.
Proof.
  intros (Hm & Hl & Ho). unfold R, reopen; simpl. split; [exact Hm|]. split; [exact Hm|]. split; [|exact Ho].
  intros n m Hn. destruct (Hl n m Hn) as (a & l & E1 & E2). exists a, l. repeat split; auto.
  assert (Hlt : n < length lg) by (apply nth_error_Some; congruence).
  rewrite Hm. destruct (length lg) as [|k] eqn:Ek; [lia|].
  assert (Hlast : exists mk, nth_error lg k = Some mk).
  { destruct (nth_error lg k) eqn:E; [eauto|]. apply nth_error_None in E. lia. }
  destruct Hlast as (mk & Hk). destruct (Hl k mk Hk) as (ak & lk & Ek1 & _). rewrite Ek1.
  destruct (Nat.eq_dec n k) as [->|Hne]; [rewrite E1 in Ek1; inversion Ek1; lia|].
  assert (a + l <= ak)%N by (apply (Ho n k a l ak lk); auto; lia). lia.
Qed.

Lemma lookup_cons_ne t e ix n : t <> n -> lookup n ((t, e) :: ix) = lookup n ix.
Proof. intros H. simpl. destruct (Nat.eqb_spec t n); congruence. Qed.

(* a completed append *)
Lemma put_R s lg m l : R s lg -> (l <= P)%N /\ (l = 0%N -> m = 0) -> R (step s (Put m l)) (lg ++ [m]).
Proof.
  intros (Ha & Hm & Hl & Ho) Hok. cbn [step]. pose proof (place_ge (cursor s) l) as Hp.
  set (a := place (cursor s) l) in *.
  unfold R; cbn [data index meta cursor app]. rewrite app_length; cbn [length]. split; [lia|]. split; [lia|]. split.
  - intros n m0 Hn. destruct (Nat.eq_dec n (length lg)) as [->|Hne].
    + rewrite nth_error_app2, Nat.sub_diag in Hn by lia. simpl in Hn. inversion Hn; subst m0.
      exists a, l. cbn [lookup]. rewrite Ha, Nat.eqb_refl. repeat split; [apply read_write_same; tauto|lia].
    + assert (Hlt : n < length lg).
      { assert (n < length (lg ++ [m])) by (apply nth_error_Some; congruence). rewrite app_length in H; simpl in H. lia. }
      rewrite nth_error_app1 in Hn by exact Hlt.
      destruct (Hl n m0 Hn) as (b & k & E1 & E2 & E4). exists b, k.
      rewrite lookup_cons_ne by lia. repeat split; auto; [|lia].
      rewrite read_write_other; auto. lia.
  - intros n n' b k b' k' Hnn Hn' E1 E2.
    destruct (Nat.eq_dec n' (length lg)) as [->|Hne].
    + cbn [lookup] in E2. rewrite Ha, Nat.eqb_refl in E2. inversion E2; subst b' k'.
      rewrite lookup_cons_ne in E1 by lia.
      assert (Hex : exists mn, nth_error lg n = Some mn).
      { destruct (nth_error lg n) eqn:E; [eauto|]. apply nth_error_None in E. lia. }
      destruct Hex as (mn & Hmn). destruct (Hl n mn Hmn) as (b0 & k0 & F1 & _ & F4).
      rewrite F1 in E1. inversion E1; subst. lia.
    + rewrite lookup_cons_ne in E1 by lia. rewrite lookup_cons_ne in E2 by lia.
      apply (Ho n n' b k b' k'); auto. lia.
Qed.

(* data written at or above the cursor, and an index binding at the next sequence, do not disturb the log *)
Lemma crash_C s lg d' ix' : R s lg ->
  (forall b k, (b + k <= cursor s)%N -> read d' b k = read (data s) b k) ->
  (forall n, n < length lg -> lookup n ix' = lookup n (index s)) ->
  C {| data := d'; index := ix'; meta := meta s; cursor := 0%N; app := 0 |} lg.
Proof.
  intros (Ha & Hm & Hl & Ho) Hd Hi. unfold C; simpl. split; [exact Hm|]. split.
  - intros n m Hn. destruct (Hl n m Hn) as (a & l & E1 & E2 & E4). exists a, l.
    assert (n < length lg) by (apply nth_error_Some; congruence).
    rewrite Hi by assumption. rewrite Hd by assumption. auto.
  - intros n n' a l a' l' Hnn Hn' E1 E2. rewrite Hi in E1 by lia. rewrite Hi in E2 by lia.
    apply (Ho n n' a l a' l'); auto.
Qed.

Lemma C_irrelevant d ix me c1 a1 c2 a2 lg :
  C {| data := d; index := ix; meta := me; cursor := c1; app := a1 |} lg ->
  C {| data := d; index := ix; meta := me; cursor := c2; app := a2 |} lg.
Proof. intros H. exact H. Qed.

Theorem step_R s lg o : R s lg -> ok_op o -> R (step s o) (alog lg o).
Proof.
  intros HR Hok. destruct o as [m l|m l c|]; simpl in Hok.
  - apply put_R; assumption.
  - pose proof (place_ge (cursor s) l) as Hp.
    destruct c; simpl step; simpl alog; apply reopen_R.
    + (* torn copy *)
      eapply C_irrelevant. apply (crash_C s lg _ _ HR).
      * intros b k Hb. unfold scribble. apply read_filter_other; lia.
      * intros n Hn. reflexivity.
    + eapply C_irrelevant. apply (crash_C s lg _ _ HR).
      * intros b k Hb. apply read_write_other; lia.
      * intros n Hn. reflexivity.
    + eapply C_irrelevant. apply (crash_C s lg _ _ HR).
      * intros b k Hb. apply read_write_other; lia.
      * intros n Hn. reflexivity.
    + eapply C_irrelevant. apply (crash_C s lg _ _ HR).
      * intros b k Hb. apply read_write_other; lia.
      * intros n Hn. destruct HR as (Ha & _). apply lookup_cons_ne. lia.
    + (* meta already written: the append is visible as a whole *)
      pose proof (put_R s lg m l HR Hok) as HP. apply R_C in HP. simpl in HP.
      destruct HR as (Ha & Hm & _). rewrite Ha in *. exact HP.
  - apply reopen_R, R_C, HR.
Qed.

Lemma init_R : R init [].
Proof. unfold R, init; simpl. repeat split; auto; [intros [|n] m H; discriminate|intros; lia]. Qed.

Lemma run_R ops : forall s lg, R s lg -> Forall ok_op ops -> R (fst (run s lg ops)) (snd (run s lg ops)).
Proof.
  induction ops as [|o ops IH]; intros s lg HR Hall; simpl; [exact HR|].
  inversion Hall; subst. apply IH; [apply step_R; assumption|assumption].
Qed.

(* every message of the abstract log (completed appends, plus an in-flight one whose meta store landed) is read
   back under its own sequence with its own content: for every history of appends, crashes at any store of an
   append, and reopens *)
Theorem seq_put_get ops : Forall ok_op ops ->
  let '(s, lg) := run init [] ops in
  forall n m, nth_error lg n = Some m -> get s n = Some m.
Proof.
  intros Hall. pose proof (run_R ops init [] init_R Hall) as HR.
  destruct (run init [] ops) as [s lg]. simpl in HR.
  intros n m Hn. destruct HR as (Ha & _ & Hl & _). destruct (Hl n m Hn) as (a & l & E1 & E2 & _).
  unfold get. assert (n < length lg) by (apply nth_error_Some; congruence).
  destruct (Nat.ltb_spec n (app s)); [|lia]. rewrite E1. exact E2.
Qed.

(* sequence numbers are dense: the appended position equals the length of the abstract log,
   and nothing beyond it is readable *)
Theorem seq_dense ops : Forall ok_op ops ->
  let '(s, lg) := run init [] ops in app s = length lg /\ meta s = length lg /\ forall n, length lg <= n -> get s n = None.
Proof.
  intros Hall. pose proof (run_R ops init [] init_R Hall) as HR.
  destruct (run init [] ops) as [s lg]. simpl in HR. destruct HR as (Ha & Hm & _).
  repeat split; auto. intros n Hn. unfold get. destruct (Nat.ltb_spec n (app s)); [lia|reflexivity].
Qed.

(* a later append never alters an earlier message: the abstract log only grows at its end *)
Theorem log_prefix o lg : exists suffix, alog lg o = lg ++ suffix.
Proof. destruct o as [m l|m l c|]; simpl; [exists [m]|destruct c; (exists [] + exists [m])|exists []]; try rewrite app_nil_r; reflexivity. Qed.

Example roll_over_example :
  let '(s, lg) := run init [] [Put 1 (100 * 1024 * 1024)%N; PutCrash 2 (60 * 1024 * 1024)%N AfterIndex; Put 3 (60 * 1024 * 1024)%N; Reopen; Put 4 10%N] in
  (lg, map (get s) [0; 1; 2; 3], lookup 1 (index s)) = ([1; 3; 4], [Some 1; Some 3; Some 4; None], Some (134217728, 62914560)%N).
Proof. vm_compute. reflexivity. Qed.

(* the empty message is a message like any other: it takes a sequence, is read back (as the empty content, id 0), survives a
   crash after its meta store and a reopen, and the next message starts where it stands *)
Definition empty_ops := [Put 1 5%N; Put 0 0%N; Put 0 0%N; PutCrash 0 0%N AfterMeta; Put 2 3%N; Reopen].
Example empty_message_ok : Forall ok_op empty_ops.
Proof. unfold empty_ops, ok_op, P. repeat (apply Forall_cons || apply Forall_nil); try exact I; (split; [lia|intros H; (reflexivity || discriminate H)]). Qed.
Example empty_message_example :
  let '(s, lg) := run init [] empty_ops in
  (lg, map (get s) [0; 1; 2; 3; 4; 5], lookup 4 (index s)) = ([1; 0; 0; 0; 2], [Some 1; Some 0; Some 0; Some 0; Some 2; None], Some (5, 3)%N).
Proof. vm_compute. reflexivity. Qed.
