(* C05 — property theorems only. *)
From Coq Require Import List Arith NArith.
Import ListNotations.
From LinDBV.C05 Require Import Model Proofs.

(* for every history of appends (any sizes 0..page size - the empty message included, page roll-over included), crashes at any store of an
   append (torn copy, after the copy, inside / after the index entry, after the meta store) and reopens:
   every message of the abstract log is read back under its own sequence number with its own content *)
Theorem C05_seq_put_get : forall ops, Forall ok_op ops ->
  let '(s, lg) := run init [] ops in
  forall n m, nth_error lg n = Some m -> get s n = Some m.
Proof. exact seq_put_get. Qed.
Print Assumptions C05_seq_put_get.

(* sequence numbers are dense: appended = length of the log, nothing beyond it is readable *)
Theorem C05_seq_dense : forall ops, Forall ok_op ops ->
  let '(s, lg) := run init [] ops in app s = length lg /\ meta s = length lg /\ forall n, length lg <= n -> get s n = None.
Proof. exact seq_dense. Qed.
Print Assumptions C05_seq_dense.

(* the log only grows at its end: with C05_seq_put_get, a later append never alters an earlier message *)
Theorem C05_log_prefix : forall o lg, exists suffix, alog lg o = lg ++ suffix.
Proof. exact log_prefix. Qed.
Print Assumptions C05_log_prefix.
