From Coq Require Import List ZArith Bool Arith.
Import ListNotations.
From LinDBV.C06 Require Import Model.
Open Scope Z_scope.

(* observation after one operation: positions, the operation's result (Consume: returned sequence, else 0),
   readability probes (Get(seq) succeeded?) *)
Record obs := { o_app : Z; o_qack : Z; o_groups : list (nat * (Z * Z)); o_res : Z; o_reads : list (Z * bool) }.

Fixpoint ins_g (x : nat * (Z * Z)) (l : list (nat * (Z * Z))) : list (nat * (Z * Z)) :=
  match l with [] => [x] | y :: l' => if (fst x <=? fst y)%nat then x :: l else y :: ins_g x l' end.
Definition groups_of (s : fq) : list (nat * (Z * Z)) :=
  fold_right ins_g [] (map (fun '(n, g) => (n, (consumed g, gack g))) (opened s)).
Fixpoint groups_eqb (a b : list (nat * (Z * Z))) : bool :=
  match a, b with
  | [], [] => true
  | (n, (c, k)) :: a', (n', (c', k')) :: b' => (n =? n')%nat && (c =? c') && (k =? k') && groups_eqb a' b'
  | _, _ => false
  end.
Fixpoint glookup (n : nat) (l : list (nat * (Z * Z))) : option (Z * Z) :=
  match l with [] => None | (m, x) :: l' => if (m =? n)%nat then Some x else glookup n l' end.

Definition agree (s : fq) (o : op) (prev : fq) (ob : obs) : bool :=
  (appended s =? o_app ob) && (qack s =? o_qack ob) && groups_eqb (groups_of s) (o_groups ob) &&
  (match o with Consume n => consume_result prev n =? o_res ob | _ => true end) &&
  forallb (fun '(q, b) => Bool.eqb (readable s q) b) (o_reads ob).

(* the property evaluated on two consecutive observations of the implementation *)
Definition step_ok (o : op) (p c : obs) : bool :=
  (* positions ordered *)
  (-1 <=? o_qack c) && (o_qack c <=? o_app c) &&
  forallb (fun '(_, (cs, ak)) => (-1 <=? ak) && (ak <=? cs) && (cs <=? o_app c)) (o_groups c) &&
  (* queue ack only moves forward; when it moves it is bounded by the previous group acks (outside the explicit reset,
     after which the log head, the queue ack and both positions of every attached group are the given value) *)
  (match o with
   | SetAppended v => (o_app c =? v) && (o_qack c =? v) && forallb (fun '(_, (cs, ak)) => (cs =? v) && (ak =? v)) (o_groups c)
   | _ => (o_qack p <=? o_qack c) &&
          ((o_qack c =? o_qack p) || forallb (fun '(_, (_, ak)) => o_qack c <=? ak) (o_groups p))
   end) &&
  (* consume: next sequence or nothing *)
  (match o with
   | Consume n => match glookup n (o_groups p) with
                  | Some (cs, _) => if cs + 1 <=? o_app p then o_res c =? cs + 1 else o_res c =? -1
                  | None => true
                  end
   | Ack n a => match glookup n (o_groups p) with
                | Some (cs, ak) => if (ak <=? a) && (a <=? cs) then true else groups_eqb (o_groups p) (o_groups c)
                | None => true
                end
   | Reopen => (o_app c =? o_app p) && (o_qack c =? o_qack p) &&
               forallb (fun '(n, (cs, ak)) => (ak <? o_qack p) ||
                          match glookup n (o_groups c) with Some (cs', ak') => (cs' =? cs) && (ak' =? ak) | None => false end)
                       (o_groups p)
   | _ => true
   end) &&
  (* every message above the queue ack (hence every message an existing group has not acknowledged, when the
     ack was bounded by them) is readable; nothing at or below it is *)
  forallb (fun '(q, b) => Bool.eqb b ((o_qack c <? q) && (q <=? o_app c))) (o_reads c).

Fixpoint first_false (l : list bool) (i : nat) : nat :=
  match l with [] => O | b :: l' => if b then first_false l' (S i) else S i end.

Fixpoint replay (s : fq) (ops : list op) (obs_ : list obs) : list bool :=
  match ops, obs_ with
  | o :: ops', ob :: obs' => let s' := step s o in agree s' o s ob :: replay s' ops' obs'
  | _, _ => []
  end.
Definition obs0 : obs := {| o_app := -1; o_qack := -1; o_groups := []; o_res := 0; o_reads := [] |}.
Fixpoint oracle (p : obs) (ops : list op) (obs_ : list obs) : list bool :=
  match ops, obs_ with
  | o :: ops', ob :: obs' => step_ok o p ob :: oracle ob ops' obs'
  | _, _ => []
  end.

Definition check_hist (ops : list op) (obs_ : list obs) : nat * nat :=
  (if (length ops =? length obs_)%nat then first_false (replay init ops obs_) 0 else 1%nat,
   first_false (oracle obs0 ops obs_) 0).
