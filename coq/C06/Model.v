(* C06 — consumer groups of the fan-out queue.  Model of pkg/queue/fanout_queue.go,
   consumer_group.go and the position/GC part of queue.go (with the repaired load rule
   consumed := max(consumed, ack) in NewConsumerGroup).  Positions are Z, -1 = none.
   Messages are small, so only index pages (262144 entries each) are ever truncated by GC.
   Definitions only. *)
From Coq Require Import List ZArith Bool.
Import ListNotations.
Open Scope Z_scope.

Definition name := nat.
Definition IPP := 262144.                       (* indexItemsPerPage *)
Record grp := { consumed : Z; gack : Z }.
Record fq := { appended : Z; qack : Z; opened : list (name * grp); stored : list (name * grp);
               ifloor : Z (* lowest index page still on disk *) }.

Fixpoint lookup (n : name) (l : list (name * grp)) : option grp :=
  match l with [] => None | (m, g) :: l' => if Nat.eqb m n then Some g else lookup n l' end.
Fixpoint update (n : name) (g : grp) (l : list (name * grp)) : list (name * grp) :=
  match l with [] => [] | (m, g0) :: l' => if Nat.eqb m n then (m, g) :: l' else (m, g0) :: update n g l' end.
Fixpoint remove (n : name) (l : list (name * grp)) : list (name * grp) :=
  match l with [] => [] | (m, g0) :: l' => if Nat.eqb m n then l' else (m, g0) :: remove n l' end.

Inductive op :=
| Append (k : Z)                 (* k >= 1 messages appended *)
| Consume (n : name) | Ack (n : name) (a : Z) | SetConsumed (n : name) (c : Z)
| Sync | GC
| Create (n : name) | Stop (n : name) | Reopen
| SetAppended (v : Z).           (* FanOutQueue.SetAppendedSeq: the explicit index reset - the log head and the queue ack go
                                    to v, every attached group's two positions as well *)

(* NewConsumerGroup on an existing meta page *)
Definition load (q : Z) (g : grp) : grp :=
  let a := Z.max (gack g) q in {| consumed := Z.max (consumed g) a; gack := a |}.

Definition min_ack (init : Z) (l : list (name * grp)) : Z :=
  fold_right (fun '(_, g) m => Z.min (gack g) m) init l.

Definition with_opened (s : fq) (o : list (name * grp)) : fq :=
  {| appended := appended s; qack := qack s; opened := o; stored := stored s; ifloor := ifloor s |}.

Definition step (s : fq) (o : op) : fq :=
  match o with
  | Append k => {| appended := appended s + k; qack := qack s; opened := opened s; stored := stored s; ifloor := ifloor s |}
  | Consume n =>
    match lookup n (opened s) with
    | Some g => if consumed g + 1 <=? appended s
                then with_opened s (update n {| consumed := consumed g + 1; gack := gack g |} (opened s)) else s
    | None => s
    end
  | Ack n a =>
    match lookup n (opened s) with
    | Some g => if (gack g <=? a) && (a <=? consumed g)
                then with_opened s (update n {| consumed := consumed g; gack := a |} (opened s)) else s
    | None => s
    end
  | SetConsumed n c =>
    match lookup n (opened s) with
    | Some g => with_opened s (update n {| consumed := c; gack := gack g |} (opened s))
    | None => s
    end
  | Sync =>
    match opened s with
    | [] => s
    | _ => let m := min_ack (appended s) (opened s) in
           if (0 <=? m) && (qack s <? m) && (m <=? appended s)
           then {| appended := appended s; qack := m; opened := opened s; stored := stored s; ifloor := ifloor s |} else s
    end
  | GC =>
    if 0 <=? qack s
    then {| appended := appended s; qack := qack s; opened := opened s; stored := stored s;
            ifloor := Z.max (ifloor s) (qack s / IPP) |}
    else s
  | Create n =>
    match lookup n (opened s) with
    | Some _ => s
    | None =>
      match lookup n (stored s) with
      | Some g => {| appended := appended s; qack := qack s; opened := (n, load (qack s) g) :: opened s;
                     stored := remove n (stored s); ifloor := ifloor s |}
      | None => with_opened s ((n, {| consumed := -1; gack := -1 |}) :: opened s)
      end
    end
  | Stop n =>
    match lookup n (opened s) with
    | Some g => {| appended := appended s; qack := qack s; opened := remove n (opened s);
                   stored := (n, g) :: stored s; ifloor := ifloor s |}
    | None => s
    end
  | Reopen =>
    {| appended := appended s; qack := qack s;
       opened := map (fun '(n, g) => (n, load (qack s) g)) (opened s ++ stored s); stored := []; ifloor := ifloor s |}
  | SetAppended v =>
    {| appended := v; qack := v; opened := map (fun '(n, _) => (n, {| consumed := v; gack := v |})) (opened s);
       stored := stored s; ifloor := ifloor s |}
  end.

Definition init : fq := {| appended := -1; qack := -1; opened := []; stored := []; ifloor := 0 |}.
Definition run (ops : list op) := fold_left step ops init.

(* Consume's return value *)
Definition consume_result (s : fq) (n : name) : Z :=
  match lookup n (opened s) with
  | Some g => if consumed g + 1 <=? appended s then consumed g + 1 else -1
  | None => -1
  end.

(* Queue.Get(seq) succeeds *)
Definition readable (s : fq) (seq : Z) : bool :=
  (qack s <? seq) && (seq <=? appended s) && (ifloor s <=? seq / IPP).

(* set-consumed inside the group's window (what the property's "outside an explicit index reset" allows) *)
Definition op_ok (s : fq) (o : op) : Prop :=
  match o with
  | Append k => 1 <= k
  | SetConsumed n c => match lookup n (opened s) with Some g => gack g <= c <= appended s | None => True end
  (* a reset to v: no stopped group's stored positions lie above v, no index page at or above v's has been collected *)
  | SetAppended v => -1 <= v /\ (forall n g, In (n, g) (stored s) -> consumed g <= v) /\
                     (0 <= v -> ifloor s <= v / IPP) /\ (v < 0 -> ifloor s = 0)
  | _ => True
  end.
Definition is_reset (o : op) : bool := match o with SetAppended _ => true | _ => false end.
Fixpoint hist_ok (s : fq) (ops : list op) : Prop :=
  match ops with [] => True | o :: ops' => op_ok s o /\ hist_ok (step s o) ops' end.
