From Coq Require Import List ZArith Lia Bool.
Import ListNotations.
From LinDBV.C06 Require Import Model.
Open Scope Z_scope.
Ltac Zify.zify_post_hook ::= Z.div_mod_to_equations.

Definition gok (ap : Z) (g : grp) := -1 <= gack g /\ gack g <= consumed g /\ consumed g <= ap.
Definition Inv (s : fq) : Prop :=
  -1 <= qack s <= appended s /\
  (forall n g, In (n, g) (opened s) -> gok (appended s) g) /\
  (forall n g, In (n, g) (stored s) -> gok (appended s) g) /\
  0 <= ifloor s /\ (0 <= qack s -> ifloor s <= qack s / IPP) /\ (qack s < 0 -> ifloor s = 0).

Lemma lookup_In n l g : lookup n l = Some g -> In (n, g) l.
Proof. induction l as [|[m g0] l IH]; simpl; [discriminate|]. destruct (Nat.eqb_spec m n).
  - intros H; inversion H; subst. auto. - auto. Qed.
Lemma In_update n g l m g' : In (m, g') (update n g l) -> (m, g') = (n, g) \/ In (m, g') l.
Proof. induction l as [|[k g0] l IH]; simpl; [tauto|]. destruct (Nat.eqb_spec k n).
  - subst. intros [H|H]; auto. - intros [H|H]; auto. destruct (IH H); auto. Qed.
Lemma In_remove n l m g' : In (m, g') (remove n l) -> In (m, g') l.
Proof. induction l as [|[k g0] l IH]; simpl; [tauto|]. destruct (Nat.eqb k n); simpl; intros H; auto.
  destruct H; auto. Qed.
Lemma min_ack_le init l : min_ack init l <= init.
Proof. induction l as [|[n g] l IH]; simpl; lia. Qed.
Lemma min_ack_le_all init l n g : In (n, g) l -> min_ack init l <= gack g.
Proof. induction l as [|[m g0] l IH]; simpl; [tauto|]. intros [E|H]; [inversion E; subst; lia|specialize (IH H); lia]. Qed.

Lemma load_ok ap q g : -1 <= q <= ap -> gok ap g -> gok ap (load q g).
Proof. unfold gok, load; simpl. lia. Qed.

Lemma mkInv s :
  -1 <= qack s <= appended s ->
  (forall n g, In (n, g) (opened s) -> gok (appended s) g) ->
  (forall n g, In (n, g) (stored s) -> gok (appended s) g) ->
  0 <= ifloor s -> (0 <= qack s -> ifloor s <= qack s / IPP) -> (qack s < 0 -> ifloor s = 0) -> Inv s.
Proof. intros. unfold Inv. auto 10. Qed.

Lemma step_inv s o : Inv s -> op_ok s o -> Inv (step s o).
Proof.
  intros (Hq & Ho & Hs & Hf0 & Hf1 & Hf2) Hok.
  assert (HI : Inv s) by (apply mkInv; assumption).
  destruct o as [k|n|n a|n c| | |n|n| |v]; simpl in *.
  - (* Append *)
    apply mkInv; cbn [appended qack opened stored ifloor]; auto; [lia| |].
    + intros m g Hin. pose proof (Ho _ _ Hin) as Hx. unfold gok in *. lia.
    + intros m g Hin. pose proof (Hs _ _ Hin) as Hx. unfold gok in *. lia.
  - (* Consume *)
    destruct (lookup n (opened s)) as [g|] eqn:El; [|exact HI].
    destruct (Z.leb_spec (consumed g + 1) (appended s)); [|exact HI].
    pose proof (Ho _ _ (lookup_In _ _ _ El)) as Hg.
    apply mkInv; cbn [with_opened appended qack opened stored ifloor]; auto.
    intros m g' Hin. apply In_update in Hin as [E|Hin]; [inversion E; subst; unfold gok in *; simpl; lia|exact (Ho _ _ Hin)].
  - (* Ack *)
    destruct (lookup n (opened s)) as [g|] eqn:El; [|exact HI].
    destruct ((gack g <=? a) && (a <=? consumed g)) eqn:C; [|exact HI].
    apply andb_prop in C as [C1 C2]. apply Z.leb_le in C1, C2.
    pose proof (Ho _ _ (lookup_In _ _ _ El)) as Hg.
    apply mkInv; cbn [with_opened appended qack opened stored ifloor]; auto.
    intros m g' Hin. apply In_update in Hin as [E|Hin]; [inversion E; subst; unfold gok in *; simpl; lia|exact (Ho _ _ Hin)].
  - (* SetConsumed, inside the window *)
    destruct (lookup n (opened s)) as [g|] eqn:El; [|exact HI].
    pose proof (Ho _ _ (lookup_In _ _ _ El)) as Hg.
    apply mkInv; cbn [with_opened appended qack opened stored ifloor]; auto.
    intros m g' Hin. apply In_update in Hin as [E|Hin]; [inversion E; subst; unfold gok in *; simpl; lia|exact (Ho _ _ Hin)].
  - (* Sync *)
    destruct (opened s) as [|p l] eqn:Eo; [exact HI|].
    destruct ((0 <=? min_ack (appended s) (p :: l)) && (qack s <? min_ack (appended s) (p :: l)) && (min_ack (appended s) (p :: l) <=? appended s)) eqn:C; [|exact HI].
    apply andb_prop in C as [C C3]. apply andb_prop in C as [C1 C2].
    apply Z.leb_le in C1, C3. apply Z.ltb_lt in C2.
    set (m := min_ack (appended s) (p :: l)) in *.
    apply mkInv; cbn [appended qack opened stored ifloor]; auto; try lia;
      try (intros k g Hin; rewrite <- Eo in Hin; apply (Ho _ _ Hin)).
    intros _. destruct (Z_lt_le_dec (qack s) 0) as [Hn|Hp]; [rewrite (Hf2 Hn); unfold IPP; lia|].
    specialize (Hf1 Hp). unfold IPP in *. lia.
  - (* GC *)
    destruct (Z.leb_spec 0 (qack s)); [|exact HI].
    specialize (Hf1 H). apply mkInv; cbn [appended qack opened stored ifloor]; auto; lia.
  - (* Create *)
    destruct (lookup n (opened s)) as [g|] eqn:El; [exact HI|].
    destruct (lookup n (stored s)) as [g|] eqn:Es.
    + apply mkInv; cbn [appended qack opened stored ifloor]; auto.
      * intros m g' [E|Hin]; [inversion E; subst; apply load_ok; auto; apply (Hs _ _ (lookup_In _ _ _ Es))|exact (Ho _ _ Hin)].
      * intros m g' Hin. apply In_remove in Hin. exact (Hs _ _ Hin).
    + apply mkInv; cbn [with_opened appended qack opened stored ifloor]; auto.
      intros m g' [E|Hin]; [inversion E; subst; unfold gok; simpl; lia|exact (Ho _ _ Hin)].
  - (* Stop *)
    destruct (lookup n (opened s)) as [g|] eqn:El; [|exact HI].
    apply mkInv; cbn [appended qack opened stored ifloor]; auto.
    + intros m g' Hin. apply In_remove in Hin. exact (Ho _ _ Hin).
    + intros m g' [E|Hin]; [inversion E; subst; apply (Ho _ _ (lookup_In _ _ _ El))|exact (Hs _ _ Hin)].
  - (* Reopen *)
    apply mkInv; cbn [appended qack opened stored ifloor]; auto; [|intros ? ? []].
    intros m g' Hin. apply in_map_iff in Hin as ([k g0] & E & Hin0). inversion E; subst.
    apply load_ok; auto. apply in_app_or in Hin0 as [H|H]; [exact (Ho _ _ H)|exact (Hs _ _ H)].
  - (* SetAppended: the explicit reset *)
    destruct Hok as (Hv & Hst & Hi1 & Hi2).
    apply mkInv; cbn [appended qack opened stored ifloor]; auto; try lia.
    + intros m g' Hin. apply in_map_iff in Hin as ([k g0] & E & _). inversion E; subst. unfold gok; simpl. lia.
    + intros m g' Hin. pose proof (Hs _ _ Hin) as Hg. specialize (Hst _ _ Hin). unfold gok in *. lia.
Qed.

Lemma init_inv : Inv init.
Proof. unfold Inv, init; simpl. repeat split; try lia; intros ? ? []. Qed.

(* for every history: every existing group has -1 <= acknowledged <= consumed <= appended,
   -1 <= queue ack <= appended, and GC has only removed index pages wholly at or below the queue ack *)
Theorem positions_ordered ops : hist_ok init ops -> Inv (run ops).
Proof.
  unfold run. pose proof init_inv as H. revert H. generalize init.
  induction ops as [|o ops IH]; intros s H Hh; simpl; [exact H|].
  destruct Hh as [Ho Hh]. apply IH; [apply step_inv; assumption|exact Hh].
Qed.

(* consume hands out the next sequence or nothing *)
Theorem consume_consecutive s n g : lookup n (opened s) = Some g ->
  (consume_result s n = consumed g + 1 /\ consumed g + 1 <= appended s /\
   lookup n (opened (step s (Consume n))) = Some {| consumed := consumed g + 1; gack := gack g |}) \/
  (consume_result s n = -1 /\ appended s <= consumed g /\ step s (Consume n) = s).
Proof.
  intros El. unfold consume_result. simpl. rewrite El.
  destruct (Z.leb_spec (consumed g + 1) (appended s)); [left|right; repeat split; auto; lia].
  repeat split; auto. simpl. clear -El. induction (opened s) as [|[m g0] l IH]; simpl in *; [discriminate|].
  destruct (Nat.eqb_spec m n); simpl.
  - subst. rewrite Nat.eqb_refl. reflexivity.
  - destruct (Nat.eqb_spec m n); [contradiction|]. apply IH, El.
Qed.

(* an acknowledgement outside [acknowledged, consumed] is ignored *)
Theorem ack_window s n a g : lookup n (opened s) = Some g -> (a < gack g \/ consumed g < a) -> step s (Ack n a) = s.
Proof.
  intros El Hout. simpl. rewrite El.
  destruct (Z.leb_spec (gack g) a); destruct (Z.leb_spec a (consumed g)); simpl; try reflexivity; lia.
Qed.

(* the queue-wide ack only moves forward; when it moves it is at most every existing group's ack and at most appended *)
Theorem queue_ack_monotone s o : is_reset o = false -> qack s <= qack (step s o).
Proof.
  intros Hr. destruct o as [k|n|n a|n c| | |n|n| |v]; [| | | | | | | | |discriminate Hr]; cbn [step]; try (cbn [qack]; lia).
  - destruct (lookup n (opened s)); [destruct (consumed g + 1 <=? appended s)|]; simpl; lia.
  - destruct (lookup n (opened s)); [destruct ((gack g <=? a) && (a <=? consumed g))|]; simpl; lia.
  - destruct (lookup n (opened s)); simpl; lia.
  - destruct (opened s); [lia|].
    destruct ((0 <=? min_ack (appended s) (p :: l)) && (qack s <? min_ack (appended s) (p :: l)) && (min_ack (appended s) (p :: l) <=? appended s)) eqn:C; cbn [qack]; [|lia].
    apply andb_prop in C as [C _]. apply andb_prop in C as [_ C]. apply Z.ltb_lt in C. lia.
  - destruct (0 <=? qack s); simpl; lia.
  - destruct (lookup n (opened s)); [lia|]. destruct (lookup n (stored s)); simpl; lia.
  - destruct (lookup n (opened s)); simpl; lia.
Qed.

Theorem queue_ack_bounded_by_groups s : qack (step s Sync) <> qack s ->
  qack (step s Sync) <= appended s /\ forall n g, In (n, g) (opened s) -> qack (step s Sync) <= gack g.
Proof.
  cbn [step]. destruct (opened s) as [|p l] eqn:Eo; [congruence|].
  destruct ((0 <=? min_ack (appended s) (p :: l)) && (qack s <? min_ack (appended s) (p :: l)) && (min_ack (appended s) (p :: l) <=? appended s)) eqn:C; [|congruence].
  intros _. cbn [qack appended]. apply andb_prop in C as [_ C3]. apply Z.leb_le in C3. split; [exact C3|].
  intros n g Hin. apply (min_ack_le_all (appended s) (p :: l) n g Hin).
Qed.

(* garbage collection never makes a message above the queue ack unreadable: readable <-> ack < seq <= appended *)
Theorem gc_keeps_unacked s seq : Inv s -> 0 <= seq -> readable s seq = (qack s <? seq) && (seq <=? appended s).
Proof.
  intros (Hq & _ & _ & Hf0 & Hf1 & Hf2) Hs. unfold readable.
  destruct (Z.ltb_spec (qack s) seq); [|reflexivity]. destruct (Z.leb_spec seq (appended s)); [|reflexivity]. simpl.
  apply Z.leb_le. destruct (Z_lt_le_dec (qack s) 0) as [Hn|Hp].
  - rewrite (Hf2 Hn). apply Z.div_pos; unfold IPP; lia.
  - specialize (Hf1 Hp). etransitivity; [exact Hf1|]. apply Z.div_le_mono; unfold IPP; lia.
Qed.

(* close + reopen preserves every position (a stopped group whose ack fell behind the queue ack is moved up to it) *)
Theorem reopen_preserves s : Inv s ->
  appended (step s Reopen) = appended s /\ qack (step s Reopen) = qack s /\ ifloor (step s Reopen) = ifloor s /\
  forall n g, In (n, g) (opened s ++ stored s) -> qack s <= gack g -> In (n, g) (opened (step s Reopen)).
Proof.
  intros (Hq & Ho & Hs & _). simpl. repeat split; auto.
  intros n g Hin Hle. apply in_map_iff. exists (n, g). split; [|exact Hin].
  assert (Hg : gok (appended s) g) by (apply in_app_or in Hin as [H|H]; [exact (Ho _ _ H)|exact (Hs _ _ H)]).
  unfold load. destruct g as [c a]. unfold gok in Hg. simpl in *. f_equal. f_equal; lia.
Qed.

(* non-vacuity: the history that broke the unrepaired code *)
Example witness_now_ordered :
  let ops := [Create 1%nat; Create 2%nat; Append 10] ++
    flat_map (fun i => [Consume 1%nat; Ack 1%nat i; Consume 2%nat; Ack 2%nat i]) [0;1;2;3;4;5;6;7;8;9] ++
    [Stop 1%nat; Append 5] ++ flat_map (fun i => [Consume 2%nat; Ack 2%nat i]) [10;11;12;13;14] ++ [Sync; Reopen] in
  let s := run ops in
  (qack s, map (fun '(n, g) => (n, consumed g, gack g)) (opened s)) = (14, [(2%nat, 14, 14); (1%nat, 14, 14)]).
Proof. vm_compute. reflexivity. Qed.
