(* C06 — property theorems only. *)
From Coq Require Import List ZArith.
Import ListNotations.
From LinDBV.C06 Require Import Model Proofs.
Open Scope Z_scope.

(* for every history of append / consume / ack / set-consumed (inside the window) / sync / gc / create / stop /
   reopen over any groups: every existing (and every stopped) group has -1 <= acknowledged <= consumed <= appended,
   the queue ack is within [-1, appended], and GC has removed only pages wholly at or below the queue ack *)
Theorem C06_positions_ordered : forall ops, hist_ok init ops ->
  let s := run ops in
  -1 <= qack s <= appended s /\
  (forall n g, In (n, g) (opened s) -> -1 <= gack g /\ gack g <= consumed g /\ consumed g <= appended s) /\
  (forall n g, In (n, g) (stored s) -> -1 <= gack g /\ gack g <= consumed g /\ consumed g <= appended s) /\
  0 <= ifloor s /\ (0 <= qack s -> ifloor s <= qack s / IPP) /\ (qack s < 0 -> ifloor s = 0).
Proof. exact positions_ordered. Qed.
Print Assumptions C06_positions_ordered.

Theorem C06_consume_consecutive : forall s n g, lookup n (opened s) = Some g ->
  (consume_result s n = consumed g + 1 /\ consumed g + 1 <= appended s /\
   lookup n (opened (step s (Consume n))) = Some {| consumed := consumed g + 1; gack := gack g |}) \/
  (consume_result s n = -1 /\ appended s <= consumed g /\ step s (Consume n) = s).
Proof. exact consume_consecutive. Qed.
Print Assumptions C06_consume_consecutive.

Theorem C06_ack_window : forall s n a g, lookup n (opened s) = Some g ->
  (a < gack g \/ consumed g < a) -> step s (Ack n a) = s.
Proof. exact ack_window. Qed.
Print Assumptions C06_ack_window.

Theorem C06_queue_ack_monotone_bounded :
  (* outside the explicit index reset (SetAppended), which moves the log head and the ack to the given position *)
  (forall s o, is_reset o = false -> qack s <= qack (step s o)) /\
  (forall s, qack (step s Sync) <> qack s ->
     qack (step s Sync) <= appended s /\ forall n g, In (n, g) (opened s) -> qack (step s Sync) <= gack g).
Proof. exact (conj queue_ack_monotone queue_ack_bounded_by_groups). Qed.
Print Assumptions C06_queue_ack_monotone_bounded.

Theorem C06_gc_keeps_unacked : forall ops seq, hist_ok init ops -> 0 <= seq ->
  readable (run ops) seq = ((qack (run ops) <? seq) && (seq <=? appended (run ops)))%bool.
Proof. exact (fun ops seq H => gc_keeps_unacked (run ops) seq (positions_ordered ops H)). Qed.
Print Assumptions C06_gc_keeps_unacked.

Theorem C06_reopen_preserves : forall ops, hist_ok init ops -> let s := run ops in
  appended (step s Reopen) = appended s /\ qack (step s Reopen) = qack s /\ ifloor (step s Reopen) = ifloor s /\
  forall n g, In (n, g) (opened s ++ stored s) -> qack s <= gack g -> In (n, g) (opened (step s Reopen)).
Proof. exact (fun ops H => reopen_preserves (run ops) (positions_ordered ops H)). Qed.
Print Assumptions C06_reopen_preserves.
