(* C07 — executable checks: (correspondence code, oracle code); 0 = fine *)
From Coq Require Import List Arith Bool.
Import ListNotations.
From LinDBV.C07 Require Import Model.

(* positions as the model counts them (code value + 1), physical content of the family's files, entries whose metric
   id does not resolve to their name *)
Record obs := { o_la : nat; o_gcd : nat; o_k : nat; o_c : nat; o_pseq : nat; o_pdata : list (nat * nat); o_unresolved : list nat }.

Fixpoint upto (n : nat) : list nat := match n with O => [] | S n' => S n' :: upto n' end.
Definition ocount (o : obs) (n : nat) : nat :=
  match find (fun p => fst p =? n) (o_pdata o) with Some p => snd p | None => 0 end.
Definition agree (total : nat) (s : st) (o : obs) : bool :=
  (la s =? o_la o) && (gcd s =? o_gcd o) && (k s =? o_k o) && (c s =? o_c o) && (pseq s =? o_pseq o) &&
  forallb (fun n => count n (pdata s) =? ocount o n) (upto total) &&
  forallb (fun p => fst p <=? total) (o_pdata o).

Fixpoint cmp (total : nat) (s : st) (evs : list ev) (os : list (option obs)) (i : nat) : nat :=
  match evs, os with
  | [], [] => 0
  | e :: evs', o :: os' =>
      let s' := step s e in
      match o with
      | None => cmp total s' evs' os' (S i)
      | Some ob => if agree total s' ob then cmp total s' evs' os' (S i) else S i
      end
  | _, _ => 799
  end.

(* ---- oracle, on the observations alone (and the positions of the entries that were appended undecodable) ---- *)
Fixpoint bad_of (evs : list ev) (n : nat) : list nat :=
  match evs with
  | [] => []
  | Append _ :: r => bad_of r (S n)
  | AppendBad :: r => S n :: bad_of r (S n)
  | _ :: r => bad_of r n
  end.
Definition oracle_obs (badl : list nat) (total : nat) (o : obs) : nat :=
  let isgood n := negb (memb n badl) in
  if negb ((o_gcd o <=? o_k o) && forallb (fun n => negb (isgood n) || (o_k o <? n) || (n <=? o_pseq o)) (upto (o_la o))) then 101
                                   (* the log is collected beyond its acknowledged position, or acknowledged beyond the stored sequence over an entry that carries rows *)
  else if negb (forallb (fun n => if isgood n then (if n <=? o_pseq o then ocount o n =? 1 else ocount o n <=? 1) else ocount o n =? 0) (upto (o_la o))) then 102
                                   (* an entry at or below the stored sequence is missing, or an entry is stored twice *)
  else if negb (match o_unresolved o with [] => true | _ => false end) then 103    (* flushed data that the metadata does not resolve to its name *)
  else 0.
Fixpoint first_nz (l : list nat) : nat := match l with [] => 0 | x :: r => if x =? 0 then first_nz r else x end.
(* at the end of a history (crash, full replay, flush): everything appended that carries rows is stored exactly once *)
Definition oracle_final (badl : list nat) (total : nat) (os : list (option obs)) : nat :=
  match rev os with
  | Some o :: _ => if forallb (fun n => if memb n badl then ocount o n =? 0 else (ocount o n =? 1) && (n <=? o_pseq o)) (upto total) then 0 else 104
  | _ => 0
  end.
Definition check_hist (disc : bool) (total : nat) (evs : list ev) (os : list (option obs)) : nat * nat :=
  let badl := bad_of evs 0 in
  ((if Bool.eqb (run_ok init evs) disc then cmp total init evs os 0 else 800),
   (let c := first_nz (map (fun o => match o with Some ob => oracle_obs badl total ob | None => 0 end) os) in
    if c =? 0 then oracle_final badl total os else c)).
