(* C07 — one storage node, one shard/family/leader: write-ahead log with the local replicator's consumer group, the
   data family (applied sequence, mutable memory database, stored sequence, flushed data), the metadata dictionaries
   (names in memory / flushed), crash + restart.
   replica/replicator_local.go (Replica, NewLocalReplicator), tsdb/data_family.go (ValidateSequence, WriteRows,
   CommitSequence, Flush, flushMemoryDatabase, AckSequence), tsdb/data_flush_checker.go (flush order),
   pkg/queue (consumer group ack, Sync).  Sequences are 1-based here (0 = nothing yet; the code's are 0-based).
   Definitions only. *)
From Coq Require Import List Arith Bool.
Import ListNotations.

Record st := {
  la : nat;                 (* WAL: last appended sequence *)
  gcd : nat;                (* WAL: entries <= gcd may have been removed (queue ack after Sync) *)
  k : nat;                  (* WAL consumer group of the local replicator: acknowledged *)
  c : nat;                  (* ... consumed (rewound to k on restart) *)
  seq : nat;                (* family: last applied sequence (volatile) *)
  gen : nat;                (* generation of the mutable memory database object *)
  mem : list nat;           (* entries in the mutable memory database *)
  pseq : nat;               (* sequence stored with the flushed data (manifest) *)
  pdata : list nat;         (* entries in flushed data, with multiplicity *)
  inflight : option (nat * nat * bool);   (* an entry inside Replica: sequence, generation of the memdb it obtained, rows written? *)
  fresh : list nat;         (* entries that introduce a name of their own (new metric); the others use name 0 *)
  nmem : list nat;          (* names known to the running node (memory or disk) *)
  ndisk : list nat;         (* names in the flushed dictionaries *)
  bad : list nat            (* log entries that cannot be decoded (they carry no rows) *)
}.
Definition init : st :=
  {| la := 0; gcd := 0; k := 0; c := 0; seq := 0; gen := 0; mem := []; pseq := 0; pdata := []; inflight := None;
     fresh := []; nmem := []; ndisk := []; bad := [] |}.

Inductive ev :=
| Append (own_name : bool)
| AppendBad             (* an entry that the replicator cannot decompress *)
| Replica               (* the whole of localReplicator.Replica as one step *)
| R1 | R2 | R3          (* ... or its regions: validate + get memdb / write rows / commit sequence *)
| FlushCommit           (* dataFamily.Flush: swap memdb, capture sequences, write table + sequence in one edit log *)
| FlushAck              (* the ack callback *)
| MetaFlush             (* metadata + index flush *)
| WalSync               (* FanOutQueue.Sync + GC *)
| Rebuild               (* the log partition is closed and opened again while the family stays loaded: a new local replicator registers *)
| Restart.

Definition memb (x : nat) (l : list nat) : bool := existsb (Nat.eqb x) l.
(* the identity the metadata and index dictionaries must hold for entry n to be found again by name and tags: an entry
   with a metric name of its own, else the shared metric name with one of three tag values (series) *)
Definition name_of (s : st) (n : nat) : nat := if memb n (fresh s) then n + 3 else Nat.modulo n 3.
Definition add_name (x : nat) (l : list nat) : list nat := if memb x l then l else x :: l.
Definition ack_to (s : st) (v : nat) : nat := if (k s <=? v) && (v <=? c s) then v else k s.

Definition upd (s : st) (la' gcd' k' c' seq' gen' : nat) (mem' : list nat) (pseq' : nat) (pdata' : list nat)
  (inf : option (nat * nat * bool)) (fr nm nd : list nat) : st :=
  {| la := la'; gcd := gcd'; k := k'; c := c'; seq := seq'; gen := gen'; mem := mem'; pseq := pseq'; pdata := pdata';
     inflight := inf; fresh := fr; nmem := nm; ndisk := nd; bad := bad s |}.

Definition step (s : st) (e : ev) : st :=
  match e with
  | Append b => upd s (la s + 1) (gcd s) (k s) (c s) (seq s) (gen s) (mem s) (pseq s) (pdata s) (inflight s)
                    (if b then (la s + 1) :: fresh s else fresh s) (nmem s) (ndisk s)
  | AppendBad =>
    {| la := la s + 1; gcd := gcd s; k := k s; c := c s; seq := seq s; gen := gen s; mem := mem s; pseq := pseq s; pdata := pdata s;
       inflight := inflight s; fresh := fresh s; nmem := nmem s; ndisk := ndisk s; bad := (la s + 1) :: bad s |}
  | Replica =>
    match inflight s with Some _ => s | None =>
    if c s <? la s then
      let n := c s + 1 in
      if seq s <? n
      then
        if memb n (bad s)
        then (* IgnoreMessage: acknowledged only when it is the entry right after the acknowledged one; CommitSequence *)
          upd s (la s) (gcd s) (if k s + 1 =? n then n else k s) n n (gen s) (mem s) (pseq s) (pdata s) None (fresh s) (nmem s) (ndisk s)
        else upd s (la s) (gcd s) (k s) n n (gen s) (n :: mem s) (pseq s) (pdata s) None (fresh s) (add_name (name_of s n) (nmem s)) (ndisk s)
      else upd s (la s) (gcd s) (k s) n (seq s) (gen s) (mem s) (pseq s) (pdata s) None (fresh s) (nmem s) (ndisk s)
    else s end
  | R1 =>
    match inflight s with Some _ => s | None =>
    if c s <? la s then
      let n := c s + 1 in
      if seq s <? n
      then upd s (la s) (gcd s) (k s) n (seq s) (gen s) (mem s) (pseq s) (pdata s) (Some (n, gen s, false)) (fresh s) (nmem s) (ndisk s)
      else upd s (la s) (gcd s) (k s) n (seq s) (gen s) (mem s) (pseq s) (pdata s) None (fresh s) (nmem s) (ndisk s)
    else s end
  | R2 =>
    match inflight s with
    | Some (n, g, false) =>
      (* rows go into the memdb object obtained in R1; if that object has been flushed meanwhile they are lost *)
      upd s (la s) (gcd s) (k s) (c s) (seq s) (gen s) (if g =? gen s then n :: mem s else mem s) (pseq s) (pdata s)
          (Some (n, g, true)) (fresh s) (add_name (name_of s n) (nmem s)) (ndisk s)
    | _ => s
    end
  | R3 =>
    match inflight s with
    | Some (n, g, true) => upd s (la s) (gcd s) (k s) (c s) n (gen s) (mem s) (pseq s) (pdata s) None (fresh s) (nmem s) (ndisk s)
    | _ => s
    end
  | FlushCommit =>
    match mem s with
    | [] => s
    | _ => upd s (la s) (gcd s) (k s) (c s) (seq s) (gen s + 1) [] (seq s) (mem s ++ pdata s) (inflight s) (fresh s) (nmem s) (ndisk s)
    end
  | FlushAck => upd s (la s) (gcd s) (ack_to s (pseq s)) (c s) (seq s) (gen s) (mem s) (pseq s) (pdata s) (inflight s) (fresh s) (nmem s) (ndisk s)
  | MetaFlush => upd s (la s) (gcd s) (k s) (c s) (seq s) (gen s) (mem s) (pseq s) (pdata s) (inflight s) (fresh s) (nmem s) (nmem s)
  | WalSync => upd s (la s) (Nat.max (gcd s) (k s)) (k s) (c s) (seq s) (gen s) (mem s) (pseq s) (pdata s) (inflight s) (fresh s) (nmem s) (ndisk s)
  | Rebuild =>
    match inflight s with Some _ => s | None =>
    let k' := ack_to s (pseq s) in
    upd s (la s) (gcd s) k' k' (seq s) (gen s) (mem s) (pseq s) (pdata s) None (fresh s) (nmem s) (ndisk s) end
  | Restart =>
    (* the family recovers the stored sequence; registering the replicator's callback acknowledges it at once (if the
       group's consumed position, which survives, allows it); then the replicator rewinds to ack + 1 *)
    let k' := ack_to s (pseq s) in
    upd s (la s) (gcd s) k' k' (pseq s) (gen s + 1) [] (pseq s) (pdata s) None (fresh s) (ndisk s) (ndisk s)
  end.

Definition run (evs : list ev) : st := fold_left step evs init.
Definition count (n : nat) (l : list nat) : nat := length (filter (Nat.eqb n) l).

(* Replica as one critical section: no flush between its regions *)
Definition atomic (e : ev) : Prop := match e with R1 | R2 | R3 => False | _ => True end.
(* the flush order of the flush checker with nothing written in between: the names of everything in the memory
   database are in the flushed dictionaries when the data is committed *)
Definition ok_step (s : st) (e : ev) : bool :=
  match e with
  | FlushCommit => forallb (fun n => memb (name_of s n) (ndisk s)) (mem s)
  | _ => true
  end.
Fixpoint run_ok (s : st) (evs : list ev) : bool :=
  match evs with [] => true | e :: r => ok_step s e && run_ok (step s e) r end.
