(* C07 — proofs *)
From Coq Require Import List Arith Lia Bool.
Import ListNotations.
From LinDBV.C07 Require Import Model.

Definition ind (b : bool) : nat := if b then 1 else 0.

Lemma count_cons n x l : count n (x :: l) = ind (n =? x) + count n l.
Proof. unfold count. simpl. destruct (n =? x); reflexivity. Qed.
Lemma count_app n a b : count n (a ++ b) = count n a + count n b.
Proof. unfold count. rewrite filter_app, app_length. reflexivity. Qed.
Lemma count_pos_in n l : 0 < count n l <-> In n l.
Proof.
  unfold count. split.
  - intros H. destruct (filter (Nat.eqb n) l) as [|x r] eqn:E; [simpl in H; lia|].
    assert (Hx : In x (filter (Nat.eqb n) l)) by (rewrite E; left; reflexivity).
    apply filter_In in Hx as [Hin He]. apply Nat.eqb_eq in He. subst. exact Hin.
  - intros H. assert (Hx : In n (filter (Nat.eqb n) l)) by (apply filter_In; split; [exact H|apply Nat.eqb_refl]).
    destruct (filter (Nat.eqb n) l); [destruct Hx|simpl; lia].
Qed.
Lemma memb_In x l : memb x l = true <-> In x l.
Proof. unfold memb. rewrite existsb_exists. split; [intros (y & H & E); apply Nat.eqb_eq in E; subst; exact H|intros H; exists x; split; [exact H|apply Nat.eqb_refl]]. Qed.
Lemma add_name_In x y l : In y (add_name x l) <-> y = x \/ In y l.
Proof.
  unfold add_name. destruct (memb x l) eqn:E.
  - apply memb_In in E. split; [auto|intros [->|H]; auto].
  - simpl. split; intros [H|H]; auto.
Qed.

Ltac bools := repeat match goal with
  | |- context [?a <=? ?b] => destruct (Nat.leb_spec a b)
  | |- context [?a <? ?b] => destruct (Nat.ltb_spec a b)
  | |- context [?a =? ?b] => destruct (Nat.eqb_spec a b)
  end; simpl; try lia.

Definition good (s : st) (n : nat) : bool := negb (memb n (bad s)).

Record Inv (s : st) : Prop := {
  v_inf : inflight s = None;
  v_ord : gcd s <= k s /\ pseq s <= seq s /\ k s <= c s /\ seq s <= la s /\ c s <= la s;
  (* an acknowledged entry that carries rows is stored; between the applied and the consumed position (after a restart
     or a rebuild) there are only undecodable entries *)
  v_ack : forall n, n <= k s -> good s n = true -> n <= pseq s;
  v_gap : forall n, seq s < n -> n <= c s -> good s n = false;
  v_bad : forall n, In n (bad s) -> n <= la s;
  v_pd : forall n, count n (pdata s) = ind ((1 <=? n) && (n <=? pseq s) && good s n);
  v_mem : forall n, count n (mem s) = ind ((pseq s <? n) && (n <=? seq s) && good s n);
  v_fresh : forall n, In n (fresh s) -> n <= la s;
  v_sub : forall x, In x (ndisk s) -> In x (nmem s);
  v_nm : forall n, In n (mem s) -> In (name_of s n) (nmem s);
  v_nd : forall n, In n (pdata s) -> In (name_of s n) (ndisk s)
}.

Lemma in_mem_le s n : Inv s -> In n (mem s) -> n <= seq s.
Proof.
  intros HI Hin. apply count_pos_in in Hin. rewrite (v_mem _ HI) in Hin. unfold ind in Hin.
  destruct (Nat.leb_spec n (seq s)); [lia|]. rewrite andb_false_r in Hin. cbn in Hin. lia.
Qed.
Lemma in_pd_le s n : Inv s -> In n (pdata s) -> n <= pseq s.
Proof.
  intros HI Hin. apply count_pos_in in Hin. rewrite (v_pd _ HI) in Hin. unfold ind in Hin.
  destruct (Nat.leb_spec n (pseq s)); [lia|]. rewrite andb_false_r in Hin. cbn in Hin. lia.
Qed.

Ltac fields := cbn [upd la gcd k c seq gen mem pseq pdata inflight fresh nmem ndisk bad good].

Lemma step_inv s e : Inv s -> atomic e -> ok_step s e = true -> Inv (step s e).
Proof.
  intros HI Ha Hok. pose proof HI as [Hi (O1 & O2 & O3 & O4 & O5) Hack Hgap Hbad Hp Hm Hf Hs Hnm Hnd].
  destruct e as [b| | | | | | | | | | |]; simpl in Ha; try contradiction; cbn [step].
  - (* Append: the name labelling changes for the new entry only *)
    assert (Hname : forall n, n <= la s -> name_of (upd s (la s + 1) (gcd s) (k s) (c s) (seq s) (gen s) (mem s) (pseq s) (pdata s) (inflight s)
                       (if b then (la s + 1) :: fresh s else fresh s) (nmem s) (ndisk s)) n = name_of s n).
    { intros n Hn. unfold name_of, upd; cbn [fresh]. destruct b; [|reflexivity].
      cbn [memb existsb]. destruct (Nat.eqb_spec n (la s + 1)); [lia|reflexivity]. }
    constructor; unfold good in *; fields; auto; try lia.
    + intros n Hn. specialize (Hbad n Hn). lia.
    + intros n Hn. destruct b; [destruct Hn as [<-|Hn]; [lia|]|]; specialize (Hf n Hn); lia.
    + intros n Hn. rewrite Hname; [apply Hnm, Hn|]. pose proof (in_mem_le s n HI Hn). lia.
    + intros n Hn. rewrite Hname; [apply Hnd, Hn|]. pose proof (in_pd_le s n HI Hn). lia.
  - (* AppendBad: the new entry lies above everything consumed, applied or stored *)
    assert (Hg : forall n, n <= la s -> negb (memb n ((la s + 1) :: bad s)) = negb (memb n (bad s))).
    { intros n Hn. cbn [memb existsb]. destruct (Nat.eqb_spec n (la s + 1)); [lia|reflexivity]. }
    assert (Hr : forall (lo hi n : nat) (P : bool), hi <= la s ->
                 P && (n <=? hi) && negb (memb n ((la s + 1) :: bad s)) = P && (n <=? hi) && negb (memb n (bad s))).
    { intros lo hi n P Hhi. destruct (Nat.leb_spec n hi); [rewrite Hg by lia; reflexivity|rewrite !andb_false_r; reflexivity]. }
    constructor; unfold good in *; cbn [la gcd k c seq gen mem pseq pdata inflight fresh nmem ndisk bad]; auto; try lia.
    + intros n Hn Hgood. apply Hack; [exact Hn|]. rewrite <- Hg by lia. exact Hgood.
    + intros n H1 H2. rewrite Hg by lia. apply Hgap; assumption.
    + intros n [<-|Hn]; [lia|]. specialize (Hbad n Hn). lia.
    + intros n. rewrite Hp. f_equal. symmetry. apply (Hr 0 (pseq s) n (1 <=? n)). lia.
    + intros n. rewrite Hm. f_equal. symmetry. apply (Hr 0 (seq s) n (pseq s <? n)). lia.
    + intros n Hn. specialize (Hf n Hn). lia.
  - (* Replica *)
    rewrite Hi. destruct (Nat.ltb_spec (c s) (la s)); [|exact HI].
    destruct (Nat.ltb_spec (seq s) (c s + 1)).
    + destruct (memb (c s + 1) (bad s)) eqn:Eb.
      * (* an undecodable entry *)
        assert (Hk : k s <= (if k s + 1 =? c s + 1 then c s + 1 else k s) <= c s + 1) by (destruct (k s + 1 =? c s + 1); lia).
        constructor; unfold good in *; fields; auto; try lia.
        -- intros n Hn Hgood. destruct (Nat.eqb_spec (k s + 1) (c s + 1)).
           ++ destruct (Nat.eq_dec n (c s + 1)) as [->|Hne]; [rewrite Eb in Hgood; discriminate|]. apply Hack; [lia|exact Hgood].
           ++ apply Hack; assumption.
        -- intros n. rewrite Hm. f_equal.
           destruct (Nat.leb_spec n (seq s)).
           ++ replace (n <=? c s + 1) with true by (symmetry; apply Nat.leb_le; lia). reflexivity.
           ++ rewrite !andb_false_r. cbn [andb]. destruct (Nat.leb_spec n (c s + 1)); [|rewrite !andb_false_r; reflexivity].
              destruct (Nat.eq_dec n (c s + 1)) as [->|Hne]; [rewrite Eb, !andb_false_r; reflexivity|].
              rewrite (proj1 (negb_false_iff _) (Hgap n ltac:(lia) ltac:(lia))) by idtac. rewrite !andb_false_r. reflexivity.
      * constructor; unfold good in *; fields; auto; try lia.
        -- intros n. rewrite count_cons, Hm. unfold ind.
           destruct (Nat.eqb_spec n (c s + 1)) as [->|Hne].
           ++ rewrite Eb. bools.
           ++ destruct (Nat.leb_spec n (seq s)).
              ** replace (n <=? c s + 1) with true by (symmetry; apply Nat.leb_le; lia). reflexivity.
              ** rewrite !andb_false_r. cbn [andb plus]. destruct (Nat.leb_spec n (c s + 1)); [|rewrite !andb_false_r; reflexivity].
                 rewrite (proj1 (negb_false_iff _) (Hgap n ltac:(lia) ltac:(lia))). rewrite !andb_false_r. reflexivity.
        -- intros x Hx. apply add_name_In. right. apply Hs, Hx.
        -- intros n [<-|Hn]; unfold name_of; cbn [upd fresh]; apply add_name_In; [left; reflexivity|right; apply Hnm, Hn].
    + constructor; unfold good in *; fields; auto; try lia.
  - (* FlushCommit *)
    destruct (mem s) as [|x l] eqn:Em; [exact HI|].
    cbn [ok_step] in Hok. rewrite Em in Hok.
    constructor; unfold good in *; fields; auto; try lia.
    + intros n Hn Hgood. specialize (Hack n Hn Hgood). lia.
    + intros n. rewrite count_app, Hp, Hm. unfold ind. destruct (negb (memb n (bad s))); rewrite ?andb_true_r, ?andb_false_r; [bools|reflexivity].
    + intros n. unfold count, ind. simpl. destruct (negb (memb n (bad s))); rewrite ?andb_true_r, ?andb_false_r; [bools|reflexivity].
    + intros n [].
    + intros n Hn. apply in_app_or in Hn as [Hn|Hn]; [|apply Hnd, Hn].
      rewrite forallb_forall in Hok. specialize (Hok n Hn). apply memb_In in Hok. exact Hok.
  - (* FlushAck *)
    unfold ack_to. destruct ((k s <=? pseq s) && (pseq s <=? c s)) eqn:E;
      constructor; unfold good in *; fields; auto; try lia.
    + apply andb_prop in E as [E1 E2]. apply Nat.leb_le in E1, E2. lia.
  - (* MetaFlush *)
    constructor; unfold good in *; fields; auto; try lia.
    intros n Hn. apply Hs, Hnd, Hn.
  - (* WalSync *)
    constructor; unfold good in *; fields; auto; try lia.
  - (* Rebuild *)
    rewrite Hi.
    assert (Hk : k s <= ack_to s (pseq s) /\ (ack_to s (pseq s) = k s \/ ack_to s (pseq s) = pseq s) /\ ack_to s (pseq s) <= c s).
    { unfold ack_to. destruct ((k s <=? pseq s) && (pseq s <=? c s)) eqn:E; [apply andb_prop in E as [E1 E2]; apply Nat.leb_le in E1, E2|]; lia. }
    destruct Hk as [K1 [K2 K3]].
    constructor; unfold good in *; fields; auto; try lia.
    + intros n Hn Hgood. destruct K2 as [K2|K2]; rewrite K2 in Hn; [apply Hack; assumption|lia].
    + intros n H1 H2. apply Hgap; lia.
  - (* Restart *)
    assert (Hk : k s <= ack_to s (pseq s) /\ (ack_to s (pseq s) = k s \/ ack_to s (pseq s) = pseq s) /\ ack_to s (pseq s) <= c s).
    { unfold ack_to. destruct ((k s <=? pseq s) && (pseq s <=? c s)) eqn:E; [apply andb_prop in E as [E1 E2]; apply Nat.leb_le in E1, E2|]; lia. }
    destruct Hk as [K1 [K2 K3]].
    constructor; unfold good in *; fields; auto; try lia.
    + intros n Hn Hgood. destruct K2 as [K2|K2]; rewrite K2 in Hn; [apply Hack; assumption|lia].
    + intros n H1 H2. destruct K2 as [K2|K2]; rewrite K2 in H2; [|lia].
      destruct (negb (memb n (bad s))) eqn:Eg; [|reflexivity]. specialize (Hack n H2 Eg). lia.
    + intros n. unfold count, ind. simpl. destruct (negb (memb n (bad s))); rewrite ?andb_true_r, ?andb_false_r; [bools|reflexivity].
    + intros n [].
Qed.

Lemma init_inv : Inv init.
Proof.
  constructor; unfold good; cbn [init la gcd k c seq gen mem pseq pdata inflight fresh nmem ndisk bad]; auto; try lia; try (intros ? []).
  - intros n. unfold count, ind. cbn [filter length]. destruct n; reflexivity.
  - intros n. unfold count, ind. cbn [filter length]. destruct n; reflexivity.
Qed.

Lemma run_inv evs : Forall atomic evs -> run_ok init evs = true -> Inv (run evs).
Proof.
  intros Hall. unfold run. pose proof init_inv as H0. revert H0. generalize init.
  induction Hall as [|e evs He Hall IH]; intros s H0 Hok; cbn [fold_left]; [exact H0|].
  cbn [run_ok] in Hok. apply andb_prop in Hok as [H1 H2]. apply IH; [apply step_inv; assumption|exact H2].
Qed.

(* no logged write is lost, none is applied twice, an acknowledged (or collected) entry that carries rows is stored -
   the log never runs ahead of the stored sequence except over entries it cannot decode -, and what is flushed
   resolves through the flushed dictionaries: at every point, a crash included *)
Theorem no_loss_no_replay evs : Forall atomic evs -> run_ok init evs = true ->
  let s := run evs in
  gcd s <= k s /\
  (forall n, 1 <= n <= la s -> good s n = true ->
     (count n (pdata s) = 1 /\ n <= pseq s) \/ (count n (pdata s) = 0 /\ k s < n /\ gcd s < n)) /\
  (forall n, good s n = false -> count n (pdata s) = 0) /\
  (forall n, count n (pdata s) <= 1) /\
  (forall n, In n (pdata s) -> In (name_of s n) (ndisk s)).
Proof.
  intros Hall Hok. pose proof (run_inv evs Hall Hok) as [_ (O1 & O2 & O3 & O4 & O5) Hack _ _ Hp _ _ _ _ Hnd]. cbv zeta.
  split; [exact O1|]. split; [|split; [|split; [|exact Hnd]]].
  - intros n Hn Hg. rewrite Hp, Hg, andb_true_r. unfold ind. destruct (Nat.leb_spec n (pseq (run evs))).
    + left. replace (1 <=? n) with true by (symmetry; apply Nat.leb_le; lia). simpl. split; [reflexivity|lia].
    + right. rewrite andb_false_r. split; [reflexivity|].
      assert (k (run evs) < n). { destruct (Nat.lt_ge_cases (k (run evs)) n) as [Hlt|Hge]; [exact Hlt|]. specialize (Hack n Hge Hg). lia. }
      lia.
  - intros n Hg. rewrite Hp, Hg, andb_false_r. reflexivity.
  - intros n. rewrite Hp. unfold ind. destruct ((1 <=? n) && (n <=? pseq (run evs)) && good (run evs) n); lia.
Qed.

(* after a restart everything above the acknowledged position is replayed exactly once: completeness of recovery *)
Fixpoint replays (n : nat) : list ev := match n with O => [] | S n' => Replica :: replays n' end.
Lemma replays_atomic n : Forall atomic (replays n).
Proof. induction n; constructor; simpl; auto. Qed.

(* ---- flushes racing with replication: the code as it is ---- *)
(* entry 2 pauses after R1, the flush runs, entry 2 writes into the flushed object: lost, yet sequence 3 is stored and acked *)
Theorem lost_write_refuted :
  let s := run [Append false; Append false; Append false; Replica; MetaFlush; R1; FlushCommit; FlushAck; R2; R3; Replica; FlushCommit; FlushAck] in
  (pseq s, k s, count 1 (pdata s), count 2 (pdata s), count 3 (pdata s)) = (3, 3, 1, 0, 1).
Proof. vm_compute. reflexivity. Qed.
(* the flush falls between the row write and CommitSequence: entry 2 is stored with sequence 1, replayed after a restart *)
Theorem double_apply_refuted :
  let s := run [Append false; Append false; Replica; MetaFlush; R1; R2; FlushCommit; FlushAck; R3; Restart; Replica; FlushCommit] in
  count 2 (pdata s) = 2.
Proof. vm_compute. reflexivity. Qed.
(* a new name applied after the metadata flush and before the data flush: flushed data that no flushed dictionary knows *)
Theorem unresolved_name_refuted :
  let evs := [Append false; Replica; MetaFlush; Append true; Replica; FlushCommit; FlushAck; Restart] in
  let s := run evs in
  run_ok init evs = false /\ In 2 (pdata s) /\ memb (name_of s 2) (ndisk s) = false /\ k s = 2.
Proof. vm_compute. repeat split; auto. Qed.

Example nontrivial :
  let evs := [Append false; Append true; Replica; Replica; MetaFlush; FlushCommit; Restart; Replica; Replica; Append false; FlushAck; WalSync; Replica; MetaFlush; FlushCommit; FlushAck; WalSync; Restart] in
  let s := run evs in run_ok init evs = true /\ (la s, gcd s, k s, pseq s, pdata s, ndisk s) = (3, 3, 3, 3, [3; 2; 1], [0; 5; 1]).
Proof. vm_compute. split; reflexivity. Qed.
