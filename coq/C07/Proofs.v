(* C07 — proofs *)
From Coq Require Import List Arith Lia Bool.
Import ListNotations.
From LinDBV.C07 Require Import Model.

Definition ind (b : bool) : nat := if b then 1 else 0.

Lemma count_cons n x l : count n (x :: l) = ind (n =? x) + count n l.
Proof. unfold count. simpl. destruct (n =? x); reflexivity. Qed.
Lemma count_app n a b : count n (a ++ b) = count n a + count n b.
Proof. unfold count. rewrite filter_app, app_length. reflexivity. Qed.
Lemma count_pos_in n l : 0 < count n l <-> In n l.
Proof.
  unfold count. split.
  - intros H. destruct (filter (Nat.eqb n) l) as [|x r] eqn:E; [simpl in H; lia|].
    assert (Hx : In x (filter (Nat.eqb n) l)) by (rewrite E; left; reflexivity).
    apply filter_In in Hx as [Hin He]. apply Nat.eqb_eq in He. subst. exact Hin.
  - intros H. assert (Hx : In n (filter (Nat.eqb n) l)) by (apply filter_In; split; [exact H|apply Nat.eqb_refl]).
    destruct (filter (Nat.eqb n) l); [destruct Hx|simpl; lia].
Qed.
Lemma memb_In x l : memb x l = true <-> In x l.
Proof. unfold memb. rewrite existsb_exists. split; [intros (y & H & E); apply Nat.eqb_eq in E; subst; exact H|intros H; exists x; split; [exact H|apply Nat.eqb_refl]]. Qed.
Lemma add_name_In x y l : In y (add_name x l) <-> y = x \/ In y l.
Proof.
  unfold add_name. destruct (memb x l) eqn:E.
  - apply memb_In in E. split; [auto|intros [->|H]; auto].
  - simpl. split; intros [H|H]; auto.
Qed.

Ltac bools := repeat match goal with
  | |- context [?a <=? ?b] => destruct (Nat.leb_spec a b)
  | |- context [?a <? ?b] => destruct (Nat.ltb_spec a b)
  | |- context [?a =? ?b] => destruct (Nat.eqb_spec a b)
  end; simpl; try lia.

Record Inv (s : st) : Prop := {
  v_inf : inflight s = None;
  v_ord : gcd s <= k s /\ k s <= pseq s /\ pseq s <= seq s /\ k s <= c s /\ c s <= seq s /\ seq s <= la s;
  v_pd : forall n, count n (pdata s) = ind ((1 <=? n) && (n <=? pseq s));
  v_mem : forall n, count n (mem s) = ind ((pseq s <? n) && (n <=? seq s));
  v_fresh : forall n, In n (fresh s) -> n <= la s;
  v_sub : forall x, In x (ndisk s) -> In x (nmem s);
  v_nm : forall n, In n (mem s) -> In (name_of s n) (nmem s);
  v_nd : forall n, In n (pdata s) -> In (name_of s n) (ndisk s)
}.

Lemma in_mem_le s n : Inv s -> In n (mem s) -> n <= seq s.
Proof.
  intros HI Hin. apply count_pos_in in Hin. rewrite (v_mem _ HI) in Hin. unfold ind in Hin.
  destruct (Nat.leb_spec n (seq s)); [lia|]. rewrite andb_false_r in Hin. lia.
Qed.
Lemma in_pd_le s n : Inv s -> In n (pdata s) -> n <= pseq s.
Proof.
  intros HI Hin. apply count_pos_in in Hin. rewrite (v_pd _ HI) in Hin. unfold ind in Hin.
  destruct (Nat.leb_spec n (pseq s)); [lia|]. rewrite andb_false_r in Hin. lia.
Qed.

Lemma step_inv s e : Inv s -> atomic e -> ok_step s e = true -> Inv (step s e).
Proof.
  intros HI Ha Hok. pose proof HI as [Hi (O1 & O2 & O3 & O4 & O5 & O6) Hp Hm Hf Hs Hnm Hnd].
  destruct e as [b| | | | | | | | | |]; simpl in Ha; try contradiction; cbn [step].
  - (* Append: the name labelling changes for the new entry only *)
    assert (Hname : forall n, n <= la s -> name_of (upd s (la s + 1) (gcd s) (k s) (c s) (seq s) (gen s) (mem s) (pseq s) (pdata s) (inflight s)
                       (if b then (la s + 1) :: fresh s else fresh s) (nmem s) (ndisk s)) n = name_of s n).
    { intros n Hn. unfold name_of, upd; cbn [fresh]. destruct b; [|reflexivity].
      cbn [memb existsb]. destruct (Nat.eqb_spec n (la s + 1)); [lia|reflexivity]. }
    constructor; cbn [upd la gcd k c seq gen mem pseq pdata inflight fresh nmem ndisk]; auto; try lia.
    + intros n Hn. destruct b; [destruct Hn as [<-|Hn]; [lia|]|]; specialize (Hf n Hn); lia.
    + intros n Hn. rewrite Hname; [apply Hnm, Hn|]. pose proof (in_mem_le s n HI Hn). lia.
    + intros n Hn. rewrite Hname; [apply Hnd, Hn|]. pose proof (in_pd_le s n HI Hn). lia.
  - (* Replica *)
    rewrite Hi. destruct (Nat.ltb_spec (c s) (la s)); [|exact HI].
    destruct (Nat.ltb_spec (seq s) (c s + 1)).
    + constructor; cbn [upd la gcd k c seq gen mem pseq pdata inflight fresh nmem ndisk]; auto; try lia.
      * intros n. rewrite count_cons, Hm. unfold ind. bools.
      * intros x Hx. apply add_name_In. right. apply Hs, Hx.
      * intros n [<-|Hn]; unfold name_of; cbn [upd fresh]; apply add_name_In; [left; reflexivity|right; apply Hnm, Hn].
    + constructor; cbn [upd la gcd k c seq gen mem pseq pdata inflight fresh nmem ndisk]; auto; try lia.
  - (* FlushCommit *)
    destruct (mem s) as [|x l] eqn:Em; [exact HI|].
    cbn [ok_step] in Hok. rewrite Em in Hok.
    constructor; cbn [upd la gcd k c seq gen mem pseq pdata inflight fresh nmem ndisk]; auto; try lia.
    + intros n. rewrite count_app, Hp, Hm. unfold ind. bools.
    + intros n. unfold count, ind. simpl. bools.
    + intros n [].
    + intros n Hn. apply in_app_or in Hn as [Hn|Hn]; [|apply Hnd, Hn].
      rewrite forallb_forall in Hok. specialize (Hok n Hn). apply memb_In in Hok. exact Hok.
  - (* FlushAck *)
    unfold ack_to. destruct ((k s <=? pseq s) && (pseq s <=? c s)) eqn:E;
      constructor; cbn [upd la gcd k c seq gen mem pseq pdata inflight fresh nmem ndisk]; auto; try lia.
    apply andb_prop in E as [_ E]. apply Nat.leb_le in E. lia.
  - (* MetaFlush *)
    constructor; cbn [upd la gcd k c seq gen mem pseq pdata inflight fresh nmem ndisk]; auto; try lia.
    intros n Hn. apply Hs, Hnd, Hn.
  - (* WalSync *)
    constructor; cbn [upd la gcd k c seq gen mem pseq pdata inflight fresh nmem ndisk]; auto; try lia.
  - (* Rebuild *)
    rewrite Hi.
    assert (Hk : k s <= ack_to s (pseq s) <= pseq s).
    { unfold ack_to. destruct ((k s <=? pseq s) && (pseq s <=? c s)); lia. }
    constructor; cbn [upd la gcd k c seq gen mem pseq pdata inflight fresh nmem ndisk]; auto; try lia.
  - (* Restart *)
    assert (Hk : k s <= ack_to s (pseq s) <= pseq s).
    { unfold ack_to. destruct ((k s <=? pseq s) && (pseq s <=? c s)); lia. }
    constructor; cbn [upd la gcd k c seq gen mem pseq pdata inflight fresh nmem ndisk]; auto; try lia.
    + intros n. unfold count, ind. simpl. bools.
    + intros n [].
Qed.

Lemma init_inv : Inv init.
Proof.
  constructor; cbn [init la gcd k c seq gen mem pseq pdata inflight fresh nmem ndisk]; auto; try lia; try (intros ? []).
  - intros n. unfold count, ind. cbn [filter length]. destruct n; reflexivity.
  - intros n. unfold count, ind. cbn [filter length]. destruct n; reflexivity.
Qed.

Lemma run_inv evs : Forall atomic evs -> run_ok init evs = true -> Inv (run evs).
Proof.
  intros Hall. unfold run. pose proof init_inv as H0. revert H0. generalize init.
  induction Hall as [|e evs He Hall IH]; intros s H0 Hok; cbn [fold_left]; [exact H0|].
  cbn [run_ok] in Hok. apply andb_prop in Hok as [H1 H2]. apply IH; [apply step_inv; assumption|exact H2].
Qed.

(* no logged write is lost, none is applied twice, the log is never acknowledged (nor collected) beyond the stored
   sequence, and what is flushed resolves through the flushed dictionaries - at every point, a crash included *)
Theorem no_loss_no_replay evs : Forall atomic evs -> run_ok init evs = true ->
  let s := run evs in
  gcd s <= k s /\ k s <= pseq s /\
  (forall n, 1 <= n <= la s -> (count n (pdata s) = 1 /\ n <= pseq s) \/ (count n (pdata s) = 0 /\ k s < n /\ gcd s < n)) /\
  (forall n, count n (pdata s) <= 1) /\
  (forall n, In n (pdata s) -> In (name_of s n) (ndisk s)).
Proof.
  intros Hall Hok. pose proof (run_inv evs Hall Hok) as [_ (O1 & O2 & O3 & O4 & O5 & O6) Hp _ _ _ _ Hnd]. cbv zeta.
  split; [exact O1|]. split; [exact O2|]. split; [|split; [|exact Hnd]].
  - intros n Hn. rewrite Hp. unfold ind. destruct (Nat.leb_spec n (pseq (run evs))).
    + left. replace (1 <=? n) with true by (symmetry; apply Nat.leb_le; lia). simpl. split; [reflexivity|lia].
    + right. rewrite andb_false_r. repeat split; try reflexivity; lia.
  - intros n. rewrite Hp. unfold ind. destruct ((1 <=? n) && (n <=? pseq (run evs))); lia.
Qed.

(* after a restart everything above the acknowledged position is replayed exactly once: completeness of recovery *)
Fixpoint replays (n : nat) : list ev := match n with O => [] | S n' => Replica :: replays n' end.
Lemma replays_atomic n : Forall atomic (replays n).
Proof. induction n; constructor; simpl; auto. Qed.

(* ---- flushes racing with replication: the code as it is ---- *)
(* entry 2 pauses after R1, the flush runs, entry 2 writes into the flushed object: lost, yet sequence 3 is stored and acked *)
Theorem lost_write_refuted :
  let s := run [Append false; Append false; Append false; Replica; MetaFlush; R1; FlushCommit; FlushAck; R2; R3; Replica; FlushCommit; FlushAck] in
  (pseq s, k s, count 1 (pdata s), count 2 (pdata s), count 3 (pdata s)) = (3, 3, 1, 0, 1).
Proof. vm_compute. reflexivity. Qed.
(* the flush falls between the row write and CommitSequence: entry 2 is stored with sequence 1, replayed after a restart *)
Theorem double_apply_refuted :
  let s := run [Append false; Append false; Replica; MetaFlush; R1; R2; FlushCommit; FlushAck; R3; Restart; Replica; FlushCommit] in
  count 2 (pdata s) = 2.
Proof. vm_compute. reflexivity. Qed.
(* a new name applied after the metadata flush and before the data flush: flushed data that no flushed dictionary knows *)
Theorem unresolved_name_refuted :
  let evs := [Append false; Replica; MetaFlush; Append true; Replica; FlushCommit; FlushAck; Restart] in
  let s := run evs in
  run_ok init evs = false /\ In 2 (pdata s) /\ memb (name_of s 2) (ndisk s) = false /\ k s = 2.
Proof. vm_compute. repeat split; auto. Qed.

Example nontrivial :
  let evs := [Append false; Append true; Replica; Replica; MetaFlush; FlushCommit; Restart; Replica; Replica; Append false; FlushAck; WalSync; Replica; MetaFlush; FlushCommit; FlushAck; WalSync; Restart] in
  let s := run evs in run_ok init evs = true /\ (la s, gcd s, k s, pseq s, pdata s, ndisk s) = (3, 3, 3, 3, [3; 2; 1], [2; 0]).
Proof. vm_compute. split; reflexivity. Qed.
