(* C07 — the property theorems *)
From Coq Require Import List Arith Bool.
Import ListNotations.
From LinDBV.C07 Require Import Model Proofs.

(* every history of appends (of decodable and of undecodable entries), whole replica steps, flushes in the flush
   checker's order, log sync and crashes at any event boundary (between the data commit and the log acknowledgement
   included): the log is never collected beyond its acknowledged position; an acknowledged entry that carries rows is
   stored (the acknowledged position passes the stored sequence only over entries that cannot be decoded); every
   decodable entry is stored exactly once or still in the log above the acknowledged position; an undecodable one is
   never stored; nothing is stored twice; what is stored resolves through the flushed dictionaries *)
Theorem C07_no_loss_no_replay evs : Forall atomic evs -> run_ok init evs = true ->
  let s := run evs in
  gcd s <= k s /\
  (forall n, 1 <= n <= la s -> good s n = true ->
     (count n (pdata s) = 1 /\ n <= pseq s) \/ (count n (pdata s) = 0 /\ k s < n /\ gcd s < n)) /\
  (forall n, good s n = false -> count n (pdata s) = 0) /\
  (forall n, count n (pdata s) <= 1) /\
  (forall n, In n (pdata s) -> In (name_of s n) (ndisk s)).
Proof. exact (no_loss_no_replay evs). Qed.
Print Assumptions C07_no_loss_no_replay.

(* the hypotheses are met by a history with an undecodable entry, acknowledged only when it directly follows the
   acknowledged position, and a crash *)
Example C07_nonvacuous_bad_entry :
  let evs := [Append false; AppendBad; Append false; Replica; Replica; Replica; MetaFlush; FlushCommit; FlushAck; AppendBad; Replica; Restart; Append false; Replica] in
  let s := run evs in Forall atomic evs /\ run_ok init evs = true /\ (la s, k s, pseq s, seq s, pdata s, bad s) = (5, 4, 3, 5, [3; 1], [4; 2]).
Proof. vm_compute. split; [repeat constructor|split; reflexivity]. Qed.

(* flushes racing with a replica step: the statement is false of the code as it is (known findings) *)
Theorem C07_lost_write_refuted :
  let s := run [Append false; Append false; Append false; Replica; MetaFlush; R1; FlushCommit; FlushAck; R2; R3; Replica; FlushCommit; FlushAck] in
  (pseq s, k s, count 1 (pdata s), count 2 (pdata s), count 3 (pdata s)) = (3, 3, 1, 0, 1).
Proof. exact lost_write_refuted. Qed.
Print Assumptions C07_lost_write_refuted.
Theorem C07_double_apply_refuted :
  let s := run [Append false; Append false; Replica; MetaFlush; R1; R2; FlushCommit; FlushAck; R3; Restart; Replica; FlushCommit] in
  count 2 (pdata s) = 2.
Proof. exact double_apply_refuted. Qed.
Print Assumptions C07_double_apply_refuted.
Theorem C07_unresolved_name_refuted :
  let evs := [Append false; Replica; MetaFlush; Append true; Replica; FlushCommit; FlushAck; Restart] in
  let s := run evs in
  run_ok init evs = false /\ In 2 (pdata s) /\ memb (name_of s 2) (ndisk s) = false /\ k s = 2.
Proof. exact unresolved_name_refuted. Qed.
Print Assumptions C07_unresolved_name_refuted.
