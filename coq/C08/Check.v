(* C08 — executable checks: (correspondence code, oracle code); 0 = fine *)
From Coq Require Import List ZArith Bool.
Import ListNotations.
From LinDBV.C08 Require Import Model.
Open Scope Z_scope.

Record obs := { o_la : Z; o_lq : Z; o_c : Z; o_k : Z; o_fa : Z; o_fq : Z; o_ready : bool;
                o_lreads : list (Z * option nat); o_freads : list (Z * option nat) }.

Definition opt_eqb (a b : option nat) : bool :=
  match a, b with Some x, Some y => Nat.eqb x y | None, None => true | _, _ => false end.

Definition agree (s : st) (o : obs) : bool :=
  (la s =? o_la o) && (lq s =? o_lq o) && (c s =? o_c o) && (k s =? o_k o) && (fa s =? o_fa o) && (fq s =? o_fq o) &&
  Bool.eqb (ready s) (o_ready o) &&
  forallb (fun p => opt_eqb (lread s (fst p)) (snd p)) (o_lreads o) &&
  forallb (fun p => opt_eqb (fread s (fst p)) (snd p)) (o_freads o).

Fixpoint cmp (s : st) (evs : list ev) (os : list obs) (i : nat) : nat :=
  match evs, os with
  | [], [] => 0%nat
  | e :: evs', o :: os' => let s' := step true s e in if agree s' o then cmp s' evs' os' (S i) else S i
  | _, _ => 799%nat
  end.

(* ---- oracle, on the observations alone ---- *)
Definition lookupZ (l : list (Z * option nat)) (i : Z) : option (option nat) :=
  option_map snd (find (fun p => fst p =? i) l).
(* same bytes wherever both sides can read *)
Definition same_where_both (o : obs) : bool :=
  forallb (fun p => match snd p, lookupZ (o_lreads o) (fst p) with
                    | Some m, Some (Some m') => Nat.eqb m m'
                    | _, _ => true end) (o_freads o).
(* the follower can read exactly (fq, fa]: no holes *)
Definition gap_free (o : obs) : bool :=
  forallb (fun p => Bool.eqb (match snd p with Some _ => true | None => false end) ((o_fq o <? fst p) && (fst p <=? o_fa o))) (o_freads o).
(* whatever the follower holds at i was stored by the leader at i at some time (stored: what the leader was seen holding) *)
Definition from_leader (stored : list (Z * nat)) (o : obs) : bool :=
  forallb (fun p => match snd p with
                    | Some m => existsb (fun q => (fst q =? fst p) && Nat.eqb (snd q) m) stored
                    | None => true end) (o_freads o).
Definition add_stored (stored : list (Z * nat)) (o : obs) : list (Z * nat) :=
  flat_map (fun p => match snd p with Some m => [(fst p, m)] | None => [] end) (o_lreads o) ++ stored.

(* positions the follower was ever seen holding *)
Definition add_held (held : list Z) (o : obs) : list Z :=
  flat_map (fun p => match snd p with Some _ => [fst p] | None => [] end) (o_freads o) ++ held.
Fixpoint upto (n : nat) : list Z := match n with O => [] | S n' => Z.of_nat n' :: upto n' end.
(* every position the leader's group has acknowledged was appended by the follower at some time *)
Definition acked_were_held (held : list Z) (o : obs) : bool :=
  forallb (fun i => existsb (Z.eqb i) held) (upto (Z.to_nat (o_k o + 1))).

Fixpoint oracle (stored : list (Z * nat)) (held : list Z) (was_ready : bool) (evs : list ev) (os : list obs) : nat :=
  match evs, os with
  | e :: evs', o :: os' =>
      let stored' := add_stored stored o in
      let held' := add_held held o in
      if negb (same_where_both o) then 101%nat
      else if negb (gap_free o) then 102%nat
      else if negb (from_leader stored' o) then 103%nat
      else if negb (acked_were_held held' o) then 104%nat                 (* acknowledged, but never appended by the follower *)
      else if (match e with Handshake => negb was_ready && o_ready o && negb (o_c o =? o_fa o) | _ => false end) then 105%nat
      else oracle stored' held' (o_ready o) evs' os'
  | _, _ => 0%nat
  end.

Definition check_hist (disc : bool) (evs : list ev) (os : list obs) : nat * nat :=
  ((if Bool.eqb (run_ok true init evs) disc then cmp init evs os 0 else 800%nat), oracle [] [] false evs os).
