(* C08 — replication channel of one WAL partition: leader log, follower log, the leader-side consumer group of the
   follower, the remote replicator's state, and the faults of the property.
   replica/replicator_remote.go (IsReady handshake, Replica), replica/partition.go (replica, ReplicaLog,
   ReplicaAckIndex, ResetReplicaIndex), pkg/queue (Consume, Ack, SetConsumedSeq, SetAppendedSeq, Sync).  Definitions only. *)
From Coq Require Import List ZArith Bool.
Import ListNotations.
Open Scope Z_scope.

Definition content := Z -> option nat.        (* message identity by position *)
Definition upd (f : content) (i : Z) (m : option nat) : content := fun j => if j =? i then m else f j.

Record leader_img := { i_la : Z; i_lq : Z; i_lmsg : content; i_c : Z; i_k : Z }.

Record st := {
  la : Z; lq : Z; lmsg : content;          (* leader log: appended, queue ack, bytes by position *)
  fa : Z; fq : Z; fmsg : content;          (* follower log *)
  c : Z; k : Z;                            (* leader-side consumer group of the follower: consumed, ack *)
  ready : bool;                            (* replicator state = Ready *)
  up : bool;                               (* the replica stream exists and works *)
  online : bool;                           (* follower node is in the live-node table *)
  pending : bool;                          (* a replica step is blocked waiting for the follower to come online *)
  fresh : nat;                             (* next message identity *)
  fhigh : Z;                               (* ghost: highest position the follower ever reached *)
  hist : content;                          (* ghost: the message last stored by the leader at each position *)
  snap : option leader_img;                (* an older image of the leader's log directory *)
  dirty : bool                             (* ghost: the leader was restored and no handshake has completed since *)
}.
Definition init : st :=
  {| la := -1; lq := -1; lmsg := fun _ => None; fa := -1; fq := -1; fmsg := fun _ => None;
     c := -1; k := -1; ready := false; up := false; online := true; pending := false; fresh := 0; fhigh := -1; hist := fun _ => None;
     snap := None; dirty := false |}.

Inductive ev :=
| LAppend
| Step (send_ok recv_ok : bool)   (* one partition.replica call; the flags say whether Send / Recv of the stream succeed *)
| StepAppendFail                  (* a partition.replica call whose message arrives, but the follower cannot append it
                                     (I/O error when its log needs a new page): it keeps its log and answers -1 *)
| Handshake                       (* IsReady + Connect without consuming *)
| FollowerRestart | FollowerLoseLog
| LeaderGC                        (* FanOutQueue.Sync + Queue.GC on the leader *)
| LeaderSnapshot | LeaderRestore  (* the leader's log directory is copied / replaced by the copy (lost tail) *)
| Offline | Online.

(* ConsumerGroup.Ack: accepted iff ack <= v <= consumed *)
Definition ack_to (kk cc v : Z) : Z := if (kk <=? v) && (v <=? cc) then v else kk.

Definition set_leader (s : st) (la' lq' : Z) (lm : content) (c' k' : Z) (r u : bool) (d : bool) : st :=
  {| la := la'; lq := lq'; lmsg := lm; fa := fa s; fq := fq s; fmsg := fmsg s; c := c'; k := k'; ready := r; up := u;
     online := online s; pending := pending s; fresh := fresh s; fhigh := fhigh s; hist := hist s; snap := snap s; dirty := d |}.

(* IsReady while not Ready and the follower is live; `fixed` = the comparison after the repair (>=) *)
Definition handshake (fixed : bool) (s : st) : st :=
  let remote := fa s in
  if remote + 1 =? c s + 1 then set_leader s (la s) (lq s) (lmsg s) (c s) (k s) true false false
  else if remote <? k s then
    (* follower behind the leader's ack (new or lost log): Reset the follower's append index, rewind the group *)
    {| la := la s; lq := lq s; lmsg := lmsg s; fa := k s; fq := k s; fmsg := fmsg s; c := k s; k := k s;
       ready := true; up := false; online := online s; pending := pending s; fresh := fresh s;
       fhigh := Z.max (fhigh s) (k s); hist := hist s; snap := snap s; dirty := false |}
  else if (if fixed then la s + 1 <=? remote else la s + 1 <? remote) then
    (* follower ahead of the leader's log (leader lost its tail): move the leader's append index past it *)
    set_leader s remote remote (lmsg s) remote remote true false false
  else
    (* ack lost: move the group to the follower's position *)
    set_leader s (la s) (lq s) (lmsg s) remote (ack_to (k s) remote remote) true false false.

Definition set_flags (s : st) (r u p : bool) : st :=
  {| la := la s; lq := lq s; lmsg := lmsg s; fa := fa s; fq := fq s; fmsg := fmsg s; c := c s; k := k s; ready := r; up := u;
     online := online s; pending := p; fresh := fresh s; fhigh := fhigh s; hist := hist s; snap := snap s; dirty := dirty s |}.

(* IsReady && Connect: None = blocked waiting for the follower to come online *)
Definition ready_connect (fixed : bool) (s : st) : option st :=
  if ready s then Some (set_flags s true (up s) (pending s))          (* Connect keeps the stream it has, working or not *)
  else if negb (online s) then None
  else let s' := handshake fixed s in Some (set_flags s' true true (pending s')).

(* consume + send/receive of partition.replica, after IsReady && Connect succeeded *)
Definition consume_send (s : st) (send_ok recv_ok : bool) : st :=
  if negb (c s + 1 <=? la s) then s else
  let seq := c s + 1 in
  if negb ((lq s <? seq) && (seq <=? la s)) then
    (* GetMessage failed: IgnoreMessage *)
    set_leader s (la s) (lq s) (lmsg s) seq (if k s + 1 =? seq then ack_to (k s) seq seq else k s) (ready s) (up s) (dirty s)
  else if negb (up s && send_ok) then
    set_leader s (la s) (lq s) (lmsg s) seq (k s) false false (dirty s)
  else
    (* follower: ReplicaLog *)
    let accept := seq =? fa s + 1 in
    let fa' := if accept then seq else fa s in
    let fmsg' := if accept then upd (fmsg s) seq (lmsg s seq) else fmsg s in
    let resp := if accept then seq else fa s + 1 in
    let k' := if recv_ok then (if resp =? seq then ack_to (k s) seq seq else k s) else k s in
    {| la := la s; lq := lq s; lmsg := lmsg s; fa := fa'; fq := fq s; fmsg := fmsg';
       c := seq; k := k'; ready := recv_ok; up := recv_ok; online := online s; pending := pending s; fresh := fresh s;
       fhigh := Z.max (fhigh s) fa'; hist := hist s; snap := snap s; dirty := dirty s |}.

(* the message is delivered (or not, when the stream is down) and the follower does not append it, whether it rejects
   the index or its append fails: nothing changes on the follower, the answer is not the sent index, the leader's
   acknowledged position stays *)
Definition consume_fail (s : st) : st :=
  if negb (c s + 1 <=? la s) then s else
  let seq := c s + 1 in
  if negb ((lq s <? seq) && (seq <=? la s)) then
    set_leader s (la s) (lq s) (lmsg s) seq (if k s + 1 =? seq then ack_to (k s) seq seq else k s) (ready s) (up s) (dirty s)
  else if negb (up s) then
    set_leader s (la s) (lq s) (lmsg s) seq (k s) false false (dirty s)
  else
    set_leader s (la s) (lq s) (lmsg s) seq (k s) true true (dirty s).

Definition do_step (fixed : bool) (s : st) (send_ok recv_ok : bool) : st :=
  match ready_connect fixed s with
  | None => set_flags s (ready s) (up s) true
  | Some s' => consume_send s' send_ok recv_ok
  end.

Definition step (fixed : bool) (s : st) (e : ev) : st :=
  match e with
  | LAppend =>
    {| la := la s + 1; lq := lq s; lmsg := upd (lmsg s) (la s + 1) (Some (fresh s)); fa := fa s; fq := fq s; fmsg := fmsg s;
       c := c s; k := k s; ready := ready s; up := up s; online := online s; pending := pending s; fresh := S (fresh s);
       fhigh := fhigh s; hist := upd (hist s) (la s + 1) (Some (fresh s)); snap := snap s; dirty := dirty s |}
  | Step send_ok recv_ok => if pending s then s else do_step fixed s send_ok recv_ok
  | StepAppendFail =>
    if pending s then s else
    match ready_connect fixed s with
    | None => set_flags s (ready s) (up s) true
    | Some s' => consume_fail s'
    end
  | Handshake =>
    if pending s then s else
    match ready_connect fixed s with
    | None => s                                  (* the harness never calls it while it would block *)
    | Some s' => s'
    end
  | FollowerRestart => set_flags s (ready s) false (pending s)
  | FollowerLoseLog =>
    {| la := la s; lq := lq s; lmsg := lmsg s; fa := -1; fq := -1; fmsg := fun _ => None; c := c s; k := k s;
       ready := ready s; up := false; online := online s; pending := pending s; fresh := fresh s; fhigh := fhigh s; hist := hist s;
       snap := snap s; dirty := dirty s |}
  | LeaderGC =>
    let m := Z.min (la s) (k s) in
    set_leader s (la s) (if (0 <=? m) && (lq s <? m) then m else lq s) (lmsg s) (c s) (k s) (ready s) (up s) (dirty s)
  | LeaderSnapshot =>
    {| la := la s; lq := lq s; lmsg := lmsg s; fa := fa s; fq := fq s; fmsg := fmsg s; c := c s; k := k s; ready := ready s;
       up := up s; online := online s; pending := pending s; fresh := fresh s; fhigh := fhigh s; hist := hist s;
       snap := Some {| i_la := la s; i_lq := lq s; i_lmsg := lmsg s; i_c := c s; i_k := k s |}; dirty := dirty s |}
  | LeaderRestore =>
    match snap s with
    | None => s
    | Some im =>
      (* reopen: the group's ack is raised to the queue's ack, its consumed position to its ack *)
      let k' := Z.max (i_k im) (i_lq im) in
      set_leader s (i_la im) (i_lq im) (i_lmsg im) (Z.max (i_c im) k') k' false false true
    end
  | Offline =>
    {| la := la s; lq := lq s; lmsg := lmsg s; fa := fa s; fq := fq s; fmsg := fmsg s; c := c s; k := k s; ready := ready s;
       up := up s; online := false; pending := pending s; fresh := fresh s; fhigh := fhigh s; hist := hist s; snap := snap s; dirty := dirty s |}
  | Online =>
    let s1 := {| la := la s; lq := lq s; lmsg := lmsg s; fa := fa s; fq := fq s; fmsg := fmsg s; c := c s; k := k s;
                 ready := ready s; up := up s; online := true; pending := false; fresh := fresh s; fhigh := fhigh s; hist := hist s;
                 snap := snap s; dirty := dirty s |} in
    if pending s then do_step fixed s1 true true else s1
  end.

Definition run (fixed : bool) (evs : list ev) : st := fold_left (step fixed) evs init.

(* what both sides can read *)
Definition lread (s : st) (i : Z) : option nat := if (lq s <? i) && (i <=? la s) then lmsg s i else None.
Definition fread (s : st) (i : Z) : option nat := if (fq s <? i) && (i <=? fa s) then fmsg s i else None.
Definition holds_both (s : st) (i : Z) : bool := (lq s <? i) && (i <=? la s) && (fq s <? i) && (i <=? fa s).

(* Histories the protocol can handle: after the leader lost its tail nothing is appended before a handshake has
   completed (positions carry no epoch, so writes at the lost positions cannot be told from the follower's copies). *)
Definition ok_step (s : st) (e : ev) : bool := match e with LAppend => negb (dirty s) | _ => true end.
Fixpoint run_ok (fixed : bool) (s : st) (evs : list ev) : bool :=
  match evs with [] => true | e :: r => ok_step s e && run_ok fixed (step fixed s e) r end.
