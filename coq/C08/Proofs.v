(* C08 — proofs *)
From Coq Require Import List ZArith Lia Bool.
Import ListNotations.
From LinDBV.C08 Require Import Model.
Open Scope Z_scope.

Lemma upd_same f i m : upd f i m i = m.
Proof. unfold upd. rewrite Z.eqb_refl. reflexivity. Qed.
Lemma upd_other f i m j : j <> i -> upd f i m j = f j.
Proof. unfold upd. intros H. destruct (Z.eqb_spec j i); congruence. Qed.

Definition img_ok (s : st) (im : leader_img) : Prop :=
  i_la im <= la s /\ -1 <= i_lq im <= i_la im /\ i_lq im <= i_k im /\ i_k im <= i_c im /\ i_c im <= i_la im /\
  i_k im <= fhigh s /\ (forall i, i_lq im < i <= i_la im -> i_lmsg im i = hist s i).

Record Inv (s : st) : Prop := {
  v_l : -1 <= lq s <= la s;
  v_f : -1 <= fq s <= fa s;
  v_clean : dirty s = false -> fa s <= la s;
  v_lh : forall i, lq s < i <= la s -> lmsg s i = hist s i;      (* what the leader holds is the history *)
  v_fh : forall i, fq s < i <= fa s -> fmsg s i = hist s i;      (* what the follower holds is the history *)
  v_high : k s <= fhigh s /\ fa s <= fhigh s;
  v_grp : lq s <= k s /\ k s <= c s /\ c s <= la s;
  v_snap : forall im, snap s = Some im -> img_ok s im
}.

Lemma ack_to_bounds kk cc v : kk <= cc -> kk <= ack_to kk cc v <= cc /\ (ack_to kk cc v = kk \/ ack_to kk cc v = v).
Proof.
  intros H. unfold ack_to. destruct (Z.leb_spec kk v); destruct (Z.leb_spec v cc); cbn [andb]; lia.
Qed.

Lemma init_inv : Inv init.
Proof. constructor; cbn; try lia; try (intros; lia); try discriminate. Qed.

Ltac img_tac Hs im Him :=
  destruct (Hs im Him) as (A1 & A2 & A3 & A4 & A5 & A6 & A7); unfold img_ok; cbn [set_leader la lq fhigh hist]; repeat split; try lia; auto.

Ltac fin Hs :=
  constructor; cbn [set_leader la lq lmsg fa fq fmsg c k dirty fhigh hist snap]; auto; try lia;
  try (intros; lia); try (intros ? Him; img_tac Hs ltac:(match type of Him with snap _ = Some ?x => x | _ = Some ?x => x end) Him).

Lemma handshake_inv s : Inv s -> Inv (handshake true s) /\ dirty (handshake true s) = false /\ ready (handshake true s) = true /\
  c (handshake true s) = fa (handshake true s) /\ lq (handshake true s) <= c (handshake true s).
Proof.
  intros [Hl Hf Hc Hlh Hfh [Hk1 Hk2] (G1 & G2 & G3) Hs]. unfold handshake.
  destruct (Z.eqb_spec (fa s + 1) (c s + 1)) as [E|E].
  - split; [|cbn; repeat split; lia]. fin Hs.
  - destruct (Z.ltb_spec (fa s) (k s)) as [E2|E2].
    + split; [|cbn; repeat split; lia]. fin Hs.
    + destruct (Z.leb_spec (la s + 1) (fa s)) as [E3|E3].
      * split; [|cbn; repeat split; lia]. fin Hs.
      * pose proof (ack_to_bounds (k s) (fa s) (fa s) E2) as [B1 B2].
        split; [|cbn; repeat split; lia]. fin Hs.
Qed.

Lemma set_flags_inv s r u p : Inv s -> Inv (set_flags s r u p).
Proof. intros [Hl Hf Hc Hlh Hfh Hk Hg Hs]. constructor; cbn; auto. Qed.

Lemma ready_connect_inv s s' : Inv s -> ready_connect true s = Some s' -> Inv s'.
Proof.
  intros HI. unfold ready_connect. destruct (ready s); [intros E; inversion E; apply set_flags_inv, HI|].
  destruct (online s); cbn [negb]; [|discriminate]. intros E; inversion E. apply set_flags_inv. apply handshake_inv, HI.
Qed.

Lemma consume_send_inv s so ro : Inv s -> Inv (consume_send s so ro).
Proof.
  intros HI. pose proof HI as [Hl Hf Hc Hlh Hfh [Hk1 Hk2] (G1 & G2 & G3) Hs]. unfold consume_send.
  destruct (Z.leb_spec (c s + 1) (la s)) as [Ele|Ele]; cbn [negb]; [|exact HI].
  destruct (Z.ltb_spec (lq s) (c s + 1)) as [Elt|Elt]; [|lia].
  cbn [andb negb].
  destruct (up s && so); cbn [negb].
  - (* sent: the follower appends iff the index is its next one *)
    assert (Hk' : forall b : bool, lq s <= (if b then (if (if c s + 1 =? fa s + 1 then c s + 1 else fa s + 1) =? c s + 1 then ack_to (k s) (c s + 1) (c s + 1) else k s) else k s)
                    /\ (if b then (if (if c s + 1 =? fa s + 1 then c s + 1 else fa s + 1) =? c s + 1 then ack_to (k s) (c s + 1) (c s + 1) else k s) else k s) <= c s + 1
                    /\ (if b then (if (if c s + 1 =? fa s + 1 then c s + 1 else fa s + 1) =? c s + 1 then ack_to (k s) (c s + 1) (c s + 1) else k s) else k s) <= Z.max (fhigh s) (if c s + 1 =? fa s + 1 then c s + 1 else fa s)).
    { intros b. destruct b; [|lia].
      pose proof (ack_to_bounds (k s) (c s + 1) (c s + 1) ltac:(lia)) as [B1 B2].
      destruct (Z.eqb_spec (c s + 1) (fa s + 1)) as [E|E].
      - rewrite Z.eqb_refl. lia.
      - destruct (Z.eqb_spec (fa s + 1) (c s + 1)); [lia|]. lia. }
    specialize (Hk' ro). destruct Hk' as (K1 & K2 & K3).
    constructor; cbn [la lq lmsg fa fq fmsg c k dirty fhigh hist snap]; auto; try lia.
    + destruct (Z.eqb_spec (c s + 1) (fa s + 1)); lia.
    + intros Hd. specialize (Hc Hd). destruct (Z.eqb_spec (c s + 1) (fa s + 1)); lia.
    + intros i Hi. destruct (Z.eqb_spec (c s + 1) (fa s + 1)) as [E|E]; [|apply Hfh, Hi].
      destruct (Z.eq_dec i (c s + 1)) as [->|Hne]; [rewrite upd_same; apply Hlh; lia|].
      rewrite upd_other by exact Hne. apply Hfh. lia.
    + intros im Him. destruct (Hs im Him) as (A1 & A2 & A3 & A4 & A5 & A6 & A7). unfold img_ok; cbn [la lq fhigh hist]. repeat split; try lia; auto.
  - (* send failed *)
    constructor; cbn [set_leader la lq lmsg fa fq fmsg c k dirty fhigh hist snap]; auto; try lia.
Qed.

Lemma consume_fail_inv s : Inv s -> Inv (consume_fail s).
Proof.
  intros HI. pose proof HI as [Hl Hf Hc Hlh Hfh [Hk1 Hk2] (G1 & G2 & G3) Hs]. unfold consume_fail.
  destruct (Z.leb_spec (c s + 1) (la s)) as [Ele|Ele]; cbn [negb]; [|exact HI].
  destruct (Z.ltb_spec (lq s) (c s + 1)) as [Elt|Elt]; [|lia].
  cbn [andb negb].
  destruct (up s); cbn [negb];
    constructor; cbn [set_leader la lq lmsg fa fq fmsg c k dirty fhigh hist snap]; auto; try lia.
Qed.

Lemma do_step_inv s so ro : Inv s -> Inv (do_step true s so ro).
Proof.
  intros HI. unfold do_step. destruct (ready_connect true s) as [s'|] eqn:E.
  - apply consume_send_inv. eapply ready_connect_inv; eauto.
  - apply set_flags_inv, HI.
Qed.

Ltac snap_same Hs :=
  let im := fresh "im" in let Him := fresh "Him" in
  intros im Him; destruct (Hs im Him) as (A1 & A2 & A3 & A4 & A5 & A6 & A7); unfold img_ok; cbn [set_leader la lq fhigh hist]; repeat split; try lia; auto.

Lemma step_inv s e : Inv s -> ok_step s e = true -> Inv (step true s e).
Proof.
  intros HI Hok. pose proof HI as [Hl Hf Hc Hlh Hfh [Hk1 Hk2] (G1 & G2 & G3) Hs].
  destruct e as [|so ro| | | | | | | | |]; cbn [step].
  - (* LAppend: only while the follower is not ahead *)
    cbn [ok_step] in Hok. apply negb_true_iff in Hok. specialize (Hc Hok).
    constructor; cbn [la lq lmsg fa fq fmsg c k dirty fhigh hist snap].
    + lia.
    + lia.
    + intros _. lia.
    + intros i Hi. destruct (Z.eq_dec i (la s + 1)) as [->|Hne]; [rewrite !upd_same; reflexivity|].
      rewrite !upd_other by exact Hne. apply Hlh. lia.
    + intros i Hi. rewrite upd_other by lia. apply Hfh, Hi.
    + lia.
    + lia.
    + intros im Him. destruct (Hs im Him) as (A1 & A2 & A3 & A4 & A5 & A6 & A7). unfold img_ok; cbn [la lq fhigh hist]. repeat split; try lia.
      intros i Hi. rewrite upd_other by lia. apply A7, Hi.
  - destruct (pending s); [exact HI|apply do_step_inv, HI].
  - (* StepAppendFail *)
    destruct (pending s); [exact HI|]. destruct (ready_connect true s) as [s'|] eqn:E.
    + apply consume_fail_inv. eapply ready_connect_inv; eauto.
    + apply set_flags_inv, HI.
  - destruct (pending s); [exact HI|]. destruct (ready_connect true s) as [s'|] eqn:E; [eapply ready_connect_inv; eauto|exact HI].
  - apply set_flags_inv, HI.
  - (* FollowerLoseLog *)
    constructor; cbn [la lq lmsg fa fq fmsg c k dirty fhigh hist snap].
    + lia.
    + lia.
    + intros _. lia.
    + exact Hlh.
    + intros i Hi. lia.
    + lia.
    + lia.
    + snap_same Hs.
  - (* LeaderGC *)
    destruct ((0 <=? Z.min (la s) (k s)) && (lq s <? Z.min (la s) (k s))) eqn:Eg.
    + apply andb_prop in Eg as [E1 E2]. apply Z.ltb_lt in E2.
      constructor; cbn [set_leader la lq lmsg fa fq fmsg c k dirty fhigh hist snap];
        [lia|lia|exact Hc|intros i Hi; apply Hlh; lia|exact Hfh|lia|lia|snap_same Hs].
    + constructor; cbn [set_leader la lq lmsg fa fq fmsg c k dirty fhigh hist snap];
        [lia|lia|exact Hc|exact Hlh|exact Hfh|lia|lia|snap_same Hs].
  - (* LeaderSnapshot *)
    constructor; cbn [la lq lmsg fa fq fmsg c k dirty fhigh hist snap];
      [lia|lia|exact Hc|exact Hlh|exact Hfh|lia|lia|].
    intros im Him. inversion Him; subst im; clear Him. unfold img_ok; cbn. repeat split; try lia. exact Hlh.
  - (* LeaderRestore *)
    destruct (snap s) as [im|] eqn:Es; [|exact HI].
    destruct (Hs im eq_refl) as (A1 & A2 & A3 & A4 & A5 & A6 & A7).
    constructor; cbn [set_leader la lq lmsg fa fq fmsg c k dirty fhigh hist snap].
    + lia.
    + lia.
    + discriminate.
    + exact A7.
    + exact Hfh.
    + lia.
    + lia.
    + intros im' Him'. rewrite Es in Him'. inversion Him'; subst im'. unfold img_ok; cbn [set_leader la lq fhigh hist]. repeat split; try lia. exact A7.
  - (* Offline *)
    constructor; cbn [la lq lmsg fa fq fmsg c k dirty fhigh hist snap]; auto.
  - (* Online *)
    set (s1 := {| la := la s; lq := lq s; lmsg := lmsg s; fa := fa s; fq := fq s; fmsg := fmsg s; c := c s; k := k s;
                  ready := ready s; up := up s; online := true; pending := false; fresh := fresh s; fhigh := fhigh s; hist := hist s;
                  snap := snap s; dirty := dirty s |}).
    assert (H1 : Inv s1) by (constructor; cbn [s1 la lq lmsg fa fq fmsg c k dirty fhigh hist snap]; auto).
    destruct (pending s); [apply do_step_inv, H1|exact H1].
Qed.

Lemma run_inv_from evs : forall s, Inv s -> run_ok true s evs = true -> Inv (fold_left (step true) evs s).
Proof.
  induction evs as [|e evs IH]; intros s HI Hok; cbn [fold_left]; [exact HI|].
  cbn [run_ok] in Hok. apply andb_prop in Hok as [H1 H2]. apply IH; [apply step_inv; assumption|exact H2].
Qed.
Theorem run_inv evs : run_ok true init evs = true -> Inv (run true evs).
Proof. apply run_inv_from, init_inv. Qed.

(* ---- what the property states ---- *)
(* a position held by both sides has the same bytes; everything the follower holds was stored by the leader there *)
Theorem follower_copy_safe evs i : run_ok true init evs = true ->
  let s := run true evs in
  holds_both s i = true -> lread s i = fread s i /\ fread s i = hist s i.
Proof.
  intros Hok s Hb. pose proof (run_inv evs Hok) as HI. fold s in HI. unfold holds_both in Hb.
  apply andb_prop in Hb as [Hb H4]. apply andb_prop in Hb as [Hb H3]. apply andb_prop in Hb as [H1 H2].
  unfold lread, fread. rewrite H1, H2, H3, H4. cbn [andb].
  apply Z.ltb_lt in H1, H3. apply Z.leb_le in H2, H4.
  rewrite (v_lh _ HI i), (v_fh _ HI i) by lia. auto.
Qed.
Theorem follower_holds_history evs i : run_ok true init evs = true ->
  let s := run true evs in fq s < i <= fa s -> fmsg s i = hist s i.
Proof. intros Hok s Hi. apply (v_fh _ (run_inv evs Hok)), Hi. Qed.

(* the leader never treats a position as acknowledged that the follower has not appended at some time *)
Theorem leader_ack_le_follower evs : run_ok true init evs = true -> k (run true evs) <= fhigh (run true evs).
Proof. intros Hok. apply (v_high _ (run_inv evs Hok)). Qed.

(* resynchronisation: a completed handshake leaves the next index to send = the first position the follower lacks, the
   leader holds it whenever it has anything newer, and the follower is not ahead of the leader's log *)
Theorem resync_point s : Inv s ->
  let s' := handshake true s in
  ready s' = true /\ c s' = fa s' /\ lq s' <= c s' /\ fa s' <= la s' /\ dirty s' = false.
Proof.
  intros HI s'. destruct (handshake_inv s HI) as (HI' & Hd & Hr & Hc & Hq). repeat split; auto.
  apply (v_clean _ HI'), Hd.
Qed.
(* every fault leaves the channel in a state from which the next replica step performs that handshake *)
Theorem step_resyncs s so ro : Inv s -> ready s = false -> online s = true -> pending s = false ->
  step true s (Step so ro) = consume_send (set_flags (handshake true s) true true (pending (handshake true s))) so ro.
Proof. intros _ Hr Ho Hp. cbn [step]. rewrite Hp. unfold do_step, ready_connect. rewrite Hr, Ho. reflexivity. Qed.

(* ---- the comparison as it was before the repair: a follower exactly one message ahead is not noticed ---- *)
Fixpoint steps (n : nat) : list ev := match n with O => [] | S n' => Step true true :: steps n' end.
Definition replicate_all (n : nat) : list ev := repeat LAppend n ++ [Handshake] ++ steps n.
Definition one_ahead : list ev := replicate_all 3 ++ [LeaderSnapshot; LAppend; Step true true; LeaderRestore; Handshake; LAppend].
Theorem one_ahead_unrepaired_refuted :
  let s := run false one_ahead in (holds_both s 3, lread s 3, fread s 3) = (true, Some 4%nat, Some 3%nat).
Proof. vm_compute. reflexivity. Qed.
Theorem one_ahead_repaired :
  let s := run true one_ahead in run_ok true init one_ahead = true /\ (holds_both s 3, la s, lread s 4) = (false, 4, Some 4%nat).
Proof. vm_compute. split; reflexivity. Qed.

(* ---- outside the discipline: writes at the lost positions before the handshake are not detected ---- *)
Definition diverge : list ev := replicate_all 3 ++ [LeaderSnapshot; LAppend; Step true true; LeaderRestore; LAppend; Handshake].
Theorem diverge_after_tail_loss_refuted :
  let s := run true diverge in
  run_ok true init diverge = false /\ (ready s, holds_both s 3, lread s 3, fread s 3) = (true, true, Some 4%nat, Some 3%nat).
Proof. vm_compute. split; reflexivity. Qed.

Example nontrivial :
  let evs := replicate_all 4 ++ [FollowerLoseLog; LAppend; Step true true; Step true true; LeaderGC; Step true false; Step true true; Step true true] in
  let s := run true evs in run_ok true init evs = true /\ (la s, fa s, fq s, k s, lread s 4, fread s 4, fread s 2) = (4, 4, 3, 4, None, Some 4%nat, None).
Proof. vm_compute. split; reflexivity. Qed.
