(* C08 — the property theorems *)
From Coq Require Import List ZArith Bool.
Import ListNotations.
From LinDBV.C08 Require Import Model Proofs.
Open Scope Z_scope.

(* byte-identical where both hold; everything the follower holds is what the leader stored at that position *)
Theorem C08_follower_copy_safe evs i : run_ok true init evs = true ->
  let s := run true evs in
  holds_both s i = true -> lread s i = fread s i /\ fread s i = hist s i.
Proof. exact (follower_copy_safe evs i). Qed.
Print Assumptions C08_follower_copy_safe.

Theorem C08_follower_holds_history evs i : run_ok true init evs = true ->
  let s := run true evs in fq s < i <= fa s -> fmsg s i = hist s i.
Proof. exact (follower_holds_history evs i). Qed.
Print Assumptions C08_follower_holds_history.

Theorem C08_leader_ack_le_follower evs : run_ok true init evs = true -> k (run true evs) <= fhigh (run true evs).
Proof. exact (leader_ack_le_follower evs). Qed.
Print Assumptions C08_leader_ack_le_follower.

Theorem C08_resync_point s : Inv s ->
  let s' := handshake true s in
  ready s' = true /\ c s' = fa s' /\ lq s' <= c s' /\ fa s' <= la s' /\ dirty s' = false.
Proof. exact (resync_point s). Qed.
Print Assumptions C08_resync_point.

Theorem C08_step_resyncs s so ro : Inv s -> ready s = false -> online s = true -> pending s = false ->
  step true s (Step so ro) = consume_send (set_flags (handshake true s) true true (pending (handshake true s))) so ro.
Proof. exact (step_resyncs s so ro). Qed.
Print Assumptions C08_step_resyncs.

(* the comparison before the repair *)
Theorem C08_one_ahead_unrepaired_refuted :
  let s := run false one_ahead in (holds_both s 3, lread s 3, fread s 3) = (true, Some 4%nat, Some 3%nat).
Proof. exact one_ahead_unrepaired_refuted. Qed.
Print Assumptions C08_one_ahead_unrepaired_refuted.

(* outside the discipline the statement fails (known finding) *)
Theorem C08_diverge_after_tail_loss_refuted :
  let s := run true diverge in
  run_ok true init diverge = false /\ (ready s, holds_both s 3, lread s 3, fread s 3) = (true, true, Some 4%nat, Some 3%nat).
Proof. exact diverge_after_tail_loss_refuted. Qed.
Print Assumptions C08_diverge_after_tail_loss_refuted.
