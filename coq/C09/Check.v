(* C09 — executable checks run by the harness: (correspondence code, oracle code); 0 = fine.
   The correspondence compares what the implementation returned with the model's results along the same history; the
   oracle judges the implementation's observations alone against the property (it never consults the model). *)
From Coq Require Import List Arith Bool.
Import ListNotations.
From LinDBV.C09 Require Import Model.
From LinDBV.C09 Require Conc.

Definition obs := option (option nat).        (* None: the harness did not observe this step *)

Definition opt_eqb (a b : option nat) : bool :=
  match a, b with Some x, Some y => x =? y | None, None => true | _, _ => false end.

Fixpoint cmp (rs : list (option nat)) (os : list obs) (i : nat) : nat :=
  match rs, os with
  | [], [] => 0
  | r :: rs', o :: os' =>
      match o with
      | None => cmp rs' os' (S i)
      | Some v => if opt_eqb r v then cmp rs' os' (S i) else S i
      end
  | _, _ => 799
  end.

(* ---- the oracle ---- *)
Definition key := (kind * nat * nat)%type.
Definition key_eqb (a b : key) : bool :=
  let '(k1, s1, n1) := a in let '(k2, s2, n2) := b in kind_eqb k1 k2 && (s1 =? s2) && (n1 =? n2).
Fixpoint lookup (m : list (key * nat)) (k : key) : option nat :=
  match m with [] => None | (k', v) :: r => if key_eqb k k' then Some v else lookup r k end.
(* ids of namespaces, metric names, tag keys, tag values are database-wide; field and series ids are per metric *)
Definition global (k : kind) : bool := match k with KField | KSeries => false | _ => true end.
Definition clash (m : list (key * nat)) (k : key) (id : nat) : bool :=
  existsb (fun p => let '((k2, s2, n2), id2) := p in let '(k1, s1, n1) := k in
                    kind_eqb k1 k2 && (id =? id2) && (global k1 || (s1 =? s2)) && negb (key_eqb k (k2, s2, n2))) m.

Fixpoint oracle (seen old : list (key * nat)) (ops : list op) (os : list obs) : nat :=
  match ops, os with
  | o :: ops', ob :: os' =>
      match o, ob with
      | Crash, _ => oracle [] (seen ++ old) ops' os'
      | Gen k sc nm, Some (Some id) =>
          match lookup seen (k, sc, nm) with
          | Some id' => if id =? id' then oracle seen old ops' os' else 101      (* the id of a name changed while the node ran *)
          | None => if clash seen (k, sc, nm) id then 102                         (* two names share an id *)
                    else oracle (((k, sc, nm), id) :: seen) old ops' os'
          end
      | Look k sc nm, Some (Some id) =>
          match lookup seen (k, sc, nm) with
          | Some id' => if id =? id' then oracle seen old ops' os' else 101
          | None =>
              if clash seen (k, sc, nm) id then 102
              else match lookup old (k, sc, nm) with
                   | Some id' => if id =? id' then oracle (((k, sc, nm), id) :: seen) old ops' os'
                                 else 103                                         (* a recovered name came back with another id *)
                   | None => oracle (((k, sc, nm), id) :: seen) old ops' os'
                   end
          end
      | Look k sc nm, Some None =>
          match lookup seen (k, sc, nm) with
          | Some _ => 104                                                         (* a name known to this run is gone *)
          | None => oracle seen old ops' os'
          end
      | _, _ => oracle seen old ops' os'
      end
  | _, _ => 0
  end.

(* Durability lower bound, needed for the last clause of the property to mean anything for data files written after a
   flush: names known when PrepareFlush swapped every store (no store was still pending) are in the recovered
   dictionaries once the following Flush has completed.  Only flushes that certainly cover the names are counted:
   a PrepareFlush is "armed" at the start, after a crash, and after a completed flush during which no PrepareFlush ran. *)
Record dur := { d_seen : list key; d_armed : bool; d_cand : list key; d_in : bool; d_taint : bool;
                d_iarmed : bool; d_icand : list key; d_durable : list key }.
Definition kmem (k : key) (l : list key) : bool := existsb (key_eqb k) l.
Definition kadd (k : key) (l : list key) : list key := if kmem k l then l else k :: l.
Definition is_series (k : key) : bool := let '(kd, _, _) := k in kind_eqb kd KSeries.
Definition dur_step (st : dur) (o : op) (ob : obs) : dur * nat :=
  let see k := {| d_seen := kadd k (d_seen st); d_armed := d_armed st; d_cand := d_cand st; d_in := d_in st; d_taint := d_taint st;
                  d_iarmed := d_iarmed st; d_icand := d_icand st; d_durable := d_durable st |} in
  match o, ob with
  | Gen k sc nm, Some (Some _) => (see (k, sc, nm), 0)
  | Look k sc nm, Some (Some _) => (see (k, sc, nm), 0)
  | Look k sc nm, Some None => (st, if kmem (k, sc, nm) (d_durable st) then 105 else 0)
  | Prepare, _ =>
      if d_in st then ({| d_seen := d_seen st; d_armed := d_armed st; d_cand := d_cand st; d_in := true; d_taint := true;
                          d_iarmed := d_iarmed st; d_icand := d_icand st; d_durable := d_durable st |}, 0)
      else if d_armed st then
        ({| d_seen := d_seen st; d_armed := false; d_cand := filter (fun k => negb (is_series k)) (d_seen st); d_in := false;
            d_taint := d_taint st; d_iarmed := d_iarmed st; d_icand := d_icand st; d_durable := d_durable st |}, 0)
      else (st, 0)
  | FSync, _ => ({| d_seen := d_seen st; d_armed := d_armed st; d_cand := d_cand st; d_in := true; d_taint := false;
                    d_iarmed := d_iarmed st; d_icand := d_icand st; d_durable := d_durable st |}, 0)
  | FStore KTagValue, _ =>
      ({| d_seen := d_seen st; d_armed := negb (d_taint st); d_cand := []; d_in := false; d_taint := false;
          d_iarmed := d_iarmed st; d_icand := d_icand st; d_durable := d_cand st ++ d_durable st |}, 0)
  | IPrepare, _ =>
      if d_iarmed st then
        ({| d_seen := d_seen st; d_armed := d_armed st; d_cand := d_cand st; d_in := d_in st; d_taint := d_taint st;
            d_iarmed := false; d_icand := filter is_series (d_seen st); d_durable := d_durable st |}, 0)
      else (st, 0)
  | IFlush, _ =>
      ({| d_seen := d_seen st; d_armed := d_armed st; d_cand := d_cand st; d_in := d_in st; d_taint := d_taint st;
          d_iarmed := true; d_icand := []; d_durable := d_icand st ++ d_durable st |}, 0)
  | Crash, _ =>
      ({| d_seen := []; d_armed := true; d_cand := []; d_in := false; d_taint := false;
          d_iarmed := true; d_icand := []; d_durable := d_durable st |}, 0)
  | _, _ => (st, 0)
  end.
Fixpoint durab (st : dur) (ops : list op) (os : list obs) : nat :=
  match ops, os with
  | o :: ops', ob :: os' => let '(st', c) := dur_step st o ob in if c =? 0 then durab st' ops' os' else c
  | _, _ => 0
  end.
Definition dur0 : dur := {| d_seen := []; d_armed := true; d_cand := []; d_in := false; d_taint := false;
                            d_iarmed := true; d_icand := []; d_durable := [] |}.

(* disc: whether the harness expects the history to be inside the flush discipline *)
Definition check_hist (disc : bool) (ops : list op) (os : list obs) : nat * nat :=
  ((if Bool.eqb (run_ok init ops) disc then cmp (results init ops) os 0 else 800),
   (let c := oracle [] [] ops os in if c =? 0 then durab dur0 ops os else c)).

(* ---- concurrent get-or-create on one dictionary: programs (names per caller), schedule of micro-steps, observed results
   (per caller, in call order) ---- *)
Fixpoint pairs_eqb (a b : list (nat * nat)) : bool :=
  match a, b with
  | [], [] => true
  | (x1, y1) :: a', (x2, y2) :: b' => (x1 =? x2) && (y1 =? y2) && pairs_eqb a' b'
  | _, _ => false
  end.
Fixpoint lists_eqb (a b : list (list (nat * nat))) : bool :=
  match a, b with [], [] => true | x :: a', y :: b' => pairs_eqb x y && lists_eqb a' b' | _, _ => false end.
Definition conc_oracle (os : list (list (nat * nat))) : nat :=
  let all := concat os in
  if forallb (fun p => forallb (fun q => Bool.eqb (fst p =? fst q) (snd p =? snd q)) all) all then 0 else 110.
Definition check_conc (progs : list (list nat)) (sched : list nat) (os : list (list (nat * nat))) : nat * nat :=
  let s0 := Conc.Build_st [] 0 (map (fun p => Conc.Build_thread p false []) progs) in
  let s := Conc.run true s0 sched in
  ((if lists_eqb (map (fun t => rev (Conc.results t)) (Conc.threads s)) os then 0 else 1), conc_oracle os).

(* ---- the same with prepare-flush / flush between the callers' steps: programs, events (caller number, number of callers =
   PrepareFlush, above = Flush), observed results per caller, what is found afterwards for every name ---- *)
From LinDBV.C09 Require Flush.
Definition fopt_eqb (a b : option nat) : bool :=
  match a, b with Some x, Some y => x =? y | None, None => true | _, _ => false end.
Definition flush_oracle (os : list (list (nat * nat))) (final : list (nat * option nat)) : nat :=
  let all := concat os in
  let found n := match List.find (fun x => fst x =? n) final with Some x => snd x | None => None end in
  if negb (forallb (fun p => forallb (fun q => Bool.eqb (fst p =? fst q) (snd p =? snd q)) all) all) then 112
  else if negb (forallb (fun p => fopt_eqb (found (fst p)) (Some (snd p))) all) then 113
  else 0.
Definition check_flush_gen (rf gc : bool) (progs : list (list nat)) (events : list nat) (os : list (list (nat * nat)))
    (final : list (nat * option nat)) : nat * nat :=
  let s := Flush.run rf gc (Flush.init progs) events in
  ((if lists_eqb (map (fun t => rev (Flush.results t)) (Flush.threads s)) os
       && forallb (fun x => fopt_eqb (Flush.lookup s (fst x)) (snd x)) final
       && forallb (fun t => match Flush.todo t with [] => true | _ => false end) (Flush.threads s) then 0 else 1),
   flush_oracle os final).
Definition check_flush := check_flush_gen true true.

(* ---- concurrent callers creating fields / tag keys of one metric: programs, schedule of micro-steps (a request is the
   read outside the lock, then the locked part), observed results per caller in call order, what is found afterwards ---- *)
From LinDBV.C09 Require Schema.
Definition sreq_eqb (a b : Schema.req) : bool := Schema.kind_eqb (fst a) (fst b) && (snd a =? snd b).
Fixpoint sres_eqb (a b : list (Schema.req * nat)) : bool :=
  match a, b with
  | [], [] => true
  | (r1, v1) :: a', (r2, v2) :: b' => sreq_eqb r1 r2 && (v1 =? v2) && sres_eqb a' b'
  | _, _ => false
  end.
Fixpoint sress_eqb (a b : list (list (Schema.req * nat))) : bool :=
  match a, b with [], [] => true | x :: a', y :: b' => sres_eqb x y && sress_eqb a' b' | _, _ => false end.
Definition sopt_eqb (a b : option nat) : bool :=
  match a, b with Some x, Some y => x =? y | None, None => true | _, _ => false end.
(* oracle, observations only: what a caller was given is what is found afterwards; one name one id; different names of a
   kind different ids *)
Definition schema_oracle (os : list (list (Schema.req * nat))) (final : list (Schema.req * option nat)) : nat :=
  let all := concat os in
  let found r := match find (fun x => sreq_eqb (fst x) r) final with Some x => snd x | None => None end in
  if negb (forallb (fun p => sopt_eqb (found (fst p)) (Some (snd p))) all) then 111
  else if negb (forallb (fun p => forallb (fun q =>
            negb (Schema.kind_eqb (fst (fst p)) (fst (fst q))) || Bool.eqb (snd (fst p) =? snd (fst q)) (snd p =? snd q)) all) all) then 112
  else 0.
Definition check_schema (progs : list (list Schema.req)) (sched : list nat) (os : list (list (Schema.req * nat)))
           (final : list (Schema.req * option nat)) : nat * nat :=
  let s := Schema.run true (Schema.init progs) sched in
  ((if sress_eqb (map (fun t => rev (Schema.results t)) (Schema.threads s)) os &&
       forallb (fun x => sopt_eqb (Schema.lookup s (fst x)) (snd x)) final then 0 else 1),
   schema_oracle os final).

(* ---- callers creating fields / tag keys of one metric (or reading its schema) with PrepareFlush and the two halves of
   Flush between their steps ---- *)
From LinDBV.C09 Require SchemaFlush.
Definition check_schema_flush_gen (f1 f2 f3 f4 : bool) (progs : list (list SchemaFlush.sreq)) (events : list nat)
    (os : list (list (Schema.req * nat))) (final : list (Schema.req * option nat)) : nat * nat :=
  let s := SchemaFlush.run f1 f2 f3 f4 (SchemaFlush.init progs) events in
  ((if sress_eqb (map (fun t => rev (SchemaFlush.results t)) (SchemaFlush.threads s)) os
       && forallb (fun x => sopt_eqb (SchemaFlush.lookup s (fst x)) (snd x)) final
       && forallb (fun t => match SchemaFlush.todo t with [] => true | _ => false end) (SchemaFlush.threads s) then 0 else 1),
   schema_oracle os final).
Definition check_schema_flush := check_schema_flush_gen true true true true.

(* ---- field ids of one metric: the answers to a history of field creations (Some id / None = too many fields; None for a
   Reopen) against the model; oracle on the answers alone: two different names never got the same id, one name never two ---- *)
From LinDBV.C09 Require Fields.
Definition ores_eqb (a b : option nat) : bool :=
  match a, b with Some x, Some y => x =? y | None, None => true | _, _ => false end.
Fixpoint oress_eqb (a b : list (option nat)) : bool :=
  match a, b with [], [] => true | x :: a', y :: b' => ores_eqb x y && oress_eqb a' b' | _, _ => false end.
Fixpoint given (ops : list Fields.fop) (obs : list (option nat)) : list (nat * nat) :=
  match ops, obs with
  | Fields.GenField nm :: ops', Some i :: obs' => (nm, i) :: given ops' obs'
  | _ :: ops', _ :: obs' => given ops' obs'
  | _, _ => []
  end.
Definition one_to_one_pairs (l : list (nat * nat)) : bool :=
  forallb (fun p => forallb (fun q => Bool.eqb (fst p =? fst q) (snd p =? snd q)) l) l.
Definition check_fields (limit : nat) (ops : list Fields.fop) (obs : list (option nat)) : nat * nat :=
  (if oress_eqb (Fields.fresults limit true [] ops) obs then 0 else 1,
   if one_to_one_pairs (given ops obs) then 0 else 1).
