From Coq Require Import List Arith Lia Bool.
Import ListNotations.

(* names and ids are nats; dictionary is an association list (newest first) *)
Definition dict := list (nat * nat).
Fixpoint find (d : dict) (n : nat) : option nat :=
  match d with [] => None | (k, v) :: d' => if Nat.eqb k n then Some v else find d' n end.

(* per-thread local state: remaining requests, and whether the lookup step of the
   current request has already been done (and missed) *)
Record thread := { todo : list nat; missed : bool; results : list (nat * nat) }.
Record st := { d : dict; next : nat; threads : list thread }.

(* fixed code: create re-checks under the lock *)
Definition step_thread (recheck : bool) (dd : dict) (nx : nat) (t : thread) : dict * nat * thread :=
  match todo t with
  | [] => (dd, nx, t)
  | n :: rest =>
    if missed t then
      (* createValue under the write lock *)
      match (if recheck then find dd n else None) with
      | Some v => (dd, nx, {| todo := rest; missed := false; results := (n, v) :: results t |})
      | None => ((n, nx) :: dd, S nx, {| todo := rest; missed := false; results := (n, nx) :: results t |})
      end
    else
      (* lookup under the read lock *)
      match find dd n with
      | Some v => (dd, nx, {| todo := rest; missed := false; results := (n, v) :: results t |})
      | None => (dd, nx, {| todo := todo t; missed := true; results := results t |})
      end
  end.

Fixpoint upd {A} (l : list A) (i : nat) (x : A) : list A :=
  match l, i with
  | [], _ => []
  | _ :: l', 0 => x :: l'
  | y :: l', S i' => y :: upd l' i' x
  end.

Definition step (recheck : bool) (s : st) (i : nat) : st :=
  match nth_error (threads s) i with
  | None => s
  | Some t => let '(dd, nx, t') := step_thread recheck (d s) (next s) t in
              {| d := dd; next := nx; threads := upd (threads s) i t' |}
  end.

Definition run (recheck : bool) (s : st) (sched : list nat) : st := fold_left (step recheck) sched s.

Definition Inv (s : st) : Prop :=
  (forall n v, find (d s) n = Some v -> v < next s) /\
  (forall n1 n2 v, find (d s) n1 = Some v -> find (d s) n2 = Some v -> n1 = n2) /\
  (forall t n v, In t (threads s) -> In (n, v) (results t) -> find (d s) n = Some v).

