From Coq Require Import List Arith Lia Bool.
Import ListNotations.
From LinDBV.C09 Require Import Conc.

(* names and ids are nats; dictionary is an association list (newest first) *)
(* ---- invariant ---- *)
Lemma find_cons_ne dd k v n : k <> n -> find ((k, v) :: dd) n = find dd n.
Proof. intros H. simpl. destruct (Nat.eqb_spec k n); congruence. Qed.
Lemma find_cons_eq dd k v : find ((k, v) :: dd) k = Some v.
Proof. simpl. rewrite Nat.eqb_refl. reflexivity. Qed.

Lemma In_upd {A} (l : list A) i x y : In y (upd l i x) -> y = x \/ In y l.
Proof. revert i; induction l as [|a l IH]; intros [|i] H; simpl in *; try tauto.
  - destruct H; auto. - destruct H; auto. destruct (IH _ H); auto. Qed.

Lemma nth_error_In' {A} (l : list A) i x : nth_error l i = Some x -> In x l.
Proof. apply nth_error_In. Qed.

Lemma step_inv s i : Inv s -> Inv (step true s i).
Proof.
  intros (Hlt & Hinj & Hres). unfold step.
  destruct (nth_error (threads s) i) as [t|] eqn:Hn; [| repeat split; auto].
  pose proof (nth_error_In' _ _ _ Hn) as Hin.
  unfold step_thread. destruct (todo t) as [|n rest] eqn:Htodo.
  { (* no-op *) repeat split; simpl; auto. intros t0 n0 v0 Ht0 Hr.
    apply In_upd in Ht0 as [->|Ht0]; eauto. }
  destruct (missed t) eqn:Hm.
  - (* create with re-check *)
    destruct (find (d s) n) as [v|] eqn:Hf.
    + repeat split; simpl; auto. intros t0 n0 v0 Ht0 Hr.
      apply In_upd in Ht0 as [->|Ht0]; eauto. simpl in Hr. destruct Hr as [Hr|Hr]; [inversion Hr; subst; auto | eauto].
    + repeat split; simpl.
      * intros n0 v0. destruct (Nat.eqb_spec n n0); intros H0; [inversion H0; lia | apply Hlt in H0; lia].
      * intros n1 n2 v0. destruct (Nat.eqb_spec n n1), (Nat.eqb_spec n n2); intros H1 H2; subst; auto.
        -- inversion H1; subst. apply Hlt in H2. lia.
        -- inversion H2; subst. apply Hlt in H1. lia.
        -- eauto.
      * intros t0 n0 v0 Ht0 Hr.
        assert (Hold : forall n' v', find (d s) n' = Some v' -> (if Nat.eqb n n' then Some (next s) else find (d s) n') = Some v').
        { intros n' v' H'. destruct (Nat.eqb_spec n n'); [subst; congruence | exact H']. }
        apply In_upd in Ht0 as [->|Ht0].
        -- simpl in Hr. destruct Hr as [Hr|Hr]; [inversion Hr; subst; rewrite Nat.eqb_refl; reflexivity | apply Hold; eauto].
        -- apply Hold; eauto.
  - (* lookup *)
    destruct (find (d s) n) as [v|] eqn:Hf.
    + repeat split; simpl; auto. intros t0 n0 v0 Ht0 Hr.
      apply In_upd in Ht0 as [->|Ht0]; eauto. simpl in Hr. destruct Hr as [Hr|Hr]; [inversion Hr; subst; auto | eauto].
    + repeat split; simpl; auto. intros t0 n0 v0 Ht0 Hr.
      apply In_upd in Ht0 as [->|Ht0]; eauto.
Qed.

Theorem run_inv s sched : Inv s -> Inv (run true s sched).
Proof. revert s; induction sched as [|i sched IH]; intros s H; simpl; auto. apply IH, step_inv, H. Qed.

(* the property: in every reachable state, over every schedule, all callers agree
   on the id of a name and different names have different ids *)
Theorem stable_injective (progs : list (list nat)) sched :
  let s0 := {| d := []; next := 0; threads := map (fun p => {| todo := p; missed := false; results := [] |}) progs |} in
  let s := run true s0 sched in
  forall t1 t2 n1 n2 v1 v2, In t1 (threads s) -> In t2 (threads s) ->
    In (n1, v1) (results t1) -> In (n2, v2) (results t2) -> (n1 = n2 <-> v1 = v2).
Proof.
  intros s0 s t1 t2 n1 n2 v1 v2 H1 H2 R1 R2.
  assert (HI : Inv s).
  { apply run_inv. repeat split; simpl; try discriminate.
    intros t n v Ht Hr. apply in_map_iff in Ht as (p & <- & _). simpl in Hr. contradiction. }
  destruct HI as (_ & Hinj & Hres).
  pose proof (Hres _ _ _ H1 R1) as F1. pose proof (Hres _ _ _ H2 R2) as F2.
  split; intros E; subst. - congruence. - eapply Hinj; eauto.
Qed.
Example race_witness :
  let s0 := {| d := []; next := 0; threads := [ {| todo := [7]; missed := false; results := [] |};
                                                 {| todo := [7]; missed := false; results := [] |} ] |} in
  let s := run false s0 [0; 1; 0; 1] in
  map results (threads s) = [[(7, 0)]; [(7, 1)]].
Proof. vm_compute. reflexivity. Qed.

