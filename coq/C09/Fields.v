(* C09 — field ids of one metric (index/metric_schema_store.go genFieldID): a field id is the position of the field in the
   metric's schema, stored in one byte; a new field is refused when the schema holds 255 fields, or more than the
   database's configured limit (0 = no limit).  The schema is written whole by a flush and read back whole, so flush,
   reopen and crash leave the list as it is (Reopen below; the harness places real flushes, reopens and crashes there).
   Model, proofs and the slip. *)
From Coq Require Import List Arith Bool Lia.
Import ListNotations.

Definition byte_of (n : nat) : nat := n mod 256.     (* field.ID is a uint8 *)

Fixpoint index_of (nm : nat) (l : list nat) : option nat :=
  match l with [] => None | x :: r => if x =? nm then Some 0 else option_map S (index_of nm r) end.

Inductive fop := GenField (nm : nat) | Reopen.

Section Fields.
  Variable limit : nat.          (* MaxFieldsPerMetric *)
  Variable hard_cap : bool.      (* the slip: the configured limit replaces the built-in cap *)

  Definition refuse (n : nat) : bool := (hard_cap && (255 <=? n)) || ((0 <? limit) && (limit <? n)).

  (* schema (field names in id order) and what the caller sees: Some id, or None = too many fields *)
  Definition fstep (l : list nat) (o : fop) : list nat * option nat :=
    match o with
    | Reopen => (l, None)
    | GenField nm =>
      match index_of nm l with
      | Some i => (l, Some (byte_of i))
      | None => if refuse (length l) then (l, None) else (l ++ [nm], Some (byte_of (length l)))
      end
    end.
  Fixpoint fresults (l : list nat) (ops : list fop) : list (option nat) :=
    match ops with [] => [] | o :: r => snd (fstep l o) :: fresults (fst (fstep l o)) r end.
  Definition frun (ops : list fop) : list nat := fold_left (fun l o => fst (fstep l o)) ops [].
  (* the id a name has in a schema *)
  Definition fid (l : list nat) (nm : nat) : option nat := option_map byte_of (index_of nm l).
End Fields.

Lemma index_of_lt nm l i : index_of nm l = Some i -> i < length l.
Proof.
  revert i. induction l as [|x r IH]; cbn; intros i H; [discriminate|].
  destruct (x =? nm); [inversion H; lia|].
  destruct (index_of nm r) as [j|]; [|discriminate]. inversion H. specialize (IH j eq_refl). lia.
Qed.
Lemma index_of_inj n1 n2 l : forall i, index_of n1 l = Some i -> index_of n2 l = Some i -> n1 = n2.
Proof.
  induction l as [|x r IH]; cbn [index_of]; intros i H1 H2; [discriminate|].
  destruct (Nat.eqb_spec x n1) as [E1|E1]; destruct (Nat.eqb_spec x n2) as [E2|E2].
  - congruence.
  - destruct (index_of n2 r) as [b|]; cbn in H2; [|discriminate]. inversion H1. inversion H2. lia.
  - destruct (index_of n1 r) as [a|]; cbn in H1; [|discriminate]. inversion H1. inversion H2. lia.
  - destruct (index_of n1 r) as [a|] eqn:A; cbn in H1; [|discriminate].
    destruct (index_of n2 r) as [b|] eqn:B; cbn in H2; [|discriminate].
    inversion H1. inversion H2. apply (IH a); [reflexivity|]. f_equal. lia.
Qed.
Lemma index_of_app_some nm l l' i : index_of nm l = Some i -> index_of nm (l ++ l') = Some i.
Proof.
  revert i. induction l as [|x r IH]; cbn; intros i H; [discriminate|].
  destruct (x =? nm); [exact H|]. destruct (index_of nm r) as [j|]; [|discriminate]. rewrite (IH j eq_refl). exact H.
Qed.

Lemma frun_short limit ops : length (frun limit true ops) <= 255.
Proof.
  unfold frun. assert (G : forall l, length l <= 255 -> length (fold_left (fun l o => fst (fstep limit true l o)) ops l) <= 255).
  { induction ops as [|o r IH]; intros l H; [exact H|]. cbn [fold_left]. apply IH.
    destruct o as [nm|]; cbn [fstep fst]; [|exact H]. destruct (index_of nm l); cbn [fst]; [exact H|].
    unfold refuse. cbn [andb]. destruct (Nat.leb_spec 255 (length l)); cbn [orb fst]; [exact H|].
    destruct ((0 <? limit) && (limit <? length l)); cbn [fst]; [exact H|]. rewrite app_length. cbn. lia. }
  apply G. cbn. lia.
Qed.

(* with the built-in cap, for every history and every configured limit: two field names of the metric never share an id,
   and the id of a name never changes once given (later operations only append) *)
Theorem field_ids_injective : forall limit ops n1 n2 i,
  let l := frun limit true ops in
  fid l n1 = Some i -> fid l n2 = Some i -> n1 = n2.
Proof.
  intros limit ops n1 n2 i l H1 H2. pose proof (frun_short limit ops) as Hs. fold l in Hs. unfold fid in *.
  destruct (index_of n1 l) as [a|] eqn:A; [|discriminate]. destruct (index_of n2 l) as [b|] eqn:B; [|discriminate].
  unfold option_map in H1, H2. injection H1 as E1. injection H2 as E2.
  pose proof (index_of_lt _ _ _ A). pose proof (index_of_lt _ _ _ B).
  assert (Ea : byte_of a = a) by (unfold byte_of; apply Nat.mod_small; lia).
  assert (Eb : byte_of b = b) by (unfold byte_of; apply Nat.mod_small; lia).
  apply (index_of_inj n1 n2 l a); [exact A|]. rewrite B. f_equal. lia.
Qed.
Theorem field_ids_stable : forall limit hc l o nm i,
  fid l nm = Some i -> fid (fst (fstep limit hc l o)) nm = Some i.
Proof.
  intros limit hc l o nm i H. destruct o as [n|]; cbn [fstep fst]; [|exact H].
  destruct (index_of n l); cbn [fst]; [exact H|]. destruct (refuse limit hc (length l)); cbn [fst]; [exact H|].
  unfold fid in *. destruct (index_of nm l) as [a|] eqn:A; [|discriminate]. rewrite (index_of_app_some _ _ _ _ A). exact H.
Qed.

(* the configured limit in place of the cap (default limit 256): the 257th field gets the id of the first *)
Definition gens (n : nat) : list fop := map GenField (seq 0 n).
Theorem limit_instead_of_cap_refuted :
  let l := frun 256 false (gens 257) in fid l 0 = Some 0 /\ fid l 256 = Some 0.
Proof. vm_compute. split; reflexivity. Qed.
Example code_as_it_is_on_that_history :
  let l := frun 256 true (gens 257) in length l = 255 /\ fid l 254 = Some 254 /\ fid l 255 = None /\ fid l 256 = None.
Proof. vm_compute. repeat split; reflexivity. Qed.
