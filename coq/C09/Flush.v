(* C09 — one bucket of the index kv store (index/kv_store.go) under concurrent get-or-create callers AND
   prepare-flush / flush placed anywhere between their steps.

   A caller (getOrCreateValue): takes the store's snapshot, looks the key up in the memory stores (mutable, immutable),
   then in the cached bucket or - when nothing is cached - in the bucket it reads from the files of that snapshot, which
   it then puts into the cache; a key found nowhere is created under the write lock (createValue), after the memory
   stores were looked up once more.
   PrepareFlush swaps mutable into immutable; Flush writes immutable to a new file and, under the lock, drops it, takes
   the new snapshot and purges the cache.

   Two switches describe the code before its repair:
   [recheck_files = false]: createValue never looks into the files again - a key another caller created AND a complete
       flush moved to the files between this caller's lookup and its createValue gets a second id;
   [guard_cache = false]: the bucket read from an old snapshot is put into the cache even when a flush has purged the
       cache meanwhile - every later caller misses the keys of that flush and gives them second ids.
   With both switches on (the repaired code) the model carries the proofs in FlushProofs.v.

   Scheduling: an event is either "caller i runs up to its next scheduling point" or PrepareFlush or Flush; the
   scheduling points of a caller are: before the bucket it read from the files is cached, before createValue. *)
From Coq Require Import List Arith Lia Bool.
Import ListNotations.

Definition dict := list (nat * nat).
Fixpoint find (d : dict) (n : nat) : option nat :=
  match d with [] => None | (k, v) :: d' => if Nat.eqb k n then Some v else find d' n end.

Inductive phase :=
| Idle                                   (* between two requests *)
| HaveBucket (snap : nat) (b : dict)     (* read bucket [b] from the files of snapshot number [snap], not yet cached *)
| Missed (snap : nat).                   (* found nowhere, about to call createValue *)

Record thread := { todo : list nat; ph : phase; results : list (nat * nat) }.
Record st := { mut : dict; imm : option dict; files : dict; cache : option dict; flushes : nat; next : nat;
               threads : list thread }.

Definition mem_find (mu : dict) (im : option dict) (n : nat) : option nat :=
  match find mu n with
  | Some v => Some v
  | None => match im with Some d => find d n | None => None end
  end.

Definition done (t : thread) (n v : nat) (rest : list nat) : thread :=
  {| todo := rest; ph := Idle; results := (n, v) :: results t |}.
Definition goto (t : thread) (p : phase) : thread := {| todo := todo t; ph := p; results := results t |}.

Section Code.
Variables recheck_files guard_cache : bool.

(* one caller runs up to its next scheduling point; returns the shared parts it may change (mutable, cache, next) *)
Definition step_thread (s : st) (t : thread) : dict * option dict * nat * thread :=
  match todo t with
  | [] => (mut s, cache s, next s, t)
  | n :: rest =>
    match ph t with
    | Idle =>
      match mem_find (mut s) (imm s) n with
      | Some v => (mut s, cache s, next s, done t n v rest)
      | None =>
        match cache s with
        | Some c => match find c n with
                    | Some v => (mut s, cache s, next s, done t n v rest)
                    | None => (mut s, cache s, next s, goto t (Missed (flushes s)))
                    end
        | None => match files s with
                  | [] => (mut s, cache s, next s, goto t (Missed (flushes s)))      (* no bucket in the files *)
                  | _ => (mut s, cache s, next s, goto t (HaveBucket (flushes s) (files s)))
                  end
        end
      end
    | HaveBucket snap b =>
      let c' := if guard_cache then (if Nat.eqb (flushes s) snap then Some b else cache s) else Some b in
      match find b n with
      | Some v => (mut s, c', next s, done t n v rest)
      | None => (mut s, c', next s, goto t (Missed snap))
      end
    | Missed snap =>
      match mem_find (mut s) (imm s) n with
      | Some v => (mut s, cache s, next s, done t n v rest)
      | None =>
        match (if recheck_files && negb (Nat.eqb (flushes s) snap) then find (files s) n else None) with
        | Some v => (mut s, cache s, next s, done t n v rest)
        | None => ((n, next s) :: mut s, cache s, S (next s), done t n (next s) rest)
        end
      end
    end
  end.

Fixpoint upd {A} (l : list A) (i : nat) (x : A) : list A :=
  match l, i with
  | [], _ => []
  | _ :: l', O => x :: l'
  | y :: l', S i' => y :: upd l' i' x
  end.

Definition prepare_flush (s : st) : st :=
  match imm s with
  | None => {| mut := []; imm := Some (mut s); files := files s; cache := cache s; flushes := flushes s; next := next s;
               threads := threads s |}
  | Some _ => s
  end.

(* a complete Flush: an empty immutable part is released without writing anything *)
Definition flush (s : st) : st :=
  match imm s with
  | None => s
  | Some [] => {| mut := mut s; imm := None; files := files s; cache := cache s; flushes := flushes s; next := next s;
                  threads := threads s |}
  | Some d => {| mut := mut s; imm := None; files := d ++ files s; cache := None; flushes := S (flushes s);
                 next := next s; threads := threads s |}
  end.

(* event i: caller i for i < number of callers, PrepareFlush for i = number of callers, Flush above *)
Definition step (s : st) (i : nat) : st :=
  match nth_error (threads s) i with
  | Some t => let '(mu, c, nx, t') := step_thread s t in
              {| mut := mu; imm := imm s; files := files s; cache := c; flushes := flushes s; next := nx;
                 threads := upd (threads s) i t' |}
  | None => if Nat.eqb i (length (threads s)) then prepare_flush s else flush s
  end.

Definition run (s : st) (sched : list nat) : st := fold_left step sched s.
End Code.

Definition init (progs : list (list nat)) : st :=
  {| mut := []; imm := None; files := []; cache := None; flushes := 0; next := 0;
     threads := map (fun p => {| todo := p; ph := Idle; results := [] |}) progs |}.

(* what a later lookup finds *)
Definition lookup (s : st) (n : nat) : option nat :=
  match mem_find (mut s) (imm s) n with Some v => Some v | None => find (files s) n end.
