(* C09 — proofs about the kv-store bucket with flushes (Flush.v): with the files looked up again after a flush and the
   cache guarded by the snapshot, every schedule of callers, PrepareFlush and Flush gives one name one id, different
   names different ids, and what a caller was given is what is found afterwards; without either of the two, a schedule
   gives one name two ids. *)
From Coq Require Import List Arith Lia Bool.
Import ListNotations.
From LinDBV.C09 Require Import Flush.

Definition imm_l (im : option dict) : dict := match im with Some d => d | None => [] end.
Definition all_of (mu : dict) (im : option dict) (fl : dict) : dict := mu ++ imm_l im ++ fl.
Definition all (s : st) : dict := all_of (mut s) (imm s) (files s).

Lemma find_some_in d n v : find d n = Some v -> In (n, v) d.
Proof.
  induction d as [|[k w] d IH]; cbn; [discriminate|].
  destruct (Nat.eqb_spec k n) as [E|E]; intros H.
  - inversion H. subst. left. reflexivity.
  - right. auto.
Qed.
Lemma find_none_notin d n v : find d n = None -> ~ In (n, v) d.
Proof.
  induction d as [|[k w] d IH]; cbn; [tauto|].
  destruct (Nat.eqb_spec k n) as [E|E]; [discriminate|].
  intros H [H1|H1]; [inversion H1; congruence|exact (IH H H1)].
Qed.
Lemma in_find d n v : In (n, v) d -> exists w, find d n = Some w.
Proof.
  destruct (find d n) as [w|] eqn:E; [eauto|]. intros H. exfalso. exact (find_none_notin _ _ _ E H).
Qed.

Lemma mem_find_some mu im n v : mem_find mu im n = Some v -> In (n, v) (mu ++ imm_l im).
Proof.
  unfold mem_find. destruct (find mu n) as [w|] eqn:E.
  - intros H. inversion H. subst. apply in_or_app. left. apply find_some_in. exact E.
  - destruct im as [d|]; [|discriminate]. intros H. apply in_or_app. right. apply find_some_in. exact H.
Qed.
Lemma mem_find_none mu im n v : mem_find mu im n = None -> ~ In (n, v) (mu ++ imm_l im).
Proof.
  unfold mem_find. destruct (find mu n) as [w|] eqn:E; [discriminate|].
  intros H Hin. apply in_app_or in Hin. destruct Hin as [Hin|Hin].
  - exact (find_none_notin _ _ _ E Hin).
  - destruct im as [d|]; [|exact Hin]. exact (find_none_notin _ _ _ H Hin).
Qed.

(* one name one id, one id one name *)
Definition keyfun (al : dict) : Prop :=
  forall n1 v1 n2 v2, In (n1, v1) al -> In (n2, v2) al -> (n1 = n2 <-> v1 = v2).
Definition bounded (al : dict) (nx : nat) : Prop := forall n v, In (n, v) al -> v < nx.

Definition pinv (fl : dict) (fs : nat) (t : thread) : Prop :=
  match ph t with
  | Idle => True
  | HaveBucket snap b => snap <= fs /\ (forall p, In p b -> In p fl) /\ (snap = fs -> b = fl)
  | Missed snap => snap <= fs /\ (snap = fs -> forall n rest, todo t = n :: rest -> find fl n = None)
  end.
Definition tinv (al fl : dict) (fs : nat) (t : thread) : Prop :=
  (forall n v, In (n, v) (results t) -> In (n, v) al) /\ pinv fl fs t.

Definition Inv (s : st) : Prop :=
  keyfun (all s) /\ bounded (all s) (next s) /\
  (forall c, cache s = Some c -> c = files s) /\
  Forall (tinv (all s) (files s) (flushes s)) (threads s).

Lemma tinv_mono al al' fl fs t : (forall p, In p al -> In p al') -> tinv al fl fs t -> tinv al' fl fs t.
Proof. intros Hi [R P]. split; [|exact P]. intros n v H. apply Hi. exact (R n v H). Qed.

Lemma Forall_upd {A} (P : A -> Prop) l i x : Forall P l -> P x -> Forall P (upd l i x).
Proof.
  revert i. induction l as [|y l IH]; intros i Hl Hx; [destruct i; constructor|].
  inversion Hl as [|? ? Hy Hl']. subst. destruct i; cbn; constructor; auto.
Qed.

Lemma all_cons n w mu im fl : all_of ((n, w) :: mu) im fl = (n, w) :: all_of mu im fl.
Proof. reflexivity. Qed.

Lemma in_all_split mu im fl p : In p (all_of mu im fl) <-> In p (mu ++ imm_l im) \/ In p fl.
Proof.
  unfold all_of. rewrite app_assoc. split; intros H.
  - apply in_app_or in H. exact H.
  - apply in_or_app. exact H.
Qed.

(* a fresh key with a fresh id keeps the dictionary a one-to-one function *)
Lemma keyfun_cons al n nx :
  keyfun al -> bounded al nx -> (forall v, ~ In (n, v) al) ->
  keyfun ((n, nx) :: al) /\ bounded ((n, nx) :: al) (S nx).
Proof.
  intros K B F. split.
  - intros n1 v1 n2 v2 [H1|H1] [H2|H2].
    + inversion H1. inversion H2. subst. tauto.
    + inversion H1. subst. split; intros E.
      * subst. exfalso. exact (F _ H2).
      * subst. specialize (B _ _ H2). lia.
    + inversion H2. subst. split; intros E.
      * subst. exfalso. exact (F _ H1).
      * subst. specialize (B _ _ H1). lia.
    + exact (K _ _ _ _ H1 H2).
  - intros m v [H|H]; [inversion H; lia|]. specialize (B _ _ H). lia.
Qed.

Ltac pack K B := split; [exact K|split; [exact B|split; [|split; [|split]]]].

(* ---- one caller's step ---- *)
Lemma step_thread_inv s t :
  Inv s -> In t (threads s) ->
  let '(mu, c, nx, t') := step_thread true true s t in
  keyfun (all_of mu (imm s) (files s)) /\ bounded (all_of mu (imm s) (files s)) nx /\
  (forall c0, c = Some c0 -> c0 = files s) /\
  (forall p, In p (all s) -> In p (all_of mu (imm s) (files s))) /\
  tinv (all_of mu (imm s) (files s)) (files s) (flushes s) t'.
Proof.
  intros [K [B [C T]]] Hin.
  assert (Ht : tinv (all s) (files s) (flushes s) t) by (rewrite Forall_forall in T; exact (T _ Hin)).
  destruct Ht as [R P].
  unfold step_thread.
  destruct (todo t) as [|n rest] eqn:Etodo.
  { split; [exact K|]. split; [exact B|]. split; [exact C|]. split; [auto|]. split; [exact R|exact P]. }
  unfold pinv in P.
  assert (Sub0 : forall p, In p (all s) -> In p (all_of (mut s) (imm s) (files s))) by (intros p Hp; exact Hp).
  destruct (ph t) as [|snap b|snap] eqn:Eph.
  - (* Idle *)
    destruct (mem_find (mut s) (imm s) n) as [v|] eqn:Em.
    + pack K B; [exact C|exact Sub0| |exact I].
      intros m w [H|H]; [|exact (R _ _ H)]. inversion H. subst.
      apply in_all_split. left. exact (mem_find_some _ _ _ _ Em).
    + destruct (cache s) as [c|] eqn:Ec.
      * assert (Hc := C c eq_refl). subst c.
        destruct (find (files s) n) as [v|] eqn:Ef.
        -- pack K B; [intros c0 H0; inversion H0; reflexivity|exact Sub0| |exact I].
           intros m w [H|H]; [|exact (R _ _ H)]. inversion H. subst.
           apply in_all_split. right. exact (find_some_in _ _ _ Ef).
        -- pack K B; [intros c0 H0; inversion H0; reflexivity|exact Sub0|exact R|].
           unfold pinv; cbn. split; [lia|].
           intros _ n0 rest0 E0. rewrite Etodo in E0. inversion E0. subst. exact Ef.
      * unfold all in *. destruct (files s) as [|f0 fl] eqn:Efl.
        -- pack K B; [intros c0 H0; discriminate|exact Sub0|exact R|].
           unfold pinv; cbn. split; [lia|]. intros _ n0 rest0 E0. reflexivity.
        -- pack K B; [intros c0 H0; discriminate|exact Sub0|exact R|].
           unfold pinv; cbn. split; [lia|]. split; [intros p Hp; exact Hp|reflexivity].
  - (* HaveBucket *)
    destruct P as [Hle [Hsub Heq]].
    assert (Hc : forall c0, (if Nat.eqb (flushes s) snap then Some b else cache s) = Some c0 -> c0 = files s).
    { intros c0. destruct (Nat.eqb_spec (flushes s) snap) as [E|E].
      - intros H. inversion H. subst c0. apply Heq. auto.
      - apply C. }
    destruct (find b n) as [v|] eqn:Ef.
    + pack K B; [exact Hc|exact Sub0| |exact I].
      intros m w [H|H]; [|exact (R _ _ H)]. inversion H. subst.
      apply in_all_split. right. apply Hsub. exact (find_some_in _ _ _ Ef).
    + pack K B; [exact Hc|exact Sub0|exact R|].
      unfold pinv; cbn. split; [exact Hle|].
      intros E n0 rest0 E0. rewrite Etodo in E0. inversion E0 as [[En0 Er0]].
      rewrite <- (Heq E). rewrite <- En0. exact Ef.
  - (* Missed *)
    destruct P as [Hle Hmiss].
    destruct (mem_find (mut s) (imm s) n) as [v|] eqn:Em.
    + pack K B; [exact C|exact Sub0| |exact I].
      intros m w [H|H]; [|exact (R _ _ H)]. inversion H. subst.
      apply in_all_split. left. exact (mem_find_some _ _ _ _ Em).
    + cbn [andb].
      assert (Hfiles : (if negb (Nat.eqb (flushes s) snap) then find (files s) n else None) = None ->
                       find (files s) n = None).
      { destruct (Nat.eqb_spec (flushes s) snap) as [E|E]; cbn.
        - intros _. apply (Hmiss (eq_sym E) n rest). exact Etodo.
        - auto. }
      destruct (if negb (Nat.eqb (flushes s) snap) then find (files s) n else None) as [v|] eqn:Ef.
      * assert (Ef' : find (files s) n = Some v).
        { destruct (negb (Nat.eqb (flushes s) snap)); [exact Ef|discriminate]. }
        pack K B; [exact C|exact Sub0| |exact I].
        intros m w [H|H]; [|exact (R _ _ H)]. inversion H. subst.
        apply in_all_split. right. exact (find_some_in _ _ _ Ef').
      * specialize (Hfiles eq_refl).
        assert (Fresh : forall v, ~ In (n, v) (all s)).
        { intros v H. apply in_all_split in H. destruct H as [H|H].
          - exact (mem_find_none _ _ _ v Em H).
          - exact (find_none_notin _ _ _ Hfiles H). }
        destruct (keyfun_cons (all s) n (next s) K B Fresh) as [K' B'].
        rewrite all_cons. fold (all s).
        pack K' B'; [exact C|intros p H; right; exact H| |exact I].
        intros m w [H|H]; [inversion H; left; reflexivity|right; exact (R _ _ H)].
Qed.

Lemma prepare_flush_all s : forall p, In p (all (prepare_flush s)) <-> In p (all s).
Proof.
  intros p. unfold prepare_flush. destruct (imm s) as [d|] eqn:E; [tauto|].
  unfold all, all_of; cbn. rewrite E. cbn. tauto.
Qed.

Lemma keyfun_equiv al al' : (forall p, In p al' <-> In p al) -> keyfun al -> keyfun al'.
Proof. intros H K n1 v1 n2 v2 H1 H2. apply K; apply H; assumption. Qed.
Lemma bounded_equiv al al' nx : (forall p, In p al' <-> In p al) -> bounded al nx -> bounded al' nx.
Proof. intros H B n v Hin. apply (B n v). apply H. exact Hin. Qed.

Lemma step_inv s i : Inv s -> Inv (step true true s i).
Proof.
  intros HI. unfold step.
  destruct (nth_error (threads s) i) as [t|] eqn:En.
  - assert (Hin : In t (threads s)) by (eapply nth_error_In; exact En).
    generalize (step_thread_inv s t HI Hin).
    destruct (step_thread true true s t) as [[[mu c] nx] t'].
    intros [K [B [C [Sub Tt]]]].
    destruct HI as [_ [_ [_ T]]].
    unfold Inv, all; cbn. split; [exact K|]. split; [exact B|]. split; [exact C|].
    apply Forall_upd; [|exact Tt].
    rewrite Forall_forall in *. intros x Hx. eapply tinv_mono; [exact Sub|]. exact (T x Hx).
  - destruct HI as [K [B [C T]]].
    destruct (Nat.eqb i (length (threads s))).
    + (* PrepareFlush *)
      assert (Eq := prepare_flush_all s).
      unfold Inv. split; [exact (keyfun_equiv _ _ Eq K)|].
      assert (Hs : files (prepare_flush s) = files s /\ flushes (prepare_flush s) = flushes s /\
                   next (prepare_flush s) = next s /\ cache (prepare_flush s) = cache s /\
                   threads (prepare_flush s) = threads s).
      { unfold prepare_flush. destruct (imm s); cbn; auto. }
      destruct Hs as [E1 [E2 [E3 [E4 E5]]]]. rewrite E1, E2, E3, E4, E5.
      split; [exact (bounded_equiv _ _ _ Eq B)|]. split; [exact C|].
      rewrite Forall_forall in *. intros x Hx. eapply tinv_mono; [|exact (T x Hx)].
      intros p Hp. apply Eq. exact Hp.
    + (* Flush *)
      unfold flush. destruct (imm s) as [d|] eqn:Ei; [|exact (conj K (conj B (conj C T)))].
      destruct d as [|e d].
      * unfold Inv, all, all_of in *; cbn. rewrite Ei in *. cbn in *. auto.
      * assert (Eq : forall p, In p (all_of (mut s) None ((e :: d) ++ files s)) <-> In p (all s)).
        { intros p. unfold all, all_of. rewrite Ei. cbn [imm_l]. rewrite app_nil_l. tauto. }
        unfold Inv, all; cbn [mut imm files cache flushes next threads].
        split; [exact (keyfun_equiv _ _ Eq K)|]. split; [exact (bounded_equiv _ _ _ Eq B)|].
        split; [discriminate|].
        rewrite Forall_forall in *. intros x Hx. destruct (T x Hx) as [R P]. split.
        -- intros n v H. apply Eq. exact (R n v H).
        -- unfold pinv in *. destruct (ph x) as [|snap b|snap].
           ++ exact I.
           ++ destruct P as [Hle [Hsub _]]. split; [lia|]. split; [|lia].
              intros p Hp. apply in_or_app. right. exact (Hsub p Hp).
           ++ destruct P as [Hle _]. split; [lia|lia].
Qed.

Lemma run_inv s sched : Inv s -> Inv (run true true s sched).
Proof. revert s. induction sched as [|i sched IH]; intros s H; [exact H|]. cbn. apply IH. apply step_inv. exact H. Qed.

Lemma init_inv progs : Inv (init progs).
Proof.
  unfold Inv, init, all, all_of; cbn. split; [intros ? ? ? ? []|]. split; [intros ? ? []|]. split; [discriminate|].
  rewrite Forall_forall. intros t Ht. apply in_map_iff in Ht. destruct Ht as [p [E _]]. subst t.
  split; cbn; [intros ? ? []|exact I].
Qed.

Lemma lookup_of_in s n v : keyfun (all s) -> In (n, v) (all s) -> lookup s n = Some v.
Proof.
  intros K H. unfold lookup.
  destruct (mem_find (mut s) (imm s) n) as [w|] eqn:Em.
  - f_equal. apply (K n w n v); [|exact H|reflexivity].
    apply in_all_split. left. exact (mem_find_some _ _ _ _ Em).
  - apply in_all_split in H. destruct H as [H|H]; [exfalso; exact (mem_find_none _ _ _ v Em H)|].
    destruct (in_find _ _ _ H) as [w Ew]. rewrite Ew. f_equal.
    apply (K n w n v); [| |reflexivity]; apply in_all_split; right; [exact (find_some_in _ _ _ Ew)|exact H].
Qed.

(* every schedule of callers, PrepareFlush and Flush, every program: one name one id over all callers, different names
   different ids, and a later lookup finds what was given *)
Theorem flush_stable_injective : forall progs sched,
  let s := run true true (init progs) sched in
  (forall t1 t2 n1 v1 n2 v2, In t1 (threads s) -> In t2 (threads s) ->
     In (n1, v1) (results t1) -> In (n2, v2) (results t2) -> (n1 = n2 <-> v1 = v2)) /\
  (forall t n v, In t (threads s) -> In (n, v) (results t) -> lookup s n = Some v).
Proof.
  intros progs sched s.
  assert (HI : Inv s) by (apply run_inv; apply init_inv).
  destruct HI as [K [_ [_ T]]]. rewrite Forall_forall in T. split.
  - intros t1 t2 n1 v1 n2 v2 H1 H2 R1 R2.
    apply K; [exact (proj1 (T _ H1) _ _ R1)|exact (proj1 (T _ H2) _ _ R2)].
  - intros t n v H R. apply lookup_of_in; [exact K|exact (proj1 (T _ H) _ _ R)].
Qed.

(* the code before the repairs *)
Definition two_ids (s : st) : bool :=
  let rs := concat (map results (threads s)) in
  existsb (fun p => existsb (fun q => Nat.eqb (fst p) (fst q) && negb (Nat.eqb (snd p) (snd q))) rs) rs.

(* callers 0 and 1 miss name 5, caller 1 creates it, PrepareFlush, Flush, caller 0 creates it again *)
Theorem no_files_recheck_refuted : exists progs sched, two_ids (run false true (init progs) sched) = true.
Proof. exists [[5]; [5]], [0; 1; 1; 2; 3; 0]. vm_compute. reflexivity. Qed.

(* name 1 is in the files; caller 1 reads the bucket and is parked before caching it; caller 0 creates name 3, a flush
   purges the cache; caller 1 caches the old bucket; caller 2 misses name 3 in it and creates it again *)
Theorem unguarded_cache_refuted : exists progs sched, two_ids (run true false (init progs) sched) = true.
Proof. exists [[1; 3]; [2]; [3]], [0; 0; 3; 4; 1; 0; 0; 0; 3; 4; 1; 1; 2; 2; 2]. vm_compute. reflexivity. Qed.

(* the repaired code on the same two schedules *)
Example repaired_on_the_two_schedules :
  two_ids (run true true (init [[5]; [5]]) [0; 1; 1; 2; 3; 0]) = false /\
  two_ids (run true true (init [[1; 3]; [2]; [3]]) [0; 0; 3; 4; 1; 0; 0; 0; 3; 4; 1; 1; 2; 2; 2]) = false.
Proof. vm_compute. split; reflexivity. Qed.
