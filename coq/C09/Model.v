(* C09 — name-to-id assignment of the metadata database (index/metric_meta_database.go, kv_store.go,
   metric_schema_store.go, sequence.go), sequential history machine: get-or-create over
   mutable / immutable / persisted entries, prepare-flush, flush (counters synced first), crash = reopen
   (memory lost, counters read back from the sequence file).  Names and scopes are natural numbers.
   The interleaving of concurrent callers is in Conc.v.  Definitions only. *)
From Coq Require Import List Arith Bool.
Import ListNotations.

Inductive kind := KNs | KMetric | KTagKey | KTagValue | KField | KSeries.
Definition kind_eqb (a b : kind) : bool :=
  match a, b with KNs, KNs | KMetric, KMetric | KTagKey, KTagKey | KTagValue, KTagValue | KField, KField | KSeries, KSeries => true | _, _ => false end.
Definition schema_kind (k : kind) : bool := match k with KTagKey | KField => true | _ => false end.
(* the key-value dictionaries of the metadata database *)
Definition dict_kind (k : kind) : bool := match k with KNs | KMetric | KTagValue => true | _ => false end.

Inductive loc := Mut | Imm | Disk.
Definition is_disk (l : loc) := match l with Disk => true | _ => false end.
Definition is_imm (l : loc) := match l with Imm => true | _ => false end.
Definition is_mut (l : loc) := match l with Mut => true | _ => false end.

Record ent := { ek : kind; esc : nat; enm : nat; eid : nat; eloc : loc }.
Definition with_loc (e : ent) (l : loc) : ent := {| ek := ek e; esc := esc e; enm := enm e; eid := eid e; eloc := l |}.

Record st := {
  ents : list ent;
  nxt : kind -> nat;                                         (* sequence counters (volatile); unused for KField *)
  syn : kind -> nat;                                         (* ... as last synced to the sequence file *)
  touched_mut : list nat;                                    (* metrics whose schema is in the mutable schema map *)
  touched_imm : list nat;                                    (* ... in the immutable schema map *)
  pend : kind -> bool;                                       (* the store's immutable part is set (not nil); the schema
                                                                store is keyed by KTagKey *)
  phase : nat                                                (* progress of the running Flush: 0 idle, 1 counters synced,
                                                                2 namespaces written, 3 metric names, 4 schemas *)
}.
Definition init : st := {| ents := []; nxt := fun _ => 0; syn := fun _ => 0; touched_mut := []; touched_imm := []; pend := fun _ => false; phase := 0 |}.

Definition same_key (k : kind) (sc nm : nat) (e : ent) : bool := kind_eqb (ek e) k && (esc e =? sc) && (enm e =? nm).
Definition find_ent (k : kind) (sc nm : nat) (s : st) : option ent := find (same_key k sc nm) (ents s).
Definition memn (x : nat) (l : list nat) : bool := existsb (Nat.eqb x) l.
Definition touch (sc : nat) (l : list nat) : list nat := if memn sc l then l else sc :: l.

(* one above the largest id of kind k in scope sc, 0 if there is none *)
Definition next_in_scope (k : kind) (sc : nat) (es : list ent) : nat :=
  fold_left (fun a e => if kind_eqb (ek e) k && (esc e =? sc) then Nat.max a (S (eid e)) else a) es 0.
Definition counter (k : kind) (sc : nat) (s : st) : nat :=
  match k with
  | KField => next_in_scope KField sc (ents s)
      (* the code takes len(schema.Fields); the two agree while the field ids of a schema are 0..n-1, which holds along
         every history here because a schema is always written whole (checked by the correspondence, not proved) *)
  | KSeries => next_in_scope KSeries sc (ents s)   (* createSeriesID: largest posting of the metric + 1 *)
  | _ => nxt s k
  end.

Inductive op :=
| Gen (k : kind) (sc nm : nat)
| Look (k : kind) (sc nm : nat)
| Prepare
| IPrepare | IFlush                            (* MetricIndexDatabase.PrepareFlush / Flush (taken as one step) *)
| FSync | FStore (k : kind) | FSchema          (* the steps of MetricMetaDatabase.Flush, in the order the code runs them *)
| Crash.
(* MetricMetaDatabase.Flush when nothing else runs in between *)
Definition flush_ops : list op := [FSync; FStore KNs; FStore KMetric; FSchema; FStore KTagValue].

Definition set_ents (s : st) (es : list ent) (tm ti : list nat) : st :=
  {| ents := es; nxt := nxt s; syn := syn s; touched_mut := tm; touched_imm := ti; pend := pend s; phase := phase s |}.
Definition set_phase (s : st) (pd : kind -> bool) (p : nat) : st :=
  {| ents := ents s; nxt := nxt s; syn := syn s; touched_mut := touched_mut s; touched_imm := touched_imm s; pend := pd; phase := p |}.

(* result of Gen *)
Definition gen_id (s : st) (k : kind) (sc nm : nat) : nat :=
  match find_ent k sc nm s with Some e => eid e | None => counter k sc s end.
(* what the caller of an operation sees *)
Definition result (s : st) (o : op) : option nat :=
  match o with
  | Gen k sc nm => Some (gen_id s k sc nm)
  | Look k sc nm => option_map eid (find_ent k sc nm s)
  | _ => None
  end.

(* the store a kind lives in, and the flush phase in which that store is written *)
Definition store_of (k : kind) : kind := match k with KField => KTagKey | _ => k end.
Definition sphase (k : kind) : nat := match k with KNs => 1 | KMetric => 2 | KTagKey | KField => 3 | KTagValue => 4 | KSeries => 0 end.
Definition next_phase (p : nat) : nat := if p =? 4 then 0 else S p.
Definition clear (pd : kind -> bool) (k : kind) : kind -> bool := fun k' => if kind_eqb k' k then false else pd k'.
(* what the running flush is still going to write *)
Definition will_persist (s : st) (e : ent) : bool :=
  (phase s <=? sphase (ek e)) &&
  (if schema_kind (ek e) then is_mut (eloc e) && memn (esc e) (touched_imm s) else is_imm (eloc e)).

Definition step (s : st) (o : op) : st :=
  match o with
  | Gen k sc nm =>
      let tm := if schema_kind k then touch sc (touched_mut s) else touched_mut s in
      match find_ent k sc nm s with
      | Some _ => set_ents s (ents s) tm (touched_imm s)
      | None =>
          let e := {| ek := k; esc := sc; enm := nm; eid := counter k sc s; eloc := Mut |} in
          {| ents := ents s ++ [e];
             nxt := (fun k' => if kind_eqb k' k then S (nxt s k') else nxt s k');
             syn := syn s; touched_mut := tm; touched_imm := touched_imm s; pend := pend s; phase := phase s |}
      end
  | Look _ _ _ => s
  | Prepare =>
      (* each store swaps mutable and immutable unless its immutable part is still set *)
      let es := map (fun e => if dict_kind (ek e) && is_mut (eloc e) && negb (pend s (ek e)) then with_loc e Imm else e) (ents s) in
      let '(tm, ti) := if pend s KTagKey then (touched_mut s, touched_imm s) else ([], touched_mut s) in
      {| ents := es; nxt := nxt s; syn := syn s; touched_mut := tm; touched_imm := ti;
         pend := fun k => if kind_eqb k KSeries then pend s k else true; phase := phase s |}
  | IPrepare =>
      let es := map (fun e => if kind_eqb (ek e) KSeries && is_mut (eloc e) && negb (pend s KSeries) then with_loc e Imm else e) (ents s) in
      set_phase (set_ents s es (touched_mut s) (touched_imm s)) (fun k => if kind_eqb k KSeries then true else pend s k) (phase s)
  | IFlush =>
      let es := map (fun e => if kind_eqb (ek e) KSeries && is_imm (eloc e) then with_loc e Disk else e) (ents s) in
      set_phase (set_ents s es (touched_mut s) (touched_imm s)) (clear (pend s) KSeries) (phase s)
  | FSync =>
      if phase s =? 0 then
        {| ents := ents s; nxt := nxt s; syn := nxt s; touched_mut := touched_mut s; touched_imm := touched_imm s;
           pend := pend s; phase := 1 |}
      else s
  | FStore k =>
      if dict_kind k && (phase s =? sphase k) then
        set_phase (set_ents s (map (fun e => if kind_eqb (ek e) k && is_imm (eloc e) then with_loc e Disk else e) (ents s))
                            (touched_mut s) (touched_imm s)) (clear (pend s) k) (next_phase (phase s))
      else s
  | FSchema =>
      (* a schema is one shared object: everything it holds by now is written *)
      if phase s =? 3 then
        set_phase (set_ents s (map (fun e => if schema_kind (ek e) && will_persist s e then with_loc e Disk else e) (ents s))
                            (touched_mut s) []) (clear (pend s) KTagKey) 4
      else s
  | Crash =>
      {| ents := filter (fun e => is_disk (eloc e)) (ents s);
         nxt := syn s; syn := syn s; touched_mut := []; touched_imm := []; pend := fun _ => false; phase := 0 |}
  end.

Definition run_from (s : st) (ops : list op) : st := fold_left step ops s.
Definition run (ops : list op) : st := run_from init ops.
(* the results seen along a history *)
Fixpoint results (s : st) (ops : list op) : list (option nat) :=
  match ops with [] => [] | o :: r => result s o :: results (step s o) r end.

(* Schedules the flush protocol is designed for: Flush is only started after PrepareFlush (as memdb's metadata
   database does), and while a flush is between its counter sync and its schema step, no new tag key is added to a
   schema the running flush is going to write.  Outside this discipline ids can be reused after a crash
   (Proofs.reuse_outside_discipline). *)
Definition ok_step (s : st) (o : op) : bool :=
  match o with
  | Gen KTagKey sc nm =>
      (phase s =? 0) || (3 <? phase s) ||
      (match find_ent KTagKey sc nm s with Some _ => true | None => negb (memn sc (touched_imm s)) end)
  | FSync => pend s KNs && pend s KMetric && pend s KTagKey && pend s KTagValue
  | _ => true
  end.
Fixpoint run_ok (s : st) (ops : list op) : bool :=
  match ops with [] => true | o :: r => ok_step s o && run_ok (step s o) r end.
