From Coq Require Import List Arith Bool Lia.
Import ListNotations.
From LinDBV.C09 Require Import Model.

Definition ctrb (k : kind) : bool := match k with KField | KSeries => false | _ => true end.
Definition ctr_kind (k : kind) : Prop := ctrb k = true.

Lemma kind_eqb_eq a b : kind_eqb a b = true <-> a = b.
Proof. destruct a, b; simpl; split; intros H; try reflexivity; try discriminate. Qed.
Lemma kind_eqb_refl a : kind_eqb a a = true.
Proof. destruct a; reflexivity. Qed.
Lemma kind_eqb_spec a b : reflect (a = b) (kind_eqb a b).
Proof. destruct (kind_eqb a b) eqn:E; constructor; [apply kind_eqb_eq, E|intros H; apply kind_eqb_eq in H; congruence]. Qed.

(* ids of the counter-based kinds (namespace, metric, tag key, tag value): below the counter, pairwise distinct
   within a kind, persisted ones below the synced counter; one id per name for every kind *)
Record Inv (s : st) : Prop := {
  i_lt : forall e, In e (ents s) -> ctr_kind (ek e) -> eid e < nxt s (ek e);
  i_disk : forall e, In e (ents s) -> ctr_kind (ek e) -> eloc e = Disk -> eid e < syn s (ek e);
  i_syn : forall k, syn s k <= nxt s k;
  i_inj : forall e1 e2, In e1 (ents s) -> In e2 (ents s) -> ctr_kind (ek e1) -> ek e1 = ek e2 -> eid e1 = eid e2 ->
            esc e1 = esc e2 /\ enm e1 = enm e2;
  i_fun : forall e1 e2, In e1 (ents s) -> In e2 (ents s) -> ek e1 = ek e2 -> esc e1 = esc e2 -> enm e1 = enm e2 -> eid e1 = eid e2;
  (* while a flush runs, what it is still going to write is below the counters it synced *)
  i_pend : forall e, In e (ents s) -> ctr_kind (ek e) -> 0 < phase s -> will_persist s e = true -> eid e < syn s (ek e);
  (* a flush starts with every store prepared; a store stays prepared until its step *)
  i_pp : forall k, 0 < phase s -> phase s <= sphase k -> pend s (store_of k) = true;
  (* series ids are distinct within a metric *)
  i_ser : forall e1 e2, In e1 (ents s) -> In e2 (ents s) -> ctrb (ek e1) = false -> ek e1 = ek e2 -> esc e1 = esc e2 ->
            eid e1 = eid e2 -> enm e1 = enm e2
}.

Lemma ser_fold_ge k sc l : forall a, a <= fold_left (fun a e => if kind_eqb (ek e) k && (esc e =? sc) then Nat.max a (S (eid e)) else a) l a.
Proof. induction l as [|x l IH]; intros a; cbn [fold_left]; [lia|]. destruct (kind_eqb (ek x) k && (esc x =? sc)); [etransitivity; [|apply IH]; lia|apply IH]. Qed.
Lemma ser_fold_lt k sc l e : In e l -> ek e = k -> esc e = sc ->
  forall a, eid e < fold_left (fun a e => if kind_eqb (ek e) k && (esc e =? sc) then Nat.max a (S (eid e)) else a) l a.
Proof.
  induction l as [|x l IH]; intros Hin Hk Hs a; [contradiction|]. cbn [fold_left]. destruct Hin as [->|Hin].
  - rewrite Hk, Hs, Nat.eqb_refl, kind_eqb_refl. cbn [andb]. eapply Nat.lt_le_trans; [|apply ser_fold_ge]. lia.
  - apply IH; assumption.
Qed.
Lemma next_in_scope_lt k sc es e : In e es -> ek e = k -> esc e = sc -> eid e < next_in_scope k sc es.
Proof. intros. apply ser_fold_lt; assumption. Qed.

Lemma find_ent_some k sc nm s e : find_ent k sc nm s = Some e -> In e (ents s) /\ ek e = k /\ esc e = sc /\ enm e = nm.
Proof.
  unfold find_ent. intros H. apply find_some in H as [Hin Hk]. unfold same_key in Hk.
  apply andb_prop in Hk as [Hk H3]. apply andb_prop in Hk as [H1 H2].
  apply kind_eqb_eq in H1. apply Nat.eqb_eq in H2, H3. auto.
Qed.
Lemma find_ent_none k sc nm s e : find_ent k sc nm s = None -> In e (ents s) -> ~ (ek e = k /\ esc e = sc /\ enm e = nm).
Proof.
  unfold find_ent. intros H Hin (H1 & H2 & H3). pose proof (find_none _ _ H e Hin) as Hf.
  unfold same_key in Hf. rewrite H1, H2, H3, kind_eqb_refl, !Nat.eqb_refl in Hf. discriminate.
Qed.

(* a map that only changes locations *)
Definition loc_only (f : ent -> ent) : Prop := forall e, ek (f e) = ek e /\ esc (f e) = esc e /\ enm (f e) = enm e /\ eid (f e) = eid e.

Lemma with_loc_only l : loc_only (fun e => with_loc e l).
Proof. intros e. auto. Qed.

Lemma gen_existing s k sc nm e0 : Inv s -> find_ent k sc nm s = Some e0 -> Inv (step s (Gen k sc nm)).
Proof.
  intros H Ef. cbn [step]. rewrite Ef. destruct H. constructor; cbn [set_ents ents nxt syn phase touched_imm pend]; auto.
Qed.

Lemma gen_new s k sc nm : Inv s -> ok_step s (Gen k sc nm) = true -> find_ent k sc nm s = None -> Inv (step s (Gen k sc nm)).
Proof.
  intros H Hok Ef. cbn [step]. rewrite Ef. destruct H.
  set (e := {| ek := k; esc := sc; enm := nm; eid := counter k sc s; eloc := Mut |}).
  assert (Hctr : ctr_kind k -> eid e = nxt s k) by (intros Hc; unfold e; cbn [eid]; destruct k; try reflexivity; discriminate Hc).
  constructor; cbn [ents nxt syn phase touched_imm pend].
  - intros e1 Hin Hc. apply in_app_or in Hin as [Hin|[<-|[]]].
    + specialize (i_lt0 e1 Hin Hc). destruct (kind_eqb (ek e1) k); lia.
    + cbn [ek e]. rewrite kind_eqb_refl. rewrite (Hctr Hc). lia.
  - intros e1 Hin Hc Hd. apply in_app_or in Hin as [Hin|[<-|[]]]; [apply i_disk0; assumption|discriminate Hd].
  - intros k0. specialize (i_syn0 k0). destruct (kind_eqb k0 k); lia.
  - intros e1 e2 Ha Hb Hc Hk Hi. apply in_app_or in Ha as [Ha|[<-|[]]]; apply in_app_or in Hb as [Hb|[<-|[]]].
    + apply (i_inj0 e1 e2); assumption.
    + exfalso. cbn [ek e] in Hk. specialize (i_lt0 e1 Ha Hc). rewrite Hk in Hc. rewrite (Hctr Hc) in Hi. rewrite Hk in i_lt0. lia.
    + exfalso. cbn [ek e] in Hk, Hc. specialize (i_lt0 e2 Hb ltac:(rewrite <- Hk; exact Hc)). rewrite (Hctr Hc) in Hi. rewrite <- Hk in i_lt0. lia.
    + auto.
  - intros e1 e2 Ha Hb Hk Hs Hn. apply in_app_or in Ha as [Ha|[<-|[]]]; apply in_app_or in Hb as [Hb|[<-|[]]].
    + apply (i_fun0 e1 e2); assumption.
    + exfalso. apply (find_ent_none _ _ _ _ e1 Ef Ha). cbn [ek esc enm e] in *. auto.
    + exfalso. apply (find_ent_none _ _ _ _ e2 Ef Hb). cbn [ek esc enm e] in *. auto.
    + reflexivity.
  - intros e1 Hin Hc Hp Hw. apply in_app_or in Hin as [Hin|[<-|[]]].
    + apply i_pend0; auto.
    + exfalso. unfold will_persist in Hw. cbn [ek esc eloc e is_mut is_imm phase touched_imm] in Hw, Hc.
      apply andb_prop in Hw as [Hph Hw].
      destruct k; cbn [schema_kind] in Hw; try discriminate Hw.
      * (* a new tag key: the discipline keeps it out of the schemas being written *)
        cbn [ok_step] in Hok. rewrite Ef in Hok. cbn [andb] in Hw. cbn [sphase] in Hph. apply Nat.leb_le in Hph.
        destruct (phase s =? 0) eqn:E0; [apply Nat.eqb_eq in E0; lia|].
        destruct (3 <? phase s) eqn:E3; [apply Nat.ltb_lt in E3; lia|].
        cbn [orb] in Hok. rewrite Hw in Hok. discriminate.
      * discriminate Hc.
  - exact i_pp0.
  - intros e1 e2 Ha Hb K1 K2 Hs Hi. apply in_app_or in Ha as [Ha|[<-|[]]]; apply in_app_or in Hb as [Hb|[<-|[]]].
    + apply (i_ser0 e1 e2); assumption.
    + exfalso. cbn [ek esc eid e] in K2, Hs, Hi. subst k.
      pose proof (next_in_scope_lt (ek e1) sc (ents s) e1 Ha eq_refl Hs).
      destruct (ek e1); try discriminate K1; cbn [counter] in Hi; lia.
    + exfalso. cbn [ek esc eid e] in K1, K2, Hs, Hi. subst k.
      pose proof (next_in_scope_lt (ek e2) sc (ents s) e2 Hb eq_refl (eq_sym Hs)).
      destruct (ek e2); try discriminate K1; cbn [counter] in Hi; lia.
    + reflexivity.
Qed.

(* a step that only moves entries between locations, keeps the counters, and may advance the synced counters *)
Lemma map_loc_inv s f tm ti sy pd ph :
  Inv s -> loc_only f ->
  (forall e, In e (ents s) -> eloc (f e) = Disk -> ctr_kind (ek e) -> eid e < sy (ek e)) ->
  (forall k, sy k <= nxt s k) ->
  (forall e, In e (ents s) -> ctr_kind (ek e) -> 0 < ph -> ph <= sphase (ek e) ->
     (if schema_kind (ek e) then is_mut (eloc (f e)) && memn (esc e) ti else is_imm (eloc (f e))) = true -> eid e < sy (ek e)) ->
  (forall k, 0 < ph -> ph <= sphase k -> pd (store_of k) = true) ->
  Inv {| ents := map f (ents s); nxt := nxt s; syn := sy; touched_mut := tm; touched_imm := ti; pend := pd; phase := ph |}.
Proof.
  intros H Hf Hd Hs Hp Hpp. destruct H. constructor; cbn [ents nxt syn phase touched_imm pend].
  - intros e' Hin Hc. apply in_map_iff in Hin as (e & <- & Hin). destruct (Hf e) as (A & B & C & D). rewrite A, D. rewrite A in Hc. auto.
  - intros e' Hin Hc Hl. apply in_map_iff in Hin as (e & <- & Hin). destruct (Hf e) as (A & B & C & D). rewrite A, D. rewrite A in Hc. auto.
  - exact Hs.
  - intros e1' e2' Ha Hb Hc Hk Hi. apply in_map_iff in Ha as (e1 & <- & Ha). apply in_map_iff in Hb as (e2 & <- & Hb).
    destruct (Hf e1) as (A1 & B1 & C1 & D1). destruct (Hf e2) as (A2 & B2 & C2 & D2).
    rewrite B1, B2, C1, C2. rewrite A1 in Hc. rewrite A1, A2 in Hk. rewrite D1, D2 in Hi. apply (i_inj0 e1 e2); assumption.
  - intros e1' e2' Ha Hb Hk Hsc Hn. apply in_map_iff in Ha as (e1 & <- & Ha). apply in_map_iff in Hb as (e2 & <- & Hb).
    destruct (Hf e1) as (A1 & B1 & C1 & D1). destruct (Hf e2) as (A2 & B2 & C2 & D2).
    rewrite D1, D2. rewrite A1, A2 in Hk. rewrite B1, B2 in Hsc. rewrite C1, C2 in Hn. apply (i_fun0 e1 e2); assumption.
  - intros e' Hin Hc Hph Hw. apply in_map_iff in Hin as (e & <- & Hin). destruct (Hf e) as (A & B & C & D).
    unfold will_persist in Hw. cbn [touched_imm phase] in Hw. rewrite A, B in Hw. rewrite A, D. rewrite A in Hc.
    apply andb_prop in Hw as [Hle Hw]. apply Nat.leb_le in Hle. apply Hp; assumption.
  - exact Hpp.
  - intros e1' e2' Ha Hb K1 K2 Hsc Hi. apply in_map_iff in Ha as (e1 & <- & Ha). apply in_map_iff in Hb as (e2 & <- & Hb).
    destruct (Hf e1) as (A1 & B1 & C1 & D1). destruct (Hf e2) as (A2 & B2 & C2 & D2).
    rewrite C1, C2. rewrite A1 in K1. rewrite A1, A2 in K2. rewrite B1, B2 in Hsc. rewrite D1, D2 in Hi. apply (i_ser0 e1 e2); assumption.
Qed.

Lemma loc_only_if (c : ent -> bool) l : loc_only (fun e => if c e then with_loc e l else e).
Proof. intros e. destruct (c e); auto. Qed.

Lemma will_persist_intro s e : phase s <= sphase (ek e) ->
  (if schema_kind (ek e) then is_mut (eloc e) && memn (esc e) (touched_imm s) else is_imm (eloc e)) = true -> will_persist s e = true.
Proof. intros Hle Hw. unfold will_persist. rewrite Hw, andb_true_r. apply Nat.leb_le, Hle. Qed.

Lemma step_inv s o : Inv s -> ok_step s o = true -> Inv (step s o).
Proof.
  intros H Hok. destruct o as [k sc nm|k sc nm| | | | |k| |].
  - destruct (find_ent k sc nm s) as [e0|] eqn:Ef; [eapply gen_existing; eauto|apply gen_new; assumption].
  - exact H.
  - (* Prepare: a store that is still to be written by a running flush is prepared already, so it does not swap *)
    cbn [step].
    set (f := fun e => if dict_kind (ek e) && is_mut (eloc e) && negb (pend s (ek e)) then with_loc e Imm else e).
    assert (G : forall tm ti, (ti = touched_imm s \/ (pend s KTagKey = false)) ->
                Inv {| ents := map f (ents s); nxt := nxt s; syn := syn s; touched_mut := tm; touched_imm := ti; pend := fun k => if kind_eqb k KSeries then pend s k else true; phase := phase s |}).
    { intros tm ti Hti. apply map_loc_inv; auto.
      - apply loc_only_if.
      - intros e Hin Hl Hc. destruct H. apply i_disk0; auto. unfold f in Hl.
        destruct (dict_kind (ek e) && is_mut (eloc e) && negb (pend s (ek e))); [discriminate Hl|exact Hl].
      - destruct H; auto.
      - intros e Hin Hc Hp Hle Hw. pose proof (i_pp _ H (ek e) Hp Hle) as Hpd. destruct H. apply i_pend0; auto.
        apply will_persist_intro; [exact Hle|]. unfold f in Hw.
        destruct (schema_kind (ek e)) eqn:Esk.
        + assert (Hdk : dict_kind (ek e) = false) by (destruct (ek e); try discriminate Esk; reflexivity).
          rewrite Hdk in Hw. cbn [negb andb] in Hw. destruct Hti as [->|Hti]; [exact Hw|].
          assert (store_of (ek e) = KTagKey) by (destruct (ek e); try discriminate Esk; reflexivity). congruence.
        + assert (Hso : store_of (ek e) = ek e) by (destruct (ek e); try discriminate Esk; reflexivity).
          rewrite Hso in Hpd. rewrite Hpd in Hw. cbn [negb] in Hw. rewrite andb_false_r in Hw. exact Hw.
      - intros k Hp Hle. destruct (kind_eqb (store_of k) KSeries) eqn:Ek; [|reflexivity].
        apply kind_eqb_eq in Ek. destruct k; try discriminate Ek. cbn in Hle. lia. }
    destruct (pend s KTagKey) eqn:Epk; apply G; auto.
  - (* IPrepare *)
    cbn [step]. unfold set_phase, set_ents. cbn [ents nxt syn touched_mut touched_imm phase pend].
    apply map_loc_inv; auto.
    + apply loc_only_if.
    + intros e Hin Hl Hc. destruct H. apply i_disk0; auto.
      destruct (kind_eqb (ek e) KSeries && is_mut (eloc e) && negb (pend s KSeries)); [discriminate Hl|exact Hl].
    + destruct H; auto.
    + intros e Hin Hc Hp Hle Hw. destruct H. apply i_pend0; auto. apply will_persist_intro; [exact Hle|].
      destruct (kind_eqb (ek e) KSeries) eqn:Ek; [apply kind_eqb_eq in Ek; rewrite Ek in Hc; discriminate Hc|exact Hw].
    + intros k Hp Hle. destruct (kind_eqb (store_of k) KSeries) eqn:Ek; [reflexivity|apply (i_pp _ H); assumption].
  - (* IFlush *)
    cbn [step]. unfold set_phase, set_ents. cbn [ents nxt syn touched_mut touched_imm phase pend].
    apply map_loc_inv; auto.
    + apply loc_only_if.
    + intros e Hin Hl Hc. destruct H. apply i_disk0; auto.
      destruct (kind_eqb (ek e) KSeries) eqn:Ek; [apply kind_eqb_eq in Ek; rewrite Ek in Hc; discriminate Hc|exact Hl].
    + destruct H; auto.
    + intros e Hin Hc Hp Hle Hw. destruct H. apply i_pend0; auto. apply will_persist_intro; [exact Hle|].
      destruct (kind_eqb (ek e) KSeries) eqn:Ek; [apply kind_eqb_eq in Ek; rewrite Ek in Hc; discriminate Hc|exact Hw].
    + intros k Hp Hle. unfold clear. destruct (kind_eqb (store_of k) KSeries) eqn:Ek; [|apply (i_pp _ H); assumption].
      apply kind_eqb_eq in Ek. destruct k; try discriminate Ek. cbn in Hle. lia.
  - (* FSync *)
    cbn [step]. destruct (phase s =? 0) eqn:E0; [|exact H].
    replace (ents s) with (map (fun e => e) (ents s)) by apply map_id. apply map_loc_inv; auto.
    + intros e; auto.
    + intros e Hin _ Hc. destruct H. apply i_lt0; assumption.
    + intros e Hin Hc _ _ _. destruct H. apply i_lt0; assumption.
    + intros k _ Hle. cbn [ok_step] in Hok. apply andb_prop in Hok as [Hok H4]. apply andb_prop in Hok as [Hok H3].
      apply andb_prop in Hok as [H1 H2]. destruct k; try assumption. cbn in Hle. lia.
  - (* FStore k *)
    cbn [step]. destruct (dict_kind k && (phase s =? sphase k)) eqn:Ec0; [|exact H].
    apply andb_prop in Ec0 as [Ensk Ep]. apply Nat.eqb_eq in Ep.
    assert (Hp : 0 < phase s) by (rewrite Ep; destruct k; try discriminate Ensk; cbn; lia).
    unfold set_phase, set_ents. cbn [ents nxt syn touched_mut touched_imm phase pend].
    apply map_loc_inv; auto.
    + apply loc_only_if.
    + intros e Hin Hl Hc. destruct (kind_eqb (ek e) k && is_imm (eloc e)) eqn:Ec.
      * destruct H. apply i_pend0; auto. apply andb_prop in Ec as [Ek Ei]. apply kind_eqb_eq in Ek.
        apply will_persist_intro; [rewrite Ek; lia|]. rewrite Ek. destruct k; try discriminate Ensk; exact Ei.
      * destruct H. apply i_disk0; auto.
    + destruct H; auto.
    + intros e Hin Hc Hnp Hle Hw. destruct H. apply i_pend0; auto.
      assert (Hle' : phase s <= sphase (ek e)).
      { unfold next_phase in Hle, Hnp. destruct (phase s =? 4) eqn:E4; [lia|]. lia. }
      apply will_persist_intro; [exact Hle'|].
      destruct (kind_eqb (ek e) k && is_imm (eloc e)) eqn:Ec.
      * cbn [with_loc eloc is_mut is_imm] in Hw. destruct (schema_kind (ek e)); discriminate Hw.
      * exact Hw.
    + intros k0 Hnp Hle. unfold clear. unfold next_phase in Hle, Hnp. destruct (phase s =? 4) eqn:E4; [lia|].
      destruct (kind_eqb (store_of k0) k) eqn:Ek.
      * exfalso. apply kind_eqb_eq in Ek. subst k. rewrite Ep in Hle. destruct k0; cbn in Hle, Ensk; try lia; discriminate.
      * apply (i_pp _ H); lia.
  - (* FSchema *)
    cbn [step]. destruct (phase s =? 3) eqn:Ep; [|exact H]. apply Nat.eqb_eq in Ep.
    unfold set_phase, set_ents. cbn [ents nxt syn touched_mut touched_imm phase pend].
    apply map_loc_inv; auto.
    + apply loc_only_if.
    + intros e Hin Hl Hc. destruct (schema_kind (ek e) && will_persist s e) eqn:Ec.
      * destruct H. apply i_pend0; auto; [lia|]. apply andb_prop in Ec as [_ Ew]. exact Ew.
      * destruct H. apply i_disk0; auto.
    + destruct H; auto.
    + intros e Hin Hc _ Hle Hw. destruct H. apply i_pend0; auto; [lia|].
      destruct (schema_kind (ek e)) eqn:Esk.
      * cbn [memn existsb] in Hw. rewrite andb_false_r in Hw. discriminate Hw.
      * apply will_persist_intro; [lia|]. rewrite Esk. cbn [andb] in Hw. exact Hw.
    + intros k0 _ Hle. unfold clear. destruct (kind_eqb (store_of k0) KTagKey) eqn:Ek.
      * exfalso. apply kind_eqb_eq in Ek. destruct k0; cbn in Hle, Ek; try lia; discriminate.
      * apply (i_pp _ H); lia.
  - (* Crash: only persisted entries survive, counters fall back to the synced values *)
    cbn [step]. destruct H. constructor; cbn [ents nxt syn phase pend].
    + intros e Hin Hc. apply filter_In in Hin as [Hin Hd]. apply i_disk0; auto. destruct (eloc e); try discriminate; reflexivity.
    + intros e Hin Hc _. apply filter_In in Hin as [Hin Hd]. apply i_disk0; auto. destruct (eloc e); try discriminate; reflexivity.
    + intros; lia.
    + intros e1 e2 Ha Hb. apply filter_In in Ha as [Ha _]. apply filter_In in Hb as [Hb _]. apply i_inj0; assumption.
    + intros e1 e2 Ha Hb. apply filter_In in Ha as [Ha _]. apply filter_In in Hb as [Hb _]. apply i_fun0; assumption.
    + intros; lia.
    + intros; lia.
    + intros e1 e2 Ha Hb. apply filter_In in Ha as [Ha _]. apply filter_In in Hb as [Hb _]. apply i_ser0; assumption.
Qed.

Lemma init_inv : Inv init.
Proof. constructor; simpl; intros; try lia; try contradiction. Qed.

Lemma run_from_inv ops : forall s, Inv s -> run_ok s ops = true -> Inv (run_from s ops).
Proof.
  induction ops as [|o ops IH]; intros s H Hok; cbn [run_from fold_left]; [exact H|].
  cbn [run_ok] in Hok. apply andb_prop in Hok as [H1 H2]. apply IH; [apply step_inv; assumption|exact H2].
Qed.
Theorem run_inv ops : run_ok init ops = true -> Inv (run ops).
Proof. apply run_from_inv, init_inv. Qed.

Lemma find_app_none {A} (f : A -> bool) l l' : find f l = None -> find f (l ++ l') = find f l'.
Proof. induction l as [|x l IH]; simpl; [reflexivity|]. destruct (f x); [discriminate|exact IH]. Qed.

(* ---- what the property states, for sequential histories ---- *)

(* stable: asking again for a known name returns its id and changes no entry *)
Theorem gen_stable s k sc nm e : find_ent k sc nm s = Some e ->
  gen_id s k sc nm = eid e /\ ents (step s (Gen k sc nm)) = ents s.
Proof. intros Ef. unfold gen_id. cbn [step]. rewrite Ef. auto. Qed.

(* the id handed out is then the id of that name *)
Theorem gen_returns s k sc nm : exists e, find_ent k sc nm (step s (Gen k sc nm)) = Some e /\ eid e = gen_id s k sc nm.
Proof.
  unfold gen_id. cbn [step]. destruct (find_ent k sc nm s) as [e0|] eqn:Ef.
  - exists e0. unfold find_ent in *. cbn [set_ents ents]. auto.
  - eexists. unfold find_ent in *. cbn [ents]. rewrite find_app_none by exact Ef. cbn [find]. unfold same_key. cbn [ek esc enm].
    rewrite kind_eqb_refl, !Nat.eqb_refl. cbn [andb]. split; reflexivity.
Qed.

(* injective: two different names never share an id, in any state a disciplined history reaches: ids of namespaces, metric
   names, tag keys and tag values are unique over the whole database, field and series ids within their metric *)
Theorem ids_injective ops e1 e2 : run_ok init ops = true -> In e1 (ents (run ops)) -> In e2 (ents (run ops)) ->
  ek e1 = ek e2 -> eid e1 = eid e2 ->
  (ctrb (ek e1) = true -> esc e1 = esc e2 /\ enm e1 = enm e2) /\
  (ctrb (ek e1) = false -> esc e1 = esc e2 -> enm e1 = enm e2).
Proof.
  intros Hok H1 H2 Hk Hi. pose proof (run_inv ops Hok) as HI. split.
  - intros Hc. apply (i_inj _ HI e1 e2); assumption.
  - intros Ks Hs. apply (i_ser _ HI e1 e2); assumption.
Qed.

(* one id per name, for every kind (fields included) *)
Theorem ids_functional ops e1 e2 : run_ok init ops = true -> In e1 (ents (run ops)) -> In e2 (ents (run ops)) ->
  ek e1 = ek e2 -> esc e1 = esc e2 -> enm e1 = enm e2 -> eid e1 = eid e2.
Proof. intros Hok. intros. apply (i_fun _ (run_inv ops Hok) e1 e2); assumption. Qed.

(* recovered names keep their ids: a crash keeps exactly the persisted entries, unchanged *)
Theorem crash_keeps_persisted s e : In e (ents (step s Crash)) <-> In e (ents s) /\ eloc e = Disk.
Proof.
  cbn [step ents]. rewrite filter_In. split; intros [A B]; split; auto; destruct (eloc e); try discriminate; reflexivity.
Qed.

(* no reuse after a crash, at any point of a disciplined history (inside a flush too): an id handed out after recovery
   is above every id of a recovered name of that kind (for series: of that metric) *)
Theorem no_reuse_after_crash ops k sc nm e : run_ok init ops = true ->
  let s := step (run ops) Crash in
  find_ent k sc nm s = None -> In e (ents s) -> ek e = k ->
  (ctrb k = true -> eid e < gen_id s k sc nm) /\ (ctrb k = false -> esc e = sc -> eid e < gen_id s k sc nm).
Proof.
  intros Hok s Ef Hin Ek. unfold gen_id. rewrite Ef.
  assert (HI : Inv s) by (apply step_inv; [apply run_inv, Hok|reflexivity]). split.
  - intros Hk. replace (counter k sc s) with (nxt s k) by (destruct k; try reflexivity; discriminate Hk).
    rewrite <- Ek. apply (i_lt _ HI); [exact Hin|unfold ctr_kind; rewrite Ek; exact Hk].
  - intros Hk Hs. pose proof (next_in_scope_lt k sc (ents s) e Hin Ek Hs). destruct k; try discriminate Hk; cbn [counter]; assumption.
Qed.

(* ---- sequential callers are disciplined: get-or-create, lookups, PrepareFlush followed by a whole Flush (or a Flush
   cut short by a crash), crashes, in any order ---- *)
Inductive block := BGen (k : kind) (sc nm : nat) | BLook (k : kind) (sc nm : nat) | BFlush | BFlushCrash (n : nat) | BCrash | BPrepare
  | BIPrepare | BIFlush.
Definition block_ops (b : block) : list op :=
  match b with
  | BGen k sc nm => [Gen k sc nm] | BLook k sc nm => [Look k sc nm]
  | BFlush => Prepare :: flush_ops
  | BFlushCrash n => Prepare :: firstn n flush_ops ++ [Crash]
  | BCrash => [Crash] | BPrepare => [Prepare] | BIPrepare => [IPrepare] | BIFlush => [IFlush]
  end.
Definition seq_ops (bs : list block) : list op := flat_map block_ops bs.

Lemma run_ok_app ops1 : forall s ops2, run_ok s (ops1 ++ ops2) = run_ok s ops1 && run_ok (run_from s ops1) ops2.
Proof.
  induction ops1 as [|o r IH]; intros s ops2; cbn [app run_ok run_from fold_left]; [reflexivity|].
  unfold run_from in IH. rewrite IH, andb_assoc. reflexivity.
Qed.
Lemma run_from_app ops1 ops2 s : run_from s (ops1 ++ ops2) = run_from (run_from s ops1) ops2.
Proof. unfold run_from. apply fold_left_app. Qed.

Lemma block_ok b s : phase s = 0 -> run_ok s (block_ops b) = true /\ phase (run_from s (block_ops b)) = 0.
Proof.
  intros Hp.
  assert (P : forall s0, phase s0 = 0 -> (forall k, k <> KSeries -> pend (step s0 Prepare) k = true) /\ phase (step s0 Prepare) = 0).
  { intros s0 H0. cbn [step]. destruct (pend s0 KTagKey); cbn [pend phase]; split; auto; intros k Hk; destruct k; try reflexivity; contradiction. }
  destruct b as [k sc nm|k sc nm| |n| | | |]; cbn [block_ops]; try (cbn; auto; fail).
  - cbn [run_ok run_from fold_left]. split.
    + destruct k; cbn [ok_step]; try reflexivity. rewrite Hp. reflexivity.
    + cbn [step]. destruct (find_ent k sc nm s); cbn [set_ents phase]; exact Hp.
  - destruct (P s Hp) as [Hpd Hph]. cbn [run_ok run_from fold_left flush_ops ok_step andb].
    set (s1 := step s Prepare) in *. rewrite !Hpd by discriminate. cbn [andb].
    cbn [step]. rewrite Hph. cbn [Nat.eqb phase schema_kind negb andb sphase set_phase set_ents next_phase]. auto.
  - destruct (P s Hp) as [Hpd Hph]. cbn [run_ok run_from fold_left ok_step andb]. set (s1 := step s Prepare) in *.
    destruct n as [|n]; [cbn; auto|].
    cbn [firstn flush_ops app run_ok run_from fold_left ok_step]. rewrite !Hpd by discriminate. cbn [andb].
    cbn [step]. rewrite Hph. cbn [Nat.eqb].
    do 4 (destruct n as [|n]; [cbn; auto|]). cbn. rewrite firstn_nil. cbn. auto.
  - destruct (P s Hp) as [_ Hph]. cbn [run_ok run_from fold_left ok_step andb]. auto.
Qed.

Theorem sequential_is_disciplined bs : run_ok init (seq_ops bs) = true.
Proof.
  assert (G : forall s, phase s = 0 -> run_ok s (seq_ops bs) = true).
  { induction bs as [|b bs IH]; intros s Hp; [reflexivity|].
    cbn [seq_ops flat_map]. rewrite run_ok_app. destruct (block_ok b s Hp) as [A B]. rewrite A. cbn [andb]. apply IH, B. }
  apply G. reflexivity.
Qed.

(* ---- outside the discipline the statement fails: a tag key added to a schema between the counter sync and the schema
   step of a running flush is persisted above the synced counter; after a crash a tag key of another metric gets its id *)
Definition reuse_history : list op :=
  [Gen KNs 110 1; Gen KMetric 1 1; Gen KMetric 1 2; Gen KTagKey 0 1; Prepare; FSync; Gen KTagKey 0 2;
   FStore KNs; FStore KMetric; FSchema; Crash; Gen KTagKey 1 3].
Theorem reuse_outside_discipline :
  run_ok init reuse_history = false /\
  exists e1 e2, In e1 (ents (run reuse_history)) /\ In e2 (ents (run reuse_history)) /\
    ek e1 = KTagKey /\ ek e2 = KTagKey /\ eid e1 = eid e2 /\ (esc e1, enm e1) <> (esc e2, enm e2) /\ eloc e1 = Disk.
Proof.
  split; [vm_compute; reflexivity|].
  exists {| ek := KTagKey; esc := 0; enm := 2; eid := 1; eloc := Disk |}, {| ek := KTagKey; esc := 1; enm := 3; eid := 1; eloc := Mut |}.
  vm_compute. repeat split; auto 10; try discriminate.
Qed.

Example flush_then_crash :
  let s := run ([Gen KNs 0 7; Gen KMetric 0 1; Gen KMetric 0 2; Prepare; Gen KMetric 0 3] ++ flush_ops ++ [Gen KMetric 0 4; Crash; Gen KMetric 0 4; Gen KMetric 0 3]) in
  map (fun e => (enm e, eid e, is_disk (eloc e))) (filter (fun e => kind_eqb (ek e) KMetric) (ents s)) =
  [(1, 0, true); (2, 1, true); (4, 3, false); (3, 4, false)].
Proof. vm_compute. reflexivity. Qed.
