(* C09 — the property theorems; each is closed by a lemma of Proofs.v / ConcProofs.v *)
From Coq Require Import List Arith Bool.
Import ListNotations.
From LinDBV.C09 Require Import Model Proofs.
From LinDBV.C09 Require Conc ConcProofs.

(* stable: asking again for a known name returns its id and changes no entry *)
Theorem C09_gen_stable s k sc nm e : find_ent k sc nm s = Some e ->
  gen_id s k sc nm = eid e /\ ents (step s (Gen k sc nm)) = ents s.
Proof. exact (gen_stable s k sc nm e). Qed.
Print Assumptions C09_gen_stable.

Theorem C09_gen_returns s k sc nm : exists e, find_ent k sc nm (step s (Gen k sc nm)) = Some e /\ eid e = gen_id s k sc nm.
Proof. exact (gen_returns s k sc nm). Qed.
Print Assumptions C09_gen_returns.

(* injective in every state a disciplined history (any placement of prepare-flush, flush steps, crashes) reaches *)
Theorem C09_ids_injective ops e1 e2 : run_ok init ops = true -> In e1 (ents (run ops)) -> In e2 (ents (run ops)) ->
  ek e1 = ek e2 -> eid e1 = eid e2 ->
  (ctrb (ek e1) = true -> esc e1 = esc e2 /\ enm e1 = enm e2) /\
  (ctrb (ek e1) = false -> esc e1 = esc e2 -> enm e1 = enm e2).
Proof. exact (ids_injective ops e1 e2). Qed.
Print Assumptions C09_ids_injective.

Theorem C09_ids_functional ops e1 e2 : run_ok init ops = true -> In e1 (ents (run ops)) -> In e2 (ents (run ops)) ->
  ek e1 = ek e2 -> esc e1 = esc e2 -> enm e1 = enm e2 -> eid e1 = eid e2.
Proof. exact (ids_functional ops e1 e2). Qed.
Print Assumptions C09_ids_functional.

Theorem C09_crash_keeps_persisted s e : In e (ents (step s Crash)) <-> In e (ents s) /\ eloc e = Disk.
Proof. exact (crash_keeps_persisted s e). Qed.
Print Assumptions C09_crash_keeps_persisted.

Theorem C09_no_reuse_after_crash ops k sc nm e : run_ok init ops = true ->
  let s := step (run ops) Crash in
  find_ent k sc nm s = None -> In e (ents s) -> ek e = k ->
  (ctrb k = true -> eid e < gen_id s k sc nm) /\ (ctrb k = false -> esc e = sc -> eid e < gen_id s k sc nm).
Proof. exact (no_reuse_after_crash ops k sc nm e). Qed.
Print Assumptions C09_no_reuse_after_crash.

(* callers that do not overlap a running flush are always inside the discipline *)
Theorem C09_sequential_is_disciplined bs : run_ok init (seq_ops bs) = true.
Proof. exact (sequential_is_disciplined bs). Qed.
Print Assumptions C09_sequential_is_disciplined.

(* outside it the statement is false of the model (and of the code: known finding) *)
Theorem C09_reuse_outside_discipline_refuted :
  run_ok init reuse_history = false /\
  exists e1 e2, In e1 (ents (run reuse_history)) /\ In e2 (ents (run reuse_history)) /\
    ek e1 = KTagKey /\ ek e2 = KTagKey /\ eid e1 = eid e2 /\ (esc e1, enm e1) <> (esc e2, enm e2) /\ eloc e1 = Disk.
Proof. exact reuse_outside_discipline. Qed.
Print Assumptions C09_reuse_outside_discipline_refuted.

(* concurrent get-or-create of one dictionary, every schedule: all callers agree, different names differ *)
Theorem C09_concurrent_stable_injective (progs : list (list nat)) sched :
  let s0 := Conc.Build_st [] 0 (map (fun p => Conc.Build_thread p false []) progs) in
  let s := Conc.run true s0 sched in
  forall t1 t2 n1 n2 v1 v2, In t1 (Conc.threads s) -> In t2 (Conc.threads s) ->
    In (n1, v1) (Conc.results t1) -> In (n2, v2) (Conc.results t2) -> (n1 = n2 <-> v1 = v2).
Proof. exact (ConcProofs.stable_injective progs sched). Qed.
Print Assumptions C09_concurrent_stable_injective.

(* concurrent creation of the fields and tag keys of one metric (the index worker and the metadata worker of a row), every
   schedule of every number of callers: what a caller was given is what a later lookup finds, all callers agree on a
   name, different names of a kind have different ids *)
From LinDBV.C09 Require Schema.
Theorem C09_schema_stable_injective (progs : list (list Schema.req)) sched :
  let s := Schema.run true (Schema.init progs) sched in
  (forall t r v, In t (Schema.threads s) -> In (r, v) (Schema.results t) -> Schema.lookup s r = Some v) /\
  (forall t1 t2 r1 r2 v1 v2, In t1 (Schema.threads s) -> In t2 (Schema.threads s) ->
     In (r1, v1) (Schema.results t1) -> In (r2, v2) (Schema.results t2) ->
     fst r1 = fst r2 -> (snd r1 = snd r2 <-> v1 = v2)).
Proof. exact (Schema.schema_stable_injective progs sched). Qed.
Print Assumptions C09_schema_stable_injective.

(* the code before its repair: a caller that read "no schema" appended to an object of its own *)
Theorem C09_schema_lost_update_refuted :
  let s := Schema.run false (Schema.init [[(Schema.KF, 1); (Schema.KF, 3)]; [(Schema.KT, 7)]]) [0; 1; 1; 0; 0; 0] in
  Schema.lookup s (Schema.KF, 1) = None /\ Schema.lookup s (Schema.KF, 3) = Some 0 /\
  exists t, In t (Schema.threads s) /\ In ((Schema.KF, 1), 0) (Schema.results t) /\ In ((Schema.KF, 3), 0) (Schema.results t).
Proof. exact Schema.schema_lost_update_refuted. Qed.
Print Assumptions C09_schema_lost_update_refuted.

(* concurrent get-or-create of one bucket of the index kv store with PrepareFlush and Flush placed anywhere between the
   callers' steps (events: caller i, PrepareFlush, Flush), every program and every schedule: all callers agree on a name,
   different names have different ids, and what a caller was given is what a later lookup finds - in memory, in the
   immutable part or in the files *)
From LinDBV.C09 Require Flush FlushProofs.
Theorem C09_flush_stable_injective (progs : list (list nat)) sched :
  let s := Flush.run true true (Flush.init progs) sched in
  (forall t1 t2 n1 v1 n2 v2, In t1 (Flush.threads s) -> In t2 (Flush.threads s) ->
     In (n1, v1) (Flush.results t1) -> In (n2, v2) (Flush.results t2) -> (n1 = n2 <-> v1 = v2)) /\
  (forall t n v, In t (Flush.threads s) -> In (n, v) (Flush.results t) -> Flush.lookup s n = Some v).
Proof. exact (FlushProofs.flush_stable_injective progs sched). Qed.
Print Assumptions C09_flush_stable_injective.

(* the code before its repairs: createValue never looked into the files again (a complete flush between a caller's
   lookup and its create), and a bucket read before a flush was put back into the purged cache *)
Theorem C09_no_files_recheck_refuted :
  exists progs sched, FlushProofs.two_ids (Flush.run false true (Flush.init progs) sched) = true.
Proof. exact FlushProofs.no_files_recheck_refuted. Qed.
Print Assumptions C09_no_files_recheck_refuted.
Theorem C09_unguarded_cache_refuted :
  exists progs sched, FlushProofs.two_ids (Flush.run true false (Flush.init progs) sched) = true.
Proof. exact FlushProofs.unguarded_cache_refuted. Qed.
Print Assumptions C09_unguarded_cache_refuted.

(* the writers of the fields and tag keys of one metric and the readers of its schema, with PrepareFlush and the two halves
   of Flush placed anywhere between their steps (shared schema objects in the mutable store, the immutable store, the
   cache and the callers' hands; files written by deltas): every program and every schedule - what a writer was given is
   what a later GetSchema shows, all writers agree on a name, different names of a kind have different ids *)
From LinDBV.C09 Require SchemaFlush SchemaFlushProofs.
Theorem C09_schema_flush_stable_injective (progs : list (list SchemaFlush.sreq)) sched :
  let s := SchemaFlush.run true true true true (SchemaFlush.init progs) sched in
  (forall t r v, In t (SchemaFlush.threads s) -> In (r, v) (SchemaFlush.results t) -> SchemaFlush.lookup s r = Some v) /\
  (forall t1 t2 r1 r2 v1 v2, In t1 (SchemaFlush.threads s) -> In t2 (SchemaFlush.threads s) ->
     In (r1, v1) (SchemaFlush.results t1) -> In (r2, v2) (SchemaFlush.results t2) ->
     fst r1 = fst r2 -> (snd r1 = snd r2 <-> v1 = v2)).
Proof. exact (SchemaFlushProofs.schema_flush_stable_injective progs sched). Qed.
Print Assumptions C09_schema_flush_stable_injective.

(* the code before each of its four repairs gives two names of a kind one id *)
Theorem C09_no_immutable_recheck_refuted :
  SchemaFlushProofs.shared_id (SchemaFlush.run false true true true
    (SchemaFlush.init [[SchemaFlushProofs.f 1]; [SchemaFlushProofs.f 2]]) [0; 1; 1; 2; 0]) = true.
Proof. exact SchemaFlushProofs.no_immutable_recheck_refuted. Qed.
Print Assumptions C09_no_immutable_recheck_refuted.
Theorem C09_stale_schema_after_flush_refuted :
  SchemaFlushProofs.shared_id (SchemaFlush.run true false true true
    (SchemaFlush.init [[SchemaFlushProofs.f 1]; [SchemaFlushProofs.f 2]]) [0; 1; 1; 2; 3; 4; 0]) = true.
Proof. exact SchemaFlushProofs.stale_schema_after_flush_refuted. Qed.
Print Assumptions C09_stale_schema_after_flush_refuted.
Theorem C09_unguarded_schema_cache_refuted :
  SchemaFlushProofs.shared_id (SchemaFlush.run true true false true
    (SchemaFlush.init [[SchemaFlushProofs.f 1; SchemaFlushProofs.f 3]; [SchemaFlush.Get]; [SchemaFlushProofs.f 4]])
    [0; 0; 3; 4; 5; 1; 0; 0; 0; 3; 4; 5; 1; 2; 2; 2]) = true.
Proof. exact SchemaFlushProofs.unguarded_schema_cache_refuted. Qed.
Print Assumptions C09_unguarded_schema_cache_refuted.
Theorem C09_mark_all_persisted_refuted :
  SchemaFlushProofs.shared_id (SchemaFlush.run true true true false
    (SchemaFlush.init [[SchemaFlushProofs.f 1]; [SchemaFlushProofs.f 2]; [SchemaFlushProofs.f 3]])
    [0; 0; 3; 4; 1; 1; 5; 3; 4; 5; 2; 2; 2]) = true.
Proof. exact SchemaFlushProofs.mark_all_persisted_refuted. Qed.
Print Assumptions C09_mark_all_persisted_refuted.

(* ---- field ids of one metric (one byte; index/metric_schema_store.go genFieldID): for every history of field creations,
   every configured limit, two field names of a metric never share an id, and a given id is never changed by a later
   operation ---- *)
From LinDBV.C09 Require Fields.
Theorem C09_field_ids_injective : forall limit ops n1 n2 i,
  let l := Fields.frun limit true ops in
  Fields.fid l n1 = Some i -> Fields.fid l n2 = Some i -> n1 = n2.
Proof. exact Fields.field_ids_injective. Qed.
Print Assumptions C09_field_ids_injective.
Theorem C09_field_ids_stable : forall limit hc l o nm i,
  Fields.fid l nm = Some i -> Fields.fid (fst (Fields.fstep limit hc l o)) nm = Some i.
Proof. exact Fields.field_ids_stable. Qed.
Print Assumptions C09_field_ids_stable.
(* refuted when the configured limit (default 256) replaces the built-in cap of 255 fields *)
Theorem C09_limit_instead_of_cap_refuted :
  let l := Fields.frun 256 false (Fields.gens 257) in Fields.fid l 0 = Some 0 /\ Fields.fid l 256 = Some 0.
Proof. exact Fields.limit_instead_of_cap_refuted. Qed.
Print Assumptions C09_limit_instead_of_cap_refuted.
