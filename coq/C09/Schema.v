(* C09 — the schema of one metric under concurrent callers (index/metric_schema_store.go genFieldID / genTagKeyID).
   A row of a new metric is handled by two workers at once: the index worker creates its tag keys, the metadata worker
   its fields (tsdb/memdb/index_database.go, metadata_database.go).  Both read the metric's schema before taking the
   store's lock (GetSchema) and, holding the lock, put the object they hold into the mutable store "if not exist" and
   then find-or-append the name in the object they hold.
   [use_stored = true]: the repaired code - under the lock the object of the mutable store is used when there is one.
   [use_stored = false]: the code as it was - a caller that read "no schema" appends to an object of its own, which is
   thrown away when another caller stored one meanwhile.
   Names are nats; a field's id is its position in the field list; a tag key's id comes from a counter. *)
From Coq Require Import List Arith Lia Bool.
Import ListNotations.

Inductive kind := KF | KT.                      (* field / tag key *)
Definition kind_eqb (a b : kind) : bool := match a, b with KF, KF | KT, KT => true | _, _ => false end.
Definition req := (kind * nat)%type.            (* what to create: kind, name *)
Record schema := { fields : list (nat * nat); tagkeys : list (nat * nat) }.   (* name -> id, in creation order *)
Definition empty_schema : schema := {| fields := []; tagkeys := [] |}.

Fixpoint find (d : list (nat * nat)) (n : nat) : option nat :=
  match d with [] => None | (k, v) :: d' => if Nat.eqb k n then Some v else find d' n end.

(* find-or-append in one schema object; returns the object, the next tag-key id and the id *)
Definition gen_in (o : schema) (nextT : nat) (r : req) : schema * nat * nat :=
  match fst r with
  | KF => match find (fields o) (snd r) with
          | Some v => (o, nextT, v)
          | None => let v := length (fields o) in ({| fields := fields o ++ [(snd r, v)]; tagkeys := tagkeys o |}, nextT, v)
          end
  | KT => match find (tagkeys o) (snd r) with
          | Some v => (o, nextT, v)
          | None => ({| fields := fields o; tagkeys := tagkeys o ++ [(snd r, nextT)] |}, S nextT, nextT)
          end
  end.

(* a caller: remaining requests; after its read outside the lock: whether it saw a schema *)
Record thread := { todo : list req; seen : option bool; results : list (req * nat) }.
Record st := { stored : option schema; nextT : nat; threads : list thread }.

Definition step_thread (use_stored : bool) (so : option schema) (nt : nat) (t : thread) : option schema * nat * thread :=
  match todo t with
  | [] => (so, nt, t)
  | r :: rest =>
    match seen t with
    | None => (* GetSchema, outside the lock *)
        (so, nt, {| todo := todo t; seen := Some (match so with Some _ => true | None => false end); results := results t |})
    | Some saw =>
        (* under the lock *)
        match so with
        | Some o =>
            if use_stored || saw then
              let '(o', nt', v) := gen_in o nt r in
              (Some o', nt', {| todo := rest; seen := None; results := (r, v) :: results t |})
            else
              (* an object of its own, not stored: the mutable store holds another one *)
              let '(_, nt', v) := gen_in empty_schema nt r in
              (so, nt', {| todo := rest; seen := None; results := (r, v) :: results t |})
        | None =>
            let '(o', nt', v) := gen_in empty_schema nt r in
            (Some o', nt', {| todo := rest; seen := None; results := (r, v) :: results t |})
        end
    end
  end.

Fixpoint upd {A} (l : list A) (i : nat) (x : A) : list A :=
  match l, i with [], _ => [] | _ :: l', O => x :: l' | y :: l', S i' => y :: upd l' i' x end.
Definition step (use_stored : bool) (s : st) (i : nat) : st :=
  match nth_error (threads s) i with
  | None => s
  | Some t => let '(so, nt, t') := step_thread use_stored (stored s) (nextT s) t in
              {| stored := so; nextT := nt; threads := upd (threads s) i t' |}
  end.
Definition run (use_stored : bool) (s : st) (sched : list nat) : st := fold_left (step use_stored) sched s.
Definition init (progs : list (list req)) : st :=
  {| stored := None; nextT := 0; threads := map (fun p => {| todo := p; seen := None; results := [] |}) progs |}.

(* what a later lookup finds *)
Definition lookup (s : st) (r : req) : option nat :=
  match stored s with
  | None => None
  | Some o => match fst r with KF => find (fields o) (snd r) | KT => find (tagkeys o) (snd r) end
  end.

(* ---------------- proofs (the repaired code) ---------------- *)
Definition wf_schema (o : schema) (nt : nat) : Prop :=
  (forall n v, find (fields o) n = Some v -> v < length (fields o)) /\
  (forall n1 n2 v, find (fields o) n1 = Some v -> find (fields o) n2 = Some v -> n1 = n2) /\
  (forall n v, find (tagkeys o) n = Some v -> v < nt) /\
  (forall n1 n2 v, find (tagkeys o) n1 = Some v -> find (tagkeys o) n2 = Some v -> n1 = n2).

Lemma find_app_some d d' n v : find d n = Some v -> find (d ++ d') n = Some v.
Proof. induction d as [|[k w] d IH]; cbn; [discriminate|]. destruct (Nat.eqb k n); auto. Qed.
Lemma find_app_none d k w n : find d n = None -> find (d ++ [(k, w)]) n = if Nat.eqb k n then Some w else None.
Proof. induction d as [|[k' w'] d IH]; cbn; [destruct (Nat.eqb k n); reflexivity|]. destruct (Nat.eqb k' n); [discriminate|exact IH]. Qed.
Lemma find_app_inv d k w n v : find (d ++ [(k, w)]) n = Some v -> find d n = Some v \/ (find d n = None /\ k = n /\ v = w).
Proof.
  destruct (find d n) as [x|] eqn:E.
  - rewrite (find_app_some d [(k, w)] n x E). intros H. left. exact H.
  - rewrite (find_app_none d k w n E). destruct (Nat.eqb_spec k n); [|discriminate]. intros H. inversion H. right. auto.
Qed.

Definition Inv (s : st) : Prop :=
  match stored s with
  | None => forall t, In t (threads s) -> results t = []
  | Some o => wf_schema o (nextT s) /\
              forall t r v, In t (threads s) -> In (r, v) (results t) ->
                match fst r with KF => find (fields o) (snd r) = Some v | KT => find (tagkeys o) (snd r) = Some v end
  end.

Lemma In_upd {A} (l : list A) i x y : In y (upd l i x) -> y = x \/ In y l.
Proof. revert i; induction l as [|a l IH]; intros [|i] H; simpl in *; try tauto.
  - destruct H; auto. - destruct H; auto. destruct (IH _ H); auto. Qed.
Lemma nth_error_In' {A} (l : list A) i x : nth_error l i = Some x -> In x l.
Proof. apply nth_error_In. Qed.

Lemma app_wf (d : list (nat * nat)) n w (bound : nat) :
  (forall m v, find d m = Some v -> v < bound) ->
  (forall n1 n2 v, find d n1 = Some v -> find d n2 = Some v -> n1 = n2) ->
  find d n = None -> bound <= w ->
  (forall m v, find (d ++ [(n, w)]) m = Some v -> v < S w) /\
  (forall n1 n2 v, find (d ++ [(n, w)]) n1 = Some v -> find (d ++ [(n, w)]) n2 = Some v -> n1 = n2).
Proof.
  intros B I E Hb. split.
  - intros m v H. apply find_app_inv in H. destruct H as [H|[_ [_ ->]]]; [specialize (B _ _ H)|]; lia.
  - intros n1 n2 v H1 H2. apply find_app_inv in H1, H2.
    destruct H1 as [H1|[N1 [E1 W1]]], H2 as [H2|[N2 [E2 W2]]].
    + eapply I; eauto.
    + specialize (B _ _ H1). lia.
    + specialize (B _ _ H2). lia.
    + congruence.
Qed.
Lemma gen_in_wf o nt r : wf_schema o nt ->
  let '(o', nt', v) := gen_in o nt r in
  wf_schema o' nt' /\ nt <= nt' /\
  (match fst r with KF => find (fields o') (snd r) = Some v | KT => find (tagkeys o') (snd r) = Some v end) /\
  (forall n w, find (fields o) n = Some w -> find (fields o') n = Some w) /\
  (forall n w, find (tagkeys o) n = Some w -> find (tagkeys o') n = Some w).
Proof.
  intros [F1 [F2 [T1 T2]]]. destruct r as [[|] n]; unfold gen_in; cbn [fst snd].
  - destruct (find (fields o) n) as [v|] eqn:E.
    + split; [repeat split; assumption|]. split; [lia|]. split; [exact E|]. split; auto.
    + cbn [fields tagkeys].
      destruct (app_wf (fields o) n (length (fields o)) (length (fields o)) F1 F2 E (le_n _)) as [A B].
      split; [|split; [lia|split; [|split]]].
      * split; [|split; [exact B|split; assumption]].
        intros m v H. specialize (A m v H). unfold fields at 1. rewrite app_length. cbn [length]. lia.
      * rewrite (find_app_none _ _ _ _ E), Nat.eqb_refl. reflexivity.
      * intros m w H. apply find_app_some, H.
      * auto.
  - destruct (find (tagkeys o) n) as [v|] eqn:E.
    + split; [repeat split; assumption|]. split; [lia|]. split; [exact E|]. split; auto.
    + cbn [fields tagkeys].
      destruct (app_wf (tagkeys o) n nt nt T1 T2 E (le_n _)) as [A B].
      split; [|split; [lia|split; [|split]]].
      * split; [exact F1|split; [exact F2|split; [exact A|exact B]]].
      * rewrite (find_app_none _ _ _ _ E), Nat.eqb_refl. reflexivity.
      * auto.
      * intros m w H. apply find_app_some, H.
Qed.
Lemma wf_empty nt : wf_schema empty_schema nt.
Proof. repeat split; cbn; intros; discriminate. Qed.
Lemma wf_mono o nt nt' : wf_schema o nt -> nt <= nt' -> wf_schema o nt'.
Proof. intros [F1 [F2 [T1 T2]]] H. repeat split; auto. intros n v Hf. specialize (T1 _ _ Hf). lia. Qed.

Lemma step_inv s i : Inv s -> Inv (step true s i).
Proof.
  intros HI. unfold step. destruct (nth_error (threads s) i) as [t|] eqn:Et; [|exact HI].
  pose proof (nth_error_In' _ _ _ Et) as Hin.
  unfold step_thread. destruct (todo t) as [|r rest] eqn:Etodo.
  - unfold Inv in *. cbn [stored nextT threads]. destruct (stored s) as [o|].
    + destruct HI as [Hw Hr]. split; [exact Hw|]. intros t' r v H Hres. apply In_upd in H.
      destruct H as [->|H]; [exact (Hr t r v Hin Hres)|exact (Hr t' r v H Hres)].
    + intros t' H. apply In_upd in H. destruct H as [->|H]; [exact (HI t Hin)|exact (HI t' H)].
  - destruct (seen t) as [saw|] eqn:Es.
    + cbn [orb]. destruct (stored s) as [o|] eqn:Eso.
      * unfold Inv in HI. rewrite Eso in HI. destruct HI as [Hw Hr].
        pose proof (gen_in_wf o (nextT s) r Hw) as G. destruct (gen_in o (nextT s) r) as [[o' nt'] v].
        destruct G as [Hw' [Hle [Hf [Hkf Hkt]]]].
        unfold Inv. cbn [stored nextT threads]. split; [exact Hw'|].
        intros t' r' v' H Hres. apply In_upd in H. destruct H as [->|H].
        -- cbn [results] in Hres. destruct Hres as [E|Hres].
           ++ inversion E; subst. exact Hf.
           ++ specialize (Hr t r' v' Hin Hres). destruct (fst r'); [apply Hkf|apply Hkt]; exact Hr.
        -- specialize (Hr t' r' v' H Hres). destruct (fst r'); [apply Hkf|apply Hkt]; exact Hr.
      * unfold Inv in HI. rewrite Eso in HI.
        pose proof (gen_in_wf empty_schema (nextT s) r (wf_empty _)) as G.
        destruct (gen_in empty_schema (nextT s) r) as [[o' nt'] v]. destruct G as [Hw' [Hle [Hf _]]].
        unfold Inv. cbn [stored nextT threads]. split; [exact Hw'|].
        intros t' r' v' H Hres. apply In_upd in H. destruct H as [->|H].
        -- cbn [results] in Hres. rewrite (HI t Hin) in Hres. destruct Hres as [E|[]]. inversion E; subst. exact Hf.
        -- rewrite (HI t' H) in Hres. destruct Hres.
    + unfold Inv in *. cbn [stored nextT threads]. destruct (stored s) as [o|].
      * destruct HI as [Hw Hr]. split; [exact Hw|]. intros t' r' v' H Hres. apply In_upd in H.
        destruct H as [->|H]; [cbn [results] in Hres; exact (Hr t r' v' Hin Hres)|exact (Hr t' r' v' H Hres)].
      * intros t' H. apply In_upd in H. destruct H as [->|H]; [cbn [results]; exact (HI t Hin)|exact (HI t' H)].
Qed.
Theorem run_inv s sched : Inv s -> Inv (run true s sched).
Proof. revert s. induction sched as [|i sched IH]; intros s H; [exact H|]. cbn [run fold_left]. apply IH, step_inv, H. Qed.
Lemma init_inv progs : Inv (init progs).
Proof. unfold Inv, init. cbn [stored threads]. intros t H. apply in_map_iff in H. destruct H as [p [<- _]]. reflexivity. Qed.

(* every schedule of every number of callers: what a caller was given is what a later lookup finds (stable), all
   callers agree on a name, and different names of one kind have different ids *)
Theorem schema_stable_injective (progs : list (list req)) sched :
  let s := run true (init progs) sched in
  (forall t r v, In t (threads s) -> In (r, v) (results t) -> lookup s r = Some v) /\
  (forall t1 t2 r1 r2 v1 v2, In t1 (threads s) -> In t2 (threads s) -> In (r1, v1) (results t1) -> In (r2, v2) (results t2) ->
     fst r1 = fst r2 -> (snd r1 = snd r2 <-> v1 = v2)).
Proof.
  cbn zeta. pose proof (run_inv (init progs) sched (init_inv progs)) as HI.
  set (s := run true (init progs) sched) in *. unfold Inv in HI. unfold lookup.
  destruct (stored s) as [o|] eqn:Eso.
  - destruct HI as [[F1 [F2 [T1 T2]]] Hr]. split.
    + intros t r v Ht Hres. specialize (Hr t r v Ht Hres). destruct (fst r); exact Hr.
    + intros t1 t2 r1 r2 v1 v2 H1 H2 R1 R2 Ek.
      pose proof (Hr t1 r1 v1 H1 R1) as A. pose proof (Hr t2 r2 v2 H2 R2) as B. rewrite <- Ek in B.
      destruct (fst r1); split; intros E.
      * rewrite E in A. congruence.
      * subst v2. eapply F2; eauto.
      * rewrite E in A. congruence.
      * subst v2. eapply T2; eauto.
  - split.
    + intros t r v Ht Hres. rewrite (HI t Ht) in Hres. destruct Hres.
    + intros t1 t2 r1 r2 v1 v2 H1 _ R1. rewrite (HI t1 H1) in R1. destruct R1.
Qed.

(* the code as it was: the index worker (tag key 7) and the metadata worker (fields 1, 3) of the first row of a metric *)
Theorem schema_lost_update_refuted :
  let s := run false (init [[(KF, 1); (KF, 3)]; [(KT, 7)]]) [0; 1; 1; 0; 0; 0] in
  lookup s (KF, 1) = None /\ lookup s (KF, 3) = Some 0 /\
  exists t, In t (threads s) /\ In ((KF, 1), 0) (results t) /\ In ((KF, 3), 0) (results t).
Proof. vm_compute. repeat split. eexists. split; [left; reflexivity|]. split; [right; left; reflexivity|left; reflexivity]. Qed.
