(* C09 — the schema of ONE metric in the schema store (index/metric_schema_store.go) under concurrent callers AND
   PrepareFlush / Flush placed anywhere between their steps.

   Schemas are shared, mutable objects: the mutable store, the immutable store, the cache and the callers hold pointers;
   an append through one pointer is seen through all of them.  The model keeps a heap of objects and indices into it.
   An object carries the number of its fields / tag keys already written to the files (Persisted marks: always a prefix,
   entries are only appended).  The files hold the entries written so far (each Flush appends the unwritten entries).

   A caller (genFieldID / genTagKeyID): notes the flush counter, GetSchema (mutable, immutable, cache, files - a schema
   read from the files is a fresh object, which is then put into the cache), takes the lock, decides which object to
   write to (mutableSchema) and finds or appends the name there.  A reader only does GetSchema.
   PrepareFlush swaps mutable into immutable.  Flush writes the unwritten entries of the immutable schema to a new file
   (first half), then - under the lock - marks entries persisted, drops immutable, purges the cache (second half).

   Four switches describe the code before its repairs:
   [recheck_imm = false]: under the lock only the mutable store was looked up again - a schema another caller created
       and PrepareFlush moved to immutable between this caller's read and its locked part is missed: a second object;
   [recheck_seq = false]: the schema read before the lock is used even when a flush completed meanwhile - it may lack
       entries that went to the files since;
   [guard_cache = false]: a schema read from the files before a flush is cached after the flush purged the cache;
   [mark_written = false]: the second half of Flush marks ALL entries of the schema persisted, also those appended
       while the first half was writing - they are never written.
   With all four on (the repaired code) the model carries the proofs in SchemaFlushProofs.v. *)
From Coq Require Import List Arith Lia Bool.
Import ListNotations.
From LinDBV.C09 Require Import Schema.

Inductive sreq := Get | Gen (r : req).

Record obj := { sc : schema; pf : nat; pt : nat }.      (* content, written fields, written tag keys *)
Definition empty_obj : obj := {| sc := empty_schema; pf := 0; pt := 0 |}.
Definition clean (c : schema) : obj := {| sc := c; pf := length (fields c); pt := length (tagkeys c) |}.

Inductive phase :=
| Idle
| Loaded (seq : nat) (c : schema)           (* read from the files, not yet cached *)
| Ready (seq : nat) (p : option nat).       (* GetSchema returned p (None = nil), before the lock *)

Record thread := { todo : list sreq; ph : phase; results : list (req * nat) }.

Record st := {
  heap : nat -> obj; hlen : nat;
  mutb : option nat;                 (* the metric's entry of the mutable store *)
  imm : option (option nat);         (* None: no immutable store; Some None: one without the metric *)
  kv : option schema;                (* what the files hold for the metric *)
  cache : option nat;
  fseq : nat;                        (* completed flushes *)
  flushing : option (nat * nat);     (* Flush between its halves: fields / tag keys of the schema when it was written *)
  nextT : nat;
  threads : list thread }.

Definition set_heap (h : nat -> obj) (i : nat) (o : obj) : nat -> obj := fun j => if Nat.eqb j i then o else h j.

Definition done (t : thread) (rest : list sreq) (res : list (req * nat)) : thread :=
  {| todo := rest; ph := Idle; results := res |}.
Definition goto (t : thread) (p : phase) : thread := {| todo := todo t; ph := p; results := results t |}.

Definition mem_obj (s : st) : option nat :=
  match mutb s with
  | Some m => Some m
  | None => match imm s with Some (Some i) => Some i | _ => None end
  end.

Section Code.
Variables recheck_imm recheck_seq guard_cache mark_written : bool.

Definition with_thread (s : st) (i : nat) (t' : thread) : st :=
  {| heap := heap s; hlen := hlen s; mutb := mutb s; imm := imm s; kv := kv s; cache := cache s; fseq := fseq s;
     flushing := flushing s; nextT := nextT s; threads := upd (threads s) i t' |}.

(* after GetSchema returned [p]: a reader is done, a writer goes on to the lock *)
Definition after_get (t : thread) (rq : sreq) (rest : list sreq) (seq : nat) (p : option nat) : thread :=
  match rq with
  | Get => done t rest (results t)
  | Gen _ => goto t (Ready seq p)
  end.

(* one caller runs up to its next scheduling point *)
Definition step_thread (s : st) (i : nat) (t : thread) : st :=
  match todo t with
  | [] => s
  | rq :: rest =>
    match ph t with
    | Idle =>
      match mem_obj s with
      | Some m => with_thread s i (after_get t rq rest (fseq s) (Some m))
      | None =>
        match cache s with
        | Some c => with_thread s i (after_get t rq rest (fseq s) (Some c))
        | None =>
          match kv s with
          | None => with_thread s i (after_get t rq rest (fseq s) None)
          | Some c => with_thread s i (goto t (Loaded (fseq s) c))
          end
        end
      end
    | Loaded seq c =>
      let h := hlen s in
      let c' := if guard_cache then (if Nat.eqb (fseq s) seq then Some h else cache s) else Some h in
      {| heap := set_heap (heap s) h (clean c); hlen := S h; mutb := mutb s; imm := imm s; kv := kv s; cache := c';
         fseq := fseq s; flushing := flushing s; nextT := nextT s;
         threads := upd (threads s) i (after_get t rq rest seq (Some h)) |}
    | Ready seq p =>
      match rq with
      | Get => with_thread s i (done t rest (results t))
      | Gen r =>
        (* mutableSchema: the object to write to, and the heap / mutable entry after it *)
        let '(hp, hl, target) :=
          match mutb s with
          | Some m => (heap s, hlen s, m)
          | None =>
            match (if recheck_imm then (match imm s with Some (Some x) => Some x | _ => None end) else None) with
            | Some x => (heap s, hlen s, x)
            | None =>
              if recheck_seq && negb (Nat.eqb (fseq s) seq) then
                (* read again from the files *)
                (set_heap (heap s) (hlen s) (match kv s with Some c => clean c | None => empty_obj end), S (hlen s), hlen s)
              else
                match p with
                | Some x => (heap s, hlen s, x)
                | None => (set_heap (heap s) (hlen s) empty_obj, S (hlen s), hlen s)
                end
            end
          end in
        let o := hp target in
        let '(c', nt', v) := gen_in (sc o) (nextT s) r in
        {| heap := set_heap hp target {| sc := c'; pf := pf o; pt := pt o |}; hlen := hl; mutb := Some target;
           imm := imm s; kv := kv s; cache := cache s; fseq := fseq s; flushing := flushing s; nextT := nt';
           threads := upd (threads s) i (done t rest ((r, v) :: results t)) |}
      end
    end
  end.

Definition prepare_flush (s : st) : st :=
  match imm s with
  | None => {| heap := heap s; hlen := hlen s; mutb := None; imm := Some (mutb s); kv := kv s; cache := cache s;
               fseq := fseq s; flushing := flushing s; nextT := nextT s; threads := threads s |}
  | Some _ => s
  end.

Definition kv_fields (k : option schema) := match k with Some c => fields c | None => [] end.
Definition kv_tagkeys (k : option schema) := match k with Some c => tagkeys c | None => [] end.

(* first half of Flush: an immutable store without the metric is released; else the unwritten entries go to the files *)
Definition flush_begin (s : st) : st :=
  match flushing s with
  | Some _ => s
  | None =>
    match imm s with
    | None => s
    | Some None => {| heap := heap s; hlen := hlen s; mutb := mutb s; imm := None; kv := kv s; cache := cache s;
                      fseq := fseq s; flushing := None; nextT := nextT s; threads := threads s |}
    | Some (Some x) =>
      let o := heap s x in
      let k' := {| fields := kv_fields (kv s) ++ skipn (pf o) (fields (sc o));
                   tagkeys := kv_tagkeys (kv s) ++ skipn (pt o) (tagkeys (sc o)) |} in
      {| heap := heap s; hlen := hlen s; mutb := mutb s; imm := imm s; kv := Some k'; cache := cache s;
         fseq := fseq s; flushing := Some (length (fields (sc o)), length (tagkeys (sc o))); nextT := nextT s;
         threads := threads s |}
    end
  end.

Definition flush_end (s : st) : st :=
  match flushing s, imm s with
  | Some (nf, nt), Some (Some x) =>
    let o := heap s x in
    let o' := if mark_written then {| sc := sc o; pf := nf; pt := nt |}
              else {| sc := sc o; pf := length (fields (sc o)); pt := length (tagkeys (sc o)) |} in
    {| heap := set_heap (heap s) x o'; hlen := hlen s; mutb := mutb s; imm := None; kv := kv s; cache := None;
       fseq := S (fseq s); flushing := None; nextT := nextT s; threads := threads s |}
  | _, _ => s
  end.

(* event i: caller i for i < number of callers; then PrepareFlush, first half of Flush, second half of Flush *)
Definition step (s : st) (i : nat) : st :=
  match nth_error (threads s) i with
  | Some t => step_thread s i t
  | None =>
    let k := i - length (threads s) in
    match k with
    | 0 => prepare_flush s
    | 1 => flush_begin s
    | _ => flush_end s
    end
  end.
Definition run (s : st) (sched : list nat) : st := fold_left step sched s.
End Code.

Definition init (progs : list (list sreq)) : st :=
  {| heap := fun _ => empty_obj; hlen := 0; mutb := None; imm := None; kv := None; cache := None; fseq := 0;
     flushing := None; nextT := 0; threads := map (fun p => {| todo := p; ph := Idle; results := [] |}) progs |}.

(* what GetSchema gives afterwards *)
Definition current (s : st) : option schema :=
  match mem_obj s with
  | Some m => Some (sc (heap s m))
  | None => match cache s with Some c => Some (sc (heap s c)) | None => kv s end
  end.
Definition lookup (s : st) (r : req) : option nat :=
  match current s with
  | None => None
  | Some o => match fst r with KF => find (fields o) (snd r) | KT => find (tagkeys o) (snd r) end
  end.
