(* C09 — proofs about the schema store with flushes (SchemaFlush.v): with the four repairs every schedule of callers,
   readers, PrepareFlush and the two halves of Flush keeps one schema "the truth" - the object of the memory stores when
   there is one, else what the files hold - every id ever given is found there, a name has one id and the ids of a kind
   are distinct; without any one of the four a schedule gives two names one id. *)
From Coq Require Import List Arith Lia Bool.
Import ListNotations.
From LinDBV.C09 Require Import Schema SchemaFlush.

Definition kvs (s : st) : schema := match kv s with Some c => c | None => empty_schema end.
Definition truth (s : st) : schema := match mem_obj s with Some m => sc (heap s m) | None => kvs s end.
Definition isclean (s : st) (x : nat) : Prop := exists k, kv s = Some k /\ heap s x = clean k.
Definition ok (s : st) (x : nat) : Prop :=
  x < hlen s /\ (mem_obj s = Some x \/ flushing s <> None \/ isclean s x).
Definition found (c : schema) (r : req) (v : nat) : Prop :=
  match fst r with KF => find (fields c) (snd r) = Some v | KT => find (tagkeys c) (snd r) = Some v end.
Definition keff (s : st) (o : obj) : nat * nat := match flushing s with Some p => p | None => (pf o, pt o) end.

Definition pinv (s : st) (t : thread) : Prop :=
  match ph t with
  | Idle => True
  | Loaded seq c => seq <= fseq s /\ (seq = fseq s -> flushing s = None -> kv s = Some c)
  | Ready seq p => seq <= fseq s /\
      (seq = fseq s -> match p with Some x => ok s x | None => flushing s = None -> kv s = None end)
  end.
Definition tinv (s : st) (t : thread) : Prop :=
  (forall r v, In (r, v) (results t) -> found (truth s) r v) /\ pinv s t.

Record Inv (s : st) : Prop := {
  iA : forall m i, mutb s = Some m -> imm s = Some (Some i) -> m = i;
  iB : forall m, mem_obj s = Some m -> m < hlen s;
  iF : forall nf nt, flushing s = Some (nf, nt) -> exists x, imm s = Some (Some x) /\
         nf <= length (fields (sc (heap s x))) /\ nt <= length (tagkeys (sc (heap s x))) /\
         (mutb s = None -> length (fields (sc (heap s x))) = nf /\ length (tagkeys (sc (heap s x))) = nt);
  iW : wf_schema (truth s) (nextT s);
  iK : forall m, mem_obj s = Some m ->
         fst (keff s (heap s m)) <= length (fields (sc (heap s m))) /\
         snd (keff s (heap s m)) <= length (tagkeys (sc (heap s m))) /\
         fields (kvs s) = firstn (fst (keff s (heap s m))) (fields (sc (heap s m))) /\
         tagkeys (kvs s) = firstn (snd (keff s (heap s m))) (tagkeys (sc (heap s m)));
  iC : forall c, cache s = Some c -> ok s c;
  iT : Forall (tinv s) (threads s) }.

(* ---------- small facts ---------- *)
Lemma set_heap_same h i o : set_heap h i o i = o.
Proof. unfold set_heap. rewrite Nat.eqb_refl. reflexivity. Qed.
Lemma set_heap_other h i o j : j <> i -> set_heap h i o j = h j.
Proof. intros H. unfold set_heap. destruct (Nat.eqb_spec j i); [contradiction|reflexivity]. Qed.

Lemma gen_in_ext c nt r :
  let '(c', _, _) := gen_in c nt r in
  exists l1 l2, fields c' = fields c ++ l1 /\ tagkeys c' = tagkeys c ++ l2.
Proof.
  unfold gen_in. destruct (fst r).
  - destruct (find (fields c) (snd r)).
    + exists [], []. rewrite !app_nil_r. auto.
    + exists [(snd r, length (fields c))], []. cbn. rewrite app_nil_r. auto.
  - destruct (find (tagkeys c) (snd r)).
    + exists [], []. rewrite !app_nil_r. auto.
    + exists [], [(snd r, nt)]. cbn. rewrite app_nil_r. auto.
Qed.

Lemma firstn_app_le {A} (l l' : list A) k : k <= length l -> firstn k (l ++ l') = firstn k l.
Proof.
  intros H. rewrite firstn_app. replace (k - length l) with 0 by lia. cbn. apply app_nil_r.
Qed.

Lemma Forall_upd {A} (P : A -> Prop) l i x : Forall P l -> P x -> Forall P (upd l i x).
Proof.
  revert i. induction l as [|y l IH]; intros i Hl Hx; [destruct i; constructor|].
  inversion Hl as [|? ? Hy Hl']. subst. destruct i; cbn; constructor; auto.
Qed.
Lemma Forall_impl' {A} (P Q : A -> Prop) l : (forall x, P x -> Q x) -> Forall P l -> Forall Q l.
Proof. intros H F. eapply Forall_impl; [exact H|exact F]. Qed.

(* a step that keeps the flush counter, the flush state and the files, keeps pointers good and the truth growing,
   keeps every caller's invariant *)
Lemma tinv_stable s s' t :
  fseq s' = fseq s -> flushing s' = flushing s -> kv s' = kv s ->
  (forall x, ok s x -> ok s' x) ->
  (forall r v, found (truth s) r v -> found (truth s') r v) ->
  tinv s t -> tinv s' t.
Proof.
  intros E1 E2 E3 Hok Hf [R P]. split.
  - intros r v H. apply Hf. exact (R r v H).
  - unfold pinv in *. destruct (ph t) as [|seq c|seq p].
    + exact I.
    + rewrite E1, E2, E3. exact P.
    + rewrite E1, E2, E3. destruct P as [Hle P]. split; [exact Hle|].
      intros E. specialize (P E). destruct p as [x|]; [apply Hok; exact P|exact P].
Qed.

Lemma imm_mem s x : Inv s -> imm s = Some (Some x) -> mem_obj s = Some x.
Proof.
  intros HI E. unfold mem_obj. destruct (mutb s) as [m|] eqn:Em.
  - f_equal. exact (iA s HI m x Em E).
  - rewrite E. reflexivity.
Qed.
Lemma flushing_mem s p : Inv s -> flushing s = Some p -> exists x, mem_obj s = Some x /\ imm s = Some (Some x).
Proof.
  intros HI E. destruct p as [nf nt]. destruct (iF s HI nf nt E) as [x [Ei _]].
  exists x. split; [exact (imm_mem s x HI Ei)|exact Ei].
Qed.
Lemma nomem_noflush s : Inv s -> mem_obj s = None -> flushing s = None.
Proof.
  intros HI E. destruct (flushing s) as [p|] eqn:Ef; [|reflexivity].
  destruct (flushing_mem s p HI Ef) as [x [Hx _]]. congruence.
Qed.

(* ---------- a caller's step that only changes the caller ---------- *)
Lemma with_thread_inv s i t' : Inv s -> tinv s t' -> Inv (with_thread s i t').
Proof.
  intros HI Ht. destruct HI as [A B F W K C T].
  constructor; try assumption.
  change (Forall (tinv s) (upd (threads s) i t')). apply Forall_upd; assumption.
Qed.

Lemma after_get_tinv s t rq rest p :
  (forall r v, In (r, v) (results t) -> found (truth s) r v) ->
  match p with Some x => ok s x | None => flushing s = None -> kv s = None end ->
  tinv s (after_get t rq rest (fseq s) p).
Proof.
  intros R P. destruct rq as [|r]; unfold after_get, tinv, pinv; cbn; split; auto.
Qed.

Lemma step_idle s i t rq rest :
  Inv s -> In t (threads s) -> todo t = rq :: rest -> ph t = Idle ->
  Inv (step_thread true true true s i t).
Proof.
  intros HI Hin Et Ep. unfold step_thread. rewrite Et, Ep.
  assert (R : forall r v, In (r, v) (results t) -> found (truth s) r v).
  { pose proof (iT s HI) as T. rewrite Forall_forall in T. exact (proj1 (T t Hin)). }
  destruct (mem_obj s) as [m|] eqn:Em.
  - apply with_thread_inv; [exact HI|]. apply after_get_tinv; [exact R|].
    split; [exact (iB s HI m Em)|left; exact Em].
  - destruct (cache s) as [c|] eqn:Ec.
    + apply with_thread_inv; [exact HI|]. apply after_get_tinv; [exact R|]. exact (iC s HI c Ec).
    + destruct (kv s) as [c|] eqn:Ek.
      * apply with_thread_inv; [exact HI|]. split; [exact R|]. unfold pinv; cbn. split; [lia|]. intros _ _. exact Ek.
      * apply with_thread_inv; [exact HI|]. apply after_get_tinv; [exact R|]. intros _. exact Ek.
Qed.

(* ---------- the caller caches what it read from the files ---------- *)
Lemma step_loaded s i t rq rest seq c :
  Inv s -> In t (threads s) -> todo t = rq :: rest -> ph t = Loaded seq c ->
  Inv (step_thread true true true s i t).
Proof.
  intros HI Hin Et Ep. unfold step_thread. rewrite Et, Ep. cbn match.
  pose proof (iT s HI) as T. rewrite Forall_forall in T. destruct (T t Hin) as [R P].
  unfold pinv in P. rewrite Ep in P. destruct P as [Hle Hkv].
  set (h := hlen s).
  set (s' := {| heap := set_heap (heap s) h (clean c); hlen := S h; mutb := mutb s; imm := imm s; kv := kv s;
                cache := if Nat.eqb (fseq s) seq then Some h else cache s; fseq := fseq s; flushing := flushing s;
                nextT := nextT s; threads := upd (threads s) i (after_get t rq rest seq (Some h)) |}).
  assert (Hheap : forall x, x < h -> heap s' x = heap s x).
  { intros x Hx. cbn. apply set_heap_other. lia. }
  assert (Hmem : mem_obj s' = mem_obj s) by reflexivity.
  assert (Htruth : truth s' = truth s).
  { unfold truth. rewrite Hmem. destruct (mem_obj s) as [m|] eqn:Em; [|reflexivity].
    rewrite (Hheap m (iB s HI m Em)). reflexivity. }
  assert (Hok : forall x, ok s x -> ok s' x).
  { intros x [Hx Hd]. split; [cbn; lia|]. destruct Hd as [Hd|[Hd|[k [Hk Hc]]]].
    - left. exact Hd.
    - right. left. exact Hd.
    - right. right. exists k. split; [exact Hk|]. rewrite (Hheap x Hx). exact Hc. }
  assert (Hnew : seq = fseq s -> ok s' h).
  { intros E. split; [cbn; lia|]. destruct (flushing s) as [p|] eqn:Ef.
    - right. left. cbn. discriminate.
    - right. right. exists c. split; [exact (Hkv E eq_refl)|]. cbn. apply set_heap_same. }
  constructor.
  - exact (iA s HI).
  - intros m Em. rewrite Hmem in Em. cbn. specialize (iB s HI m Em). fold h. lia.
  - intros nf nt Ef. destruct (iF s HI nf nt Ef) as [x [Ei Hx]]. exists x. split; [exact Ei|].
    rewrite (Hheap x (iB s HI x (imm_mem s x HI Ei))). exact Hx.
  - rewrite Htruth. exact (iW s HI).
  - intros m Em. rewrite Hmem in Em. rewrite (Hheap m (iB s HI m Em)). exact (iK s HI m Em).
  - intros c0 Ec. cbn in Ec. destruct (Nat.eqb_spec (fseq s) seq) as [E|E].
    + inversion Ec. subst c0. apply Hnew. auto.
    + apply Hok. exact (iC s HI c0 Ec).
  - change (Forall (tinv s') (upd (threads s) i (after_get t rq rest seq (Some h)))). apply Forall_upd.
    + rewrite Forall_forall. intros x Hx. apply (tinv_stable s s'); try reflexivity.
      * exact Hok.
      * rewrite Htruth. auto.
      * exact (T x Hx).
    + destruct rq as [|r]; unfold after_get, tinv, pinv; cbn [done goto results ph].
      * split; [rewrite Htruth; exact R|exact I].
      * split; [rewrite Htruth; exact R|]. split; [exact Hle|]. intros E. apply Hnew. exact E.
Qed.

(* ---------- PrepareFlush ---------- *)
Lemma prepare_flush_inv s : Inv s -> Inv (prepare_flush s).
Proof.
  intros HI. unfold prepare_flush. destruct (imm s) as [im|] eqn:Ei; [exact HI|].
  assert (Hnf : flushing s = None).
  { destruct (flushing s) as [p|] eqn:Ef; [|reflexivity].
    destruct (flushing_mem s p HI Ef) as [x [_ Hx]]. congruence. }
  set (s' := {| heap := heap s; hlen := hlen s; mutb := None; imm := Some (mutb s); kv := kv s; cache := cache s;
                fseq := fseq s; flushing := flushing s; nextT := nextT s; threads := threads s |}).
  assert (Hmem : mem_obj s' = mem_obj s).
  { unfold mem_obj. cbn. rewrite Ei. destruct (mutb s); reflexivity. }
  assert (Htruth : truth s' = truth s) by (unfold truth; rewrite Hmem; reflexivity).
  assert (Hok : forall x, ok s x -> ok s' x).
  { intros x [Hx Hd]. split; [exact Hx|]. rewrite Hmem. exact Hd. }
  constructor.
  - intros m i0 Em. discriminate Em.
  - intros m Em. rewrite Hmem in Em. exact (iB s HI m Em).
  - intros nf nt Ef. change (flushing s = Some (nf, nt)) in Ef. congruence.
  - rewrite Htruth. exact (iW s HI).
  - intros m Em. rewrite Hmem in Em. exact (iK s HI m Em).
  - intros c Ec. apply Hok. exact (iC s HI c Ec).
  - change (Forall (tinv s') (threads s)). eapply Forall_impl'; [|exact (iT s HI)].
    intros t Ht. apply (tinv_stable s s'); try reflexivity; [exact Hok|rewrite Htruth; auto|exact Ht].
Qed.

Lemma kv_fields_kvs s : kv_fields (kv s) = fields (kvs s).
Proof. unfold kv_fields, kvs. destruct (kv s); reflexivity. Qed.
Lemma kv_tagkeys_kvs s : kv_tagkeys (kv s) = tagkeys (kvs s).
Proof. unfold kv_tagkeys, kvs. destruct (kv s); reflexivity. Qed.

(* ---------- first half of Flush ---------- *)
Lemma flush_begin_inv s : Inv s -> Inv (flush_begin s).
Proof.
  intros HI. unfold flush_begin. destruct (flushing s) as [p|] eqn:Ef; [exact HI|].
  destruct (imm s) as [[x|]|] eqn:Ei; [| |exact HI].
  - (* the metric's schema is written *)
    pose proof (imm_mem s x HI Ei) as Em.
    pose proof (iK s HI x Em) as K. unfold keff in K. rewrite Ef in K. cbn [fst snd] in K.
    destruct K as [Kf [Kt [Kff Ktt]]].
    set (o := heap s x) in *.
    set (k' := {| fields := kv_fields (kv s) ++ skipn (pf o) (fields (sc o));
                  tagkeys := kv_tagkeys (kv s) ++ skipn (pt o) (tagkeys (sc o)) |}).
    assert (Hkf : fields k' = fields (sc o)).
    { cbn. rewrite kv_fields_kvs, Kff. apply firstn_skipn. }
    assert (Hkt : tagkeys k' = tagkeys (sc o)).
    { cbn. rewrite kv_tagkeys_kvs, Ktt. apply firstn_skipn. }
    set (s' := {| heap := heap s; hlen := hlen s; mutb := mutb s; imm := Some (Some x); kv := Some k'; cache := cache s;
                  fseq := fseq s; flushing := Some (length (fields (sc o)), length (tagkeys (sc o)));
                  nextT := nextT s; threads := threads s |}).
    assert (Hmem : mem_obj s' = mem_obj s) by (unfold mem_obj; cbn; rewrite Ei; reflexivity).
    assert (Htruth : truth s' = truth s).
    { unfold truth. rewrite Hmem, Em. reflexivity. }
    assert (Hok : forall y, ok s y -> ok s' y).
    { intros y [Hy _]. split; [exact Hy|]. right. left. cbn. discriminate. }
    constructor.
    + intros m i0 Hm Hi. apply (iA s HI m i0 Hm). rewrite Ei. exact Hi.
    + intros m Hm. rewrite Hmem in Hm. exact (iB s HI m Hm).
    + intros nf nt E. cbn in E. inversion E. subst nf nt. exists x. split; [reflexivity|]. cbn. fold o. auto.
    + rewrite Htruth. exact (iW s HI).
    + intros m Em'. rewrite Hmem, Em in Em'. inversion Em'. subst m.
      unfold keff. cbn [flushing s' fst snd heap]. fold o. unfold kvs. cbn [kv s'].
      rewrite Hkf, Hkt, !firstn_all. auto.
    + intros c Ec. apply Hok. exact (iC s HI c Ec).
    + change (Forall (tinv s') (threads s)). eapply Forall_impl'; [|exact (iT s HI)].
      intros t [R P]. split; [rewrite Htruth; exact R|].
      unfold pinv in *. destruct (ph t) as [|seq c|seq q].
      * exact I.
      * destruct P as [Hle _]. split; [exact Hle|]. intros _ H. cbn in H. discriminate H.
      * destruct P as [Hle P]. split; [exact Hle|]. intros E. specialize (P E). destruct q as [y|].
        -- apply Hok. exact P.
        -- intros H. cbn in H. discriminate H.
  - (* an immutable store without the metric is released *)
    set (s' := {| heap := heap s; hlen := hlen s; mutb := mutb s; imm := None; kv := kv s; cache := cache s;
                  fseq := fseq s; flushing := None; nextT := nextT s; threads := threads s |}).
    assert (Hmem : mem_obj s' = mem_obj s).
    { unfold mem_obj. cbn. rewrite Ei. reflexivity. }
    assert (Htruth : truth s' = truth s) by (unfold truth; rewrite Hmem; reflexivity).
    assert (Hok : forall y, ok s y -> ok s' y).
    { intros y [Hy Hd]. split; [exact Hy|]. rewrite Hmem. cbn [flushing]. rewrite Ef in Hd. exact Hd. }
    constructor.
    + intros m i0 _ E. discriminate E.
    + intros m Em. rewrite Hmem in Em. exact (iB s HI m Em).
    + intros nf nt E. discriminate E.
    + rewrite Htruth. exact (iW s HI).
    + intros m Em. rewrite Hmem in Em. pose proof (iK s HI m Em) as K. unfold keff in *. rewrite Ef in K. exact K.
    + intros c Ec. apply Hok. exact (iC s HI c Ec).
    + change (Forall (tinv s') (threads s)). eapply Forall_impl'; [|exact (iT s HI)].
      intros t Ht. apply (tinv_stable s s'); try reflexivity; [cbn; auto|exact Hok|rewrite Htruth; auto|exact Ht].
Qed.

Lemma schema_eq (a b : schema) : fields a = fields b -> tagkeys a = tagkeys b -> a = b.
Proof. destruct a, b; cbn; intros -> ->; reflexivity. Qed.

(* ---------- second half of Flush ---------- *)
Lemma flush_end_inv s : Inv s -> Inv (flush_end true s).
Proof.
  intros HI. unfold flush_end. destruct (flushing s) as [[nf nt]|] eqn:Ef; [|exact HI].
  destruct (iF s HI nf nt Ef) as [x [Ei [Hnf [Hnt Hlen]]]]. rewrite Ei.
  pose proof (imm_mem s x HI Ei) as Em.
  pose proof (iK s HI x Em) as K. unfold keff in K. rewrite Ef in K. cbn [fst snd] in K.
  destruct K as [_ [_ [Kff Ktt]]].
  set (o := heap s x) in *.
  set (s' := {| heap := set_heap (heap s) x {| sc := sc o; pf := nf; pt := nt |}; hlen := hlen s; mutb := mutb s;
                imm := None; kv := kv s; cache := None; fseq := S (fseq s); flushing := None; nextT := nextT s;
                threads := threads s |}).
  assert (Hsc : forall y, sc (heap s' y) = sc (heap s y)).
  { intros y. cbn. unfold set_heap. destruct (Nat.eqb_spec y x) as [E|E]; [subst y; reflexivity|reflexivity]. }
  assert (Htruth : truth s' = truth s).
  { unfold truth at 1. unfold mem_obj. cbn [mutb imm s']. destruct (mutb s) as [m|] eqn:Emu.
    - rewrite Hsc. unfold truth, mem_obj. rewrite Emu. reflexivity.
    - destruct (Hlen eq_refl) as [L1 L2]. unfold truth. rewrite Em. fold o.
      apply schema_eq; unfold kvs; cbn [kv s'].
      + fold (kvs s). rewrite Kff, <- L1. apply firstn_all.
      + fold (kvs s). rewrite Ktt, <- L2. apply firstn_all. }
  constructor.
  - intros m i0 _ E. discriminate E.
  - intros m Hm. unfold mem_obj in Hm. cbn [mutb imm s'] in Hm. destruct (mutb s) as [m0|] eqn:Emu; [|discriminate].
    inversion Hm. subst m0. apply (iB s HI m). unfold mem_obj. rewrite Emu. reflexivity.
  - intros a b E. discriminate E.
  - rewrite Htruth. exact (iW s HI).
  - intros m Hm. unfold mem_obj in Hm. cbn [mutb imm s'] in Hm. destruct (mutb s) as [m0|] eqn:Emu; [|discriminate].
    inversion Hm. subst m0. assert (m = x) by exact (iA s HI m x Emu Ei). subst m.
    unfold keff. cbn [flushing s' fst snd heap]. rewrite set_heap_same. cbn [sc pf pt].
    unfold kvs. cbn [kv s']. fold (kvs s). auto.
  - intros c E. discriminate E.
  - change (Forall (tinv s') (threads s)). eapply Forall_impl'; [|exact (iT s HI)].
    intros t [R P]. split; [rewrite Htruth; exact R|].
    unfold pinv in *. cbn [fseq s']. destruct (ph t) as [|seq c|seq q].
    + exact I.
    + destruct P as [Hle _]. split; [lia|]. intros E. lia.
    + destruct P as [Hle _]. split; [lia|]. intros E. lia.
Qed.

(* ---------- the locked part: which object a writer writes to ---------- *)
Definition choose (s : st) (seq : nat) (p : option nat) : (nat -> obj) * nat * nat :=
  match mutb s with
  | Some m => (heap s, hlen s, m)
  | None =>
    match (match imm s with Some (Some x) => Some x | _ => None end) with
    | Some x => (heap s, hlen s, x)
    | None =>
      if negb (Nat.eqb (fseq s) seq) then
        (set_heap (heap s) (hlen s) (match kv s with Some c => clean c | None => empty_obj end), S (hlen s), hlen s)
      else
        match p with
        | Some x => (heap s, hlen s, x)
        | None => (set_heap (heap s) (hlen s) empty_obj, S (hlen s), hlen s)
        end
    end
  end.

Definition after_gen (s : st) (i : nat) (t : thread) (rest : list sreq) (r : req) (seq : nat) (p : option nat) : st :=
  let '(hp, hl, target) := choose s seq p in
  let o := hp target in
  let '(c', nt', v) := gen_in (sc o) (nextT s) r in
  {| heap := set_heap hp target {| sc := c'; pf := pf o; pt := pt o |}; hlen := hl; mutb := Some target;
     imm := imm s; kv := kv s; cache := cache s; fseq := fseq s; flushing := flushing s; nextT := nt';
     threads := upd (threads s) i (done t rest ((r, v) :: results t)) |}.

Lemma step_ready_eq s i t r rest seq p :
  todo t = Gen r :: rest -> ph t = Ready seq p ->
  step_thread true true true s i t = after_gen s i t rest r seq p.
Proof. intros Et Ep. unfold step_thread, after_gen, choose. rewrite Et, Ep. reflexivity. Qed.

Lemma choose_spec s seq p :
  Inv s -> seq <= fseq s ->
  (seq = fseq s -> match p with Some x => ok s x | None => flushing s = None -> kv s = None end) ->
  let '(hp, hl, tg) := choose s seq p in
  hlen s <= hl /\ tg < hl /\ (forall x, x < hlen s -> hp x = heap s x) /\
  sc (hp tg) = truth s /\
  (mem_obj s = Some tg \/
   (mem_obj s = None /\ pf (hp tg) = length (fields (sc (hp tg))) /\ pt (hp tg) = length (tagkeys (sc (hp tg))))).
Proof.
  intros HI Hle Hp. unfold choose.
  destruct (mutb s) as [m|] eqn:Emu.
  { assert (Em : mem_obj s = Some m) by (unfold mem_obj; rewrite Emu; reflexivity).
    split; [lia|]. split; [exact (iB s HI m Em)|]. split; [auto|]. split; [unfold truth; rewrite Em; reflexivity|].
    left. exact Em. }
  destruct (imm s) as [[x|]|] eqn:Ei.
  { assert (Em : mem_obj s = Some x) by (unfold mem_obj; rewrite Emu, Ei; reflexivity).
    split; [lia|]. split; [exact (iB s HI x Em)|]. split; [auto|]. split; [unfold truth; rewrite Em; reflexivity|].
    left. exact Em. }
  - (* immutable store without the metric *)
    assert (Em : mem_obj s = None) by (unfold mem_obj; rewrite Emu, Ei; reflexivity).
    pose proof (nomem_noflush s HI Em) as Hnf.
    destruct (Nat.eqb_spec (fseq s) seq) as [E|E]; cbn [negb].
    + destruct p as [y|].
      * destruct (Hp (eq_sym E)) as [Hy [Hd|[Hd|[k [Hk Hc]]]]]; [congruence|congruence|].
        split; [lia|]. split; [exact Hy|]. split; [auto|].
        split; [unfold truth, kvs; rewrite Em, Hk, Hc; reflexivity|].
        right. split; [exact Em|]. rewrite Hc. cbn. auto.
      * pose proof (Hp (eq_sym E) Hnf) as Hk.
        split; [lia|]. split; [lia|]. split; [intros y Hy; apply set_heap_other; lia|].
        rewrite set_heap_same. split; [unfold truth, kvs; rewrite Em, Hk; reflexivity|].
        right. split; [exact Em|]. cbn. auto.
    + split; [lia|]. split; [lia|]. split; [intros y Hy; apply set_heap_other; lia|].
      rewrite set_heap_same. split; [unfold truth, kvs; rewrite Em; destruct (kv s); reflexivity|].
      right. split; [exact Em|]. destruct (kv s); cbn; auto.
  - (* no immutable store *)
    assert (Em : mem_obj s = None) by (unfold mem_obj; rewrite Emu, Ei; reflexivity).
    pose proof (nomem_noflush s HI Em) as Hnf.
    destruct (Nat.eqb_spec (fseq s) seq) as [E|E]; cbn [negb].
    + destruct p as [y|].
      * destruct (Hp (eq_sym E)) as [Hy [Hd|[Hd|[k [Hk Hc]]]]]; [congruence|congruence|].
        split; [lia|]. split; [exact Hy|]. split; [auto|].
        split; [unfold truth, kvs; rewrite Em, Hk, Hc; reflexivity|].
        right. split; [exact Em|]. rewrite Hc. cbn. auto.
      * pose proof (Hp (eq_sym E) Hnf) as Hk.
        split; [lia|]. split; [lia|]. split; [intros y Hy; apply set_heap_other; lia|].
        rewrite set_heap_same. split; [unfold truth, kvs; rewrite Em, Hk; reflexivity|].
        right. split; [exact Em|]. cbn. auto.
    + split; [lia|]. split; [lia|]. split; [intros y Hy; apply set_heap_other; lia|].
      rewrite set_heap_same. split; [unfold truth, kvs; rewrite Em; destruct (kv s); reflexivity|].
      right. split; [exact Em|]. destruct (kv s); cbn; auto.
Qed.

Lemma step_ready s i t r rest seq p :
  Inv s -> In t (threads s) -> todo t = Gen r :: rest -> ph t = Ready seq p ->
  Inv (after_gen s i t rest r seq p).
Proof.
  intros HI Hin Et Ep.
  pose proof (iT s HI) as T. rewrite Forall_forall in T. destruct (T t Hin) as [R P].
  unfold pinv in P. rewrite Ep in P. destruct P as [Hle Hp].
  pose proof (choose_spec s seq p HI Hle Hp) as CS.
  unfold after_gen. destruct (choose s seq p) as [[hp hl] tg].
  destruct CS as [Hhl [Htg [Hhp [Hsc Hcase]]]].
  set (o := hp tg) in *.
  assert (Wo : wf_schema (sc o) (nextT s)) by (rewrite Hsc; exact (iW s HI)).
  pose proof (gen_in_wf (sc o) (nextT s) r Wo) as G. pose proof (gen_in_ext (sc o) (nextT s) r) as X.
  destruct (gen_in (sc o) (nextT s) r) as [[c' nt'] v].
  destruct G as [Wc' [Hnt [Hfound [Hkf Hkt]]]]. destruct X as [l1 [l2 [X1 X2]]].
  set (o' := {| sc := c'; pf := pf o; pt := pt o |}).
  set (s' := {| heap := set_heap hp tg o'; hlen := hl; mutb := Some tg; imm := imm s; kv := kv s; cache := cache s;
                fseq := fseq s; flushing := flushing s; nextT := nt';
                threads := upd (threads s) i (done t rest ((r, v) :: results t)) |}).
  assert (Hmem' : mem_obj s' = Some tg) by reflexivity.
  assert (Htruth' : truth s' = c').
  { unfold truth. rewrite Hmem'. cbn. rewrite set_heap_same. reflexivity. }
  assert (Hmono : forall r0 v0, found (truth s) r0 v0 -> found (truth s') r0 v0).
  { rewrite Htruth', <- Hsc. intros r0 v0. unfold found. destruct (fst r0); [apply Hkf|apply Hkt]. }
  assert (Hheap' : forall y, y < hlen s -> y <> tg -> heap s' y = heap s y).
  { intros y Hy Hn. cbn. rewrite set_heap_other by exact Hn. apply Hhp. exact Hy. }
  assert (Hmemcase : forall y, mem_obj s = Some y -> y = tg).
  { intros y Hy. destruct Hcase as [H|[H _]]; congruence. }
  assert (Hok : forall y, ok s y -> ok s' y).
  { intros y [Hy Hd]. split; [cbn; lia|]. destruct (Nat.eq_dec y tg) as [E|E]; [left; subst y; exact Hmem'|].
    destruct Hd as [Hd|[Hd|[k [Hk Hc]]]].
    - exfalso. apply E. apply Hmemcase. exact Hd.
    - right. left. exact Hd.
    - right. right. exists k. split; [exact Hk|]. rewrite (Hheap' y Hy E). exact Hc. }
  constructor.
  - intros m i0 Hm Hi. cbn in Hm. inversion Hm. subst m. change (imm s = Some (Some i0)) in Hi.
    symmetry. apply Hmemcase. exact (imm_mem s i0 HI Hi).
  - intros m Hm. rewrite Hmem' in Hm. inversion Hm. subst m. exact Htg.
  - intros nf nt Ef. change (flushing s = Some (nf, nt)) in Ef.
    destruct (iF s HI nf nt Ef) as [x [Ei [H1 [H2 _]]]].
    exists x. split; [exact Ei|].
    pose proof (imm_mem s x HI Ei) as Emx.
    assert (x = tg) by (apply Hmemcase; exact Emx). subst x.
    rewrite <- (Hhp tg (iB s HI tg Emx)) in H1, H2. fold o in H1, H2.
    cbn [heap s']. rewrite set_heap_same. cbn [sc o']. rewrite X1, X2, !app_length.
    split; [lia|]. split; [lia|]. intros E. discriminate E.
  - rewrite Htruth'. exact Wc'.
  - intros m Hm. rewrite Hmem' in Hm. inversion Hm. subst m.
    unfold keff. cbn [flushing s' heap]. rewrite set_heap_same. cbn [sc pf pt o'].
    change (kvs s') with (kvs s).
    destruct Hcase as [Hc|[Hc [Hpf Hpt]]].
    + pose proof (iK s HI tg Hc) as K. rewrite <- (Hhp tg (iB s HI tg Hc)) in K. fold o in K. unfold keff in K.
      destruct (flushing s) as [[nf nt]|]; cbn [fst snd] in *; destruct K as [K1 [K2 [K3 K4]]];
        rewrite X1, X2, !app_length, !firstn_app_le by lia; repeat split; try lia; assumption.
    + rewrite (nomem_noflush s HI Hc). cbn [fst snd]. fold o in Hpf, Hpt.
      assert (Ekv : kvs s = sc o) by (rewrite Hsc; unfold truth; rewrite Hc; reflexivity).
      rewrite Ekv, X1, X2, !app_length, Hpf, Hpt, !firstn_app_le, !firstn_all by lia.
      repeat split; lia.
  - intros c Ec. apply Hok. exact (iC s HI c Ec).
  - change (Forall (tinv s') (upd (threads s) i (done t rest ((r, v) :: results t)))). apply Forall_upd.
    + rewrite Forall_forall. intros x Hx.
      apply (tinv_stable s s'); try reflexivity; [exact Hok|exact Hmono|exact (T x Hx)].
    + split; [|exact I]. cbn [results done]. intros r0 v0 [E|H].
      * inversion E. subst r0 v0. rewrite Htruth'. exact Hfound.
      * apply Hmono. exact (R r0 v0 H).
Qed.

Lemma step_inv s i : Inv s -> Inv (step true true true true s i).
Proof.
  intros HI. unfold step. destruct (nth_error (threads s) i) as [t|] eqn:En.
  - assert (Hin : In t (threads s)) by (eapply nth_error_In; exact En).
    destruct (todo t) as [|rq rest] eqn:Et.
    { unfold step_thread. rewrite Et. exact HI. }
    destruct (ph t) as [|seq c|seq p] eqn:Ep.
    + exact (step_idle s i t rq rest HI Hin Et Ep).
    + exact (step_loaded s i t rq rest seq c HI Hin Et Ep).
    + destruct rq as [|r].
      * unfold step_thread. rewrite Et, Ep. apply with_thread_inv; [exact HI|].
        pose proof (iT s HI) as T. rewrite Forall_forall in T. destruct (T t Hin) as [R _].
        split; [exact R|exact I].
      * rewrite (step_ready_eq s i t r rest seq p Et Ep). exact (step_ready s i t r rest seq p HI Hin Et Ep).
  - destruct (i - length (threads s)) as [|[|k]].
    + exact (prepare_flush_inv s HI).
    + exact (flush_begin_inv s HI).
    + exact (flush_end_inv s HI).
Qed.

Lemma run_inv s sched : Inv s -> Inv (run true true true true s sched).
Proof. revert s. induction sched as [|i sched IH]; intros s H; [exact H|]. cbn. apply IH. apply step_inv. exact H. Qed.

Lemma init_inv progs : Inv (init progs).
Proof.
  constructor; cbn; try discriminate.
  - apply wf_empty.
  - rewrite Forall_forall. intros t Ht. apply in_map_iff in Ht. destruct Ht as [p [E _]]. subst t.
    split; [intros r v []|exact I].
Qed.

(* a later GetSchema gives the truth *)
Lemma current_truth s : Inv s -> (exists r v, found (truth s) r v) -> current s = Some (truth s).
Proof.
  intros HI [r [v Hf]]. unfold current, truth in *. destruct (mem_obj s) as [m|] eqn:Em; [reflexivity|].
  destruct (cache s) as [c|] eqn:Ec.
  - destruct (iC s HI c Ec) as [_ [Hd|[Hd|[k [Hk Hc]]]]].
    + congruence.
    + exfalso. apply Hd. exact (nomem_noflush s HI Em).
    + unfold kvs. rewrite Hk, Hc. reflexivity.
  - unfold kvs in *. destruct (kv s) as [k|]; [reflexivity|].
    exfalso. unfold found in Hf. cbn in Hf. destruct (fst r); discriminate Hf.
Qed.

(* every program of writers and readers, every schedule with PrepareFlush and the halves of Flush anywhere: what a writer
   was given is what a later GetSchema shows; all writers agree on a name; different names of a kind have different ids *)
Theorem schema_flush_stable_injective (progs : list (list sreq)) sched :
  let s := run true true true true (init progs) sched in
  (forall t r v, In t (threads s) -> In (r, v) (results t) -> lookup s r = Some v) /\
  (forall t1 t2 r1 r2 v1 v2, In t1 (threads s) -> In t2 (threads s) ->
     In (r1, v1) (results t1) -> In (r2, v2) (results t2) ->
     fst r1 = fst r2 -> (snd r1 = snd r2 <-> v1 = v2)).
Proof.
  intros s. assert (HI : Inv s) by (apply run_inv; apply init_inv).
  pose proof (iT s HI) as T. rewrite Forall_forall in T.
  destruct (iW s HI) as [F1 [F2 [T1 T2]]]. split.
  - intros t r v Ht Hr. pose proof (proj1 (T t Ht) r v Hr) as Hf.
    unfold lookup. rewrite (current_truth s HI (ex_intro _ r (ex_intro _ v Hf))). unfold found in Hf.
    destruct (fst r); exact Hf.
  - intros t1 t2 r1 r2 v1 v2 H1 H2 R1 R2 Ek.
    pose proof (proj1 (T t1 H1) r1 v1 R1) as A. pose proof (proj1 (T t2 H2) r2 v2 R2) as B.
    unfold found in A, B. rewrite <- Ek in B.
    destruct (fst r1); split; intros E.
    + rewrite E in A. congruence.
    + subst v2. eapply F2; eauto.
    + rewrite E in A. congruence.
    + subst v2. eapply T2; eauto.
Qed.

(* ---------- the code before its repairs ---------- *)
Definition shared_id (s : st) : bool :=
  let rs := concat (map results (threads s)) in
  existsb (fun p => existsb (fun q =>
    kind_eqb (fst (fst p)) (fst (fst q)) && negb (Nat.eqb (snd (fst p)) (snd (fst q))) && Nat.eqb (snd p) (snd q)) rs) rs.

Definition f (k : nat) : sreq := Gen (KF, k).

(* both callers read "no schema"; caller 1 creates field 2; PrepareFlush; caller 0 creates field 1 in a new object *)
Theorem no_immutable_recheck_refuted :
  shared_id (run false true true true (init [[f 1]; [f 2]]) [0; 1; 1; 2; 0]) = true.
Proof. vm_compute. reflexivity. Qed.
(* the same with a complete flush in the window *)
Theorem stale_schema_after_flush_refuted :
  shared_id (run true false true true (init [[f 1]; [f 2]]) [0; 1; 1; 2; 3; 4; 0]) = true.
Proof. vm_compute. reflexivity. Qed.
(* a reader parks before caching the schema it read; a flush purges the cache; the old copy is cached; field 4 gets the
   id of field 3 *)
Theorem unguarded_schema_cache_refuted :
  shared_id (run true true false true (init [[f 1; f 3]; [Get]; [f 4]]) [0; 0; 3; 4; 5; 1; 0; 0; 0; 3; 4; 5; 1; 2; 2; 2]) = true.
Proof. vm_compute. reflexivity. Qed.
(* field 2 is appended between the halves of Flush and marked persisted unwritten; two flushes later field 3 gets its id *)
Theorem mark_all_persisted_refuted :
  shared_id (run true true true false (init [[f 1]; [f 2]; [f 3]]) [0; 0; 3; 4; 1; 1; 5; 3; 4; 5; 2; 2; 2]) = true.
Proof. vm_compute. reflexivity. Qed.
(* the repaired code on the four schedules *)
Example repaired_on_the_four_schedules :
  shared_id (run true true true true (init [[f 1]; [f 2]]) [0; 1; 1; 2; 0]) = false /\
  shared_id (run true true true true (init [[f 1]; [f 2]]) [0; 1; 1; 2; 3; 4; 0]) = false /\
  shared_id (run true true true true (init [[f 1; f 3]; [Get]; [f 4]]) [0; 0; 3; 4; 5; 1; 0; 0; 0; 3; 4; 5; 1; 2; 2; 2]) = false /\
  shared_id (run true true true true (init [[f 1]; [f 2]; [f 3]]) [0; 0; 3; 4; 1; 1; 5; 3; 4; 5; 2; 2; 2]) = false.
Proof. vm_compute. repeat split; reflexivity. Qed.
