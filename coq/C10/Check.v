(* C10 — executable checks: (correspondence code, oracle code); 0 = fine *)
From Coq Require Import List Arith NArith Bool.
Import ListNotations.
From LinDBV.C10 Require Import Model.

Definition subsetN (a b : list N) : bool := forallb (fun x => memN x b) a.
Definition seteqN (a b : list N) : bool := subsetN a b && subsetN b a.

Fixpoint vals_eqb (a b : list value) : bool :=
  match a, b with [] , [] => true | x :: a', y :: b' => veqb x y && vals_eqb a' b' | _, _ => false end.
Fixpoint all_some (l : list (option value)) : option (list value) :=
  match l with
  | [] => Some []
  | Some v :: r => option_map (cons v) (all_some r)
  | None :: _ => None
  end.
Fixpoint dedupN (l : list N) : list N :=
  match l with [] => [] | x :: r => if memN x r then dedupN r else x :: dedupN r end.

(* groups: for every selected series that has all grouping keys, its values *)
Definition groups_of0 (sel : list N) (gv : N -> list (option value)) : list (N * list value) :=
  flat_map (fun s => match all_some (gv s) with Some vs => [(s, vs)] | None => [] end) (dedupN sel).
(* no group by: nothing to report *)
Definition groups_of (keys : list key) (sel : list N) (gv : N -> list (option value)) : list (N * list value) :=
  match keys with [] => [] | _ => groups_of0 sel gv end.
Definition group_mem (g : N * list value) (gs : list (N * list value)) : bool :=
  existsb (fun h => (fst g =? fst h)%N && vals_eqb (snd g) (snd h)) gs.
Definition groups_eq (a b : list (N * list value)) : bool :=
  forallb (fun g => group_mem g b) a && forallb (fun g => group_mem g a) b && (length a =? length b).

(* one query: how many history operations ran before it, the condition, the grouping keys, what came back *)
Record query := { q_at : nat; q_cond : cond; q_keys : list key; q_sel : list N; q_groups : list (N * list value) }.

Definition corr_query (ops : list hop) (q : query) : nat :=
  let ix := flat (hrun (firstn (q_at q) ops)) in
  let sel := sel_ix ix (q_cond q) in
  if negb (seteqN sel (q_sel q)) then 1
  else if negb (groups_eq (groups_of (q_keys q) sel (fun s => map (fun k => group_value ix k s) (q_keys q))) (q_groups q)) then 2
  else 0.
Definition naive_query (ops : list hop) (q : query) : nat :=
  let l := adds (firstn (q_at q) ops) in
  let sel := map fst (filter (fun st => sel_naive (snd st) (q_cond q)) l) in
  let tags_of s := match find (fun st => (fst st =? s)%N) l with Some st => snd st | None => [] end in
  if negb (seteqN sel (q_sel q)) then 101
  else if negb (groups_eq (groups_of (q_keys q) sel (fun s => map (fun k => value_of (tags_of s) k) (q_keys q))) (q_groups q)) then 102
  else 0.
Fixpoint first_nz (l : list nat) : nat := match l with [] => 0 | x :: r => if x =? 0 then first_nz r else x end.
Definition check_case (ops : list hop) (qs : list query) : nat * nat :=
  (first_nz (map (corr_query ops) qs), first_nz (map (naive_query ops) qs)).
