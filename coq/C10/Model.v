(* C10 — tag filtering through the index (tag-value dictionary, inverted postings, forward index, each kept as a list of
   layers: mutable, immutable, files) against evaluation of the condition on every series' own tags.
   query/operator/tag_values_lookup.go, series_filtering.go, grouping_context_build.go, index/kv_store.go
   (FindValuesByExpr), index/metric_index_database.go (invertedIndex, forwardIndex).  Definitions only. *)
From Coq Require Import List Arith NArith Bool.
Import ListNotations.

Definition key := nat.                 (* tag key *)
Definition value := list nat.          (* tag value: bytes *)
Definition vid := nat.                 (* tag value id *)
Definition sid := N.                   (* series id *)
Definition tags := list (key * value).

Fixpoint veqb (a b : value) : bool :=
  match a, b with
  | [], [] => true
  | x :: a', y :: b' => (x =? y) && veqb a' b'
  | _, _ => false
  end.

(* ---- atomic predicates on a value: equals, in, like, regex (the matching set is given by the regexp engine) ---- *)
Inductive pred := PEq (v : value) | PIn (vs : list value) | PLike (pat : value) | PSet (vs : list value).

Definition star : nat := 42.
Fixpoint prefixb (p v : value) : bool :=
  match p, v with
  | [], _ => true
  | x :: p', y :: v' => (x =? y) && prefixb p' v'
  | _, [] => false
  end.
Definition suffixb (p v : value) : bool := prefixb (rev p) (rev v).
Fixpoint containsb (p v : value) : bool :=
  prefixb p v || match v with [] => false | _ :: v' => containsb p v' end.
Definition is_star (o : option nat) : bool := match o with Some c => c =? star | None => false end.
(* index/kv_store.go FindValuesByLike *)
Definition like_match (pat v : value) : bool :=
  match pat with
  | [] => false
  | _ =>
      let hp := is_star (hd_error pat) in
      let hs := is_star (hd_error (rev pat)) in
      if negb hp && hs then prefixb (removelast pat) v
      else if hp && negb hs then suffixb (tl pat) v
      else if hp && hs then containsb (removelast (tl pat)) v
      else veqb pat v
  end.
Definition eval_pred (p : pred) (v : value) : bool :=
  match p with
  | PEq w => veqb w v
  | PIn ws => existsb (fun w => veqb w v) ws
  | PLike pat => like_match pat v
  | PSet ws => existsb (fun w => veqb w v) ws
  end.

(* ---- conditions as the grammar produces them: negation applies to an atomic filter only ---- *)
Inductive cond :=
| Atom (k : key) (p : pred)
| NotAtom (k : key) (p : pred)
| And (a b : cond) | Or (a b : cond).

(* ---- reference: evaluate on the series' own tags ---- *)
Definition match_naive (t : tags) (k : key) (p : pred) : bool := existsb (fun kv => (fst kv =? k) && eval_pred p (snd kv)) t.
Definition has_key_naive (t : tags) (k : key) : bool := existsb (fun kv => fst kv =? k) t.
Fixpoint sel_naive (t : tags) (c : cond) : bool :=
  match c with
  | Atom k p => match_naive t k p
  | NotAtom k p => has_key_naive t k && negb (match_naive t k p)
  | And a b => sel_naive t a && sel_naive t b
  | Or a b => sel_naive t a || sel_naive t b
  end.
Definition value_of (t : tags) (k : key) : option value :=
  option_map snd (find (fun kv => fst kv =? k) t).

(* ---- the index, flat: tag-value dictionary, inverted postings, forward index ---- *)
Record index := {
  dict : list ((key * value) * vid);
  next : vid;
  inv : list (vid * sid);
  fwd : list ((key * sid) * vid);
  series : list (sid * tags)           (* ghost: what was written *)
}.
Definition empty : index := {| dict := []; next := 0; inv := []; fwd := []; series := [] |}.

Fixpoint lookup (kv : key * value) (d : list ((key * value) * vid)) : option vid :=
  match d with
  | [] => None
  | ((k, v), i) :: d' => if (k =? fst kv) && veqb v (snd kv) then Some i else lookup kv d'
  end.

(* GenTagValueID + inverted.put + forward.put for one tag of one series *)
Definition add_tag (s : sid) (ix : index) (kv : key * value) : index :=
  match lookup kv (dict ix) with
  | Some i => {| dict := dict ix; next := next ix; inv := (i, s) :: inv ix;
                 fwd := ((fst kv, s), i) :: fwd ix; series := series ix |}
  | None => {| dict := (kv, next ix) :: dict ix; next := S (next ix); inv := (next ix, s) :: inv ix;
               fwd := ((fst kv, s), next ix) :: fwd ix; series := series ix |}
  end.
Definition add_series (ix : index) (st : sid * tags) : index :=
  let ix' := fold_left (add_tag (fst st)) (snd st) ix in
  {| dict := dict ix'; next := next ix'; inv := inv ix'; fwd := fwd ix'; series := st :: series ix' |}.
Definition build (l : list (sid * tags)) : index := fold_left add_series l empty.

(* ---- evaluation through the index, as tagValuesLookup + seriesFiltering do ---- *)
Definition memn (x : nat) (l : list nat) : bool := existsb (Nat.eqb x) l.
Definition memN (x : N) (l : list N) : bool := existsb (N.eqb x) l.
Definition vids_of (ix : index) (k : key) (p : pred) : list vid :=
  map snd (filter (fun e => (fst (fst e) =? k) && eval_pred p (snd (fst e))) (dict ix)).
Definition series_of (ix : index) (vs : list vid) : list sid :=
  map snd (filter (fun e => memn (fst e) vs) (inv ix)).
Definition series_with_key (ix : index) (k : key) : list sid :=
  map (fun e => snd (fst e)) (filter (fun e => fst (fst e) =? k) (fwd ix)).
Fixpoint sel_ix (ix : index) (c : cond) : list sid :=
  match c with
  | Atom k p => series_of ix (vids_of ix k p)
  | NotAtom k p => filter (fun s => negb (memN s (series_of ix (vids_of ix k p)))) (series_with_key ix k)
  | And a b => filter (fun s => memN s (sel_ix ix b)) (sel_ix ix a)
  | Or a b => sel_ix ix a ++ sel_ix ix b
  end.
(* group by: forward index (key, series) -> value id, dictionary value id -> value *)
Definition group_value (ix : index) (k : key) (s : sid) : option value :=
  match find (fun e => (fst (fst e) =? k) && (snd (fst e) =? s)%N) (fwd ix) with
  | Some (_, i) => option_map (fun e => snd (fst e)) (find (fun e => snd e =? i) (dict ix))
  | None => None
  end.

(* ---- layers: every structure is a list of layers (newest first); writes go to the first layer, PrepareFlush opens
   a new first layer, a flush changes where a layer lives but not what it holds, compaction merges layers ---- *)
Record lindex := {
  ldict : list (list ((key * value) * vid));
  lnext : vid;
  linv : list (list (vid * sid));
  lfwd : list (list ((key * sid) * vid));
  lseries : list (sid * tags)
}.
Definition lempty : lindex := {| ldict := []; lnext := 0; linv := []; lfwd := []; lseries := [] |}.
Definition flat (L : lindex) : index :=
  {| dict := concat (ldict L); next := lnext L; inv := concat (linv L); fwd := concat (lfwd L); series := lseries L |}.
Definition push {A} (x : A) (ls : list (list A)) : list (list A) :=
  match ls with [] => [[x]] | l :: r => (x :: l) :: r end.
Definition ladd_tag (s : sid) (L : lindex) (kv : key * value) : lindex :=
  match lookup kv (concat (ldict L)) with
  | Some i => {| ldict := ldict L; lnext := lnext L; linv := push (i, s) (linv L);
                 lfwd := push ((fst kv, s), i) (lfwd L); lseries := lseries L |}
  | None => {| ldict := push (kv, lnext L) (ldict L); lnext := S (lnext L); linv := push (lnext L, s) (linv L);
               lfwd := push ((fst kv, s), lnext L) (lfwd L); lseries := lseries L |}
  end.
Definition ladd_series (L : lindex) (st : sid * tags) : lindex :=
  let L' := fold_left (ladd_tag (fst st)) (snd st) L in
  {| ldict := ldict L'; lnext := lnext L'; linv := linv L'; lfwd := lfwd L'; lseries := st :: lseries L' |}.

Inductive which := WDict | WInv | WFwd.
Inductive hop :=
| HAdd (st : sid * tags)
| HSplit (w : which)                   (* PrepareFlush of one store: new first layer *)
| HMerge (w : which) (n : nat).        (* compaction / merge of the layers after the first n *)
Definition merge_after {A} (n : nat) (ls : list (list A)) : list (list A) := firstn n ls ++ [concat (skipn n ls)].
Definition hstep (L : lindex) (o : hop) : lindex :=
  match o with
  | HAdd st => ladd_series L st
  | HSplit WDict => {| ldict := [] :: ldict L; lnext := lnext L; linv := linv L; lfwd := lfwd L; lseries := lseries L |}
  | HSplit WInv => {| ldict := ldict L; lnext := lnext L; linv := [] :: linv L; lfwd := lfwd L; lseries := lseries L |}
  | HSplit WFwd => {| ldict := ldict L; lnext := lnext L; linv := linv L; lfwd := [] :: lfwd L; lseries := lseries L |}
  | HMerge WDict n => {| ldict := merge_after n (ldict L); lnext := lnext L; linv := linv L; lfwd := lfwd L; lseries := lseries L |}
  | HMerge WInv n => {| ldict := ldict L; lnext := lnext L; linv := merge_after n (linv L); lfwd := lfwd L; lseries := lseries L |}
  | HMerge WFwd n => {| ldict := ldict L; lnext := lnext L; linv := linv L; lfwd := merge_after n (lfwd L); lseries := lseries L |}
  end.
Definition hrun (ops : list hop) : lindex := fold_left hstep ops lempty.
Definition adds (ops : list hop) : list (sid * tags) :=
  flat_map (fun o => match o with HAdd st => [st] | _ => [] end) ops.

(* well-formed input: series ids are distinct and a series has one value per tag key *)
Definition keys_distinct (t : tags) : Prop := NoDup (map fst t).
