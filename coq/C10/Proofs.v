(* C10 — proofs *)
From Coq Require Import List Arith NArith Lia Bool.
Import ListNotations.
From LinDBV.C10 Require Import Model.

Lemma veqb_spec a b : reflect (a = b) (veqb a b).
Proof.
  revert b; induction a as [|x a IH]; intros [|y b]; simpl; try (constructor; congruence).
  destruct (Nat.eqb_spec x y) as [->|N]; simpl; [|constructor; congruence].
  destruct (IH b) as [->|N]; constructor; congruence.
Qed.
Lemma veqb_refl a : veqb a a = true.
Proof. destruct (veqb_spec a a); congruence. Qed.

(* ---- Prop-level reading of the index evaluation ---- *)
Definition vids_ofP (ix : index) (k : key) (p : pred) (i : vid) : Prop :=
  exists v, In ((k, v), i) (dict ix) /\ eval_pred p v = true.
Definition match_ixP (ix : index) (k : key) (p : pred) (s : sid) : Prop :=
  exists i, vids_ofP ix k p i /\ In (i, s) (inv ix).
Definition has_key_ixP (ix : index) (k : key) (s : sid) : Prop := exists i, In ((k, s), i) (fwd ix).
Fixpoint sel_ixP (ix : index) (c : cond) (s : sid) : Prop :=
  match c with
  | Atom k p => match_ixP ix k p s
  | NotAtom k p => has_key_ixP ix k s /\ ~ match_ixP ix k p s
  | And a b => sel_ixP ix a s /\ sel_ixP ix b s
  | Or a b => sel_ixP ix a s \/ sel_ixP ix b s
  end.
Definition match_naiveP (t : tags) (k : key) (p : pred) : Prop := exists v, In (k, v) t /\ eval_pred p v = true.
Definition has_key_naiveP (t : tags) (k : key) : Prop := exists v, In (k, v) t.

(* ---------- invariant ---------- *)
Definition written (ix : index) (s : sid) (kv : key * value) : Prop := exists t, In (s, t) (series ix) /\ In kv t.

Record Inv (ix : index) (pending : sid -> (key * value) -> Prop) : Prop := {
  dict_lt : forall kv i, In (kv, i) (dict ix) -> i < next ix;
  dict_fun : forall kv i j, In (kv, i) (dict ix) -> In (kv, j) (dict ix) -> i = j;
  dict_inj : forall kv kv' i, In (kv, i) (dict ix) -> In (kv', i) (dict ix) -> kv = kv';
  inv_sound : forall i s, In (i, s) (inv ix) -> exists kv, In (kv, i) (dict ix) /\ (written ix s kv \/ pending s kv);
  inv_complete : forall s kv, written ix s kv \/ pending s kv -> exists i, In (kv, i) (dict ix) /\ In (i, s) (inv ix);
  fwd_sound : forall k s i, In ((k, s), i) (fwd ix) -> exists v, In ((k, v), i) (dict ix) /\ (written ix s (k, v) \/ pending s (k, v));
  fwd_complete : forall s k v, written ix s (k, v) \/ pending s (k, v) -> exists i, In ((k, s), i) (fwd ix)
}.

Lemma lookup_some kv d i : lookup kv d = Some i -> In (kv, i) d.
Proof.
  destruct kv as [k0 v0]. induction d as [|[[k v] j] d IH]; simpl; [discriminate|].
  destruct (Nat.eqb_spec k k0), (veqb_spec v v0); simpl; auto.
  intros H; inversion H; subst. left. reflexivity.
Qed.
Lemma lookup_none kv d : lookup kv d = None -> forall i, ~ In (kv, i) d.
Proof.
  destruct kv as [k0 v0]. induction d as [|[[k v] j] d IH]; simpl; [tauto|].
  destruct (Nat.eqb_spec k k0) as [Ek|Nk]; destruct (veqb_spec v v0) as [Ev|Nv]; simpl;
    try discriminate; intros H i [E|Hin]; try exact (IH H i Hin);
    inversion E; subst; simpl in *; congruence.
Qed.

(* adding one tag of series s moves it from "pending" to covered *)
Lemma add_tag_inv ix s kv (P : sid -> key * value -> Prop) :
  Inv ix P -> (forall t, ~ In (s, t) (series ix)) ->
  Inv (add_tag s ix kv) (fun s' kv' => P s' kv' \/ (s' = s /\ kv' = kv)).
Proof.
  intros [Hlt Hfun Hinj Hs Hc Hfs Hfc] Hfresh. unfold add_tag.
  destruct (lookup kv (dict ix)) as [i|] eqn:El.
  - pose proof (lookup_some _ _ _ El) as Hi.
    constructor; simpl; auto.
    + intros j s' [E|Hin]; [inversion E; subst; exists kv; split; auto|].
      destruct (Hs _ _ Hin) as (kv' & H1 & H2). exists kv'. split; auto. tauto.
    + intros s' kv' [H|[H|[-> ->]]].
      * destruct (Hc s' kv' (or_introl H)) as (j & H1 & H2). exists j. auto.
      * destruct (Hc s' kv' (or_intror H)) as (j & H1 & H2). exists j. auto.
      * exists i. auto.
    + intros k s' j [E|Hin]; [inversion E; subst; exists (snd kv); destruct kv; simpl; split; auto|].
      destruct (Hfs _ _ _ Hin) as (v & H1 & H2). exists v. split; auto. tauto.
    + intros s' k v [H|[H|[-> E]]].
      * destruct (Hfc s' k v (or_introl H)) as (j & H1). exists j. auto.
      * destruct (Hfc s' k v (or_intror H)) as (j & H1). exists j. auto.
      * inversion E; subst. exists i. left. reflexivity.
  - pose proof (lookup_none _ _ El) as Hn.
    constructor; simpl.
    + intros kv' j [E|Hin]; [inversion E; subst; lia|]. specialize (Hlt _ _ Hin). lia.
    + intros kv' a b [E1|H1] [E2|H2].
      * inversion E1; inversion E2; subst; reflexivity.
      * inversion E1; subst. exfalso. exact (Hn _ H2).
      * inversion E2; subst. exfalso. exact (Hn _ H1).
      * eapply Hfun; eauto.
    + intros kv1 kv2 j [E1|H1] [E2|H2].
      * inversion E1; inversion E2; subst; reflexivity.
      * inversion E1; subst. specialize (Hlt _ _ H2). lia.
      * inversion E2; subst. specialize (Hlt _ _ H1). lia.
      * eapply Hinj; eauto.
    + intros j s' [E|Hin]; [inversion E; subst; exists kv; split; auto|].
      destruct (Hs _ _ Hin) as (kv' & H1 & H2). exists kv'. split; auto. tauto.
    + intros s' kv' [H|[H|[-> ->]]].
      * destruct (Hc s' kv' (or_introl H)) as (j & H1 & H2). exists j. auto.
      * destruct (Hc s' kv' (or_intror H)) as (j & H1 & H2). exists j. auto.
      * exists (next ix). auto.
    + intros k s' j [E|Hin]; [inversion E; subst; exists (snd kv); destruct kv; simpl; split; auto|].
      destruct (Hfs _ _ _ Hin) as (v & H1 & H2). exists v. split; auto. tauto.
    + intros s' k v [H|[H|[-> E]]].
      * destruct (Hfc s' k v (or_introl H)) as (j & H1). exists j. auto.
      * destruct (Hfc s' k v (or_intror H)) as (j & H1). exists j. auto.
      * inversion E; subst. exists (next ix). left. reflexivity.
Qed.

Lemma Inv_ext ix P Q : (forall s kv, P s kv <-> Q s kv) -> Inv ix P -> Inv ix Q.
Proof.
  intros E [Hlt Hfun Hinj Hs Hc Hfs Hfc]. constructor; auto.
  - intros i s Hin. destruct (Hs _ _ Hin) as (kv & H1 & [H2|H2]); exists kv; split; auto. right. apply E, H2.
  - intros s kv [H|H]; [apply Hc; auto|apply Hc; right; apply E, H].
  - intros k s i Hin. destruct (Hfs _ _ _ Hin) as (v & H1 & [H2|H2]); exists v; split; auto. right. apply E, H2.
  - intros s k v [H|H]; [eapply Hfc; eauto|eapply Hfc; right; apply E, H].
Qed.

Lemma add_tag_series s ix kv : series (add_tag s ix kv) = series ix.
Proof. unfold add_tag. destruct (lookup kv (dict ix)); reflexivity. Qed.

Lemma fold_tags_inv s t : forall ix P, Inv ix P -> (forall t', ~ In (s, t') (series ix)) ->
  Inv (fold_left (add_tag s) t ix) (fun s' kv' => P s' kv' \/ (s' = s /\ In kv' t))
  /\ series (fold_left (add_tag s) t ix) = series ix.
Proof.
  induction t as [|kv t IH]; intros ix P HI Hf; simpl.
  - split; [|reflexivity]. eapply Inv_ext; [|exact HI]. intros; tauto.
  - destruct (IH (add_tag s ix kv) _ (add_tag_inv ix s kv P HI Hf)) as [H1 H2].
    { rewrite add_tag_series. exact Hf. }
    split; [|rewrite H2; apply add_tag_series].
    eapply Inv_ext; [|exact H1]. intros s' kv'. simpl. split.
    + intros [[H|[-> ->]]|[-> H]]; auto.
    + intros [H|[-> [<-|H]]]; auto.
Qed.

Lemma add_series_inv ix s t : Inv ix (fun _ _ => False) -> (forall t', ~ In (s, t') (series ix)) ->
  Inv (add_series ix (s, t)) (fun _ _ => False).
Proof.
  intros HI Hf. unfold add_series. simpl.
  destruct (fold_tags_inv s t ix _ HI Hf) as [[Hlt Hfun Hinj Hs Hc Hfs Hfc] Hser].
  set (ix' := fold_left (add_tag s) t ix) in *.
  assert (Hw : forall s' kv', (written ix' s' kv' \/ (False \/ s' = s /\ In kv' t)) <->
                written {| dict := dict ix'; next := next ix'; inv := inv ix'; fwd := fwd ix'; series := (s, t) :: series ix' |} s' kv').
  { intros s' kv'. unfold written. simpl. split.
    - intros [(t0 & H1 & H2)|[[]|[-> H]]]; [exists t0; auto|exists t; auto].
    - intros (t0 & [E|H1] & H2); [inversion E; subst; auto|left; exists t0; auto]. }
  constructor; simpl; auto.
  - intros i s' Hin. destruct (Hs _ _ Hin) as (kv & H1 & H2). exists kv. split; auto. left. apply Hw, H2.
  - intros s' kv' [H|[]]. apply Hc. apply Hw, H.
  - intros k s' i Hin. destruct (Hfs _ _ _ Hin) as (v & H1 & H2). exists v. split; auto. left. apply Hw, H2.
  - intros s' k v [H|[]]. eapply Hfc. apply Hw, H.
Qed.

Lemma empty_inv : Inv empty (fun _ _ => False).
Proof. constructor; simpl; try tauto; try (intros; exfalso; tauto).
  - intros s kv [(t & [] & _)|[]]. - intros s k v [(t & [] & _)|[]]. Qed.

Lemma fold_tags_series s t : forall ix, series (fold_left (add_tag s) t ix) = series ix.
Proof. induction t as [|kv t IH]; intros ix; simpl; [reflexivity|]. rewrite IH. apply add_tag_series. Qed.

Lemma build_inv_from l : forall ix, Inv ix (fun _ _ => False) ->
  NoDup (map fst l) -> (forall s t, In (s, t) (series ix) -> ~ In s (map fst l)) ->
  Inv (fold_left add_series l ix) (fun _ _ => False) /\
  series (fold_left add_series l ix) = rev l ++ series ix.
Proof.
  induction l as [|[s t] l IH]; intros ix HI Hnd Hdis; simpl; [auto|].
  inversion Hnd as [|? ? Hnin Hnd']; subst.
  assert (Hf : forall t', ~ In (s, t') (series ix)).
  { intros t' Hin. apply (Hdis _ _ Hin). left. reflexivity. }
  assert (Hser : series (add_series ix (s, t)) = (s, t) :: series ix).
  { unfold add_series. simpl. rewrite fold_tags_series. reflexivity. }
  destruct (IH (add_series ix (s, t)) (add_series_inv ix s t HI Hf) Hnd') as [H1 H2].
  { intros s' t' Hin. rewrite Hser in Hin. destruct Hin as [E|Hin].
    - inversion E; subst. exact Hnin.
    - intros Hs'. apply (Hdis _ _ Hin). right. exact Hs'. }
  split; [exact H1|]. rewrite H2, Hser. rewrite <- app_assoc. reflexivity.
Qed.


(* ---- the list-level evaluation says the same as the Prop-level reading ---- *)
Lemma memn_In x l : memn x l = true <-> In x l.
Proof. unfold memn. rewrite existsb_exists. split; [intros (y & H & E); apply Nat.eqb_eq in E; subst; auto|intros H; exists x; split; auto; apply Nat.eqb_refl]. Qed.
Lemma memN_In x l : memN x l = true <-> In x l.
Proof. unfold memN. rewrite existsb_exists. split; [intros (y & H & E); apply N.eqb_eq in E; subst; auto|intros H; exists x; split; auto; apply N.eqb_refl]. Qed.

Lemma vids_of_In ix k p i : In i (vids_of ix k p) <-> vids_ofP ix k p i.
Proof.
  unfold vids_of, vids_ofP. rewrite in_map_iff. split.
  - intros ([[k' v] j] & E & Hin). simpl in E. subst j. apply filter_In in Hin as [Hin Hc]. simpl in Hc.
    apply andb_prop in Hc as [Hk Hp]. apply Nat.eqb_eq in Hk. subst k'. exists v. auto.
  - intros (v & Hin & Hp). exists ((k, v), i). split; [reflexivity|]. apply filter_In. split; [exact Hin|]. simpl.
    rewrite Nat.eqb_refl, Hp. reflexivity.
Qed.
Lemma series_of_In ix k p s : In s (series_of ix (vids_of ix k p)) <-> match_ixP ix k p s.
Proof.
  unfold series_of, match_ixP. rewrite in_map_iff. split.
  - intros ([i s'] & E & Hin). simpl in E. subst s'. apply filter_In in Hin as [Hin Hc]. simpl in Hc.
    apply memn_In, vids_of_In in Hc. exists i. auto.
  - intros (i & Hv & Hin). exists (i, s). split; [reflexivity|]. apply filter_In. split; [exact Hin|]. simpl.
    apply memn_In, vids_of_In, Hv.
Qed.
Lemma series_with_key_In ix k s : In s (series_with_key ix k) <-> has_key_ixP ix k s.
Proof.
  unfold series_with_key, has_key_ixP. rewrite in_map_iff. split.
  - intros ([[k' s'] i] & E & Hin). simpl in E. subst s'. apply filter_In in Hin as [Hin Hc]. simpl in Hc.
    apply Nat.eqb_eq in Hc. subst k'. exists i. exact Hin.
  - intros (i & Hin). exists ((k, s), i). split; [reflexivity|]. apply filter_In. split; [exact Hin|]. simpl. apply Nat.eqb_refl.
Qed.
Lemma sel_ix_In ix c s : In s (sel_ix ix c) <-> sel_ixP ix c s.
Proof.
  induction c as [k p|k p|a IHa b IHb|a IHa b IHb]; cbn [sel_ix sel_ixP].
  - apply series_of_In.
  - rewrite filter_In, series_with_key_In, negb_true_iff. rewrite <- series_of_In.
    split; intros [A B]; split; auto.
    + intros H. apply memN_In in H. congruence.
    + destruct (memN s (series_of ix (vids_of ix k p))) eqn:E; [|reflexivity]. apply memN_In in E. contradiction.
  - rewrite filter_In, memN_In, IHa, IHb. tauto.
  - rewrite in_app_iff, IHa, IHb. tauto.
Qed.

Lemma match_naive_P t k p : match_naive t k p = true <-> match_naiveP t k p.
Proof.
  unfold match_naive, match_naiveP. rewrite existsb_exists. split.
  - intros ([k' v] & Hin & Hc). simpl in Hc. apply andb_prop in Hc as [Hk Hp]. apply Nat.eqb_eq in Hk. subst. exists v. auto.
  - intros (v & Hin & Hp). exists (k, v). simpl. rewrite Nat.eqb_refl, Hp. auto.
Qed.
Lemma has_key_naive_P t k : has_key_naive t k = true <-> has_key_naiveP t k.
Proof.
  unfold has_key_naive, has_key_naiveP. rewrite existsb_exists. split.
  - intros ([k' v] & Hin & Hc). simpl in Hc. apply Nat.eqb_eq in Hc. subst. exists v. auto.
  - intros (v & Hin). exists (k, v). simpl. rewrite Nat.eqb_refl. auto.
Qed.

Lemma in_unique_tags (l : list (sid * tags)) s t t' : NoDup (map fst l) -> In (s, t) l -> In (s, t') l -> t = t'.
Proof.
  induction l as [|[s1 t1] l IH]; intros Hnd H1 H2; [destruct H1|].
  inversion Hnd as [|? ? Hn Hnd']; subst. simpl in *.
  destruct H1 as [E1|H1]; destruct H2 as [E2|H2].
  - congruence.
  - inversion E1; subst. exfalso. apply Hn. apply in_map_iff. exists (s, t'). auto.
  - inversion E2; subst. exfalso. apply Hn. apply in_map_iff. exists (s, t). auto.
  - auto.
Qed.

Lemma build_inv l : NoDup (map fst l) ->
  Inv (build l) (fun _ _ => False) /\ series (build l) = rev l.
Proof.
  intros Hnd. destruct (build_inv_from l empty empty_inv Hnd) as [H1 H2].
  { intros ? ? []. }
  split; [exact H1|]. unfold build. rewrite H2. simpl. apply app_nil_r.
Qed.

Lemma written_build l s t kv : NoDup (map fst l) -> In (s, t) l -> (written (build l) s kv <-> In kv t).
Proof.
  intros Hnd Hin. destruct (build_inv l Hnd) as [_ Hser]. unfold written. rewrite Hser. split.
  - intros (t0 & H1 & H2). apply in_rev in H1. rewrite (in_unique_tags l s t t0 Hnd Hin H1). exact H2.
  - intros H. exists t. split; [apply in_rev; rewrite rev_involutive; exact Hin|exact H].
Qed.

(* ---- the property: selection ---- *)
Theorem filter_index_eq_naive l c s t :
  NoDup (map fst l) -> In (s, t) l ->
  (In s (sel_ix (build l) c) <-> sel_naive t c = true).
Proof.
  intros Hnd Hin. rewrite sel_ix_In.
  destruct (build_inv l Hnd) as [[Hlt Hfun Hinj Hs Hc Hfs Hfc] Hser].
  pose proof (written_build l s t) as Hw.
  assert (Hatom : forall k p, match_ixP (build l) k p s <-> match_naiveP t k p).
  { intros k p. unfold match_ixP, vids_ofP, match_naiveP. split.
    - intros (i & (v & Hd & Hp) & Hi). destruct (Hs _ _ Hi) as (kv & Hd' & [Hwr|[]]).
      assert (kv = (k, v)) by (eapply Hinj; eauto). subst kv. exists v. split; [apply (Hw (k, v)); auto|exact Hp].
    - intros (v & Hv & Hp). destruct (Hc s (k, v)) as (i & Hd & Hi); [left; apply Hw; auto|].
      exists i. split; [exists v; auto|exact Hi]. }
  assert (Hkey : forall k, has_key_ixP (build l) k s <-> has_key_naiveP t k).
  { intros k. unfold has_key_ixP, has_key_naiveP. split.
    - intros (i & Hf). destruct (Hfs _ _ _ Hf) as (v & _ & [Hwr|[]]). exists v. apply (Hw (k, v)); auto.
    - intros (v & Hv). apply (Hfc s k v). left. apply Hw; auto. }
  induction c as [k p|k p|a IHa b IHb|a IHa b IHb]; cbn [sel_ixP sel_naive].
  - rewrite Hatom. symmetry. apply match_naive_P.
  - rewrite Hkey, Hatom, andb_true_iff, negb_true_iff, <- has_key_naive_P, <- match_naive_P.
    destruct (match_naive t k p); split; intros [A B]; split; auto; congruence.
  - rewrite IHa, IHb, andb_true_iff. reflexivity.
  - rewrite IHa, IHb, orb_true_iff. reflexivity.
Qed.

(* nothing but written series is ever selected *)
Lemma sel_only_written l c s : NoDup (map fst l) -> In s (sel_ix (build l) c) -> exists t, In (s, t) l.
Proof.
  intros Hnd. rewrite sel_ix_In. destruct (build_inv l Hnd) as [[Hlt Hfun Hinj Hs Hc Hfs Hfc] Hser].
  assert (W : forall kv, written (build l) s kv -> exists t, In (s, t) l).
  { intros kv (t & H1 & _). rewrite Hser in H1. apply in_rev in H1. exists t. exact H1. }
  induction c as [k p|k p|a IHa b IHb|a IHa b IHb]; cbn [sel_ixP].
  - intros (i & _ & Hi). destruct (Hs _ _ Hi) as (kv & _ & [Hwr|[]]). eapply W; eauto.
  - intros [(i & Hf) _]. destruct (Hfs _ _ _ Hf) as (v & _ & [Hwr|[]]). eapply W; eauto.
  - intros [A _]. auto.
  - intros [A|B]; auto.
Qed.

Theorem selection_exact l c s : NoDup (map fst l) ->
  (In s (sel_ix (build l) c) <-> exists t, In (s, t) l /\ sel_naive t c = true).
Proof.
  intros Hnd. split.
  - intros H. destruct (sel_only_written l c s Hnd H) as (t & Hin). exists t. split; [exact Hin|].
    apply (filter_index_eq_naive l c s t Hnd Hin). exact H.
  - intros (t & Hin & Hs). apply (filter_index_eq_naive l c s t Hnd Hin). exact Hs.
Qed.

(* ---- group by: the forward index and the dictionary return the series' own value of the key ---- *)
Lemma find_some_in {A} (f : A -> bool) l x : find f l = Some x -> In x l /\ f x = true.
Proof. apply find_some. Qed.

Lemma value_of_in t k v : keys_distinct t -> In (k, v) t -> value_of t k = Some v.
Proof.
  unfold value_of, keys_distinct. induction t as [|[k1 v1] t IH]; intros Hnd Hin; [destruct Hin|].
  inversion Hnd as [|? ? Hn Hnd']; subst. simpl. destruct (Nat.eqb_spec k1 k) as [->|N].
  - destruct Hin as [E|Hin]; [inversion E; reflexivity|]. exfalso. apply Hn. apply in_map_iff. exists (k, v). auto.
  - destruct Hin as [E|Hin]; [inversion E; congruence|]. apply IH; assumption.
Qed.
Lemma value_of_none t k : (forall v, ~ In (k, v) t) -> value_of t k = None.
Proof.
  unfold value_of. intros H. destruct (find (fun kv => fst kv =? k) t) as [[k' v]|] eqn:E; [|reflexivity].
  apply find_some in E as [Hin Hk]. simpl in Hk. apply Nat.eqb_eq in Hk. subst. exfalso. eapply H; eauto.
Qed.

Theorem group_value_correct l k s t :
  NoDup (map fst l) -> (forall s' t', In (s', t') l -> keys_distinct t') -> In (s, t) l ->
  group_value (build l) k s = value_of t k.
Proof.
  intros Hnd Hkd Hin. destruct (build_inv l Hnd) as [[Hlt Hfun Hinj Hs Hc Hfs Hfc] Hser].
  pose proof (written_build l s t) as Hw. unfold group_value.
  destruct (find (fun e => (fst (fst e) =? k) && (snd (fst e) =? s)%N) (fwd (build l))) as [[[k' s'] i]|] eqn:Ef.
  - apply find_some in Ef as [Hf Hc']. simpl in Hc'. apply andb_prop in Hc' as [Hk Hs']. apply Nat.eqb_eq in Hk. apply N.eqb_eq in Hs'. subst k' s'.
    destruct (Hfs _ _ _ Hf) as (v & Hd & [Hwr|[]]). apply (Hw (k, v) Hnd Hin) in Hwr.
    rewrite (value_of_in t k v (Hkd _ _ Hin) Hwr).
    destruct (find (fun e => snd e =? i) (dict (build l))) as [[[k2 v2] i2]|] eqn:Ed.
    + apply find_some in Ed as [Hd2 Hi2]. simpl in Hi2. apply Nat.eqb_eq in Hi2. subst i2.
      assert (E : (k2, v2) = (k, v)) by (eapply Hinj; eauto). inversion E. reflexivity.
    + exfalso. pose proof (find_none _ _ Ed _ Hd) as Hn. simpl in Hn. rewrite Nat.eqb_refl in Hn. discriminate.
  - symmetry. apply value_of_none. intros v Hv.
    destruct (Hfc s k v) as (i & Hf); [left; apply (Hw (k, v)); auto|].
    pose proof (find_none _ _ Ef _ Hf) as Hn. simpl in Hn. rewrite Nat.eqb_refl, N.eqb_refl in Hn. discriminate.
Qed.

(* ---- layers are irrelevant: any placement of PrepareFlush / flush / compaction between the writes leaves the flat
   index, and therefore every answer, unchanged ---- *)
Lemma concat_push {A} (x : A) ls : concat (push x ls) = x :: concat ls.
Proof. destruct ls; reflexivity. Qed.
Lemma flat_ladd_tag s L kv : flat (ladd_tag s L kv) = add_tag s (flat L) kv.
Proof.
  unfold ladd_tag, add_tag, flat. cbn [dict next inv fwd series].
  destruct (lookup kv (concat (ldict L))); cbn [ldict lnext linv lfwd lseries]; rewrite ?concat_push; reflexivity.
Qed.
Lemma flat_fold_tags s t : forall L, flat (fold_left (ladd_tag s) t L) = fold_left (add_tag s) t (flat L).
Proof. induction t as [|kv t IH]; intros L; simpl; [reflexivity|]. rewrite IH, flat_ladd_tag. reflexivity. Qed.
Lemma flat_ladd_series L st : flat (ladd_series L st) = add_series (flat L) st.
Proof.
  unfold ladd_series, add_series. rewrite <- flat_fold_tags. reflexivity.
Qed.
Lemma concat_merge_after {A} n (ls : list (list A)) : concat (merge_after n ls) = concat ls.
Proof.
  unfold merge_after. rewrite concat_app. simpl. rewrite app_nil_r, <- concat_app, firstn_skipn. reflexivity.
Qed.
Lemma flat_hstep L o : flat (hstep L o) = match o with HAdd st => add_series (flat L) st | _ => flat L end.
Proof.
  destruct o as [st|[]|[] n]; cbn [hstep]; try apply flat_ladd_series; unfold flat; cbn [ldict lnext linv lfwd lseries];
    rewrite ?concat_merge_after; reflexivity.
Qed.
Theorem layers_irrelevant ops : flat (hrun ops) = build (adds ops).
Proof.
  unfold hrun, build.
  assert (G : forall L ix, flat L = ix -> flat (fold_left hstep ops L) = fold_left add_series (adds ops) ix).
  { induction ops as [|o ops IH]; intros L ix E; cbn [fold_left adds flat_map]; [exact E|].
    pose proof (flat_hstep L o) as Hs.
    destruct o as [st|w|w n]; cbn [app]; apply IH; rewrite Hs; congruence. }
  apply G. reflexivity.
Qed.

(* the property over histories *)
Theorem history_selection_exact ops c s : NoDup (map fst (adds ops)) ->
  (In s (sel_ix (flat (hrun ops)) c) <-> exists t, In (s, t) (adds ops) /\ sel_naive t c = true).
Proof. intros Hnd. rewrite layers_irrelevant. apply selection_exact, Hnd. Qed.
Theorem history_group_correct ops k s t :
  NoDup (map fst (adds ops)) -> (forall s' t', In (s', t') (adds ops) -> keys_distinct t') -> In (s, t) (adds ops) ->
  group_value (flat (hrun ops)) k s = value_of t k.
Proof. intros. rewrite layers_irrelevant. apply group_value_correct; assumption. Qed.

(* like, on examples and one law *)
Example like_examples :
  like_match [97; 42] [97; 98] = true /\ like_match [42; 98] [97; 98] = true /\ like_match [42; 98; 42] [97; 98; 99] = true /\
  like_match [97; 98] [97; 98] = true /\ like_match [97; 42] [98; 97] = false /\ like_match [] [97] = false /\ like_match [42] [] = true.
Proof. vm_compute. repeat split. Qed.
Example nontrivial_history :
  let ops := [HAdd (1%N, [(0, [97]); (1, [120])]); HSplit WInv; HAdd (70000%N, [(0, [98])]); HSplit WDict; HMerge WInv 0;
              HAdd (3%N, [(1, [120; 121])])] in
  NoDup (map fst (adds ops)) /\
  sel_ix (flat (hrun ops)) (Or (NotAtom 0 (PEq [97])) (Atom 1 (PLike [120; 42]))) = [70000%N; 3%N; 1%N].
Proof. vm_compute. split; [repeat constructor; simpl; intuition discriminate|reflexivity]. Qed.
