(* C10 — the property theorems *)
From Coq Require Import List Arith NArith Bool.
Import ListNotations.
From LinDBV.C10 Require Import Model Proofs.

(* selection through dictionary, postings and forward index = evaluation on every series' own tags *)
Theorem C10_selection_exact l c s : NoDup (map fst l) ->
  (In s (sel_ix (build l) c) <-> exists t, In (s, t) l /\ sel_naive t c = true).
Proof. exact (selection_exact l c s). Qed.
Print Assumptions C10_selection_exact.

(* group by returns each series' own values *)
Theorem C10_group_value_correct l k s t :
  NoDup (map fst l) -> (forall s' t', In (s', t') l -> keys_distinct t') -> In (s, t) l ->
  group_value (build l) k s = value_of t k.
Proof. exact (group_value_correct l k s t). Qed.
Print Assumptions C10_group_value_correct.

(* in memory, being flushed, flushed, compacted: any placement of layer operations between the writes *)
Theorem C10_layers_irrelevant ops : flat (hrun ops) = build (adds ops).
Proof. exact (layers_irrelevant ops). Qed.
Print Assumptions C10_layers_irrelevant.

Theorem C10_history_selection_exact ops c s : NoDup (map fst (adds ops)) ->
  (In s (sel_ix (flat (hrun ops)) c) <-> exists t, In (s, t) (adds ops) /\ sel_naive t c = true).
Proof. exact (history_selection_exact ops c s). Qed.
Print Assumptions C10_history_selection_exact.

Theorem C10_history_group_correct ops k s t :
  NoDup (map fst (adds ops)) -> (forall s' t', In (s', t') (adds ops) -> keys_distinct t') -> In (s, t) (adds ops) ->
  group_value (flat (hrun ops)) k s = value_of t k.
Proof. exact (history_group_correct ops k s t). Qed.
Print Assumptions C10_history_group_correct.
