(* C11 — executable checks: (correspondence code, oracle code); 0 = fine *)
From Coq Require Import List ZArith Bool.
Import ListNotations.
From LinDBV.C04 Require Import Model.
From LinDBV.C03 Require Import Model.
From LinDBV.C11 Require Import Model.
Open Scope Z_scope.

Fixpoint pts_eqb (a b : points) : bool :=
  match a, b with [], [] => true | (p, v) :: a', (q, w) :: b' => (p =? q) && (v =? w) && pts_eqb a' b' | _, _ => false end.
Definition slots_eqb (a b : points) : bool := pts_eqb (map (fun pv => (fst pv, 0)) a) (map (fun pv => (fst pv, 0)) b).

(* one key at one checkpoint: field type, whether a compaction happened, the key's events so far, what the leaf scan
   loaded (sources oldest first) *)
Definition keycheck := (nat * bool * list fev * list points)%type.

(* exact for sum/min/max; for first/last exact as long as no compaction merged files (its order is C03's membership
   claim), afterwards: same slots, each value one of the written ones *)
Definition view_ok (ft : nat) (compacted : bool) (expected : points) (evs : list fev) (srcs : list points) : bool :=
  let got := observe ft (concat srcs) in
  if commutative_type ft || negb compacted then pts_eqb expected got
  else slots_eqb expected got && forallb (fun pv => existsb (Z.eqb (snd pv)) (values_at (fst pv) (written evs))) got.

Definition corr_key (k : keycheck) : bool :=
  let '(ft, compacted, evs, srcs) := k in view_ok ft compacted (family_view true ft (frun true true ft evs)) evs srcs.
Definition oracle_key (k : keycheck) : bool :=
  let '(ft, compacted, evs, srcs) := k in view_ok ft compacted (naive ft evs) evs srcs.
Fixpoint first_bad (f : keycheck -> bool) (l : list keycheck) (i : nat) : nat :=
  match l with [] => 0%nat | k :: r => if f k then first_bad f r (S i) else S i end.
Definition check_keys (l : list keycheck) : nat * nat :=
  (first_bad corr_key l 0, match first_bad oracle_key l 0 with O => 0%nat | S _ => 101%nat end).
