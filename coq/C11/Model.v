(* C11 — storage side of a query: the memory database's field store of one (series, field) - a write window of W slots
   with start, end delta and presence marks, and a compressed block - with write / compact / flush as in
   tsdb/memdb/field_writer.go (write, compact, merge, getCurrentValue, slotRange, flushFieldTo); the family as the
   files of earlier flushes plus the memory database; and the reference: every written point kept, bucketed by slot,
   combined by the field type in write order.  Aggregation and down-sampling reuse C04/C03.  Definitions only. *)
From Coq Require Import List ZArith Bool.
Import ListNotations.
From LinDBV.C04 Require Import Model.
From LinDBV.C03 Require Import Model.
Open Scope Z_scope.

Definition W : Z := 15.          (* (page size 128 - header 8) / 8 *)

(* the write buffer: start slot, end delta, values by delta (present ones only) *)
Record window := { w_start : Z; w_end : Z; w_vals : points }.
Record store := { cur : option window; comp : points (* compressed block: slot -> value, ascending *) }.
Definition empty_store : store := {| cur := None; comp := [] |}.

(* getCurrentValue: a value of the window is visible only up to the end delta *)
Definition cur_value (w : window) (slot : Z) : option Z :=
  if (slot <? w_start w) || (w_start w + w_end w <? slot) then None else lookup (slot - w_start w) (w_vals w).
(* slotRange of window and compressed block *)
Definition first_slot (l : points) : option Z := match l with [] => None | (p, _) :: _ => Some p end.
Fixpoint last_slot (l : points) : option Z := match l with [] => None | [(p, _)] => Some p | _ :: r => last_slot r end.
Definition merge_range (w : window) (c : points) : Z * Z :=
  let s := w_start w in let e := w_start w + w_end w in
  match first_slot c, last_slot c with
  | Some cs, Some ce => (Z.min cs s, Z.max ce e)
  | _, _ => (s, e)
  end.
(* merge over a slot range; fixed_order: aggregate (old, new) instead of the code's (new, old) *)
Fixpoint merge_slots (fixed_order : bool) (ft : nat) (w : window) (c : points) (from : Z) (n : nat) : points :=
  match n with
  | O => []
  | S n' =>
      let rest := merge_slots fixed_order ft w c (from + 1) n' in
      match cur_value w from, lookup from c with
      | Some nv, None => (from, nv) :: rest
      | Some nv, Some ov => (from, if fixed_order then agg ft ov nv else agg ft nv ov) :: rest
      | None, Some ov => (from, ov) :: rest
      | None, None => rest
      end
  end.
Definition merged (fixed_order : bool) (ft : nat) (w : window) (c : points) (lo hi : Z) : points :=
  merge_slots fixed_order ft w c lo (Z.to_nat (hi - lo + 1)).
Definition compact_store (fo : bool) (ft : nat) (s : store) : points :=
  match cur s with
  | None => comp s
  | Some w => let '(lo, hi) := merge_range w (comp s) in merged fo ft w (comp s) lo hi
  end.

(* write; fixed_end: the end delta never moves back *)
Definition write (fixed_end fo : bool) (ft : nat) (s : store) (slot v : Z) : store :=
  match cur s with
  | None => {| cur := Some {| w_start := slot; w_end := 0; w_vals := [(0, v)] |}; comp := comp s |}
  | Some w =>
      if (slot <? w_start w) || (w_start w + W - 1 <? slot) then
        {| cur := Some {| w_start := slot; w_end := 0; w_vals := [(0, v)] |}; comp := compact_store fo ft s |}
      else
        let d := slot - w_start w in
        match lookup d (w_vals w) with
        | Some _ => {| cur := Some {| w_start := w_start w; w_end := w_end w; w_vals := put ft (w_vals w) d v |}; comp := comp s |}
        | None => {| cur := Some {| w_start := w_start w; w_end := (if fixed_end then Z.max (w_end w) d else d);
                                    w_vals := put ft (w_vals w) d v |}; comp := comp s |}
        end
  end.

(* what the store holds, as a reader or a flush sees it *)
Definition store_view (fo : bool) (ft : nat) (s : store) : points := compact_store fo ft s.

(* a family: the files of earlier flushes (oldest first) and the memory database *)
Record family := { files : list points; mem : store }.
Definition fam0 : family := {| files := []; mem := empty_store |}.
Inductive fev := FWrite (slot v : Z) | FFlush.
Definition fstep (fe fo : bool) (ft : nat) (f : family) (e : fev) : family :=
  match e with
  | FWrite slot v => {| files := files f; mem := write fe fo ft (mem f) slot v |}
  | FFlush => match store_view fo ft (mem f) with
              | [] => f
              | ps => {| files := files f ++ [ps]; mem := empty_store |}
              end
  end.
Definition frun (fe fo : bool) (ft : nat) (evs : list fev) : family := fold_left (fstep fe fo ft) evs fam0.
(* the reader: files in order, then the memory database *)
Definition family_view (fo : bool) (ft : nat) (f : family) : points :=
  observe ft (concat (files f) ++ store_view fo ft (mem f)).
(* the reference: every written point, in write order *)
Definition written (evs : list fev) : points := flat_map (fun e => match e with FWrite s v => [(s, v)] | FFlush => [] end) evs.
Definition naive (ft : nat) (evs : list fev) : points := observe ft (written evs).
