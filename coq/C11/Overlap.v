(* C11 — a query that overlaps a flush of the data family (tsdb/data_family.go Filter and Flush).
   Filter collects the memory databases (mutable, then the immutable one a flush is writing) under the family's
   mutex and only then takes the snapshot of the files; Flush swaps mutable -> immutable under the mutex, writes and
   commits the file without it (and closes the flushed database: a read that starts afterwards finds nothing in
   it), and drops the immutable database under the mutex again.  One (series, field): the
   values written, in order; what the query aggregates is the files' values followed by the memory databases'. *)
From Coq Require Import List ZArith Bool Lia Permutation.
Import ListNotations.
Open Scope Z_scope.

Record fam := { mut : list Z; imm : option (list Z); committed : bool; files : list (list Z) }.
Inductive ev := EWrite (v : Z) | ESwap | ECommit | EDrop | EQMem | EQFile.
Record st := { fm : fam; hist : list Z; qstart : option (list Z); qmem : option (list Z); qview : option (list Z) }.
Definition optl (o : option (list Z)) : list Z := match o with Some l => l | None => [] end.
Definition init : st := {| fm := {| mut := []; imm := None; committed := false; files := [] |}; hist := []; qstart := None; qmem := None; qview := None |}.

Definition fstep (f : fam) (e : ev) : fam :=
  match e with
  | EWrite v => {| mut := mut f ++ [v]; imm := imm f; committed := committed f; files := files f |}
  | ESwap => match imm f, mut f with
             | None, _ :: _ => {| mut := []; imm := Some (mut f); committed := false; files := files f |}
             | _, _ => f
             end
  | ECommit => match imm f with
               | Some l => if committed f then f else {| mut := mut f; imm := imm f; committed := true; files := files f ++ [l] |}
               | None => f
               end
  | EDrop => if committed f then {| mut := mut f; imm := None; committed := false; files := files f |} else f
  | EQMem | EQFile => f
  end.
Definition step (s : st) (e : ev) : st :=
  match e with
  | EWrite v => {| fm := fstep (fm s) e; hist := hist s ++ [v]; qstart := qstart s; qmem := qmem s; qview := qview s |}
  | EQMem => match qmem s with
             | None => {| fm := fm s; hist := hist s; qstart := Some (hist s); qmem := Some (mut (fm s) ++ (if committed (fm s) then [] else optl (imm (fm s)))); qview := qview s |}
             | Some _ => s
             end
  | EQFile => match qmem s, qview s with
              | Some m, None => {| fm := fm s; hist := hist s; qstart := qstart s; qmem := qmem s; qview := Some (concat (files (fm s)) ++ m) |}
              | _, _ => s
              end
  | _ => {| fm := fstep (fm s) e; hist := hist s; qstart := qstart s; qmem := qmem s; qview := qview s |}
  end.
Definition run (s : st) (evs : list ev) : st := fold_left step evs s.

(* every written value is in exactly one place; a committed immutable database is in the files as well *)
Definition Inv (s : st) : Prop :=
  Permutation (concat (files (fm s)) ++ (if committed (fm s) then [] else optl (imm (fm s))) ++ mut (fm s)) (hist s) /\
  (committed (fm s) = true -> imm (fm s) <> None).
Lemma inv_init : Inv init. Proof. split; [constructor|discriminate]. Qed.
Lemma step_inv s e : Inv s -> Inv (step s e).
Proof.
  intros [Hp Hc]. destruct s as [[m i c fs] h qs qm qv]. cbn [fm hist mut imm committed files] in *.
  destruct e; cbn [step fstep fm hist mut imm committed files qstart qmem qview]; unfold Inv; cbn [fm hist mut imm committed files].
  - split; [|exact Hc]. rewrite !app_assoc. apply Permutation_app_tail. rewrite <- !app_assoc. exact Hp.
  - destruct i as [l|]; [split; assumption|]. destruct m as [|x m]; [split; assumption|].
    cbn [fm mut imm committed files]. split; [|discriminate].
    destruct c; cbn [optl] in *; rewrite ?app_nil_r in *; exact Hp.
  - destruct i as [l|]; [|split; assumption]. destruct c; [split; assumption|].
    cbn [fm mut imm committed files optl] in *. split; [|discriminate].
    rewrite concat_app. cbn [concat]. rewrite app_nil_r, <- app_assoc. exact Hp.
  - destruct c; [|split; assumption]. cbn [fm mut imm committed files optl] in *. split; [exact Hp|discriminate].
  - destruct qm; cbn [fm hist mut imm committed files]; split; assumption.
  - destruct qm as [mm|]; [destruct qv|]; cbn [fm hist mut imm committed files]; split; assumption.
Qed.
Lemma run_inv evs : forall s, Inv s -> Inv (run s evs).
Proof. induction evs as [|e evs IH]; intros s H; [exact H|]. cbn [run fold_left]. apply IH, step_inv, H. Qed.

Definition is_commit (e : ev) : bool := match e with ECommit => true | _ => false end.
Definition is_q (e : ev) : bool := match e with EQMem | EQFile => true | _ => false end.

(* the events between the two reads that leave the files and the query alone *)
Lemma mid_keeps mid : forallb (fun e => negb (is_commit e) && negb (is_q e)) mid = true -> forall s,
  files (fm (run s mid)) = files (fm s) /\ qmem (run s mid) = qmem s /\ qview (run s mid) = qview s /\ qstart (run s mid) = qstart s.
Proof.
  induction mid as [|e mid IH]; intros H s; [repeat split|]. cbn [forallb] in H. apply andb_prop in H. destruct H as [He H].
  cbn [run fold_left]. destruct (IH H (step s e)) as [A [B [C D]]]. fold (run (step s e) mid). rewrite A, B, C, D.
  destruct s as [[m i c fs] h qs qm qv]. destruct e; try discriminate; cbn [step fstep fm files qmem qview qstart mut imm committed].
  - repeat split.
  - destruct i; [repeat split|]. destruct m; repeat split.
  - destruct c; repeat split.
Qed.

(* a query whose two reads are not separated by a commit aggregates exactly the values written before it started *)
Lemma run_app s a b : run s (a ++ b) = run (run s a) b.
Proof. unfold run. apply fold_left_app. Qed.
Lemma run_cons s e l : run s (e :: l) = run (step s e) l.
Proof. reflexivity. Qed.
Lemma noq_keeps evs : forallb (fun e => negb (is_q e)) evs = true -> forall s, qmem (run s evs) = qmem s /\ qview (run s evs) = qview s.
Proof.
  induction evs as [|e evs IH]; intros H s; [split; reflexivity|]. cbn [forallb] in H. apply andb_prop in H. destruct H as [He H].
  rewrite run_cons. destruct (IH H (step s e)) as [A B]. rewrite A, B. destruct e; try discriminate; split; reflexivity.
Qed.
Lemma view_stays evs : forall s m v, qmem s = Some m -> qview s = Some v ->
  qview (run s evs) = Some v /\ qstart (run s evs) = qstart s.
Proof.
  induction evs as [|e evs IH]; intros s m v Hm H; [split; [exact H|reflexivity]|]. rewrite run_cons.
  assert (H' : qmem (step s e) = Some m /\ qview (step s e) = Some v /\ qstart (step s e) = qstart s).
  { destruct s as [f h qs qm qv]. cbn [qview qmem] in H, Hm. subst qv qm. destruct e; cbn [step qview qstart qmem]; repeat split; reflexivity. }
  destruct H' as [H0 [H1 H2]]. destruct (IH (step s e) m v H0 H1) as [A' B']. split; [exact A'|congruence].
Qed.

Theorem overlap_free_view pre mid post :
  forallb (fun e => negb (is_q e)) pre = true ->
  forallb (fun e => negb (is_commit e) && negb (is_q e)) mid = true ->
  exists view, qview (run init (pre ++ [EQMem] ++ mid ++ [EQFile] ++ post)) = Some view /\
               qstart (run init (pre ++ [EQMem] ++ mid ++ [EQFile] ++ post)) = Some (hist (run init pre)) /\
               Permutation view (hist (run init pre)).
Proof.
  intros Hpre Hmid.
  set (s1 := run init pre) in *. destruct (noq_keeps pre Hpre init) as [Hm1 Hv1]. fold s1 in Hm1, Hv1. cbn [init qmem qview] in Hm1, Hv1.
  pose proof (run_inv pre init inv_init) as [Hp _]. fold s1 in Hp.
  rewrite run_app. fold s1. cbn [app]. rewrite run_cons.
  assert (E2 : step s1 EQMem = {| fm := fm s1; hist := hist s1; qstart := Some (hist s1); qmem := Some (mut (fm s1) ++ (if committed (fm s1) then [] else optl (imm (fm s1)))); qview := qview s1 |}).
  { unfold step. rewrite Hm1. reflexivity. }
  rewrite E2. set (s2 := {| fm := fm s1; hist := hist s1; qstart := Some (hist s1); qmem := Some (mut (fm s1) ++ (if committed (fm s1) then [] else optl (imm (fm s1)))); qview := qview s1 |}).
  rewrite run_app. destruct (mid_keeps mid Hmid s2) as [A [B [C D]]]. set (s3 := run s2 mid) in *.
  rewrite run_cons.
  assert (E3 : step s3 EQFile = {| fm := fm s3; hist := hist s3; qstart := qstart s3; qmem := qmem s3; qview := Some (concat (files (fm s3)) ++ mut (fm s1) ++ (if committed (fm s1) then [] else optl (imm (fm s1)))) |}).
  { unfold step. rewrite B, C. unfold s2. cbn [qmem qview]. rewrite Hv1. reflexivity. }
  rewrite E3. set (s4 := {| fm := fm s3; hist := hist s3; qstart := qstart s3; qmem := qmem s3; qview := Some (concat (files (fm s3)) ++ mut (fm s1) ++ (if committed (fm s1) then [] else optl (imm (fm s1)))) |}).
  assert (Hm4 : qmem s4 = Some (mut (fm s1) ++ (if committed (fm s1) then [] else optl (imm (fm s1))))) by (unfold s4; cbn [qmem]; rewrite B; reflexivity).
  destruct (view_stays post s4 _ _ Hm4 eq_refl) as [Pv Ps]. eexists. split; [exact Pv|]. split.
  - rewrite Ps. unfold s4. cbn [qstart]. rewrite D. reflexivity.
  - rewrite A. unfold s2. cbn [fm]. etransitivity; [|exact Hp].
    apply Permutation_app_head. apply Permutation_app_comm.
Qed.

(* refuted as stated for every overlap: with the flush's commit between the two reads the flushed memory database is
   aggregated twice *)
Theorem overlap_double_refuted :
  qview (run init [EWrite 5; EQMem; ESwap; ECommit; EQFile]) = Some [5; 5] /\
  qstart (run init [EWrite 5; EQMem; ESwap; ECommit; EQFile]) = Some [5] /\
  qview (run init [EWrite 5; ESwap; EQMem; ECommit; EQFile; EDrop]) = Some [5; 5] /\
  qview (run init [EWrite 5; ESwap; ECommit; EQMem; EQFile; EDrop]) = Some [5] /\
  qview (run init [EWrite 5; ESwap; EQMem; EQFile; ECommit; EDrop]) = Some [5] /\
  qview (run init [EWrite 5; ESwap; ECommit; EDrop; EQMem; EQFile]) = Some [5].
Proof. vm_compute. repeat split. Qed.
