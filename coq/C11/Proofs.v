(* C11 — proofs (storage side) *)
From Coq Require Import List ZArith Lia Bool Permutation.
Import ListNotations.
From LinDBV.C04 Require Import Model.
From LinDBV.C03 Require Import Model Proofs.
From LinDBV.C11 Require Import Model.
Open Scope Z_scope.

(* ---- merge over a slot range ---- *)
Definition comb_old_new (ft : nat) (o n : option Z) : option Z :=
  match o, n with Some a, Some b => Some (agg ft a b) | Some a, None => Some a | None, x => x end.

Lemma merge_slots_lookup ft w c n : forall from q,
  lookup q (merge_slots true ft w c from n) =
  if (from <=? q) && (q <? from + Z.of_nat n) then comb_old_new ft (lookup q c) (cur_value w q) else None.
Proof.
  induction n as [|n IH]; intros from q; cbn [merge_slots].
  - cbn [lookup]. destruct (Z.leb_spec from q); destruct (Z.ltb_spec q (from + Z.of_nat 0)); cbn [andb]; try reflexivity; lia.
  - specialize (IH (from + 1) q).
    assert (Hrest : lookup q (merge_slots true ft w c (from + 1) n) =
                    if (from + 1 <=? q) && (q <? from + Z.of_nat (S n)) then comb_old_new ft (lookup q c) (cur_value w q) else None).
    { rewrite IH. replace (from + 1 + Z.of_nat n) with (from + Z.of_nat (S n)) by lia. reflexivity. }
    destruct (Z.eq_dec q from) as [->|Hne].
    + (* the head slot *)
      assert (Hr0 : lookup from (merge_slots true ft w c (from + 1) n) = None).
      { rewrite Hrest. destruct (Z.leb_spec (from + 1) from); [lia|reflexivity]. }
      replace ((from <=? from) && (from <? from + Z.of_nat (S n))) with true
        by (symmetry; apply andb_true_intro; split; [apply Z.leb_le|apply Z.ltb_lt]; lia).
      destruct (cur_value w from) as [nv|], (lookup from c) as [ov|]; cbn [lookup comb_old_new]; rewrite ?Z.eqb_refl; try reflexivity.
      exact Hr0.
    + assert (Hskip : forall x rest, lookup q ((from, x) :: rest) = lookup q rest).
      { intros x rest. cbn [lookup]. destruct (Z.eqb_spec from q); [lia|reflexivity]. }
      assert (Hgoal : lookup q (merge_slots true ft w c (from + 1) n) =
                      if (from <=? q) && (q <? from + Z.of_nat (S n)) then comb_old_new ft (lookup q c) (cur_value w q) else None).
      { rewrite Hrest. destruct (Z.leb_spec (from + 1) q); destruct (Z.leb_spec from q); try lia; reflexivity. }
      destruct (cur_value w from), (lookup from c); rewrite ?Hskip; exact Hgoal.
Qed.

Lemma merge_slots_sorted ft w c n : forall from, sorted (merge_slots true ft w c from n) /\
  (forall p v r, merge_slots true ft w c from n = (p, v) :: r -> from <= p).
Proof.
  induction n as [|n IH]; intros from; cbn [merge_slots]; [split; [constructor|discriminate]|].
  destruct (IH (from + 1)) as [Hs Hb].
  assert (Hcons : forall x, sorted ((from, x) :: merge_slots true ft w c (from + 1) n)).
  { intros x. destruct (merge_slots true ft w c (from + 1) n) as [|[p v] r] eqn:E; [constructor|].
    constructor; [specialize (Hb p v r eq_refl); lia|exact Hs]. }
  destruct (cur_value w from), (lookup from c); split; try apply Hcons; try exact Hs;
    try (intros p v r E; inversion E; lia); intros p v r E; specialize (Hb p v r E); lia.
Qed.

(* ---- well-formed stores ---- *)
Record wf_window (w : window) : Prop := {
  wv_sorted : sorted (w_vals w);
  wv_range : forall d v, In (d, v) (w_vals w) -> 0 <= d <= w_end w;
  wv_end : 0 <= w_end w < W
}.
Definition wf_store (s : store) : Prop := sorted (comp s) /\ (forall w, cur s = Some w -> wf_window w).

Lemma lookup_in q l v : lookup q l = Some v -> In (q, v) l.
Proof.
  induction l as [|[p x] r IH]; cbn [lookup]; [discriminate|]. destruct (Z.eqb_spec p q) as [->|]; intros H.
  - inversion H; left; reflexivity.
  - right. apply IH, H.
Qed.
Lemma sorted_first_le l : sorted l -> forall p v a, In (p, v) l -> first_slot l = Some a -> a <= p.
Proof.
  induction 1 as [|a0 w0|a0 w0 b x r Hlt Hs IH]; intros p v a Hin Ha; [destruct Hin| |].
  - destruct Hin as [E|[]]. inversion E; subst. inversion Ha; lia.
  - cbn in Ha. inversion Ha; subst. destruct Hin as [E|Hin]; [inversion E; lia|].
    specialize (IH p v b Hin eq_refl). lia.
Qed.
Lemma sorted_last_ge l : sorted l -> forall p v a, In (p, v) l -> last_slot l = Some a -> p <= a.
Proof.
  induction 1 as [|a0 w0|a0 w0 b x r Hlt Hs IH]; intros p v a Hin Ha; [destruct Hin| |].
  - destruct Hin as [E|[]]. inversion E; subst. inversion Ha; lia.
  - change (last_slot ((a0, w0) :: (b, x) :: r)) with (last_slot ((b, x) :: r)) in Ha.
    destruct Hin as [E|Hin]; [|eapply IH; eassumption].
    inversion E; subst. assert (b <= a) by (apply (IH b x a (or_introl eq_refl) Ha)). lia.
Qed.
Lemma first_last_some l : l <> [] -> exists a b, first_slot l = Some a /\ last_slot l = Some b.
Proof.
  induction l as [|[p v] r IH]; intros H; [contradiction|]. destruct r as [|[q x] r'].
  - exists p, p. auto.
  - destruct IH as (a & b & _ & Hb); [discriminate|]. exists p, b. split; [reflexivity|exact Hb].
Qed.

(* the view of a store at a slot: the compressed block's value combined with the window's *)
Lemma cur_value_range w q v : wf_window w -> cur_value w q = Some v -> w_start w <= q <= w_start w + w_end w.
Proof.
  intros _. unfold cur_value. destruct (Z.ltb_spec q (w_start w)); destruct (Z.ltb_spec (w_start w + w_end w) q); cbn [orb]; try discriminate. lia.
Qed.
Lemma store_view_lookup ft s q : wf_store s ->
  lookup q (store_view true ft s) = comb_old_new ft (lookup q (comp s)) (match cur s with Some w => cur_value w q | None => None end).
Proof.
  intros [Hc Hw]. unfold store_view, compact_store. destruct (cur s) as [w|] eqn:Ec.
  2:{ destruct (lookup q (comp s)); reflexivity. }
  specialize (Hw w eq_refl). destruct (merge_range w (comp s)) as [lo hi] eqn:Er.
  unfold merged. rewrite merge_slots_lookup.
  assert (Hcov : (lookup q (comp s) <> None \/ cur_value w q <> None) -> lo <= q <= hi).
  { unfold merge_range in Er. intros Hor.
    destruct (comp s) as [|c0 cr] eqn:Ecomp.
    - cbn in Er. inversion Er; subst. destruct Hor as [H|H]; [cbn in H; congruence|].
      destruct (cur_value w q) as [v|] eqn:Ev; [|congruence]. apply (cur_value_range w q v Hw Ev).
    - destruct (first_last_some (c0 :: cr)) as (a & b & Ha & Hb); [discriminate|]. rewrite Ha, Hb in Er. inversion Er; subst.
      destruct Hor as [H|H].
      + destruct (lookup q (c0 :: cr)) as [v|] eqn:El; [|congruence]. apply lookup_in in El.
        pose proof (sorted_first_le _ Hc _ _ a El Ha). pose proof (sorted_last_ge _ Hc _ _ b El Hb). lia.
      + destruct (cur_value w q) as [v|] eqn:Ev; [|congruence]. pose proof (cur_value_range w q v Hw Ev). lia. }
  destruct (Z.leb_spec lo q); destruct (Z.ltb_spec q (lo + Z.of_nat (Z.to_nat (hi - lo + 1)))); cbn [andb]; try reflexivity.
  all: destruct (lookup q (comp s)) eqn:E1; destruct (cur_value w q) eqn:E2; cbn [comb_old_new]; try reflexivity;
      exfalso; assert (lo <= q <= hi) by (apply Hcov; first [left; congruence|right; congruence]); lia.
Qed.
Lemma store_view_sorted ft s : wf_store s -> sorted (store_view true ft s).
Proof.
  intros [Hc Hw]. unfold store_view, compact_store. destruct (cur s) as [w|]; [|exact Hc].
  destruct (merge_range w (comp s)) as [lo hi]. unfold merged. apply merge_slots_sorted.
Qed.

(* ---- writes keep the store well-formed and add exactly one value at the written slot ---- *)
Lemma put_in ft acc p v d x : In (d, x) (put ft acc p v) -> d = p \/ In (d, x) acc \/ exists y, In (d, y) acc.
Proof.
  induction acc as [|[a w] r IH]; cbn [put]; intros H.
  - destruct H as [E|[]]. inversion E; auto.
  - destruct (Z.eqb_spec a p).
    + destruct H as [E|H]; [inversion E; subst; auto|right; left; right; exact H].
    + destruct (Z.ltb_spec p a).
      * destruct H as [E|H]; [inversion E; auto|right; left; exact H].
      * destruct H as [E|H]; [right; left; left; exact E|].
        destruct (IH H) as [E|[E|[y E]]]; auto; [right; left; right; exact E|right; right; exists y; right; exact E].
Qed.

Lemma write_wf ft s slot v : wf_store s -> wf_store (write true true ft s slot v).
Proof.
  intros Hwf. pose proof Hwf as [Hc Hw]. unfold write. destruct (cur s) as [w|] eqn:Ec.
  2:{ split; cbn [comp cur]; [exact Hc|]. intros w' E. inversion E; subst. constructor; cbn; [constructor| |unfold W; lia].
      intros d x [E'|[]]. inversion E'; lia. }
  specialize (Hw w eq_refl). destruct ((slot <? w_start w) || (w_start w + W - 1 <? slot)) eqn:Eout.
  - split; cbn [comp cur]; [apply (store_view_sorted ft s Hwf)|].
    intros w' E. inversion E; subst. constructor; cbn; [constructor| |unfold W; lia].
    intros d x [E'|[]]. inversion E'; lia.
  - apply orb_false_elim in Eout as [E1 E2]. apply Z.ltb_ge in E1, E2.
    destruct Hw as [Hs Hr He].
    assert (Hd : 0 <= slot - w_start w < W) by lia.
    destruct (lookup (slot - w_start w) (w_vals w)) eqn:El; split; cbn [comp cur]; try exact Hc; intros w' E; inversion E; subst; constructor; cbn [w_vals w_end w_start].
    + apply put_sorted, Hs.
    + intros d x Hin. apply put_in in Hin as [->|[Hin|[y Hin]]]; [apply lookup_in in El; apply (Hr _ _ El)|apply (Hr _ _ Hin)|apply (Hr _ _ Hin)].
    + exact He.
    + apply put_sorted, Hs.
    + intros d x Hin. apply put_in in Hin as [->|[Hin|[y Hin]]]; [lia|specialize (Hr _ _ Hin); lia|specialize (Hr _ _ Hin); lia].
    + lia.
Qed.

Definition opt_point (slot v q : Z) : option Z := if q =? slot then Some v else None.
Lemma write_view ft s slot v q : wf_store s ->
  lookup q (store_view true ft (write true true ft s slot v)) = comb_old_new ft (lookup q (store_view true ft s)) (opt_point slot v q).
Proof.
  intros Hwf. rewrite (store_view_lookup ft _ q (write_wf ft s slot v Hwf)). pose proof Hwf as [Hc Hw].
  unfold write. destruct (cur s) as [w|] eqn:Ec.
  2:{ cbn [comp cur]. rewrite (store_view_lookup ft s q Hwf), Ec. unfold cur_value, opt_point. cbn [w_start w_end w_vals].
      destruct (Z.eqb_spec q slot) as [->|Hne].
      - replace ((slot <? slot) || (slot + 0 <? slot)) with false by (symmetry; apply orb_false_intro; apply Z.ltb_ge; lia).
        rewrite Z.sub_diag. cbn [lookup]. destruct (lookup slot (comp s)); reflexivity.
      - destruct (Z.ltb_spec q slot); destruct (Z.ltb_spec (slot + 0) q); cbn [orb]; try (destruct (lookup q (comp s)); reflexivity).
        lia. }
  specialize (Hw w eq_refl). destruct ((slot <? w_start w) || (w_start w + W - 1 <? slot)) eqn:Eout.
  - (* a new window; the old one goes into the compressed block *)
    cbn [comp cur]. change (compact_store true ft s) with (store_view true ft s). unfold cur_value, opt_point. cbn [w_start w_end w_vals].
    destruct (Z.eqb_spec q slot) as [->|Hne].
    + replace ((slot <? slot) || (slot + 0 <? slot)) with false by (symmetry; apply orb_false_intro; apply Z.ltb_ge; lia).
      rewrite Z.sub_diag. cbn [lookup]. reflexivity.
    + destruct (Z.ltb_spec q slot); destruct (Z.ltb_spec (slot + 0) q); cbn [orb]; try reflexivity. lia.
  - apply orb_false_elim in Eout as [E1 E2]. apply Z.ltb_ge in E1, E2. destruct Hw as [Hs Hr He].
    rewrite (store_view_lookup ft s q Hwf), Ec.
    set (d := slot - w_start w).
    assert (Hcv : forall e', w_end w <= e' -> d <= e' ->
      cur_value {| w_start := w_start w; w_end := e'; w_vals := put ft (w_vals w) d v |} q =
      comb_old_new ft (cur_value w q) (opt_point slot v q)).
    { intros e' He1 He2. unfold cur_value, opt_point. cbn [w_start w_end w_vals].
      destruct (Z.eqb_spec q slot) as [->|Hne].
      - fold d. replace ((slot <? w_start w) || (w_start w + e' <? slot)) with false by (symmetry; apply orb_false_intro; apply Z.ltb_ge; unfold d in *; lia).
        rewrite (put_lookup ft (w_vals w) d v d Hs), Z.eqb_refl.
        destruct (lookup d (w_vals w)) as [ov|] eqn:El.
        + apply lookup_in in El. specialize (Hr _ _ El).
          replace ((slot <? w_start w) || (w_start w + w_end w <? slot)) with false by (symmetry; apply orb_false_intro; apply Z.ltb_ge; unfold d in *; lia).
          reflexivity.
        + destruct ((slot <? w_start w) || (w_start w + w_end w <? slot)); reflexivity.
      - rewrite (put_lookup ft (w_vals w) d v (q - w_start w) Hs).
        destruct (Z.eqb_spec (q - w_start w) d); [unfold d in *; lia|].
        destruct (Z.ltb_spec q (w_start w)); cbn [orb]; [reflexivity|].
        destruct (Z.ltb_spec (w_start w + w_end w) q); destruct (Z.ltb_spec (w_start w + e') q); try lia.
        + reflexivity.
        + (* beyond the old end: nothing stored there *)
          destruct (lookup (q - w_start w) (w_vals w)) as [x|] eqn:El; [|reflexivity].
          apply lookup_in in El. specialize (Hr _ _ El). lia.
        + destruct (lookup (q - w_start w) (w_vals w)); reflexivity. }
    assert (Hassoc : forall o c n, comb_old_new ft o (comb_old_new ft c n) = comb_old_new ft (comb_old_new ft o c) n \/ True) by (intros; right; exact I).
    destruct (lookup d (w_vals w)) eqn:El; cbn [comp cur].
    + apply lookup_in in El. pose proof (Hr _ _ El). rewrite (Hcv (w_end w)) by (unfold d in *; lia).
      destruct (lookup q (comp s)), (cur_value w q), (opt_point slot v q); cbn [comb_old_new]; try reflexivity.
      f_equal. destruct ft as [|[|[|[|[|ft]]]]]; cbn; lia.
    + rewrite (Hcv (Z.max (w_end w) d)) by lia.
      destruct (lookup q (comp s)), (cur_value w q), (opt_point slot v q); cbn [comb_old_new]; try reflexivity.
      f_equal. destruct ft as [|[|[|[|[|ft]]]]]; cbn; lia.
Qed.

(* ---- aggregation in order is associative for every field type ---- *)
Lemma agg_assoc_all ft a b c : agg ft (agg ft a b) c = agg ft a (agg ft b c).
Proof. destruct ft as [|[|[|[|[|ft]]]]]; cbn; lia. Qed.
Lemma fold_agg_shift_all ft vs : forall a b, fold_left (agg ft) vs (agg ft a b) = agg ft a (fold_left (agg ft) vs b).
Proof. induction vs as [|v vs IH]; intros a b; cbn [fold_left]; [reflexivity|]. rewrite agg_assoc_all. apply IH. Qed.
Lemma aggl_app_all ft a b : aggl ft (a ++ b) = comb_old_new ft (aggl ft a) (aggl ft b).
Proof.
  destruct a as [|x a]; [cbn [app aggl comb_old_new]; destruct (aggl ft b); reflexivity|]. cbn [app aggl].
  rewrite fold_left_app. destruct b as [|y b]; cbn [aggl comb_old_new fold_left]; [reflexivity|].
  f_equal. rewrite <- fold_agg_shift_all. reflexivity.
Qed.
Lemma comb_assoc_all ft x y z : comb_old_new ft (comb_old_new ft x y) z = comb_old_new ft x (comb_old_new ft y z).
Proof. destruct x, y, z; cbn; try reflexivity. f_equal. apply agg_assoc_all. Qed.
Lemma aggl_opt ft o : aggl ft (match o with Some v => [v] | None => [] end) = o.
Proof. destruct o; reflexivity. Qed.

(* ---- a store filled by writes holds, at every slot, the aggregate in write order of what was written there ---- *)
Definition wpoints := list (Z * Z).
Definition fill (ft : nat) (s : store) (ps : wpoints) : store := fold_left (fun s pv => write true true ft s (fst pv) (snd pv)) ps s.
Lemma fill_wf ft ps : forall s, wf_store s -> wf_store (fill ft s ps).
Proof. induction ps as [|[p v] ps IH]; intros s H; cbn [fill fold_left]; [exact H|]. apply IH, write_wf, H. Qed.
Lemma fill_view ft ps q : forall s, wf_store s ->
  lookup q (store_view true ft (fill ft s ps)) = comb_old_new ft (lookup q (store_view true ft s)) (aggl ft (values_at q ps)).
Proof.
  induction ps as [|[p v] ps IH]; intros s H; cbn [fill fold_left].
  - unfold values_at. cbn. destruct (lookup q (store_view true ft s)); reflexivity.
  - cbn [fst snd]. fold (fill ft (write true true ft s p v) ps). rewrite (IH _ (write_wf ft s p v H)).
    rewrite (write_view ft s p v q H). rewrite comb_assoc_all. f_equal.
    change ((p, v) :: ps) with ([(p, v)] ++ ps). rewrite values_at_app, aggl_app_all. f_equal.
    unfold values_at, opt_point. cbn [filter map fst snd]. destruct (Z.eqb_spec p q); destruct (Z.eqb_spec q p); try lia; reflexivity.
Qed.
Lemma empty_wf : wf_store empty_store.
Proof. split; [constructor|intros w E; discriminate]. Qed.

(* ---- the family: files of earlier flushes, oldest first, then the memory database ---- *)
Record finv (ft : nat) (f : family) (chunks : list wpoints) (pending : wpoints) : Prop := {
  fi_wf : wf_store (mem f);
  fi_len : length (files f) = length chunks;
  fi_files : forall i file chunk, nth_error (files f) i = Some file -> nth_error chunks i = Some chunk ->
             sorted file /\ forall q, lookup q file = aggl ft (values_at q chunk);
  fi_mem : forall q, lookup q (store_view true ft (mem f)) = aggl ft (values_at q pending)
}.

Lemma view_concat ft : forall fls chunks, length fls = length chunks ->
  (forall i file chunk, nth_error fls i = Some file -> nth_error chunks i = Some chunk ->
      sorted file /\ forall q, lookup q file = aggl ft (values_at q chunk)) ->
  forall q, aggl ft (values_at q (concat fls)) = aggl ft (values_at q (concat chunks)).
Proof.
  induction fls as [|fl fls IH]; intros [|ch chunks] Hlen Hf q; try discriminate; [reflexivity|].
  cbn [concat]. rewrite !values_at_app, !aggl_app_all.
  destruct (Hf 0%nat fl ch eq_refl eq_refl) as [Hs Hl].
  rewrite (sorted_values_at q fl Hs), Hl, aggl_opt. f_equal.
  apply IH; [cbn in Hlen; lia|]. intros i file chunk H1 H2. apply (Hf (S i) file chunk H1 H2).
Qed.

Theorem storage_eq_naive ft evs q :
  lookup q (family_view true ft (frun true true ft evs)) = lookup q (naive ft evs).
Proof.
  unfold naive. rewrite observe_lookup.
  assert (G : forall evs f chunks pending, finv ft f chunks pending ->
      exists chunks' pending', finv ft (fold_left (fstep true true ft) evs f) chunks' pending' /\
         concat chunks' ++ pending' = (concat chunks ++ pending) ++ written evs).
  { clear. induction evs as [|e evs IH]; intros f chunks pending HI; cbn [fold_left written flat_map].
    - exists chunks, pending. rewrite app_nil_r. auto.
    - destruct e as [slot v|]; cbn [fstep].
      + (* write *)
        destruct HI as [Hwf Hlen Hfiles Hmem].
        destruct (IH {| files := files f; mem := write true true ft (mem f) slot v |} chunks (pending ++ [(slot, v)])) as (c' & p' & HI' & E).
        { constructor; cbn [files mem]; auto; [apply write_wf, Hwf|].
          intros q. rewrite (write_view ft (mem f) slot v q Hwf), Hmem, values_at_app, aggl_app_all. f_equal.
          unfold values_at, opt_point. cbn [filter map fst snd]. destruct (Z.eqb_spec slot q); destruct (Z.eqb_spec q slot); try lia; reflexivity. }
        exists c', p'. split; [exact HI'|]. rewrite E. rewrite <- !app_assoc. reflexivity.
      + (* flush *)
        destruct HI as [Hwf Hlen Hfiles Hmem].
        destruct (store_view true ft (mem f)) as [|pt ps] eqn:Ev.
        * (* nothing to flush: no written point is visible, hence none pending at any slot *)
          destruct (IH f chunks pending) as (c' & p' & HI' & E).
          { constructor; auto. intros q. rewrite Ev. apply Hmem. }
          exists c', p'. split; [exact HI'|exact E].
        * destruct (IH {| files := files f ++ [pt :: ps]; mem := empty_store |} (chunks ++ [pending]) []) as (c' & p' & HI' & E).
          { constructor; cbn [files mem].
            - apply empty_wf.
            - rewrite !app_length. cbn. lia.
            - intros i file chunk H1 H2. destruct (Nat.lt_ge_cases i (length (files f))) as [Hi|Hi].
              + rewrite nth_error_app1 in H1 by exact Hi. rewrite nth_error_app1 in H2 by lia. apply (Hfiles i); assumption.
              + rewrite nth_error_app2 in H1 by exact Hi. rewrite nth_error_app2 in H2 by lia. rewrite Hlen in H1.
                destruct (i - length chunks)%nat as [|k]; [|destruct k; discriminate].
                cbn in H1, H2. inversion H1; inversion H2; subst. split; [rewrite <- Ev; apply store_view_sorted, Hwf|exact Hmem].
            - intros q. reflexivity. }
          exists c', p'. split; [exact HI'|]. rewrite E. rewrite concat_app. cbn [concat]. rewrite !app_nil_r. rewrite <- !app_assoc. reflexivity. }
  destruct (G evs fam0 [] []) as (chunks & pending & [Hwf Hlen Hfiles Hmem] & E).
  { constructor; cbn [fam0 files mem]; auto; try apply empty_wf; try (intros i file chunk H; destruct i; discriminate H); try (intros q; reflexivity). }
  cbn [concat app] in E. fold (frun true true ft evs) in *.
  unfold family_view. rewrite observe_lookup, values_at_app, aggl_app_all.
  rewrite (view_concat ft _ _ Hlen Hfiles q).
  rewrite (sorted_values_at q _ (store_view_sorted ft _ Hwf)), Hmem, aggl_opt.
  rewrite <- aggl_app_all, <- values_at_app, E. reflexivity.
Qed.

(* ---- the code as it was: two witnesses ---- *)
(* out-of-order slots inside one write window: the end delta moves back and hides slot 9 *)
Theorem window_end_regresses_refuted :
  let evs := [FWrite 5 1; FWrite 9 2; FWrite 7 3; FFlush] in
  (lookup 9 (family_view true 1%nat (frun false true 1%nat evs)), lookup 9 (naive 1%nat evs)) = (None, Some 2).
Proof. vm_compute. reflexivity. Qed.
(* a slot revisited after a window change: the merge aggregates (new, old), so a LAST field keeps the older value *)
Theorem last_merge_order_refuted :
  let evs := [FWrite 5 1; FWrite 100 2; FWrite 5 3; FWrite 200 9; FFlush] in
  (lookup 5 (family_view false 4%nat (frun true false 4%nat evs)), lookup 5 (naive 4%nat evs)) = (Some 1, Some 3).
Proof. vm_compute. reflexivity. Qed.
