(* C11 — the property theorems (storage side) *)
From Coq Require Import List ZArith Bool.
Import ListNotations.
From LinDBV.C04 Require Import Model.
From LinDBV.C03 Require Import Model.
From LinDBV.C11 Require Import Model Proofs.
Open Scope Z_scope.

(* for every field type, every sequence of writes (any slots, any order, duplicates) and every placement of flushes:
   what a reader of the family sees at a slot - the files oldest first, then the memory database's compressed block and
   write window - is the aggregate, in write order, of everything written to that slot *)
Theorem C11_storage_eq_naive ft evs q :
  lookup q (family_view true ft (frun true true ft evs)) = lookup q (naive ft evs).
Proof. exact (storage_eq_naive ft evs q). Qed.
Print Assumptions C11_storage_eq_naive.

(* the field store as it was before the two repairs *)
Theorem C11_window_end_regresses_refuted :
  let evs := [FWrite 5 1; FWrite 9 2; FWrite 7 3; FFlush] in
  (lookup 9 (family_view true 1%nat (frun false true 1%nat evs)), lookup 9 (naive 1%nat evs)) = (None, Some 2).
Proof. exact window_end_regresses_refuted. Qed.
Print Assumptions C11_window_end_regresses_refuted.
Theorem C11_last_merge_order_refuted :
  let evs := [FWrite 5 1; FWrite 100 2; FWrite 5 3; FWrite 200 9; FFlush] in
  (lookup 5 (family_view false 4%nat (frun true false 4%nat evs)), lookup 5 (naive 4%nat evs)) = (Some 1, Some 3).
Proof. exact last_merge_order_refuted. Qed.
Print Assumptions C11_last_merge_order_refuted.
