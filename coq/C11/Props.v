(* C11 — the property theorems (storage side) *)
From Coq Require Import List ZArith Bool.
Import ListNotations.
From LinDBV.C04 Require Import Model.
From LinDBV.C03 Require Import Model.
From LinDBV.C11 Require Import Model Proofs.
Open Scope Z_scope.

(* for every field type, every sequence of writes (any slots, any order, duplicates) and every placement of flushes:
   what a reader of the family sees at a slot - the files oldest first, then the memory database's compressed block and
   write window - is the aggregate, in write order, of everything written to that slot *)
Theorem C11_storage_eq_naive ft evs q :
  lookup q (family_view true ft (frun true true ft evs)) = lookup q (naive ft evs).
Proof. exact (storage_eq_naive ft evs q). Qed.
Print Assumptions C11_storage_eq_naive.

(* the field store as it was before the two repairs *)
Theorem C11_window_end_regresses_refuted :
  let evs := [FWrite 5 1; FWrite 9 2; FWrite 7 3; FFlush] in
  (lookup 9 (family_view true 1%nat (frun false true 1%nat evs)), lookup 9 (naive 1%nat evs)) = (None, Some 2).
Proof. exact window_end_regresses_refuted. Qed.
Print Assumptions C11_window_end_regresses_refuted.
Theorem C11_last_merge_order_refuted :
  let evs := [FWrite 5 1; FWrite 100 2; FWrite 5 3; FWrite 200 9; FFlush] in
  (lookup 5 (family_view false 4%nat (frun true false 4%nat evs)), lookup 5 (naive 4%nat evs)) = (Some 1, Some 3).
Proof. exact last_merge_order_refuted. Qed.
Print Assumptions C11_last_merge_order_refuted.

(* ---- the query view over the physical sources of a key (C11/Query.v) ---- *)
From LinDBV.C12 Require Import Model.
From LinDBV.C11 Require Import Query.

(* a function whose aggregate type is the field's own sum / min / max: whatever the split of the written points into
   sources (files, compressed block, write window; any order), every query slot has the reference's value *)
Theorem C11_query_state_independent ft lo hi r (parts : list wlist) (ws : wlist) j : commutative_type ft = true ->
  Permutation.Permutation (concat parts) ws -> q_asis ft ft lo hi r parts j = q_ref ft ft lo hi r ws j.
Proof. exact (query_state_independent ft lo hi r parts ws j). Qed.
Print Assumptions C11_query_state_independent.

(* at the storage interval, every field type (last and first included), sources in write order *)
Theorem C11_query_ratio1_write_order ft lo hi (parts : list wlist) j :
  q_asis ft ft lo hi 1 parts j = q_ref ft ft lo hi 1 (concat parts) j.
Proof. exact (query_ratio1_write_order ft lo hi parts j). Qed.
Print Assumptions C11_query_ratio1_write_order.

(* refuted: max(f) of a sum field whose slot is held by two sources is the maximum of the partial sums *)
Theorem C11_function_over_split_slot_refuted :
  q_asis 1 3 0 10 1 [[(5, 45)]; [(5, 41)]] 5 = Some 45 /\ q_ref 1 3 0 10 1 [(5, 45); (5, 41)] 5 = Some 86 /\
  q_asis 1 3 0 10 1 [[(5, 45); (5, 41)]] 5 = Some 86.
Proof. exact function_over_split_slot_refuted. Qed.
Print Assumptions C11_function_over_split_slot_refuted.

(* refuted: last down-sampled over several storage slots follows the order of the sources, not of time *)
Theorem C11_last_downsampled_over_sources_refuted :
  q_asis 4 4 6 11 6 [[(9, 54)]; [(7, 50)]] 0 = Some 50 /\ q_ref 4 4 6 11 6 [(9, 54); (7, 50)] 0 = Some 54.
Proof. exact last_downsampled_over_sources_refuted. Qed.
Print Assumptions C11_last_downsampled_over_sources_refuted.

(* ---- a statement that overlaps a flush of the data family (C11/Overlap.v) ---- *)
From LinDBV.C11 Require Overlap.
(* a query whose two reads (memory databases, then the files) are not separated by the flush's commit aggregates
   exactly the values written before it started - whatever else (writes, swap, drop) happens in between and around *)
Theorem C11_overlap_free_view pre mid post :
  forallb (fun e => negb (Overlap.is_q e)) pre = true ->
  forallb (fun e => negb (Overlap.is_commit e) && negb (Overlap.is_q e)) mid = true ->
  exists view, Overlap.qview (Overlap.run Overlap.init (pre ++ [Overlap.EQMem] ++ mid ++ [Overlap.EQFile] ++ post)) = Some view /\
               Overlap.qstart (Overlap.run Overlap.init (pre ++ [Overlap.EQMem] ++ mid ++ [Overlap.EQFile] ++ post)) = Some (Overlap.hist (Overlap.run Overlap.init pre)) /\
               Permutation.Permutation view (Overlap.hist (Overlap.run Overlap.init pre)).
Proof. exact (Overlap.overlap_free_view pre mid post). Qed.
Print Assumptions C11_overlap_free_view.
(* refuted for every overlap: with the commit between the two reads the flushed memory database counts twice *)
Theorem C11_overlap_double_refuted :
  Overlap.qview (Overlap.run Overlap.init [Overlap.EWrite 5; Overlap.EQMem; Overlap.ESwap; Overlap.ECommit; Overlap.EQFile]) = Some [5; 5] /\
  Overlap.qstart (Overlap.run Overlap.init [Overlap.EWrite 5; Overlap.EQMem; Overlap.ESwap; Overlap.ECommit; Overlap.EQFile]) = Some [5] /\
  Overlap.qview (Overlap.run Overlap.init [Overlap.EWrite 5; Overlap.ESwap; Overlap.EQMem; Overlap.ECommit; Overlap.EQFile; Overlap.EDrop]) = Some [5; 5] /\
  Overlap.qview (Overlap.run Overlap.init [Overlap.EWrite 5; Overlap.ESwap; Overlap.ECommit; Overlap.EQMem; Overlap.EQFile; Overlap.EDrop]) = Some [5] /\
  Overlap.qview (Overlap.run Overlap.init [Overlap.EWrite 5; Overlap.ESwap; Overlap.EQMem; Overlap.EQFile; Overlap.ECommit; Overlap.EDrop]) = Some [5] /\
  Overlap.qview (Overlap.run Overlap.init [Overlap.EWrite 5; Overlap.ESwap; Overlap.ECommit; Overlap.EDrop; Overlap.EQMem; Overlap.EQFile]) = Some [5].
Proof. exact Overlap.overlap_double_refuted. Qed.
Print Assumptions C11_overlap_double_refuted.
