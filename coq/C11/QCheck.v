(* C11 — executable check of a statement answered by the real query path on one storage node against the reference
   (C12/Model.naive: every point kept, one value per storage slot by the field type, storage slots of a query slot in
   time order by the function's aggregate type).  Keys whose answer the reference alone decides are compared exactly;
   the others (a function whose aggregate type is not the field's over a slot written more than once; last/first over
   several storage slots or series) have the recorded behaviours of C11/Query.v and are compared on presence only. *)
From Coq Require Import List ZArith Bool Arith.
Import ListNotations.
From LinDBV.C04 Require Import Model.
From LinDBV.C03 Require Import Model.
From LinDBV.C12 Require Import Model Check.
From LinDBV.C11 Require Overlap.
Open Scope Z_scope.

(* one node, one shard *)
Definition one_node (pts : list point) (m : nat) : ldesc :=
  mkDesc (map (fun s => (s, 0%nat)) (all_series pts m)) 1 [0%nat] 1 0 false [0%nat].

Definition k_field (k : key) : nat := snd (fst (fst k)).
Definition k_slot (k : key) : Z := snd k.
Definition writes_to (pts : list point) (m : nat) (s : series) (f : nat) (t : Z) : nat :=
  length (filter (fun p => Nat.eqb (p_metric p) m && list_eqb (p_series p) s && Nat.eqb (p_field p) f && (p_slot p =? t)) pts).
(* storage cells feeding a key: (series, slot, number of writes) *)
Definition feeding (pts : list point) (q : query) (k : key) : list (series * Z * nat) :=
  flat_map (fun s =>
    if matches q s && list_eqb (group_of q s) (k_group k) then
      flat_map (fun cv : cell * Z => let '((f, t), _) := cv in
        if Nat.eqb f (k_field k) && (q_lo q <=? t) && (t <=? q_hi q) && ((t - q_lo q) / q_ratio q =? k_slot k)
        then [(s, t, writes_to pts (q_metric q) s f t)] else []) (series_cells pts (q_metric q) s)
    else []) (all_series pts (q_metric q)).
(* the reference alone decides the key's value, whatever the physical state *)
Definition state_free (pts : list point) (q : query) (k : key) : bool :=
  let fd := feeding pts q k in
  (commutative_type (k_agg k) && Nat.eqb (k_agg k) (ftype (k_field k))) ||
  (forallb (fun c => Nat.leb (snd c) 1) fd && (commutative_type (k_agg k) || Nat.leb (length fd) 1)).

Definition sf_entries (pts : list point) (q : query) (es : list entry) : list entry :=
  filter (fun e => state_free pts q (item_key q e)) es.
Definition other_entries (pts : list point) (q : query) (es : list entry) : list entry :=
  filter (fun e => negb (state_free pts q (item_key q e))) es.

Definition q_agree (pts : list point) (q : query) (model o : obs) : bool :=
  match model, o with
  | OErr a, OErr b => Nat.eqb a b
  | ORes a, ORes b => same_entries (sf_entries pts q a) (sf_entries pts q b) && same_slots a b
  | _, _ => false
  end.
Definition reference (pts : list point) (q : query) : list entry :=
  entries_of q (reduce key_eqb k_agg (naive_contribs pts q)).

Definition check_query (pts : list point) (q : query) (o : obs) : nat * nat :=
  let model := asis (one_node pts (q_metric q)) pts q in
  let c := if q_agree pts q model o then 0%nat else 1%nat in
  let orc :=
    match o with
    | OErr _ => match model with OErr _ => 0%nat | ORes [] => 0%nat | ORes _ => 102%nat end
    | ORes b =>
        let ref := reference pts q in
        if negb (same_entries (sf_entries pts q ref) (sf_entries pts q b) && same_slots ref b) then 101%nat
        else
          let diff := filter (fun e => negb (existsb (entry_eqb e) ref)) (other_entries pts q b) in
          match diff with
          | [] => 0%nat
          | _ => if existsb (fun e => commutative_type (k_agg (item_key q e))) diff then 150%nat else 151%nat
          end
    end in
  (c, orc).

(* ---- a statement answered while the data family is being flushed (C11/Overlap.v): the schedule of the query's two
   reads against the flush's three steps decides whether the flushed memory database is aggregated twice ---- *)
Definition doubled (sched : list Overlap.ev) : bool :=
  match Overlap.qview (Overlap.run Overlap.init (Overlap.EWrite 1 :: sched)) with
  | Some (_ :: _ :: _) => true
  | _ => false
  end.
Definition check_overlap (pts : list point) (q : query) (sched : list Overlap.ev) (o : obs) : nat * nat :=
  let seen := if doubled sched then pts ++ pts else pts in
  let model := asis (one_node pts (q_metric q)) seen q in
  let c := if q_agree seen q model o then 0%nat else 1%nat in
  let orc :=
    match o with
    | OErr _ => match reference pts q with [] => 0%nat | _ => 102%nat end
    | ORes b => if same_entries (reference pts q) b then 0%nat else if doubled sched then 160%nat else 101%nat
    end in
  (c, orc).
