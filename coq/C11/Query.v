(* C11 — the query view of one (series, field) over the physical sources of its data.
   The written points of the key are spread over sources (files of earlier flushes, the memory database's compressed
   block and its write window: any split of the write sequence); a source holds one value per storage slot, combined
   by the field type (tsdb/memdb/field_writer.go, tblstore/metricsdata: C11/Model.v, C03).  A leaf loads every
   source into an aggregator of its own, down-sampling the source's storage slots into query slots with the aggregate
   type of the statement's function (query/operator/data_load.go, aggregation/down_sampling_agg.go), and the
   aggregators are then merged with the same aggregate type (aggregation/series_agg.go, group_agg.go).
   The reference combines all points of a storage slot by the field type first, then the storage slots of a query
   slot, in time order, by the function's aggregate type. *)
From Coq Require Import List ZArith Bool Arith Lia Permutation.
Import ListNotations.
From LinDBV.C04 Require Import Model.
From LinDBV.C03 Require Import Model Proofs.
From LinDBV.C12 Require Import Model Proofs.
Open Scope Z_scope.

Definition wlist := list (Z * Z).      (* (storage slot, value) in write order *)

Section Key.
Variable ft : nat.                     (* field type: aggregation code *)
Variable a : nat.                      (* aggregate type of the statement's function for this field *)
Variables lo hi r : Z.                 (* storage slots of the time range, interval ratio *)

(* what a source holds: one value per slot *)
Definition held (part : wlist) : wlist := reduce Z.eqb (fun _ => ft) part.
Definition in_range (t : Z) : bool := (lo <=? t) && (t <=? hi).
Definition qslot (t : Z) : Z := (t - lo) / r.
(* contributions of cells to query slots *)
Definition qc (cells : wlist) : wlist :=
  flat_map (fun c => if in_range (fst c) then [(qslot (fst c), snd c)] else []) cells.
Definition qvalue (j : Z) (cs : wlist) : option Z := value Z.eqb (fun _ => a) j cs.

(* the code: every source down-sampled on its own, then merged *)
Definition q_asis (parts : list wlist) (j : Z) : option Z := qvalue j (flat_map (fun part => qc (held part)) parts).

(* the reference: all points of a slot combined by the field type, slots in time order *)
Fixpoint insert_slot (x : Z * Z) (l : wlist) : wlist :=
  match l with [] => [x] | y :: l' => if fst x <? fst y then x :: l else y :: insert_slot x l' end.
Definition sort_slots (l : wlist) : wlist := fold_right insert_slot [] l.
Definition q_ref (ws : wlist) (j : Z) : option Z := qvalue j (qc (sort_slots (held ws))).
End Key.

(* ---------------- proofs ---------------- *)
Lemma zeqb_eq (x y : Z) : Z.eqb x y = true <-> x = y.
Proof. apply Z.eqb_eq. Qed.

Lemma insert_slot_perm x l : Permutation (insert_slot x l) (x :: l).
Proof.
  induction l as [|y l IH]; cbn [insert_slot]; [reflexivity|]. destruct (fst x <? fst y); [reflexivity|].
  rewrite IH. apply perm_swap.
Qed.
Lemma sort_slots_perm l : Permutation (sort_slots l) l.
Proof. induction l as [|x l IH]; cbn [sort_slots fold_right]; [constructor|]. rewrite insert_slot_perm. constructor. exact IH. Qed.

Lemma aggl_flat_congr {A} ft (f g : A -> list Z) l :
  (forall x, In x l -> aggl ft (f x) = aggl ft (g x)) -> aggl ft (flat_map f l) = aggl ft (flat_map g l).
Proof.
  induction l as [|x l IH]; intros H; [reflexivity|]. cbn [flat_map]. rewrite !aggl_app_any.
  rewrite (H x (or_introl eq_refl)), IH; [reflexivity|]. intros y Hy. apply H. right. exact Hy.
Qed.

(* grouping a list by its keys is a permutation of the list *)
Lemma flat_map_insert_perm {A B} (eqb : A -> A -> bool) (eqb_eq : forall x y, eqb x y = true <-> x = y)
      (F : A -> list B) (c : B) t0 ks : NoDup ks -> In t0 ks ->
  Permutation (flat_map (fun t => if eqb t0 t then c :: F t else F t) ks) (c :: flat_map F ks).
Proof.
  induction ks as [|k ks IH]; intros Hnd Hin; [destruct Hin|]. inversion Hnd as [|? ? Hnk Hnd']; subst.
  cbn [flat_map]. destruct (eqb t0 k) eqn:E.
  - apply eqb_eq in E. subst k. cbn [app]. constructor. apply Permutation_app_head.
    rewrite (flat_map_ext_in _ F); [reflexivity|]. intros y Hy. destruct (eqb t0 y) eqn:E'; [|reflexivity].
    apply eqb_eq in E'. subst y. contradiction.
  - destruct Hin as [->|Hin]; [rewrite (proj2 (eqb_eq t0 t0) eq_refl) in E; discriminate|].
    rewrite (IH Hnd' Hin). apply Permutation_sym, Permutation_middle.
Qed.

Lemma group_perm (cs : wlist) :
  Permutation (flat_map (fun t => filter (fun c => Z.eqb (fst c) t) cs) (keys Z.eqb cs)) cs.
Proof.
  induction cs as [|c cs IH]; [constructor|]. unfold keys. cbn [map nodupb].
  destruct (existsb (Z.eqb (fst c)) (map fst cs)) eqn:E.
  - fold (keys Z.eqb cs).
    rewrite (flat_map_ext_in _ (fun t => if Z.eqb (fst c) t then c :: filter (fun c0 => Z.eqb (fst c0) t) cs
                                         else filter (fun c0 => Z.eqb (fst c0) t) cs)).
    2:{ intros t _. cbn [filter]. destruct (Z.eqb (fst c) t); reflexivity. }
    rewrite (flat_map_insert_perm Z.eqb zeqb_eq).
    + constructor. exact IH.
    + apply (nodupb_nodup _ Z.eqb zeqb_eq).
    + apply (nodupb_in _ Z.eqb zeqb_eq). apply existsb_exists in E. destruct E as [x [Hx Hxe]]. apply Z.eqb_eq in Hxe. subst x. exact Hx.
  - fold (keys Z.eqb cs). cbn [flat_map filter]. rewrite Z.eqb_refl. cbn [app].
    assert (Hnone : filter (fun c0 => Z.eqb (fst c0) (fst c)) cs = []).
    { clear IH. induction cs as [|d cs IHc]; [reflexivity|]. cbn [map existsb] in E. apply orb_false_elim in E. destruct E as [E1 E2].
      cbn [filter]. rewrite Z.eqb_sym, E1. apply IHc, E2. }
    rewrite Hnone. cbn [app]. constructor.
    rewrite (flat_map_ext_in _ (fun t => filter (fun c0 => Z.eqb (fst c0) t) cs)); [exact IH|].
    intros t Ht. cbn [filter]. destruct (Z.eqb (fst c) t) eqn:Et; [|reflexivity].
    apply Z.eqb_eq in Et. subst t. exfalso.
    unfold keys in Ht. apply (proj1 (nodupb_in _ Z.eqb zeqb_eq _ _)) in Ht.
    assert (existsb (Z.eqb (fst c)) (map fst cs) = true) by (apply existsb_exists; exists (fst c); split; [exact Ht|apply Z.eqb_refl]). congruence.
Qed.

Lemma filter_flat_map {A B} (p : B -> bool) (f : A -> list B) l : filter p (flat_map f l) = flat_map (fun x => filter p (f x)) l.
Proof. induction l as [|x l IH]; [reflexivity|]. cbn [flat_map]. rewrite filter_app, IH. reflexivity. Qed.
Lemma filter_perm {A} (p : A -> bool) l l' : Permutation l l' -> Permutation (filter p l) (filter p l').
Proof.
  induction 1 as [|x l l' _ IH|x y l|l l' l'' _ IH1 _ IH2]; cbn [filter].
  - constructor.
  - destruct (p x); [constructor|]; exact IH.
  - destruct (p x), (p y); try reflexivity. constructor.
  - etransitivity; eassumption.
Qed.

Section KeyProofs.
Variable ft : nat.
Variables lo hi r : Z.
Notation qcf := (qc lo hi r).
Notation P := (fun (j t : Z) => in_range lo hi t && Z.eqb (qslot lo r t) j).

Lemma qc_app x y : qcf (x ++ y) = qcf x ++ qcf y.
Proof. unfold qc. apply flat_map_app. Qed.
Lemma qc_perm x y : Permutation x y -> Permutation (qcf x) (qcf y).
Proof. unfold qc. apply flat_map_perm. Qed.
Lemma vals_qc j cs : vals Z.eqb j (qcf cs) = map snd (filter (fun c => P j (fst c)) cs).
Proof.
  unfold vals, qc. induction cs as [|c cs IH]; [reflexivity|]. cbn [flat_map filter].
  destruct (in_range lo hi (fst c)) eqn:Er; cbn [andb app filter fst snd].
  - destruct (Z.eqb (qslot lo r (fst c)) j); cbn [map snd]; rewrite IH; reflexivity.
  - exact IH.
Qed.

Lemma qc_flat_map {A} (f : A -> wlist) l : qcf (flat_map f l) = flat_map (fun x => qcf (f x)) l.
Proof. unfold qc. apply flat_map_flat_map. Qed.
Lemma vals_qc_single j t (o : option Z) :
  vals Z.eqb j (qcf (match o with Some v => [(t, v)] | None => [] end)) = if P j t then optl o else [].
Proof. rewrite vals_qc. destruct o; cbn [filter map fst snd optl]; destruct (P j t); reflexivity. Qed.
Lemma filter_filter_key j t (cs : wlist) :
  filter (fun c => P j (fst c)) (filter (fun c => Z.eqb (fst c) t) cs) = if P j t then filter (fun c => Z.eqb (fst c) t) cs else [].
Proof.
  induction cs as [|c cs IH]; [destruct (P j t); reflexivity|]. cbn [filter]. destruct (Z.eqb (fst c) t) eqn:E.
  - apply Z.eqb_eq in E. cbn [filter]. rewrite E. destruct (P j t); [f_equal|]; exact IH.
  - exact IH.
Qed.

(* combining the points of a slot first and the slots of a query slot next equals combining all at once,
   for an order-insensitive type used at both levels *)
Lemma regroup a j cs : commutative_type a = true ->
  aggl a (vals Z.eqb j (qcf (reduce Z.eqb (fun _ => a) cs))) = aggl a (vals Z.eqb j (qcf cs)).
Proof.
  intros Hc. unfold reduce. rewrite qc_flat_map. rewrite (vals_flat_map _ Z.eqb).
  rewrite (flat_map_ext_in _ (fun t => optl (aggl a (if P j t then vals Z.eqb t cs else [])))).
  2:{ intros t _. rewrite vals_qc_single. unfold value. destruct (P j t); reflexivity. }
  rewrite aggl_flat_opt. apply aggl_perm; [exact Hc|]. rewrite vals_qc.
  rewrite (flat_map_ext_in _ (fun t => map snd (filter (fun c => P j (fst c)) (filter (fun c => Z.eqb (fst c) t) cs)))).
  2:{ intros t _. rewrite filter_filter_key. unfold vals. destruct (P j t); reflexivity. }
  assert (E : forall (l : list Z) (G : Z -> wlist), flat_map (fun t => map snd (G t)) l = map snd (flat_map G l)).
  { intros l G. induction l as [|x l IH]; [reflexivity|]. cbn [flat_map]. rewrite map_app, IH. reflexivity. }
  rewrite (E (keys Z.eqb cs) (fun t => filter (fun c => P j (fst c)) (filter (fun c => Z.eqb (fst c) t) cs))).
  apply Permutation_map. rewrite <- filter_flat_map. apply filter_perm, group_perm.
Qed.

Lemma qc_concat (parts : list wlist) : flat_map (fun part => qcf part) parts = qcf (concat parts).
Proof. induction parts as [|p ps IH]; [reflexivity|]. cbn [flat_map concat]. rewrite qc_app. f_equal. exact IH. Qed.

(* (A) a function whose aggregate type is the field's own order-insensitive type: whatever the split into sources *)
Theorem query_state_independent (parts : list wlist) (ws : wlist) j : commutative_type ft = true ->
  Permutation (concat parts) ws -> q_asis ft ft lo hi r parts j = q_ref ft ft lo hi r ws j.
Proof.
  intros Hc Hp. unfold q_asis, q_ref, qvalue, value, held. rewrite (vals_flat_map _ Z.eqb).
  rewrite (aggl_flat_congr ft _ (fun part => vals Z.eqb j (qcf part))) by (intros part _; apply regroup, Hc).
  rewrite <- (vals_flat_map _ Z.eqb).
  rewrite qc_concat.
  rewrite (aggl_perm ft _ (vals Z.eqb j (qcf ws)) Hc) by (apply (vals_perm _ Z.eqb), qc_perm, Hp).
  rewrite <- (regroup ft j ws Hc).
  apply aggl_perm; [exact Hc|]. apply (vals_perm _ Z.eqb), qc_perm. symmetry. apply sort_slots_perm.
Qed.
End KeyProofs.

(* (D) the storage interval (ratio 1), the field's own type (any, last and first included), sources in write order *)
Section Ratio1.
Variable ft : nat.
Variables lo hi : Z.
Lemma vals_qc1 j cs : vals Z.eqb j (qc lo hi 1 cs) = if in_range lo hi (j + lo) then vals Z.eqb (j + lo) cs else [].
Proof.
  rewrite vals_qc. unfold vals.
  rewrite (filter_ext _ (fun c => in_range lo hi (j + lo) && Z.eqb (fst c) (j + lo))).
  2:{ intros c. unfold qslot. rewrite Z.div_1_r. destruct (Z.eqb_spec (fst c - lo) j) as [E|E].
      - replace (j + lo) with (fst c) by lia. rewrite Z.eqb_refl. reflexivity.
      - destruct (Z.eqb_spec (fst c) (j + lo)); [lia|]. rewrite !andb_false_r. reflexivity. }
  destruct (in_range lo hi (j + lo)); cbn [andb]; [reflexivity|].
  induction cs as [|c cs IH]; [reflexivity|exact IH].
Qed.
Theorem query_ratio1_write_order (parts : list wlist) j :
  q_asis ft ft lo hi 1 parts j = q_ref ft ft lo hi 1 (concat parts) j.
Proof.
  unfold q_asis, q_ref, qvalue, value, held. rewrite (vals_flat_map _ Z.eqb). rewrite vals_qc1.
  rewrite (flat_map_ext_in _ (fun part => if in_range lo hi (j + lo) then vals Z.eqb (j + lo) (reduce Z.eqb (fun _ => ft) part) else []))
    by (intros part _; apply vals_qc1).
  destruct (in_range lo hi (j + lo)); [|rewrite flat_map_nil; reflexivity].
  rewrite (flat_map_ext_in _ (fun part => optl (aggl ft (vals Z.eqb (j + lo) part))))
    by (intros part _; apply (vals_reduce _ Z.eqb (fun _ => ft) zeqb_eq)).
  rewrite aggl_flat_opt.
  assert (E : flat_map (vals Z.eqb (j + lo)) parts = vals Z.eqb (j + lo) (concat parts)).
  { clear. induction parts as [|p ps IH]; [reflexivity|]. cbn [flat_map concat]. rewrite (vals_app _ Z.eqb), IH. reflexivity. }
  rewrite E.
  pose proof (vals_perm _ Z.eqb (j + lo) _ _ (sort_slots_perm (reduce Z.eqb (fun _ => ft) (concat parts)))) as Hp.
  rewrite (vals_reduce _ Z.eqb (fun _ => ft) zeqb_eq) in Hp. unfold value in Hp.
  destruct (aggl ft (vals Z.eqb (j + lo) (concat parts))) as [v|] eqn:Ev; cbn [optl] in Hp.
  - apply Permutation_sym, Permutation_length_1_inv in Hp. rewrite Hp. reflexivity.
  - apply Permutation_sym, Permutation_nil in Hp. rewrite Hp. reflexivity.
Qed.
End Ratio1.

(* (B) refuted: a function whose aggregate type differs from the field's, a slot spread over two sources:
   max(f) of a sum field written 45 and 41 at one slot, a flush in between *)
Theorem function_over_split_slot_refuted :
  q_asis 1 3 0 10 1 [[(5, 45)]; [(5, 41)]] 5 = Some 45 /\ q_ref 1 3 0 10 1 [(5, 45); (5, 41)] 5 = Some 86 /\
  q_asis 1 3 0 10 1 [[(5, 45); (5, 41)]] 5 = Some 86.
Proof. vm_compute. repeat split. Qed.
(* (C) refuted: last over several storage slots of a query slot follows the order of the sources, not of time:
   slot 9 written first (then moved to the compressed block by a window change), slot 7 afterwards *)
Theorem last_downsampled_over_sources_refuted :
  q_asis 4 4 6 11 6 [[(9, 54)]; [(7, 50)]] 0 = Some 50 /\ q_ref 4 4 6 11 6 [(9, 54); (7, 50)] 0 = Some 54.
Proof. vm_compute. repeat split. Qed.
