(* C12 — the code as it is (Check.asis) against the layout model: where every storage node answers with data and the
   root gets the answers, what the root holds is the layout's answer; the three recorded behaviours where it is not
   (a node lacking one of the selected fields, compute brokers, last/first over several series) are refuted with
   concrete worlds. *)
From Coq Require Import List ZArith Bool Arith Lia Permutation.
Import ListNotations.
From LinDBV.C04 Require Import Model.
From LinDBV.C03 Require Import Model Proofs.
From LinDBV.C12 Require Import Model Proofs Check.
Open Scope Z_scope.

Definition all_data (d : ldesc) (pts : list point) (q : query) : Prop :=
  forall n, In n (d_order d) -> node_resp d pts q n = RData (leaf_partial (to_layout d) pts q n).

Lemma map_node_resp d pts q l : (forall n, In n l -> node_resp d pts q n = RData (leaf_partial (to_layout d) pts q n)) ->
  map (node_resp d pts q) l = map (fun n => RData (leaf_partial (to_layout d) pts q n)) l.
Proof. intros H. apply map_ext_in. exact H. Qed.

Lemma data_of_map_data (f : nat -> list (key * Z)) l : data_of (map (fun n => RData (f n)) l) = flat_map f l.
Proof. unfold data_of. rewrite flat_map_concat_map, map_map, <- flat_map_concat_map. reflexivity. Qed.

Lemma no_error_in_data (f : nat -> list (key * Z)) l : existsb is_error (map (fun n => RData (f n)) l) = false.
Proof. induction l as [|x l IH]; cbn; auto. Qed.
Lemma data_not_all_notfound (f : nat -> list (key * Z)) l : l <> [] -> all_notfound (map (fun n => RData (f n)) l) = false.
Proof. destruct l; [congruence|reflexivity]. Qed.

(* with every node answering data and no time-out, the code's answer holds, per key, the layout's answer *)
Theorem asis_is_answer d pts q : times_out d q = false -> all_data d pts q -> d_order d <> [] ->
  exists R, asis d pts q = ORes (entries_of q R) /\
            forall k, kvalue k R = value key_eqb k_agg k (flat_map (leaf_partial (to_layout d) pts q) (d_order d)).
Proof.
  intros Ht Ha Hne. unfold asis. rewrite Ht. rewrite (map_node_resp d pts q (d_order d) Ha).
  set (rs := map (fun n => RData (leaf_partial (to_layout d) pts q n)) (d_order d)).
  assert (E1 : existsb is_error rs = false) by apply no_error_in_data.
  assert (E2 : all_notfound rs = false) by (apply data_not_all_notfound; exact Hne).
  rewrite E1. rewrite root_fails_iff, E1, E2, andb_false_r. cbn [orb].
  eexists. split; [reflexivity|]. intros k. unfold kvalue. rewrite (value_reduce _ key_eqb k_agg key_eqb_eq).
  rewrite root_acc. unfold rs. rewrite data_of_map_data. reflexivity.
Qed.
(* and that is the layout model's answer when the root receives the leaves' answers itself *)
Corollary asis_is_answer_root d pts q k R : d_nrecv d = O ->
  (forall k, kvalue k R = value key_eqb k_agg k (flat_map (leaf_partial (to_layout d) pts q) (d_order d))) ->
  kvalue k R = answer (to_layout d) pts q k.
Proof.
  intros En H. rewrite H. unfold answer, root_result, to_layout. cbn [nrecv order]. rewrite En.
  rewrite (value_reduce _ key_eqb k_agg key_eqb_eq). reflexivity.
Qed.

(* ---- refuted: a storage node that knows the metric but not every selected field answers "not found" ---- *)
Definition pts_f : list point :=
  [mkPoint 0 [0%nat; 0%nat] 1 0 5; mkPoint 0 [1%nat; 1%nat] 2 1 6].
Definition q_f : query := mkQuery 0 [(0%nat, 0%nat); (1%nat, 0%nat)] [] [] 0 10 1.
Definition d_one : ldesc := mkDesc [([0%nat; 0%nat], 0%nat); ([1%nat; 1%nat], 0%nat)] 1 [0%nat] 1 0 false [0%nat].
Definition d_two : ldesc := mkDesc [([0%nat; 0%nat], 0%nat); ([1%nat; 1%nat], 1%nat)] 2 [0%nat; 1%nat] 2 0 false [0%nat; 1%nat].
Theorem node_lacking_a_field_refuted :
  wf_b d_one pts_f q_f = true /\ wf_b d_two pts_f q_f = true /\
  asis d_one pts_f q_f = ORes [(0%nat, [], 1, 5); (1%nat, [], 2, 6)] /\ asis d_two pts_f q_f = OErr 2.
Proof. vm_compute. repeat split. Qed.

(* ---- refuted: group-by over several storage nodes with the root itself, or a second broker, as compute node ---- *)
Definition q_g : query := mkQuery 0 [(0%nat, 0%nat)] [] [0%nat] 0 10 1.
Definition d_self : ldesc := mkDesc [([0%nat; 0%nat], 0%nat); ([1%nat; 1%nat], 1%nat)] 2 [0%nat; 1%nat] 2 0 true [0%nat; 1%nat].
Definition d_two_brokers : ldesc := mkDesc [([0%nat; 0%nat], 0%nat); ([1%nat; 1%nat], 1%nat)] 2 [0%nat; 1%nat] 2 2 false [0%nat; 1%nat].
Theorem compute_brokers_refuted :
  asis d_one pts_f q_g = ORes [(0%nat, [0%nat], 1, 5)] /\ asis d_self pts_f q_g = OErr 1 /\ asis d_two_brokers pts_f q_g = OErr 1.
Proof. vm_compute. repeat split. Qed.

(* non-vacuity: a layout with three shards on two nodes and one compute broker meets the hypotheses and answers *)
Definition pts_e : list point :=
  [mkPoint 0 [0%nat; 0%nat] 1 0 5; mkPoint 0 [1%nat; 1%nat] 1 0 6; mkPoint 0 [2%nat; 2%nat] 7 0 9; mkPoint 0 [0%nat; 0%nat] 1 0 2].
Definition q_e : query := mkQuery 0 [(0%nat, 0%nat); (0%nat, 3%nat)] [] [] 0 10 6.
Definition lay_e : layout :=
  mkLayout (fun s => nth 0 s 0%nat) 3 (fun sh => Nat.modulo sh 2) 2 1 (fun _ => 0%nat) (fun _ => [1%nat; 0%nat]) [0%nat].
Example lay_e_wf : wf lay_e pts_e q_e.
Proof.
  constructor.
  - intros s Hs. vm_compute in Hs. destruct Hs as [<-|[<-|[<-|[]]]]; cbn; lia.
  - cbn [lay_e place nnodes nshards]. intros sh Hsh. apply Nat.mod_upper_bound. discriminate.
  - cbn. intros _. constructor.
  - cbn. intros _. split; [intros; lia|reflexivity].
Qed.
Example lay_e_answers :
  answer lay_e pts_e q_e ([], 0%nat, 1%nat, 0) = Some 13 /\ answer lay_e pts_e q_e ([], 0%nat, 3%nat, 0) = Some 7 /\
  answer lay_e pts_e q_e ([], 0%nat, 1%nat, 1) = Some 9 /\ naive pts_e q_e ([], 0%nat, 1%nat, 0) = Some 13.
Proof. vm_compute. repeat split. Qed.
