(* C12 — executable checks: (correspondence code, oracle code); 0 = fine.
   A case is one world (points), one statement and two runs of it: the reference layout (one shard, one node, no
   compute broker) and another layout with its delivery order. *)
From Coq Require Import List ZArith Bool Arith.
Import ListNotations.
From LinDBV.C04 Require Import Model.
From LinDBV.C03 Require Import Model.
From LinDBV.C12 Require Import Model TopN.
Open Scope Z_scope.

(* a layout as the harness describes it *)
Record ldesc := mkDesc {
  d_route : list (series * nat);   (* shard each series was routed to (observed from the broker's shard iterator) *)
  d_nshards : nat;
  d_place : list nat;              (* shard -> storage node *)
  d_nnodes : nat;
  d_nrecv : nat;                   (* compute brokers the chooser offers besides the root *)
  d_self : bool;                   (* the root is among the compute brokers offered *)
  d_order : list nat;              (* storage nodes in the order their answers were handed to the receiver *)
}.
Fixpoint assoc (s : series) (l : list (series * nat)) : nat :=
  match l with [] => 0%nat | (s', n) :: r => if list_eqb s s' then n else assoc s r end.
Definition to_layout (d : ldesc) : layout :=
  mkLayout (fun s => assoc s (d_route d)) (d_nshards d) (fun sh => nth sh (d_place d) 0%nat) (d_nnodes d)
           (match d_nrecv d with O => O | _ => 1%nat end) (fun _ => 0%nat) (fun _ => d_order d) [0%nat].

Definition is_perm_of_seq (l : list nat) (n : nat) : bool :=
  Nat.eqb (length l) n && forallb (fun i => existsb (Nat.eqb i) l) (seq 0 n).
(* the hypotheses of the theorems, decided *)
Definition wf_b (d : ldesc) (pts : list point) (q : query) : bool :=
  forallb (fun s => Nat.ltb (assoc s (d_route d)) (d_nshards d)) (all_series pts (q_metric q)) &&
  forallb (fun sh => Nat.ltb (nth sh (d_place d) 0%nat) (d_nnodes d)) (seq 0 (d_nshards d)) &&
  is_perm_of_seq (d_order d) (d_nnodes d).

(* observation of one run *)
Definition entry := (nat * list nat * Z * Z)%type.     (* select item, group, query slot, value *)
Inductive obs := OErr (code : nat) | ORes (es : list entry).   (* 1 timeout, 2 "not found", 3 other *)
Definition entry_eqb (a b : entry) : bool :=
  let '(i, g, t, v) := a in let '(i', g', t', v') := b in Nat.eqb i i' && list_eqb g g' && (t =? t') && (v =? v').
Definition same_entries (a b : list entry) : bool :=
  Nat.eqb (length a) (length b) && forallb (fun e => existsb (entry_eqb e) b) a && forallb (fun e => existsb (entry_eqb e) a) b.

Definition item_key (q : query) (e : entry) : key :=
  let '(i, g, t, _) := e in let it := nth i (q_items q) (0%nat, 0%nat) in (g, fst it, func_agg (ftype (fst it)) (snd it), t).
Definition entries_of (q : query) (root : list (key * Z)) : list entry :=
  flat_map (fun i => let it := nth i (q_items q) (0%nat, 0%nat) in
     flat_map (fun kv : key * Z => let '((g, f, a, t), v) := kv in
        if Nat.eqb f (fst it) && Nat.eqb a (func_agg (ftype (fst it)) (snd it)) then [(i, g, t, v)] else []) root)
    (seq 0 (length (q_items q))).

(* keys whose value the written data decides: order-insensitive aggregates, or one contributing series.
   [sc]: what each series contributes (computed once per case) *)
Definition contribs_by_series (pts : list point) (q : query) : list (list (key * Z)) :=
  map (series_contribs pts q) (all_series pts (q_metric q)).
Definition sources (sc : list (list (key * Z))) (k : key) : nat :=
  length (filter (fun cs => match vals key_eqb k cs with [] => false | _ => true end) sc).
Definition determinate (sc : list (list (key * Z))) (q : query) (k : key) : bool :=
  commutative_type (k_agg k) || Nat.leb (sources sc k) 1.
Definition det_entries (sc : list (list (key * Z))) (q : query) (es : list entry) : list entry :=
  filter (fun e => determinate sc q (item_key q e)) es.
Definition indet_ok (sc : list (list (key * Z))) (q : query) (es : list entry) : bool :=
  forallb (fun e => determinate sc q (item_key q e) ||
                    existsb (Z.eqb (snd e)) (vals key_eqb (item_key q e) (concat sc))) es.
Definition key_slots (es : list entry) : list (nat * list nat * Z) := map (fun e => fst e) es.
Definition same_slots (a b : list entry) : bool :=
  same_entries (map (fun e => (fst e, 0)) a) (map (fun e => (fst e, 0)) b).

(* ---- the code as it is ---- *)
Definition node_of (d : ldesc) (s : series) : nat := nth (assoc s (d_route d)) (d_place d) 0%nat.
Definition knows_metric (d : ldesc) (pts : list point) (m n : nat) : bool :=
  existsb (fun p => Nat.eqb (p_metric p) m && Nat.eqb (node_of d (p_series p)) n) pts.
Definition knows_field (d : ldesc) (pts : list point) (m f n : nat) : bool :=
  existsb (fun p => Nat.eqb (p_metric p) m && Nat.eqb (p_field p) f && Nat.eqb (node_of d (p_series p)) n) pts.
(* a storage node answers "not found" when it does not know the metric or one of the selected fields *)
(* series/field/type.go IsFuncSupported, by aggregation code of the field type *)
Definition supported (ft fn : nat) : bool :=
  match ft, fn with
  | _, 0%nat => true
  | 1%nat, (1%nat | 2%nat | 3%nat) => true
  | 2%nat, 2%nat => true
  | 3%nat, 3%nat => true
  | 4%nat, (1%nat | 2%nat | 3%nat | 4%nat) => true
  | 5%nat, (1%nat | 2%nat | 3%nat | 5%nat) => true
  | _, _ => false
  end.
Definition node_resp (d : ldesc) (pts : list point) (q : query) (n : nat) : resp :=
  if knows_metric d pts (q_metric q) n && forallb (fun it => knows_field d pts (q_metric q) (fst it) n) (q_items q)
  then (if forallb (fun it => supported (ftype (fst it)) (snd it)) (q_items q)
        then RData (leaf_partial (to_layout d) pts q n) else RError)
  else RNotFound.
Definition has_group (q : query) : bool := match q_group q with [] => false | _ => true end.
(* group-by statements go to compute brokers when there is more than one storage node; with the root itself or a
   second (receive-only) broker among them the root never gets all the answers it waits for *)
Definition times_out (d : ldesc) (q : query) : bool :=
  has_group q && Nat.ltb 1 (d_nnodes d) && (d_self d || Nat.ltb 1 (d_nrecv d)).
Definition asis (d : ldesc) (pts : list point) (q : query) : obs :=
  if times_out d q then OErr 1 else
  let rs := map (node_resp d pts q) (d_order d) in
  let s := root_handle rs in
  if existsb is_error rs then OErr 3 else if failed s then OErr 2 else ORes (entries_of q (reduce key_eqb k_agg (acc s))).
(* some node holds data of the metric but lacks one of the selected fields *)
Definition lacks_field (d : ldesc) (pts : list point) (q : query) : bool :=
  existsb (fun n => knows_metric d pts (q_metric q) n &&
                    negb (forallb (fun it => knows_field d pts (q_metric q) (fst it) n) (q_items q))) (seq 0 (d_nnodes d)).

Definition obs_agree (sc : list (list (key * Z))) (q : query) (model o : obs) : bool :=
  match model, o with
  | OErr a, OErr b => Nat.eqb a b
  | ORes a, ORes b => same_entries (det_entries sc q a) (det_entries sc q b) && same_slots a b && indet_ok sc q b
  | _, _ => false
  end.

Definition corr (sc : list (list (key * Z))) (pts : list point) (q : query) (dref d : ldesc) (oref o : obs) : nat :=
  if negb (wf_b dref pts q && wf_b d pts q) then 3%nat
  else if negb (obs_agree sc q (asis dref pts q) oref) then 1%nat
  else if negb (obs_agree sc q (asis d pts q) o) then 2%nat
  else 0%nat.

(* oracle: the two observations agree; classes of disagreement that the inputs explain get their own codes *)
Definition oracle (sc : list (list (key * Z))) (pts : list point) (q : query) (d : ldesc) (oref o : obs) : nat :=
  match oref, o with
  | ORes a, ORes b =>
      if same_entries (det_entries sc q a) (det_entries sc q b) && same_slots a b
      then (if same_entries a b then 0%nat else 120%nat)
      else if lacks_field d pts q then 140%nat else 101%nat
  | ORes a, OErr c =>
      if times_out d q && Nat.eqb c 1 then 130%nat
      else if lacks_field d pts q then 140%nat
      else 102%nat
  | OErr a, OErr b => if Nat.eqb a b then 0%nat else if times_out d q && Nat.eqb b 1 then 130%nat else 103%nat
  | OErr _, ORes _ => 103%nat
  end.

Definition check_pair (pts : list point) (q : query) (dref d : ldesc) (oref o : obs) : nat * nat :=
  let sc := contribs_by_series pts q in
  (corr sc pts q dref d oref o, oracle sc pts q d oref o).

(* ---- order by <item> [desc] limit n (aggregation/order_by.go, topn.go; the item is a selected sum / min / max field,
   its rank the field type's aggregate of the group's values over the slots) ---- *)
Record topq := mkTop { t_item : nat; t_desc : bool; t_fn : nat; t_limit : nat }.
Definition e_item (e : entry) : nat := fst (fst (fst e)).
Definition e_group (e : entry) : list nat := snd (fst (fst e)).
Definition groups_of (es : list entry) : list (list nat) := nodupb list_eqb (map e_group es).
Definition rank (t : topq) (es : list entry) (g : list nat) : Z :=
  match map (fun e : entry => snd e) (filter (fun e => Nat.eqb (e_item e) (t_item t) && list_eqb (e_group e) g) es) with
  | [] => 0
  | v :: r => fold_left (agg (t_fn t)) r v
  end.
Definition ranked (t : topq) (es : list entry) : list row := map (fun g => (g, rank t es g)) (groups_of es).
Fixpoint has_dup (l : list Z) : bool := match l with [] => false | x :: r => existsb (Z.eqb x) r || has_dup r end.
(* equal ranks: which of the groups the heap keeps is not determined *)
Definition undetermined (t : topq) (es : list entry) : bool :=
  Nat.ltb (t_limit t) (length (groups_of es)) && has_dup (map snd (ranked t es)).
Definition keep_top (t : topq) (es : list entry) : list entry :=
  let kept := topn (t_limit t) (t_desc t) (ranked t es) in
  filter (fun e => existsb (fun r : row => list_eqb (fst r) (e_group e)) kept) es.
Definition top_obs (t : topq) (o : obs) : obs := match o with ORes es => ORes (keep_top t es) | e => e end.
Definition all_entries (o : obs) : list entry := match o with ORes es => es | _ => [] end.

Definition check_pair_top (pts : list point) (q : query) (t : topq) (dref d : ldesc) (oref o : obs) : nat * nat :=
  let sc := contribs_by_series pts q in
  let full := asis dref pts q in
  if undetermined t (all_entries full) then (0%nat, 0%nat)
  else
    let c := if negb (wf_b dref pts q && wf_b d pts q) then 3%nat
             else if negb (obs_agree sc q (top_obs t full) oref) then 1%nat
             else if negb (obs_agree sc q (top_obs t (asis d pts q)) o) then 2%nat
             else 0%nat in
    (c, oracle sc pts q d oref o).
