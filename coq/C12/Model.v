(* C12 — a query's answer does not depend on the physical layout.
   Written points are routed by a function of their series (series/metric/row_broker.go: jump hash of the tags hash)
   into shards, shards are placed on storage nodes; a leaf (query/leaf_processor.go, query/context/leaf_reduce_context.go)
   down-samples every matching series of its shards and reduces them by group into one partial result
   (aggregation/group_agg.go, series_agg.go, field_agg.go); the partial results are merged at the root
   (query/context/metric_context.go handleResponse) in the order they arrive, or first at compute brokers that
   each receive the groups a hash sends them (leaf_reduce_context.go BuildResultSet,
   intermediate_metric_context.go) and then at the root.  Responses may be empty or "not found"
   (metric_context.go checkError).  Definitions only. *)
From Coq Require Import List ZArith Bool Arith.
Import ListNotations.
From LinDBV.C04 Require Import Model.
From LinDBV.C03 Require Import Model.
Open Scope Z_scope.

(* ---------- generic: contributions to keys, aggregated in order ---------- *)
Section Reduce.
Variable K : Type.
Variable keqb : K -> K -> bool.
Variable kagg : K -> nat.           (* aggregation type of a key: C04's codes 1 sum, 2 min, 3 max, 4 last, 5 first *)

Definition vals (k : K) (cs : list (K * Z)) : list Z := map snd (filter (fun c => keqb (fst c) k) cs).
Definition value (k : K) (cs : list (K * Z)) : option Z := aggl (kagg k) (vals k cs).
Fixpoint nodupb (l : list K) : list K :=
  match l with [] => [] | x :: r => if existsb (keqb x) r then nodupb r else x :: nodupb r end.
Definition keys (cs : list (K * Z)) : list K := nodupb (map fst cs).
(* one entry per key: what an aggregator holds after it was fed the contributions in this order *)
Definition reduce (cs : list (K * Z)) : list (K * Z) :=
  flat_map (fun k => match value k cs with Some v => [(k, v)] | None => [] end) (keys cs).
End Reduce.
Arguments vals {K}. Arguments value {K}. Arguments nodupb {K}. Arguments keys {K}. Arguments reduce {K}.

(* ---------- data ---------- *)
Definition series := list nat.       (* tag values, one per tag key of the metric *)
Record point := mkPoint { p_metric : nat; p_series : series; p_slot : Z; p_field : nat; p_val : Z }.

Fixpoint list_eqb (a b : list nat) : bool :=
  match a, b with [] , [] => true | x :: a', y :: b' => Nat.eqb x y && list_eqb a' b' | _, _ => false end.

(* field type of a field id (the harness' schema): aggregation code *)
Definition ftype (f : nat) : nat := match f with 0%nat => 1%nat | 1%nat => 2%nat | 2%nat => 3%nat | 3%nat => 4%nat | _ => 5%nat end.

(* storage cells of one series: (field, storage slot) -> value aggregated by field type in write order (C11),
   visited in slot order *)
Definition cell := (nat * Z)%type.
Definition cell_eqb (a b : cell) : bool := Nat.eqb (fst a) (fst b) && (snd a =? snd b).
Definition cell_agg (c : cell) : nat := ftype (fst c).
Fixpoint insert_cell (x : cell * Z) (l : list (cell * Z)) : list (cell * Z) :=
  match l with [] => [x] | y :: r => if snd (fst x) <? snd (fst y) then x :: l else y :: insert_cell x r end.
Definition sort_cells (l : list (cell * Z)) : list (cell * Z) := fold_right insert_cell [] l.
Definition series_cells (pts : list point) (m : nat) (s : series) : list (cell * Z) :=
  sort_cells (reduce cell_eqb cell_agg
    (map (fun p => ((p_field p, p_slot p), p_val p))
         (filter (fun p => Nat.eqb (p_metric p) m && list_eqb (p_series p) s) pts))).

(* ---------- query ---------- *)
(* function of a select item: 0 none (the field's default), 1 sum, 2 min, 3 max, 4 last, 5 first
   (series/field/type.go GetFuncFieldParams / GetDefaultFuncFieldParams) *)
Definition func_agg (ft fn : nat) : nat :=
  match ft, fn with
  | _, 0%nat => ft
  | 1%nat, 3%nat => 3%nat | 1%nat, 2%nat => 2%nat | 1%nat, _ => 1%nat
  | 3%nat, 2%nat => 2%nat | 3%nat, _ => 3%nat
  | 2%nat, 3%nat => 3%nat | 2%nat, _ => 2%nat
  | _, 3%nat => 3%nat | _, 2%nat => 2%nat | _, 1%nat => 1%nat | _, _ => ft
  end.

Record query := mkQuery {
  q_metric : nat;
  q_items : list (nat * nat);            (* select items: field, function *)
  q_filter : list (nat * list nat);      (* tag key index, accepted values; all must hold *)
  q_group : list nat;                    (* group-by tag key indexes *)
  q_lo : Z; q_hi : Z;                    (* storage slots of the (truncated) time range, inclusive *)
  q_ratio : Z                            (* query interval / storage interval *)
}.

(* a tag key the series does not carry is written as the value 99 (no pool value); such a series passes no filter on that
   key (accepted values are pool values) and belongs to no group of a group-by on that key *)
Definition absent : nat := 99%nat.
Definition matches (q : query) (s : series) : bool :=
  forallb (fun kv => existsb (Nat.eqb (nth (fst kv) s 0%nat)) (snd kv)) (q_filter q) &&
  forallb (fun k => negb (Nat.eqb (nth k s 0%nat) absent)) (q_group q).
Definition group_of (q : query) (s : series) : list nat := map (fun k => nth k s 0%nat) (q_group q).
Definition item_aggs (q : query) (f : nat) : list nat :=
  nodupb Nat.eqb (map (fun it => func_agg (ftype f) (snd it)) (filter (fun it => Nat.eqb (fst it) f) (q_items q))).

(* key of the grouping aggregators: group, field, aggregate type, query slot *)
Definition key := (list nat * nat * nat * Z)%type.
Definition k_group (k : key) : list nat := fst (fst (fst k)).
Definition k_agg (k : key) : nat := snd (fst k).
Definition key_eqb (a b : key) : bool :=
  list_eqb (k_group a) (k_group b) && Nat.eqb (snd (fst (fst a))) (snd (fst (fst b))) && Nat.eqb (k_agg a) (k_agg b) && (snd a =? snd b).

(* what one series contributes: every cell in range, to every aggregate type asked of its field *)
Definition series_contribs (pts : list point) (q : query) (s : series) : list (key * Z) :=
  if matches q s then
    flat_map (fun cv : cell * Z => let '((f, t), v) := cv in
      if (q_lo q <=? t) && (t <=? q_hi q) then
        map (fun a => ((group_of q s, f, a, (t - q_lo q) / q_ratio q), v)) (item_aggs q f)
      else []) (series_cells pts (q_metric q) s)
  else [].

Definition all_series (pts : list point) (m : nat) : list series :=
  nodupb list_eqb (map p_series (filter (fun p => Nat.eqb (p_metric p) m) pts)).

(* the answer as a function of the written data alone *)
Definition naive_contribs (pts : list point) (q : query) : list (key * Z) :=
  flat_map (series_contribs pts q) (all_series pts (q_metric q)).
Definition naive (pts : list point) (q : query) (k : key) : option Z := value key_eqb k_agg k (naive_contribs pts q).

(* ---------- layout ---------- *)
Record layout := mkLayout {
  route : series -> nat;         (* shard of a series *)
  nshards : nat;
  place : nat -> nat;            (* storage node of a shard *)
  nnodes : nat;
  nrecv : nat;                   (* compute brokers receiving the leaves' answers; 0: the root receives them *)
  recv : list nat -> nat;        (* receiver of a group *)
  order : nat -> list nat;       (* per receiver: the storage nodes in the order their answers arrive *)
  rorder : list nat              (* the receivers in the order their answers arrive at the root *)
}.

Definition shard_series (L : layout) (pts : list point) (m : nat) (sh : nat) : list series :=
  filter (fun s => Nat.eqb (route L s) sh) (all_series pts m).
Definition node_shards (L : layout) (n : nat) : list nat := filter (fun sh => Nat.eqb (place L sh) n) (seq 0 (nshards L)).
Definition leaf_contribs (L : layout) (pts : list point) (q : query) (n : nat) : list (key * Z) :=
  flat_map (fun sh => flat_map (series_contribs pts q) (shard_series L pts (q_metric q) sh)) (node_shards L n).
(* the answer of storage node n *)
Definition leaf_partial (L : layout) (pts : list point) (q : query) (n : nat) : list (key * Z) :=
  reduce key_eqb k_agg (leaf_contribs L pts q n).
(* the part of an answer sent to receiver r *)
Definition part_for (L : layout) (r : nat) (cs : list (key * Z)) : list (key * Z) :=
  filter (fun c => Nat.eqb (recv L (k_group (fst c))) r) cs.
Definition inter_partial (L : layout) (pts : list point) (q : query) (r : nat) : list (key * Z) :=
  reduce key_eqb k_agg (flat_map (fun n => part_for L r (leaf_partial L pts q n)) (order L r)).
Definition root_result (L : layout) (pts : list point) (q : query) : list (key * Z) :=
  match nrecv L with
  | O => reduce key_eqb k_agg (flat_map (leaf_partial L pts q) (order L 0%nat))
  | _ => reduce key_eqb k_agg (flat_map (inter_partial L pts q) (rorder L))
  end.
Definition answer (L : layout) (pts : list point) (q : query) (k : key) : option Z :=
  value key_eqb k_agg k (root_result L pts q).

(* ---------- responses that carry no data ---------- *)
Inductive resp := RData (cs : list (key * Z)) | REmpty | RNotFound | RError.
Record rstate := { tolerant : nat; failed : bool; acc : list (key * Z) }.
(* metric_context.go handleResponse / checkError *)
Definition handle (s : rstate) (r : resp) : rstate :=
  match r with
  | RData cs => {| tolerant := tolerant s; failed := failed s; acc := acc s ++ cs |}
  | REmpty => s
  | RNotFound => {| tolerant := pred (tolerant s); failed := failed s || Nat.leb (tolerant s) 1; acc := acc s |}
  | RError => {| tolerant := tolerant s; failed := true; acc := acc s |}
  end.
Definition root_handle (rs : list resp) : rstate := fold_left handle rs {| tolerant := length rs; failed := false; acc := [] |}.
Definition root_answer (rs : list resp) (k : key) : option (option Z) :=
  let s := root_handle rs in if failed s then None else Some (value key_eqb k_agg k (reduce key_eqb k_agg (acc s))).
Definition is_data (r : resp) : bool := match r with RData _ => true | _ => false end.
Definition is_error (r : resp) : bool := match r with RError => true | _ => false end.
Definition carries (r : resp) : bool := match r with RData _ | REmpty => true | _ => false end.
