(* C12 — proofs.  Part 1: reductions in a tree flatten (associativity, every aggregate type).  Part 2: buckets by a
   function are a permutation (shards on nodes, series in shards).  Part 3: the answer of a layout. *)
From Coq Require Import List ZArith Bool Arith Lia Permutation.
Import ListNotations.
From LinDBV.C04 Require Import Model.
From LinDBV.C03 Require Import Model Proofs.
From LinDBV.C12 Require Import Model.
Open Scope Z_scope.

(* ---------- aggregation in order is associative for every type ---------- *)
Lemma agg_assoc_any ft a b c : agg ft (agg ft a b) c = agg ft a (agg ft b c).
Proof. destruct ft as [|[|[|[|[|ft]]]]]; cbn; lia. Qed.
Lemma fold_agg_shift_any ft vs : forall a b, fold_left (agg ft) vs (agg ft a b) = agg ft a (fold_left (agg ft) vs b).
Proof. induction vs as [|v vs IH]; intros a b; cbn [fold_left]; [reflexivity|]. rewrite agg_assoc_any. apply IH. Qed.
Lemma aggl_app_any ft a b : aggl ft (a ++ b) = comb ft (aggl ft a) (aggl ft b).
Proof.
  destruct a as [|x a]; [cbn [app aggl comb]; destruct (aggl ft b); reflexivity|]. cbn [app aggl].
  rewrite fold_left_app. destruct b as [|y b]; cbn [aggl comb fold_left]; [reflexivity|].
  f_equal. rewrite <- fold_agg_shift_any. reflexivity.
Qed.
Definition optl (o : option Z) : list Z := match o with Some v => [v] | None => [] end.
Lemma aggl_optl ft o : aggl ft (optl o) = o.
Proof. destruct o; reflexivity. Qed.
Lemma aggl_flat_opt {A} ft (f : A -> list Z) l :
  aggl ft (flat_map (fun x => optl (aggl ft (f x))) l) = aggl ft (flat_map f l).
Proof.
  induction l as [|x l IH]; [reflexivity|]. cbn [flat_map]. rewrite !aggl_app_any, aggl_optl, IH. reflexivity.
Qed.

(* ---------- generic lists ---------- *)
Lemma flat_map_nil {A B} (l : list A) : flat_map (fun _ => @nil B) l = [].
Proof. induction l; cbn; auto. Qed.
Lemma flat_map_ext_in {A B} (f g : A -> list B) l : (forall x, In x l -> f x = g x) -> flat_map f l = flat_map g l.
Proof. induction l as [|x l IH]; intros H; [reflexivity|]. cbn. rewrite (H x (or_introl eq_refl)), IH; [reflexivity|]. intros y Hy. apply H. right. exact Hy. Qed.
Lemma flat_map_flat_map {A B C} (f : A -> list B) (g : B -> list C) l :
  flat_map g (flat_map f l) = flat_map (fun x => flat_map g (f x)) l.
Proof. induction l as [|x l IH]; [reflexivity|]. cbn. rewrite flat_map_app, IH. reflexivity. Qed.
(* only one element of a duplicate-free list contributes *)
Lemma flat_map_only {A B} (F : A -> list B) x0 l :
  NoDup l -> In x0 l -> (forall x, In x l -> x <> x0 -> F x = []) -> flat_map F l = F x0.
Proof.
  induction l as [|x l IH]; intros Hnd Hin Hz; [destruct Hin|]. cbn [flat_map].
  inversion Hnd as [|? ? Hnx Hnd']; subst. destruct Hin as [->|Hin].
  - rewrite (flat_map_ext_in F (fun _ => [])), flat_map_nil, app_nil_r; [reflexivity|].
    intros y Hy. apply Hz; [right; exact Hy|]. intros ->. exact (Hnx Hy).
  - rewrite (Hz x (or_introl eq_refl)); [|intros ->; exact (Hnx Hin)]. cbn. apply IH; [exact Hnd'|exact Hin|].
    intros y Hy. apply Hz. right. exact Hy.
Qed.
Lemma flat_map_none {A B} (F : A -> list B) l : (forall x, In x l -> F x = []) -> flat_map F l = [].
Proof. intros H. rewrite (flat_map_ext_in F (fun _ => [])) by exact H. apply flat_map_nil. Qed.
Lemma flat_map_app_perm {A B} (f g : A -> list B) l :
  Permutation (flat_map (fun x => f x ++ g x) l) (flat_map f l ++ flat_map g l).
Proof.
  induction l as [|x l IH]; [constructor|]. cbn [flat_map]. rewrite <- !app_assoc. apply Permutation_app_head.
  rewrite IH. rewrite !app_assoc. apply Permutation_app_tail. apply Permutation_app_comm.
Qed.
Lemma flat_map_perm {A B} (f : A -> list B) l l' : Permutation l l' -> Permutation (flat_map f l) (flat_map f l').
Proof.
  induction 1 as [|x l l' _ IH|x y l|l l' l'' _ IH1 _ IH2]; cbn [flat_map].
  - constructor.
  - apply Permutation_app_head, IH.
  - rewrite !app_assoc. apply Permutation_app_tail, Permutation_app_comm.
  - etransitivity; eassumption.
Qed.

(* buckets by a function, visited in index order, are a permutation *)
Lemma bucket_perm {A B} (f : A -> nat) (g : A -> list B) (n : nat) l :
  (forall x, In x l -> (f x < n)%nat) ->
  Permutation (flat_map (fun i => flat_map g (filter (fun x => Nat.eqb (f x) i) l)) (seq 0 n)) (flat_map g l).
Proof.
  induction l as [|x l IH]; intros Hb.
  - cbn [filter flat_map]. rewrite flat_map_nil. constructor.
  - cbn [flat_map filter].
    rewrite (flat_map_ext_in _ (fun i => (if Nat.eqb (f x) i then g x else []) ++ flat_map g (filter (fun y => Nat.eqb (f y) i) l))).
    2:{ intros i _. destruct (Nat.eqb (f x) i); reflexivity. }
    rewrite flat_map_app_perm. apply Permutation_app.
    + rewrite (flat_map_only (fun i => if Nat.eqb (f x) i then g x else []) (f x)).
      * rewrite Nat.eqb_refl. reflexivity.
      * apply seq_NoDup.
      * apply in_seq. specialize (Hb x (or_introl eq_refl)). lia.
      * intros i _ Hne. destruct (Nat.eqb_spec (f x) i); [congruence|reflexivity].
    + apply IH. intros y Hy. apply Hb. right. exact Hy.
Qed.
Lemma bucket_perm_list {A} (f : A -> nat) (n : nat) (l : list A) :
  (forall x, In x l -> (f x < n)%nat) ->
  Permutation (flat_map (fun i => filter (fun x => Nat.eqb (f x) i) l) (seq 0 n)) l.
Proof.
  intros Hb. pose proof (bucket_perm f (fun x => [x]) n l Hb) as H.
  assert (E : forall l' : list A, flat_map (fun x => [x]) l' = l') by (induction l' as [|y l' IH]; cbn; [|rewrite IH]; reflexivity).
  rewrite E in H. rewrite (flat_map_ext_in _ (fun i => flat_map (fun x => [x]) (filter (fun x => Nat.eqb (f x) i) l))); [exact H|].
  intros i _. symmetry. apply E.
Qed.

(* ---------- keys ---------- *)
Lemma list_eqb_eq a : forall b, list_eqb a b = true <-> a = b.
Proof.
  induction a as [|x a IH]; intros [|y b]; cbn; split; intros H; try reflexivity; try discriminate.
  - apply andb_prop in H. destruct H as [H1 H2]. apply Nat.eqb_eq in H1. apply IH in H2. congruence.
  - inversion H; subst. rewrite Nat.eqb_refl. cbn. apply IH. reflexivity.
Qed.
Lemma key_eqb_eq (a b : key) : key_eqb a b = true <-> a = b.
Proof.
  destruct a as [[[g f] a] t], b as [[[g' f'] a'] t']. unfold key_eqb, k_group, k_agg. cbn [fst snd]. split.
  - intros H. apply andb_prop in H. destruct H as [H H4]. apply andb_prop in H. destruct H as [H H3].
    apply andb_prop in H. destruct H as [H1 H2]. apply list_eqb_eq in H1. apply Nat.eqb_eq in H2, H3. apply Z.eqb_eq in H4. congruence.
  - intros H. inversion H; subst. rewrite (proj2 (list_eqb_eq g' g') eq_refl), !Nat.eqb_refl, Z.eqb_refl. reflexivity.
Qed.

Section ReduceFacts.
Variable K : Type.
Variable keqb : K -> K -> bool.
Variable kagg : K -> nat.
Hypothesis keqb_eq : forall a b, keqb a b = true <-> a = b.

Lemma keqb_refl a : keqb a a = true. Proof. apply keqb_eq. reflexivity. Qed.
Lemma vals_app k (a b : list (K * Z)) : vals keqb k (a ++ b) = vals keqb k a ++ vals keqb k b.
Proof. unfold vals. rewrite filter_app, map_app. reflexivity. Qed.
Lemma vals_flat_map {A} k (f : A -> list (K * Z)) l : vals keqb k (flat_map f l) = flat_map (fun x => vals keqb k (f x)) l.
Proof. induction l as [|x l IH]; [reflexivity|]. cbn [flat_map]. rewrite vals_app, IH. reflexivity. Qed.
Lemma vals_perm k a b : Permutation a b -> Permutation (vals keqb k a) (vals keqb k b).
Proof.
  unfold vals. intros H. apply Permutation_map.
  induction H as [|x l l' _ IH|x y l|l l' l'' _ IH1 _ IH2]; cbn [filter].
  - constructor.
  - destruct (keqb (fst x) k); [constructor|]; exact IH.
  - destruct (keqb (fst x) k), (keqb (fst y) k); try reflexivity. constructor.
  - etransitivity; eassumption.
Qed.

Lemma nodupb_in x l : In x (nodupb keqb l) <-> In x l.
Proof.
  induction l as [|y l IH]; [reflexivity|]. cbn [nodupb]. destruct (existsb (keqb y) l) eqn:E.
  - rewrite IH. split; [intros H; right; exact H|]. intros [->|H]; [|exact H].
    apply existsb_exists in E. destruct E as [z [Hz Hyz]]. apply keqb_eq in Hyz. subst. exact Hz.
  - cbn [In]. rewrite IH. reflexivity.
Qed.
Lemma nodupb_nodup l : NoDup (nodupb keqb l).
Proof.
  induction l as [|y l IH]; [constructor|]. cbn [nodupb]. destruct (existsb (keqb y) l) eqn:E; [exact IH|].
  constructor; [|exact IH]. rewrite nodupb_in. intros Hin.
  assert (existsb (keqb y) l = true) by (apply existsb_exists; exists y; split; [exact Hin|apply keqb_refl]). congruence.
Qed.
Lemma vals_nokey k cs : ~ In k (map fst cs) -> vals keqb k cs = [].
Proof.
  unfold vals. induction cs as [|c cs IH]; intros Hn; [reflexivity|]. cbn [filter map].
  destruct (keqb (fst c) k) eqn:E.
  - apply keqb_eq in E. exfalso. apply Hn. left. exact E.
  - apply IH. intros H. apply Hn. right. exact H.
Qed.
(* an aggregator fed the contributions holds exactly one value per key: the aggregate in order *)
Lemma vals_reduce k cs : vals keqb k (reduce keqb kagg cs) = optl (value keqb kagg k cs).
Proof.
  unfold reduce. rewrite vals_flat_map.
  set (F := fun k' => vals keqb k (match value keqb kagg k' cs with Some v => [(k', v)] | None => [] end)).
  assert (HF : forall k', k' <> k -> F k' = []).
  { intros k' Hne. unfold F. destruct (value keqb kagg k' cs); [|reflexivity]. unfold vals. cbn [filter fst map].
    destruct (keqb k' k) eqn:E; [apply keqb_eq in E; congruence|reflexivity]. }
  assert (HFk : F k = optl (value keqb kagg k cs)).
  { unfold F. destruct (value keqb kagg k cs); [|reflexivity]. unfold vals. cbn [filter fst map]. rewrite keqb_refl. reflexivity. }
  destruct (in_dec (fun a b => match keqb a b as r return (keqb a b = r -> {a = b} + {a <> b}) with
                               | true => fun E => left (proj1 (keqb_eq a b) E)
                               | false => fun E => right (fun H => eq_ind (keqb a b) (fun x => x = false -> False)
                                    (fun H' => Bool.diff_true_false (eq_trans (eq_sym (proj2 (keqb_eq a b) H)) H')) _ eq_refl E)
                               end eq_refl) k (keys keqb cs)) as [Hin|Hnin].
  - rewrite (flat_map_only F k); [exact HFk|apply nodupb_nodup|exact Hin|]. intros x _ Hne. apply HF, Hne.
  - rewrite flat_map_none; [|intros x Hx; apply HF; intros ->; exact (Hnin Hx)].
    unfold keys in Hnin. rewrite nodupb_in in Hnin. unfold value. rewrite (vals_nokey k cs Hnin). reflexivity.
Qed.
Lemma value_reduce k cs : value keqb kagg k (reduce keqb kagg cs) = value keqb kagg k cs.
Proof. unfold value at 1. rewrite vals_reduce. apply aggl_optl. Qed.
(* reducing the parts first and then their concatenation equals reducing the concatenation *)
Lemma value_reduce_flat {A} k (f : A -> list (K * Z)) l :
  value keqb kagg k (flat_map (fun x => reduce keqb kagg (f x)) l) = value keqb kagg k (flat_map f l).
Proof.
  unfold value. rewrite !vals_flat_map.
  rewrite (flat_map_ext_in _ (fun x => optl (aggl (kagg k) (vals keqb k (f x))))) by (intros x _; apply vals_reduce).
  apply aggl_flat_opt.
Qed.
Lemma value_perm k a b : commutative_type (kagg k) = true -> Permutation a b -> value keqb kagg k a = value keqb kagg k b.
Proof. intros Hc Hp. unfold value. apply aggl_perm; [exact Hc|]. apply vals_perm, Hp. Qed.
End ReduceFacts.

(* ---------- the answer of a layout ---------- *)
Definition kvals := vals key_eqb.
Definition kvalue := value key_eqb k_agg.

Record wf (L : layout) (pts : list point) (q : query) : Prop := {
  wf_route : forall s, In s (all_series pts (q_metric q)) -> (route L s < nshards L)%nat;
  wf_place : forall sh, (sh < nshards L)%nat -> (place L sh < nnodes L)%nat;
  wf_order : forall r, Permutation (order L r) (seq 0 (nnodes L));
  wf_recv : nrecv L <> O -> (forall g, (recv L g < nrecv L)%nat) /\ Permutation (rorder L) (seq 0 (nrecv L))
}.

Definition receiver_of (L : layout) (k : key) : nat := match nrecv L with O => O | _ => recv L (k_group k) end.
(* the series in the order the layout visits them for receiver r *)
Definition traversal (L : layout) (pts : list point) (m : nat) (r : nat) : list series :=
  flat_map (fun n => flat_map (shard_series L pts m) (node_shards L n)) (order L r).

Lemma leaf_contribs_traversal L pts q r :
  flat_map (leaf_contribs L pts q) (order L r) = flat_map (series_contribs pts q) (traversal L pts (q_metric q) r).
Proof.
  unfold traversal, leaf_contribs. rewrite flat_map_flat_map. apply flat_map_ext_in. intros n _.
  rewrite flat_map_flat_map. reflexivity.
Qed.

Lemma vals_part_for L r k cs :
  kvals k (part_for L r cs) = if Nat.eqb (recv L (k_group k)) r then kvals k cs else [].
Proof.
  unfold kvals, vals, part_for. induction cs as [|[kc v] cs IH]; [destruct (Nat.eqb _ r); reflexivity|].
  cbn [filter fst]. destruct (key_eqb kc k) eqn:E.
  - assert (kc = k) by (apply key_eqb_eq; exact E). subst kc.
    destruct (Nat.eqb (recv L (k_group k)) r) eqn:Er.
    + cbn [filter fst map snd]. rewrite E. cbn [map snd]. f_equal. exact IH.
    + exact IH.
  - destruct (Nat.eqb (recv L (k_group kc)) r); [cbn [filter fst]; rewrite E|]; exact IH.
Qed.

(* Part 1: whatever the tree, the answer is the aggregate, in the order of the visit, of what the series contribute *)
Theorem answer_flatten L pts q k : wf L pts q ->
  answer L pts q k = kvalue k (flat_map (series_contribs pts q) (traversal L pts (q_metric q) (receiver_of L k))).
Proof.
  intros W. unfold answer, root_result, receiver_of, kvalue. destruct (nrecv L) as [|nr] eqn:En.
  - rewrite (value_reduce _ key_eqb k_agg key_eqb_eq). unfold leaf_partial.
    rewrite (value_reduce_flat _ key_eqb k_agg key_eqb_eq). rewrite leaf_contribs_traversal. reflexivity.
  - destruct (wf_recv _ _ _ W) as [Hr Hp]; [congruence|]. rewrite En in Hr, Hp.
    rewrite (value_reduce _ key_eqb k_agg key_eqb_eq). unfold inter_partial.
    rewrite (value_reduce_flat _ key_eqb k_agg key_eqb_eq). rewrite <- leaf_contribs_traversal.
    unfold value at 1. rewrite (vals_flat_map _ key_eqb).
    set (r0 := recv L (k_group k)).
    rewrite (flat_map_only _ r0).
    + rewrite (vals_flat_map _ key_eqb).
      rewrite (flat_map_ext_in _ (fun n => optl (aggl (k_agg k) (vals key_eqb k (leaf_contribs L pts q n))))).
      * rewrite aggl_flat_opt. unfold value. rewrite (vals_flat_map _ key_eqb). reflexivity.
      * intros n _. fold (kvals k (part_for L r0 (leaf_partial L pts q n))). rewrite vals_part_for. fold r0. rewrite Nat.eqb_refl.
        unfold leaf_partial, kvals. apply (vals_reduce _ key_eqb k_agg key_eqb_eq).
    + apply (Permutation_NoDup (Permutation_sym Hp)), seq_NoDup.
    + apply (Permutation_in _ (Permutation_sym Hp)). apply in_seq. specialize (Hr (k_group k)). fold r0 in Hr. lia.
    + intros r _ Hne. rewrite (vals_flat_map _ key_eqb). apply flat_map_none. intros n _.
      fold (kvals k (part_for L r (leaf_partial L pts q n))). rewrite vals_part_for. fold r0.
      destruct (Nat.eqb_spec r0 r); [congruence|reflexivity].
Qed.

(* Part 2: every series is visited exactly once *)
Lemma traversal_perm L pts q r : wf L pts q -> Permutation (traversal L pts (q_metric q) r) (all_series pts (q_metric q)).
Proof.
  intros W. unfold traversal. rewrite (flat_map_perm _ _ _ (wf_order _ _ _ W r)).
  unfold node_shards.
  rewrite (bucket_perm (place L) (shard_series L pts (q_metric q)) (nnodes L) (seq 0 (nshards L))).
  2:{ intros sh Hsh. apply in_seq in Hsh. apply (wf_place _ _ _ W). lia. }
  unfold shard_series. apply bucket_perm_list. apply (wf_route _ _ _ W).
Qed.

(* Part 3a: order-insensitive aggregate types — the answer is the naive evaluation of the written points *)
Theorem answer_is_naive L pts q k : wf L pts q -> commutative_type (k_agg k) = true -> answer L pts q k = naive pts q k.
Proof.
  intros W Hc. rewrite (answer_flatten L pts q k W). unfold naive, naive_contribs, kvalue.
  apply (value_perm _ key_eqb k_agg k _ _ Hc). apply flat_map_perm. apply traversal_perm, W.
Qed.
Theorem layout_invariance L1 L2 pts q k : wf L1 pts q -> wf L2 pts q -> commutative_type (k_agg k) = true ->
  answer L1 pts q k = answer L2 pts q k.
Proof. intros W1 W2 Hc. rewrite (answer_is_naive L1), (answer_is_naive L2); auto. Qed.

(* Part 3b: any aggregate type — when one series only contributes to the key (every group-by-all-tags query) *)
Definition single_source (pts : list point) (q : query) (k : key) (s0 : series) : Prop :=
  forall s, In s (all_series pts (q_metric q)) -> s <> s0 -> kvals k (series_contribs pts q s) = [].
Lemma all_series_nodup pts m : NoDup (all_series pts m).
Proof. apply (nodupb_nodup _ list_eqb list_eqb_eq). Qed.
Theorem answer_single_source L pts q k s0 : wf L pts q -> In s0 (all_series pts (q_metric q)) -> single_source pts q k s0 ->
  answer L pts q k = kvalue k (series_contribs pts q s0).
Proof.
  intros W Hin Hs. rewrite (answer_flatten L pts q k W). unfold kvalue, value.
  rewrite (vals_flat_map _ key_eqb). f_equal.
  pose proof (traversal_perm L pts q (receiver_of L k) W) as Hp.
  apply (flat_map_only (fun s => vals key_eqb k (series_contribs pts q s)) s0).
  - apply (Permutation_NoDup (Permutation_sym Hp)), all_series_nodup.
  - apply (Permutation_in _ (Permutation_sym Hp)), Hin.
  - intros s Hsin Hne. apply Hs; [|exact Hne]. apply (Permutation_in _ Hp), Hsin.
Qed.
Theorem layout_invariance_single_source L1 L2 pts q k s0 : wf L1 pts q -> wf L2 pts q ->
  In s0 (all_series pts (q_metric q)) -> single_source pts q k s0 -> answer L1 pts q k = answer L2 pts q k.
Proof. intros W1 W2 Hin Hs. rewrite (answer_single_source L1 pts q k s0), (answer_single_source L2 pts q k s0); auto. Qed.
(* no series contributes: no answer for the key, in every layout *)
Theorem answer_no_source L pts q k : wf L pts q ->
  (forall s, In s (all_series pts (q_metric q)) -> kvals k (series_contribs pts q s) = []) -> answer L pts q k = None.
Proof.
  intros W Hs. rewrite (answer_flatten L pts q k W). unfold kvalue, value. rewrite (vals_flat_map _ key_eqb).
  rewrite flat_map_none; [reflexivity|]. intros s Hsin. apply Hs.
  apply (Permutation_in _ (traversal_perm L pts q (receiver_of L k) W)), Hsin.
Qed.

(* Part 3c: last / first over several series of one group depends on the order of arrival *)
Definition pts_x : list point :=
  [mkPoint 0 [0%nat] 0 3 7; mkPoint 0 [1%nat] 0 3 9].
Definition q_x : query := mkQuery 0 [(3%nat, 0%nat)] [] [] 0 10 1.
Definition lay_x (ord : list nat) : layout :=
  mkLayout (fun s => nth 0 s 0%nat) 2 (fun sh => sh) 2 0 (fun _ => 0%nat) (fun _ => ord) [].
Lemma lay_x_wf ord : Permutation ord [0%nat; 1%nat] -> wf (lay_x ord) pts_x q_x.
Proof.
  intros Hp. constructor; cbn.
  - intros s [<-|[<-|[]]]; cbn; lia.
  - intros sh Hsh. exact Hsh.
  - intros _. exact Hp.
  - intros H. congruence.
Qed.
Theorem last_over_series_refuted : exists pts q L1 L2 k, wf L1 pts q /\ wf L2 pts q /\ answer L1 pts q k <> answer L2 pts q k.
Proof.
  exists pts_x, q_x, (lay_x [0%nat; 1%nat]), (lay_x [1%nat; 0%nat]), ([], 3%nat, 4%nat, 0).
  split; [apply lay_x_wf; reflexivity|]. split; [apply lay_x_wf; constructor|].
  vm_compute. discriminate.
Qed.

(* ---------- responses without data ---------- *)
Definition all_notfound (rs : list resp) : bool := forallb (fun r => match r with RNotFound => true | _ => false end) rs.
Definition nf_count (rs : list resp) : nat := length (filter (fun r => match r with RNotFound => true | _ => false end) rs).
Definition data_of (rs : list resp) : list (key * Z) := flat_map (fun r => match r with RData cs => cs | _ => [] end) rs.

Lemma handle_fold rs : forall s,
  let s' := fold_left handle rs s in
  acc s' = acc s ++ data_of rs /\
  tolerant s' = (tolerant s - nf_count rs)%nat /\
  failed s' = failed s || existsb is_error rs || (Nat.ltb 0 (nf_count rs) && Nat.leb (tolerant s) (nf_count rs)).
Proof.
  induction rs as [|r rs IH]; intros s; cbn [fold_left].
  - cbn. rewrite app_nil_r, Nat.sub_0_r, !orb_false_r. auto.
  - destruct (IH (handle s r)) as [Ha [Ht Hf]]. cbn zeta. rewrite Ha, Ht, Hf. clear IH Ha Ht Hf.
    destruct r; cbn [handle acc tolerant failed data_of flat_map nf_count filter existsb is_error length app].
    + rewrite <- app_assoc. repeat split.
    + cbn [app]. repeat split.
    + fold (nf_count rs). repeat split; [lia|].
      destruct (failed s); [reflexivity|]. cbn [orb].
      destruct (existsb is_error rs); [rewrite !orb_true_r; reflexivity|]. rewrite !orb_false_r.
      destruct (Nat.leb_spec (tolerant s) 1), (Nat.ltb_spec 0 (nf_count rs)), (Nat.leb_spec (pred (tolerant s)) (nf_count rs)),
        (Nat.leb_spec (tolerant s) (S (nf_count rs))); cbn; try reflexivity; lia.
    + fold (nf_count rs). repeat split. rewrite !orb_true_r. destruct (failed s); reflexivity.
Qed.
Lemma nf_count_le rs : (nf_count rs <= length rs)%nat.
Proof. unfold nf_count. induction rs as [|r rs IH]; cbn; [lia|]. destruct r; cbn; lia. Qed.
Lemma nf_count_all rs : nf_count rs = length rs <-> all_notfound rs = true.
Proof.
  unfold nf_count, all_notfound. induction rs as [|r rs IH]; cbn; [tauto|].
  pose proof (nf_count_le rs) as Hle. unfold nf_count in Hle.
  destruct r; cbn; rewrite ?IH; split; intros H; try discriminate; try lia; try (f_equal; tauto).
  - apply IH. lia.
Qed.
(* the root fails exactly when some answer is an error or every answer is "not found" *)
Theorem root_fails_iff rs :
  failed (root_handle rs) = existsb is_error rs || (negb (Nat.eqb (length rs) 0) && all_notfound rs).
Proof.
  unfold root_handle. destruct (handle_fold rs {| tolerant := length rs; failed := false; acc := [] |}) as [_ [_ Hf]].
  cbn zeta in Hf. rewrite Hf. cbn [failed tolerant orb]. f_equal.
  pose proof (nf_count_le rs) as Hle. pose proof (nf_count_all rs) as Hall.
  destruct (all_notfound rs) eqn:Ea.
  - assert (nf_count rs = length rs) by (apply Hall; reflexivity).
    destruct (Nat.ltb_spec 0 (nf_count rs)), (Nat.leb_spec (length rs) (nf_count rs)), (Nat.eqb_spec (length rs) 0); cbn; try reflexivity; lia.
  - assert (nf_count rs <> length rs) by (intros H; apply Hall in H; discriminate).
    rewrite andb_false_r. destruct (Nat.ltb_spec 0 (nf_count rs)), (Nat.leb_spec (length rs) (nf_count rs)); cbn; try reflexivity; lia.
Qed.
Theorem root_acc rs : acc (root_handle rs) = data_of rs.
Proof. unfold root_handle. destruct (handle_fold rs {| tolerant := length rs; failed := false; acc := [] |}) as [Ha _]. exact Ha. Qed.

(* answers that carry no data never turn an answer into an error or remove data: with no error answer and one
   answer that is not "not found", the root answers as if only the data answers had arrived *)
Theorem no_data_harmless rs k : existsb is_error rs = false -> existsb carries rs = true ->
  root_answer rs k = Some (kvalue k (data_of rs)) /\
  root_answer rs k = root_answer (filter is_data rs) k.
Proof.
  intros He Hc. unfold root_answer. rewrite !root_fails_iff, !root_acc, He.
  assert (Hnf : all_notfound rs = false).
  { apply existsb_exists in Hc. destruct Hc as [r [Hr Hcr]]. unfold all_notfound.
    destruct (forallb _ rs) eqn:E; [|reflexivity]. rewrite forallb_forall in E. specialize (E r Hr). destruct r; discriminate. }
  rewrite Hnf, andb_false_r. cbn [orb].
  assert (Hd : data_of (filter is_data rs) = data_of rs).
  { unfold data_of. induction rs as [|r rs IH]; [reflexivity|]. cbn [filter].
    assert (IH' : flat_map (fun r0 => match r0 with RData cs => cs | _ => [] end) (filter is_data rs) = flat_map (fun r0 => match r0 with RData cs => cs | _ => [] end) rs).
    { clear. induction rs as [|r rs IH]; [reflexivity|]. cbn [filter]. destruct r; cbn [is_data flat_map]; rewrite ?IH; reflexivity. }
    destruct r; cbn [is_data flat_map]; rewrite IH'; reflexivity. }
  assert (He' : existsb is_error (filter is_data rs) = false).
  { clear. induction rs as [|r rs IH]; [reflexivity|]. cbn [filter]. destruct r; cbn [is_data existsb is_error]; exact IH. }
  assert (Hnf' : negb (Nat.eqb (length (filter is_data rs)) 0) && all_notfound (filter is_data rs) = false).
  { clear. induction rs as [|r rs IH]; [reflexivity|]. cbn [filter]. destruct r; cbn [is_data]; try exact IH. cbn. reflexivity. }
  rewrite He', Hnf', Hd. cbn [orb]. unfold kvalue. rewrite (value_reduce _ key_eqb k_agg key_eqb_eq). split; reflexivity.
Qed.
(* the order of arrival decides neither failure nor, for order-insensitive aggregates, a value *)
Theorem response_order_irrelevant rs rs' k : Permutation rs rs' -> commutative_type (k_agg k) = true ->
  root_answer rs k = root_answer rs' k.
Proof.
  intros Hp Hc. unfold root_answer. rewrite !root_fails_iff, !root_acc.
  assert (E1 : existsb is_error rs = existsb is_error rs').
  { clear Hc. induction Hp as [|x l l' _ IH|x y l|l l' l'' _ IH1 _ IH2]; cbn; [reflexivity|rewrite IH; reflexivity| |congruence].
    destruct (is_error x), (is_error y); reflexivity. }
  assert (E2 : all_notfound rs = all_notfound rs').
  { clear Hc E1. unfold all_notfound. induction Hp as [|x l l' _ IH|x y l|l l' l'' _ IH1 _ IH2]; cbn; [reflexivity|rewrite IH; reflexivity| |congruence].
    destruct x, y; reflexivity. }
  rewrite E1, E2, (Permutation_length Hp).
  destruct (existsb is_error rs' || _); [reflexivity|]. f_equal.
  rewrite !(value_reduce _ key_eqb k_agg key_eqb_eq). apply (value_perm _ key_eqb k_agg k _ _ Hc).
  unfold data_of. apply flat_map_perm, Hp.
Qed.
(* the root fed the leaves' answers computes the layout's answer *)
Theorem root_answer_of_leaves L pts q k : nrecv L = O ->
  root_answer (map (fun n => RData (leaf_partial L pts q n)) (order L 0%nat)) k = Some (answer L pts q k).
Proof.
  intros En. unfold root_answer. rewrite root_fails_iff, root_acc.
  assert (E1 : existsb is_error (map (fun n => RData (leaf_partial L pts q n)) (order L 0%nat)) = false) by (induction (order L 0%nat); cbn; auto).
  assert (E2 : forall l, negb (Nat.eqb (length (map (fun n => RData (leaf_partial L pts q n)) l)) 0) && all_notfound (map (fun n => RData (leaf_partial L pts q n)) l) = false)
    by (intros [|x l]; reflexivity).
  rewrite E1, E2. cbn [orb]. f_equal. unfold answer, root_result. rewrite En.
  f_equal. f_equal. unfold data_of. rewrite flat_map_concat_map, map_map, <- flat_map_concat_map. reflexivity.
Qed.
