(* C12 — the property theorems.  A layout: a shard for every series (any function of the series), a storage node for
   every shard, optionally compute brokers receiving the groups a function of the group sends them, and arrival
   orders of the answers at every receiver.  [wf]: shards, nodes and receivers are in range and every arrival order
   is a permutation of the senders. *)
From Coq Require Import List ZArith Bool Arith Permutation.
Import ListNotations.
From LinDBV.C04 Require Import Model.
From LinDBV.C03 Require Import Model.
From LinDBV.C12 Require Import Model Proofs Check AsIs.
Open Scope Z_scope.

(* every aggregate type: whatever the tree of partial aggregations, the answer is the aggregate, in the order of the
   visit, of what the series contribute *)
Theorem C12_answer_flatten L pts q k : wf L pts q ->
  answer L pts q k = kvalue k (flat_map (series_contribs pts q) (traversal L pts (q_metric q) (receiver_of L k))).
Proof. exact (answer_flatten L pts q k). Qed.
Print Assumptions C12_answer_flatten.

(* sum / min / max: the answer of every layout is the naive evaluation of the written points *)
Theorem C12_answer_is_naive L pts q k : wf L pts q -> commutative_type (k_agg k) = true -> answer L pts q k = naive pts q k.
Proof. exact (answer_is_naive L pts q k). Qed.
Print Assumptions C12_answer_is_naive.

(* hence any two layouts (shard counts, placements, with or without compute brokers, arrival orders) agree *)
Theorem C12_layout_invariance L1 L2 pts q k : wf L1 pts q -> wf L2 pts q -> commutative_type (k_agg k) = true ->
  answer L1 pts q k = answer L2 pts q k.
Proof. exact (layout_invariance L1 L2 pts q k). Qed.
Print Assumptions C12_layout_invariance.

(* last / first too, when one series only contributes to the key (every statement grouped by all tags) *)
Theorem C12_layout_invariance_single_source L1 L2 pts q k s0 : wf L1 pts q -> wf L2 pts q ->
  In s0 (all_series pts (q_metric q)) -> single_source pts q k s0 -> answer L1 pts q k = answer L2 pts q k.
Proof. exact (layout_invariance_single_source L1 L2 pts q k s0). Qed.
Print Assumptions C12_layout_invariance_single_source.

(* a key nothing contributes to has no answer in any layout *)
Theorem C12_answer_no_source L pts q k : wf L pts q ->
  (forall s, In s (all_series pts (q_metric q)) -> kvals k (series_contribs pts q s) = []) -> answer L pts q k = None.
Proof. exact (answer_no_source L pts q k). Qed.
Print Assumptions C12_answer_no_source.

(* refuted as stated for last / first over several series of one group: the arrival order decides *)
Theorem C12_last_over_series_refuted :
  exists pts q L1 L2 k, wf L1 pts q /\ wf L2 pts q /\ answer L1 pts q k <> answer L2 pts q k.
Proof. exact last_over_series_refuted. Qed.
Print Assumptions C12_last_over_series_refuted.

(* the root: it fails exactly when some answer is an error or every answer is "not found" *)
Theorem C12_root_fails_iff rs :
  failed (root_handle rs) = existsb is_error rs || (negb (Nat.eqb (length rs) 0) && all_notfound rs).
Proof. exact (root_fails_iff rs). Qed.
Print Assumptions C12_root_fails_iff.

(* answers without data (empty, "not found") neither fail the statement nor remove data *)
Theorem C12_no_data_harmless rs k : existsb is_error rs = false -> existsb carries rs = true ->
  root_answer rs k = Some (kvalue k (data_of rs)) /\ root_answer rs k = root_answer (filter is_data rs) k.
Proof. exact (no_data_harmless rs k). Qed.
Print Assumptions C12_no_data_harmless.

(* the arrival order decides neither failure nor a sum / min / max *)
Theorem C12_response_order_irrelevant rs rs' k : Permutation rs rs' -> commutative_type (k_agg k) = true ->
  root_answer rs k = root_answer rs' k.
Proof. exact (response_order_irrelevant rs rs' k). Qed.
Print Assumptions C12_response_order_irrelevant.

(* the root fed the leaves' answers computes the layout's answer *)
Theorem C12_root_answer_of_leaves L pts q k : nrecv L = O ->
  root_answer (map (fun n => RData (leaf_partial L pts q n)) (order L 0%nat)) k = Some (answer L pts q k).
Proof. exact (root_answer_of_leaves L pts q k). Qed.
Print Assumptions C12_root_answer_of_leaves.

(* the code as the harness' model of it: with data from every node and no time-out it holds the layout's answer *)
Theorem C12_asis_is_answer d pts q : times_out d q = false -> all_data d pts q -> d_order d <> [] ->
  exists R, asis d pts q = ORes (entries_of q R) /\
            forall k, kvalue k R = value key_eqb k_agg k (flat_map (leaf_partial (to_layout d) pts q) (d_order d)).
Proof. exact (asis_is_answer d pts q). Qed.
Print Assumptions C12_asis_is_answer.

(* refuted: a node that knows the metric but lacks a selected field answers "not found", its data is dropped *)
Theorem C12_node_lacking_a_field_refuted :
  wf_b d_one pts_f q_f = true /\ wf_b d_two pts_f q_f = true /\
  asis d_one pts_f q_f = ORes [(0%nat, [], 1, 5); (1%nat, [], 2, 6)] /\ asis d_two pts_f q_f = OErr 2.
Proof. exact node_lacking_a_field_refuted. Qed.
Print Assumptions C12_node_lacking_a_field_refuted.

(* refuted: a group-by statement over several storage nodes with the root itself or two brokers as compute nodes *)
Theorem C12_compute_brokers_refuted :
  asis d_one pts_f q_g = ORes [(0%nat, [0%nat], 1, 5)] /\ asis d_self pts_f q_g = OErr 1 /\ asis d_two_brokers pts_f q_g = OErr 1.
Proof. exact compute_brokers_refuted. Qed.
Print Assumptions C12_compute_brokers_refuted.

(* the hypotheses are satisfiable *)
Example C12_nonvacuous : wf lay_e pts_e q_e /\ answer lay_e pts_e q_e ([], 0%nat, 1%nat, 0) = Some 13.
Proof. split; [exact lay_e_wf|exact (proj1 lay_e_answers)]. Qed.

(* order by <field> [desc] limit n: the heap the root pushes the groups into keeps the n best rows whatever the order
   of the pushes (the iteration order of a Go map), when the ranks are pairwise different *)
From LinDBV.C12 Require Import TopN.
Theorem C12_topn_order_irrelevant n desc rows rows' : distinct rows -> Permutation rows rows' ->
  Permutation (topn n desc rows) (topn n desc rows').
Proof. exact (topn_order_irrelevant n desc rows rows'). Qed.
Print Assumptions C12_topn_order_irrelevant.

Theorem C12_topn_is_best n desc rows : distinct rows ->
  length (topn n desc rows) = Nat.min n (length rows) /\ incl (topn n desc rows) rows /\
  forall r k, In r rows -> ~ In r (topn n desc rows) -> In k (topn n desc rows) -> better desc k r = true.
Proof. exact (topn_is_best n desc rows). Qed.
Print Assumptions C12_topn_is_best.
