(* C12 — order by ... limit n at the root (aggregation/order_by.go, topn.go): the groups are pushed one by one, in the
   iteration order of a Go map, into a heap of at most n rows whose root is the worst kept row; a row arriving at a
   full heap replaces the root when it is better.  With pairwise different ranks the kept rows are the n best,
   whatever the order in which the groups are pushed. *)
From Coq Require Import List ZArith Bool Arith Lia Permutation.
Import ListNotations.
From LinDBV.C12 Require Import Model.
Open Scope Z_scope.

Definition row := (list nat * Z)%type.        (* group, rank *)
Definition row_eqb (a b : row) : bool := list_eqb (fst a) (fst b) && (snd a =? snd b).

Section TopN.
Variable n : nat.
Variable desc : bool.

Definition better (a b : row) : bool := if desc then snd b <? snd a else snd a <? snd b.
Fixpoint worst (l : list row) : option row :=
  match l with
  | [] => None
  | x :: r => match worst r with None => Some x | Some w => if better w x then Some x else Some w end
  end.
Fixpoint remove1 (x : row) (l : list row) : list row :=
  match l with [] => [] | y :: r => if row_eqb x y then r else y :: remove1 x r end.
(* topNHeap.Add *)
Definition add (kept : list row) (x : row) : list row :=
  if Nat.ltb (length kept) n then x :: kept
  else match worst kept with
       | None => kept
       | Some w => if better x w then x :: remove1 w kept else kept
       end.
Definition topn (rows : list row) : list row := fold_left add rows [].
End TopN.

(* ---------------- proofs ---------------- *)
Lemma list_eqb_refl a : list_eqb a a = true.
Proof. induction a as [|x a IH]; cbn; [reflexivity|]. rewrite Nat.eqb_refl. exact IH. Qed.
Lemma list_eqb_true a : forall b, list_eqb a b = true -> a = b.
Proof.
  induction a as [|x a IH]; intros [|y b] H; cbn in H; try discriminate; [reflexivity|].
  apply andb_prop in H. destruct H as [H1 H2]. apply Nat.eqb_eq in H1. f_equal; [exact H1|apply IH, H2].
Qed.
Lemma row_eqb_eq a b : row_eqb a b = true <-> a = b.
Proof.
  destruct a as [g v], b as [g' v']. unfold row_eqb. cbn [fst snd]. split.
  - intros H. apply andb_prop in H. destruct H as [H1 H2]. apply list_eqb_true in H1. apply Z.eqb_eq in H2. congruence.
  - intros H. inversion H; subst. rewrite list_eqb_refl, Z.eqb_refl. reflexivity.
Qed.
Lemma row_dec (a b : row) : {a = b} + {a <> b}.
Proof. destruct (row_eqb a b) eqn:E; [left; apply row_eqb_eq, E|right; intros H; apply row_eqb_eq in H; congruence]. Qed.

Section Proofs.
Variable n : nat.
Variable desc : bool.
Notation btr := (better desc).
Notation addn := (add n desc).

Lemma better_trans a b c : btr a b = true -> btr b c = true -> btr a c = true.
Proof. unfold better. destruct desc; rewrite !Z.ltb_lt; lia. Qed.
Lemma better_asym a b : btr a b = true -> btr b a = false.
Proof. unfold better. destruct desc; rewrite Z.ltb_lt, Z.ltb_ge; lia. Qed.
Lemma better_total a b : snd a <> snd b -> btr a b = true \/ btr b a = true.
Proof. unfold better. destruct desc; rewrite !Z.ltb_lt; lia. Qed.

(* pairwise different ranks *)
Definition distinct (l : list row) : Prop := NoDup (map snd l).
Lemma distinct_nodup l : distinct l -> NoDup l.
Proof. unfold distinct. intros H. apply (NoDup_map_inv snd), H. Qed.
Lemma distinct_rank l a b : distinct l -> In a l -> In b l -> a <> b -> snd a <> snd b.
Proof.
  unfold distinct. induction l as [|x l IH]; intros Hd Ha Hb Hne; [destruct Ha|].
  cbn [map] in Hd. inversion Hd as [|? ? Hnx Hd']; subst.
  destruct Ha as [->|Ha], Hb as [->|Hb].
  - congruence.
  - intros E. apply Hnx. rewrite E. apply in_map, Hb.
  - intros E. apply Hnx. rewrite <- E. apply in_map, Ha.
  - apply IH; assumption.
Qed.

Lemma worst_in l w : worst desc l = Some w -> In w l.
Proof.
  revert w. induction l as [|x l IH]; intros w H; cbn [worst] in H; [discriminate|].
  destruct (worst desc l) as [w'|] eqn:E.
  - destruct (btr w' x); inversion H; subst; [left; reflexivity|right; apply IH; reflexivity].
  - inversion H; subst. left. reflexivity.
Qed.
Lemma worst_none l : worst desc l = None -> l = [].
Proof. destruct l as [|x l]; [reflexivity|]. cbn [worst]. destruct (worst desc l) as [w|]; [destruct (btr w x)|]; discriminate. Qed.
Definition pairwise (l : list row) : Prop := forall a b, In a l -> In b l -> a <> b -> snd a <> snd b.
Lemma worst_spec l w : pairwise l -> worst desc l = Some w -> forall k, In k l -> k <> w -> btr k w = true.
Proof.
  revert w. induction l as [|x l IH]; intros w Hd H k Hk Hne; [destruct Hk|].
  assert (Hd' : pairwise l) by (intros a b Ha Hb; apply Hd; right; assumption).
  cbn [worst] in H. destruct (worst desc l) as [w'|] eqn:E.
  - pose proof (worst_in l w' E) as Hw'.
    destruct (btr w' x) eqn:Eb; inversion H; subst.
    + destruct Hk as [->|Hk]; [congruence|].
      destruct (row_dec k w') as [->|Hkw]; [exact Eb|].
      apply (better_trans k w' w); [apply (IH w' Hd' eq_refl k Hk Hkw)|exact Eb].
    + destruct Hk as [->|Hk].
      * assert (Hr : snd k <> snd w) by (apply Hd; [left; reflexivity|right; exact Hw'|exact Hne]).
        destruct (better_total w k (fun e => Hr (eq_sym e))) as [Hb|Hb]; [rewrite Hb in Eb; discriminate|exact Hb].
      * apply (IH w Hd' eq_refl k Hk Hne).
  - apply worst_none in E. subst l. inversion H; subst. destruct Hk as [->|[]]. congruence.
Qed.

Lemma remove1_in x y l : In y (remove1 x l) -> In y l.
Proof.
  induction l as [|z l IH]; cbn [remove1]; [tauto|]. destruct (row_eqb x z); [intros H; right; exact H|].
  intros [->|H]; [left; reflexivity|right; apply IH, H].
Qed.
Lemma remove1_nodup x l : NoDup l -> NoDup (remove1 x l).
Proof.
  induction l as [|z l IH]; intros Hn; cbn [remove1]; [constructor|]. inversion Hn as [|? ? Hz Hn']; subst.
  destruct (row_eqb x z); [exact Hn'|]. constructor; [|apply IH, Hn']. intros H. apply Hz, (remove1_in x), H.
Qed.
Lemma remove1_other x y l : In y l -> y <> x -> In y (remove1 x l).
Proof.
  induction l as [|z l IH]; intros Hy Hne; [destruct Hy|]. cbn [remove1]. destruct (row_eqb x z) eqn:E.
  - apply row_eqb_eq in E. subst z. destruct Hy as [->|Hy]; [congruence|exact Hy].
  - destruct Hy as [->|Hy]; [left; reflexivity|right; apply IH; assumption].
Qed.
Lemma remove1_notin x l : NoDup l -> ~ In x (remove1 x l).
Proof.
  induction l as [|z l IH]; intros Hn; cbn [remove1]; [tauto|]. inversion Hn as [|? ? Hz Hn']; subst.
  destruct (row_eqb x z) eqn:E.
  - apply row_eqb_eq in E. subst z. exact Hz.
  - intros [->|H]; [rewrite (proj2 (row_eqb_eq x x) eq_refl) in E; discriminate|exact (IH Hn' H)].
Qed.
Lemma remove1_length x l : In x l -> length (remove1 x l) = pred (length l).
Proof.
  induction l as [|z l IH]; intros Hx; [destruct Hx|]. cbn [remove1]. destruct (row_eqb x z) eqn:E; [reflexivity|].
  destruct Hx as [->|Hx]; [rewrite (proj2 (row_eqb_eq x x) eq_refl) in E; discriminate|].
  cbn [length]. rewrite (IH Hx). destruct l; [destruct Hx|reflexivity].
Qed.

(* the kept rows are the best of the rows seen *)
Record Inv (kept seen : list row) : Prop := {
  i_nodup : NoDup kept;
  i_incl : incl kept seen;
  i_len : length kept = Nat.min n (length seen);
  i_best : forall r k, In r seen -> ~ In r kept -> In k kept -> btr k r = true
}.
Lemma inv_nil : Inv [] [].
Proof. constructor; [constructor|intros x []|cbn; lia|intros r k []]. Qed.
Lemma inv_add kept seen x : distinct (x :: seen) -> Inv kept seen -> Inv (addn kept x) (x :: seen).
Proof.
  intros Hd [Hn Hi Hl Hb].
  assert (Hds : distinct seen) by (unfold distinct in *; cbn [map] in Hd; inversion Hd; assumption).
  assert (Hxs : ~ In x seen).
  { intros H. unfold distinct in Hd. cbn [map] in Hd. inversion Hd as [|? ? Hnx _]; subst. apply Hnx, in_map, H. }
  assert (Hxk : ~ In x kept) by (intros H; apply Hxs, Hi, H).
  assert (Hpw : pairwise kept).
  { intros a b Ha Hb' Hne. apply (distinct_rank seen); [exact Hds|apply Hi, Ha|apply Hi, Hb'|exact Hne]. }
  assert (Hrk : forall a b, In a (x :: seen) -> In b (x :: seen) -> a <> b -> snd a <> snd b) by (intros a b; apply distinct_rank, Hd).
  unfold add. destruct (Nat.ltb_spec (length kept) n) as [Hlt|Hge].
  - (* room left: every seen row is kept *)
    assert (Hall : incl seen kept).
    { apply NoDup_length_incl; [exact Hn| |exact Hi]. lia. }
    constructor.
    + constructor; assumption.
    + intros y [->|Hy]; [left; reflexivity|right; apply Hi, Hy].
    + cbn [length]. lia.
    + intros r k Hr Hnr Hk. exfalso. apply Hnr. destruct Hr as [->|Hr]; [left; reflexivity|right; apply Hall, Hr].
  - destruct (worst desc kept) as [w|] eqn:Ew.
    + pose proof (worst_in kept w Ew) as Hwk.
      pose proof (worst_spec kept w Hpw Ew) as Hws.
      assert (Hlen : length kept = n) by lia.
      destruct (btr x w) eqn:Exw.
      * constructor.
        -- constructor; [intros H; apply Hxk, (remove1_in w), H|apply remove1_nodup, Hn].
        -- intros y [->|Hy]; [left; reflexivity|right; apply Hi, (remove1_in w), Hy].
        -- cbn [length]. rewrite (remove1_length w kept Hwk). destruct kept; [destruct Hwk|]. cbn [length] in *. lia.
        -- intros r k Hr Hnr Hk.
           assert (Hrx : r <> x) by (intros ->; apply Hnr; left; reflexivity).
           assert (Hrs : In r seen) by (destruct Hr as [->|Hr]; [congruence|exact Hr]).
           destruct (row_dec r w) as [->|Hrw].
           ++ destruct Hk as [<-|Hk]; [exact Exw|].
              apply Hws; [apply (remove1_in w), Hk|]. intros ->. exact (remove1_notin w kept Hn Hk).
           ++ assert (Hnk : ~ In r kept) by (intros H; apply Hnr; right; apply remove1_other; assumption).
              destruct Hk as [<-|Hk].
              ** apply (better_trans x w r); [exact Exw|apply Hb; assumption].
              ** apply Hb; [exact Hrs|exact Hnk|apply (remove1_in w), Hk].
      * constructor; [exact Hn|intros y Hy; right; apply Hi, Hy|cbn [length]; lia|].
        intros r k Hr Hnr Hk. destruct Hr as [<-|Hr]; [|apply Hb; assumption].
        assert (Hwx : btr w x = true).
        { assert (Hr : snd w <> snd x) by (apply Hrk; [right; apply Hi, Hwk|left; reflexivity|intros ->; exact (Hxk Hwk)]).
          destruct (better_total w x Hr) as [H|H]; [exact H|congruence]. }
        destruct (row_dec k w) as [->|Hkw]; [exact Hwx|].
        apply (better_trans k w x); [apply Hws; assumption|exact Hwx].
    + apply worst_none in Ew. subst kept. cbn [length] in *. assert (Hn0 : n = O) by lia.
      constructor; [constructor|intros y []|rewrite Hn0; reflexivity|intros r k _ _ []].
Qed.

Lemma nodup_app_r {A} (a b : list A) : NoDup (a ++ b) -> NoDup b.
Proof. induction a as [|x a IH]; intros H; [exact H|]. inversion H; subst. apply IH. assumption. Qed.
Lemma inv_fold rows : forall kept seen, distinct (rev rows ++ seen) -> Inv kept seen ->
  Inv (fold_left addn rows kept) (rev rows ++ seen).
Proof.
  induction rows as [|x rows IH]; intros kept seen Hd Hinv; [exact Hinv|].
  cbn [fold_left rev]. rewrite <- app_assoc. cbn [app]. apply IH.
  - cbn [rev] in Hd. rewrite <- app_assoc in Hd. exact Hd.
  - apply inv_add; [|exact Hinv]. cbn [rev] in Hd. rewrite <- app_assoc in Hd. cbn [app] in Hd.
    unfold distinct in *. rewrite map_app in Hd. apply nodup_app_r in Hd. exact Hd.
Qed.

(* two selections of the best rows of the same rows are the same rows *)
Lemma inv_unique k1 k2 s1 s2 : distinct s1 -> Permutation s1 s2 -> Inv k1 s1 -> Inv k2 s2 -> Permutation k1 k2.
Proof.
  intros Hd Hp [Hn1 Hi1 Hl1 Hb1] [Hn2 Hi2 Hl2 Hb2].
  assert (Hlen : length k1 = length k2) by (rewrite Hl1, Hl2, (Permutation_length Hp); reflexivity).
  assert (Hincl : incl k1 k2).
  { intros r Hr1. destruct (in_dec row_dec r k2) as [H|Hr2]; [exact H|exfalso].
    (* some row of k2 is not in k1 *)
    assert (Hex : exists r', In r' k2 /\ ~ In r' k1).
    { destruct (existsb (fun y => if in_dec row_dec y k1 then false else true) k2) eqn:E.
      - apply existsb_exists in E. destruct E as [y [Hy Hy']]. exists y. split; [exact Hy|]. destruct (in_dec row_dec y k1); [discriminate|assumption].
      - exfalso. assert (Hsub : incl k2 (remove1 r k1)).
        { intros y Hy. apply remove1_other.
          - destruct (in_dec row_dec y k1) as [H|H]; [exact H|]. exfalso.
            assert (existsb (fun y0 => if in_dec row_dec y0 k1 then false else true) k2 = true).
            { apply existsb_exists. exists y. split; [exact Hy|]. destruct (in_dec row_dec y k1); [contradiction|reflexivity]. }
            congruence.
          - intros ->. exact (Hr2 Hy). }
        pose proof (NoDup_incl_length Hn2 Hsub) as Hle. rewrite (remove1_length r k1 Hr1) in Hle.
        destruct k1; [destruct Hr1|]. cbn [length] in *. lia. }
    destruct Hex as [r' [Hr'2 Hr'1]].
    assert (B1 : btr r r' = true) by (apply Hb1; [apply (Permutation_in _ (Permutation_sym Hp)), Hi2, Hr'2|exact Hr'1|exact Hr1]).
    assert (B2 : btr r' r = true) by (apply Hb2; [apply (Permutation_in _ Hp), Hi1, Hr1|exact Hr2|exact Hr'2]).
    rewrite (better_asym r r' B1) in B2. discriminate. }
  apply NoDup_Permutation_bis; [exact Hn1|lia|exact Hincl].
Qed.

(* the kept rows do not depend on the order in which the groups are pushed *)
Theorem topn_order_irrelevant rows rows' : distinct rows -> Permutation rows rows' ->
  Permutation (topn n desc rows) (topn n desc rows').
Proof.
  intros Hd Hp. unfold topn.
  assert (Hd' : distinct rows') by (unfold distinct in *; apply (Permutation_NoDup (Permutation_map snd Hp)), Hd).
  assert (H1 : Inv (fold_left addn rows []) (rev rows ++ [])).
  { apply inv_fold; [|apply inv_nil]. rewrite app_nil_r. unfold distinct in *. rewrite map_rev. apply NoDup_rev, Hd. }
  assert (H2 : Inv (fold_left addn rows' []) (rev rows' ++ [])).
  { apply inv_fold; [|apply inv_nil]. rewrite app_nil_r. unfold distinct in *. rewrite map_rev. apply NoDup_rev, Hd'. }
  rewrite !app_nil_r in *.
  apply (inv_unique _ _ (rev rows) (rev rows')); [|apply Permutation_rev' , Hp|exact H1|exact H2].
  unfold distinct in *. rewrite map_rev. apply NoDup_rev, Hd.
Qed.
(* and they are the best: every row left out is worse than every row kept, n rows are kept when there are n *)
Theorem topn_is_best rows : distinct rows ->
  length (topn n desc rows) = Nat.min n (length rows) /\ incl (topn n desc rows) rows /\
  forall r k, In r rows -> ~ In r (topn n desc rows) -> In k (topn n desc rows) -> btr k r = true.
Proof.
  intros Hd. unfold topn.
  assert (H1 : Inv (fold_left addn rows []) (rev rows ++ [])).
  { apply inv_fold; [|apply inv_nil]. rewrite app_nil_r. unfold distinct in *. rewrite map_rev. apply NoDup_rev, Hd. }
  rewrite app_nil_r in H1. destruct H1 as [Hn Hi Hl Hb]. rewrite rev_length in Hl. split; [exact Hl|]. split.
  - intros y Hy. apply in_rev, Hi, Hy.
  - intros r k Hr. apply Hb. apply -> in_rev. exact Hr.
Qed.
End Proofs.

Example topn_example :
  topn 2 true [([0%nat], 5); ([1%nat], 9); ([2%nat], 1); ([3%nat], 7)] = [([3%nat], 7); ([1%nat], 9)] /\
  topn 2 true [([2%nat], 1); ([3%nat], 7); ([0%nat], 5); ([1%nat], 9)] = [([1%nat], 9); ([3%nat], 7)].
Proof. vm_compute. split; reflexivity. Qed.
