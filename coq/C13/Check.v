From Coq Require Import ZArith List Bool.
Import ListNotations.
From LinDBV.C13 Require Import Model.
Open Scope Z_scope.

Definition itype_of (n : Z) : itype := if n =? 0 then Day else if n =? 1 then Month else Year.

(* one calculator observation: type, timestamp, interval; observed: segment time, family, family start (via
   CalcFamilyStartTime(seg, family)), CalcFamilyTime, family end, slot (relative to the family start) *)
Record cobs := { c_seg : Z; c_family : Z; c_start : Z; c_ftime : Z; c_end : Z; c_slot : Z;
                 c_next_ftime : Z (* CalcFamilyTime(end+1) *); c_end_ftime : Z (* CalcFamilyTime(end) *) }.

Definition check_calc (off : Z) (tn ts iv : Z) (o : cobs) : nat * nat :=
  let t := itype_of tn in
  let seg := seg_time off t ts in
  let f := family off t ts seg in
  let st := family_start off t seg f in
  let e := family_end off t st in
  ((if (c_seg o =? seg) && (c_family o =? f) && (c_start o =? st) && (c_ftime o =? family_time off t ts) &&
       (c_end o =? e) && (c_slot o =? slot t ts st iv) && (c_next_ftime o =? family_time off t (e + 1)) &&
       (c_end_ftime o =? family_time off t e)
    then 0%nat else 1%nat),
   (* the property on the implementation's own numbers *)
   (if (c_ftime o <=? ts) && (ts <=? c_end o) && (c_start o =? c_ftime o) &&
       (c_next_ftime o =? c_end o + 1) && (c_end_ftime o =? c_ftime o) &&
       (0 <=? c_slot o) && (0 <=? ts - (c_ftime o + c_slot o * iv)) && (ts - (c_ftime o + c_slot o * iv) <? iv)
    then 0%nat else 1%nat)).

Fixpoint memz (x : Z) (l : list Z) : bool := match l with [] => false | y :: l' => (x =? y) || memz x l' end.

Record pobs := { o_start : Z; o_end : Z; o_interval : Z; o_storage : Z; o_ratio : Z }.
Definition check_plan (ivs : list Z) (start end_ qi : Z) (auto : bool) (probes : list Z) (o : pobs) : nat * nat :=
  let p := plan_query ivs start end_ qi auto in
  ((if (p_start p =? o_start o) && (p_end p =? o_end o) && (p_interval p =? o_interval o) &&
       (p_storage p =? o_storage o) && (p_ratio p =? o_ratio o) then 0%nat else 1%nat),
   (if memz (o_storage o) ivs && (1 <=? o_ratio o) && (o_interval o =? o_storage o * o_ratio o) &&
       (Z.rem (o_start o) (o_storage o) =? 0) && (Z.rem (o_end o) (o_storage o) =? 0) &&
       forallb (fun t => (o_start o <=? truncate t (o_storage o)) && (truncate t (o_storage o) <=? o_end o)) probes
    then 0%nat else 1%nat)).

(* ---- the broker's grouping of a batch by family (series/metric/row_broker.go BrokerBatchShardFamilyIterator): the
   timestamps of a batch in arrival order, the groups delivered (family time, timestamps) ---- *)
Fixpoint countz (x : Z) (l : list Z) : nat := match l with [] => 0%nat | y :: l' => Nat.add (if Z.eqb x y then 1%nat else 0%nat) (countz x l') end.
Definition check_broker (off : Z) (iv : Z) (tss : list Z) (groups : list (Z * list Z)) : nat * nat :=
  let t := interval_type iv in
  let delivered := flat_map snd groups in
  (* every row in the group of its own family, every row delivered exactly once *)
  let ok := forallb (fun g => forallb (fun ts => family_time off t ts =? fst g) (snd g)) groups &&
            forallb (fun ts => Nat.eqb (countz ts delivered) (countz ts tss)) tss &&
            Nat.eqb (length delivered) (length tss) in
  (* the implementation's own family ranges: a group's family time is at or below each member and the members of two
     groups with different family times are on different sides of the later family time *)
  let orc := forallb (fun g => forallb (fun ts => fst g <=? ts) (snd g)) groups &&
             forallb (fun g => forallb (fun h => (fst g =? fst h) || (fst h <? fst g) ||
                                                 forallb (fun ts => ts <? fst h) (snd g)) groups) groups &&
             forallb (fun ts => Nat.eqb (countz ts delivered) (countz ts tss)) tss in
  ((if ok then 0%nat else 1%nat), (if orc then 0%nat else 1%nat)).

(* ---- the families a query range selects (tsdb/segment.go, interval_segment.go GetDataFamilies): [existing] = start times
   of the families the shard holds, [lo, hi] the inclusive range, [got] the start times returned: exactly the existing
   families whose own range [start, end] meets [lo, hi] ---- *)
Fixpoint subsetz (a b : list Z) : bool := match a with [] => true | x :: a' => memz x b && subsetz a' b end.
Definition check_range_families (off iv : Z) (existing : list Z) (lo hi : Z) (got : list Z) : nat * nat :=
  let t := interval_type iv in
  let want := filter (fun f => (f <=? hi) && (lo <=? family_end off t f)) existing in
  ((if subsetz want got && subsetz got want && Nat.eqb (length got) (length want) then 0%nat else 1%nat),
   (* the property on the observations alone: every existing family that contains lo or hi is returned, nothing outside *)
   (if forallb (fun f => negb ((f <=? hi) && (hi <=? family_end off t f)) || memz f got) existing &&
       forallb (fun f => negb ((f <=? lo) && (lo <=? family_end off t f)) || memz f got) existing &&
       forallb (fun f => (f <=? hi) && (lo <=? family_end off t f)) got then 0%nat else 1%nat)).
