(* C13 — time bucketing.  Model of pkg/timeutil/interval_calculator.go (day / month / year
   calculators), Interval.Type, Truncate, CalIntervalRatio, CalcQueryInterval,
   DatabaseOption.FindMatchSmallestInterval and query/context calcTimeRangeAndInterval.
   Timestamps are milliseconds in Z; the calendar is the proleptic Gregorian one
   (Hinnant's days_from_civil / civil_from_days); the time zone is a fixed offset
   [off] in seconds.  Go's / and % are Z.quot / Z.rem.  Definitions only. *)
From Coq Require Import ZArith List Bool.
Import ListNotations.
Open Scope Z_scope.

Definition days_from_civil (y m d : Z) : Z :=
  let y' := if m <=? 2 then y - 1 else y in
  let era := y' / 400 in
  let yoe := y' - era * 400 in
  let mp := if m >? 2 then m - 3 else m + 9 in
  let doy := (153 * mp + 2) / 5 + d - 1 in
  let doe := yoe * 365 + yoe / 4 - yoe / 100 + doy in
  era * 146097 + doe - 719468.
Definition civil_from_days (z0 : Z) : Z * Z * Z :=
  let z := z0 + 719468 in
  let era := z / 146097 in
  let doe := z - era * 146097 in
  let yoe := (doe - doe / 1460 + doe / 36524 - doe / 146096) / 365 in
  let y := yoe + era * 400 in
  let doy := doe - (365 * yoe + yoe / 4 - yoe / 100) in
  let mp := (5 * doy + 2) / 153 in
  let d := doy - (153 * mp + 2) / 5 + 1 in
  let m := if mp <? 10 then mp + 3 else mp - 9 in
  ((if m <=? 2 then y + 1 else y), m, d).

(* Go's time.Date normalisation of the month (LinDB produces 1..13: Month()+1) *)
Definition next_month_start (y m : Z) : Z :=
  if m =? 12 then days_from_civil (y + 1) 1 1 else days_from_civil y (m + 1) 1.

Definition one_second := 1000.
Definition one_minute := 60000.
Definition one_hour := 3600000.
Definition one_day := 86400000.
Definition one_month := 2592000000.   (* 30 days *)

Section Zone.
Variable off : Z.   (* zone offset east of UTC, seconds *)

(* local calendar day number of a millisecond timestamp: time.Unix(ts/1000, 0) in the zone *)
Definition local_day (ts : Z) : Z := (Z.quot ts 1000 + off) / 86400.
(* time.Date(y, m, d, 0,0,0,0, zone).UnixNano()/1e6 with day number given *)
Definition day_ms (dn : Z) : Z := (dn * 86400 - off) * 1000.
Definition civil (ts : Z) : Z * Z * Z := civil_from_days (local_day ts).

Inductive itype := Day | Month | Year.

(* CalcSegmentTime *)
Definition seg_time (t : itype) (ts : Z) : Z :=
  let '(y, m, d) := civil ts in
  match t with
  | Day => day_ms (days_from_civil y m d)
  | Month => day_ms (days_from_civil y m 1)
  | Year => day_ms (days_from_civil y 1 1)
  end.

(* CalcFamily *)
Definition family (t : itype) (ts seg : Z) : Z :=
  let '(y, m, d) := civil ts in
  match t with
  | Day => Z.quot (ts - seg) one_hour
  | Month => d
  | Year => m
  end.

(* CalcFamilyStartTime *)
Definition family_start (t : itype) (seg f : Z) : Z :=
  let '(y, m, d) := civil seg in
  match t with
  | Day => seg + f * one_hour
  | Month => day_ms (days_from_civil y m f)
  | Year => day_ms (days_from_civil y f 1)
  end.

(* CalcFamilyEndTime *)
Definition family_end (t : itype) (start : Z) : Z :=
  let '(y, m, d) := civil start in
  match t with
  | Day => start + one_hour - 1
  | Month => day_ms (days_from_civil y m (d + 1)) - 1
  | Year => day_ms (next_month_start y m) - 1
  end.

(* CalcFamilyTime *)
Definition family_time (t : itype) (ts : Z) : Z :=
  let seg := seg_time t ts in family_start t seg (family t ts seg).

(* CalcSlot *)
Definition slot (t : itype) (ts base interval : Z) : Z :=
  match t with
  | Day => Z.quot (Z.rem (ts - base) one_hour) interval
  | Month => Z.quot (Z.rem (ts - base) one_day) interval
  | Year => Z.quot (ts - base) interval
  end.
End Zone.

(* Interval.Type *)
Definition interval_type (i : Z) : itype :=
  if one_hour <=? i then Year else if 5 * one_minute <=? i then Month else Day.

(* ---- planner ---- *)
Definition truncate (ts interval : Z) : Z := Z.quot ts interval * interval.
Definition interval_ratio (q s : Z) : Z := if (s =? 0) || (q <? s) then 1 else Z.quot q s.

Definition calc_query_interval (start end_ qi : Z) : Z :=
  let diff := end_ - start in
  if diff <? one_hour then qi
  else if diff <? 3 * one_hour then 10 * one_second
  else if diff <? 6 * one_hour then 30 * one_second
  else if diff <? 12 * one_hour then one_minute
  else if diff <? one_day then 2 * one_minute
  else if diff <? 2 * one_day then 5 * one_minute
  else if diff <? 7 * one_day then 10 * one_minute
  else if diff <? one_month then one_hour
  else if diff <? 2 * one_month then 4 * one_hour
  else if diff <? 3 * one_month then 12 * one_hour
  else one_day.

(* FindMatchSmallestInterval: the largest stored interval <= the wanted one, else Intervals[0] *)
Fixpoint best_le (ivs : list Z) (want : Z) (acc : option Z) : option Z :=
  match ivs with
  | [] => acc
  | i :: ivs' =>
      best_le ivs' want
        (if i <=? want then match acc with Some a => if a <? i then Some i else acc | None => Some i end else acc)
  end.
Definition find_match (ivs : list Z) (want : Z) : Z :=
  match best_le ivs want None with Some i => i | None => hd 0 ivs end.

Record plan := { p_start : Z; p_end : Z; p_interval : Z; p_storage : Z; p_ratio : Z }.

(* calcTimeRangeAndInterval: [qi] statement interval (<= 0: unset), [auto]: AutoGroupByTime *)
Definition plan_query (ivs : list Z) (start end_ qi : Z) (auto : bool) : plan :=
  let i0 := if qi <=? 0 then hd 0 ivs else qi in
  let i1 := calc_query_interval start end_ i0 in
  let st := find_match ivs i1 in
  let s' := truncate start st in
  let e' := truncate end_ st in
  let stmt_iv := if auto then (e' - s') + st else qi in
  let i2 := if i1 <? stmt_iv then stmt_iv else i1 in
  let r := interval_ratio i2 st in
  {| p_start := s'; p_end := e'; p_interval := st * r; p_storage := st; p_ratio := r |}.
