From Coq Require Import ZArith Lia List Bool.
Import ListNotations.
From LinDBV.C13 Require Import Model.
Open Scope Z_scope.
Ltac Zify.zify_post_hook ::= Z.div_mod_to_equations.

(* ================= calendar ================= *)

Theorem civil_roundtrip z :
  let '(y, m, d) := civil_from_days z in
  days_from_civil y m d = z /\ 1 <= m <= 12 /\ 1 <= d <= 31.
Proof.
  unfold civil_from_days, days_from_civil.
  set (zz := z + 719468).
  set (era := zz / 146097).
  set (doe := zz - era * 146097).
  assert (Hdoe : 0 <= doe <= 146096) by (unfold doe, era; lia).
  set (yoe := (doe - doe / 1460 + doe / 36524 - doe / 146096) / 365).
  assert (Hyoe : 0 <= yoe <= 399) by (unfold yoe; lia).
  set (doy := doe - (365 * yoe + yoe / 4 - yoe / 100)).
  assert (Hdoy : 0 <= doy <= 365) by (unfold doy, yoe; lia).
  set (mp := (5 * doy + 2) / 153).
  assert (Hmp : 0 <= mp <= 11) by (unfold mp; lia).
  destruct (mp <? 10) eqn:Hm10.
  - assert (mp + 3 <=? 2 = false) as -> by lia.
    assert (mp + 3 >? 2 = true) as -> by lia.
    replace (mp + 3 - 3) with mp by lia.
    replace ((yoe + era * 400) / 400) with era by (lia).
    replace (yoe + era * 400 - era * 400) with yoe by lia.
    split; [|split]; [ | lia | unfold mp; lia ].
    unfold mp, doy, doe. lia.
  - assert (Hle : mp - 9 <=? 2 = true) by lia. rewrite Hle.
    assert (mp - 9 >? 2 = false) as -> by lia.
    replace (mp - 9 + 9) with mp by lia.
    replace ((yoe + era * 400 + 1 - 1) / 400) with era by lia.
    replace (yoe + era * 400 + 1 - 1 - era * 400) with yoe by lia.
    split; [|split]; [ | lia | unfold mp; lia ].
    unfold mp, doy, doe. lia.
Qed.

(* the day z lies inside the month civil_from_days says it is in *)
Theorem day_in_month z :
  let '(y, m, d) := civil_from_days z in
  days_from_civil y m 1 <= z < next_month_start y m.
Proof.
  unfold civil_from_days, next_month_start, days_from_civil.
  set (zz := z + 719468).
  set (era := zz / 146097).
  set (doe := zz - era * 146097).
  assert (Hdoe : 0 <= doe <= 146096) by (unfold doe, era; lia).
  set (yoe := (doe - doe / 1460 + doe / 36524 - doe / 146096) / 365).
  assert (Hyoe : 0 <= yoe <= 399) by (unfold yoe; lia).
  set (doy := doe - (365 * yoe + yoe / 4 - yoe / 100)).
  assert (Hdoy : 0 <= doy <= 365) by (unfold doy, yoe; lia).
  set (mp := (5 * doy + 2) / 153).
  assert (Hmp : 0 <= mp <= 11) by (unfold mp; lia).
  destruct (mp <? 10) eqn:Hm10.
  - assert (mp + 3 <=? 2 = false) as -> by lia.
    assert (mp + 3 >? 2 = true) as -> by lia.
    replace (mp + 3 - 3) with mp by lia.
    replace ((yoe + era * 400) / 400) with era by lia.
    replace (yoe + era * 400 - era * 400) with yoe by lia.
    destruct (mp + 3 =? 12) eqn:E12.
    + assert (Hmp9 : mp = 9) by lia.
      assert (1 <=? 2 = true) as -> by reflexivity.
      assert (1 >? 2 = false) as -> by reflexivity.
      replace (yoe + era * 400 + 1 - 1) with (yoe + era * 400) by lia.
      replace ((yoe + era * 400) / 400) with era by lia.
      replace (yoe + era * 400 - era * 400) with yoe by lia.
      unfold doy, doe in *. lia.
    + assert (mp + 3 + 1 <=? 2 = false) as -> by lia.
      assert (mp + 3 + 1 >? 2 = true) as -> by lia.
      replace ((yoe + era * 400) / 400) with era by lia.
      replace (yoe + era * 400 - era * 400) with yoe by lia.
      replace (mp + 3 + 1 - 3) with (mp + 1) by lia.
      unfold mp, doy, doe in *. lia.
  - assert (Hle : mp - 9 <=? 2 = true) by lia. rewrite Hle.
    assert (mp - 9 >? 2 = false) as -> by lia.
    assert (mp - 9 =? 12 = false) as -> by lia.
    replace (mp - 9 + 9) with mp by lia.
    replace ((yoe + era * 400 + 1 - 1) / 400) with era by lia.
    replace (yoe + era * 400 + 1 - 1 - era * 400) with yoe by lia.
    destruct (mp - 9 + 1 <=? 2) eqn:E2.
    + assert (Hmp10 : mp = 10) by lia.
      assert (mp - 9 + 1 >? 2 = false) as -> by lia.
      replace (mp - 9 + 1 + 9) with 11 by lia.
      replace ((yoe + era * 400 + 1 - 1) / 400) with era by lia.
      replace (yoe + era * 400 + 1 - 1 - era * 400) with yoe by lia.
      unfold doy, doe in *. lia.
    + assert (Hmp11 : mp = 11) by lia.
      assert (mp - 9 + 1 >? 2 = true) as -> by lia.
      replace (mp - 9 + 1 - 3) with 0 by lia.
      clear Hm10 Hle E2.
      destruct (Z.eq_dec yoe 399) as [E399|N399].
      * replace ((yoe + era * 400 + 1) / 400) with (era + 1) by lia.
        replace (yoe + era * 400 + 1 - (era + 1) * 400) with 0 by lia.
        unfold doy, doe in *. lia.
      * replace ((yoe + era * 400 + 1) / 400) with era by lia.
        replace (yoe + era * 400 + 1 - era * 400) with (yoe + 1) by lia.
        assert (Hnext : doe < (yoe + 1) * 365 + (yoe + 1) / 4 - (yoe + 1) / 100) by (unfold yoe in *; lia).
        unfold doy, doe in *. lia.
Qed.

(* civil_from_days inverts the era/yoe/doy decomposition (all days of the March-based year but its leap day) *)
Lemma recover era yoe doy : 0 <= yoe <= 399 -> 0 <= doy <= 364 ->
  civil_from_days (era * 146097 + (yoe * 365 + yoe / 4 - yoe / 100 + doy) - 719468) =
  (let mp := (5 * doy + 2) / 153 in
   let m := if mp <? 10 then mp + 3 else mp - 9 in
   ((if m <=? 2 then yoe + era * 400 + 1 else yoe + era * 400), m, doy - (153 * mp + 2) / 5 + 1)).
Proof.
  intros Hy Hd. unfold civil_from_days.
  set (doe := yoe * 365 + yoe / 4 - yoe / 100 + doy).
  assert (Hdoe : 0 <= doe <= 146096) by (unfold doe; lia).
  replace (era * 146097 + doe - 719468 + 719468) with (era * 146097 + doe) by lia.
  replace ((era * 146097 + doe) / 146097) with era by lia.
  replace (era * 146097 + doe - era * 146097) with doe by lia.
  assert (Hyoe : (doe - doe / 1460 + doe / 36524 - doe / 146096) / 365 = yoe) by (unfold doe; lia).
  rewrite Hyoe.
  replace (doe - (365 * yoe + yoe / 4 - yoe / 100)) with doy by (unfold doe; lia).
  reflexivity.
Qed.

(* the first day of every month decodes to that month *)
Lemma civil_first_of_month y m : 1 <= m <= 12 -> civil_from_days (days_from_civil y m 1) = (y, m, 1).
Proof.
  intros Hm. unfold days_from_civil.
  destruct (m <=? 2) eqn:E2.
  - assert (m >? 2 = false) as -> by lia.
    set (y' := y - 1). set (era := y' / 400). set (yoe := y' - era * 400).
    assert (Hyoe : 0 <= yoe <= 399) by (unfold yoe, era; lia).
    replace (era * 146097 + (yoe * 365 + yoe / 4 - yoe / 100 + ((153 * (m + 9) + 2) / 5 + 1 - 1)) - 719468)
      with (era * 146097 + (yoe * 365 + yoe / 4 - yoe / 100 + (153 * (m + 9) + 2) / 5) - 719468) by lia.
    assert (Hc : m = 1 \/ m = 2) by lia.
    destruct Hc as [->| ->].
    + change ((153 * (1 + 9) + 2) / 5) with 306. rewrite recover by lia. cbv zeta.
      change ((5 * 306 + 2) / 153) with 10. cbn; repeat match goal with |- (_, _) = (_, _) => apply f_equal2 end; unfold yoe, y'; lia.
    + change ((153 * (2 + 9) + 2) / 5) with 337. rewrite recover by lia. cbv zeta.
      change ((5 * 337 + 2) / 153) with 11. cbn; repeat match goal with |- (_, _) = (_, _) => apply f_equal2 end; unfold yoe, y'; lia.
  - assert (m >? 2 = true) as -> by lia.
    set (era := y / 400). set (yoe := y - era * 400).
    assert (Hyoe : 0 <= yoe <= 399) by (unfold yoe, era; lia).
    replace (era * 146097 + (yoe * 365 + yoe / 4 - yoe / 100 + ((153 * (m - 3) + 2) / 5 + 1 - 1)) - 719468)
      with (era * 146097 + (yoe * 365 + yoe / 4 - yoe / 100 + (153 * (m - 3) + 2) / 5) - 719468) by lia.
    assert (Hc : m = 3 \/ m = 4 \/ m = 5 \/ m = 6 \/ m = 7 \/ m = 8 \/ m = 9 \/ m = 10 \/ m = 11 \/ m = 12) by lia.
    destruct Hc as [->|[->|[->|[->|[->|[->|[->|[->|[->| ->]]]]]]]]];
      match goal with |- context [(153 * ?k + 2) / 5] =>
        let v := eval vm_compute in ((153 * k + 2) / 5) in change ((153 * k + 2) / 5) with v end;
      (rewrite recover by lia); cbv zeta;
      match goal with |- context [(5 * ?k + 2) / 153] =>
        let v := eval vm_compute in ((5 * k + 2) / 153) in change ((5 * k + 2) / 153) with v end;
      cbn; repeat match goal with |- (_, _) = (_, _) => apply f_equal2 end; unfold yoe; lia.
Qed.

Lemma dfc_succ_day y m d : days_from_civil y m (d + 1) = days_from_civil y m d + 1.
Proof. unfold days_from_civil. lia. Qed.

(* month index: months are consecutive, strictly increasing intervals of days *)
Definition mstart (i : Z) : Z := days_from_civil (i / 12) (i mod 12 + 1) 1.
Definition midx (y m : Z) : Z := 12 * y + (m - 1).

Lemma mstart_midx y m : 1 <= m <= 12 -> mstart (midx y m) = days_from_civil y m 1.
Proof. intros H. unfold mstart, midx. f_equal; lia. Qed.
Lemma next_is_mstart y m : 1 <= m <= 12 -> next_month_start y m = mstart (midx y m + 1).
Proof.
  intros H. unfold next_month_start, mstart, midx. destruct (Z.eqb_spec m 12) as [->|Hne]; f_equal; lia.
Qed.
Lemma mstart_lt_succ i : mstart i < mstart (i + 1).
Proof.
  set (y := i / 12). set (m := i mod 12 + 1).
  assert (Hm : 1 <= m <= 12) by (unfold m; lia).
  assert (Hi : i = midx y m) by (unfold midx, y, m; lia).
  rewrite Hi, <- next_is_mstart, mstart_midx by exact Hm.
  pose proof (day_in_month (days_from_civil y m 1)) as H.
  rewrite (civil_first_of_month y m Hm) in H. lia.
Qed.
Lemma mstart_mono i k : 0 < k -> mstart i < mstart (i + k).
Proof.
  intros Hk. pattern k. apply (Z_lt_induction (fun k => 0 < k -> mstart i < mstart (i + k))); [|lia|exact Hk].
  intros x IH Hx. destruct (Z.eq_dec x 1) as [->|Hne]; [apply mstart_lt_succ|].
  specialize (IH (x - 1) ltac:(lia) ltac:(lia)).
  pose proof (mstart_lt_succ (i + (x - 1))). replace (i + (x - 1) + 1) with (i + x) in H by lia. lia.
Qed.

(* a day inside month (y,m) decodes to (y,m,_) *)
Lemma civil_of_day_in_month y m z : 1 <= m <= 12 ->
  days_from_civil y m 1 <= z < next_month_start y m ->
  exists d, civil_from_days z = (y, m, d) /\ days_from_civil y m d = z.
Proof.
  intros Hm Hz.
  pose proof (day_in_month z) as H1. pose proof (civil_roundtrip z) as H2.
  destruct (civil_from_days z) as [[y' m'] d'].
  destruct H2 as (H2 & Hm' & _).
  rewrite <- mstart_midx, next_is_mstart in Hz by exact Hm.
  rewrite <- mstart_midx, next_is_mstart in H1 by exact Hm'.
  assert (E : midx y m = midx y' m').
  { destruct (Z_lt_le_dec (midx y m) (midx y' m')) as [Hl|Hl].
    - pose proof (mstart_mono (midx y m + 1) (midx y' m' - midx y m - 1)) as Hmo.
      destruct (Z.eq_dec (midx y' m') (midx y m + 1)) as [Ee|Ne]; [rewrite Ee in H1; lia|].
      specialize (Hmo ltac:(lia)). replace (midx y m + 1 + (midx y' m' - midx y m - 1)) with (midx y' m') in Hmo by lia. lia.
    - destruct (Z.eq_dec (midx y m) (midx y' m')) as [Ee|Ne]; [exact Ee|].
      pose proof (mstart_mono (midx y' m' + 1) (midx y m - midx y' m' - 1)) as Hmo.
      destruct (Z.eq_dec (midx y m) (midx y' m' + 1)) as [Ee|Ne2]; [rewrite Ee in Hz; lia|].
      specialize (Hmo ltac:(lia)). replace (midx y' m' + 1 + (midx y m - midx y' m' - 1)) with (midx y m) in Hmo by lia. lia. }
  unfold midx in E. assert (y' = y /\ m' = m) as [-> ->] by lia.
  exists d'. split; [reflexivity|exact H2].
Qed.

(* ================= timestamps ================= *)
Section Zone.
Variable off : Z.

Lemma local_day_day_ms dn : local_day off (day_ms off dn) = dn.
Proof. unfold local_day, day_ms. rewrite Z.quot_mul by lia. lia. Qed.

Lemma local_day_range ts : 0 <= ts ->
  day_ms off (local_day off ts) <= ts < day_ms off (local_day off ts + 1).
Proof.
  intros H. unfold local_day, day_ms. rewrite Z.quot_div_nonneg by lia. lia.
Qed.

Lemma local_day_unique ts dn : 0 <= ts -> day_ms off dn <= ts < day_ms off (dn + 1) -> local_day off ts = dn.
Proof.
  intros H Hr. unfold local_day, day_ms in *. rewrite Z.quot_div_nonneg by lia. lia.
Qed.

Lemma civil_day_ms_first y m : 1 <= m <= 12 -> civil off (day_ms off (days_from_civil y m 1)) = (y, m, 1).
Proof. intros H. unfold civil. rewrite local_day_day_ms. now apply civil_first_of_month. Qed.

(* ---- what family_time computes, per type ---- *)
Lemma family_time_day ts : 0 <= ts ->
  let D := local_day off ts in
  let h := Z.quot (ts - day_ms off D) one_hour in
  family_time off Day ts = day_ms off D + h * one_hour /\ 0 <= h <= 23 /\
  day_ms off D + h * one_hour <= ts < day_ms off D + (h + 1) * one_hour.
Proof.
  intros H D h. pose proof (local_day_range ts H) as Hr. fold D in Hr.
  unfold family_time, seg_time, family, family_start, civil. fold D.
  pose proof (civil_roundtrip D) as Hc. destruct (civil_from_days D) as [[y m] d]. destruct Hc as (Hc & _).
  rewrite Hc. rewrite local_day_day_ms.
  destruct (civil_from_days D) as [[y2 m2] d2]. fold h.
  assert (Hd : day_ms off (D + 1) = day_ms off D + one_day) by (unfold day_ms, one_day; lia).
  unfold h, one_hour in *. rewrite Z.quot_div_nonneg by lia. unfold one_day in *. lia.
Qed.

Lemma family_time_month ts : 0 <= ts ->
  family_time off Month ts = day_ms off (local_day off ts).
Proof.
  intros H. set (D := local_day off ts).
  unfold family_time, seg_time, family, family_start, civil. fold D.
  pose proof (civil_roundtrip D) as Hc. destruct (civil_from_days D) as [[y m] d] eqn:E. destruct Hc as (Hc & Hm & _).
  rewrite local_day_day_ms, (civil_first_of_month y m Hm), Hc. reflexivity.
Qed.

Lemma family_time_year ts : 0 <= ts ->
  let '(y, m, d) := civil off ts in
  family_time off Year ts = day_ms off (days_from_civil y m 1) /\ 1 <= m <= 12.
Proof.
  intros H. unfold family_time, seg_time, family, family_start, civil.
  pose proof (civil_roundtrip (local_day off ts)) as Hc.
  destruct (civil_from_days (local_day off ts)) as [[y m] d] eqn:E. destruct Hc as (Hc & Hm & _).
  rewrite local_day_day_ms, (civil_first_of_month y 1 ltac:(lia)). split; [reflexivity|exact Hm].
Qed.

Lemma family_end_day st : family_end off Day st = st + one_hour - 1.
Proof. unfold family_end. destruct (civil off st) as [[y m] d]. reflexivity. Qed.

Lemma family_end_month dn : family_end off Month (day_ms off dn) = day_ms off (dn + 1) - 1.
Proof.
  unfold family_end, civil. rewrite local_day_day_ms.
  pose proof (civil_roundtrip dn) as Hc. destruct (civil_from_days dn) as [[y m] d]. destruct Hc as (Hc & _).
  rewrite dfc_succ_day, Hc. reflexivity.
Qed.

Lemma family_end_year y m : 1 <= m <= 12 ->
  family_end off Year (day_ms off (days_from_civil y m 1)) = day_ms off (next_month_start y m) - 1.
Proof. intros H. unfold family_end. rewrite civil_day_ms_first by exact H. reflexivity. Qed.

Lemma day_ms_mono a b : a <= b -> day_ms off a <= day_ms off b.
Proof. unfold day_ms. lia. Qed.
Lemma day_ms_succ a : day_ms off (a + 1) = day_ms off a + one_day.
Proof. unfold day_ms, one_day. lia. Qed.

(* ---- the three claims ---- *)
Theorem family_contains t ts : 0 <= ts ->
  family_time off t ts <= ts <= family_end off t (family_time off t ts).
Proof.
  intros H. destruct t.
  - destruct (family_time_day ts H) as (E & Hh & Hr). rewrite E, family_end_day. unfold one_hour in *. lia.
  - rewrite family_time_month by exact H. rewrite family_end_month. pose proof (local_day_range ts H). lia.
  - pose proof (family_time_year ts H) as Hy. pose proof (day_in_month (local_day off ts)) as Hd.
    unfold civil in Hy. destruct (civil_from_days (local_day off ts)) as [[y m] d]. destruct Hy as (E & Hm).
    rewrite E, family_end_year by exact Hm. pose proof (local_day_range ts H) as Hr.
    pose proof (day_ms_mono _ _ (proj1 Hd)). pose proof (day_ms_mono (local_day off ts + 1) (next_month_start y m) ltac:(lia)). lia.
Qed.

Theorem family_idempotent t ts t' : 0 <= ts -> 0 <= t' ->
  family_time off t ts <= t' <= family_end off t (family_time off t ts) ->
  family_time off t t' = family_time off t ts.
Proof.
  intros H H' Hr. destruct t.
  - destruct (family_time_day ts H) as (E & Hh & Hr1). rewrite E, family_end_day in Hr. rewrite E.
    pose proof (local_day_range ts H) as Hd. rewrite day_ms_succ in Hd.
    assert (ED : local_day off t' = local_day off ts).
    { apply local_day_unique; [exact H'|]. rewrite day_ms_succ. unfold one_hour, one_day in *. lia. }
    destruct (family_time_day t' H') as (E' & Hh' & Hr2). rewrite E'. rewrite ED in *.
    assert (Z.quot (t' - day_ms off (local_day off ts)) one_hour = Z.quot (ts - day_ms off (local_day off ts)) one_hour).
    { unfold one_hour in *. rewrite !Z.quot_div_nonneg by lia. lia. }
    rewrite H0. reflexivity.
  - rewrite (family_time_month ts H), family_end_month in Hr.
    rewrite (family_time_month ts H), (family_time_month t' H'). f_equal.
    apply local_day_unique; [exact H'|]. lia.
  - pose proof (family_time_year ts H) as Hy. unfold civil in Hy.
    destruct (civil_from_days (local_day off ts)) as [[y m] d]. destruct Hy as (E & Hm).
    rewrite E in *. rewrite family_end_year in Hr by exact Hm.
    pose proof (local_day_range t' H') as Hd'.
    assert (Hin : days_from_civil y m 1 <= local_day off t' < next_month_start y m).
    { unfold day_ms in *. split; lia. }
    destruct (civil_of_day_in_month y m _ Hm Hin) as (d' & Ec & _).
    pose proof (family_time_year t' H') as Hy'. unfold civil in Hy'. rewrite Ec in Hy'. exact (proj1 Hy').
Qed.

Theorem families_tile t ts : 0 <= ts ->
  let e := family_end off t (family_time off t ts) in
  family_time off t (e + 1) = e + 1.
Proof.
  intros H e. pose proof (family_contains t ts H) as Hc. fold e in Hc.
  assert (He : 0 <= e + 1) by lia. unfold e in *. clear e. destruct t.
  - destruct (family_time_day ts H) as (E & Hh & Hr). rewrite E, family_end_day in *.
    set (D := local_day off ts) in *. set (h := Z.quot (ts - day_ms off D) one_hour) in *.
    replace (day_ms off D + h * one_hour + one_hour - 1 + 1) with (day_ms off D + (h + 1) * one_hour) in * by lia.
    destruct (family_time_day _ He) as (E' & Hh' & Hr').
    destruct (Z.eq_dec h 23) as [E23|N23].
    + assert (ED : local_day off (day_ms off D + (h + 1) * one_hour) = D + 1).
      { apply local_day_unique; [exact He|]. rewrite !day_ms_succ. unfold one_hour, one_day in *. lia. }
      rewrite E', ED. rewrite day_ms_succ. unfold one_hour, one_day in *. rewrite E23.
      replace (day_ms off D + (23 + 1) * 3600000 - (day_ms off D + 86400000)) with 0 by lia. rewrite Z.quot_0_l by lia. lia.
    + assert (ED : local_day off (day_ms off D + (h + 1) * one_hour) = D).
      { apply local_day_unique; [exact He|]. rewrite !day_ms_succ. unfold one_hour, one_day in *. lia. }
      rewrite E', ED.
      replace (day_ms off D + (h + 1) * one_hour - day_ms off D) with ((h + 1) * one_hour) by lia.
      unfold one_hour. rewrite Z.quot_mul by lia. reflexivity.
  - rewrite (family_time_month ts H), family_end_month in *.
    replace (day_ms off (local_day off ts + 1) - 1 + 1) with (day_ms off (local_day off ts + 1)) in * by lia.
    rewrite (family_time_month _ He), local_day_day_ms. reflexivity.
  - pose proof (family_time_year ts H) as Hy. unfold civil in Hy.
    destruct (civil_from_days (local_day off ts)) as [[y m] d]. destruct Hy as (E & Hm).
    rewrite E in *. rewrite family_end_year in * by exact Hm.
    replace (day_ms off (next_month_start y m) - 1 + 1) with (day_ms off (next_month_start y m)) in * by lia.
    pose proof (family_time_year _ He) as Hy'. unfold civil in Hy'. rewrite local_day_day_ms in Hy'.
    assert (En : exists y2 m2, 1 <= m2 <= 12 /\ next_month_start y m = days_from_civil y2 m2 1).
    { unfold next_month_start. destruct (Z.eqb_spec m 12); [exists (y + 1), 1|exists y, (m + 1)]; split; try reflexivity; lia. }
    destruct En as (y2 & m2 & Hm2 & En). rewrite En in *. rewrite (civil_first_of_month y2 m2 Hm2) in Hy'. exact (proj1 Hy').
Qed.

Lemma div_slot a iv : 0 <= a -> 0 < iv -> 0 <= a / iv /\ 0 <= a - a / iv * iv < iv.
Proof.
  intros Ha Hi. pose proof (Z.div_pos a iv Ha Hi). pose proof (Z.mod_pos_bound a iv Hi).
  pose proof (Z.mod_eq a iv ltac:(lia)) as E. set (q := a / iv) in *. set (r := a mod iv) in *.
  clearbody q r. split; [assumption|]. replace (q * iv) with (iv * q) by apply Z.mul_comm. rewrite <- E. assumption.
Qed.

(* slot * interval added to the family start is within one interval below the timestamp *)
Theorem slot_within_interval t ts interval : 0 <= ts -> 0 < interval ->
  let st := family_time off t ts in
  let s := slot t ts st interval in
  0 <= s /\ 0 <= ts - (st + s * interval) < interval.
Proof.
  intros H Hi st s. pose proof (family_contains t ts H) as Hc. fold st in Hc. unfold s, slot. destruct t.
  - unfold st in *. destruct (family_time_day ts H) as (E & Hh & Hr). rewrite E, family_end_day in *.
    rewrite Z.rem_small by (unfold one_hour in *; lia).
    rewrite Z.quot_div_nonneg by lia.
    destruct (div_slot (ts - (day_ms off (local_day off ts) + Z.quot (ts - day_ms off (local_day off ts)) one_hour * one_hour)) interval ltac:(lia) Hi).
    split; [assumption|]. lia.
  - unfold st in *. rewrite (family_time_month ts H) in *. rewrite family_end_month in Hc.
    rewrite day_ms_succ in Hc. rewrite Z.rem_small by (unfold one_day in *; lia).
    rewrite Z.quot_div_nonneg by lia.
    destruct (div_slot (ts - day_ms off (local_day off ts)) interval ltac:(lia) Hi). split; [assumption|]. lia.
  - rewrite Z.quot_div_nonneg by lia.
    destruct (div_slot (ts - st) interval ltac:(lia) Hi). split; [assumption|]. lia.
Qed.
End Zone.

(* ================= planner ================= *)
Lemma best_le_in ivs want : forall acc b, best_le ivs want acc = Some b -> In b ivs \/ acc = Some b.
Proof.
  induction ivs as [|i ivs IH]; intros acc b E; simpl in E; [right; exact E|].
  apply IH in E. destruct E as [E|E]; [left; right; exact E|].
  destruct (i <=? want); [|right; exact E].
  destruct acc as [a|]; [destruct (a <? i)|]; inversion E; subst; simpl; auto.
Qed.

Lemma find_match_in ivs want : ivs <> [] -> In (find_match ivs want) ivs.
Proof.
  intros Hne. unfold find_match. destruct (best_le ivs want None) as [b|] eqn:E.
  - apply best_le_in in E. destruct E as [E|E]; [exact E|discriminate].
  - destruct ivs; [contradiction|left; reflexivity].
Qed.

Lemma truncate_spec ts iv : 0 <= ts -> 0 < iv ->
  truncate ts iv <= ts < truncate ts iv + iv /\ Z.rem (truncate ts iv) iv = 0 /\ 0 <= truncate ts iv.
Proof.
  intros H Hi. unfold truncate. rewrite Z.quot_div_nonneg by lia.
  rewrite Z.rem_mul by lia. destruct (div_slot ts iv H Hi) as (A & B).
  split; [lia|]. split; [reflexivity|]. apply Z.mul_nonneg_nonneg; lia.
Qed.

Lemma interval_ratio_pos q s : 0 < s -> 1 <= interval_ratio q s.
Proof.
  intros Hs. unfold interval_ratio. destruct (s =? 0) eqn:E0; [lia|]. simpl.
  destruct (Z.ltb_spec q s); [lia|]. rewrite Z.quot_div_nonneg by lia. apply Z.div_le_lower_bound; lia.
Qed.

(* the planner: the storage interval is one the database stores; the query interval is a positive whole
   multiple of it; the planned range is aligned to it and contains the slot of every requested timestamp *)
Theorem plan_query_ok ivs start end_ qi auto :
  ivs <> [] -> (forall i, In i ivs -> 0 < i) -> 0 <= start -> start <= end_ ->
  let p := plan_query ivs start end_ qi auto in
  In (p_storage p) ivs /\
  1 <= p_ratio p /\ p_interval p = p_storage p * p_ratio p /\
  Z.rem (p_start p) (p_storage p) = 0 /\ Z.rem (p_end p) (p_storage p) = 0 /\
  (forall t, start <= t <= end_ -> p_start p <= truncate t (p_storage p) <= p_end p).
Proof.
  intros Hne Hpos Hs Hse p. unfold p, plan_query. cbn [p_storage p_ratio p_interval p_start p_end].
  set (st := find_match ivs (calc_query_interval start end_ (if qi <=? 0 then hd 0 ivs else qi))).
  assert (Hin : In st ivs) by (apply find_match_in; exact Hne).
  pose proof (Hpos st Hin) as Hst.
  split; [exact Hin|]. split; [apply interval_ratio_pos; exact Hst|]. split; [reflexivity|].
  destruct (truncate_spec start st Hs Hst) as (A1 & A2 & A3).
  destruct (truncate_spec end_ st ltac:(lia) Hst) as (B1 & B2 & B3).
  split; [exact A2|]. split; [exact B2|].
  intros t Ht. unfold truncate in *. rewrite !Z.quot_div_nonneg in * by lia.
  split; apply Z.mul_le_mono_nonneg_r; try lia; apply Z.div_le_mono; lia.
Qed.

(* non-vacuity *)
Example family_examples :
  (* 2019-07-10 12:34:56.789 UTC = 1562762096789 *)
  (family_time 0 Day 1562762096789, family_end 0 Day (family_time 0 Day 1562762096789),
   family_time 0 Month 1562762096789, family_time 0 Year 1562762096789,
   family_end 0 Year (family_time 0 Year 1562762096789)) =
  (1562760000000, 1562763599999, 1562716800000, 1561939200000, 1564617599999).
Proof. vm_compute. reflexivity. Qed.
