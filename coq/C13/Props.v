(* C13 — property theorems only.  [off] is the (fixed) zone offset in seconds; timestamps are
   non-negative milliseconds (1970 onwards: Go's / and % truncate toward zero). *)
From Coq Require Import ZArith List.
Import ListNotations.
From LinDBV.C13 Require Import Model Proofs.
Open Scope Z_scope.

(* the calendar model inverts itself: every day number decodes to a date that encodes back to it *)
Theorem C13_civil_roundtrip : forall z,
  let '(y, m, d) := civil_from_days z in
  days_from_civil y m d = z /\ 1 <= m <= 12 /\ 1 <= d <= 31.
Proof. exact civil_roundtrip. Qed.
Print Assumptions C13_civil_roundtrip.

(* for each interval type: the family's time range contains the timestamp *)
Theorem C13_family_contains : forall off t ts, 0 <= ts ->
  family_time off t ts <= ts <= family_end off t (family_time off t ts).
Proof. exact family_contains. Qed.
Print Assumptions C13_family_contains.

(* consecutive families tile the axis: the millisecond after a family's end is the start of a family *)
Theorem C13_families_tile : forall off t ts, 0 <= ts ->
  let e := family_end off t (family_time off t ts) in
  family_time off t (e + 1) = e + 1.
Proof. exact families_tile. Qed.
Print Assumptions C13_families_tile.

(* the family computed from any timestamp inside a family is that family *)
Theorem C13_family_idempotent : forall off t ts t', 0 <= ts -> 0 <= t' ->
  family_time off t ts <= t' <= family_end off t (family_time off t ts) ->
  family_time off t t' = family_time off t ts.
Proof. exact family_idempotent. Qed.
Print Assumptions C13_family_idempotent.

(* slot*interval added to the family start is within one interval below the timestamp *)
Theorem C13_slot_within_interval : forall off t ts interval, 0 <= ts -> 0 < interval ->
  let st := family_time off t ts in
  let s := slot t ts st interval in
  0 <= s /\ 0 <= ts - (st + s * interval) < interval.
Proof. exact slot_within_interval. Qed.
Print Assumptions C13_slot_within_interval.

(* the planner picks a stored interval, a query interval that is a positive whole multiple of it,
   and an aligned range containing the slot of every requested timestamp *)
Theorem C13_planner : forall ivs start end_ qi auto,
  ivs <> [] -> (forall i, In i ivs -> 0 < i) -> 0 <= start -> start <= end_ ->
  let p := plan_query ivs start end_ qi auto in
  In (p_storage p) ivs /\
  1 <= p_ratio p /\ p_interval p = p_storage p * p_ratio p /\
  Z.rem (p_start p) (p_storage p) = 0 /\ Z.rem (p_end p) (p_storage p) = 0 /\
  (forall t, start <= t <= end_ -> p_start p <= truncate t (p_storage p) <= p_end p).
Proof. exact plan_query_ok. Qed.
Print Assumptions C13_planner.
