From Coq Require Import List Bool Arith Lia.
Import ListNotations.

(* bit.Writer: bytes already handed to the io.Writer (as their bits) and the partially filled byte *)
Record bw := { out : list bool; cur : list bool }.
Definition stream (w : bw) : list bool := out w ++ cur w.
Definition wf_bw (w : bw) : Prop := length (cur w) < 8 /\ length (out w) mod 8 = 0.
Definition bw0 : bw := {| out := []; cur := [] |}.

Definition write_bit (w : bw) (b : bool) : bw :=
  let c := cur w ++ [b] in
  if length c =? 8 then {| out := out w ++ c; cur := [] |} else {| out := out w; cur := c |}.

(* WriteByte merges the new byte with the pending bits: one full byte goes out, the rest stays *)
Definition write_byte (w : bw) (b8 : list bool) : bw :=
  let c := cur w ++ b8 in {| out := out w ++ firstn 8 c; cur := skipn 8 c |}.

(* WriteBits(u, n): whole bytes first, then bit by bit; [bits] are the n low bits of u, most significant first *)
Fixpoint write_bits_fuel (fuel : nat) (w : bw) (bits : list bool) : bw :=
  match fuel with
  | 0 => w
  | S f =>
    if 8 <=? length bits then write_bits_fuel f (write_byte w (firstn 8 bits)) (skipn 8 bits)
    else fold_left write_bit bits w
  end.
Definition write_bits (w : bw) (bits : list bool) : bw := write_bits_fuel (S (length bits)) w bits.

Definition flush (w : bw) : list bool :=
  match cur w with [] => out w | c => out w ++ c ++ repeat false (8 - length c) end.

