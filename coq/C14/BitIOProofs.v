From Coq Require Import List Bool Arith Lia.
Import ListNotations.
From LinDBV.C14 Require Import BitIO.

(* bit.Writer: bytes already handed to the io.Writer (as their bits) and the partially filled byte *)
Lemma write_bit_ok w b : wf_bw w -> wf_bw (write_bit w b) /\ stream (write_bit w b) = stream w ++ [b].
Proof.
  intros [Hc Ho]. unfold write_bit, stream, wf_bw. rewrite app_length. cbn [length].
  destruct (Nat.eqb_spec (length (cur w) + 1) 8) as [E|E]; cbn [out cur].
  - split; [split; [cbn [length]; lia|]|rewrite app_nil_r, app_assoc; reflexivity].
    rewrite !app_length. cbn [length]. rewrite E. rewrite Nat.add_mod by lia. rewrite Ho. reflexivity.
  - split; [split; [rewrite app_length; cbn [length]; lia|exact Ho]|rewrite app_assoc; reflexivity].
Qed.

Lemma write_bits_bitwise bits : forall w, wf_bw w ->
  wf_bw (fold_left write_bit bits w) /\ stream (fold_left write_bit bits w) = stream w ++ bits.
Proof.
  induction bits as [|b bits IH]; intros w Hw; simpl; [rewrite app_nil_r; auto|].
  destruct (write_bit_ok w b Hw) as [Hw' Hs]. destruct (IH _ Hw') as [H1 H2].
  split; [exact H1|]. rewrite H2, Hs, <- app_assoc. reflexivity.
Qed.

Lemma write_byte_ok w b8 : wf_bw w -> length b8 = 8 ->
  wf_bw (write_byte w b8) /\ stream (write_byte w b8) = stream w ++ b8.
Proof.
  intros [Hc Ho] H8. unfold write_byte, stream, wf_bw. cbn [out cur]. split.
  - split.
    + rewrite skipn_length, app_length. lia.
    + rewrite app_length, firstn_length, app_length, H8. rewrite Nat.min_l by lia.
      rewrite Nat.add_mod by lia. rewrite Ho. reflexivity.
  - rewrite <- app_assoc. rewrite firstn_skipn. rewrite app_assoc. reflexivity.
Qed.

Lemma write_bits_fuel_ok fuel : forall w bits, wf_bw w -> length bits < fuel ->
  wf_bw (write_bits_fuel fuel w bits) /\ stream (write_bits_fuel fuel w bits) = stream w ++ bits.
Proof.
  induction fuel as [|f IH]; intros w bits Hw Hl; [lia|]. cbn [write_bits_fuel].
  destruct (Nat.leb_spec 8 (length bits)).
  - destruct (write_byte_ok w (firstn 8 bits) Hw) as [Hw' Hs]; [rewrite firstn_length; lia|].
    destruct (IH _ (skipn 8 bits) Hw') as [H1 H2]; [rewrite skipn_length; lia|].
    split; [exact H1|]. rewrite H2, Hs, <- app_assoc, firstn_skipn. reflexivity.
  - apply write_bits_bitwise, Hw.
Qed.

Theorem write_bits_ok w bits : wf_bw w -> wf_bw (write_bits w bits) /\ stream (write_bits w bits) = stream w ++ bits.
Proof. intros Hw. apply write_bits_fuel_ok; [exact Hw|lia]. Qed.

(* Flush pads the last byte with zero bits: the bytes handed out start with exactly the bits written *)
Theorem flush_ok w : wf_bw w -> exists pad, flush w = stream w ++ pad /\ length (flush w) mod 8 = 0 /\ forallb negb pad = true.
Proof.
  intros [Hc Ho]. unfold flush, stream. destruct (cur w) as [|b c] eqn:E.
  - exists []. rewrite !app_nil_r. auto.
  - exists (repeat false (8 - length (b :: c))). rewrite app_assoc. split; [reflexivity|]. split.
    + rewrite !app_length, repeat_length.
      replace (length (out w) + length (b :: c) + (8 - length (b :: c))) with (length (out w) + 8) by lia.
      rewrite Nat.add_mod by lia. rewrite Ho. reflexivity.
    + clear. induction (8 - length (b :: c)); simpl; auto.
Qed.

(* a sequence of fields of any widths, written with WriteBits and flushed, starts with their concatenation *)
Theorem fields_roundtrip (fields : list (list bool)) :
  let w := fold_left write_bits fields bw0 in
  exists pad, flush w = concat fields ++ pad /\ length (flush w) mod 8 = 0.
Proof.
  intros w.
  assert (G : forall fs w0, wf_bw w0 -> wf_bw (fold_left write_bits fs w0) /\ stream (fold_left write_bits fs w0) = stream w0 ++ concat fs).
  { induction fs as [|f fs IH]; intros w0 Hw; simpl; [rewrite app_nil_r; auto|].
    destruct (write_bits_ok w0 f Hw) as [H1 H2]. destruct (IH _ H1) as [H3 H4].
    split; [exact H3|]. rewrite H4, H2, <- app_assoc. reflexivity. }
  destruct (G fields bw0) as [Hw Hs]; [split; simpl; [lia|reflexivity]|].
  destruct (flush_ok w Hw) as (pad & Hf & Hm & _). exists pad. split; [|exact Hm].
  rewrite Hf. unfold w. rewrite Hs. reflexivity.
Qed.
