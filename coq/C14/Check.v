From Coq Require Import ZArith List Bool.
Import ListNotations.
From LinDBV.C14 Require Import Xor XorBits Tsd Varint Layout.
Open Scope Z_scope.

Fixpoint zs_eqb (a b : list Z) : bool :=
  match a, b with [], [] => true | x :: a', y :: b' => (x =? y) && zs_eqb a' b' | _, _ => false end.
Definition oz_eqb (a b : option Z) : bool :=
  match a, b with Some x, Some y => x =? y | None, None => true | _, _ => false end.
Fixpoint ozs_eqb (a b : list (option Z)) : bool :=
  match a, b with [], [] => true | x :: a', y :: b' => oz_eqb x y && ozs_eqb a' b' | _, _ => false end.

Definition to_words (l : list (option Z)) : list (option word) := map (option_map (zbits 64)) l.
Definition of_words (l : list (option word)) : list (option Z) := map (option_map bits_z) l.

(* one TSD block: [slots] what was appended (None = empty slot, Some = the float's 64 bits), [bytes] what the
   real encoder returned, [seqread]/[slotread] what the real decoder returned by sequential iteration and by
   GetValue(slot) for ascending slots *)
Definition check_tsd (start : Z) (slots : list (option Z)) (with_time : bool) (bytes : list Z)
           (seqread slotread : list (option Z)) : nat * nat :=
  let ws := to_words slots in
  let model := if with_time then tsd_encode start ws else tsd_encode_without_time ws in
  let back :=
    if with_time then match tsd_decode bytes with Some (s, vs) => (s =? start) && ozs_eqb (of_words vs) slots | None => false end
    else match tsd_dec (length slots) true d0 (unpack bytes) with Some (vs, _) => ozs_eqb (of_words vs) slots | None => false end in
  ((if zs_eqb model bytes && (back || match slots with [] => true | _ => false end) then 0%nat else 1%nat),
   (if ozs_eqb seqread slots && ozs_eqb slotread slots then 0%nat else 1%nat)).

Definition check_delta (init_min : Z) (vs bytes decoded : list Z) : nat * nat :=
  ((if zs_eqb (delta_encode init_min vs) bytes &&
       match delta_decode bytes with Some r => zs_eqb r vs | None => false end then 0%nat else 1%nat),
   (if zs_eqb decoded vs then 0%nat else 1%nat)).

(* fixed offsets: [gets] = decoder.Get(i) for i = 0 .. length vs (the last one must miss),
   [blocks] = GetBlock(i, data of length data_len) as (start, end) *)
Definition check_fo (vs bytes : list Z) (gets : list (option Z)) (data_len : Z) (blocks : list (option (Z * Z))) : nat * nat :=
  let m := fo_unmarshal bytes in
  ((if zs_eqb (fo_encode vs) bytes &&
       match m with
       | Some d => ozs_eqb (map (fo_get d) (seq 0 (S (length vs)))) gets
       | None => match vs with [] => true | _ => false end
       end then 0%nat else 1%nat),
   (if ozs_eqb gets (map Some vs ++ [None]) then 0%nat else 1%nat)).

Definition check_varint (signed : bool) (v : Z) (bytes : list Z) (decoded : Z) : nat * nat :=
  ((if zs_eqb (if signed then put_varint v else put_uvarint v) bytes &&
       match (if signed then read_varint bytes else read_uvarint bytes) with Some (x, []) => x =? v | _ => false end
    then 0%nat else 1%nat),
   (if decoded =? v then 0%nat else 1%nat)).
