From Coq Require Import ZArith Lia List.
Import ListNotations.
Open Scope Z_scope.
Ltac Zify.zify_post_hook ::= Z.div_mod_to_equations.

Definition M := 4294967296.                 (* 2^32 *)
Definition H := 2147483648.                 (* 2^31 *)
Definition i32 (z : Z) : Prop := - H <= z < H.
Definition wrap (z : Z) : Z := (z + H) mod M - H.       (* Go's int32 arithmetic result *)
Definition u32 (z : Z) : Z := z mod M.                  (* uint32(...) conversion *)

Definition enc_delta (prev v mind : Z) : Z := u32 (wrap (wrap (prev - v) - mind)).
Definition dec_delta (prev stored mind : Z) : Z := wrap (prev - wrap (wrap stored + mind)).

Fixpoint encode (prev mind : Z) (vs : list Z) : list Z :=
  match vs with [] => [] | v :: vs' => enc_delta prev v mind :: encode v mind vs' end.
Fixpoint decode (prev mind : Z) (ds : list Z) : list Z :=
  match ds with [] => [] | d :: ds' => let v := dec_delta prev d mind in v :: decode v mind ds' end.

