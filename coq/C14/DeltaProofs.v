From Coq Require Import ZArith Lia List.
Import ListNotations.
Open Scope Z_scope.
Ltac Zify.zify_post_hook ::= Z.div_mod_to_equations.
From LinDBV.C14 Require Import Delta.

Lemma wrap_range z : i32 (wrap z).
Proof. unfold wrap, i32, M, H. lia. Qed.
Lemma wrap_id z : i32 z -> wrap z = z.
Proof. unfold wrap, i32, M, H. lia. Qed.

(* DeltaBitPackingEncoder.Add / Bytes and DeltaBitPackingDecoder.Next for one element:
   delta := previous - v (int32); stored := uint32(delta - minDelta); decoded := previous - (int32(stored) + minDelta) *)
Theorem delta_step prev v mind : i32 prev -> i32 v -> i32 mind ->
  dec_delta prev (enc_delta prev v mind) mind = v.
Proof.
  unfold dec_delta, enc_delta, u32, wrap, i32, M, H. intros Hp Hv Hm. lia.
Qed.

(* whole sequences: the decoder's running previous value equals the encoder's *)
Theorem delta_roundtrip vs : forall first mind, i32 first -> i32 mind -> Forall i32 vs ->
  decode first mind (encode first mind vs) = vs.
Proof.
  induction vs as [|v vs IH]; intros first mind Hf Hm Hall; simpl; [reflexivity|].
  inversion Hall as [|? ? Hv Hvs]; subst. rewrite delta_step by assumption. f_equal. apply IH; assumption.
Qed.

(* the packed width is enough for every stored value: stored < 2^32 always, so width <= 32 bits *)
Lemma stored_u32 prev v mind : 0 <= enc_delta prev v mind < M.
Proof. unfold enc_delta, u32, M. lia. Qed.
