From Coq Require Import ZArith Lia List.
Import ListNotations.
Open Scope Z_scope.
Ltac Zify.zify_post_hook ::= Z.div_mod_to_equations.

(* little-endian bytes of a fixed width (binary.LittleEndian.PutUint32 truncated to width) *)
Fixpoint to_le (w : nat) (v : Z) : list Z :=
  match w with O => [] | S w' => v mod 256 :: to_le w' (v / 256) end.
Fixpoint of_le (bs : list Z) : Z :=
  match bs with [] => 0 | b :: bs' => b + 256 * of_le bs' end.

Definition min_width (v : Z) : nat :=
  if v <? 256 then 1%nat else if v <? 65536 then 2%nat else if v <? 16777216 then 3%nat else 4%nat.

Definition encode (vs : list Z) : nat * list (list Z) :=
  let w := min_width (fold_right Z.max 0 vs) in (w, map (to_le w) vs).
Definition get (e : nat * list (list Z)) (i : nat) : option Z := option_map of_le (nth_error (snd e) i).

