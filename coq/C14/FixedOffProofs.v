From Coq Require Import ZArith Lia List.
Import ListNotations.
Open Scope Z_scope.
Ltac Zify.zify_post_hook ::= Z.div_mod_to_equations.
From LinDBV.C14 Require Import FixedOff.

(* little-endian bytes of a fixed width (binary.LittleEndian.PutUint32 truncated to width) *)
Lemma le_roundtrip w : forall v, 0 <= v < 256 ^ Z.of_nat w -> of_le (to_le w v) = v.
Proof.
  induction w as [|w IH]; intros v Hv.
  - simpl in *. lia.
  - cbn [to_le of_le]. rewrite IH.
    + lia.
    + rewrite Nat2Z.inj_succ, Z.pow_succ_r in Hv by lia. lia.
Qed.

(* encoding.Uint32MinWidth *)
Lemma min_width_fits v : 0 <= v < 4294967296 -> v < 256 ^ Z.of_nat (min_width v).
Proof.
  intros Hv. unfold min_width.
  destruct (Z.ltb_spec v 256); [simpl; lia|].
  destruct (Z.ltb_spec v 65536); [simpl; lia|].
  destruct (Z.ltb_spec v 16777216); simpl; lia.
Qed.

(* FixedOffsetEncoder.MarshalBinary / FixedOffsetDecoder.Get: every offset is stored with the width of the maximum *)
Lemma le_max vs v : In v vs -> v <= fold_right Z.max 0 vs.
Proof. induction vs as [|x vs IH]; simpl; [tauto|]. intros [->|H]; [lia|]. specialize (IH H). lia. Qed.

Lemma pow256_mono a b : (a <= b)%nat -> 256 ^ Z.of_nat a <= 256 ^ Z.of_nat b.
Proof. intros H. apply Z.pow_le_mono_r; lia. Qed.

Lemma min_width_mono a b : 0 <= a <= b -> (min_width a <= min_width b)%nat.
Proof.
  intros H. unfold min_width.
  destruct (Z.ltb_spec a 256), (Z.ltb_spec b 256), (Z.ltb_spec a 65536), (Z.ltb_spec b 65536),
           (Z.ltb_spec a 16777216), (Z.ltb_spec b 16777216); lia.
Qed.

Theorem fixed_offset_roundtrip vs i v :
  (forall x, In x vs -> 0 <= x < 4294967296) -> nth_error vs i = Some v -> get (encode vs) i = Some v.
Proof.
  intros Hr Hi. unfold get, encode. cbn [snd]. rewrite nth_error_map, Hi. cbn [option_map]. f_equal.
  pose proof (nth_error_In _ _ Hi) as Hin. pose proof (Hr v Hin) as Hv.
  apply le_roundtrip. split; [lia|].
  eapply Z.lt_le_trans; [apply (min_width_fits v Hv)|].
  apply pow256_mono, min_width_mono. split; [lia|apply le_max, Hin].
Qed.
