(* C14 — byte layouts of the integer codecs (pkg/encoding/delta_bit_packing.go, fixed_offset.go),
   executable; bytes are Z in [0,256). *)
From Coq Require Import ZArith List Bool.
Import ListNotations.
From LinDBV.C14 Require Import Varint Tsd.
From LinDBV.C14 Require Delta FixedOff.
Open Scope Z_scope.

(* ---------- delta bit packing ---------- *)
Definition wrap := Delta.wrap.
Definition u32 := Delta.u32.

Fixpoint deltas_of (prev : Z) (vs : list Z) : list Z :=
  match vs with [] => [] | v :: vs' => wrap (prev - v) :: deltas_of v vs' end.

(* 32 - LeadingZeros32(max) *)
Definition bitlen (z : Z) : nat := Z.to_nat (Z.log2 z + (if z =? 0 then 0 else 1)).

(* [init_min] is the encoder's minDelta before the first Add: 2147483647 after Reset(), 0 for an
   encoder that was constructed and never reset *)
Definition delta_encode (init_min : Z) (vs : list Z) : list Z :=
  let first := hd 0 vs in
  let deltas := deltas_of first (tl vs) in
  let mind := fold_left (fun m d => if d <? m then d else m) deltas init_min in
  let dd := map (fun d => u32 (wrap (d - mind))) deltas in
  let width := bitlen (fold_left Z.max dd 0) in
  put_varint (Z.of_nat (length deltas)) ++ [Z.of_nat width] ++ put_varint (zigzag mind) ++ put_varint first ++
  pack (flat_map (zbits width) dd).

Fixpoint take_fields (n width : nat) (bits : list bool) : list Z :=
  match n with
  | O => []
  | S n' => bits_z (firstn width bits) :: take_fields n' width (skipn width bits)
  end.
Fixpoint undelta (prev mind : Z) (xs : list Z) : list Z :=
  match xs with
  | [] => []
  | x :: xs' => let v := wrap (prev - wrap (wrap x + mind)) in v :: undelta v mind xs'
  end.
Definition delta_decode (bytes : list Z) : option (list Z) :=
  match read_varint bytes with
  | Some (n, w :: r1) =>
    match read_varint r1 with
    | Some (zm, r2) =>
      match read_varint r2 with
      | Some (first, r3) =>
          let mind := wrap (unzigzag zm) in
          let first := wrap first in
          Some (first :: undelta first mind (take_fields (Z.to_nat n) (Z.to_nat w) (unpack r3)))
      | None => None
      end
    | None => None
    end
  | _ => None
  end.

(* ---------- fixed-width offsets ---------- *)
Definition fo_encode (vs : list Z) : list Z :=
  match vs with
  | [] => []
  | _ => let w := FixedOff.min_width (fold_right Z.max 0 vs) in
         [Z.of_nat w] ++ put_uvarint (Z.of_nat (length vs)) ++ flat_map (FixedOff.to_le w) vs
  end.

Record fo_dec := { fo_width : nat; fo_size : nat; fo_block : list Z; fo_left : list Z }.
Definition fo_unmarshal (bytes : list Z) : option fo_dec :=
  match bytes with
  | w :: r =>
    if (length bytes <? 2)%nat then None else
    if (4 <? w) then None else
    match read_uvarint r with
    | Some (n, r') =>
        let want := (Z.to_nat w * Z.to_nat n)%nat in
        if (length r' <? want)%nat then None
        else Some {| fo_width := Z.to_nat w; fo_size := Z.to_nat n; fo_block := firstn want r'; fo_left := skipn want r' |}
    | None => None
    end
  | [] => None
  end.
Definition fo_get (d : fo_dec) (i : nat) : option Z :=
  let start := (i * fo_width d)%nat in
  if (length (fo_block d) =? 0)%nat || (length (fo_block d) <=? start)%nat then None
  else if (length (fo_block d) <? start + fo_width d)%nat then None
  else Some (FixedOff.of_le (firstn (fo_width d) (skipn start (fo_block d)))).
(* GetBlock(i, data): bytes between offset i and offset i+1 (or the end of data) *)
Definition fo_get_block (d : fo_dec) (i : nat) (data_len : Z) : option (Z * Z) :=
  match fo_get d i with
  | None => None
  | Some s =>
      let e := match fo_get d (S i) with Some e => e | None => data_len end in
      if (e <? s) || (data_len <? e) then None else Some (s, e)
  end.
