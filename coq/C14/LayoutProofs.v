From Coq Require Import ZArith Lia List Bool Arith.
Import ListNotations.
From LinDBV.C14 Require Import XorProofs Varint VarintProofs Tsd TsdProofs Layout.
From LinDBV.C14 Require FixedOff FixedOffProofs Delta DeltaProofs.
Open Scope Z_scope.

(* ---------- lists of fixed-size chunks ---------- *)
Lemma chunks_length {A B} (f : A -> list B) (w : nat) (l : list A) :
  (forall x, In x l -> length (f x) = w) -> length (flat_map f l) = (w * length l)%nat.
Proof.
  induction l as [|x l IH]; intros H; simpl; [lia|].
  rewrite app_length, (H x (or_introl eq_refl)), IH by (intros; apply H; now right). lia.
Qed.

Lemma chunks_nth {A B} (f : A -> list B) (w : nat) (l : list A) (rest : list B) :
  (forall x, In x l -> length (f x) = w) ->
  forall i x, nth_error l i = Some x -> firstn w (skipn (i * w) (flat_map f l ++ rest)) = f x.
Proof.
  intros H. induction l as [|y l IH]; intros i x Hi; [destruct i; discriminate|].
  cbn [flat_map]. destruct i as [|i].
  - inversion Hi; subst. simpl. rewrite <- app_assoc.
    rewrite <- (H x (or_introl eq_refl)) at 1. rewrite firstn_app, firstn_all, Nat.sub_diag. simpl. apply app_nil_r.
  - simpl in Hi. replace (S i * w)%nat with (length (f y) + i * w)%nat by (rewrite (H y (or_introl eq_refl)); lia).
    rewrite <- app_assoc. rewrite Nat.add_comm, <- my_skipn_skipn.
    rewrite skipn_app, skipn_all, Nat.sub_diag. simpl. apply IH; [intros; apply H; now right|exact Hi].
Qed.

(* ---------- fixed-width offsets, byte level ---------- *)
Lemma to_le_length w v : length (FixedOff.to_le w v) = w.
Proof. revert v; induction w as [|w IH]; intros v; simpl; [reflexivity|]. now rewrite IH. Qed.

Lemma put_uvarint_nonempty z : (1 <= length (put_uvarint z))%nat.
Proof. unfold put_uvarint. cbn [uvarint_enc]. destruct (z <? 128); simpl; lia. Qed.

Lemma min_width_range v : (1 <= FixedOff.min_width v <= 4)%nat.
Proof. unfold FixedOff.min_width. destruct (v <? 256), (v <? 65536), (v <? 16777216); lia. Qed.

Theorem fo_roundtrip vs rest :
  vs <> [] -> (forall x, In x vs -> 0 <= x < 4294967296) -> Z.of_nat (length vs) < 2 ^ 64 ->
  exists d, fo_unmarshal (fo_encode vs ++ rest) = Some d /\ fo_left d = rest /\ fo_size d = length vs /\
            (forall i v, nth_error vs i = Some v -> fo_get d i = Some v) /\
            fo_get d (length vs) = None.
Proof.
  intros Hne Hr Hn. unfold fo_encode. destruct vs as [|v0 vs']; [contradiction|].
  set (vs := v0 :: vs') in *. set (w := FixedOff.min_width (fold_right Z.max 0 vs)).
  pose proof (min_width_range (fold_right Z.max 0 vs)) as Hw. fold w in Hw.
  set (body := flat_map (FixedOff.to_le w) vs).
  assert (Hbl : length body = (w * length vs)%nat) by (apply chunks_length; intros; apply to_le_length).
  cbn [app]. unfold fo_unmarshal.
  assert (Hlen2 : (length (Z.of_nat w :: (put_uvarint (Z.of_nat (length vs)) ++ body) ++ rest) <? 2)%nat = false).
  { apply Nat.ltb_ge. cbn [length]. rewrite !app_length. pose proof (put_uvarint_nonempty (Z.of_nat (length vs))). lia. }
  rewrite Hlen2. destruct (Z.ltb_spec 4 (Z.of_nat w)); [lia|].
  rewrite <- app_assoc. rewrite uvarint_roundtrip by lia.
  rewrite !Nat2Z.id. rewrite app_length, <- Hbl.
  destruct (Nat.ltb_spec (length body + length rest) (length body)); [lia|].
  eexists. split; [reflexivity|]. cbn [fo_left fo_size fo_width fo_block].
  rewrite firstn_app, firstn_all, Nat.sub_diag, skipn_app, skipn_all, Nat.sub_diag. simpl firstn. simpl skipn.
  rewrite app_nil_r. split; [reflexivity|]. split; [reflexivity|]. split.
  - intros i v Hi. unfold fo_get. cbn [fo_block fo_width].
    assert (Hil : (i < length vs)%nat) by (apply nth_error_Some; congruence).
    assert (Hb0 : (length body =? 0)%nat = false) by (apply Nat.eqb_neq; rewrite Hbl; unfold vs; simpl length; nia).
    rewrite Hb0. cbn [orb].
    destruct (Nat.leb_spec (length body) (i * w)); [rewrite Hbl in *; nia|].
    destruct (Nat.ltb_spec (length body) (i * w + w)); [rewrite Hbl in *; nia|].
    pose proof (chunks_nth (FixedOff.to_le w) w vs [] (fun x _ => to_le_length w x) i v Hi) as Hc.
    rewrite app_nil_r in Hc. fold body in Hc. rewrite Hc. f_equal.
    apply FixedOffProofs.le_roundtrip. pose proof (Hr v (nth_error_In _ _ Hi)) as Hv. split; [lia|].
    eapply Z.lt_le_trans; [apply (FixedOffProofs.min_width_fits v Hv)|].
    apply FixedOffProofs.pow256_mono. apply FixedOffProofs.min_width_mono. split; [lia|].
    apply FixedOffProofs.le_max. eapply nth_error_In; eauto.
  - unfold fo_get. cbn [fo_block fo_width].
    destruct (Nat.leb_spec (length body) (length vs * w)); [rewrite orb_true_r; reflexivity|rewrite Hbl in *; nia].
Qed.

(* ---------- fixed-width bit fields ---------- *)
Lemma zbits_succ w z : zbits (S w) z = Z.testbit z (Z.of_nat w) :: zbits w z.
Proof. unfold zbits. rewrite seq_S, rev_app_distr. reflexivity. Qed.
Lemma zbits_length w z : length (zbits w z) = w.
Proof. unfold zbits. now rewrite map_length, rev_length, seq_length. Qed.

Lemma byte_of_acc l : forall acc,
  fold_left (fun (a : Z) (x : bool) => 2 * a + (if x then 1 else 0)) l acc =
  acc * 2 ^ Z.of_nat (length l) + fold_left (fun (a : Z) (x : bool) => 2 * a + (if x then 1 else 0)) l 0.
Proof.
  induction l as [|b l IH]; intros acc; cbn [fold_left length]; [simpl; lia|].
  rewrite IH. rewrite (IH (2 * 0 + _)). rewrite Nat2Z.inj_succ, Z.pow_succ_r by lia. lia.
Qed.

Lemma bits_z_zbits w : forall z, 0 <= z -> bits_z (zbits w z) = z mod 2 ^ Z.of_nat w.
Proof.
  induction w as [|w IH]; intros z Hz.
  - simpl. now rewrite Z.mod_1_r.
  - rewrite zbits_succ. unfold bits_z, byte_of in *. cbn [fold_left]. rewrite byte_of_acc, IH, zbits_length by exact Hz.
    rewrite Nat2Z.inj_succ, Z.pow_succ_r by lia.
    replace (2 * 2 ^ Z.of_nat w) with (2 ^ Z.of_nat w * 2) by lia. rewrite Z.rem_mul_r by lia.
    destruct (Z.testbit z (Z.of_nat w)) eqn:E.
    + apply Z.testbit_true in E; [|lia]. rewrite E. lia.
    + apply Z.testbit_false in E; [|lia]. rewrite E. lia.
Qed.

Lemma firstn_len_app {A} (a b : list A) n : n = length a -> firstn n (a ++ b) = a.
Proof. intros ->. rewrite firstn_app, firstn_all, Nat.sub_diag. simpl. apply app_nil_r. Qed.
Lemma skipn_len_app {A} (a b : list A) n : n = length a -> skipn n (a ++ b) = b.
Proof. intros ->. rewrite skipn_app, skipn_all, Nat.sub_diag. reflexivity. Qed.

Lemma take_fields_ok w dd pad : (forall d, In d dd -> 0 <= d < 2 ^ Z.of_nat w) ->
  take_fields (length dd) w (flat_map (zbits w) dd ++ pad) = dd.
Proof.
  induction dd as [|d dd IH]; intros H; [reflexivity|].
  cbn [length take_fields flat_map]. rewrite <- app_assoc.
  rewrite (firstn_len_app (zbits w d)), (skipn_len_app (zbits w d)) by (symmetry; apply zbits_length).
  pose proof (H d (or_introl eq_refl)) as Hd.
  rewrite bits_z_zbits, Z.mod_small by lia. f_equal. apply IH. intros; apply H; now right.
Qed.

Lemma bitlen_bound z : 0 <= z -> z < 2 ^ Z.of_nat (bitlen z).
Proof.
  intros Hz. unfold bitlen. destruct (Z.eqb_spec z 0) as [->|Hne]; [simpl; lia|].
  pose proof (Z.log2_spec z ltac:(lia)) as [_ Hs]. pose proof (Z.log2_nonneg z).
  rewrite Z2Nat.id by lia. replace (Z.log2 z + 1) with (Z.succ (Z.log2 z)) by lia. exact Hs.
Qed.

Lemma fold_max_ge l : forall acc, acc <= fold_left Z.max l acc /\ forall x, In x l -> x <= fold_left Z.max l acc.
Proof.
  induction l as [|y l IH]; intros acc; simpl; [split; [lia|intros ? []]|].
  destruct (IH (Z.max acc y)) as [A B]. split; [lia|]. intros x [->|Hx]; [lia|apply B; exact Hx].
Qed.

(* ---------- delta bit packing, byte level ---------- *)
Definition i32 := Delta.i32.

Lemma wrap_i32 z : i32 (wrap z).
Proof. apply DeltaProofs.wrap_range. Qed.
Lemma wrap_id z : i32 z -> wrap z = z.
Proof. apply DeltaProofs.wrap_id. Qed.

Lemma deltas_i32 vs : forall prev, Forall i32 (deltas_of prev vs).
Proof. induction vs as [|v vs IH]; intros prev; simpl; constructor; [apply wrap_i32|apply IH]. Qed.

Lemma deltas_length vs : forall prev, length (deltas_of prev vs) = length vs.
Proof. induction vs as [|v vs IH]; intros prev; simpl; [reflexivity|]. now rewrite IH. Qed.

Lemma fold_min_i32 l : forall acc, i32 acc -> Forall i32 l -> i32 (fold_left (fun m d => if d <? m then d else m) l acc).
Proof.
  induction l as [|d l IH]; intros acc Ha Hl; simpl; [exact Ha|].
  inversion Hl as [|? ? Hd Hl']; subst. apply IH; [|exact Hl']. destruct (d <? acc); assumption.
Qed.

Lemma dd_is_encode mind vs : forall prev,
  map (fun d => u32 (wrap (d - mind))) (deltas_of prev vs) = Delta.encode prev mind vs.
Proof. induction vs as [|v vs IH]; intros prev; simpl; [reflexivity|]. f_equal. apply IH. Qed.
Lemma undelta_is_decode mind xs : forall prev, undelta prev mind xs = Delta.decode prev mind xs.
Proof. induction xs as [|x xs IH]; intros prev; cbn [undelta Delta.decode]; [reflexivity|]. rewrite IH. reflexivity. Qed.

Lemma u32_range z : 0 <= u32 z < 4294967296.
Proof. unfold u32, Delta.u32, Delta.M. apply Z.mod_pos_bound. lia. Qed.

Theorem delta_bytes_roundtrip init vs :
  vs <> [] -> Forall i32 vs -> i32 init -> Z.of_nat (length vs) < 2 ^ 31 ->
  delta_decode (delta_encode init vs) = Some vs.
Proof.
  intros Hne Hall Hinit Hlen. destruct vs as [|first vs']; [contradiction|].
  inversion Hall as [|? ? Hfirst Hvs']; subst.
  unfold delta_encode. cbn [hd tl].
  set (deltas := deltas_of first vs').
  set (mind := fold_left (fun m d => if d <? m then d else m) deltas init).
  assert (Hmind : i32 mind) by (apply fold_min_i32; [exact Hinit|apply deltas_i32]).
  set (dd := map (fun d => u32 (wrap (d - mind))) deltas).
  set (width := bitlen (fold_left Z.max dd 0)).
  assert (Hdd : forall d, In d dd -> 0 <= d < 2 ^ Z.of_nat width).
  { intros d Hd. assert (0 <= d < 4294967296).
    { unfold dd in Hd. apply in_map_iff in Hd as (x & <- & _). apply u32_range. }
    split; [lia|]. destruct (fold_max_ge dd 0) as [H0 Hx].
    eapply Z.le_lt_trans; [apply (Hx d Hd)|]. apply bitlen_bound. lia. }
  assert (Hlendd : length dd = length vs') .
  { unfold dd, deltas. rewrite map_length. clear. revert first. induction vs'; intros; simpl; auto. }
  unfold delta_decode.
  assert (Hi32 : forall z, i32 z -> - 2 ^ 63 <= z < 2 ^ 63) by (unfold i32, Delta.i32, Delta.H; change (2 ^ 63) with 9223372036854775808; intros; lia).
  assert (Hld : length deltas = length vs') by apply deltas_length.
  change (2 ^ 31) with 2147483648 in Hlen. simpl length in Hlen.
  rewrite varint_roundtrip by (change (2 ^ 63) with 9223372036854775808; lia). cbn [app].
  rewrite varint_roundtrip.
  2:{ pose proof (zigzag_nonneg mind). unfold zigzag in *. unfold i32, Delta.i32, Delta.H in Hmind.
      change (2 ^ 63) with 9223372036854775808. destruct (0 <=? mind); lia. }
  rewrite varint_roundtrip by (apply Hi32; exact Hfirst).
  rewrite zigzag_roundtrip, (wrap_id mind Hmind), (wrap_id first Hfirst).
  destruct (unpack_pack (flat_map (zbits width) dd)) as (k & _ & E). rewrite E.
  rewrite !Nat2Z.id. replace (length deltas) with (length dd) by (unfold dd; now rewrite map_length).
  rewrite take_fields_ok by exact Hdd.
  rewrite undelta_is_decode. unfold dd, deltas. rewrite dd_is_encode.
  rewrite DeltaProofs.delta_roundtrip by assumption. reflexivity.
Qed.

Example delta_example :
  delta_decode (delta_encode 2147483647 [100; 103; 101; 2147483647; -2147483648]) = Some [100; 103; 101; 2147483647; -2147483648].
Proof. vm_compute. reflexivity. Qed.
Example fo_example :
  fo_encode [0; 5; 300] = [2; 3; 0; 0; 5; 0; 44; 1].
Proof. vm_compute. reflexivity. Qed.
