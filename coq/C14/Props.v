(* C14 — property theorems only. *)
From Coq Require Import List Bool Arith ZArith.
Import ListNotations.
Open Scope nat_scope.
From LinDBV.C14 Require Import Xor XorProofs XorBits XorBitsProofs BitIO BitIOProofs Tsd TsdProofs
                               Varint VarintProofs Layout LayoutProofs.
Open Scope nat_scope.

(* float XOR codec, value level: every sequence of 64-bit words (all IEEE-754 patterns are just words) *)
Theorem C14_xor_roundtrip : forall vs, Forall wf vs -> dec d0 (enc e0 vs) = vs.
Proof. exact xor_roundtrip. Qed.
Print Assumptions C14_xor_roundtrip.

(* float XOR codec, bit level: decoding from the bit stream returns the words and leaves the rest untouched *)
Theorem C14_xor_bits_roundtrip : forall vs rest, Forall wf vs ->
  dec_all (length vs) true d0 (ser (enc e0 vs) ++ rest) = Some (vs, rest).
Proof. exact xor_bits_roundtrip. Qed.
Print Assumptions C14_xor_bits_roundtrip.

(* bit.Writer as a state machine appends exactly the bits written; Flush pads with zero bits to a byte boundary *)
Theorem C14_bit_writer :
  (forall w bits, wf_bw w -> wf_bw (write_bits w bits) /\ stream (write_bits w bits) = stream w ++ bits) /\
  (forall w, wf_bw w -> exists pad, flush w = stream w ++ pad /\ length (flush w) mod 8 = 0 /\ forallb negb pad = true).
Proof. exact (conj write_bits_ok flush_ok). Qed.
Print Assumptions C14_bit_writer.

(* time-series block: every slot pattern (empty, dense, sparse) and every word sequence, bit level ... *)
Theorem C14_tsd_bits_roundtrip : forall slots rest, Forall owf slots ->
  tsd_dec (length slots) true d0 (tsd_bits e0 slots ++ rest) = Some (slots, rest).
Proof. exact tsd_bits_roundtrip. Qed.
Print Assumptions C14_tsd_bits_roundtrip.

(* ... and byte level, header included *)
Theorem C14_tsd_roundtrip : forall start slots, slots <> [] -> Forall owf slots ->
  (0 <= start)%Z -> (start + Z.of_nat (length slots) <= 65536)%Z -> (Z.of_nat (length slots) <= 65535)%Z ->
  tsd_decode (tsd_encode start slots) = Some (start, slots).
Proof. exact tsd_roundtrip. Qed.
Print Assumptions C14_tsd_roundtrip.

(* varints and zig-zag *)
Theorem C14_varint_roundtrip :
  (forall z rest, (0 <= z < 2 ^ 64)%Z -> read_uvarint (put_uvarint z ++ rest) = Some (z, rest)) /\
  (forall x rest, (- 2 ^ 63 <= x < 2 ^ 63)%Z -> read_varint (put_varint x ++ rest) = Some (x, rest)) /\
  (forall x, unzigzag (zigzag x) = x).
Proof. exact (conj uvarint_roundtrip (conj varint_roundtrip zigzag_roundtrip)). Qed.
Print Assumptions C14_varint_roundtrip.

(* delta bit packing, byte level, with int32 wrap-around, for a reset or a never-reset encoder *)
Theorem C14_delta_roundtrip : forall init vs,
  vs <> [] -> Forall i32 vs -> i32 init -> (Z.of_nat (length vs) < 2 ^ 31)%Z ->
  delta_decode (delta_encode init vs) = Some vs.
Proof. exact delta_bytes_roundtrip. Qed.
Print Assumptions C14_delta_roundtrip.

(* fixed-width offset table, byte level: every offset below 2^32 is read back, the index past the end misses,
   and the bytes after the table are returned untouched *)
Theorem C14_fixed_offset_roundtrip : forall vs rest,
  vs <> [] -> (forall x, In x vs -> (0 <= x < 4294967296)%Z) -> (Z.of_nat (length vs) < 2 ^ 64)%Z ->
  exists d, fo_unmarshal (fo_encode vs ++ rest) = Some d /\ fo_left d = rest /\ fo_size d = length vs /\
            (forall i v, nth_error vs i = Some v -> fo_get d i = Some v) /\
            fo_get d (length vs) = None.
Proof. exact fo_roundtrip. Qed.
Print Assumptions C14_fixed_offset_roundtrip.
