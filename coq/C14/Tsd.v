(* C14 — time-series block (pkg/encoding/tsd.go): per slot one bit, set slots followed by the
   XOR-compressed value; header = first and last slot (uint16 little endian); bits packed
   most-significant-first into bytes, zero padded (bit.Writer.Flush). *)
From Coq Require Import List Bool Arith ZArith.
Import ListNotations.
From LinDBV.C14 Require Import Xor XorBits.

(* ---- bit level ---- *)
Fixpoint tsd_bits (e : est) (slots : list (option word)) : list bool :=
  match slots with
  | [] => []
  | None :: r => false :: tsd_bits e r
  | Some v :: r => let '(e', t) := enc1 e v in true :: ser_tok t ++ tsd_bits e' r
  end.

(* TSDDecoder: Next / HasValue / Value over n slots *)
Fixpoint tsd_dec (n : nat) (first : bool) (d : dst) (bits : list bool) : option (list (option word) * list bool) :=
  match n with
  | 0 => Some ([], bits)
  | S n' =>
    match bits with
    | false :: r => match tsd_dec n' first d r with Some (vs, r') => Some (None :: vs, r') | None => None end
    | true :: r =>
      match dnext first d r with
      | Some (d', r1) => match tsd_dec n' false d' r1 with Some (vs, r') => Some (Some (d_val d') :: vs, r') | None => None end
      | None => None
      end
    | [] => None
    end
  end.

(* ---- bytes ---- *)
Definition byte_of (b : list bool) : Z :=
  fold_left (fun (acc : Z) (x : bool) => (2 * acc + (if x then 1 else 0))%Z) b 0%Z.
Definition bits_of_byte (z : Z) : list bool :=
  map (fun i => Z.testbit z (Z.of_nat i)) [7; 6; 5; 4; 3; 2; 1; 0].

Fixpoint pack_fuel (fuel : nat) (bits : list bool) : list Z :=
  match fuel with
  | O => []
  | S f =>
    match bits with
    | [] => []
    | _ => let chunk := firstn 8 bits in
           byte_of (chunk ++ repeat false (8 - length chunk)) :: pack_fuel f (skipn 8 bits)
    end
  end.
Definition pack (bits : list bool) : list Z := pack_fuel (S (length bits)) bits.
Definition unpack (bytes : list Z) : list bool := flat_map bits_of_byte bytes.

(* 64-bit words <-> Z, most significant bit first *)
Definition zbits (w : nat) (z : Z) : list bool := map (fun i => Z.testbit z (Z.of_nat i)) (rev (seq 0 w)).
Definition bits_z (l : list bool) : Z := byte_of l.

Definition le16 (z : Z) : list Z := [z mod 256; (z / 256) mod 256]%Z.

(* TSDEncoder.Bytes: nil for an empty block *)
Definition tsd_encode (start : Z) (slots : list (option word)) : list Z :=
  match slots with
  | [] => []
  | _ => le16 start ++ le16 ((start + Z.of_nat (length slots) - 1) mod 65536) ++ pack (tsd_bits e0 slots)
  end.
Definition tsd_encode_without_time (slots : list (option word)) : list Z := pack (tsd_bits e0 slots).

(* TSDDecoder.Reset + sequential iteration *)
Definition tsd_decode (bytes : list Z) : option (Z * list (option word)) :=
  match bytes with
  | s0 :: s1 :: e0' :: e1 :: body =>
      let start := (s0 + 256 * s1)%Z in let end_ := (e0' + 256 * e1)%Z in
      if (end_ <? start)%Z then Some (start, [])
      else match tsd_dec (Z.to_nat (end_ - start + 1)) true d0 (unpack body) with
           | Some (vs, _) => Some (start, vs)
           | None => None
           end
  | _ => None
  end.
