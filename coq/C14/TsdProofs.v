From Coq Require Import List Bool Arith ZArith Lia.
Import ListNotations.
From LinDBV.C14 Require Import Xor XorProofs XorBits XorBitsProofs Tsd.

Definition owf (o : option word) : Prop := match o with Some v => wf v | None => True end.

(* the sequential decoder undoes the encoder on every slot pattern (empty, dense, sparse) and every
   sequence of 64-bit words, whatever follows in the stream *)
Theorem tsd_bits_roundtrip_from slots : forall e d rest, Forall owf slots ->
  (e_first e = true /\ d_lead d = e_lead e /\ d_trail d = e_trail e /\ e_lead e + e_trail e <= W) \/ R e d ->
  tsd_dec (length slots) (e_first e) d (tsd_bits e slots ++ rest) = Some (slots, rest).
Proof.
  induction slots as [|o slots IH]; intros e d rest Hall Hinv; [reflexivity|].
  inversion Hall as [|? ? Ho Hos]; subst. destruct o as [v|].
  - cbn [length tsd_bits].
    pose proof (bit_step e d v (tsd_bits (fst (enc1 e v)) slots ++ rest) Ho) as Hb.
    assert (Hpre : e_first e = true \/ R e d) by (destruct Hinv as [(H & _)|H]; auto).
    specialize (Hb Hpre).
    destruct (enc1 e v) as [e' t] eqn:Ee. cbn [fst] in Hb.
    cbn [app tsd_dec]. rewrite <- app_assoc, Hb.
    assert (HR : R e' (dec1 d t) /\ d_val (dec1 d t) = v).
    { destruct Hinv as [(Hf & Hl & Ht & Hs)|HR].
      - pose proof (enc_first_step e v Hf Ho Hs d Hl Ht) as H. rewrite Ee in H. exact H.
      - pose proof (step_sim e d v HR Ho) as H. rewrite Ee in H. exact H. }
    destruct HR as [HR Hval].
    assert (Hf' : e_first e' = false) by (destruct HR as (Hf' & _); exact Hf').
    specialize (IH e' (dec1 d t) rest Hos (or_intror HR)). rewrite Hf' in IH. rewrite IH, Hval. reflexivity.
  - cbn [length tsd_bits app tsd_dec]. rewrite (IH e d rest Hos Hinv). reflexivity.
Qed.

Theorem tsd_bits_roundtrip slots rest : Forall owf slots ->
  tsd_dec (length slots) true d0 (tsd_bits e0 slots ++ rest) = Some (slots, rest).
Proof.
  intros H. apply (tsd_bits_roundtrip_from slots e0 d0 rest H). left. simpl. repeat split; auto. unfold W. lia.
Qed.

(* ---- bytes ---- *)
Lemma byte_roundtrip b : length b = 8 -> bits_of_byte (byte_of b) = b.
Proof.
  intros H. do 8 (destruct b as [|? b]; [discriminate|]). destruct b; [|discriminate].
  repeat match goal with x : bool |- _ => destruct x end; reflexivity.
Qed.

Lemma unpack_pack_fuel fuel : forall bits, length bits < fuel ->
  exists k, k < 8 /\ unpack (pack_fuel fuel bits) = bits ++ repeat false k.
Proof.
  induction fuel as [|f IH]; intros bits Hl; [lia|].
  destruct bits as [|b bits]; [exists 0; split; [lia|reflexivity]|].
  cbn [pack_fuel]. set (l := b :: bits) in *.
  destruct (le_lt_dec 8 (length l)) as [Hge|Hlt].
  - assert (Hc : length (firstn 8 l) = 8) by (rewrite firstn_length; lia).
    rewrite Hc. cbn [Nat.sub repeat]. rewrite app_nil_r.
    destruct (IH (skipn 8 l)) as (k & Hk & E); [rewrite skipn_length; lia|].
    exists k. split; [exact Hk|]. unfold unpack in *. cbn [flat_map]. rewrite E, byte_roundtrip by exact Hc.
    rewrite app_assoc, firstn_skipn. reflexivity.
  - assert (Hc : firstn 8 l = l) by (apply firstn_all2; lia). rewrite Hc.
    assert (Hs : skipn 8 l = []) by (apply skipn_all2; lia). rewrite Hs.
    assert (Hl1 : 1 <= length l) by (unfold l; simpl; lia).
    exists (8 - length l). split; [lia|].
    unfold unpack. cbn [flat_map]. destruct f; [lia|]. cbn [pack_fuel flat_map].
    rewrite app_nil_r, byte_roundtrip; [reflexivity|]. rewrite app_length, repeat_length. lia.
Qed.

Theorem unpack_pack bits : exists k, k < 8 /\ unpack (pack bits) = bits ++ repeat false k.
Proof. apply unpack_pack_fuel. lia. Qed.

Lemma le16_roundtrip z : (0 <= z < 65536)%Z ->
  match le16 z with [a; b] => (a + 256 * b)%Z = z | _ => False end.
Proof. intros H. unfold le16. pose proof (Z.div_mod z 256 ltac:(lia)). 
  assert (z / 256 < 256)%Z by (apply Z.div_lt_upper_bound; lia).
  assert (0 <= z / 256)%Z by (apply Z.div_pos; lia).
  rewrite (Z.mod_small (z / 256) 256) by lia. lia. Qed.

(* the whole block: header + packed bits decode back to the start slot and the slot/value list *)
Theorem tsd_roundtrip start slots : slots <> [] -> Forall owf slots ->
  (0 <= start)%Z -> (start + Z.of_nat (length slots) <= 65536)%Z -> (Z.of_nat (length slots) <= 65535)%Z ->
  tsd_decode (tsd_encode start slots) = Some (start, slots).
Proof.
  intros Hne Hall Hs Hlen _. unfold tsd_encode. destruct slots as [|o slots]; [contradiction|].
  set (sl := o :: slots) in *. set (n := Z.of_nat (length sl)) in *.
  assert (Hn : (1 <= n)%Z) by (unfold n, sl; simpl length; lia).
  rewrite (Z.mod_small (start + n - 1) 65536) by lia.
  pose proof (le16_roundtrip start ltac:(lia)) as H1.
  pose proof (le16_roundtrip (start + n - 1)%Z ltac:(lia)) as H2.
  unfold le16 in *. cbn [app tsd_decode]. rewrite H1, H2.
  destruct (Z.ltb_spec (start + n - 1) start); [lia|].
  replace (Z.to_nat (start + n - 1 - start + 1)) with (length sl) by (unfold n; lia).
  destruct (unpack_pack (tsd_bits e0 sl)) as (k & _ & E). rewrite E.
  rewrite (tsd_bits_roundtrip sl _ Hall). reflexivity.
Qed.

Example tsd_example :
  let w1 := zbits 64 4607182418800017408 in   (* 1.0 *)
  let w2 := zbits 64 4611686018427387904 in   (* 2.0 *)
  tsd_decode (tsd_encode 10 [Some w1; None; Some w1; Some w2]) = Some (10%Z, [Some w1; None; Some w1; Some w2]).
Proof. vm_compute. reflexivity. Qed.
