(* C14 — unsigned/signed varints (encoding/binary PutUvarint / PutVarint, pkg/stream readUvarint /
   readVarint) and zig-zag (pkg/encoding ZigZagEncode/Decode) over Z.  Bytes are Z in [0,256). *)
From Coq Require Import ZArith List.
Import ListNotations.
Open Scope Z_scope.

(* PutUvarint: 7 bits per byte, least significant group first, high bit = "more" *)
Fixpoint uvarint_enc (fuel : nat) (z : Z) : list Z :=
  match fuel with
  | O => []
  | S f => if z <? 128 then [z] else (z mod 128 + 128) :: uvarint_enc f (z / 128)
  end.
Definition put_uvarint (z : Z) : list Z := uvarint_enc 10 z.

(* readUvarint: returns the value and the remaining bytes; None on truncated input / overflow *)
Fixpoint uvarint_dec (fuel : nat) (shift : Z) (acc : Z) (bs : list Z) : option (Z * list Z) :=
  match fuel, bs with
  | S f, b :: bs' =>
      if b <? 128 then Some (acc + b * 2 ^ shift, bs')
      else uvarint_dec f (shift + 7) (acc + (b - 128) * 2 ^ shift) bs'
  | _, _ => None
  end.
Definition read_uvarint (bs : list Z) : option (Z * list Z) := uvarint_dec 10 0 0 bs.

(* zig-zag on mathematical integers: 0,-1,1,-2,... -> 0,1,2,3,... *)
Definition zigzag (x : Z) : Z := if 0 <=? x then 2 * x else - 2 * x - 1.
Definition unzigzag (u : Z) : Z := if Z.even u then u / 2 else - ((u + 1) / 2).

Definition put_varint (x : Z) : list Z := put_uvarint (zigzag x).
Definition read_varint (bs : list Z) : option (Z * list Z) :=
  match read_uvarint bs with Some (u, r) => Some (unzigzag u, r) | None => None end.
