From Coq Require Import ZArith List Lia.
Import ListNotations.
From LinDBV.C14 Require Import Varint.
Open Scope Z_scope.
Ltac Zify.zify_post_hook ::= Z.div_mod_to_equations.

Lemma zigzag_roundtrip x : unzigzag (zigzag x) = x.
Proof.
  unfold zigzag, unzigzag. destruct (Z.leb_spec 0 x).
  - rewrite Z.even_mul. change (Z.even 2) with true. cbn [orb]. rewrite Z.mul_comm, Z.div_mul by lia. reflexivity.
  - replace (Z.even (-2 * x - 1)) with (Z.even (1 + 2 * (- x - 1))) by (f_equal; lia).
    rewrite Z.even_add_mul_2. change (Z.even 1) with false. cbv iota. lia.
Qed.
Lemma zigzag_nonneg x : 0 <= zigzag x.
Proof. unfold zigzag. destruct (Z.leb_spec 0 x); lia. Qed.
Lemma zigzag_bound x : - 2 ^ 63 <= x < 2 ^ 63 -> zigzag x < 2 ^ 64.
Proof. unfold zigzag. destruct (Z.leb_spec 0 x); lia. Qed.

(* decoding the encoding of z, continued from an accumulator at bit position [shift] *)
Lemma uvarint_roundtrip_gen fuel : forall z shift acc rest,
  (0 < fuel)%nat -> 0 <= z < 128 ^ Z.of_nat fuel -> 0 <= shift ->
  uvarint_dec fuel shift acc (uvarint_enc fuel z ++ rest) = Some (acc + z * 2 ^ shift, rest).
Proof.
  induction fuel as [|f IH]; intros z shift acc rest Hf Hz Hs.
  - lia.
  - cbn [uvarint_enc]. destruct (Z.ltb_spec z 128) as [Hlt|Hge].
    + cbn [app uvarint_dec]. destruct (Z.ltb_spec z 128); [reflexivity|lia].
    + cbn [app uvarint_dec].
      assert (Hm : 0 <= z mod 128 < 128) by (apply Z.mod_pos_bound; lia).
      destruct (Z.ltb_spec (z mod 128 + 128) 128); [lia|].
      assert (Hq : 1 <= z / 128) by (apply Z.div_le_lower_bound; lia).
      assert (Hq2 : z / 128 < 128 ^ Z.of_nat f).
      { rewrite Nat2Z.inj_succ, Z.pow_succ_r in Hz by lia. apply Z.div_lt_upper_bound; lia. }
      assert (Hf' : (0 < f)%nat) by (destruct f; [simpl in Hq2; lia|lia]).
      rewrite IH.
      * f_equal. f_equal. replace (z mod 128 + 128 - 128) with (z mod 128) by lia.
        rewrite Z.pow_add_r by lia. pose proof (Z.div_mod z 128 ltac:(lia)). nia.
      * exact Hf'.
      * lia.
      * lia.
Qed.

Theorem uvarint_roundtrip z rest : 0 <= z < 2 ^ 64 ->
  read_uvarint (put_uvarint z ++ rest) = Some (z, rest).
Proof.
  intros Hz. unfold read_uvarint, put_uvarint. rewrite uvarint_roundtrip_gen; [f_equal; f_equal; lia|lia| |lia].
  change (128 ^ Z.of_nat 10) with 1180591620717411303424. change (2 ^ 64) with 18446744073709551616 in Hz. lia.
Qed.

Theorem varint_roundtrip x rest : - 2 ^ 63 <= x < 2 ^ 63 ->
  read_varint (put_varint x ++ rest) = Some (x, rest).
Proof.
  intros Hx. unfold read_varint, put_varint.
  rewrite uvarint_roundtrip by (split; [apply zigzag_nonneg|apply zigzag_bound; exact Hx]).
  rewrite zigzag_roundtrip. reflexivity.
Qed.

Example varint_examples :
  (put_uvarint 300, put_varint (-1), put_varint 64, read_varint [172; 2; 9]) = ([172; 2], [1], [128; 1], Some (150, [9])).
Proof. vm_compute. reflexivity. Qed.
