From Coq Require Import List Bool Arith Lia.
Import ListNotations.

(* 64-bit words as MSB-first bit lists of length W *)
Definition W := 64.
Definition word := list bool.

Fixpoint xorb_list (a b : list bool) : list bool :=
  match a, b with
  | x :: a', y :: b' => xorb x y :: xorb_list a' b'
  | _, _ => []
  end.

Fixpoint lead (l : list bool) : nat :=
  match l with false :: l' => S (lead l') | _ => 0 end.
Definition trail (l : list bool) : nat := lead (rev l).
Definition all_false (l : list bool) : bool := forallb negb l.

(* numbers < 64 as 6-bit fields; abstractly we just carry nats in the stream model *)
Inductive tok :=
| TFirst (w : word)
| TSame
| TReuse (mid : list bool)            (* control 1,1 + meaningful bits in previous window *)
| TNew (l : nat) (mid : list bool).   (* control 1,0 + leading + size + bits *)

Record est := { e_prev : word; e_lead : nat; e_trail : nat; e_first : bool }.
Definition e0 := {| e_prev := []; e_lead := 0; e_trail := 0; e_first := true |}.

Definition mid_of (d : word) (l t : nat) : list bool := firstn (W - l - t) (skipn l d).

Definition enc1 (s : est) (v : word) : est * tok :=
  if e_first s then ({| e_prev := v; e_lead := e_lead s; e_trail := e_trail s; e_first := false |}, TFirst v)
  else
    let d := xorb_list v (e_prev s) in
    if all_false d then ({| e_prev := v; e_lead := e_lead s; e_trail := e_trail s; e_first := false |}, TSame)
    else
      let l := lead d in let t := trail d in
      if (e_lead s <=? l) && (e_trail s <=? t)
      then ({| e_prev := v; e_lead := e_lead s; e_trail := e_trail s; e_first := false |},
            TReuse (mid_of d (e_lead s) (e_trail s)))
      else ({| e_prev := v; e_lead := l; e_trail := t; e_first := false |}, TNew l (mid_of d l t)).

Fixpoint enc (s : est) (vs : list word) : list tok :=
  match vs with [] => [] | v :: vs' => let '(s', t) := enc1 s v in t :: enc s' vs' end.

Record dst := { d_val : word; d_lead : nat; d_trail : nat }.
Definition d0 := {| d_val := []; d_lead := 0; d_trail := 0 |}.

Definition pad (l : nat) (mid : list bool) (t : nat) : word := repeat false l ++ mid ++ repeat false t.

Definition dec1 (s : dst) (t : tok) : dst :=
  match t with
  | TFirst w => {| d_val := w; d_lead := d_lead s; d_trail := d_trail s |}
  | TSame => s
  | TReuse mid => {| d_val := xorb_list (d_val s) (pad (d_lead s) mid (d_trail s)); d_lead := d_lead s; d_trail := d_trail s |}
  | TNew l mid => let t := W - l - length mid in
      {| d_val := xorb_list (d_val s) (pad l mid t); d_lead := l; d_trail := t |}
  end.

Fixpoint dec (s : dst) (ts : list tok) : list word :=
  match ts with [] => [] | t :: ts' => let s' := dec1 s t in d_val s' :: dec s' ts' end.

Definition wf (v : word) := length v = W.
Definition R (e : est) (d : dst) : Prop :=
  e_first e = false /\ d_val d = e_prev e /\ wf (e_prev e) /\ d_lead d = e_lead e /\ d_trail d = e_trail e
  /\ e_lead e + e_trail e <= W.

