From LinDBV.C14 Require Import Xor.
From Coq Require Import List Bool Arith Lia.
Import ListNotations.

(* fixed-width big-endian numbers, as WriteBits(u, n) emits them *)
Fixpoint to_bits (w n : nat) : list bool :=
  match w with 0 => [] | S w' => Nat.testbit n w' :: to_bits w' n end.
Fixpoint of_bits (l : list bool) : nat :=
  match l with [] => 0 | b :: l' => (if b then 2 ^ length l' else 0) + of_bits l' end.

Definition ser_tok (t : tok) : list bool :=
  match t with
  | TFirst w => w
  | TSame => [false]
  | TReuse mid => [true; true] ++ mid
  | TNew l mid => [true; false] ++ to_bits 6 l ++ to_bits 6 (length mid - 1) ++ mid
  end.

Definition take (n : nat) (l : list bool) : option (list bool * list bool) :=
  if length l <? n then None else Some (firstn n l, skipn n l).

Definition dnext (first : bool) (s : dst) (bits : list bool) : option (dst * list bool) :=
  if first then
    match take W bits with Some (w, r) => Some ({| d_val := w; d_lead := d_lead s; d_trail := d_trail s |}, r) | None => None end
  else
    match bits with
    | false :: r => Some (s, r)
    | true :: true :: r =>
      match take (W - d_lead s - d_trail s) r with
      | Some (mid, r') => Some ({| d_val := xorb_list (d_val s) (pad (d_lead s) mid (d_trail s)); d_lead := d_lead s; d_trail := d_trail s |}, r')
      | None => None
      end
    | true :: false :: r =>
      match take 6 r with
      | Some (lb, r1) =>
        match take 6 r1 with
        | Some (sb, r2) =>
          let l := of_bits lb in let bsz := of_bits sb + 1 in
          match take bsz r2 with
          | Some (mid, r3) => Some ({| d_val := xorb_list (d_val s) (pad l mid (W - l - bsz)); d_lead := l; d_trail := W - l - bsz |}, r3)
          | None => None
          end
        | None => None
        end
      | None => None
      end
    | _ => None
    end.

Fixpoint ser (ts : list tok) : list bool := match ts with [] => [] | t :: ts' => ser_tok t ++ ser ts' end.

Fixpoint dec_all (n : nat) (first : bool) (s : dst) (bits : list bool) : option (list word * list bool) :=
  match n with
  | 0 => Some ([], bits)
  | S n' =>
    match dnext first s bits with
    | Some (s', r) => match dec_all n' false s' r with Some (vs, r') => Some (d_val s' :: vs, r') | None => None end
    | None => None
    end
  end.

