From LinDBV.C14 Require Import Xor XorProofs.
From Coq Require Import List Bool Arith Lia.
Import ListNotations.
From LinDBV.C14 Require Import XorBits.

(* fixed-width big-endian numbers, as WriteBits(u, n) emits them *)
Lemma to_bits_length w n : length (to_bits w n) = w.
Proof. induction w; simpl; auto. Qed.

Lemma of_to_bits w n : n < 2 ^ w -> of_bits (to_bits w n) = n.
Proof.
  revert n; induction w as [|w IH]; intros n H; simpl in *; [lia|].
  rewrite to_bits_length.
  assert (Hsplit : n = (if Nat.testbit n w then 2 ^ w else 0) + n mod 2 ^ w).
  { destruct (Nat.testbit n w) eqn:E.
    - apply Nat.testbit_true in E. 
      pose proof (Nat.div_mod n (2 ^ w) ltac:(apply Nat.pow_nonzero; lia)).
      assert (n / 2 ^ w < 2) by (apply Nat.div_lt_upper_bound; [apply Nat.pow_nonzero; lia|lia]).
      assert (n / 2 ^ w = 1) by (destruct (n / 2 ^ w) as [|[|?]]; simpl in *; try discriminate; lia). lia.
    - apply Nat.testbit_false in E.
      pose proof (Nat.div_mod n (2 ^ w) ltac:(apply Nat.pow_nonzero; lia)).
      assert (n / 2 ^ w < 2) by (apply Nat.div_lt_upper_bound; [apply Nat.pow_nonzero; lia|lia]).
      assert (n / 2 ^ w = 0) by (destruct (n / 2 ^ w) as [|[|?]]; simpl in *; try discriminate; lia). lia. }
  assert (Hbits : to_bits w n = to_bits w (n mod 2 ^ w)).
  { clear IH Hsplit H. assert (G : forall k, k <= w -> to_bits k n = to_bits k (n mod 2 ^ w)).
    { induction k as [|k IHk]; intros Hk; simpl; [reflexivity|]. f_equal; [|apply IHk; lia].
      symmetry. apply Nat.mod_pow2_bits_low. lia. }
    apply G. lia. }
  rewrite Hbits, IH by (apply Nat.mod_upper_bound, Nat.pow_nonzero; lia). lia.
Qed.

(* ---------- encoder side: tokens to bits ---------- *)
(* ---------- decoder side: XORDecoder.Next on a bit stream ---------- *)
Lemma take_app a b : take (length a) (a ++ b) = Some (a, b).
Proof.
  unfold take. rewrite app_length. destruct (Nat.ltb_spec (length a + length b) (length a)); [lia|].
  rewrite firstn_app, firstn_all, Nat.sub_diag. simpl. rewrite app_nil_r.
  rewrite skipn_app, skipn_all, Nat.sub_diag. reflexivity.
Qed.

(* one value: the bit-level decoder undoes serialise-after-encode, under the simulation relation of Xor.v *)
Lemma bit_step e d v rest : wf v ->
  (e_first e = true \/ R e d) ->
  let '(e', t) := enc1 e v in
  dnext (e_first e) d (ser_tok t ++ rest) = Some (dec1 d t, rest).
Proof.
  intros Hv HR. unfold enc1. destruct (e_first e) eqn:Ef.
  - (* first value: 64 raw bits *)
    simpl. unfold wf in Hv. rewrite <- Hv. rewrite take_app. reflexivity.
  - destruct HR as [HR|HR]; [discriminate|].
    destruct HR as (_ & Hval & Hw & Hl & Ht & Hs).
    assert (Hlen : length (xorb_list v (e_prev e)) = W).
    { rewrite xorb_list_length; [exact Hv|unfold wf in *; congruence]. }
    destruct (all_false (xorb_list v (e_prev e))) eqn:Haf; [reflexivity|].
    pose proof (lead_trail_sum _ Haf) as Hsum. rewrite Hlen in Hsum.
    destruct ((e_lead e <=? lead (xorb_list v (e_prev e))) && (e_trail e <=? trail (xorb_list v (e_prev e)))) eqn:Hc.
    + (* reuse the window *)
      cbn [ser_tok app dnext]. rewrite Hl, Ht.
      assert (Hm : length (mid_of (xorb_list v (e_prev e)) (e_lead e) (e_trail e)) = W - e_lead e - e_trail e).
      { unfold mid_of. rewrite firstn_length, skipn_length. lia. }
      rewrite <- Hm at 1. rewrite take_app. cbn [dec1]. rewrite Hl, Ht. reflexivity.
    + (* new window: 6 bits leading, 6 bits size-1, payload *)
      set (dl := xorb_list v (e_prev e)) in *. set (l := lead dl). set (t := trail dl).
      assert (Hm : length (mid_of dl l t) = W - l - t).
      { unfold mid_of. rewrite firstn_length, skipn_length. unfold l, t. lia. }
      cbn [ser_tok app dnext]. rewrite <- !app_assoc.
      rewrite <- (to_bits_length 6 l) at 1. rewrite take_app.
      rewrite <- (to_bits_length 6 (length (mid_of dl l t) - 1)) at 1. rewrite take_app.
      assert (Hl63 : l < 2 ^ 6) by (change (2 ^ 6) with 64; unfold l, W in *; lia).
      assert (Hs63 : length (mid_of dl l t) - 1 < 2 ^ 6) by (change (2 ^ 6) with 64; rewrite Hm; unfold l, t, W in *; lia).
      rewrite (of_to_bits 6 l Hl63), (of_to_bits 6 _ Hs63).
      replace (length (mid_of dl l t) - 1 + 1) with (length (mid_of dl l t)) by (rewrite Hm; unfold l, t, W in *; lia).
      rewrite take_app. cbn [dec1]. reflexivity.
Qed.
(* ---------- whole sequences ---------- *)
Lemma enc_first_step e v : e_first e = true -> wf v -> e_lead e + e_trail e <= W ->
  forall d, d_lead d = e_lead e -> d_trail d = e_trail e ->
  let '(e', t) := enc1 e v in R e' (dec1 d t) /\ d_val (dec1 d t) = v.
Proof.
  intros Hf Hv Hs d Hl Ht. unfold enc1. rewrite Hf. simpl. unfold R. simpl. repeat split; auto.
Qed.

Theorem xor_bits_roundtrip_from vs : forall e d rest, Forall wf vs ->
  (e_first e = true /\ d_lead d = e_lead e /\ d_trail d = e_trail e /\ e_lead e + e_trail e <= W) \/ R e d ->
  dec_all (length vs) (e_first e) d (ser (enc e vs) ++ rest) = Some (vs, rest).
Proof.
  induction vs as [|v vs IH]; intros e d rest Hall Hinv; simpl; [reflexivity|].
  inversion Hall as [|? ? Hv Hvs]; subst.
  pose proof (bit_step e d v (ser (enc (fst (enc1 e v)) vs) ++ rest) Hv) as Hb.
  assert (Hpre : e_first e = true \/ R e d) by (destruct Hinv as [(H & _)|H]; auto).
  specialize (Hb Hpre).
  destruct (enc1 e v) as [e' t] eqn:Ee. simpl in Hb. simpl. rewrite <- app_assoc. rewrite Hb.
  assert (HR : R e' (dec1 d t) /\ d_val (dec1 d t) = v).
  { destruct Hinv as [(Hf & Hl & Ht & Hs)|HR].
    - pose proof (enc_first_step e v Hf Hv Hs d Hl Ht) as H. rewrite Ee in H. exact H.
    - pose proof (step_sim e d v HR Hv) as H. rewrite Ee in H. exact H. }
  destruct HR as [HR Hval].
  assert (Hf' : e_first e' = false) by (destruct HR as (Hf' & _); exact Hf').
  specialize (IH e' (dec1 d t) rest Hvs (or_intror HR)). rewrite Hf' in IH. rewrite IH, Hval. reflexivity.
Qed.

Theorem xor_bits_roundtrip vs rest : Forall wf vs ->
  dec_all (length vs) true d0 (ser (enc e0 vs) ++ rest) = Some (vs, rest).
Proof.
  intros H. apply (xor_bits_roundtrip_from vs e0 d0 rest H). left. simpl. repeat split; auto. unfold W. lia.
Qed.
