From Coq Require Import List Bool Arith Lia.
Import ListNotations.
From LinDBV.C14 Require Import Xor.

(* 64-bit words as MSB-first bit lists of length W *)
(* ---- lemmas ---- *)
Lemma xorb_list_length a b : length a = length b -> length (xorb_list a b) = length a.
Proof. revert b; induction a as [|x a IH]; intros [|y b] H; simpl in *; try lia. f_equal. apply IH. lia. Qed.

Lemma xorb_list_cancel a b : length a = length b -> xorb_list b (xorb_list a b) = a.
Proof. revert b; induction a as [|x a IH]; intros [|y b] H; simpl in *; try lia; auto.
  f_equal. - destruct x, y; reflexivity. - apply IH; lia. Qed.

Lemma xorb_list_comm a b : xorb_list a b = xorb_list b a.
Proof. revert b; induction a as [|x a IH]; intros [|y b]; simpl; auto. f_equal; [apply xorb_comm|apply IH]. Qed.

Lemma all_false_xor a b : length a = length b -> all_false (xorb_list a b) = true -> a = b.
Proof. revert b; induction a as [|x a IH]; intros [|y b] H; simpl in *; try lia; auto.
  intros Hf. apply andb_prop in Hf as [H1 H2]. f_equal. - destruct x, y; simpl in *; congruence. - apply IH; auto. Qed.

Lemma lead_le_length l : lead l <= length l.
Proof. induction l as [|[] l IH]; simpl; lia. Qed.

Lemma firstn_lead_false l n : n <= lead l -> firstn n l = repeat false n.
Proof. revert n; induction l as [|[] l IH]; intros [|n] H; simpl in *; try lia; auto. f_equal. apply IH. lia. Qed.

Lemma rev_repeat_false n : rev (repeat false n) = repeat false n.
Proof. induction n; simpl; auto. rewrite IHn. clear. induction n; simpl; auto. f_equal; exact IHn. Qed.

Lemma lastn_trail_false l n : n <= trail l -> skipn (length l - n) l = repeat false n.
Proof.
  intros H. unfold trail in H.
  pose proof (firstn_lead_false (rev l) n H) as Hf.
  rewrite firstn_rev in Hf.
  apply (f_equal (@rev bool)) in Hf. rewrite rev_involutive, rev_repeat_false in Hf. exact Hf.
Qed.

Lemma my_skipn_skipn {A} a b (l : list A) : skipn a (skipn b l) = skipn (a + b) l.
Proof. revert l; induction b as [|b IH]; intros l. - rewrite Nat.add_0_r. reflexivity.
  - destruct l as [|x l]. + rewrite !skipn_nil. reflexivity. + rewrite Nat.add_succ_r. simpl. apply IH. Qed.

Lemma pad_mid_of d l t : length d = W -> l <= lead d -> t <= trail d -> l + t <= W ->
  pad l (mid_of d l t) t = d.
Proof.
  intros Hd Hl Ht Hlt. unfold pad, mid_of.
  etransitivity; [| apply (firstn_skipn l d)].
  f_equal. { symmetry. apply firstn_lead_false. exact Hl. }
  set (r := skipn l d). assert (Hr : length r = W - l) by (unfold r; rewrite skipn_length; lia).
  etransitivity; [| apply (firstn_skipn (W - l - t) r)].
  f_equal.
  unfold r. rewrite my_skipn_skipn.
  replace (W - l - t + l) with (length d - t) by lia.
  symmetry. apply lastn_trail_false. exact Ht.
Qed.

(* ---- simulation invariant ---- *)
Lemma trail_le_length l : trail l <= length l.
Proof. unfold trail. pose proof (lead_le_length (rev l)). rewrite rev_length in H. exact H. Qed.

Lemma lead_app_true r x : lead (r ++ true :: x) <= length r.
Proof. induction r as [|[] r IH]; simpl; lia. Qed.

Lemma lead_trail_sum d : all_false d = false -> lead d + trail d + 1 <= length d.
Proof.
  intros H.
  assert (Hd : exists a b, d = a ++ true :: b /\ all_false a = true).
  { clear -H. induction d as [|[] d IH]; simpl in *; try discriminate.
    - exists [], d. auto.
    - destruct (IH H) as (a & b & -> & Ha). exists (false :: a), b. simpl. auto. }
  destruct Hd as (a & b & -> & Ha).
  assert (Hl : lead (a ++ true :: b) = length a).
  { clear -Ha. induction a as [|[] a IH]; simpl in *; try discriminate; auto. }
  assert (Ht : trail (a ++ true :: b) <= length b).
  { unfold trail. rewrite rev_app_distr. simpl. rewrite <- app_assoc. simpl.
    pose proof (lead_app_true (rev b) (rev a)) as Hx. rewrite rev_length in Hx. exact Hx. }
  rewrite app_length. simpl. lia.
Qed.

Opaque W.
(* one step of the simulation *)
Lemma step_sim e d v : R e d -> wf v ->
  let '(e', t) := enc1 e v in
  let d' := dec1 d t in R e' d' /\ d_val d' = v.
Proof.
  intros (Hf & Hv & Hw & Hl & Ht & Hs) Hwv. unfold enc1. rewrite Hf.
  assert (Hlen : length (xorb_list v (e_prev e)) = W).
  { rewrite xorb_list_length; [exact Hwv | unfold wf in *; congruence]. }
  destruct (all_false (xorb_list v (e_prev e))) eqn:Haf.
  - (* same *)
    simpl. apply all_false_xor in Haf; [| unfold wf in *; congruence]. subst v.
    unfold R; simpl. repeat split; auto; try lia.
  - pose proof (lead_trail_sum _ Haf) as Hsum. rewrite Hlen in Hsum.
    destruct ((e_lead e <=? lead (xorb_list v (e_prev e))) && (e_trail e <=? trail (xorb_list v (e_prev e)))) eqn:Hc.
    + apply andb_prop in Hc as [Hc1 Hc2]. apply Nat.leb_le in Hc1, Hc2.
      simpl. rewrite Hl, Ht. rewrite pad_mid_of; auto; try lia.
      rewrite Hv. rewrite xorb_list_cancel by (unfold wf in *; congruence).
      unfold R; simpl. repeat split; auto; try lia.
    + simpl.
      assert (Hm : length (mid_of (xorb_list v (e_prev e)) (lead (xorb_list v (e_prev e))) (trail (xorb_list v (e_prev e)))) = W - lead (xorb_list v (e_prev e)) - trail (xorb_list v (e_prev e))).
      { unfold mid_of. rewrite firstn_length, skipn_length. lia. }
      rewrite Hm.
      replace (W - lead (xorb_list v (e_prev e)) - (W - lead (xorb_list v (e_prev e)) - trail (xorb_list v (e_prev e)))) with (trail (xorb_list v (e_prev e))) by lia.
      rewrite pad_mid_of; auto; try lia.
      rewrite Hv. rewrite xorb_list_cancel by (unfold wf in *; congruence).
      unfold R; simpl. repeat split; auto; try lia.
Qed.

Theorem xor_roundtrip_from e d vs : R e d -> Forall wf vs -> dec d (enc e vs) = vs.
Proof.
  revert e d; induction vs as [|v vs IH]; intros e d HR Hall; simpl; auto.
  inversion Hall as [|? ? Hv Hvs]; subst.
  pose proof (step_sim e d v HR Hv) as Hs. destruct (enc1 e v) as [e' t]. simpl in *.
  destruct Hs as [HR' Hval]. rewrite Hval. f_equal. apply IH; auto.
Qed.

Transparent W.
Theorem xor_roundtrip vs : Forall wf vs -> dec d0 (enc e0 vs) = vs.
Proof.
  destruct vs as [|v vs]; simpl; auto. intros Hall. inversion Hall as [|? ? Hv Hvs]; subst.
  simpl. f_equal. apply xor_roundtrip_from; auto.
  unfold R; simpl. repeat split; auto. unfold W; lia.
Qed.
