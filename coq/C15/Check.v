From Coq Require Import List Arith Bool ZArith.
Import ListNotations.
From LinDBV.C15 Require Import Model.
From LinDBV.C14 Require Layout.

Fixpoint bytes_eqb (a b : bytes) : bool :=
  match a, b with [], [] => true | x :: a', y :: b' => (x =? y) && bytes_eqb a' b' | _, _ => false end.
Definition obytes_eqb (a b : option bytes) : bool :=
  match a, b with Some x, Some y => bytes_eqb x y | None, None => true | _, _ => false end.
Fixpoint ents_eqb (a b : list (nat * bytes)) : bool :=
  match a, b with
  | [], [] => true
  | (k, v) :: a', (k', v') :: b' => (k =? k') && bytes_eqb v v' && ents_eqb a' b'
  | _, _ => false
  end.
Fixpoint bools_eqb (a b : list bool) : bool :=
  match a, b with [], [] => true | x :: a', y :: b' => Bool.eqb x y && bools_eqb a' b' | _, _ => false end.
Fixpoint zs_eqb (a b : list Z) : bool :=
  match a, b with [], [] => true | x :: a', y :: b' => (x =? y)%Z && zs_eqb a' b' | _, _ => false end.

Fixpoint run_flags (b : bld) (ops : list op) : list bool :=
  match ops with
  | [] => []
  | o :: ops' => accepts b (match o with OAdd k _ | OStream k _ => k end) :: run_flags (apply_op b o) ops'
  end.

Record tobs := {
  t_flags : list bool;            (* which operations the builder accepted (its own count grew) *)
  t_min : nat; t_max : nat; t_count : nat;
  t_pos_offsets : nat;            (* footer: position of the offset table = size of the values blob *)
  t_offsets_block : list Z;       (* bytes of the offset table *)
  t_lookups : list (nat * option bytes);
  t_iter : list (nat * bytes) }.

(* spec-level expectation: entries accepted by the strictly-ascending rule *)
Fixpoint spec_ents (last : option nat) (ops : list op) : list (nat * bytes) :=
  match ops with
  | [] => []
  | o :: ops' =>
      let k := match o with OAdd k _ | OStream k _ => k end in
      let v := match o with OAdd _ v => v | OStream _ cs => concat cs end in
      if match last with None => true | Some m => m <? k end then (k, v) :: spec_ents (Some k) ops' else spec_ents last ops'
  end.

Definition check_table (ops : list op) (o : tobs) : nat * nat :=
  let b := run_ops ops in
  let es := ents b in
  let offs := offsets (map snd es) 0 in
  ((if bools_eqb (run_flags empty ops) (t_flags o) &&
       (t_pos_offsets o =? length (blob (map snd es))) &&
       zs_eqb (Layout.fo_encode (map Z.of_nat offs)) (t_offsets_block o) &&
       forallb (fun '(k, r) => obytes_eqb (get (map fst es) offs (blob (map snd es)) k) r) (t_lookups o)
    then 0 else 1)%nat,
   (let sp := spec_ents None ops in
    if (match sp with [] => true | _ => (t_min o =? fst (hd (0, []) sp)) && (t_max o =? fst (last sp (0, []))) end) &&
       (t_count o =? length sp) &&
       forallb (fun '(k, r) => obytes_eqb (assoc k sp) r) (t_lookups o) &&
       ents_eqb (t_iter o) sp
    then 0 else 1)%nat).

(* merged iterator: exact output order against the container/heap model; property on the output itself *)
Fixpoint insert_ent (x : nat * bytes) (l : list (nat * bytes)) : list (nat * bytes) :=
  match l with
  | [] => [x]
  | y :: l' => if (fst x <? fst y) || ((fst x =? fst y) && (length (snd x) <=? length (snd y))) then x :: l else y :: insert_ent x l'
  end.
Fixpoint sorted_le_b (l : list (nat * bytes)) : bool :=
  match l with a :: ((b :: _) as t) => (fst a <=? fst b) && sorted_le_b t | _ => true end.
(* multiset equality of entries, by removing one by one *)
Fixpoint remove_ent (x : nat * bytes) (l : list (nat * bytes)) : option (list (nat * bytes)) :=
  match l with
  | [] => None
  | y :: l' => if (fst x =? fst y) && bytes_eqb (snd x) (snd y) then Some l'
               else match remove_ent x l' with Some r => Some (y :: r) | None => None end
  end.
Fixpoint perm_b (a b : list (nat * bytes)) : bool :=
  match a with
  | [] => match b with [] => true | _ => false end
  | x :: a' => match remove_ent x b with Some b' => perm_b a' b' | None => false end
  end.
Definition check_merge (its : list (list (nat * bytes))) (out : list (nat * bytes)) : nat * nat :=
  ((if ents_eqb (heap_merge its) out then 0 else 1)%nat,
   (if sorted_le_b out && perm_b out (concat its) then 0 else 1)%nat).

(* Load over a version *)
Fixpoint perm_bytes (a b : list bytes) : bool :=
  match a with
  | [] => match b with [] => true | _ => false end
  | x :: a' =>
      (fix rm (l : list bytes) (acc : list bytes) : bool :=
         match l with
         | [] => false
         | y :: l' => if bytes_eqb x y then perm_bytes a' (rev acc ++ l') else rm l' (y :: acc)
         end) b []
  end.

Definition check_load (files : list file) (k : nat) (vals : list bytes) : nat * nat :=
  ((if perm_bytes (load files k) vals then 0 else 1)%nat,
   (if perm_bytes (flat_map (fun f => match assoc k (f_ents f) with Some v => [v] | None => [] end) files) vals then 0 else 1)%nat).
