(* C15 — table files and merged iteration.  Model of kv/table/builder.go (Add, stream writer, key check,
   min/max/count), the file layout values ++ offsets ++ keys ++ footer, kv/table/reader.go
   (Get by rank, iteration), kv/table/iterator.go (merged iterator over a priority queue; both as the
   abstract "pop a minimal head" relation and as the concrete container/heap algorithm),
   version.FindFiles and snapshot.Load.  Keys are natural numbers, values byte lists.  Definitions only. *)
From Coq Require Import List Arith Lia Bool.
Import ListNotations.

Definition byte := nat.
Definition bytes := list byte.

Record bld := { ents : list (nat * bytes) (* accepted, in order *); maxk : nat; first : bool }.
Definition empty : bld := {| ents := []; maxk := 0; first := true |}.
Definition add (b : bld) (kv : nat * bytes) : bld :=
  let '(k, v) := kv in
  if first b || (maxk b <? k) then {| ents := ents b ++ [(k, v)]; maxk := k; first := false |} else b.
Definition build (ops : list (nat * bytes)) : bld := fold_left add ops empty.

(* strictly ascending keys *)
Fixpoint asc (l : list nat) : Prop :=
  match l with a :: ((b :: _) as t) => a < b /\ asc t | _ => True end.

Fixpoint offsets (vs : list bytes) (start : nat) : list nat :=
  match vs with [] => [] | v :: vs' => start :: offsets vs' (start + length v) end.
Definition blob (vs : list bytes) : bytes := concat vs.
Definition slice (b : bytes) (s e : nat) : bytes := firstn (e - s) (skipn s b).

(* FixedOffsetDecoder.GetBlock: [offs[i], offs[i+1]) or up to the end of the data block *)
Definition get_block (offs : list nat) (data : bytes) (i : nat) : option bytes :=
  match nth_error offs i with
  | None => None
  | Some s => let e := match nth_error offs (S i) with Some e => e | None => length data end in
              Some (slice data s e)
  end.

(* roaring: Contains and Rank on the key set *)
Definition contains (keys : list nat) (k : nat) : bool := existsb (Nat.eqb k) keys.
Definition rank (keys : list nat) (k : nat) : nat := length (filter (fun x => x <=? k) keys).

(* storeMMapReader.Get *)
Definition get (keys : list nat) (offs : list nat) (data : bytes) (k : nat) : option bytes :=
  if contains keys k then get_block offs data (rank keys k - 1) else None.

Fixpoint assoc (k : nat) (l : list (nat * bytes)) : option bytes :=
  match l with [] => None | (k', v) :: l' => if Nat.eqb k' k then Some v else assoc k l' end.

Definition binv (b : bld) : Prop :=
  asc (map fst (ents b)) /\ (first b = true -> ents b = []) /\
  (first b = false -> exists pre v, ents b = pre ++ [(maxk b, v)]).


(* ---------- builder operations ---------- *)
(* a stream write is Prepare(k); Write(chunk)*; Commit — one entry whose value is the concatenation *)
Inductive op := OAdd (k : nat) (v : bytes) | OStream (k : nat) (chunks : list bytes).
Definition apply_op (b : bld) (o : op) : bld :=
  match o with OAdd k v => add b (k, v) | OStream k cs => add b (k, concat cs) end.
Definition run_ops (ops : list op) : bld := fold_left apply_op ops empty.
(* was the operation accepted? *)
Definition accepts (b : bld) (k : nat) : bool := first b || (maxk b <? k).

Definition min_key (b : bld) : nat := match ents b with (k, _) :: _ => k | [] => 0 end.
Definition max_key (b : bld) : nat := maxk b.
Definition count (b : bld) : nat := length (ents b).

(* ---------- reader: iteration ---------- *)
Definition iterate (keys offs : list nat) (data : bytes) : list (nat * option bytes) :=
  map (fun '(i, k) => (k, get_block offs data i)) (combine (seq 0 (length keys)) keys).

(* ---------- merged iterator, abstract: repeatedly pop an input whose head key is minimal ---------- *)
Notation ent := (nat * bytes)%type.
Fixpoint set_nth {A} (l : list A) (i : nat) (x : A) : list A :=
  match l, i with [], _ => [] | _ :: l', O => x :: l' | y :: l', S i' => y :: set_nth l' i' x end.

Inductive merges : list (list ent) -> list ent -> Prop :=
| m_done its : (forall it, In it its -> it = []) -> merges its []
| m_step its i e r out :
    nth_error its i = Some (e :: r) ->
    (forall j e' r', nth_error its j = Some (e' :: r') -> fst e <= fst e') ->
    merges (set_nth its i r) out -> merges its (e :: out).

Fixpoint sorted_le (l : list ent) : Prop :=
  match l with a :: ((b :: _) as t) => fst a <= fst b /\ sorted_le t | _ => True end.

(* ---------- merged iterator, concrete: container/heap over items (key, value, input index) ---------- *)
Record item := { ikey : nat; ival : bytes; isrc : nat }.
Definition hswap (h : list item) (i j : nat) : list item :=
  match nth_error h i, nth_error h j with
  | Some a, Some b => set_nth (set_nth h i b) j a
  | _, _ => h
  end.
Definition hless (h : list item) (i j : nat) : bool :=
  match nth_error h i, nth_error h j with Some a, Some b => ikey a <? ikey b | _, _ => false end.
(* heap.up *)
Fixpoint hup (fuel : nat) (h : list item) (j : nat) : list item :=
  match fuel with
  | O => h
  | S f => let i := (j - 1) / 2 in
           if (j =? 0) || (i =? j) || negb (hless h j i) then h else hup f (hswap h i j) i
  end.
(* heap.down with bound n *)
Fixpoint hdown (fuel : nat) (h : list item) (i n : nat) : list item :=
  match fuel with
  | O => h
  | S f =>
      let j1 := 2 * i + 1 in
      if n <=? j1 then h else
      let j := if (j1 + 1 <? n) && hless h (j1 + 1) j1 then j1 + 1 else j1 in
      if negb (hless h j i) then h else hdown f (hswap h i j) j n
  end.
Fixpoint hinit_loop (k : nat) (h : list item) : list item :=   (* i = k-1 down to 0 *)
  match k with O => h | S k' => hinit_loop k' (hdown (length h) h k' (length h)) end.
Definition hinit (h : list item) : list item := hinit_loop (length h / 2) h.
(* heap.Pop: swap(0, n-1); down(0, n-1); remove last *)
Definition hpop (h : list item) : option (item * list item) :=
  match h with
  | [] => None
  | _ => let n := length h - 1 in
         let h1 := hdown (length h) (hswap h 0 n) 0 n in
         match nth_error h1 n with Some x => Some (x, firstn n h1) | None => None end
  end.
(* Push then Fix(last) = up(last) *)
Definition hpush (h : list item) (x : item) : list item := hup (S (length h)) (h ++ [x]) (length h).

Fixpoint heap_merge_loop (fuel : nat) (h : list item) (its : list (list ent)) : list ent :=
  match fuel with
  | O => []
  | S f =>
      match hpop h with
      | None => []
      | Some (x, h') =>
          match nth_error its (isrc x) with
          | Some ((k, v) :: r) =>
              (ikey x, ival x) :: heap_merge_loop f (hpush h' {| ikey := k; ival := v; isrc := isrc x |}) (set_nth its (isrc x) r)
          | _ => (ikey x, ival x) :: heap_merge_loop f h' its
          end
      end
  end.
Fixpoint init_items (its : list (list ent)) (i : nat) : list item * list (list ent) :=
  match its with
  | [] => ([], [])
  | it :: rest =>
      let '(hs, its') := init_items rest (S i) in
      match it with
      | (k, v) :: r => ({| ikey := k; ival := v; isrc := i |} :: hs, r :: its')
      | [] => (hs, [] :: its')
      end
  end.
Definition heap_merge (its : list (list ent)) : list ent :=
  let '(hs, its') := init_items its 0 in
  heap_merge_loop (S (length (concat its))) (hinit hs) its'.

(* ---------- version.FindFiles / snapshot.Load ---------- *)
Record file := { f_min : nat; f_max : nat; f_ents : list ent }.
Definition find_files (files : list file) (k : nat) : list file :=
  filter (fun f => (f_min f <=? k) && (k <=? f_max f)) files.
Definition load (files : list file) (k : nat) : list bytes :=
  flat_map (fun f => match assoc k (f_ents f) with Some v => [v] | None => [] end) (find_files files k).
