From Coq Require Import List Arith Lia Bool Permutation.
Import ListNotations.
From LinDBV.C15 Require Import Model.

(* ---------- builder: Add with the increasing-key check ---------- *)
(* ---------- file layout: values blob + offsets + key set ---------- *)
(* ---------- proofs ---------- *)
Lemma nth_error_offsets : forall vs start i,
  nth_error (offsets vs start) i =
  if i <? length vs then Some (start + length (concat (firstn i vs))) else None.
Proof.
  induction vs as [|v vs IH]; intros start i; simpl.
  - destruct i; reflexivity.
  - destruct i as [|i]; simpl; [f_equal; lia|].
    rewrite IH. change (S i <? S (length vs)) with (i <? length vs).
    destruct (i <? length vs); [f_equal; rewrite app_length; lia|reflexivity].
Qed.

Lemma concat_split : forall (vs : list bytes) i v, nth_error vs i = Some v ->
  concat vs = concat (firstn i vs) ++ v ++ concat (skipn (S i) vs).
Proof.
  induction vs as [|x vs IH]; intros [|i] v H; simpl in *; try discriminate.
  - inversion H; subst. reflexivity.
  - rewrite (IH _ _ H) at 1. rewrite app_assoc. reflexivity.
Qed.

Lemma firstn_S_concat : forall (vs : list bytes) i v, nth_error vs i = Some v ->
  concat (firstn (S i) vs) = concat (firstn i vs) ++ v.
Proof.
  induction vs as [|x vs IH]; intros [|i] v H; simpl in *; try discriminate.
  - inversion H; subst. rewrite app_nil_r. reflexivity.
  - rewrite (IH _ _ H). rewrite app_assoc. reflexivity.
Qed.

Lemma slice_mid (pre v post : bytes) : slice (pre ++ v ++ post) (length pre) (length pre + length v) = v.
Proof.
  unfold slice. rewrite skipn_app, skipn_all, Nat.sub_diag. simpl.
  replace (length pre + length v - length pre) with (length v) by lia.
  rewrite firstn_app, firstn_all, Nat.sub_diag. simpl. apply app_nil_r.
Qed.

Lemma get_block_ok vs i v : nth_error vs i = Some v ->
  get_block (offsets vs 0) (blob vs) i = Some v.
Proof.
  intros H. unfold get_block. rewrite !nth_error_offsets.
  assert (Hi : i < length vs) by (apply nth_error_Some; congruence).
  destruct (Nat.ltb_spec i (length vs)); [|lia]. cbn [Nat.add].
  f_equal. unfold blob. rewrite (concat_split vs i v H).
  set (pre := concat (firstn i vs)). set (post := concat (skipn (S i) vs)).
  match goal with |- slice _ _ ?E = _ => assert (He : E = length pre + length v) end.
  { destruct (Nat.ltb_spec (S i) (length vs)) as [Hlt|Hge].
    - rewrite (firstn_S_concat vs i v H). fold pre. rewrite app_length. reflexivity.
    - assert (Hpost : post = []) by (unfold post; rewrite skipn_all2; [reflexivity|lia]).
      rewrite Hpost, app_nil_r, app_length. reflexivity. }
  rewrite He. apply slice_mid.
Qed.

(* rank of the i-th key of a strictly ascending list *)
Lemma asc_lt_all a l : asc (a :: l) -> forall x, In x l -> a < x.
Proof.
  revert a; induction l as [|b l IH]; intros a H x Hin; [destruct Hin|].
  destruct H as [Hab Hl]. destruct Hin as [<-|Hin]; [exact Hab|]. specialize (IH b Hl x Hin). lia.
Qed.
Lemma asc_tail a l : asc (a :: l) -> asc l.
Proof. destruct l; simpl; tauto. Qed.

Lemma rank_nth keys i k : asc keys -> nth_error keys i = Some k -> rank keys k = S i.
Proof.
  revert i; induction keys as [|a keys IH]; intros [|i] Ha H; simpl in H; try discriminate.
  - inversion H; subst. unfold rank. simpl. rewrite Nat.leb_refl. simpl. f_equal.
    assert (Hz : filter (fun x => x <=? k) keys = []).
    { clear -Ha. pose proof (asc_lt_all _ _ Ha) as Hl. clear Ha. induction keys as [|b keys IH]; [reflexivity|].
      simpl. destruct (Nat.leb_spec b k); [specialize (Hl b (or_introl eq_refl)); lia|]. apply IH. intros x Hx. apply Hl. right; exact Hx. }
    rewrite Hz. reflexivity.
  - unfold rank in *. simpl. pose proof (asc_lt_all _ _ Ha k (nth_error_In _ _ H)).
    destruct (Nat.leb_spec a k); [|lia]. simpl. f_equal. apply IH; [eapply asc_tail; exact Ha|exact H].
Qed.

Lemma assoc_nth : forall (es : list (nat * bytes)) i k v, asc (map fst es) -> nth_error es i = Some (k, v) -> assoc k es = Some v.
Proof.
  induction es as [|[a w] es IH]; intros [|i] k v Ha H; simpl in H; try discriminate.
  - inversion H; subst. simpl. rewrite Nat.eqb_refl. reflexivity.
  - simpl. simpl in Ha. assert (a < k).
    { apply (asc_lt_all _ _ Ha). apply in_map_iff. exists (k, v). split; [reflexivity|exact (nth_error_In _ _ H)]. }
    destruct (Nat.eqb_spec a k); [lia|]. apply (IH i); [eapply asc_tail; exact Ha|exact H].
Qed.

Lemma assoc_none (es : list (nat * bytes)) k : contains (map fst es) k = false -> assoc k es = None.
Proof.
  induction es as [|[a w] es IH]; simpl; intros H; [reflexivity|].
  apply orb_false_elim in H as [H1 H2]. rewrite Nat.eqb_sym in H1. rewrite H1. apply IH, H2.
Qed.

Lemma contains_nth keys k : contains keys k = true -> exists i, nth_error keys i = Some k.
Proof. unfold contains. rewrite existsb_exists. intros (x & Hx & E). apply Nat.eqb_eq in E. subst x. apply In_nth_error, Hx. Qed.

Theorem table_get (es : list (nat * bytes)) k :
  asc (map fst es) ->
  get (map fst es) (offsets (map snd es) 0) (blob (map snd es)) k = assoc k es.
Proof.
  intros Ha. unfold get. destruct (contains (map fst es) k) eqn:C.
  - destruct (contains_nth _ _ C) as (i & Hi).
    rewrite (rank_nth _ i k Ha Hi). simpl. rewrite Nat.sub_0_r.
    assert (Hex : exists v, nth_error es i = Some (k, v)).
    { rewrite nth_error_map in Hi. destruct (nth_error es i) as [[k' v]|]; [|discriminate]. simpl in Hi. inversion Hi; subst. eauto. }
    destruct Hex as (v & Hv).
    rewrite (get_block_ok (map snd es) i v); [|rewrite nth_error_map, Hv; reflexivity].
    symmetry. eapply assoc_nth; eauto.
  - symmetry. apply assoc_none, C.
Qed.

(* the builder keeps keys strictly ascending, whatever is fed to it, and a rejected key changes nothing *)
Lemma asc_snoc l a k : asc (l ++ [a]) -> a < k -> asc (l ++ [a; k]).
Proof.
  induction l as [|x l IH]; simpl; intros H Hk; [tauto|].
  destruct l as [|y l]; simpl in *; [tauto|]. destruct H as [Hxy H]. split; [exact Hxy|]. apply IH; assumption.
Qed.

Lemma add_inv b kv : binv b -> binv (add b kv).
Proof.
  intros (Ha & Hf & Hn). destruct kv as [k v]. unfold add.
  destruct (first b) eqn:Ef; simpl.
  - rewrite (Hf eq_refl). repeat split; simpl; auto; try discriminate. intros _. exists [], v. reflexivity.
  - destruct (Nat.ltb_spec (maxk b) k); [|repeat split; auto; congruence].
    destruct (Hn eq_refl) as (pre & w & E). repeat split; simpl; try discriminate.
    + rewrite E in *. rewrite !map_app in *. simpl in *. rewrite <- app_assoc. simpl. apply asc_snoc; assumption.
    + intros _. exists (ents b), v. reflexivity.
Qed.

Theorem build_sorted ops : asc (map fst (ents (build ops))).
Proof.
  unfold build. assert (H : binv empty) by (repeat split; simpl; auto; discriminate).
  revert H. generalize empty. induction ops as [|o ops IH]; intros b H; simpl; [apply H|]. apply IH, add_inv, H.
Qed.

(* ---------- builder operations ---------- *)
Lemma apply_op_inv b o : binv b -> binv (apply_op b o).
Proof. destruct o; apply add_inv. Qed.

Theorem run_ops_sorted ops : asc (map fst (ents (run_ops ops))).
Proof.
  unfold run_ops. assert (H : binv empty) by (repeat split; simpl; auto; discriminate).
  revert H. generalize empty. induction ops as [|o ops IH]; intros b H; simpl; [apply H|]. apply IH, apply_op_inv, H.
Qed.

Definition op_key (o : op) : nat := match o with OAdd k _ | OStream k _ => k end.
Definition op_val (o : op) : bytes := match o with OAdd _ v => v | OStream _ cs => concat cs end.

(* an out-of-order key is rejected without disturbing anything; an accepted one is appended as is *)
Theorem apply_op_spec b o :
  apply_op b o = if accepts b (op_key o)
                 then {| ents := ents b ++ [(op_key o, op_val o)]; maxk := op_key o; first := false |} else b.
Proof. destruct o; reflexivity. Qed.

Lemma run_ops_binv ops : binv (run_ops ops).
Proof.
  unfold run_ops. assert (H : binv empty) by (repeat split; simpl; auto; discriminate).
  revert H. generalize empty. induction ops as [|o ops IH]; intros b H; simpl; [apply H|]. apply IH, apply_op_inv, H.
Qed.

(* min / max / count of the accepted entries *)
Theorem meta_ok ops : let b := run_ops ops in
  count b = length (ents b) /\
  (ents b <> [] -> hd_error (map fst (ents b)) = Some (min_key b) /\ last (map fst (ents b)) 0 = max_key b).
Proof.
  intros b. split; [reflexivity|]. intros Hne. destruct (run_ops_binv ops) as (_ & Hf & Hn). fold b in Hf, Hn.
  split.
  - unfold min_key. destruct (ents b) as [|[k v] l]; [contradiction|reflexivity].
  - destruct (first b) eqn:E; [rewrite (Hf eq_refl) in Hne; contradiction|].
    destruct (Hn eq_refl) as (pre & v & Ee). rewrite Ee, map_app. simpl. rewrite last_last. reflexivity.
Qed.

(* ---------- iteration returns exactly the accepted entries, in order ---------- *)
Theorem iterate_complete (es : list (nat * bytes)) :
  iterate (map fst es) (offsets (map snd es) 0) (blob (map snd es)) = map (fun '(k, v) => (k, Some v)) es.
Proof.
  unfold iterate. rewrite map_length.
  assert (G : forall n (pre : list (nat * bytes)) (suf : list (nat * bytes)), es = pre ++ suf -> n = length pre ->
            map (fun '(i, k) => (k, get_block (offsets (map snd es) 0) (blob (map snd es)) i))
                (combine (seq n (length suf)) (map fst suf)) = map (fun '(k, v) => (k, Some v)) suf).
  { intros n pre suf. revert n pre. induction suf as [|[k v] suf IH]; intros n pre E Hn; [reflexivity|].
    cbn [length seq map combine fst]. f_equal.
    - f_equal. apply get_block_ok. rewrite nth_error_map, E, nth_error_app2, Hn, Nat.sub_diag by lia. reflexivity.
    - apply (IH (S n) (pre ++ [(k, v)])); [rewrite <- app_assoc; exact E|rewrite app_length; simpl; lia]. }
  apply (G 0 [] es); reflexivity.
Qed.

(* ---------- merged iterator (abstract): every entry exactly once, ordered by key ---------- *)
Lemma set_nth_concat {A} (its : list (list A)) i (e : A) r : nth_error its i = Some (e :: r) ->
  Permutation (concat its) (e :: concat (set_nth its i r)).
Proof.
  revert i. induction its as [|it its IH]; intros [|i] H; simpl in *; try discriminate.
  - inversion H; subst. reflexivity.
  - rewrite (IH i H). symmetry. apply Permutation_middle.
Qed.

Lemma nth_error_set_nth {A} (l : list A) i j x :
  nth_error (set_nth l i x) j = if i =? j then (match nth_error l i with Some _ => Some x | None => None end) else nth_error l j.
Proof.
  revert i j. induction l as [|y l IH]; intros i j.
  - assert (Hn : forall n, nth_error (@nil A) n = None) by (intros []; reflexivity).
    destruct i; simpl; rewrite !Hn; destruct j; simpl; try reflexivity; destruct (i =? j); reflexivity.
  - destruct i as [|i], j as [|j]; simpl; try reflexivity. apply IH.
Qed.

Lemma set_nth_hit {A} (l : list A) i x y : nth_error l i = Some y -> nth_error (set_nth l i x) i = Some x.
Proof. intros H. rewrite nth_error_set_nth, Nat.eqb_refl, H. reflexivity. Qed.
Lemma set_nth_miss {A} (l : list A) i j x : i <> j -> nth_error (set_nth l i x) j = nth_error l j.
Proof. intros H. rewrite nth_error_set_nth. destruct (Nat.eqb_spec i j); [contradiction|reflexivity]. Qed.

Lemma sorted_le_tail a l : sorted_le (a :: l) -> sorted_le l.
Proof. destruct l; simpl; tauto. Qed.
Lemma sorted_le_head a b l : sorted_le (a :: b :: l) -> fst a <= fst b.
Proof. simpl; tauto. Qed.

Lemma merges_head its e out : merges its (e :: out) -> exists i r, nth_error its i = Some (e :: r).
Proof. intros H. inversion H; subst. eauto. Qed.

Theorem merges_perm_sorted its out :
  (forall it, In it its -> sorted_le it) -> merges its out ->
  Permutation out (concat its) /\ sorted_le out.
Proof.
  intros Hs Hm. induction Hm as [its Hall|its i e r out Hi Hmin Hm IH].
  - split; [|exact I]. assert (concat its = []) as ->; [|reflexivity].
    induction its as [|it its IHl]; [reflexivity|]. simpl. rewrite (Hall it (or_introl eq_refl)). simpl.
    apply IHl; intros; [apply Hs|apply Hall]; now right.
  - assert (Hs' : forall it, In it (set_nth its i r) -> sorted_le it).
    { intros it Hin. apply In_nth_error in Hin as (j & Hj).
      destruct (Nat.eq_dec i j) as [<-|Hne].
      - rewrite (set_nth_hit its i r _ Hi) in Hj. inversion Hj; subst.
        apply (sorted_le_tail e). apply Hs. exact (nth_error_In _ _ Hi).
      - rewrite (set_nth_miss its i j r Hne) in Hj. apply Hs. exact (nth_error_In _ _ Hj). }
    destruct (IH Hs') as [P S]. split.
    + rewrite (set_nth_concat its i e r Hi). apply perm_skip, P.
    + destruct out as [|e2 out]; [exact I|]. split; [|exact S].
      destruct (merges_head _ _ _ Hm) as (j & r2 & Hj).
      destruct (Nat.eq_dec i j) as [<-|Hne].
      * rewrite (set_nth_hit its i r _ Hi) in Hj. inversion Hj; subst.
        apply (sorted_le_head e e2 r2). apply Hs. exact (nth_error_In _ _ Hi).
      * rewrite (set_nth_miss its i j r Hne) in Hj. apply (Hmin j e2 r2 Hj).
Qed.

(* ---------- Load: every file of the version that holds the key is consulted ---------- *)
Definition file_ok (f : file) : Prop :=
  asc (map fst (f_ents f)) /\ forall k, In k (map fst (f_ents f)) -> f_min f <= k <= f_max f.

Lemma assoc_some_in (es : list ent) k v : assoc k es = Some v -> In k (map fst es).
Proof.
  induction es as [|[k' v'] es IH]; simpl; [discriminate|].
  destruct (Nat.eqb_spec k' k) as [->|Hne]; [intros _; now left|intros H; right; apply IH, H].
Qed.

Theorem load_all_values files k : (forall f, In f files -> file_ok f) ->
  load files k = flat_map (fun f => match assoc k (f_ents f) with Some v => [v] | None => [] end) files.
Proof.
  intros Hok. unfold load, find_files. induction files as [|f files IH]; [reflexivity|].
  cbn [filter flat_map].
  destruct ((f_min f <=? k) && (k <=? f_max f)) eqn:E.
  - cbn [flat_map]. f_equal. apply IH. intros; apply Hok; now right.
  - destruct (assoc k (f_ents f)) as [v|] eqn:Ea.
    + exfalso. destruct (Hok f (or_introl eq_refl)) as [_ Hr]. specialize (Hr k (assoc_some_in _ _ _ Ea)).
      apply andb_false_iff in E as [E|E]; [apply Nat.leb_gt in E|apply Nat.leb_gt in E]; lia.
    + simpl. apply IH. intros; apply Hok; now right.
Qed.

Example heap_merge_example :
  heap_merge [[(1, [1]); (5, [2]); (9, [3])]; []; [(2, [4]); (5, [5])]; [(0, [6])]] =
  [(0, [6]); (1, [1]); (2, [4]); (5, [2]); (5, [5]); (9, [3])].
Proof. vm_compute. reflexivity. Qed.
