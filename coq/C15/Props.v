(* C15 — property theorems only. *)
From Coq Require Import List Arith Permutation.
Import ListNotations.
From LinDBV.C15 Require Import Model Proofs.

(* whatever sequence of add / stream writes is fed to the builder, the accepted keys are strictly
   ascending; an out-of-order key changes nothing, an accepted one is appended with its exact bytes *)
Theorem C15_builder :
  (forall ops, asc (map fst (ents (run_ops ops)))) /\
  (forall b o, apply_op b o = if accepts b (op_key o)
                 then {| ents := ents b ++ [(op_key o, op_val o)]; maxk := op_key o; first := false |} else b).
Proof. exact (conj run_ops_sorted apply_op_spec). Qed.
Print Assumptions C15_builder.

(* lookup by rank and offsets returns exactly the added bytes, and None for an absent key *)
Theorem C15_table_get : forall (es : list (nat * bytes)) k, asc (map fst es) ->
  get (map fst es) (offsets (map snd es) 0) (blob (map snd es)) k = assoc k es.
Proof. exact table_get. Qed.
Print Assumptions C15_table_get.

(* iteration yields exactly the accepted entries in ascending key order *)
Theorem C15_iterate : forall (es : list (nat * bytes)),
  iterate (map fst es) (offsets (map snd es) 0) (blob (map snd es)) = map (fun '(k, v) => (k, Some v)) es.
Proof. exact iterate_complete. Qed.
Print Assumptions C15_iterate.

(* min / max / count *)
Theorem C15_meta : forall ops, let b := run_ops ops in
  count b = length (ents b) /\
  (ents b <> [] -> hd_error (map fst (ents b)) = Some (min_key b) /\ last (map fst (ents b)) 0 = max_key b).
Proof. exact meta_ok. Qed.
Print Assumptions C15_meta.

(* merging any number of sorted inputs, whatever input the queue pops among those with a minimal head:
   every entry of every input exactly once, ordered by key *)
Theorem C15_merged_iterator : forall its out,
  (forall it, In it its -> sorted_le it) -> merges its out ->
  Permutation out (concat its) /\ sorted_le out.
Proof. exact merges_perm_sorted. Qed.
Print Assumptions C15_merged_iterator.

(* a lookup over a version returns the value of every file that holds the key *)
Theorem C15_load_all_values : forall files k, (forall f, In f files -> file_ok f) ->
  load files k = flat_map (fun f => match assoc k (f_ents f) with Some v => [v] | None => [] end) files.
Proof. exact load_all_values. Qed.
Print Assumptions C15_load_all_values.
