From Coq Require Import List Arith Bool ZArith.
Import ListNotations.
From LinDBV.C16 Require Import Model.
From LinDBV.C13 Require Import Model.
Open Scope nat_scope.

Fixpoint kvs_eqb (a b : list kv) : bool :=
  match a, b with
  | [], [] => true
  | (k, v) :: a', (k', v') :: b' => (k =? k') && (v =? v') && kvs_eqb a' b'
  | _, _ => false
  end.
Definition mem_kv (x : kv) (l : list kv) : bool := existsb (fun y => (fst x =? fst y) && (snd x =? snd y)) l.
Fixpoint lt_sorted_b (l : list kv) : bool :=
  match l with x :: ((y :: _) as t) => (fst x <? fst y) && lt_sorted_b t | _ => true end.
Definition functional_b (l : list kv) : bool :=
  forallb (fun x => forallb (fun y => negb (fst x =? fst y) || (snd x =? snd y)) l) l.
Definition verr_code (e : option verr) : nat :=
  match e with
  | None => 0 | Some EEmptyName => 1 | Some ENameTooLong => 2 | Some EEmptyField => 3 | Some ETooManyTags => 4
  | Some EEmptyTag => 5 | Some ETagKeyTooLong => 6 | Some ETagValueTooLong => 7 | Some ETooManyFields => 8
  | Some EBadFormat => 9 | Some EEmptyFieldName => 10 | Some EFieldNameTooLong => 11 | Some ENaN => 12 | Some EInf => 13
  end.

(* conversion of one metric (protobuf path): [sent] tags incl. enriched, [stored] = None if rejected with code [err] *)
Definition check_convert (l : limits) (m : pmetric) (sent : list kv) (err : nat) (stored : option (list kv)) : nat * nat :=
  let v := validate l m in
  match stored with
  | None => (if (verr_code v =? err) && negb (err =? 0) then 0 else 1, 0)
  | Some st =>
      (if (verr_code v =? 0) && (if functional_b sent then kvs_eqb (canon sent) st else true) then 0 else 1,
       (* property (a): sorted, each key once, exactly the keys sent, each value one of those sent for its key *)
       if lt_sorted_b st && forallb (fun x => mem_kv x sent) st &&
          forallb (fun x => existsb (fun y => fst x =? fst y) st) sent then 0 else 1)
  end%nat.

(* conversion through the flat / line-protocol paths: accepted rows only *)
Definition check_stored (sent st : list kv) : nat * nat :=
  ((if (if functional_b sent then kvs_eqb (canon sent) st else true) then 0 else 1)%nat,
   (if lt_sorted_b st && forallb (fun x => mem_kv x sent) st &&
       forallb (fun x => existsb (fun y => fst x =? fst y) st) sent then 0 else 1)%nat).

(* routing of one batch: [tn] interval type of the database's smallest interval (C13), observed groups
   (shard, family time, row ids) and evicted flags *)
Definition row_eqb_id (a : nat) (r : row) : bool := a =? rid r.
Fixpoint insert_nat (x : nat) (l : list nat) : list nat :=
  match l with [] => [x] | y :: l' => if x <=? y then x :: l else y :: insert_nat x l' end.
Definition sort_nat (l : list nat) : list nat := fold_right insert_nat [] l.
Fixpoint nats_eqb (a b : list nat) : bool :=
  match a, b with [], [] => true | x :: a', y :: b' => (x =? y) && nats_eqb a' b' | _, _ => false end.

Definition check_route (off : Z) (tn : Z) (nshards : nat) (now behind ahead : Z) (rows : list row)
           (groups : list (nat * Z * list nat)) (evicted_ids : list nat) : nat * nat :=
  let t := if (tn =? 0)%Z then Day else if (tn =? 1)%Z then Month else Year in
  let ft := family_time off t in
  let model := route ft rows in
  let same_groups :=
    (length model =? length groups) &&
    forallb (fun '(sh, fam, ids) =>
      existsb (fun '(k, rs) => (fst k =? sh) && (snd k =? fam)%Z && nats_eqb (sort_nat (map rid rs)) (sort_nat ids)) model) groups in
  let ev_model := sort_nat (map rid (filter (evicted now behind ahead) rows)) in
  ((if same_groups && nats_eqb ev_model (sort_nat evicted_ids) then 0 else 1)%nat,
   (* property (c),(d) on the implementation's own output: every row in exactly one group, shard below the
      count, the row's timestamp inside the group's family range, evicted = outside the window *)
   (if nats_eqb (sort_nat (concat (map snd groups))) (sort_nat (map rid rows)) &&
       forallb (fun '(sh, fam, ids) =>
         (sh <? nshards) &&
         forallb (fun i => existsb (fun r => (rid r =? i) && (rshard r =? sh) &&
                                             (fam <=? rts r)%Z && (rts r <=? family_end off t fam)%Z) rows) ids) groups &&
       forallb (fun r => Bool.eqb (existsb (Nat.eqb (rid r)) evicted_ids)
                                  (((0 <? behind) && (rts r <? now - behind) || (0 <? ahead) && (now + ahead <? rts r))%Z)) rows
    then 0 else 1)%nat).
