(* C16 — ingestion: tag canonicalisation (sort by key, 2-pointer de-duplication "later wins"),
   the decision list of validateMetric (series/metric/row_proto_converter.go), write-window
   eviction and shard/family routing (series/metric/row_broker.go).  Tag keys are natural
   numbers ordered like the keys' byte strings, values are opaque ids.  Definitions only. *)
From Coq Require Import List Arith Bool ZArith.
Import ListNotations.

Definition kv := (nat * nat)%type.         (* key, value; keys ordered by < *)

(* stable insertion sort by key: the order Go's sort.Sort gives for the small slices of tags *)
Fixpoint insert (x : kv) (l : list kv) : list kv :=
  match l with
  | [] => [x]
  | y :: l' => if fst x <? fst y then x :: l else y :: insert x l'
  end.
Definition isort (l : list kv) : list kv := fold_left (fun acc x => insert x acc) l [].

(* 2-pointer de-duplication: for equal neighbouring keys the later element wins *)
Fixpoint dedup (l : list kv) : list kv :=
  match l with
  | x :: ((y :: _) as t) => if fst x =? fst y then dedup t else x :: dedup t
  | _ => l
  end.
Definition canon (l : list kv) : list kv := dedup (isort l).


(* ---------- validateMetric: decision list, first failing check wins ---------- *)
Inductive verr :=
| EEmptyName | ENameTooLong | EEmptyField | ETooManyTags | EEmptyTag | ETagKeyTooLong | ETagValueTooLong
| ETooManyFields | EBadFormat | EEmptyFieldName | EFieldNameTooLong | ENaN | EInf.

Record limits := { max_name : nat; max_tags : nat; max_tag_key : nat; max_tag_value : nat;
                   max_fields : nat; max_field_name : nat }.   (* 0 = check disabled *)
Definition over (lim n : nat) : bool := (0 <? lim) && (lim <? n).

(* per simple field: name length, type specified?, value class (0 finite, 1 NaN, 2 Inf) *)
Definition sfield := (nat * bool * nat)%type.
(* compound field: number of values, number of bounds, all numbers >= 0, bounds increasing, last bound +Inf *)
Definition cfield := (nat * nat * bool * bool * bool)%type.
Record pmetric := { name_len : nat; tags_len : list (nat * nat) (* key/value byte lengths incl. enriched tags *);
                    sfields : list sfield; compound : option cfield }.

Fixpoint check_tags (l : limits) (ts : list (nat * nat)) : option verr :=
  match ts with
  | [] => None
  | (k, v) :: ts' =>
      if (k =? 0) || (v =? 0) then Some EEmptyTag
      else if over (max_tag_key l) k then Some ETagKeyTooLong
      else if over (max_tag_value l) v then Some ETagValueTooLong
      else check_tags l ts'
  end.
Fixpoint check_fields (l : limits) (fs : list sfield) : option verr :=
  match fs with
  | [] => None
  | (n, spec, cls) :: fs' =>
      if n =? 0 then Some EEmptyFieldName
      else if over (max_field_name l) n then Some EFieldNameTooLong
      else if negb spec then Some EBadFormat
      else if cls =? 1 then Some ENaN
      else if cls =? 2 then Some EInf
      else check_fields l fs'
  end.
Definition check_compound (c : option cfield) : option verr :=
  match c with
  | None => None
  | Some (nv, nb, nonneg, incr, lastinf) =>
      if negb (nv =? nb) || (nv <=? 2) then Some EBadFormat
      else if negb nonneg || negb incr || negb lastinf then Some EBadFormat else None
  end.
Definition orelse (a b : option verr) : option verr := match a with Some e => Some e | None => b end.

Definition validate (l : limits) (m : pmetric) : option verr :=
  if name_len m =? 0 then Some EEmptyName
  else if over (max_name l) (name_len m) then Some ENameTooLong
  else if (length (sfields m) =? 0) && (match compound m with None => true | _ => false end) then Some EEmptyField
  else if over (max_tags l) (length (tags_len m)) then Some ETooManyTags
  else orelse (check_tags l (tags_len m))
       (if over (max_fields l) (length (sfields m)) then Some ETooManyFields
        else orelse (check_fields l (sfields m)) (check_compound (compound m))).

(* ---------- eviction and routing ---------- *)
(* a row after conversion: id, timestamp, shard (jump hash of the tags hash, computed by the code) *)
Record row := { rid : nat; rts : Z; rshard : nat }.

Definition evicted (now behind ahead : Z) (r : row) : bool :=
  ((0 <? behind) && (rts r <? now - behind) || (0 <? ahead) && (now + ahead <? rts r))%Z.

(* groups keyed by (shard, family time); [ftime] is the family time of the row's timestamp (C13) *)
Definition gkey := (nat * Z)%type.
Definition gkey_eqb (a b : gkey) : bool := (fst a =? fst b) && (snd a =? snd b)%Z.
Fixpoint add_group (k : gkey) (r : row) (gs : list (gkey * list row)) : list (gkey * list row) :=
  match gs with
  | [] => [(k, [r])]
  | (k', rs) :: gs' => if gkey_eqb k k' then (k', rs ++ [r]) :: gs' else (k', rs) :: add_group k r gs'
  end.
Definition route (ftime : Z -> Z) (rows : list row) : list (gkey * list row) :=
  fold_left (fun gs r => add_group (rshard r, ftime (rts r)) r gs) rows [].
