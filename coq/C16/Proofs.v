From Coq Require Import List Arith Lia Bool Permutation ZArith.
Import ListNotations.
From LinDBV.C16 Require Import Model.

(* ---------- sortedness ---------- *)
Fixpoint le_sorted (l : list kv) : Prop := match l with x :: ((y :: _) as t) => fst x <= fst y /\ le_sorted t | _ => True end.
Fixpoint lt_sorted (l : list kv) : Prop := match l with x :: ((y :: _) as t) => fst x < fst y /\ lt_sorted t | _ => True end.

Lemma le_sorted_tail x l : le_sorted (x :: l) -> le_sorted l.
Proof. destruct l; simpl; tauto. Qed.

Lemma insert_sorted x l : le_sorted l -> le_sorted (insert x l).
Proof.
  induction l as [|y l IH]; simpl; intros H; [exact I|].
  destruct (Nat.ltb_spec (fst x) (fst y)).
  - simpl. split; [lia|exact H].
  - specialize (IH (le_sorted_tail _ _ H)).
    destruct l as [|z l]; simpl in *; [split; [lia|exact I]|].
    destruct (Nat.ltb_spec (fst x) (fst z)); simpl; [split; [lia|split; [lia|tauto]]|split; [tauto|exact IH]].
Qed.

Lemma isort_sorted_from acc l : le_sorted acc -> le_sorted (fold_left (fun a x => insert x a) l acc).
Proof. revert acc; induction l as [|x l IH]; simpl; intros acc H; [exact H|]. apply IH, insert_sorted, H. Qed.
Lemma isort_sorted l : le_sorted (isort l).
Proof. apply isort_sorted_from. exact I. Qed.

Lemma insert_perm x l : Permutation (x :: l) (insert x l).
Proof.
  induction l as [|y l IH]; simpl; [reflexivity|].
  destruct (fst x <? fst y); [reflexivity|]. rewrite perm_swap. apply perm_skip, IH.
Qed.
Lemma isort_perm_from acc l : Permutation (acc ++ l) (fold_left (fun a x => insert x a) l acc).
Proof.
  revert acc; induction l as [|x l IH]; intros acc; simpl; [rewrite app_nil_r; reflexivity|].
  rewrite <- IH. rewrite <- (insert_perm x acc). rewrite <- Permutation_middle. reflexivity.
Qed.
Lemma isort_perm l : Permutation l (isort l).
Proof. apply (isort_perm_from [] l). Qed.

(* ---------- dedup ---------- *)
Lemma dedup_head_key x l : le_sorted (x :: l) -> exists v l', dedup (x :: l) = (fst x, v) :: l' /\
   (forall y, In y l' -> fst x < fst y).
Proof.
  revert x; induction l as [|y l IH]; intros x H.
  - exists (snd x), []. destruct x; simpl. split; [reflexivity|intros ? []].
  - simpl in H. destruct H as [Hxy Hl].
    destruct (IH y Hl) as (v & l' & E & Hgt).
    change (dedup (x :: y :: l)) with (if fst x =? fst y then dedup (y :: l) else x :: dedup (y :: l)).
    destruct (Nat.eqb_spec (fst x) (fst y)) as [Eq|Ne].
    + rewrite E, <- Eq. exists v, l'. split; [reflexivity|]. intros z Hz. specialize (Hgt z Hz). lia.
    + rewrite E. exists (snd x), ((fst y, v) :: l'). destruct x; simpl in *. split; [reflexivity|].
      intros z [<-|Hz]; simpl; [lia|]. specialize (Hgt z Hz). lia.
Qed.

Lemma dedup_lt_sorted l : le_sorted l -> lt_sorted (dedup l).
Proof.
  induction l as [|x l IH]; intros H; [exact I|].
  destruct l as [|y l]; [exact I|].
  pose proof (IH (le_sorted_tail _ _ H)) as IHt.
  change (dedup (x :: y :: l)) with (if fst x =? fst y then dedup (y :: l) else x :: dedup (y :: l)).
  destruct (Nat.eqb_spec (fst x) (fst y)); [exact IHt|].
  destruct (dedup_head_key y l (le_sorted_tail _ _ H)) as (v & l' & E & _).
  rewrite E in *. simpl. simpl in H. split; [lia|exact IHt].
Qed.

Theorem canon_sorted_nodup l : lt_sorted (canon l).
Proof. apply dedup_lt_sorted, isort_sorted. Qed.

Lemma dedup_incl l : incl (dedup l) l.
Proof.
  induction l as [|x l IH]; [intros ? []|]. destruct l as [|y l]; [intros ? H; exact H|].
  change (dedup (x :: y :: l)) with (if fst x =? fst y then dedup (y :: l) else x :: dedup (y :: l)).
  destruct (fst x =? fst y); intros z Hz; [right; apply IH, Hz|].
  destruct Hz as [<-|Hz]; [left; reflexivity|right; apply IH, Hz].
Qed.

(* each surviving pair was sent: the value kept for a key is one of the values sent for that key *)
Theorem canon_value_from_input l k v : In (k, v) (canon l) -> In (k, v) l.
Proof. intros H. apply (Permutation_in _ (Permutation_sym (isort_perm l))). apply dedup_incl, H. Qed.

Lemma dedup_keys l k : In k (map fst l) -> In k (map fst (dedup l)).
Proof.
  induction l as [|x l IH]; [intros []|]. destruct l as [|y l]; [intros H; exact H|].
  change (dedup (x :: y :: l)) with (if fst x =? fst y then dedup (y :: l) else x :: dedup (y :: l)).
  intros [<-|H].
  - destruct (Nat.eqb_spec (fst x) (fst y)) as [E|_]; [apply IH; left; symmetry; exact E|left; reflexivity].
  - destruct (fst x =? fst y); [apply IH, H|right; apply IH, H].
Qed.
Theorem canon_keys l k : In k (map fst l) <-> In k (map fst (canon l)).
Proof.
  split; intros H.
  - apply dedup_keys. apply (Permutation_in _ (Permutation_map fst (isort_perm l))), H.
  - apply in_map_iff in H as ([k' v] & <- & Hin). apply in_map_iff. exists (k', v). split; [reflexivity|].
    apply canon_value_from_input, Hin.
Qed.

(* ---------- permutation invariance for distinct keys ---------- *)
Lemma dedup_id l : lt_sorted l -> dedup l = l.
Proof.
  induction l as [|x l IH]; intros H; [reflexivity|]. destruct l as [|y l]; [reflexivity|].
  simpl in H. destruct H as [Hxy Hl].
  change (dedup (x :: y :: l)) with (if fst x =? fst y then dedup (y :: l) else x :: dedup (y :: l)).
  destruct (Nat.eqb_spec (fst x) (fst y)); [lia|]. rewrite (IH Hl). reflexivity.
Qed.

Lemma lt_sorted_all x l : lt_sorted (x :: l) -> forall y, In y l -> fst x < fst y.
Proof.
  revert x; induction l as [|z l IH]; intros x H y Hin; [destruct Hin|].
  simpl in H. destruct H as [Hxz Hl]. destruct Hin as [<-|Hin]; [exact Hxz|]. specialize (IH z Hl y Hin). lia.
Qed.
Lemma lt_sorted_tail x l : lt_sorted (x :: l) -> lt_sorted l.
Proof. destruct l; simpl; tauto. Qed.

Lemma lt_sorted_perm_eq l1 : forall l2, lt_sorted l1 -> lt_sorted l2 -> Permutation l1 l2 -> l1 = l2.
Proof.
  induction l1 as [|x l1 IH]; intros l2 H1 H2 P.
  - apply Permutation_nil in P. subst. reflexivity.
  - destruct l2 as [|y l2]; [apply Permutation_sym, Permutation_nil in P; discriminate|].
    assert (Hxy : x = y).
    { assert (Hx : In x (y :: l2)) by (apply (Permutation_in _ P); left; reflexivity).
      assert (Hy : In y (x :: l1)) by (apply (Permutation_in _ (Permutation_sym P)); left; reflexivity).
      destruct Hx as [->|Hx]; [reflexivity|]. destruct Hy as [->|Hy]; [reflexivity|].
      pose proof (lt_sorted_all _ _ H2 _ Hx). pose proof (lt_sorted_all _ _ H1 _ Hy). lia. }
    subst y. f_equal. apply IH; [eapply lt_sorted_tail; eauto|eapply lt_sorted_tail; eauto|].
    apply Permutation_cons_inv in P. exact P.
Qed.

Lemma le_sorted_nodup_lt l : le_sorted l -> NoDup (map fst l) -> lt_sorted l.
Proof.
  induction l as [|x l IH]; intros H N; [exact I|]. destruct l as [|y l]; [exact I|].
  simpl in H. destruct H as [Hxy Hl]. inversion N as [|? ? Hnin N']; subst.
  simpl. split; [|apply IH; assumption].
  assert (fst x <> fst y) by (intro E; apply Hnin; left; symmetry; exact E). lia.
Qed.

Theorem canon_perm_invariant l l' : NoDup (map fst l) -> Permutation l l' -> canon l = canon l'.
Proof.
  intros N P. unfold canon.
  assert (N' : NoDup (map fst l')) by (eapply Permutation_NoDup; [apply Permutation_map, P|exact N]).
  assert (S1 : lt_sorted (isort l)).
  { apply le_sorted_nodup_lt; [apply isort_sorted|]. eapply Permutation_NoDup; [apply Permutation_map, isort_perm|exact N]. }
  assert (S2 : lt_sorted (isort l')).
  { apply le_sorted_nodup_lt; [apply isort_sorted|]. eapply Permutation_NoDup; [apply Permutation_map, isort_perm|exact N']. }
  rewrite (dedup_id _ S1), (dedup_id _ S2). apply lt_sorted_perm_eq; auto.
  rewrite <- (isort_perm l), <- (isort_perm l'). exact P.
Qed.

(* ---------- permutation invariance when repeated keys carry equal values ---------- *)
Lemma lt_sorted_nodup l : lt_sorted l -> NoDup l.
Proof.
  induction l as [|x l IH]; intros H; constructor.
  - intros Hin. pose proof (lt_sorted_all _ _ H _ Hin). lia.
  - apply IH. eapply lt_sorted_tail; eauto.
Qed.

Lemma lt_sorted_ext l1 l2 : lt_sorted l1 -> lt_sorted l2 -> (forall x, In x l1 <-> In x l2) -> l1 = l2.
Proof.
  intros H1 H2 E. apply lt_sorted_perm_eq; auto.
  apply NoDup_Permutation; auto using lt_sorted_nodup.
Qed.

Definition functional (l : list kv) : Prop := forall k v v', In (k, v) l -> In (k, v') l -> v = v'.

Lemma canon_in_iff l : functional l -> forall x, In x (canon l) <-> In x l.
Proof.
  intros F [k v]. split; [apply canon_value_from_input|].
  intros Hin.
  assert (Hk : In k (map fst (canon l))).
  { apply (proj1 (canon_keys l k)). apply in_map_iff. exists (k, v). split; [reflexivity|exact Hin]. }
  apply in_map_iff in Hk as ([k' v'] & Ek & Hc). simpl in Ek. subst k'.
  pose proof (canon_value_from_input _ _ _ Hc) as Hl.
  rewrite (F k v v' Hin Hl). exact Hc.
Qed.

Theorem canon_perm_invariant_eqdup l l' : functional l -> Permutation l l' -> canon l = canon l'.
Proof.
  intros F P.
  assert (F' : functional l').
  { intros k v v' A B. apply (F k v v'); eapply Permutation_in; try apply Permutation_sym; eauto. }
  apply lt_sorted_ext; try apply canon_sorted_nodup.
  intros x. rewrite (canon_in_iff l F), (canon_in_iff l' F'). split; apply Permutation_in; auto using Permutation_sym.
Qed.

(* ---------- routing ---------- *)
Lemma gkey_eqb_eq a b : gkey_eqb a b = true <-> a = b.
Proof.
  destruct a as [a1 a2], b as [b1 b2]. unfold gkey_eqb. simpl.
  rewrite andb_true_iff, Nat.eqb_eq, Z.eqb_eq. split; [intros [-> ->]; reflexivity|intros E; inversion E; auto].
Qed.

Section Route.
Variable ftime : Z -> Z.
Definition key_of (r : row) : gkey := (rshard r, ftime (rts r)).
Definition GInv (gs : list (gkey * list row)) : Prop :=
  NoDup (map fst gs) /\ forall k rs, In (k, rs) gs -> rs <> [] /\ forall r, In r rs -> key_of r = k.

Lemma add_group_keys k r gs : forall k', In k' (map fst (add_group k r gs)) <-> k' = k \/ In k' (map fst gs).
Proof.
  induction gs as [|[k0 rs] gs IH]; intros k'; simpl; [intuition congruence|].
  destruct (gkey_eqb k k0) eqn:E.
  - apply gkey_eqb_eq in E. subst. simpl. intuition congruence.
  - simpl. rewrite IH. intuition congruence.
Qed.

Lemma add_group_inv r gs : GInv gs -> GInv (add_group (key_of r) r gs).
Proof.
  intros [Hnd Hk]. induction gs as [|[k0 rs] gs IH]; simpl.
  - split; [repeat constructor; intros []|]. intros k rs' [E|[]]. inversion E; subst.
    split; [discriminate|]. intros r' [<-|[]]. reflexivity.
  - inversion Hnd as [|? ? Hni Hnd']; subst.
    assert (Hk' : forall k rs0, In (k, rs0) gs -> rs0 <> [] /\ forall r0, In r0 rs0 -> key_of r0 = k)
      by (intros; apply Hk; right; assumption).
    destruct (gkey_eqb (key_of r) k0) eqn:E.
    + apply gkey_eqb_eq in E. split; [exact Hnd|].
      intros k rs' [E'|Hin]; [|apply Hk; right; exact Hin]. inversion E'; subst.
      destruct (Hk _ rs (or_introl eq_refl)) as [Hne Hall]. split.
      * destruct rs; discriminate.
      * intros r' Hr'. apply in_app_or in Hr' as [Hr'|[<-|[]]]; [apply Hall, Hr'|reflexivity].
    + destruct (IH Hnd' Hk') as [Hnd2 Hk2]. split.
      * simpl. constructor; [|exact Hnd2]. intros Hin. apply add_group_keys in Hin as [->|Hin]; [|contradiction].
        assert (gkey_eqb (key_of r) (key_of r) = true) by (apply gkey_eqb_eq; reflexivity). congruence.
      * intros k rs' [E'|Hin]; [inversion E'; subst; apply Hk; left; reflexivity|apply Hk2, Hin].
Qed.

Lemma add_group_perm k r gs : Permutation (concat (map snd (add_group k r gs))) (r :: concat (map snd gs)).
Proof.
  induction gs as [|[k0 rs] gs IH]; simpl; [reflexivity|].
  destruct (gkey_eqb k k0); simpl.
  - rewrite <- app_assoc. simpl. symmetry. apply Permutation_middle.
  - rewrite IH. symmetry. apply Permutation_middle.
Qed.

Lemma route_from_inv rows : forall gs, GInv gs ->
  GInv (fold_left (fun gs r => add_group (rshard r, ftime (rts r)) r gs) rows gs) /\
  Permutation (concat (map snd (fold_left (fun gs r => add_group (rshard r, ftime (rts r)) r gs) rows gs)))
              (concat (map snd gs) ++ rows).
Proof.
  induction rows as [|r rows IH]; intros gs H; simpl.
  - split; [exact H|]. rewrite app_nil_r. reflexivity.
  - destruct (IH _ (add_group_inv r gs H)) as [A B]. split; [exact A|].
    rewrite B. unfold key_of. rewrite add_group_perm. simpl. apply Permutation_middle.
Qed.

(* every row goes to exactly one group; a group's key is the (shard, family) of each of its rows,
   which depends on that row alone; group keys are pairwise distinct *)
Theorem route_partition rows :
  Permutation (concat (map snd (route ftime rows))) rows /\
  NoDup (map fst (route ftime rows)) /\
  (forall k rs, In (k, rs) (route ftime rows) -> rs <> [] /\ forall r, In r rs -> (rshard r, ftime (rts r)) = k).
Proof.
  unfold route. assert (H0 : GInv []) by (split; [constructor|intros ? ? []]).
  destruct (route_from_inv rows [] H0) as [[A1 A2] B]. simpl in B. repeat split; auto; apply (A2 k rs H).
Qed.
End Route.

(* write-window eviction drops exactly the rows outside [now - behind, now + ahead] *)
Theorem evict_exact now behind ahead r : (0 < behind)%Z -> (0 < ahead)%Z ->
  evicted now behind ahead r = false <-> (now - behind <= rts r <= now + ahead)%Z.
Proof.
  intros Hb Ha. unfold evicted.
  destruct (Z.ltb_spec 0 behind); [|lia]. destruct (Z.ltb_spec 0 ahead); [|lia]. simpl.
  destruct (Z.ltb_spec (rts r) (now - behind)); destruct (Z.ltb_spec (now + ahead) (rts r)); simpl; split; intros; try lia; try discriminate; reflexivity.
Qed.

(* validation is a decision: a metric is either rejected with the first failing check or accepted whole *)
Theorem validate_total l m : {e | validate l m = Some e} + {validate l m = None}.
Proof. destruct (validate l m) as [e|]; [left; exists e; reflexivity|right; reflexivity]. Qed.

Example canon_example : canon [(3, 1); (1, 2); (3, 5); (2, 9); (1, 7)] = [(1, 7); (2, 9); (3, 5)].
Proof. vm_compute. reflexivity. Qed.
