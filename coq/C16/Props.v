(* C16 — property theorems only. *)
From Coq Require Import List Arith Permutation ZArith.
Import ListNotations.
From LinDBV.C16 Require Import Model Proofs.

(* stored tags are strictly sorted by key: sorted, each key once *)
Theorem C16_canon_sorted_nodup : forall l, lt_sorted (canon l).
Proof. exact canon_sorted_nodup. Qed.
Print Assumptions C16_canon_sorted_nodup.

(* exactly the keys that were sent survive, and the value kept for a key is one of the values sent for it *)
Theorem C16_canon_keys_and_values :
  (forall l k, In k (map fst l) <-> In k (map fst (canon l))) /\
  (forall l k v, In (k, v) (canon l) -> In (k, v) l).
Proof. exact (conj canon_keys canon_value_from_input). Qed.
Print Assumptions C16_canon_keys_and_values.

(* the canonical tag list (hence its hash and the shard) does not depend on tag order, for tag lists
   whose repeated keys carry equal values (in particular for distinct keys) *)
Theorem C16_canon_perm_invariant : forall l l',
  (forall k v v', In (k, v) l -> In (k, v') l -> v = v') -> Permutation l l' -> canon l = canon l'.
Proof. exact canon_perm_invariant_eqdup. Qed.
Print Assumptions C16_canon_perm_invariant.

(* routing is a partition of the batch: every row in exactly one group, the group's key is the
   (shard, family time) of each of its rows — a function of that row alone — and keys are distinct *)
Theorem C16_route_partition : forall ftime rows,
  Permutation (concat (map snd (route ftime rows))) rows /\
  NoDup (map fst (route ftime rows)) /\
  (forall k rs, In (k, rs) (route ftime rows) -> rs <> [] /\ forall r, In r rs -> (rshard r, ftime (rts r)) = k).
Proof. exact route_partition. Qed.
Print Assumptions C16_route_partition.

(* exactly the rows outside the write window are dropped *)
Theorem C16_evict_exact : forall now behind ahead r, (0 < behind)%Z -> (0 < ahead)%Z ->
  evicted now behind ahead r = false <-> (now - behind <= rts r <= now + ahead)%Z.
Proof. exact evict_exact. Qed.
Print Assumptions C16_evict_exact.
