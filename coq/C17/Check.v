From Coq Require Import List String ZArith Bool.
Import ListNotations.
From LinDBV.C17 Require Import Model.

(* [q]: the statement the parser (or the generator) produced, rendered in the model's constructors;
   [wire]: the JSON the implementation put on the wire, as a tree.
   correspondence: the model's marshal gives the same tree, and the model's decoder applied to the
   implementation's bytes gives a statement that marshals to the same tree (i.e. [q], by injectivity). *)
Definition check_query (q : query) (wire : json) : nat * nat :=
  (if json_eqb (marshal_query q) wire &&
      match unmarshal_query 64 wire with Some q' => json_eqb (marshal_query q') (marshal_query q) | None => false end
   then 0 else 1, 0).
Definition check_expr (e : expr) (wire : json) : nat * nat :=
  (if json_eqb (marshal e) wire &&
      match unmarshal 64 wire with Some e' => json_eqb (marshal e') (marshal e) | None => false end
   then 0 else 1, 0).
