From Coq Require Import List String ZArith Bool.
Import ListNotations.
Open Scope string_scope.

(* C17 — statements on the wire.  Model of sql/stmt/expr.go Marshal/Unmarshal and
   sql/stmt/query.go MarshalJSON/UnmarshalJSON over an abstract JSON tree.  Definitions only. *)

(* abstract JSON tree (what jsoniter prints/parses).  Floats are carried as their JSON text,
   intervals (printed by Interval.String as a text like "10s") as their millisecond value. *)
Inductive json :=
| JNull | JBool (b : bool) | JNum (z : Z) | JFloat (f : string) | JStr (s : string) | JIv (z : Z)
| JArr (l : list json) | JObj (l : list (string * json)).

Fixpoint field (k : string) (l : list (string * json)) : option json :=
  match l with [] => None | (k', v) :: l' => if String.eqb k' k then Some v else field k l' end.

(* sql/stmt/expr.go *)
Inductive expr :=
| Field (name : string)
| Number (val : string)                    (* float64 carried as its shortest round-trip text *)
| Call (fn : Z) (params : list expr)
| Paren (e : expr)
| Binary (l r : expr) (op : Z)
| Equals (k v : string)
| In_ (k : string) (vs : list string)
| Like (k v : string)
| Regex (k r : string)
| Not (e : expr)
| SelectItem (e : expr) (alias : string)
| OrderBy (e : expr) (desc : bool).

Definition jstrs (l : list string) : json := match l with [] => JNull | _ => JArr (map JStr l) end.

Fixpoint marshal (e : expr) : json :=
  match e with
  | Regex k r => JObj [("type", JStr "regex"); ("expr", JObj [("key", JStr k); ("regexp", JStr r)])]
  | Like k v => JObj [("type", JStr "like"); ("expr", JObj [("key", JStr k); ("value", JStr v)])]
  | In_ k vs => JObj [("type", JStr "in"); ("expr", JObj [("key", JStr k); ("values", jstrs vs)])]
  | Equals k v => JObj [("type", JStr "equals"); ("expr", JObj [("key", JStr k); ("value", JStr v)])]
  | Number v => JObj [("type", JStr "number"); ("expr", JObj [("val", JFloat v)])]
  | Field n => JObj [("type", JStr "field"); ("expr", JObj [("name", JStr n)])]
  | Not e1 => JObj [("type", JStr "not"); ("expr", marshal e1)]
  | Paren e1 => JObj [("type", JStr "paren"); ("expr", marshal e1)]
  | SelectItem e1 a => JObj [("type", JStr "selectItem"); ("expr", marshal e1); ("alias", JStr a)]
  | OrderBy e1 d => JObj [("type", JStr "orderBy"); ("expr", marshal e1); ("desc", JBool d)]
  | Call f ps => JObj [("type", JStr "call"); ("funcType", JNum f);
                       ("params", match ps with [] => JNull | _ => JArr (map marshal ps) end)]
  | Binary l r op => JObj [("type", JStr "binary"); ("left", marshal l); ("right", marshal r); ("operator", JNum op)]
  end.

Definition get_str (j : option json) : option string := match j with Some (JStr s) => Some s | _ => None end.
Definition get_strs (j : option json) : option (list string) :=
  match j with
  | Some JNull | None => Some []
  | Some (JArr l) => fold_right (fun x acc => match x, acc with JStr s, Some r => Some (s :: r) | _, _ => None end) (Some []) l
  | _ => None
  end.

Fixpoint unmarshal (fuel : nat) (j : json) : option expr :=
  match fuel with
  | O => None
  | S f =>
    match j with
    | JObj o =>
      match get_str (field "type" o) with
      | Some "regex" => match field "expr" o with Some (JObj x) =>
            match get_str (field "key" x), get_str (field "regexp" x) with Some k, Some r => Some (Regex k r) | _, _ => None end | _ => None end
      | Some "like" => match field "expr" o with Some (JObj x) =>
            match get_str (field "key" x), get_str (field "value" x) with Some k, Some v => Some (Like k v) | _, _ => None end | _ => None end
      | Some "in" => match field "expr" o with Some (JObj x) =>
            match get_str (field "key" x), get_strs (field "values" x) with Some k, Some vs => Some (In_ k vs) | _, _ => None end | _ => None end
      | Some "equals" => match field "expr" o with Some (JObj x) =>
            match get_str (field "key" x), get_str (field "value" x) with Some k, Some v => Some (Equals k v) | _, _ => None end | _ => None end
      | Some "number" => match field "expr" o with Some (JObj x) =>
            match field "val" x with Some (JFloat v) => Some (Number v) | _ => None end | _ => None end
      | Some "field" => match field "expr" o with Some (JObj x) =>
            match get_str (field "name" x) with Some n => Some (Field n) | _ => None end | _ => None end
      | Some "paren" => match field "expr" o with Some x => option_map Paren (unmarshal f x) | None => None end
      | Some "not" => match field "expr" o with Some x => option_map Not (unmarshal f x) | None => None end
      | Some "selectItem" => match field "expr" o, get_str (field "alias" o) with
            | Some x, Some a => option_map (fun e => SelectItem e a) (unmarshal f x) | _, _ => None end
      | Some "orderBy" => match field "expr" o, field "desc" o with
            | Some x, Some (JBool d) => option_map (fun e => OrderBy e d) (unmarshal f x) | _, _ => None end
      | Some "binary" => match field "left" o, field "right" o, field "operator" o with
            | Some l, Some r, Some (JNum op) =>
              match unmarshal f l, unmarshal f r with Some a, Some b => Some (Binary a b op) | _, _ => None end
            | _, _, _ => None end
      | Some "call" => match field "funcType" o with
            | Some (JNum fn) =>
              match field "params" o with
              | Some JNull | None => Some (Call fn [])
              | Some (JArr ps) =>
                option_map (Call fn)
                  (fold_right (fun x acc => match unmarshal f x, acc with Some e, Some r => Some (e :: r) | _, _ => None end) (Some []) ps)
              | _ => None
              end
            | _ => None end
      | _ => None
      end
    | _ => None
    end
  end.

Fixpoint depth (e : expr) : nat :=
  match e with
  | Call _ ps => S (fold_right (fun p m => Nat.max (depth p) m) 0 ps)
  | Paren e1 | Not e1 | SelectItem e1 _ | OrderBy e1 _ => S (depth e1)
  | Binary l r _ => S (Nat.max (depth l) (depth r))
  | _ => 1
  end.


(* ---------- sql/stmt/query.go ---------- *)
Record query := {
  q_explain : bool; q_namespace : string; q_metric : string; q_select : list expr; q_all : bool;
  q_cond : option expr; q_start : Z; q_end : Z; q_interval : Z; q_storage : Z; q_ratio : Z; q_auto : bool;
  q_groupby : list string; q_having : option expr; q_orderby : list expr; q_limit : Z }.

(* omitempty: a field list with optional members, flattened in declaration order *)
Definition fields_of (l : list (string * option json)) : list (string * json) :=
  flat_map (fun kv => match snd kv with Some v => [(fst kv, v)] | None => [] end) l.
Definition nonempty_str (s : string) : bool := negb (String.eqb s "").
Definition nonnil {A} (l : list A) : bool := match l with [] => false | _ => true end.
Definition when (b : bool) (v : json) : option json := if b then Some v else None.

Definition query_fields (q : query) : list (string * option json) :=
  [("explain", when (q_explain q) (JBool true));
   ("namespace", when (nonempty_str (q_namespace q)) (JStr (q_namespace q)));
   ("metricName", when (nonempty_str (q_metric q)) (JStr (q_metric q)));
   ("selectItems", when (nonnil (q_select q)) (JArr (map marshal (q_select q))));
   ("allFields", when (q_all q) (JBool true));
   ("condition", option_map marshal (q_cond q));
   ("timeRange", Some (JObj [("start", JNum (q_start q)); ("end", JNum (q_end q))]));
   ("interval", Some (JIv (q_interval q)));   (* omitempty has no effect: Interval is a json.Marshaler *)
   ("storageInterval", Some (JIv (q_storage q)));
   ("intervalRatio", when (negb (q_ratio q =? 0)%Z) (JNum (q_ratio q)));
   ("autoGroupByTime", when (q_auto q) (JBool true));
   ("groupBy", when (nonnil (q_groupby q)) (JArr (map JStr (q_groupby q))));
   ("having", option_map marshal (q_having q));
   ("orderByItems", when (nonnil (q_orderby q)) (JArr (map marshal (q_orderby q))));
   ("limit", when (negb (q_limit q =? 0)%Z) (JNum (q_limit q)))].

Definition marshal_query (q : query) : json := JObj (fields_of (query_fields q)).

Definition get_bool (j : option json) : option bool :=
  match j with None => Some false | Some (JBool b) => Some b | _ => None end.
Definition get_str0 (j : option json) : option string :=
  match j with None => Some "" | Some (JStr s) => Some s | _ => None end.
Definition get_num0 (j : option json) : option Z :=
  match j with None => Some 0%Z | Some (JNum z) => Some z | _ => None end.
Definition get_iv0 (j : option json) : option Z :=
  match j with None => Some 0%Z | Some (JIv z) => Some z | _ => None end.
Definition get_exprs (fuel : nat) (j : option json) : option (list expr) :=
  match j with
  | None | Some JNull => Some []
  | Some (JArr l) => fold_right (fun x acc => match unmarshal fuel x, acc with Some e, Some r => Some (e :: r) | _, _ => None end) (Some []) l
  | _ => None
  end.
Definition get_expr (fuel : nat) (j : option json) : option (option expr) :=
  match j with None => Some None | Some x => option_map Some (unmarshal fuel x) end.

Definition unmarshal_query (fuel : nat) (j : json) : option query :=
  match j with
  | JObj o =>
    match get_bool (field "explain" o), get_str0 (field "namespace" o), get_str0 (field "metricName" o),
          get_exprs fuel (field "selectItems" o), get_bool (field "allFields" o), get_expr fuel (field "condition" o) with
    | Some ex, Some ns, Some mn, Some sel, Some al, Some cond =>
      match field "timeRange" o with
      | Some (JObj tr) =>
        match get_num0 (field "start" tr), get_num0 (field "end" tr), get_iv0 (field "interval" o), get_iv0 (field "storageInterval" o),
              get_num0 (field "intervalRatio" o), get_bool (field "autoGroupByTime" o) with
        | Some st, Some en, Some iv, Some siv, Some ra, Some au =>
          match get_strs (field "groupBy" o), get_expr fuel (field "having" o), get_exprs fuel (field "orderByItems" o), get_num0 (field "limit" o) with
          | Some gb, Some hv, Some ob, Some lim =>
            Some {| q_explain := ex; q_namespace := ns; q_metric := mn; q_select := sel; q_all := al; q_cond := cond;
                    q_start := st; q_end := en; q_interval := iv; q_storage := siv; q_ratio := ra; q_auto := au;
                    q_groupby := gb; q_having := hv; q_orderby := ob; q_limit := lim |}
          | _, _, _, _ => None
          end
        | _, _, _, _, _, _ => None
        end
      | _ => None
      end
    | _, _, _, _, _, _ => None
    end
  | _ => None
  end.

Definition qdepth (q : query) : nat :=
  fold_right (fun p m => Nat.max (depth p) m) 0
    (q_select q ++ q_orderby q ++ match q_cond q with Some c => [c] | None => [] end ++ match q_having q with Some c => [c] | None => [] end).

(* ---------- structural equality of JSON trees (order sensitive) ---------- *)
Fixpoint json_eqb (a b : json) {struct a} : bool :=
  match a, b with
  | JNull, JNull => true
  | JBool x, JBool y => Bool.eqb x y
  | JNum x, JNum y => (x =? y)%Z
  | JFloat x, JFloat y => String.eqb x y
  | JStr x, JStr y => String.eqb x y
  | JIv x, JIv y => (x =? y)%Z
  | JArr x, JArr y =>
      (fix go (l1 l2 : list json) : bool :=
         match l1, l2 with
         | [], [] => true
         | u :: l1', v :: l2' => json_eqb u v && go l1' l2'
         | _, _ => false
         end) x y
  | JObj x, JObj y =>
      (fix go (l1 l2 : list (string * json)) : bool :=
         match l1, l2 with
         | [], [] => true
         | (k1, u) :: l1', (k2, v) :: l2' => String.eqb k1 k2 && json_eqb u v && go l1' l2'
         | _, _ => false
         end) x y
  | _, _ => false
  end.
