From Coq Require Import List String ZArith Bool Arith Lia.
Import ListNotations.
From LinDBV.C17 Require Import Model.
Open Scope string_scope.

Lemma get_strs_jstrs vs : get_strs (Some (jstrs vs)) = Some vs.
Proof. destruct vs as [|v vs]; [reflexivity|]. unfold jstrs, get_strs.
  induction (v :: vs) as [|x l IH]; simpl; [reflexivity|]. rewrite IH. reflexivity. Qed.

Theorem expr_roundtrip : forall fuel e, depth e <= fuel -> unmarshal fuel (marshal e) = Some e.
Proof.
  induction fuel as [|f IH]; intros e Hd.
  - destruct e; simpl in Hd; inversion Hd.
  - destruct e; simpl in Hd; cbn [marshal unmarshal field get_str String.eqb Ascii.eqb Bool.eqb]; try reflexivity.
    + (* Call *)
      destruct params as [|p ps]; [reflexivity|].
      cbn [option_map]. f_equal.
      assert (Hall : forall q, In q (p :: ps) -> depth q <= f).
      { intros q Hq. apply le_S_n in Hd. revert Hd. generalize (p :: ps) Hq. clear.
        induction l as [|x l IHl]; intros Hq Hd; [destruct Hq|]. simpl in Hd. destruct Hq as [<-|Hq].
        - eapply Nat.le_trans; [apply Nat.le_max_l|exact Hd].
        - apply IHl; [exact Hq|]. eapply Nat.le_trans; [apply Nat.le_max_r|exact Hd]. }
      match goal with |- option_map _ ?X = _ => assert (HX : X = Some (p :: ps)) end.
      { revert Hall. generalize (p :: ps). clear -IH. induction l as [|x l IHl]; intros Hall; [reflexivity|].
        cbn [map fold_right]. rewrite (IH x (Hall x (or_introl eq_refl))).
        rewrite IHl; [reflexivity|]. intros q Hq. apply Hall. right; exact Hq. }
      rewrite HX. reflexivity.
    + rewrite (IH e); [reflexivity|]. apply le_S_n in Hd. exact Hd.
    + apply le_S_n in Hd. rewrite (IH e1), (IH e2); [reflexivity| |].
      * eapply Nat.le_trans; [apply Nat.le_max_r|exact Hd].
      * eapply Nat.le_trans; [apply Nat.le_max_l|exact Hd].
    + rewrite get_strs_jstrs. reflexivity.
    + rewrite (IH e); [reflexivity|]. apply le_S_n in Hd. exact Hd.
    + rewrite (IH e); [reflexivity|]. apply le_S_n in Hd. exact Hd.
    + rewrite (IH e); [reflexivity|]. apply le_S_n in Hd. exact Hd.
Qed.

(* ---------- query ---------- *)
Lemma field_fields_of l k : NoDup (map fst l) -> forall ov, In (k, ov) l -> field k (fields_of l) = ov.
Proof.
  induction l as [|[k0 ov0] l IH]; intros Hnd ov Hin; [destruct Hin|].
  inversion Hnd as [|? ? Hni Hnd']; subst. unfold fields_of. cbn [flat_map fst snd].
  destruct Hin as [E|Hin].
  - inversion E; subst. destruct ov as [v|]; cbn [app field].
    + rewrite String.eqb_refl. reflexivity.
    + fold (fields_of l). clear -Hni. induction l as [|[k1 ov1] l IHl]; [reflexivity|].
      unfold fields_of. cbn [flat_map fst snd]. simpl in Hni.
      destruct ov1 as [v1|]; cbn [app field].
      * destruct (String.eqb_spec k1 k) as [->|Hne]; [exfalso; apply Hni; now left|]. apply IHl. tauto.
      * apply IHl. tauto.
  - assert (Hne : k0 <> k).
    { intros ->. apply Hni. apply in_map_iff. exists (k, ov). split; [reflexivity|exact Hin]. }
    destruct ov0 as [v0|]; cbn [app field].
    + destruct (String.eqb_spec k0 k) as [E|_]; [contradiction|]. apply IH; assumption.
    + apply IH; assumption.
Qed.

Lemma query_keys_nodup q : NoDup (map fst (query_fields q)).
Proof.
  cbn [query_fields map fst].
  repeat (apply NoDup_cons; [cbn [In]; intuition discriminate|]). apply NoDup_nil.
Qed.

Lemma get_exprs_ok fuel l : (forall e, In e l -> depth e <= fuel) ->
  get_exprs fuel (when (nonnil l) (JArr (map marshal l))) = Some l.
Proof.
  intros H. destruct l as [|x l]; [reflexivity|]. cbn [nonnil when get_exprs].
  revert H. generalize (x :: l). clear. induction l as [|y l IH]; intros H; [reflexivity|].
  cbn [map fold_right]. rewrite (expr_roundtrip fuel y (H y (or_introl eq_refl))).
  rewrite IH; [reflexivity|]. intros e He. apply H. now right.
Qed.

Lemma get_expr_ok fuel c : (forall e, c = Some e -> depth e <= fuel) ->
  get_expr fuel (option_map marshal c) = Some c.
Proof.
  intros H. destruct c as [e|]; [|reflexivity]. cbn [option_map get_expr].
  rewrite (expr_roundtrip fuel e (H e eq_refl)). reflexivity.
Qed.

Lemma get_strs_ok l : get_strs (when (nonnil l) (JArr (map JStr l))) = Some l.
Proof.
  destruct l as [|x l]; [reflexivity|]. cbn [nonnil when get_strs].
  induction (x :: l) as [|y l' IH]; [reflexivity|]. cbn [map fold_right]. rewrite IH. reflexivity.
Qed.

Lemma fold_max_le (l : list expr) fuel : fold_right (fun p m => Nat.max (depth p) m) 0 l <= fuel ->
  forall e, In e l -> depth e <= fuel.
Proof.
  induction l as [|x l IH]; intros H e Hin; [destruct Hin|]. destruct Hin as [<-|He]; simpl in H.
  - eapply Nat.le_trans; [apply Nat.le_max_l|exact H].
  - apply IH; [|exact He]. eapply Nat.le_trans; [apply Nat.le_max_r|exact H].
Qed.

Theorem query_roundtrip fuel q : qdepth q <= fuel -> unmarshal_query fuel (marshal_query q) = Some q.
Proof.
  intros Hd. pose proof (fold_max_le _ _ Hd) as Hall. clear Hd.
  unfold marshal_query, unmarshal_query.
  pose proof (query_keys_nodup q) as Hnd.
  assert (F : forall k ov, In (k, ov) (query_fields q) -> field k (fields_of (query_fields q)) = ov)
    by (intros k ov Hin; apply field_fields_of; assumption).
  rewrite (F "explain" _ ltac:(cbn; auto 20)), (F "namespace" _ ltac:(cbn; auto 20)),
          (F "metricName" _ ltac:(cbn; auto 20)), (F "selectItems" _ ltac:(cbn; auto 20)),
          (F "allFields" _ ltac:(cbn; auto 20)), (F "condition" _ ltac:(cbn; auto 20)),
          (F "timeRange" _ ltac:(cbn; auto 20)), (F "interval" _ ltac:(cbn; auto 20)),
          (F "storageInterval" _ ltac:(cbn; auto 20)), (F "intervalRatio" _ ltac:(cbn; auto 20)),
          (F "autoGroupByTime" _ ltac:(cbn; auto 20)), (F "groupBy" _ ltac:(cbn; auto 20)),
          (F "having" _ ltac:(cbn; auto 20)), (F "orderByItems" _ ltac:(cbn; auto 20)),
          (F "limit" _ ltac:(cbn; auto 20)).
  rewrite get_exprs_ok by (intros e He; apply Hall; apply in_or_app; now left).
  rewrite get_exprs_ok by (intros e He; apply Hall; apply in_or_app; right; apply in_or_app; now left).
  rewrite get_expr_ok by (intros e He; apply Hall; rewrite He; apply in_or_app; right; apply in_or_app; right; apply in_or_app; left; now left).
  rewrite get_expr_ok by (intros e He; apply Hall; rewrite He; apply in_or_app; right; apply in_or_app; right; apply in_or_app; right; now left).
  rewrite get_strs_ok.
  destruct q as [ex ns mn sel al cond st en iv siv ra au gb hv ob lim]. cbn [q_explain q_namespace q_metric q_select q_all q_cond q_start q_end
    q_interval q_storage q_ratio q_auto q_groupby q_having q_orderby q_limit].
  assert (E1 : get_bool (when ex (JBool true)) = Some ex) by (destruct ex; reflexivity).
  assert (E2 : get_str0 (when (nonempty_str ns) (JStr ns)) = Some ns).
  { unfold nonempty_str. destruct (String.eqb_spec ns "") as [->|]; reflexivity. }
  assert (E3 : get_str0 (when (nonempty_str mn) (JStr mn)) = Some mn).
  { unfold nonempty_str. destruct (String.eqb_spec mn "") as [->|]; reflexivity. }
  assert (E4 : get_bool (when al (JBool true)) = Some al) by (destruct al; reflexivity).
  assert (E7 : get_num0 (when (negb (ra =? 0)%Z) (JNum ra)) = Some ra) by (destruct (Z.eqb_spec ra 0) as [->|]; reflexivity).
  assert (E8 : get_bool (when au (JBool true)) = Some au) by (destruct au; reflexivity).
  assert (E9 : get_num0 (when (negb (lim =? 0)%Z) (JNum lim)) = Some lim) by (destruct (Z.eqb_spec lim 0) as [->|]; reflexivity).
  rewrite E1, E2, E3, E4, E7, E8, E9. reflexivity.
Qed.

Example expr_example :
  let e := SelectItem (Binary (Call 1 [Field "f"; Number "1.5"]) (Paren (Field "g")) 2) "a" in
  unmarshal 10 (marshal e) = Some e.
Proof. vm_compute. reflexivity. Qed.
