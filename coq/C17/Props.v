(* C17 — property theorems only. *)
From Coq Require Import List String ZArith.
Import ListNotations.
From LinDBV.C17 Require Import Model Proofs.

(* every expression tree survives Marshal / Unmarshal unchanged ([fuel] only bounds the recursion depth
   of the decoder; any fuel >= the tree's depth works, and out-of-fuel is the only way to get None) *)
Theorem C17_expr_roundtrip : forall fuel e, depth e <= fuel -> unmarshal fuel (marshal e) = Some e.
Proof. exact expr_roundtrip. Qed.
Print Assumptions C17_expr_roundtrip.

(* every query statement survives MarshalJSON / UnmarshalJSON unchanged, including every
   combination of absent (omitempty) clauses *)
Theorem C17_query_roundtrip : forall fuel q, qdepth q <= fuel -> unmarshal_query fuel (marshal_query q) = Some q.
Proof. exact query_roundtrip. Qed.
Print Assumptions C17_query_roundtrip.
