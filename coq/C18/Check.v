(* C18 — executable checks run on implementation observations (correspondence + oracle). *)
From Coq Require Import List Arith Bool.
Import ListNotations.
From LinDBV.C18 Require Import Model.

Record obs := { o_live : list nat; o_shards : list (key * entry) }.

(* 0 = all true, k = the k-th (1-based) element is the first false *)
Fixpoint first_false (l : list bool) (i : nat) : nat :=
  match l with [] => 0 | b :: l' => if b then first_false l' (S i) else S i end.

Fixpoint trace (s : state) (evs : list event) : list state :=
  match evs with [] => [] | ev :: evs' => let s' := step s ev in s' :: trace s' evs' end.

(* history case: model state after every event = observed state; oracle on every observed state *)
Definition check_hist (evs : list event) (os : list obs) : nat * nat :=
  let ss := trace init evs in
  (if length ss =? length os
   then first_false (map (fun '(s, o) => list_eqb (live s) (o_live o) && shards_eqb (shards s) (o_shards o))
                         (combine ss os)) 0
   else 1,
   first_false (map (fun o => inv_b (o_live o) (o_shards o)) os) 0).

(* direct ShardAssignment call: [res] = None when the implementation returned an error *)
Definition check_assign (nodes : list nat) (num rf start shift : nat) (res : option (list (nat * list nat))) : nat * nat :=
  match res with
  | None => (if assign_ok nodes num rf then 1 else 0, 0)
  | Some a =>
      (if assign_ok nodes num rf && asg_eqb (assign nodes num rf start shift 0) a && asg_eqb a (assign nodes num rf start shift 0)
       then 0 else 1,
       if (length a =? num) && placement_b nodes rf a && round_robin_b nodes a && nodup_b (map fst a) then 0 else 1)
  end.

(* ModifyShardAssignment on an existing assignment [old] (ids 0..len-1) to [num] shards *)
Definition check_modify (nodes : list nat) (old : list (nat * list nat)) (num rf start shift : nat)
           (res : option (list (nat * list nat))) : nat * nat :=
  let add := num - length old in
  match res with
  | None => (if (length old <? num) && assign_ok nodes add rf then 1 else 0, 0)
  | Some a =>
      let m := old ++ assign nodes add rf start shift (length old) in
      (if (length old <? num) && assign_ok nodes add rf && asg_eqb m a && asg_eqb a m then 0 else 1,
       if (length a =? num) && nodup_b (map fst a) &&
          forallb (fun '(sh, rs) => existsb (fun '(sh', rs') => (sh =? sh') && list_eqb rs rs') a) old &&
          placement_b nodes rf (filter (fun '(sh, _) => length old <=? sh) a)
       then 0 else 1)
  end.
