(* C18 — shard placement and leadership.  Model of
   coordinator/master/shard_assign.go, replica_leader_elector.go and the
   event handlers of state_manager.go.  Definitions only. *)
From Coq Require Import List Arith Bool.
Import ListNotations.

Definition node := nat.
Definition key := (nat * nat)%type.            (* database, shard *)

(* ---------- shard_assign.go ---------- *)

(* replicaIndex *)
Definition replica_index (first shift j n : nat) : nat :=
  (first + (1 + (shift + j) mod (n - 1))) mod n.

Definition memn (x : nat) (l : list nat) : bool := existsb (Nat.eqb x) l.

(* models.ShardAssignment.AddReplica: append unless already contained *)
Definition add_replica (rs : list node) (r : node) : list node :=
  if memn r rs then rs else rs ++ [r].

(* the replica list of one shard: first replica, then rf-1 shifted ones *)
Definition shard_replicas (nodes : list node) (n rf first shift : nat) : list node :=
  fold_left add_replica
    (map (fun j => nth (replica_index first shift j n) nodes 0) (seq 0 (rf - 1)))
    [nth first nodes 0].

(* the loop of assignReplicasToStorageNodes; [cnt] shards starting at id [cur] *)
Fixpoint assign_loop (nodes : list node) (n rf start : nat) (cnt cur shift : nat)
  : list (nat * list node) :=
  match cnt with
  | 0 => []
  | S c =>
      let shift' := if (0 <? cur) && (cur mod n =? 0) then S shift else shift in
      let first := (cur + start) mod n in
      (cur, shard_replicas nodes n rf first shift') :: assign_loop nodes n rf start c (S cur) shift'
  end.

Definition assign (nodes : list node) (num rf start shift startShard : nat) : list (nat * list node) :=
  assign_loop nodes (length nodes) rf start num startShard shift.

(* ShardAssignment / ModifyShardAssignment argument checks *)
Definition assign_ok (nodes : list node) (num rf : nat) : bool :=
  (0 <? num) && (0 <? rf) && (rf <=? length nodes).

(* ---------- state_manager.go ---------- *)

Record entry := { replicas : list node; online : bool; leader : option node }.
Record state := {
  live : list node;                              (* live storage nodes, ascending *)
  dbs : list nat;                                (* m.databases *)
  repo : list (nat * list (nat * list node));    (* master repo: database -> assignment *)
  shards : list (key * entry)                    (* StorageState.ShardStates *)
}.

Fixpoint insert (x : nat) (l : list nat) : list nat :=
  match l with
  | [] => [x]
  | y :: l' => if x <? y then x :: l else if x =? y then l else y :: insert x l'
  end.

(* replica_leader_elector.go: first alive replica *)
Fixpoint elect (lv : list node) (rs : list node) : option node :=
  match rs with [] => None | r :: rs' => if memn r lv then Some r else elect lv rs' end.

Definition mk (lv : list node) (rs : list node) : entry :=
  match elect lv rs with
  | Some l => {| replicas := rs; online := true; leader := Some l |}
  | None => {| replicas := rs; online := false; leader := None |}
  end.

Definition on_up (n : node) (e : entry) : entry :=
  if memn n (replicas e) && negb (online e)
  then {| replicas := replicas e; online := true; leader := Some n |} else e.

Definition on_down (lv' : list node) (n : node) (e : entry) : entry :=
  match leader e with
  | Some l => if Nat.eqb l n then mk lv' (replicas e) else e
  | None => e
  end.

Inductive event :=
| NodeUp (n : node)
| NodeDown (n : node)
| DbCfg (db num rf start shift : nat)   (* database config created/changed, then the assignment watch event *)
| DropDb (db : nat).

Fixpoint lookup {A} (k : nat) (l : list (nat * A)) : option A :=
  match l with [] => None | (k', v) :: l' => if k =? k' then Some v else lookup k l' end.
Definition remove_key {A} (k : nat) (l : list (nat * A)) : list (nat * A) :=
  filter (fun '(k', _) => negb (k' =? k)) l.
Definition other_db (db : nat) (x : key * entry) : bool := let '((d, _), _) := x in negb (d =? db).

(* onShardAssignmentChange -> initializeShardState *)
Definition assign_changed (s : state) (db : nat) (asg : list (nat * list node)) : state :=
  {| live := live s; dbs := dbs s; repo := (db, asg) :: remove_key db (repo s);
     shards := map (fun '(sh, rs) => ((db, sh), mk (live s) rs)) asg ++ filter (other_db db) (shards s) |}.

Definition with_db (s : state) (db : nat) : state :=
  {| live := live s; dbs := db :: filter (fun d => negb (d =? db)) (dbs s); repo := repo s; shards := shards s |}.

Definition step (s : state) (ev : event) : state :=
  match ev with
  | NodeUp n =>
      {| live := insert n (live s); dbs := dbs s; repo := repo s;
         shards := map (fun '(k, e) => (k, on_up n e)) (shards s) |}
  | NodeDown n =>
      let lv' := filter (fun x => negb (Nat.eqb x n)) (live s) in
      {| live := lv'; dbs := dbs s; repo := repo s;
         shards := map (fun '(k, e) => (k, on_down lv' n e)) (shards s) |}
  | DbCfg db num rf start shift =>
      let s1 := with_db s db in
      match lookup db (repo s) with
      | None =>
          if assign_ok (live s) num rf
          then assign_changed s1 db (assign (live s) num rf start shift 0)
          else s1
      | Some old =>
          if length old =? num then assign_changed s1 db old
          else if num <? length old then s1                         (* "not implemented" panic, recovered *)
          else if assign_ok (live s) (num - length old) rf
          then assign_changed s1 db (old ++ assign (live s) (num - length old) rf start shift (length old))
          else s1
      end
  | DropDb db =>
      if memn db (dbs s)
      then {| live := live s; dbs := filter (fun d => negb (d =? db)) (dbs s);
              repo := remove_key db (repo s); shards := filter (other_db db) (shards s) |}
      else s
  end.

Definition init : state := {| live := []; dbs := []; repo := []; shards := [] |}.
Definition run (evs : list event) : state := fold_left step evs init.

(* ---------- the property, boolean form (used on implementation observations) ---------- *)

Definition opt_eqb (a b : option nat) : bool :=
  match a, b with Some x, Some y => x =? y | None, None => true | _, _ => false end.
Fixpoint list_eqb (a b : list nat) : bool :=
  match a, b with
  | [], [] => true
  | x :: a', y :: b' => (x =? y) && list_eqb a' b'
  | _, _ => false
  end.

Definition ok_b (lv : list node) (e : entry) : bool :=
  Bool.eqb (online e) (existsb (fun r => memn r lv) (replicas e)) &&
  (if online e
   then match leader e with Some l => memn l lv && memn l (replicas e) | None => false end
   else match leader e with None => true | Some _ => false end).

Definition inv_b (lv : list node) (sh : list (key * entry)) : bool :=
  forallb (fun '(_, e) => ok_b lv e) sh.

Fixpoint nodup_b (l : list nat) : bool :=
  match l with [] => true | x :: l' => negb (memn x l') && nodup_b l' end.

(* an assignment gives every shard rf distinct nodes out of [nodes] *)
Definition placement_b (nodes : list node) (rf : nat) (asg : list (nat * list node)) : bool :=
  forallb (fun '(_, rs) => (length rs =? rf) && nodup_b rs && forallb (fun r => memn r nodes) rs) asg.

Definition count_first (asg : list (nat * list node)) (x : node) : nat :=
  length (filter (fun '(_, rs) => match rs with r :: _ => r =? x | [] => false end) asg).
(* first replicas handed out round-robin: per-node counts differ by at most one *)
Definition round_robin_b (nodes : list node) (asg : list (nat * list node)) : bool :=
  forallb (fun x => forallb (fun y => count_first asg x <=? S (count_first asg y)) nodes) nodes.

(* ---------- comparison helpers for the correspondence check ---------- *)
Definition entry_eqb (a b : entry) : bool :=
  list_eqb (replicas a) (replicas b) && Bool.eqb (online a) (online b) && opt_eqb (leader a) (leader b).
Definition kentry_eqb (a b : key * entry) : bool :=
  let '((d1, s1), e1) := a in let '((d2, s2), e2) := b in (d1 =? d2) && (s1 =? s2) && entry_eqb e1 e2.
Definition subset_b (a b : list (key * entry)) : bool :=
  forallb (fun x => existsb (kentry_eqb x) b) a.
Definition shards_eqb (a b : list (key * entry)) : bool :=
  (length a =? length b) && subset_b a b && subset_b b a.
Definition asg_eqb (a b : list (nat * list node)) : bool :=
  (length a =? length b) &&
  forallb (fun '(sh, rs) => existsb (fun '(sh', rs') => (sh =? sh') && list_eqb rs rs') b) a.
