From Coq Require Import List Arith Bool Lia ZArith ZifyNat ZifyBool.
Import ListNotations.
From LinDBV.C18 Require Import Model.
Ltac Zify.zify_post_hook ::= Z.div_mod_to_equations.

(* ---------- modular arithmetic of replicaIndex ---------- *)

Lemma mod_eq_diff m x y : 0 < m -> x mod m = y mod m -> x <= y -> exists k, y = x + k * m.
Proof.
  intros Hm E Hle. exists (y / m - x / m).
  pose proof (Nat.div_mod x m ltac:(lia)). pose proof (Nat.div_mod y m ltac:(lia)).
  assert (x / m <= y / m) by (apply Nat.div_le_mono; lia).
  rewrite Nat.mul_sub_distr_r. nia.
Qed.

Lemma shift_distinct m s a b : 0 < m -> a < m -> b < m -> a <> b -> (s + a) mod m <> (s + b) mod m.
Proof.
  intros Hm Ha Hb Hab E.
  assert (a < b \/ b < a) as [H|H] by lia.
  - destruct (mod_eq_diff m (s+a) (s+b) Hm E ltac:(lia)) as (k & Hk). destruct k; nia.
  - symmetry in E. destruct (mod_eq_diff m (s+b) (s+a) Hm E ltac:(lia)) as (k & Hk). destruct k; nia.
Qed.

Lemma replica_lt first shift j n : 0 < n -> replica_index first shift j n < n.
Proof. intros. unfold replica_index. apply Nat.mod_upper_bound. lia. Qed.

Lemma replica_ne_first first shift j n : 2 <= n -> first < n -> replica_index first shift j n <> first.
Proof.
  intros Hn Hf. unfold replica_index.
  pose proof (Nat.mod_upper_bound (shift + j) (n - 1) ltac:(lia)) as Hb.
  set (k := 1 + (shift + j) mod (n - 1)) in *.
  assert (Hk : 1 <= k <= n - 1) by (unfold k; lia).
  intros E. rewrite <- (Nat.mod_small first n Hf) in E at 2. symmetry in E.
  destruct (mod_eq_diff n first (first + k) ltac:(lia) E ltac:(lia)) as (q & Hq). destruct q; nia.
Qed.

Lemma replica_distinct first shift j1 j2 n : 2 <= n -> first < n -> j1 < n - 1 -> j2 < n - 1 -> j1 <> j2 ->
  replica_index first shift j1 n <> replica_index first shift j2 n.
Proof.
  intros Hn Hf H1 H2 Hne. unfold replica_index.
  pose proof (shift_distinct (n - 1) shift j1 j2 ltac:(lia) H1 H2 Hne) as Hd.
  pose proof (Nat.mod_upper_bound (shift + j1) (n - 1) ltac:(lia)) as Hb1.
  pose proof (Nat.mod_upper_bound (shift + j2) (n - 1) ltac:(lia)) as Hb2.
  set (k1 := (shift + j1) mod (n - 1)) in *. set (k2 := (shift + j2) mod (n - 1)) in *.
  replace (first + (1 + k1)) with ((first + 1) + k1) by lia.
  replace (first + (1 + k2)) with ((first + 1) + k2) by lia.
  apply shift_distinct; lia.
Qed.

(* ---------- membership helpers ---------- *)

Lemma memn_In x l : memn x l = true <-> In x l.
Proof. unfold memn. rewrite existsb_exists. split.
  - intros (y & Hy & E). apply Nat.eqb_eq in E. subst. exact Hy.
  - intros H. exists x. split; [exact H|apply Nat.eqb_refl]. Qed.
Lemma memn_false x l : memn x l = false <-> ~ In x l.
Proof. rewrite <- memn_In. destruct (memn x l); split; congruence. Qed.

Lemma fold_add_nodup l : forall acc, NoDup (acc ++ l) -> fold_left add_replica l acc = acc ++ l.
Proof.
  induction l as [|x l IH]; intros acc H; simpl; [now rewrite app_nil_r|].
  unfold add_replica at 2.
  assert (Hx : memn x acc = false).
  { apply memn_false. intros Hin. apply NoDup_remove_2 in H. apply H. apply in_or_app. left. exact Hin. }
  rewrite Hx. rewrite IH; rewrite <- app_assoc; simpl; [reflexivity|exact H].
Qed.

(* ---------- placement: rf distinct nodes out of the node list ---------- *)

Definition idxs (n rf first shift : nat) : list nat :=
  first :: map (fun j => replica_index first shift j n) (seq 0 (rf - 1)).

Lemma idxs_nodup n rf first shift : 1 <= rf <= n -> first < n -> NoDup (idxs n rf first shift).
Proof.
  intros Hrf Hf. unfold idxs. constructor.
  - intros Hin. apply in_map_iff in Hin as (j & E & Hj). apply in_seq in Hj.
    assert (2 <= n) by lia. exact (replica_ne_first first shift j n H Hf E).
  - assert (Hgen : forall a k, a + k <= rf - 1 -> NoDup (map (fun j => replica_index first shift j n) (seq a k))).
    { intros a k. revert a. induction k as [|k IH]; intros a Hk; simpl; [constructor|].
      constructor; [|apply IH; lia].
      intros Hin. apply in_map_iff in Hin as (j & E & Hj). apply in_seq in Hj.
      assert (2 <= n) by lia.
      refine (replica_distinct first shift j a n H Hf _ _ _ E); lia. }
    apply Hgen. lia.
Qed.

Lemma idxs_lt n rf first shift i : 0 < n -> first < n -> In i (idxs n rf first shift) -> i < n.
Proof.
  intros Hn Hf [<-|Hin]; [exact Hf|].
  apply in_map_iff in Hin as (j & <- & _). now apply replica_lt.
Qed.

Lemma map_nth_nodup (nodes : list nat) (is : list nat) :
  NoDup nodes -> NoDup is -> (forall i, In i is -> i < length nodes) ->
  NoDup (map (fun i => nth i nodes 0) is).
Proof.
  intros Hn. induction is as [|i is IH]; intros Hi Hlt; simpl; [constructor|].
  inversion Hi as [|? ? Hni Hi']; subst. constructor.
  - intros Hin. apply in_map_iff in Hin as (j & E & Hj).
    assert (j = i).
    { rewrite NoDup_nth in Hn. apply (Hn j i); [apply Hlt; now right|apply Hlt; now left|exact E]. }
    subst. contradiction.
  - apply IH; [exact Hi'|]. intros j Hj. apply Hlt. now right.
Qed.

Lemma shard_replicas_spec nodes rf first shift :
  NoDup nodes -> 1 <= rf <= length nodes -> first < length nodes ->
  shard_replicas nodes (length nodes) rf first shift =
  map (fun i => nth i nodes 0) (idxs (length nodes) rf first shift).
Proof.
  intros Hn Hrf Hf. unfold shard_replicas.
  pose proof (idxs_nodup (length nodes) rf first shift Hrf Hf) as Hnd.
  pose proof (map_nth_nodup nodes _ Hn Hnd
               (fun i Hi => idxs_lt (length nodes) rf first shift i ltac:(lia) Hf Hi)) as Hm.
  unfold idxs in *. simpl in Hm.
  rewrite fold_add_nodup.
  - simpl. now rewrite map_map.
  - simpl. rewrite map_map in Hm. exact Hm.
Qed.

Lemma shard_replicas_ok nodes rf first shift :
  NoDup nodes -> 1 <= rf <= length nodes -> first < length nodes ->
  let rs := shard_replicas nodes (length nodes) rf first shift in
  length rs = rf /\ NoDup rs /\ incl rs nodes /\ hd_error rs = Some (nth first nodes 0).
Proof.
  intros Hn Hrf Hf rs. unfold rs. rewrite shard_replicas_spec by assumption.
  pose proof (idxs_nodup (length nodes) rf first shift Hrf Hf) as Hnd.
  assert (Hlt : forall i, In i (idxs (length nodes) rf first shift) -> i < length nodes)
    by (intros i Hi; apply (idxs_lt (length nodes) rf first shift i); [lia|exact Hf|exact Hi]).
  repeat split.
  - rewrite map_length. unfold idxs. simpl. rewrite map_length, seq_length. lia.
  - now apply map_nth_nodup.
  - intros x Hx. apply in_map_iff in Hx as (i & <- & Hi). apply nth_In. now apply Hlt.
Qed.

Lemma assign_loop_in nodes rf start cnt cur shift sh rs :
  NoDup nodes -> 1 <= rf <= length nodes ->
  In (sh, rs) (assign_loop nodes (length nodes) rf start cnt cur shift) ->
  cur <= sh < cur + cnt /\ length rs = rf /\ NoDup rs /\ incl rs nodes /\
  hd_error rs = Some (nth ((sh + start) mod length nodes) nodes 0).
Proof.
  intros Hn Hrf. revert cur shift. induction cnt as [|c IH]; intros cur shift; simpl; [tauto|].
  intros [E|Hin].
  - inversion E; subst. clear E.
    assert (Hf : (sh + start) mod length nodes < length nodes) by (apply Nat.mod_upper_bound; lia).
    destruct (shard_replicas_ok nodes rf _ (if (0 <? sh) && (sh mod length nodes =? 0) then S shift else shift) Hn Hrf Hf)
      as (H1 & H2 & H3 & H4).
    repeat split; try assumption; lia.
  - apply IH in Hin. destruct Hin as (H0 & H). split; [lia|exact H].
Qed.

Theorem assign_placement nodes num rf start shift s0 sh rs :
  NoDup nodes -> 1 <= rf <= length nodes ->
  In (sh, rs) (assign nodes num rf start shift s0) ->
  length rs = rf /\ NoDup rs /\ incl rs nodes.
Proof.
  intros Hn Hrf Hin. apply (assign_loop_in nodes rf start num s0 shift sh rs Hn Hrf) in Hin. tauto.
Qed.

(* shard ids of one call are s0, s0+1, ... *)
Lemma assign_loop_ids nodes n rf start cnt cur shift :
  map fst (assign_loop nodes n rf start cnt cur shift) = seq cur cnt.
Proof. revert cur shift. induction cnt as [|c IH]; intros; simpl; [reflexivity|]. f_equal. apply IH. Qed.

Theorem assign_ids nodes num rf start shift s0 :
  map fst (assign nodes num rf start shift s0) = seq s0 num.
Proof. apply assign_loop_ids. Qed.

(* growing keeps existing shards: the grown assignment is the old one followed by
   shards with fresh ids *)
Theorem grow_keeps_existing (old : list (nat * list node)) nodes add rf start shift :
  map fst old = seq 0 (length old) ->
  let grown := old ++ assign nodes add rf start shift (length old) in
  firstn (length old) grown = old /\
  map fst grown = seq 0 (length old + add) /\
  NoDup (map fst grown).
Proof.
  intros Hold grown. unfold grown. split; [|split].
  - rewrite firstn_app, Nat.sub_diag, firstn_all. simpl. now rewrite app_nil_r.
  - rewrite map_app, Hold, assign_ids, <- seq_app. reflexivity.
  - rewrite map_app, Hold, assign_ids, <- seq_app. apply seq_NoDup.
Qed.

(* ---------- round robin of first replicas ---------- *)

Definition cnt_res (n r a m : nat) : nat := length (filter (fun x => x mod n =? r) (seq a m)).

Lemma res_shift_ne n a d : 0 < d < n -> (a + d) mod n <> a mod n.
Proof.
  intros Hd E. symmetry in E.
  destruct (mod_eq_diff n a (a + d) ltac:(lia) E ltac:(lia)) as (q & Hq). destruct q; nia.
Qed.

Lemma cnt_res_zero n r a m : 0 < n -> (forall x, a <= x < a + m -> x mod n <> r) -> cnt_res n r a m = 0.
Proof.
  intros Hn H. unfold cnt_res.
  rewrite (proj2 (length_zero_iff_nil _)); [reflexivity|].
  apply (proj1 (forallb_filter_nil _ _)) || idtac.
  induction m as [|m IH] in a, H |- *; simpl; [reflexivity|].
  destruct (Nat.eqb_spec (a mod n) r) as [E|E]; [exfalso; apply (H a); [lia|exact E]|].
  apply IH. intros x Hx. apply H. lia.
Qed.

Lemma cnt_res_le1 n r a m : 0 < n -> m <= n -> cnt_res n r a m <= 1.
Proof.
  intros Hn. revert a. induction m as [|m IH]; intros a Hm; unfold cnt_res in *; simpl; [lia|].
  destruct (Nat.eqb_spec (a mod n) r) as [E|E].
  - simpl. fold (cnt_res n r (S a) m). rewrite cnt_res_zero; [lia|exact Hn|].
    intros x Hx E2. subst r.
    replace x with (a + (x - a)) in E2 by lia. revert E2. apply res_shift_ne. lia.
  - apply IH. lia.
Qed.

Lemma cnt_res_app n r a m1 m2 : cnt_res n r a (m1 + m2) = cnt_res n r a m1 + cnt_res n r (a + m1) m2.
Proof. unfold cnt_res. rewrite seq_app, filter_app, app_length. reflexivity. Qed.

Lemma cnt_res_full n r a : 0 < n -> r < n -> cnt_res n r a n = 1.
Proof.
  intros Hn Hr. pose proof (cnt_res_le1 n r a n Hn (le_n _)) as Hle.
  assert (Hex : exists x, a <= x < a + n /\ x mod n = r).
  { pose proof (Nat.mod_upper_bound a n ltac:(lia)) as Ha.
    exists (a + (r + n - a mod n) mod n).
    pose proof (Nat.mod_upper_bound (r + n - a mod n) n ltac:(lia)). split; [lia|].
    rewrite Nat.add_mod_idemp_r by lia.
    pose proof (Nat.div_mod a n ltac:(lia)) as E2.
    replace (a + (r + n - a mod n)) with (r + (a / n + 1) * n) by nia.
    rewrite Nat.mod_add by lia. apply Nat.mod_small. exact Hr. }
  destruct Hex as (x & Hx & Ex).
  assert (In x (filter (fun y => y mod n =? r) (seq a n))).
  { apply filter_In. split; [apply in_seq; lia|apply Nat.eqb_eq; exact Ex]. }
  unfold cnt_res in *. destruct (filter _ _); simpl in *; [contradiction|lia].
Qed.

Lemma cnt_res_bounds n r a m : 0 < n -> r < n -> m / n <= cnt_res n r a m <= S (m / n).
Proof.
  intros Hn Hr.
  pose proof (Nat.div_mod m n ltac:(lia)) as E. pose proof (Nat.mod_upper_bound m n ltac:(lia)) as Hb.
  set (q := m / n) in *. set (t := m mod n) in *. clearbody q t. subst m.
  revert a. induction q as [|q IH]; intros a.
  - simpl. rewrite Nat.mul_0_r. simpl. pose proof (cnt_res_le1 n r a t Hn ltac:(lia)). lia.
  - replace (n * S q + t) with (n + (n * q + t)) by lia.
    rewrite cnt_res_app, cnt_res_full by assumption. specialize (IH (a + n)). lia.
Qed.

(* number of shards of one call whose first replica is the node at index r *)
Lemma count_first_loop nodes rf start cnt cur shift r :
  NoDup nodes -> 1 <= rf <= length nodes -> r < length nodes ->
  count_first (assign_loop nodes (length nodes) rf start cnt cur shift) (nth r nodes 0) =
  cnt_res (length nodes) r (cur + start) cnt.
Proof.
  intros Hn Hrf Hr. revert cur shift. induction cnt as [|c IH]; intros cur shift; [reflexivity|].
  unfold count_first, cnt_res in *. cbn [assign_loop filter seq].
  assert (Hf : (cur + start) mod length nodes < length nodes) by (apply Nat.mod_upper_bound; lia).
  destruct (shard_replicas_ok nodes rf _ (if (0 <? cur) && (cur mod length nodes =? 0) then S shift else shift) Hn Hrf Hf)
    as (_ & _ & _ & Hhd).
  destruct (shard_replicas nodes (length nodes) rf ((cur + start) mod length nodes) _) as [|r0 rs0] eqn:Ers;
    [discriminate|].
  simpl in Hhd. inversion Hhd as [Hr0]. clear Hhd. cbn [filter].
  assert (Heq : (r0 =? nth r nodes 0) = ((cur + start) mod length nodes =? r)).
  { subst r0. destruct (Nat.eqb_spec ((cur + start) mod length nodes) r) as [->|Hne]; [apply Nat.eqb_refl|].
    apply Nat.eqb_neq. intros E. apply Hne. exact (proj1 (NoDup_nth nodes 0) Hn _ _ Hf Hr E). }
  rewrite Hr0 in Heq. rewrite Heq. specialize (IH (S cur) (if (0 <? cur) && (cur mod length nodes =? 0) then S shift else shift)).
  replace (S cur + start) with (S (cur + start)) in IH by lia.
  destruct ((cur + start) mod length nodes =? r); simpl; rewrite IH; reflexivity.
Qed.

Theorem assign_round_robin nodes num rf start shift s0 x y :
  NoDup nodes -> 1 <= rf <= length nodes -> In x nodes -> In y nodes ->
  count_first (assign nodes num rf start shift s0) x <= S (count_first (assign nodes num rf start shift s0) y).
Proof.
  intros Hn Hrf Hx Hy.
  destruct (In_nth _ _ 0 Hx) as (i & Hi & <-). destruct (In_nth _ _ 0 Hy) as (j & Hj & <-).
  unfold assign. rewrite !count_first_loop by assumption.
  pose proof (cnt_res_bounds (length nodes) i (s0 + start) num ltac:(lia) Hi).
  pose proof (cnt_res_bounds (length nodes) j (s0 + start) num ltac:(lia) Hj). lia.
Qed.

(* ---------- leadership invariant ---------- *)

Definition ok (lv : list node) (e : entry) : Prop :=
  (online e = true <-> exists r, In r (replicas e) /\ In r lv) /\
  (online e = true -> exists l, leader e = Some l /\ In l lv /\ In l (replicas e)) /\
  (online e = false -> leader e = None).
Definition Inv (s : state) : Prop := forall k e, In (k, e) (shards s) -> ok (live s) e.

Lemma elect_some lv rs l : elect lv rs = Some l -> In l lv /\ In l rs.
Proof. induction rs as [|r rs IH]; simpl; [discriminate|]. destruct (memn r lv) eqn:E.
  - intros H; inversion H; subst. apply memn_In in E. auto.
  - intros H. destruct (IH H). auto. Qed.
Lemma elect_none lv rs : elect lv rs = None -> forall r, In r rs -> ~ In r lv.
Proof. induction rs as [|r rs IH]; simpl; [tauto|]. destruct (memn r lv) eqn:E; [discriminate|].
  intros H x [->|Hx] Hl; [apply memn_In in Hl; congruence|exact (IH H x Hx Hl)]. Qed.

Lemma mk_ok lv rs : ok lv (mk lv rs).
Proof.
  unfold mk. destruct (elect lv rs) as [l|] eqn:E; unfold ok; simpl.
  - destruct (elect_some _ _ _ E). repeat split; try discriminate; eauto.
  - pose proof (elect_none _ _ E) as Hn. repeat split; try discriminate; auto.
    intros (r & H1 & H2). exfalso. exact (Hn r H1 H2).
Qed.

Lemma insert_In x y l : In y (insert x l) <-> y = x \/ In y l.
Proof.
  induction l as [|z l IH]; simpl; [intuition|].
  destruct (x <? z); [simpl; intuition|].
  destruct (Nat.eqb_spec x z) as [->|Hne]; simpl; [intuition|]. rewrite IH. intuition.
Qed.

Lemma assign_changed_inv s db asg : Inv s -> Inv (assign_changed s db asg).
Proof.
  intros HI k e Hin. unfold assign_changed in Hin. simpl in *.
  apply in_app_or in Hin as [Hin|Hin].
  - apply in_map_iff in Hin as ([sh rs] & E & _). inversion E; subst. apply mk_ok.
  - apply filter_In in Hin as [Hin _]. exact (HI _ _ Hin).
Qed.

Lemma with_db_inv s db : Inv s -> Inv (with_db s db).
Proof. intros HI k e Hin. exact (HI k e Hin). Qed.

Lemma step_inv s ev : Inv s -> Inv (step s ev).
Proof.
  intros HI. destruct ev as [n|n|db num rf start shift|db].
  - (* NodeUp *)
    unfold Inv; simpl; intros k e Hin.
    apply in_map_iff in Hin as ([k0 e0] & E & Hin0). inversion E; subst. clear E.
    destruct (HI _ _ Hin0) as (H1 & H2 & H3). unfold on_up.
    destruct (memn n (replicas e0) && negb (online e0)) eqn:C.
    + apply andb_prop in C as [C1 C2]. apply memn_In in C1. unfold ok; simpl.
      repeat split; try discriminate.
      * intros _. exists n. split; [exact C1|]. apply insert_In. now left.
      * intros _. exists n. repeat split; [apply insert_In; now left|exact C1].
    + unfold ok. repeat split.
      * intros Ho. destruct (proj1 H1 Ho) as (r & ? & ?). exists r. split; [assumption|]. apply insert_In. now right.
      * intros (r & Hr & Hl). apply insert_In in Hl as [->|Hl].
        -- destruct (online e0) eqn:Eo; [reflexivity|]. apply memn_In in Hr. rewrite Hr in C. discriminate.
        -- apply H1. eauto.
      * intros Ho. destruct (H2 Ho) as (l & ? & ? & ?). exists l. repeat split; [assumption| |assumption].
        apply insert_In. now right.
      * exact H3.
  - (* NodeDown *)
    unfold Inv; simpl; intros k e Hin.
    apply in_map_iff in Hin as ([k0 e0] & E & Hin0). inversion E; subst. clear E.
    destruct (HI _ _ Hin0) as (H1 & H2 & H3). unfold on_down.
    set (lv' := filter (fun x => negb (x =? n)) (live s)).
    assert (Hlv : forall x, In x lv' <-> In x (live s) /\ x <> n).
    { intros x. unfold lv'. rewrite filter_In. rewrite negb_true_iff, Nat.eqb_neq. tauto. }
    destruct (leader e0) as [l|] eqn:El.
    + destruct (Nat.eqb_spec l n) as [->|Hne]; [apply mk_ok|].
      destruct (online e0) eqn:Eo.
      * destruct (H2 eq_refl) as (l' & E' & Hl1 & Hl2). assert (l' = l) by congruence. subst l'.
        unfold ok. rewrite Eo, El. repeat split; try discriminate; eauto.
        -- intros _. exists l. split; [exact Hl2|]. apply Hlv. auto.
        -- intros _. exists l. repeat split; auto. apply Hlv. auto.
      * pose proof (H3 eq_refl). congruence.
    + destruct (online e0) eqn:Eo.
      * destruct (H2 eq_refl) as (l' & E' & _). congruence.
      * unfold ok. rewrite Eo, El. repeat split; try discriminate; auto.
        intros (r & Hr & Hl). apply Hlv in Hl as [Hl _]. assert (false = true) by (apply H1; eauto). discriminate.
  - (* DbCfg *)
    pose proof (with_db_inv s db HI) as HI1.
    unfold step. destruct (lookup db (repo s)) as [old|].
    + destruct (length old =? num); [now apply assign_changed_inv|].
      destruct (num <? length old); [exact HI1|].
      destruct (assign_ok (live s) (num - length old) rf); [now apply assign_changed_inv|exact HI1].
    + destruct (assign_ok (live s) num rf); [now apply assign_changed_inv|exact HI1].
  - (* DropDb *)
    unfold step. destruct (memn db (dbs s)); [|exact HI].
    intros k e Hin. simpl in Hin. apply filter_In in Hin as [Hin _]. exact (HI _ _ Hin).
Qed.

Theorem leader_invariant evs : Inv (run evs).
Proof.
  unfold run. assert (H : Inv init) by (intros ? ? []).
  revert H. generalize init. induction evs as [|ev evs IH]; intros s H; simpl; [exact H|].
  apply IH, step_inv, H.
Qed.

(* the boolean oracle used on implementation observations is the invariant *)
Lemma ok_b_iff lv e : ok_b lv e = true <-> ok lv e.
Proof.
  unfold ok_b, ok.
  assert (Hex : existsb (fun r => memn r lv) (replicas e) = true <-> exists r, In r (replicas e) /\ In r lv).
  { rewrite existsb_exists. split; intros (r & A & B); exists r; [apply memn_In in B|apply memn_In in B]; auto. }
  destruct (online e) eqn:Eo; destruct (existsb (fun r => memn r lv) (replicas e)) eqn:Ex; simpl.
  - destruct (leader e) as [l|] eqn:El.
    + rewrite andb_true_iff, !memn_In. split.
      * intros [A B]. repeat split; try tauto; try discriminate. intros _. exists l. auto.
      * intros (_ & H2 & _). destruct (H2 eq_refl) as (l' & E & A & B). inversion E; subst. auto.
    + split; [discriminate|]. intros (_ & H2 & _). destruct (H2 eq_refl) as (l' & E & _). discriminate.
  - split; [discriminate|]. intros (H1 & _). pose proof (proj1 H1 eq_refl) as Hx. apply Hex in Hx. discriminate.
  - split; [discriminate|]. intros (H1 & _). assert (false = true) by (apply H1; apply Hex; reflexivity). discriminate.
  - destruct (leader e) as [l|] eqn:El.
    + split; [discriminate|]. intros (_ & _ & H3). specialize (H3 eq_refl). discriminate.
    + split; [|reflexivity]. intros _. repeat split; try discriminate; auto.
      intros H. apply Hex in H. discriminate.
Qed.

Theorem inv_b_run evs : inv_b (live (run evs)) (shards (run evs)) = true.
Proof.
  unfold inv_b. apply forallb_forall. intros [k e] Hin. apply ok_b_iff. exact (leader_invariant evs k e Hin).
Qed.

(* every assignment ever stored in the repo by DbCfg events satisfies the placement claim
   w.r.t. the nodes alive when it was created: stated per call in [assign_placement];
   boolean form for the oracle: *)
Lemma nodup_b_iff l : nodup_b l = true <-> NoDup l.
Proof.
  induction l as [|x l IH]; simpl; [split; [constructor|reflexivity]|].
  rewrite andb_true_iff, negb_true_iff, memn_false, IH. split.
  - intros [A B]. now constructor.
  - intros H. inversion H. auto.
Qed.

Theorem placement_b_assign nodes num rf start shift s0 :
  NoDup nodes -> 1 <= rf <= length nodes ->
  placement_b nodes rf (assign nodes num rf start shift s0) = true.
Proof.
  intros Hn Hrf. unfold placement_b. apply forallb_forall. intros [sh rs] Hin.
  destruct (assign_placement _ _ _ _ _ _ _ _ Hn Hrf Hin) as (H1 & H2 & H3).
  rewrite !andb_true_iff. repeat split.
  - now apply Nat.eqb_eq.
  - now apply nodup_b_iff.
  - apply forallb_forall. intros r Hr. apply memn_In. now apply H3.
Qed.

Theorem round_robin_b_assign nodes num rf start shift s0 :
  NoDup nodes -> 1 <= rf <= length nodes ->
  round_robin_b nodes (assign nodes num rf start shift s0) = true.
Proof.
  intros Hn Hrf. unfold round_robin_b. apply forallb_forall. intros x Hx.
  apply forallb_forall. intros y Hy. apply Nat.leb_le. now apply assign_round_robin.
Qed.

(* non-vacuity *)
Example reachable :
  let s := run [NodeUp 1; NodeUp 2; DbCfg 0 2 2 0 0; NodeDown 1; NodeDown 2; NodeUp 2] in
  map (fun '(k, e) => (k, replicas e, online e, leader e)) (shards s) =
  [((0, 0), [1; 2], true, Some 2); ((0, 1), [2; 1], true, Some 2)].
Proof. vm_compute. reflexivity. Qed.
Example assign_example :
  assign [10; 11; 12; 13; 14] 10 3 0 0 0 =
  [(0, [10; 11; 12]); (1, [11; 12; 13]); (2, [12; 13; 14]); (3, [13; 14; 10]); (4, [14; 10; 11]);
   (5, [10; 12; 13]); (6, [11; 13; 14]); (7, [12; 14; 10]); (8, [13; 10; 11]); (9, [14; 11; 12])].
Proof. vm_compute. reflexivity. Qed.
