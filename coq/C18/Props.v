(* C18 — property theorems only.  Each is closed by [exact] of a lemma from Proofs.v. *)
From Coq Require Import List Arith Bool.
Import ListNotations.
From LinDBV.C18 Require Import Model Proofs.

(* Every shard of an assignment gets exactly replica-factor pairwise distinct nodes,
   all taken from the node list alive at creation — for every cluster size, shard
   count, replica factor, start position, shift and first shard id. *)
Theorem C18_placement :
  forall nodes num rf start shift s0 sh rs,
    NoDup nodes -> 1 <= rf <= length nodes ->
    In (sh, rs) (assign nodes num rf start shift s0) ->
    length rs = rf /\ NoDup rs /\ incl rs nodes.
Proof. exact assign_placement. Qed.
Print Assumptions C18_placement.

(* First replicas are handed out round-robin: within one assignment call the
   per-node counts of first replicas differ by at most one. *)
Theorem C18_round_robin :
  forall nodes num rf start shift s0 x y,
    NoDup nodes -> 1 <= rf <= length nodes -> In x nodes -> In y nodes ->
    count_first (assign nodes num rf start shift s0) x <=
    S (count_first (assign nodes num rf start shift s0) y).
Proof. exact assign_round_robin. Qed.
Print Assumptions C18_round_robin.

(* Growing the shard count keeps existing shards where they are and adds fresh ids. *)
Theorem C18_grow_keeps_existing :
  forall (old : list (nat * list node)) nodes add rf start shift,
    map fst old = seq 0 (length old) ->
    let grown := old ++ assign nodes add rf start shift (length old) in
    firstn (length old) grown = old /\
    map fst grown = seq 0 (length old + add) /\
    NoDup (map fst grown).
Proof. exact grow_keeps_existing. Qed.
Print Assumptions C18_grow_keeps_existing.

(* After any sequence of node-up / node-down / create-or-grow / drop events a shard
   is online exactly when one of its replicas is alive, the leader of an online shard
   is an alive replica of it, and an offline shard has no leader. *)
Theorem C18_leader_invariant :
  forall evs k e, In (k, e) (shards (run evs)) ->
    (online e = true <-> exists r, In r (replicas e) /\ In r (live (run evs))) /\
    (online e = true -> exists l, leader e = Some l /\ In l (live (run evs)) /\ In l (replicas e)) /\
    (online e = false -> leader e = None).
Proof. exact leader_invariant. Qed.
Print Assumptions C18_leader_invariant.

(* The boolean oracle evaluated on implementation observations is that statement. *)
Theorem C18_oracle_is_statement :
  forall lv e, ok_b lv e = true <->
    ((online e = true <-> exists r, In r (replicas e) /\ In r lv) /\
     (online e = true -> exists l, leader e = Some l /\ In l lv /\ In l (replicas e)) /\
     (online e = false -> leader e = None)).
Proof. exact ok_b_iff. Qed.
Print Assumptions C18_oracle_is_statement.

Theorem C18_oracles_hold_on_model :
  (forall evs, inv_b (live (run evs)) (shards (run evs)) = true) /\
  (forall nodes num rf start shift s0, NoDup nodes -> 1 <= rf <= length nodes ->
     placement_b nodes rf (assign nodes num rf start shift s0) = true /\
     round_robin_b nodes (assign nodes num rf start shift s0) = true).
Proof. exact (conj inv_b_run (fun n a b c d e H1 H2 => conj (placement_b_assign n a b c d e H1 H2) (round_robin_b_assign n a b c d e H1 H2))). Qed.
Print Assumptions C18_oracles_hold_on_model.
