From Coq Require Import List Bool Arith.
Import ListNotations.
From LinDBV.C19 Require Import Model Leaf.

(* observation of one pipeline execution on the implementation:
   cbs: for each callback invocation, true = nil error; completed: number of stages whose Complete() ran;
   failed_seen: some executed stage returned an error or panicked; unfinished_at_cb: stages started but not
   completed when the (first) callback fired; any_panic: some executed stage panicked *)
Record obs := { cbs : list bool; completed : nat; failed_seen : bool; unfinished_at_cb : nat; any_panic : bool; hang : bool;
                tails : nat (* plan nodes after a stage's main node that ran *) }.

Definition bools_eqb (a b : list bool) : bool :=
  (length a =? length b) && forallb (fun '(x, y) => Bool.eqb x y) (combine a b).

Definition check (root : stage) (o : obs) : nat * nat :=
  let s := drain (size_acts (body root) + 2) (init root) in
  (if bools_eqb (callbacks s) (cbs o) && (finished s =? completed o) && Bool.eqb (negb (failed s)) (negb (failed_seen o))
      && (tails_of root =? tails o) then 0 else 1,
   if negb (hang o) && bools_eqb (cbs o) [negb (failed_seen o)] && ((unfinished_at_cb o =? 0) || any_panic o) then 0 else 1).

(* one task request handed to the leaf's handler: the responses captured from the stream for its request id
   (true = no error message), after the worker pool was drained *)
Definition check_leaf (f : fate) (resps : list bool) : nat * nat :=
  let model := match f with
               | Refused => [false]
               | Piped root nf => map (fun ok => ok || nf) (callbacks (drain (size_acts (body root) + 2) (init root)))
               end in
  (if bools_eqb model resps then 0 else 1, if bools_eqb resps [succeeds f] then 0 else 1).
