(* C19 — the leaf's handling of one task request (query/task_handler.go process, query/leaf_processor.go Process /
   processMetadataSuggest): the request is either refused before a pipeline exists (plan not decodable, this node not a
   target, unknown database, payload not decodable) and the handler answers with the processor's error, or a pipeline runs
   and its completion callback answers; in the second case the processor returns nil.  The answer of the metadata callback
   is a success when the pipeline's error is "not found".  Definitions, proofs and the slip. *)
From Coq Require Import List Bool Arith ZArith.
Import ListNotations.
From LinDBV.C19 Require Import Model Proofs.

Inductive fate := Refused | Piped (root : stage) (notfound : bool).

Section Handler.
  (* the slip: the processor also returns the pipeline's error, so the handler answers once more *)
  Variable returns_pipeline_error : bool.

  (* the responses of one request under a schedule of its pipeline (true = carries no error) *)
  Definition responses (f : fate) (sched : list nat) : list bool :=
    match f with
    | Refused => [false]
    | Piped root nf =>
      let cbs := map (fun ok => ok || nf) (callbacks (run root sched)) in
      cbs ++ (if returns_pipeline_error && existsb negb cbs then [false] else [])
    end.
End Handler.

Definition quiescent (f : fate) (sched : list nat) : Prop :=
  match f with Refused => True | Piped root _ => forall t, In t (threads (run root sched)) -> t = [] end.
Definition succeeds (f : fate) : bool :=
  match f with Refused => false | Piped root nf => negb (has_fail (body root)) || nf end.

(* every request, every schedule of its pipeline: never two responses; once the work is done exactly one, and it carries an
   error iff the request was refused or a stage failed (other than with "not found") *)
Theorem one_response : forall f sched,
  (length (responses false f sched) <= 1)%nat /\
  (quiescent f sched -> responses false f sched = [succeeds f]).
Proof.
  intros [|root nf] sched; cbn [responses quiescent succeeds andb].
  - split; [auto|reflexivity].
  - rewrite app_nil_r, map_length. destruct (exactly_once_with_error root sched) as (H1 & _ & H3).
    split; [exact H1|]. intros Q. rewrite (H3 Q). reflexivity.
Qed.

Theorem returning_the_pipeline_error_refuted :
  exists f sched, quiescent f sched /\ length (responses true f sched) = 2%nat.
Proof.
  exists (Piped (Stage Err false []) false), [0; 0; 0]%nat. split; [|vm_compute; reflexivity].
  cbn. intros t Ht. vm_compute in Ht. destruct Ht as [<-|[]]. reflexivity.
Qed.
