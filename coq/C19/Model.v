(* C19 — query pipeline: stage trees compiled to per-goroutine action lists, the
   pipeline state machine of query/pipeline.go + pipeline_state_matchine.go
   (with the first error recorded and a panicking inline stage completed with an
   error at its own executeStage frame, i.e. the code after the two fix: commits).
   Definitions only. *)
From Coq Require Import List ZArith Bool.
Import ListNotations.
Open Scope Z_scope.

(* Err: the plan returns an error; Panic: the plan panics; PanicNext: the plan runs, NextStages() panics;
   NotFoundIgnored: a plan node that ignores not-found returns a not-found error (tolerated: its children are skipped,
   the stage goes on); NotFoundPlain: a not-found error of a node that does not ignore it; ErrIgnoring: another error of
   a node that ignores not-found - both fail the stage (query/stage/base_stage.go execute) *)
Inductive outcome := Ok | Err | Panic | PanicNext | NotFoundIgnored | NotFoundPlain | ErrIgnoring.
Definition is_ok (o : outcome) : bool := match o with Ok | NotFoundIgnored => true | _ => false end.
(* the stage's plan ran through: the plan nodes after the failing one are executed iff this holds *)
Definition plan_ok (o : outcome) : bool := match o with Ok | NotFoundIgnored | PanicNext => true | _ => false end.

(* stage tree: outcome of the stage's own plan, async flag, next stages *)
Inductive stage := Stage (o : outcome) (async : bool) (next : list stage).
Definition is_async (s : stage) := match s with Stage _ a _ => a end.

Inductive act :=
| Start                      (* executeStage: pending++ *)
| Finish (ok : bool)         (* completeStage: record error, pending--, maybe callback *)
| Spawn (body : list act).   (* hand the started stage to the worker pool *)

Definition seg (a : bool) (b : list act) : list act := Start :: (if a then [Spawn b] else b).

(* the actions a goroutine performs for a stage that has already been started:
   a stage that returns an error or panics completes with an error and plans no next stage *)
Fixpoint body (s : stage) : list act :=
  match s with
  | Stage o _ next =>
    if is_ok o then
      (fix children (l : list stage) : list act :=
         match l with
         | [] => []
         | c :: l' => seg (is_async c) (body c) ++ children l'
         end) next ++ [Finish true]
    else [Finish false]
  end.
Definition children := fix children (l : list stage) : list act :=
         match l with
         | [] => []
         | c :: l' => seg (is_async c) (body c) ++ children l'
         end.

Record st := { pending : Z; failed : bool; callbacks : list bool (* true = nil error *);
               finished : nat; threads : list (list act) }.

Fixpoint set_nth {A} (l : list A) (i : nat) (x : A) : list A :=
  match l, i with [], _ => [] | _ :: l', O => x :: l' | y :: l', S i' => y :: set_nth l' i' x end.

Definition step (s : st) (i : nat) : st :=
  match nth_error (threads s) i with
  | Some (a :: rest) =>
    let ths := set_nth (threads s) i rest in
    match a with
    | Start => {| pending := pending s + 1; failed := failed s; callbacks := callbacks s; finished := finished s; threads := ths |}
    | Spawn b => {| pending := pending s; failed := failed s; callbacks := callbacks s; finished := finished s; threads := ths ++ [b] |}
    | Finish ok =>
      let f := failed s || negb ok in
      let p := pending s - 1 in
      {| pending := p; failed := f;
         callbacks := if p =? 0 then callbacks s ++ [negb f] else callbacks s;
         finished := S (finished s);
         threads := ths |}
    end
  | _ => s
  end.

(* state right after Execute has registered the root stage *)
Definition init (root : stage) : st :=
  {| pending := 1; failed := false; callbacks := []; finished := 0;
     threads := [if is_async root then [Spawn (body root)] else body root] |}.
Definition run root (sched : list nat) := fold_left step sched (init root).

(* one particular complete schedule (always the last non-empty thread), used to run the model *)
Fixpoint last_busy (ths : list (list act)) (i : nat) (acc : option nat) : option nat :=
  match ths with
  | [] => acc
  | t :: ths' => last_busy ths' (S i) (match t with [] => acc | _ => Some i end)
  end.
Fixpoint drain (fuel : nat) (s : st) : st :=
  match fuel with
  | O => s
  | S f => match last_busy (threads s) 0 None with Some i => drain f (step s i) | None => s end
  end.

Fixpoint fail_act (a : act) : bool :=
  match a with
  | Finish ok => negb ok
  | Spawn b => (fix any (l : list act) : bool := match l with [] => false | x :: l' => fail_act x || any l' end) b
  | Start => false
  end.
Definition has_fail := fix any (l : list act) : bool := match l with [] => false | x :: l' => fail_act x || any l' end.
Definition any_fail (ths : list (list act)) : bool := existsb has_fail ths.

(* number of stages that get started = number of Finish actions *)
Fixpoint fin_act (a : act) : nat :=
  match a with
  | Finish _ => 1
  | Spawn b => (fix cnt (l : list act) : nat := match l with [] => 0 | x :: l' => fin_act x + cnt l' end) b
  | Start => 0
  end%nat.
Definition count_fin := fix cnt (l : list act) : nat := match l with [] => 0 | x :: l' => fin_act x + cnt l' end%nat.

Fixpoint size_act (a : act) : nat :=
  match a with
  | Spawn b => S ((fix sz (l : list act) : nat := match l with [] => 0 | x :: l' => size_act x + sz l' end) b)
  | _ => 1
  end%nat.
Definition size_acts := fix sz (l : list act) : nat := match l with [] => 0 | x :: l' => size_act x + sz l' end%nat.

(* plan nodes that follow a stage's main node and must run: one per started stage whose plan ran through *)
Fixpoint tails_of (s : stage) : nat :=
  match s with
  | Stage o _ next =>
    (if plan_ok o then 1 else 0) +
    (if is_ok o then (fix sum (l : list stage) : nat := match l with [] => 0 | c :: l' => tails_of c + sum l' end) next else 0)
  end%nat.
