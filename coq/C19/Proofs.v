From Coq Require Import List ZArith Lia Bool.
Import ListNotations.
From LinDBV.C19 Require Import Model.
Open Scope Z_scope.
Arguments Z.add : simpl never.
Arguments Z.sub : simpl never.

Lemma children_cons c l : children (c :: l) = seg (is_async c) (body c) ++ children l.
Proof. reflexivity. Qed.
Lemma body_unfold o a next : body (Stage o a next) = if is_ok o then children next ++ [Finish true] else [Finish false].
Proof. reflexivity. Qed.

(* ---- potential ---- *)
Definition w (a : act) : Z := match a with Start => -1 | Finish _ => 1 | Spawn _ => 1 end.
Definition net (l : list act) : Z := fold_right (fun a z => w a + z) 0 l.
Lemma net_app a b : net (a ++ b) = net a + net b.
Proof. induction a; simpl; lia. Qed.

(* every non-empty suffix still owes a completion *)
Definition suffix_ok (l : list act) : Prop := forall p q, l = p ++ q -> q <> [] -> 1 <= net q.

Fixpoint wf_act (a : act) : Prop :=
  match a with
  | Spawn b => suffix_ok b /\ net b = 1 /\ (fix all (l : list act) : Prop := match l with [] => True | x :: l' => wf_act x /\ all l' end) b
  | _ => True
  end.
Definition wf_all := fix all (l : list act) : Prop := match l with [] => True | x :: l' => wf_act x /\ all l' end.
Lemma wf_all_app a b : wf_all (a ++ b) <-> wf_all a /\ wf_all b.
Proof. induction a as [|x a IH]; simpl; [tauto|]. rewrite IH. tauto. Qed.

Lemma suffix_ok_tail a l : suffix_ok (a :: l) -> suffix_ok l.
Proof. intros H p q E Hq. apply (H (a :: p) q); [rewrite E; reflexivity|exact Hq]. Qed.

Lemma suffix_ok_net l : suffix_ok l -> l <> [] -> 1 <= net l.
Proof. intros H Hl. apply (H [] l); auto. Qed.

(* suffix_ok of a concatenation: x has all suffixes >= 0 ... we use the concrete shapes instead *)
Lemma suffix_ok_app_seg a b rest :
  suffix_ok b -> b <> [] -> net b = 1 -> suffix_ok rest -> rest <> [] -> suffix_ok (seg a b ++ rest).
Proof.
  intros Hb Hbn Nb Hr Hrn p q E Hq. unfold seg in E.
  destruct p as [|x p].
  - simpl in E. subst q. pose proof (suffix_ok_net _ Hr Hrn) as Hn. destruct a; cbn [app].
    + change (1 <= -1 + (1 + net rest)). lia.
    + change (1 <= -1 + net (b ++ rest)). rewrite net_app, Nb. lia.
  - simpl in E. inversion E as [[Ex E']]. clear E. destruct a.
    + (* [Spawn b] ++ rest *)
      destruct p as [|y p]; simpl in E'.
      * subst q. change (1 <= 1 + net rest). pose proof (suffix_ok_net _ Hr Hrn). lia.
      * inversion E' as [[Ey E'']]. apply (Hr p q E'' Hq).
    + (* b ++ rest = p ++ q : q is a suffix of rest, or a suffix of b followed by rest *)
      clear Ex x.
      assert (Hc : (exists p2, rest = p2 ++ q) \/ (exists q1, q = q1 ++ rest /\ q1 <> [] /\ exists p1, b = p1 ++ q1)).
      { revert p E'. generalize b. induction b0 as [|z b0 IH]; intros p E'; simpl in E'.
        - left. exists p. exact E'.
        - destruct p as [|y p]; simpl in E'.
          + right. exists (z :: b0). subst q. repeat split; [discriminate|]. exists []. reflexivity.
          + inversion E' as [[Ez E'']]. destruct (IH p E'') as [(p2 & H2)|(q1 & H1 & H1n & p1 & H1b)].
            * left. exists p2. exact H2.
            * right. exists q1. repeat split; auto. exists (y :: p1). rewrite H1b. reflexivity. }
      destruct Hc as [(p2 & H2)|(q1 & -> & H1n & p1 & H1b)].
      * apply (Hr p2 q H2 Hq).
      * rewrite net_app. pose proof (Hb p1 q1 H1b H1n). pose proof (suffix_ok_net _ Hr Hrn). lia.
Qed.

Lemma net_seg a b : net b = 1 -> net (seg a b) = 0.
Proof. intros H. destruct a; unfold seg; cbn [net fold_right w]; fold (net b); lia. Qed.

(* L1: bodies are well formed *)
Fixpoint body_ok (s : stage) : suffix_ok (body s) /\ net (body s) = 1 /\ wf_all (body s) /\ body s <> [].
Proof.
  destruct s as [o a next]. rewrite body_unfold. destruct (is_ok o).
  - assert (Hc : forall rest, suffix_ok rest -> rest <> [] -> wf_all rest ->
                 suffix_ok (children next ++ rest) /\ net (children next ++ rest) = net rest /\
                 wf_all (children next ++ rest) /\ children next ++ rest <> []).
    { induction next as [|c next IH]; intros rest Hr Hrn Hw.
      - simpl. auto.
      - destruct (body_ok c) as (Hb & Nb & Wb & Bn).
        destruct (IH rest Hr Hrn Hw) as (H1 & H2 & H3 & H4).
        rewrite children_cons, <- app_assoc. repeat split.
        + apply suffix_ok_app_seg; auto.
        + rewrite net_app, H2, (net_seg _ _ Nb). lia.
        + apply wf_all_app. split; [|exact H3]. unfold seg. destruct (is_async c); simpl; auto.
        + unfold seg. discriminate. }
    assert (Hf : suffix_ok [Finish true]).
    { intros p q E Hq. destruct p as [|x p]; simpl in E; [subst q; simpl; lia|].
      inversion E as [[Ex E']]. destruct p; simpl in E'; [subst q; congruence|discriminate]. }
    destruct (Hc [Finish true] Hf ltac:(discriminate) ltac:(simpl; auto)) as (H1 & H2 & H3 & H4).
    repeat split; auto.
  - repeat split; simpl; auto; [|discriminate].
    intros p q E Hq. destruct p as [|x p]; simpl in E; [subst q; simpl; lia|].
    inversion E as [[Ex E']]. destruct p; simpl in E'; [subst q; congruence|discriminate].
Qed.

(* ---- global invariant ---- *)
Definition sumnet (ths : list (list act)) : Z := fold_right (fun t z => net t + z) 0 ths.
Lemma sumnet_app a b : sumnet (a ++ b) = sumnet a + sumnet b.
Proof. induction a; simpl; lia. Qed.

Lemma sumnet_set_nth ths i old new : nth_error ths i = Some old ->
  sumnet (set_nth ths i new) = sumnet ths - net old + net new.
Proof.
  revert i; induction ths as [|t ths IH]; intros [|i] H; simpl in *; try discriminate.
  - inversion H; subst. lia.
  - rewrite (IH _ H). lia.
Qed.

Lemma In_set_nth {A} (l : list A) i x y : In y (set_nth l i x) -> y = x \/ In y l.
Proof. revert i; induction l as [|a l IH]; intros [|i] H; simpl in *; try tauto.
  - destruct H; auto. - destruct H; auto. destruct (IH _ H); auto. Qed.

Lemma any_fail_app a b : any_fail (a ++ b) = any_fail a || any_fail b.
Proof. unfold any_fail. apply existsb_app. Qed.

Lemma any_fail_set_nth ths i a rest : nth_error ths i = Some (a :: rest) ->
  any_fail ths = fail_act a || any_fail (set_nth ths i rest).
Proof.
  revert i; induction ths as [|t ths IH]; intros [|i] H; simpl in *; try discriminate.
  - inversion H; subst. simpl. rewrite orb_assoc. reflexivity.
  - rewrite (IH _ H). destruct (has_fail t), (fail_act a); reflexivity.
Qed.

Definition Inv (F : bool) (s : st) : Prop :=
  pending s = sumnet (threads s) /\
  (forall t, In t (threads s) -> suffix_ok t /\ wf_all t) /\
  (callbacks s = [] /\ 1 <= pending s \/ (forall t, In t (threads s) -> t = []) /\ callbacks s = [negb (failed s)]) /\
  failed s || any_fail (threads s) = F.

Lemma sumnet_nonneg ths : (forall t, In t ths -> suffix_ok t) -> 0 <= sumnet ths.
Proof.
  induction ths as [|t ths IH]; intros H; simpl; [lia|].
  assert (0 <= net t).
  { destruct t as [|a t]; [simpl; lia|]. pose proof (suffix_ok_net (a :: t) (H _ (or_introl eq_refl)) ltac:(discriminate)). lia. }
  pose proof (IH (fun t0 Hin => H t0 (or_intror Hin))). lia.
Qed.

Lemma sumnet_zero ths : (forall t, In t ths -> suffix_ok t) -> sumnet ths = 0 -> forall t, In t ths -> t = [].
Proof.
  induction ths as [|t ths IH]; intros H Hz t0 Hin; [destruct Hin|].
  simpl in Hz.
  pose proof (sumnet_nonneg ths (fun t1 Hin1 => H t1 (or_intror Hin1))) as Hn.
  assert (Ht : t = []).
  { destruct t as [|a t]; [reflexivity|].
    pose proof (suffix_ok_net (a :: t) (H _ (or_introl eq_refl)) ltac:(discriminate)). lia. }
  destruct Hin as [<-|Hin]; [exact Ht|].
  apply (IH (fun t1 Hin1 => H t1 (or_intror Hin1))); [subst t; simpl in Hz; lia|exact Hin].
Qed.

Lemma step_inv F s i : Inv F s -> Inv F (step s i).
Proof.
  intros HI. pose proof HI as (Hp & Hw & Hc & Hf). unfold step.
  destruct (nth_error (threads s) i) as [[|a rest]|] eqn:En; [exact HI| |exact HI].
  pose proof (nth_error_In _ _ En) as Hin.
  destruct (Hw _ Hin) as [Hso Hwf].
  (* a thread is about to act: no callback has fired yet *)
  assert (Hc0 : callbacks s = []).
  { destruct Hc as [[Hc _]|[Hall _]]; [exact Hc|]. specialize (Hall _ Hin). discriminate Hall. }
  assert (Hrest : suffix_ok rest /\ wf_all rest).
  { split; [eapply suffix_ok_tail; exact Hso|]. simpl in Hwf. tauto. }
  assert (Hw' : forall t, In t (set_nth (threads s) i rest) -> suffix_ok t /\ wf_all t).
  { intros t Ht. apply In_set_nth in Ht as [->|Ht]; [exact Hrest|exact (Hw _ Ht)]. }
  pose proof (sumnet_set_nth _ _ _ rest En) as Hsum.
  pose proof (any_fail_set_nth _ _ _ _ En) as Hany.
  change (net (a :: rest)) with (w a + net rest) in Hsum.
  destruct a as [|ok|b]; unfold Inv; cbn [pending failed callbacks finished threads].
  - (* Start *)
    assert (Hpos : 0 <= pending s) by (rewrite Hp; apply sumnet_nonneg; intros t Ht; apply (Hw t Ht)).
    split; [rewrite Hsum; cbn [w]; lia|]. split; [exact Hw'|]. split; [left; split; [exact Hc0|lia]|].
    rewrite <- Hf, Hany. reflexivity.
  - (* Finish *)
    split; [rewrite Hsum; cbn [w]; lia|]. split; [exact Hw'|]. split.
    + destruct (Z.eqb_spec (pending s - 1) 0) as [Ez|Ez].
      * right. split.
        -- apply sumnet_zero; [intros t Ht; apply (Hw' t Ht)|]. rewrite Hsum. cbn [w]. lia.
        -- rewrite Hc0. reflexivity.
      * left. split; [exact Hc0|].
        assert (0 <= sumnet (set_nth (threads s) i rest)) by (apply sumnet_nonneg; intros t Ht; apply (Hw' t Ht)).
        rewrite Hsum in H. cbn [w] in H. lia.
    + rewrite <- Hf, Hany. cbn [fail_act]. rewrite orb_assoc. reflexivity.
  - (* Spawn *)
    assert (Hb : suffix_ok b /\ net b = 1 /\ wf_all b) by (simpl in Hwf; tauto).
    destruct Hb as (Hb1 & Hb2 & Hb3).
    split; [rewrite sumnet_app, Hsum; cbn [w sumnet fold_right]; lia|]. split.
    + intros t Ht. apply in_app_or in Ht as [Ht|[<-|[]]]; [exact (Hw' _ Ht)|split; assumption].
    + assert (Hpos : 1 <= pending s) by (destruct Hc as [[_ H1]|[Hall _]]; [exact H1|specialize (Hall _ Hin); discriminate Hall]).
      split; [left; split; [exact Hc0|exact Hpos]|].
      rewrite <- Hf, Hany, any_fail_app. cbn [fail_act any_fail existsb]. fold (has_fail b).
      rewrite orb_false_r. destruct (has_fail b), (any_fail (set_nth (threads s) i rest)), (failed s); reflexivity.
Qed.

Lemma init_inv root : Inv (has_fail (body root)) (init root).
Proof.
  destruct (body_ok root) as (Hs & Hn & Hw & Hne).
  unfold Inv, init; cbn [pending failed callbacks finished threads]. destruct (is_async root).
  - split; [cbn; lia|]. split; [|split; [left; split; [reflexivity|lia]|]].
    + intros t [<-|[]]. split; [|simpl; auto].
      intros p q E Hq. destruct p as [|x p]; simpl in E; [subst q; cbn; lia|].
      inversion E as [[Ex E']]. destruct p; simpl in E'; [subst q; congruence|discriminate].
    + cbn [any_fail existsb has_fail fail_act orb]. fold (has_fail (body root)).
      destruct (has_fail (body root)); reflexivity.
  - split; [cbn [sumnet fold_right]; lia|]. split; [|split; [left; split; [reflexivity|lia]|]].
    + intros t [<-|[]]. auto.
    + cbn [any_fail existsb orb]. destruct (has_fail (body root)); reflexivity.
Qed.

Theorem run_inv root sched : Inv (has_fail (body root)) (run root sched).
Proof.
  unfold run. pose proof (init_inv root) as H. revert H. generalize (init root).
  induction sched as [|i sched IH]; intros s H; simpl; [exact H|]. apply IH, step_inv, H.
Qed.


Theorem exactly_once_with_error root sched :
  let s := run root sched in
  (length (callbacks s) <= 1)%nat /\
  (callbacks s <> [] -> forall t, In t (threads s) -> t = []) /\
  ((forall t, In t (threads s) -> t = []) ->
     callbacks s = [negb (has_fail (body root))]).
Proof.
  intros s. destruct (run_inv root sched) as (Hp & Hw & Hc & Hf). fold s in Hp, Hw, Hc, Hf.
  split; [|split].
  - destruct Hc as [[-> _]|[_ ->]]; simpl; lia.
  - intros Hne. destruct Hc as [[Hc _]|[Hall _]]; [congruence|exact Hall].
  - intros Hall.
    assert (Haf : any_fail (threads s) = false).
    { unfold any_fail. clear -Hall. induction (threads s) as [|t ths IH]; [reflexivity|].
      simpl. rewrite (Hall t (or_introl eq_refl)). simpl. apply IH. intros t0 Ht0. apply Hall. right; exact Ht0. }
    rewrite Haf, orb_false_r in Hf.
    destruct Hc as [[_ Hc]|[_ Hc]]; [|rewrite Hc, Hf; reflexivity].
    exfalso.
    assert (Hz : sumnet (threads s) = 0).
    { clear -Hall. induction (threads s) as [|t ths IH]; [reflexivity|]. simpl.
      rewrite (Hall t (or_introl eq_refl)). simpl. apply IH. intros t0 Ht0. apply Hall. right; exact Ht0. }
    lia.
Qed.

(* ---- the schedule used to run the model is one of the schedules the theorem covers ---- *)
Lemma drain_is_run root fuel : exists sched, drain fuel (init root) = run root sched.
Proof.
  assert (H : forall s, (exists sc, s = run root sc) -> exists sched, drain fuel s = run root sched).
  { induction fuel as [|f IH]; intros s (sc & Hs); simpl; [exists sc; exact Hs|].
    destruct (last_busy (threads s) 0 None) as [i|]; [|exists sc; exact Hs].
    apply IH. exists (sc ++ [i]). unfold run. rewrite fold_left_app. simpl. unfold run in Hs. rewrite <- Hs. reflexivity. }
  apply H. exists []. reflexivity.
Qed.

(* ---- number of completed stages is schedule independent ---- *)
Open Scope nat_scope.
Definition cfs (ths : list (list act)) : nat := fold_right (fun t n => count_fin t + n) 0 ths.
Lemma cfs_app a b : cfs (a ++ b) = cfs a + cfs b.
Proof. induction a; simpl; lia. Qed.
Lemma cfs_set_nth ths i a rest : nth_error ths i = Some (a :: rest) ->
  cfs ths = fin_act a + cfs (set_nth ths i rest).
Proof.
  revert i; induction ths as [|t ths IH]; intros [|i] H; simpl in *; try discriminate.
  - inversion H; subst. simpl. lia.
  - rewrite (IH _ H). lia.
Qed.
Lemma step_fin s i : finished (step s i) + cfs (threads (step s i)) = finished s + cfs (threads s).
Proof.
  unfold step. destruct (nth_error (threads s) i) as [[|a rest]|] eqn:En; try reflexivity.
  rewrite (cfs_set_nth _ _ _ _ En).
  destruct a as [|ok|b]; cbn [finished threads fin_act].
  - lia.
  - lia.
  - rewrite cfs_app. cbn [cfs fold_right]. fold (count_fin b). lia.
Qed.
Theorem finished_count root sched :
  finished (run root sched) + cfs (threads (run root sched)) = count_fin (body root).
Proof.
  unfold run.
  assert (H0 : finished (init root) + cfs (threads (init root)) = count_fin (body root)).
  { unfold init; cbn [finished threads]. destruct (is_async root); cbn [cfs fold_right count_fin fin_act];
      fold (count_fin (body root)); lia. }
  revert H0. generalize (init root). induction sched as [|i sched IH]; intros s H; simpl; [exact H|].
  apply IH. rewrite step_fin. exact H.
Qed.

Example nonvacuous :
  let root := Stage Ok false [Stage Err true []; Stage Ok true [Stage Panic false []; Stage Ok true []]] in
  let s := drain 50 (init root) in
  (callbacks s, finished s, forallb (fun t => match t with [] => true | _ => false end) (threads s)) = ([false], 5, true).
Proof. vm_compute. reflexivity. Qed.
