(* C19 — property theorems only. *)
From Coq Require Import List ZArith Bool.
Import ListNotations.
From LinDBV.C19 Require Import Model Proofs Leaf.

(* For every stage tree (fan-out, depth, sync/async mix), every assignment of outcomes
   {ok, error, panic} and every schedule (list of thread indexes, any length):
   the completion callback fires at most once; it fires only when every started stage
   has finished; and once all work is done it has fired exactly once, carrying an error
   iff some executed stage failed or panicked. *)
Theorem C19_exactly_once_with_error :
  forall root sched,
  let s := run root sched in
  (length (callbacks s) <= 1)%nat /\
  (callbacks s <> [] -> forall t, In t (threads s) -> t = []) /\
  ((forall t, In t (threads s) -> t = []) ->
     callbacks s = [negb (has_fail (body root))]).
Proof. exact exactly_once_with_error. Qed.
Print Assumptions C19_exactly_once_with_error.

(* The number of stages that get completed does not depend on the schedule. *)
Theorem C19_finished_count :
  forall root sched,
  (finished (run root sched) + cfs (threads (run root sched)) = count_fin (body root))%nat.
Proof. exact finished_count. Qed.
Print Assumptions C19_finished_count.

(* The schedule the correspondence check uses to run the model is covered by the theorems. *)
Theorem C19_drain_is_a_schedule :
  forall root fuel, exists sched, drain fuel (init root) = run root sched.
Proof. exact drain_is_run. Qed.
Print Assumptions C19_drain_is_a_schedule.

(* The leaf's handling of a task request (refused before a pipeline exists, or answered by the pipeline's completion
   callback): for every request and every schedule of its pipeline there are never two responses, and once the work is done
   there is exactly one, carrying an error iff the request was refused or a stage failed other than with "not found". *)
Theorem C19_one_response_per_request : forall f sched,
  (length (responses false f sched) <= 1)%nat /\
  (quiescent f sched -> responses false f sched = [succeeds f]).
Proof. exact one_response. Qed.
Print Assumptions C19_one_response_per_request.

(* If the processor also returned the pipeline's error to the handler, a failing request would be answered twice. *)
Theorem C19_returning_the_pipeline_error_refuted :
  exists f sched, quiescent f sched /\ length (responses true f sched) = 2%nat.
Proof. exact returning_the_pipeline_error_refuted. Qed.
Print Assumptions C19_returning_the_pipeline_error_refuted.
