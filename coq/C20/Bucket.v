(* C20 — a bucket of the on-disk dictionary: several dictionaries (one per table file that holds the bucket) looked up one
   after the other (index/model/trie_bucket.go GetValue), merged into one at compaction (TrieBucket.Write,
   index/v1/index_kv_merger.go).  Sorted-map semantics of a bucket = the union of its dictionaries. *)
From Coq Require Import List Arith Lia Bool.
Import ListNotations.
From LinDBV.C20 Require Import Model Proofs.

(* GetValue: first dictionary that knows the key *)
Fixpoint bget (ds : list (list ent)) (k : key) : option V :=
  match ds with
  | [] => None
  | d :: ds' => match assoc k d with Some v => Some v | None => bget ds' k end
  end.

(* the merged dictionary: all pairs in key order *)
Fixpoint insert (e : ent) (l : list ent) : list ent :=
  match l with
  | [] => [e]
  | x :: l' => if lex_lt (fst e) (fst x) then e :: l else x :: insert e l'
  end.
Definition union (ds : list (list ent)) : list ent := fold_right (fun d acc => fold_right insert acc d) [] ds.

Lemma assoc_insert k e l : assoc (fst e) l = None ->
  assoc k (insert e l) = if key_eqb (fst e) k then Some (snd e) else assoc k l.
Proof.
  destruct e as [k' v]. cbn [fst snd]. induction l as [|[a w] l IH]; intros Hn; cbn [insert assoc fst].
  - reflexivity.
  - cbn [assoc] in Hn. destruct (key_eqb_spec a k') as [E|E]; [discriminate|].
    destruct (lex_lt k' a); cbn [assoc].
    + reflexivity.
    + rewrite (IH Hn). destruct (key_eqb_spec a k) as [E1|E1]; [|reflexivity].
      destruct (key_eqb_spec k' k) as [E2|E2]; [congruence|reflexivity].
Qed.

Lemma assoc_in k v l : assoc k l = Some v -> In k (map fst l).
Proof.
  induction l as [|[a w] l IH]; cbn; [discriminate|]. destruct (key_eqb_spec a k); [left; assumption|right; auto].
Qed.
Lemma assoc_notin k l : ~ In k (map fst l) -> assoc k l = None.
Proof. intros H. destruct (assoc k l) eqn:E; [|reflexivity]. exfalso. apply H. eapply assoc_in. exact E. Qed.

Lemma in_insert x e l : In x (map fst (insert e l)) <-> x = fst e \/ In x (map fst l).
Proof.
  induction l as [|a l IH]; cbn [insert map In]; [intuition|].
  destruct (lex_lt (fst e) (fst a)); cbn [map In]; [intuition|]. rewrite IH. intuition.
Qed.
Lemma in_fold_insert x d acc : In x (map fst (fold_right insert acc d)) <-> In x (map fst d) \/ In x (map fst acc).
Proof.
  induction d as [|e d IH]; cbn [fold_right map In]; [intuition|]. rewrite in_insert, IH. intuition.
Qed.

Lemma assoc_fold_insert k d acc :
  NoDup (map fst d) -> (forall x, In x (map fst d) -> ~ In x (map fst acc)) ->
  assoc k (fold_right insert acc d) = match assoc k d with Some v => Some v | None => assoc k acc end.
Proof.
  induction d as [|[k' v] d IH]; intros Hnd Hdis; cbn [fold_right]; [reflexivity|].
  cbn [map fst] in Hnd. inversion Hnd as [|? ? Hnotin Hnd']. subst.
  rewrite assoc_insert.
  - cbn [fst snd assoc]. destruct (key_eqb k' k); [reflexivity|].
    apply IH; [exact Hnd'|]. intros x Hx. apply Hdis. right. exact Hx.
  - cbn [fst]. apply assoc_notin. rewrite in_fold_insert. intros [H|H]; [exact (Hnotin H)|].
    apply (Hdis k'); [left; reflexivity|exact H].
Qed.

Lemma nodup_app_l {A} (a b : list A) : NoDup (a ++ b) -> NoDup a.
Proof. induction a as [|x a IH]; cbn; intros H; [constructor|]. inversion H as [|? ? Hn Hd]. subst. constructor; [|auto].
  intro Hin. apply Hn. apply in_or_app. left. exact Hin. Qed.
Lemma nodup_app_r {A} (a b : list A) : NoDup (a ++ b) -> NoDup b.
Proof. induction a as [|x a IH]; cbn; intros H; [exact H|]. inversion H. auto. Qed.

(* dictionaries of one bucket never share a key (a name is created once) *)
Theorem bucket_get_union : forall ds k,
  NoDup (map fst (concat ds)) -> bget ds k = assoc k (union ds).
Proof.
  induction ds as [|d ds IH]; intros k Hnd; [reflexivity|].
  cbn [bget union fold_right concat] in *. rewrite map_app in Hnd.
  fold (union ds). rewrite assoc_fold_insert.
  - rewrite IH; [reflexivity|]. eapply nodup_app_r. exact Hnd.
  - eapply nodup_app_l. exact Hnd.
  - intros x Hx Hacc. assert (Hin : In x (map fst (concat ds))).
    { clear -Hacc. induction ds as [|d' ds IH]; cbn [union fold_right concat] in *; [exact Hacc|].
      fold (union ds) in Hacc. rewrite in_fold_insert in Hacc. rewrite map_app. apply in_or_app.
      destruct Hacc as [H|H]; [left; exact H|right; exact (IH H)]. }
    revert Hx Hin. clear -Hnd. induction (map fst d) as [|a l IH]; cbn; [tauto|].
    intros [E|H] Hin; inversion Hnd as [|? ? Hn Hnd']; subst.
    + apply Hn. apply in_or_app. right. exact Hin.
    + exact (IH Hnd' H Hin).
Qed.
