From Coq Require Import List Arith Bool.
Import ListNotations.
From LinDBV.C20 Require Import Model.

Fixpoint nats_eqb (a b : list nat) : bool :=
  match a, b with [], [] => true | x :: a', y :: b' => (x =? y) && nats_eqb a' b' | _, _ => false end.
Fixpoint bools_eqb (a b : list bool) : bool :=
  match a, b with [], [] => true | x :: a', y :: b' => Bool.eqb x y && bools_eqb a' b' | _, _ => false end.
Fixpoint keys_eqb (a b : list key) : bool :=
  match a, b with [], [] => true | x :: a', y :: b' => nats_eqb x y && keys_eqb a' b' | _, _ => false end.
Definition lvl_eqb (a b : lvl) : bool :=
  nats_eqb (l_labels a) (l_labels b) && bools_eqb (l_haschild a) (l_haschild b) && bools_eqb (l_louds a) (l_louds b) &&
  bools_eqb (l_hasprefix a) (l_hasprefix b) && keys_eqb (l_prefixes a) (l_prefixes b) &&
  bools_eqb (l_hassuffix a) (l_hassuffix b) && keys_eqb (l_suffixes a) (l_suffixes b) && nats_eqb (l_values a) (l_values b).
Fixpoint lvls_eqb (a b : list lvl) : bool :=
  match a, b with [], [] => true | x :: a', y :: b' => lvl_eqb x y && lvls_eqb a' b' | _, _ => false end.
Definition ov_eqb (a b : option V) : bool :=
  match a, b with Some x, Some y => x =? y | None, None => true | _, _ => false end.
Fixpoint ents_eqb (a b : list ent) : bool :=
  match a, b with
  | [], [] => true
  | (k, v) :: a', (k', v') :: b' => nats_eqb k k' && (v =? v') && ents_eqb a' b'
  | _, _ => false
  end.
Definition oent_eqb (a b : option ent) : bool :=
  match a, b with Some (k, v), Some (k', v') => nats_eqb k k' && (v =? v') | None, None => true | _, _ => false end.

Fixpoint max_len (l : list ent) : nat := match l with [] => 0 | (k, _) :: l' => Nat.max (length k) (max_len l') end.

Record tobs := {
  o_levels : list lvl;                          (* builder's level vectors *)
  o_gets : list (key * option V);               (* Get on the in-memory trie *)
  o_gets_loaded : list (key * option V);        (* Get after Write + UnmarshalBinary *)
  o_iter : list ent;                            (* ordered iteration *)
  o_seeks : list (key * option ent);            (* Seek(k): entry the iterator lands on *)
  o_prefix : list (key * list ent) }.           (* prefix enumeration *)

(* Seek(k): 0 = lands on the lower bound (first key >= k), 101 = k is absent and the iterator lands on k's
   predecessor (known finding C20:seek-absent-key-lands-on-predecessor), 1 = anything else *)
Definition seek_class (kvs : list ent) (k : key) (r : option ent) : nat :=
  if oent_eqb (lower_bound k kvs) r then 0
  else if match assoc k kvs with None => oent_eqb (predecessor k kvs None) r | Some _ => false end then 101 else 1.
Definition worst (l : list nat) : nat :=
  if existsb (Nat.eqb 1) l then 1 else if existsb (Nat.eqb 101) l then 101 else 0.

(* [kvs] sorted, duplicate free *)
Definition check_trie (kvs : list ent) (o : tobs) : nat * nat :=
  ((match build (S (S (max_len kvs))) kvs with
    | Some n => if lvls_eqb (levels_of n) (o_levels o) &&
                   forallb (fun '(k, r) => ov_eqb (get n k) r) (o_gets o) && ents_eqb (flatten n) (o_iter o)
                then 0 else 1
    | None => 2
    end)%nat,
   (if forallb (fun '(k, r) => ov_eqb (assoc k kvs) r) (o_gets o) &&
       forallb (fun '(k, r) => ov_eqb (assoc k kvs) r) (o_gets_loaded o) &&
       ents_eqb (o_iter o) kvs &&
       forallb (fun '(p, r) => ents_eqb (with_prefix p kvs) r) (o_prefix o)
    then worst (map (fun '(k, r) => seek_class kvs k r) (o_seeks o)) else 1)%nat).

(* ---- a bucket: several dictionaries (one per table file), observed before and after they are merged by a compaction ---- *)
From LinDBV.C20 Require Bucket.
Record bobs := {
  b_gets : list (key * option V);              (* GetValue *)
  b_values : list V;                           (* GetValues *)
  b_suggest : list (key * nat * list key);     (* Suggest(prefix, limit) *)
  b_collect : list (V * option key) }.         (* CollectKVs: the key found for a value *)
Definition okey_eqb (a b : option key) : bool :=
  match a, b with Some x, Some y => nats_eqb x y | None, None => true | _, _ => false end.
Fixpoint key_of (v : V) (l : list ent) : option key :=
  match l with [] => None | (k, w) :: l' => if w =? v then Some k else key_of v l' end.
Definition bucket_ok (u : list ent) (o : bobs) : bool :=
  forallb (fun '(k, r) => ov_eqb (assoc k u) r) (b_gets o) &&
  (length (b_values o) =? length u) && forallb (fun e => existsb (Nat.eqb (snd e)) (b_values o)) u &&
  forallb (fun '(p, lim, r) => keys_eqb (firstn lim (map fst (with_prefix p u))) r) (b_suggest o) &&
  forallb (fun '(v, r) => okey_eqb (key_of v u) r) (b_collect o).
(* [ds]: the dictionaries, each sorted; [o1]: the bucket read over all files; [o2]: after the compaction merged them *)
Definition check_bucket (ds : list (list ent)) (o1 o2 : bobs) : nat * nat :=
  let u := Bucket.union ds in
  ((if forallb (fun '(k, r) => ov_eqb (Bucket.bget ds k) r) (b_gets o1) &&
       forallb (fun '(k, r) => ov_eqb (assoc k u) r) (b_gets o2) then 0 else 1),
   (if bucket_ok u o1 then (if bucket_ok u o2 then 0 else 131) else 130))%nat.
