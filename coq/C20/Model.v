From Coq Require Import List Arith Lia Bool.
Import ListNotations.

Definition key := list nat.
Definition V := nat.
Definition ent := (key * V)%type.

Fixpoint key_eqb (a b : key) : bool :=
  match a, b with
  | [], [] => true
  | x :: a', y :: b' => (x =? y) && key_eqb a' b'
  | _, _ => false
  end.
Fixpoint assoc (k : key) (l : list ent) : option V :=
  match l with [] => None | (k', v) :: l' => if key_eqb k' k then Some v else assoc k l' end.

(* strict lexicographic order *)
Fixpoint lex_lt (a b : key) : bool :=
  match a, b with
  | [], [] => false
  | [], _ :: _ => true
  | _ :: _, [] => false
  | x :: a', y :: b' => if x <? y then true else if x =? y then lex_lt a' b' else false
  end.
Fixpoint sorted (l : list key) : bool :=
  match l with
  | a :: ((b :: _) as t) => lex_lt a b && sorted t
  | _ => true
  end.
Definition sortedK (l : list ent) := sorted (map fst l) = true.

Inductive node := Node : key -> option V -> list (nat * edge) -> node
with edge := Leaf : key -> V -> edge | Child : node -> edge.

Fixpoint strip (p k : key) : option key :=
  match p, k with
  | [], _ => Some k
  | x :: p', y :: k' => if x =? y then strip p' k' else None
  | _ :: _, [] => None
  end.

Definition find_in (getc : node -> key -> option V) (a : nat) (k2 : key) :=
  fix find (es : list (nat * edge)) : option V :=
    match es with
    | [] => None
    | (b, e) :: es' =>
      if b =? a then
        match e with
        | Leaf s v => if key_eqb s k2 then Some v else None
        | Child c => getc c k2
        end
      else find es'
    end.

Fixpoint get (n : node) (k : key) {struct n} : option V :=
  match n with
  | Node p t es =>
    match strip p k with
    | None => None
    | Some [] => t
    | Some (a :: k2) => find_in get a k2 es
    end
  end.

Fixpoint take_head (a : nat) (l : list ent) : list ent * list ent :=
  match l with
  | (x :: t, v) :: l' => if x =? a then let (g, r) := take_head a l' in ((t, v) :: g, r) else ([], l)
  | _ => ([], l)
  end.

Fixpoint groups (n : nat) (l : list ent) : list (nat * list ent) :=
  match n with
  | 0 => []
  | S n' =>
    match l with
    | (x :: t, v) :: l' => let (g, r) := take_head x l' in (x, (t, v) :: g) :: groups n' r
    | _ => []
    end
  end.

Fixpoint build (fuel : nat) (ks : list ent) : option node :=
  match fuel with
  | 0 => None
  | S f =>
    let '(term, ks') := match ks with ([], v) :: rest => (Some v, rest) | _ => (None, ks) end in
    match ks' with
    | [] => None                        (* Go: index out of range (empty input, or a lone empty key) *)
    | _ =>
      let gs := groups (length ks') ks' in
      let edges :=
        fold_right (fun '(a, g) acc =>
          match acc with
          | None => None
          | Some es =>
            match g with
            | [(t, v)] => Some ((a, Leaf t v) :: es)
            | _ => match build f g with Some c => Some ((a, Child c) :: es) | None => None end
            end
          end) (Some []) gs in
      match term, gs with
      | None, [(a, (_ :: _ :: _) as g)] =>
        match build f g with Some (Node p t es) => Some (Node (a :: p) t es) | None => None end
      | _, _ => match edges with Some es => Some (Node [] term es) | None => None end
      end
    end
  end.

(* sanity: the doc.go example *)
Definition ex := [([1;2],10); ([1;2;3],11); ([1;3],12); ([2],13)].

(* ================= proofs ================= *)
Definition nonempty_keys (l : list ent) := forall k v, In (k, v) l -> k <> [].
Definition heads_ge (b : nat) (l : list ent) := forall k v, In (k, v) l -> exists y t, k = y :: t /\ b <= y.
Definition heads_gt (b : nat) (l : list ent) := forall k v, In (k, v) l -> exists y t, k = y :: t /\ b < y.

Fixpoint glookup (a : nat) (gs : list (nat * list ent)) : option (list ent) :=
  match gs with [] => None | (b, g) :: gs' => if b =? a then Some g else glookup a gs' end.

Definition edges_of (f : nat) (gs : list (nat * list ent)) : option (list (nat * edge)) :=
  fold_right (fun '(a, g) acc =>
          match acc with
          | None => None
          | Some es =>
            match g with
            | [(t, v)] => Some ((a, Leaf t v) :: es)
            | _ => match build f g with Some c => Some ((a, Child c) :: es) | None => None end
            end
          end) (Some []) gs.


(* ---------- level-order vectors of the succinct form (what builder.buildNodes appends per level) ---------- *)
Definition terminator := 255.
Record lvl := {
  l_labels : list nat; l_haschild : list bool; l_louds : list bool;
  l_hasprefix : list bool; l_prefixes : list key;
  l_hassuffix : list bool; l_suffixes : list key;
  l_values : list V }.
Definition lvl0 : lvl := {| l_labels := []; l_haschild := []; l_louds := []; l_hasprefix := []; l_prefixes := [];
                            l_hassuffix := []; l_suffixes := []; l_values := [] |}.

Fixpoint upd (acc : list lvl) (i : nat) (f : lvl -> lvl) : list lvl :=
  match acc, i with
  | [], O => [f lvl0]
  | [], S i' => lvl0 :: upd [] i' f
  | x :: acc', O => f x :: acc'
  | x :: acc', S i' => x :: upd acc' i' f
  end.

(* one label: [first] = first label of its node; a leaf label carries a value and maybe a suffix *)
Definition add_label (a : nat) (first child : bool) (suffix : option key) (value : option V) (l : lvl) : lvl :=
  {| l_labels := l_labels l ++ [a]; l_haschild := l_haschild l ++ [child]; l_louds := l_louds l ++ [first];
     l_hasprefix := l_hasprefix l; l_prefixes := l_prefixes l;
     l_hassuffix := l_hassuffix l ++ [match suffix with Some _ => true | None => false end];
     l_suffixes := l_suffixes l ++ match suffix with Some s => [s] | None => [] end;
     l_values := l_values l ++ match value with Some v => [v] | None => [] end |}.
Definition end_node (p : key) (l : lvl) : lvl :=
  {| l_labels := l_labels l; l_haschild := l_haschild l; l_louds := l_louds l;
     l_hasprefix := l_hasprefix l ++ [match p with [] => false | _ => true end];
     l_prefixes := l_prefixes l ++ match p with [] => [] | _ => [p] end;
     l_hassuffix := l_hassuffix l; l_suffixes := l_suffixes l; l_values := l_values l |}.

Fixpoint emit (n : node) (i : nat) (acc : list lvl) {struct n} : list lvl :=
  match n with
  | Node p t es =>
    let acc1 := match t with Some v => upd acc i (add_label terminator true false None (Some v)) | None => acc end in
    let first0 := match t with Some _ => false | None => true end in
    let acc2 :=
      (fix go (es : list (nat * edge)) (first : bool) (acc : list lvl) : list lvl :=
         match es with
         | [] => acc
         | (a, Leaf s v) :: es' =>
             go es' false (upd acc i (add_label a first false (match s with [] => None | _ => Some s end) (Some v)))
         | (a, Child c) :: es' =>
             go es' false (emit c (S i) (upd acc i (add_label a first true None None)))
         end) es first0 acc1 in
    upd acc2 i (end_node p)
  end.
Definition levels_of (n : node) : list lvl := emit n 0 [].

(* ---------- sorted-map semantics of iteration, seek and prefix enumeration ---------- *)
Fixpoint lex_le (a b : key) : bool :=
  match a, b with
  | [], _ => true
  | _ :: _, [] => false
  | x :: a', y :: b' => if x <? y then true else if x =? y then lex_le a' b' else false
  end.
Fixpoint lower_bound (k : key) (l : list ent) : option ent :=
  match l with [] => None | (k', v) :: l' => if lex_le k k' then Some (k', v) else lower_bound k l' end.
Fixpoint is_prefix (p k : key) : bool :=
  match p, k with [], _ => true | x :: p', y :: k' => (x =? y) && is_prefix p' k' | _ :: _, [] => false end.
Definition with_prefix (p : key) (l : list ent) : list ent := filter (fun e => is_prefix p (fst e)) l.
(* the largest entry strictly below k *)
Fixpoint predecessor (k : key) (l : list ent) (acc : option ent) : option ent :=
  match l with [] => acc | (k', v) :: l' => if lex_lt k' k then predecessor k l' (Some (k', v)) else acc end.

(* in-order traversal of the logical trie *)
Fixpoint flatten (n : node) {struct n} : list ent :=
  match n with
  | Node p t es =>
      match t with Some v => [(p, v)] | None => [] end ++
      (fix go (es : list (nat * edge)) : list ent :=
         match es with
         | [] => []
         | (a, Leaf s v) :: es' => (p ++ a :: s, v) :: go es'
         | (a, Child c) :: es' => map (fun e => (p ++ a :: fst e, snd e)) (flatten c) ++ go es'
         end) es
  end.
