From Coq Require Import List Arith Lia Bool.
Import ListNotations.
From LinDBV.C20 Require Import Model.

Lemma key_eqb_spec a b : reflect (a = b) (key_eqb a b).
Proof. revert b; induction a as [|x a IH]; intros [|y b]; simpl; try (constructor; congruence).
  destruct (Nat.eqb_spec x y); simpl; [|constructor; congruence].
  destruct (IH b); constructor; congruence. Qed.

(* ---------- logical trie ---------- *)
(* ---------- builder (model of buildNodes on the remainders of the keys) ---------- *)
Lemma sortedK_tail e l : sortedK (e :: l) -> sortedK l.
Proof. unfold sortedK. destruct l as [|e2 l]; simpl; auto. intros H. apply andb_prop in H. tauto. Qed.

Lemma lex_lt_head x t y t' : lex_lt (x :: t) (y :: t') = true -> x <= y.
Proof. cbn [lex_lt]. destruct (x <? y) eqn:E1; [apply Nat.ltb_lt in E1; lia|].
  destruct (x =? y) eqn:E2; [apply Nat.eqb_eq in E2; lia|discriminate]. Qed.

Lemma lex_lt_same_head x t t' : lex_lt (x :: t) (x :: t') = lex_lt t t'.
Proof. cbn [lex_lt]. rewrite Nat.ltb_irrefl, Nat.eqb_refl. reflexivity. Qed.

Lemma sortedK_cons2 k1 v1 k2 v2 l : sortedK ((k1, v1) :: (k2, v2) :: l) <-> lex_lt k1 k2 = true /\ sortedK ((k2, v2) :: l).
Proof. unfold sortedK. cbn [map fst sorted]. rewrite andb_true_iff. tauto. Qed.

Lemma sortedK_run a t v t2 v2 g r :
  sortedK ((a :: t, v) :: map (fun '(t, v) => (a :: t, v)) ((t2, v2) :: g) ++ r) -> sortedK ((t2, v2) :: g) ->
  sortedK ((t, v) :: (t2, v2) :: g).
Proof.
  cbn [map app]. intros H Sg. apply sortedK_cons2 in H as [H1 _]. rewrite lex_lt_same_head in H1.
  apply sortedK_cons2. split; assumption.
Qed.

Lemma sorted_heads_ge x t v l : sortedK ((x :: t, v) :: l) -> heads_ge x l.
Proof.
  revert x t v. induction l as [|[k2 v2] l IH]; intros x t v H k v0 Hin; simpl in Hin; [tauto|].
  unfold sortedK in H. simpl in H. apply andb_prop in H as [H1 H2].
  destruct k2 as [|y t2]; [simpl in H1; discriminate|].
  pose proof (lex_lt_head _ _ _ _ H1) as Hxy.
  destruct Hin as [Hin|Hin].
  - inversion Hin; subst. exists y, t2. auto.
  - destruct (IH y t2 v2 H2 k v0 Hin) as (y' & t' & -> & Hle). exists y', t'. split; auto. lia.
Qed.

Lemma sorted_after_empty v l : sortedK (([], v) :: l) -> nonempty_keys l.
Proof.
  intros H k v0 Hin ->. revert H Hin. induction l as [|[k2 v2] l IH]; simpl; intros H Hin; [tauto|].
  unfold sortedK in H. simpl in H. apply andb_prop in H as [H1 H2].
  destruct k2 as [|y t2]; [simpl in H1; discriminate|].
  destruct Hin as [Hin|Hin]; [inversion Hin|].
  assert (Hh : heads_ge y l) by (apply (sorted_heads_ge y t2 v2 l); exact H2).
  destruct (Hh _ _ Hin) as (? & ? & ? & _). discriminate.
Qed.

Lemma assoc_heads_gt a t l : heads_gt a l -> assoc (a :: t) l = None.
Proof.
  induction l as [|[k v] l IH]; simpl; intros H; auto.
  destruct (H k v (or_introl eq_refl)) as (y & t' & -> & Hlt).
  simpl. destruct (Nat.eqb_spec y a); [lia|]. simpl. apply IH. intros k' v' Hin. apply (H k' v'). right; exact Hin.
Qed.

Lemma assoc_nil_nonempty l : nonempty_keys l -> assoc [] l = None.
Proof.
  induction l as [|[k v] l IH]; simpl; intros H; auto.
  destruct k as [|y t]; [exfalso; apply (H [] v); [left; reflexivity|reflexivity]|].
  simpl. apply IH. intros k' v' Hin. apply (H k' v'). right; exact Hin.
Qed.

(* take_head: splits off the run of keys starting with a *)
Lemma take_head_spec a : forall l g r, take_head a l = (g, r) ->
  sortedK l -> heads_ge a l ->
  l = map (fun '(t, v) => (a :: t, v)) g ++ r /\ sortedK g /\ sortedK r /\ heads_gt a r.
Proof.
  induction l as [|[k v] l IH]; intros g r Ht Hs Hh; simpl in Ht.
  - inversion Ht; subst. repeat split; auto. intros ? ? [].
  - destruct k as [|x t].
    + inversion Ht; subst. destruct (Hh [] v (or_introl eq_refl)) as (? & ? & ? & _). discriminate.
    + destruct (Nat.eqb_spec x a) as [->|Hne].
      * destruct (take_head a l) as [g' r'] eqn:Hth. inversion Ht; subst.
        assert (Hh' : heads_ge a l) by (intros k' v' Hin; apply (Hh k' v'); right; exact Hin).
        destruct (IH _ _ eq_refl (sortedK_tail _ _ Hs) Hh') as (El & Sg & Sr & Hr).
        repeat split; auto.
        -- simpl. f_equal. exact El.
        -- (* sortedK ((t,v) :: g') *)
           destruct g' as [|[t2 v2] g'']; [reflexivity|].
           rewrite El in Hs. eapply sortedK_run; eassumption.
      * inversion Ht; subst. repeat split; auto.
        intros k' v' Hin. destruct (Hh _ _ Hin) as (y & t' & -> & Hle).
        destruct Hin as [Hin|Hin].
        -- inversion Hin; subst. exists y, t'. split; auto. lia.
        -- destruct (sorted_heads_ge _ _ _ _ Hs _ _ Hin) as (y2 & t2 & E2 & Hle2). inversion E2; subst.
           destruct (Hh (x :: t) v (or_introl eq_refl)) as (y3 & t3 & E3 & Hle3). inversion E3; subst.
           exists y2, t2. split; auto. lia.
Qed.

Lemma assoc_app_run a g r t :
  assoc (a :: t) (map (fun '(t, v) => (a :: t, v)) g ++ r) =
  match assoc t g with Some v => Some v | None => assoc (a :: t) r end.
Proof.
  induction g as [|[t1 v1] g IH]; simpl; auto.
  rewrite Nat.eqb_refl. simpl. destruct (key_eqb t1 t); auto.
Qed.

Lemma assoc_app_run_ne a b g r t : b <> a ->
  assoc (b :: t) (map (fun '(t, v) => (a :: t, v)) g ++ r) = assoc (b :: t) r.
Proof.
  intros Hne. induction g as [|[t1 v1] g IH]; simpl; auto.
  destruct (Nat.eqb_spec a b); [congruence|]. simpl. exact IH.
Qed.

Lemma take_head_length a l g r : take_head a l = (g, r) -> length r <= length l.
Proof.
  revert g r; induction l as [|[k v] l IH]; intros g r H; simpl in H.
  - inversion H; subst; auto.
  - destruct k as [|x t]; [inversion H; subst; auto|].
    destruct (x =? a); [|inversion H; subst; auto].
    destruct (take_head a l) as [g' r'] eqn:E. inversion H; subst. specialize (IH _ _ eq_refl). simpl. lia.
Qed.

Lemma groups_spec : forall n l, length l <= n -> sortedK l -> nonempty_keys l ->
  (forall a t, assoc (a :: t) l = match glookup a (groups n l) with Some g => assoc t g | None => None end)
  /\ (forall a g, In (a, g) (groups n l) -> sortedK g /\ g <> []).
Proof.
  induction n as [|n IH]; intros l Hlen Hs Hne.
  - destruct l; [|simpl in Hlen; lia]. simpl. split; [reflexivity|intros ? ? []].
  - destruct l as [|[k v] l]; [simpl; split; [reflexivity|intros ? ? []]|].
    destruct k as [|x t]; [exfalso; apply (Hne [] v); [left; reflexivity|reflexivity]|].
    simpl. destruct (take_head x l) as [g r] eqn:Hth.
    assert (Hh : heads_ge x l) by (eapply sorted_heads_ge; exact Hs).
    destruct (take_head_spec x l g r Hth (sortedK_tail _ _ Hs) Hh) as (El & Sg & Sr & Hr).
    assert (Hlr : length r <= n) by (pose proof (take_head_length _ _ _ _ Hth); simpl in Hlen; lia).
    assert (Hner : nonempty_keys r).
    { intros k' v' Hin. destruct (Hr _ _ Hin) as (? & ? & -> & _). discriminate. }
    destruct (IH r Hlr Sr Hner) as [IHa IHg].
    assert (Sg' : sortedK ((t, v) :: g)).
    { destruct g as [|[t2 v2] g'']; [reflexivity|].
      rewrite El in Hs. eapply sortedK_run; eassumption. }
    split.
    + intros a t'. simpl. destruct (Nat.eqb_spec x a) as [->|Hxa].
      * simpl. destruct (key_eqb_spec t t'); [reflexivity|].
        rewrite El. rewrite assoc_app_run. destruct (assoc t' g); auto.
        apply assoc_heads_gt. exact Hr.
      * simpl. rewrite El. rewrite assoc_app_run_ne by congruence. apply IHa.
    + intros a g0 [Hin|Hin].
      * inversion Hin; subst. split; [exact Sg'|discriminate].
      * apply (IHg _ _ Hin).
Qed.

Lemma groups_single n l a g : length l <= n -> sortedK l -> nonempty_keys l ->
  groups n l = [(a, g)] -> forall k, assoc k l = match k with [] => None | b :: t => if b =? a then assoc t g else None end.
Proof.
  intros Hlen Hs Hne Hg k. destruct (groups_spec n l Hlen Hs Hne) as [Ha _].
  destruct k as [|b t]; [apply assoc_nil_nonempty; exact Hne|].
  rewrite Ha, Hg. simpl. rewrite (Nat.eqb_sym a b). destruct (b =? a); reflexivity.
Qed.

Lemma get_unfold p t es k : get (Node p t es) k =
  match strip p k with None => None | Some [] => t | Some (a :: k2) => find_in get a k2 es end.
Proof. reflexivity. Qed.

Lemma build_unfold f ks : build (S f) ks =
    let '(term, ks') := match ks with ([], v) :: rest => (Some v, rest) | _ => (None, ks) end in
    match ks' with
    | [] => None
    | _ =>
      let gs := groups (length ks') ks' in
      match term, gs with
      | None, [(a, (_ :: _ :: _) as g)] =>
        match build f g with Some (Node p t es) => Some (Node (a :: p) t es) | None => None end
      | _, _ => match edges_of f gs with Some es => Some (Node [] term es) | None => None end
      end
    end.
Proof. reflexivity. Qed.

Theorem build_get : forall fuel ks n, build fuel ks = Some n -> sortedK ks ->
  forall k, get n k = assoc k ks.
Proof.
  induction fuel as [|f IH]; intros ks n Hb Hs k; [discriminate|].
  rewrite build_unfold in Hb.
  set (tk := match ks with ([], v) :: rest => (Some v, rest) | _ => (None, ks) end) in Hb.
  assert (Htk : exists term ks', tk = (term, ks') /\ sortedK ks' /\ nonempty_keys ks' /\
              (forall k, assoc k ks = match k with [] => term | _ => assoc k ks' end)).
  { unfold tk. destruct ks as [|[[|x t] v] rest].
    - exists None, []. repeat split; auto. + intros ? ? []. + intros [|]; reflexivity.
    - exists (Some v), rest. repeat split; auto.
      + eapply sortedK_tail; exact Hs. + eapply sorted_after_empty; exact Hs.
      + intros [|]; reflexivity.
    - exists None, ((x :: t, v) :: rest). repeat split; auto.
      + intros k' v' [Hin|Hin]; [inversion Hin; discriminate|].
        destruct (sorted_heads_ge _ _ _ _ Hs _ _ Hin) as (? & ? & -> & _). discriminate.
      + intros [|b t']; [|reflexivity]. simpl. apply assoc_nil_nonempty.
        intros k' v' Hin. destruct (sorted_heads_ge _ _ _ _ Hs _ _ Hin) as (? & ? & -> & _). discriminate. }
  destruct Htk as (term & ks' & -> & Hs' & Hne' & Hassoc).
  assert (Hks' : ks' <> []) by (intro E; rewrite E in Hb; discriminate).
  assert (Hm : forall (A : Type) (x y : A), match ks' with [] => x | _ :: _ => y end = y)
    by (intros; destruct ks'; congruence).
  rewrite Hm in Hb. clear Hm. cbv zeta in Hb.
  destruct (groups_spec (length ks') ks' (le_n _) Hs' Hne') as [Ga Gg].
  remember (groups (length ks') ks') as gs eqn:Egs.
  (* the edge list agrees with group lookup *)
  assert (Hedges : forall gs es,
     (forall a g, In (a, g) gs -> sortedK g /\ g <> []) ->
     edges_of f gs = Some es ->
     forall a k2, find_in get a k2 es = match glookup a gs with Some g => assoc k2 g | None => None end).
  { clear -IH. induction gs as [|[b g] gs IHgs]; intros es Hg Hf a k2; unfold edges_of in Hf; simpl in Hf.
    - inversion Hf; subst. reflexivity.
    - fold (edges_of f gs) in Hf. destruct (edges_of f gs) as [es'|] eqn:Ef; [|discriminate].
      assert (Hg' : forall a g, In (a, g) gs -> sortedK g /\ g <> [])
        by (intros a0 g0 Hin0; apply (Hg a0 g0); right; exact Hin0).
      specialize (IHgs es' Hg' eq_refl).
      destruct (Hg b g (or_introl eq_refl)) as [Sg Gne].
      destruct g as [|[t1 v1] [|e2 g2]]; [congruence| |].
      + inversion Hf; subst. simpl. destruct (b =? a); [|apply IHgs].
        simpl. destruct (key_eqb t1 k2); reflexivity.
      + cbn iota beta in Hf.
        match type of Hf with context [build f ?x] => destruct (build f x) as [c|] eqn:Eb end; [|discriminate].
        inversion Hf; subst.
        simpl. destruct (b =? a); [|apply IHgs]. apply (IH _ _ Eb Sg). }
  (* the generic edge form *)
  assert (Hedge_case : forall es, edges_of f gs = Some es -> n = Node [] term es -> get n k = assoc k ks).
  { intros es Ef ->. rewrite Hassoc, get_unfold. simpl strip.
    destruct k as [|a k2]; [reflexivity|].
    rewrite (Hedges _ _ Gg Ef). symmetry. apply Ga. }
  destruct term as [tv|].
  - destruct (edges_of f gs) as [es|] eqn:Ef.
    + apply (Hedge_case es eq_refl).
      destruct gs as [|[? [|? [|? ?]]] [|? ?]]; inversion Hb; reflexivity.
    + destruct gs as [|[? [|? [|? ?]]] [|? ?]]; discriminate.
  - destruct gs as [|[a g] [|g2 gs']].
    + destruct (edges_of f []) as [es|] eqn:Ef; [|discriminate].
      apply (Hedge_case es eq_refl). inversion Hb; reflexivity.
    + destruct g as [|e1 [|e2 g']].
      * destruct (edges_of f [(a, [])]) as [es|] eqn:Ef; [|discriminate].
        apply (Hedge_case es eq_refl). inversion Hb; reflexivity.
      * destruct (edges_of f [(a, [e1])]) as [es|] eqn:Ef; [|discriminate].
        apply (Hedge_case es eq_refl). inversion Hb; reflexivity.
      * (* one-way node: compress *)
        match type of Hb with context [build f ?x] => destruct (build f x) as [[p t es]|] eqn:Eb end; [|discriminate].
        inversion Hb; subst n.
        destruct (Gg a (e1 :: e2 :: g') (or_introl eq_refl)) as [Sg _].
        pose proof (IH _ _ Eb Sg) as IHc.
        rewrite Hassoc.
        destruct k as [|b k2].
        -- rewrite get_unfold. reflexivity.
        -- rewrite Ga. cbn [glookup]. rewrite get_unfold. cbn [strip].
           destruct (Nat.eqb_spec a b) as [->|Hne].
           ++ rewrite <- (IHc k2). rewrite get_unfold. reflexivity.
           ++ reflexivity.
    + destruct (edges_of f ((a, g) :: g2 :: gs')) as [es|] eqn:Ef.
      * apply (Hedge_case es eq_refl). destruct g as [|? [|? ?]]; inversion Hb; reflexivity.
      * destruct g as [|? [|? ?]]; discriminate.
Qed.
