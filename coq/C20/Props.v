(* C20 — property theorems only. *)
From Coq Require Import List Arith.
Import ListNotations.
From LinDBV.C20 Require Import Model Proofs.

(* exact lookup in the built dictionary equals lookup in the sorted list of pairs, for every strictly sorted
   key list over any byte values (present keys, proper prefixes, extensions, anything else) *)
Theorem C20_build_get : forall fuel ks n, build fuel ks = Some n -> sortedK ks ->
  forall k, get n k = assoc k ks.
Proof. exact build_get. Qed.
Print Assumptions C20_build_get.
