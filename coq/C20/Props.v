(* C20 — property theorems only. *)
From Coq Require Import List Arith.
Import ListNotations.
From LinDBV.C20 Require Import Model Proofs.

(* exact lookup in the built dictionary equals lookup in the sorted list of pairs, for every strictly sorted
   key list over any byte values (present keys, proper prefixes, extensions, anything else) *)
Theorem C20_build_get : forall fuel ks n, build fuel ks = Some n -> sortedK ks ->
  forall k, get n k = assoc k ks.
Proof. exact build_get. Qed.
Print Assumptions C20_build_get.

(* a bucket held by several table files: looking a key up file by file (TrieBucket.GetValue) is looking it up in the union
   of the dictionaries, i.e. in what a compaction merges them into; dictionaries of one bucket never share a key *)
From LinDBV.C20 Require Bucket.
Theorem C20_bucket_get_union : forall (ds : list (list ent)) (k : key),
  NoDup (map fst (concat ds)) -> Bucket.bget ds k = assoc k (Bucket.union ds).
Proof. exact Bucket.bucket_get_union. Qed.
Print Assumptions C20_bucket_get_union.
