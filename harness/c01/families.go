package main

import (
	"fmt"
	"os"
	"path/filepath"
	"sort"
	"sync"
	"sync/atomic"
	"time"

	"github.com/lindb/lindb/kv"
	"github.com/lindb/lindb/kv/table"
	"github.com/lindb/lindb/pkg/verifhook"

	"lindbverif/vh"
)

// several families of one store: create-family / flush / reopen at operation granularity; after every operation the id
// under which every pool name is registered and the contents its family shows (one content id per committed flush).
type famOp struct {
	K  string `json:"k"` // create, flush, reopen, crash, race
	N  int    `json:"n,omitempty"`
	C  int    `json:"c,omitempty"`
	M  int    `json:"m,omitempty"`  // race: the family whose commit holds the manifest lock while two commits of family N queue
	C2 int    `json:"c2,omitempty"` // race: content of the second commit of family N
	C3 int    `json:"c3,omitempty"` // race: content of the commit of family M
}

// raceCommits: the first commit is held while it appends its manifest record (it holds the version set's lock), the
// others are started and queue behind it; after its release the first of them to reach its own append is held until the
// other one waits for the lock.  On any tree every commit returns; what they leave behind is observed afterwards.
func raceCommits(first kv.Flusher, others ...kv.Flusher) []error {
	var arrivals atomic.Int32
	hold := make(chan struct{})
	verifhook.Set(func(pt string) {
		if pt != "kv.fs.appendRecord" {
			return
		}
		switch arrivals.Add(1) {
		case 1:
			<-hold
		case 2:
			time.Sleep(30 * time.Millisecond)
		}
	})
	defer verifhook.Set(nil)
	errs := make([]error, 1+len(others))
	var wg sync.WaitGroup
	wg.Add(1)
	go func() { defer wg.Done(); errs[0] = first.Commit() }()
	for i := 0; i < 1000 && arrivals.Load() < 1; i++ {
		time.Sleep(time.Millisecond)
	}
	for i := range others {
		wg.Add(1)
		go func(i int) { defer wg.Done(); errs[i+1] = others[i].Commit() }(i)
	}
	time.Sleep(30 * time.Millisecond)
	close(hold)
	wg.Wait()
	return errs
}

func (o famOp) coq() string {
	switch o.K {
	case "flush", "sweepflush":
		return fmt.Sprintf("[Families.Flush %d %d]", o.N, o.C)
	case "race":
		return fmt.Sprintf("[Families.Flush %d %d; Families.Flush %d %d; Families.Flush %d %d]", o.N, o.C, o.N, o.C2, o.M, o.C3)
	case "create":
		return fmt.Sprintf("[Families.CreateFam %d]", o.N)
	}
	return "[Families.Reopen]"
}

func famName(n int) string { return fmt.Sprintf("fam%d", n) }

const unreadable = 9999

func observeFamilies(st kv.Store, pool []int) string {
	var xs []string
	for _, n := range pool {
		fam := st.GetFamily(famName(n))
		if fam == nil {
			xs = append(xs, "(None, [])")
			continue
		}
		snap := fam.GetSnapshot()
		var nums []int
		for _, fm := range snap.GetCurrent().GetAllFiles() {
			nums = append(nums, int(fm.GetFileNumber()))
		}
		sort.Ints(nums)
		var cs []int
		for _, fn := range nums {
			kvs, err := readTable(snap, table.FileNumber(fn))
			if err != nil {
				cs = append(cs, unreadable)
				continue
			}
			var ks []int
			for k := range kvs {
				ks = append(ks, int(k))
			}
			sort.Ints(ks)
			cs = append(cs, ks...)
		}
		snap.Close()
		xs = append(xs, fmt.Sprintf("(Some %d, %s)", int(fam.ID()), vh.NatList(cs)))
	}
	return vh.List(xs)
}

func runFamilies(out *vh.Out, root string, id int, ops []famOp, name string) {
	p := filepath.Join(root, fmt.Sprintf("fams%d", id))
	defer os.RemoveAll(p)
	defer os.RemoveAll(p + ".crash")
	pool := []int{1, 2, 3}
	cur := p
	st, err := kv.GetStoreManager().CreateStore(cur, kv.DefaultStoreOption())
	if err != nil {
		out.Violation(0, "open", err.Error(), nil)
		return
	}
	defer func() { _ = kv.GetStoreManager().CloseStore(cur) }()
	var done []famOp
	var obs []string
	failed := ""
	generation := 0
	for _, o := range ops {
		switch o.K {
		case "create":
			if _, err := st.CreateFamily(famName(o.N), famOpt); err != nil {
				failed = "create family: " + err.Error()
			}
		case "flush":
			fam := st.GetFamily(famName(o.N))
			if fam == nil {
				continue // not generated; the model's Flush of an unknown family is a no-op too
			}
			fl := fam.NewFlusher()
			if err := fl.Add(uint32(o.C), []byte{byte(o.C)}); err != nil {
				failed = "flush add: " + err.Error()
			} else if err := fl.Commit(); err != nil {
				failed = "flush commit: " + err.Error()
			}
			fl.Release()
		case "race":
			famN, famM := st.GetFamily(famName(o.N)), st.GetFamily(famName(o.M))
			if famN == nil || famM == nil || o.N == o.M {
				continue
			}
			// tables are built (and numbered) in the order A, B, G; only the commits race
			flA, flB, flG := famN.NewFlusher(), famN.NewFlusher(), famM.NewFlusher()
			for _, fc := range []struct {
				fl kv.Flusher
				c  int
			}{{flA, o.C}, {flB, o.C2}, {flG, o.C3}} {
				if err := fc.fl.Add(uint32(fc.c), []byte{byte(fc.c)}); err != nil {
					failed = "flush add: " + err.Error()
				}
			}
			for _, err := range raceCommits(flG, flA, flB) {
				if err != nil {
					failed = "racing flush commit: " + err.Error()
				}
			}
			flA.Release()
			flB.Release()
			flG.Release()
		case "sweepflush":
			fam := st.GetFamily(famName(o.N))
			if fam == nil {
				continue
			}
			// the table is built (pending output), then an obsolete-file sweep of the family lists the directory and is held
			// between its two reads of the live files (pending outputs / files of the versions, in whichever order it takes
			// them); the flush commits meanwhile; then the sweep goes on
			fl := fam.NewFlusher()
			if err := fl.Add(uint32(o.C), []byte{byte(o.C)}); err != nil {
				failed = "flush add: " + err.Error()
				break
			}
			var parked atomic.Int32
			hold := make(chan struct{})
			verifhook.Set(func(pt string) {
				if (pt == "kv.delobs.afterPending" || pt == "kv.delobs.afterActive") && parked.Add(1) == 1 {
					<-hold
				}
			})
			swept := make(chan struct{})
			go func() { kv.VerifDeleteObsolete(fam); close(swept) }()
			for i := 0; i < 2000 && parked.Load() < 1; i++ {
				time.Sleep(time.Millisecond)
			}
			if err := fl.Commit(); err != nil {
				failed = "flush commit: " + err.Error()
			}
			fl.Release()
			close(hold)
			<-swept
			verifhook.Set(nil)
		case "reopen", "crash":
			next := cur
			if o.K == "crash" {
				// the directory as a dying process leaves it: copied while the store is open
				generation++
				next = fmt.Sprintf("%s.crash/g%d", p, generation)
				_ = os.MkdirAll(p+".crash", 0o755)
				if err := copyDir(cur, next); err != nil {
					failed = "image: " + err.Error()
					break
				}
				_ = os.Remove(filepath.Join(next, "LOCK"))
			}
			for _, n := range pool {
				if fam := st.GetFamily(famName(n)); fam != nil {
					kv.VerifWaitBackground(fam)
				}
			}
			_ = kv.GetStoreManager().CloseStore(cur)
			cur = next
			st, err = kv.GetStoreManager().CreateStore(cur, kv.DefaultStoreOption())
			if err != nil {
				failed = "reopen: " + err.Error()
			}
		}
		if failed != "" {
			break
		}
		done = append(done, o)
		obs = append(obs, observeFamilies(st, pool))
	}
	kinds := map[string]int{}
	var oc []string
	for _, o := range done {
		kinds[o.K]++
		oc = append(oc, o.coq())
		out.Count("families-op:" + o.K)
	}
	idx := out.Case(map[string]interface{}{"kind": "families", "name": name, "ops": ops, "failed": failed},
		kinds["create"] >= 2 && kinds["flush"]+kinds["race"]+kinds["sweepflush"] >= 2 && kinds["reopen"]+kinds["crash"] >= 1)
	out.Count("families-histories")
	if failed != "" {
		out.Violation(idx, "families", "an operation of a multi-family history failed: "+failed, nil)
	}
	out.Check(idx, fmt.Sprintf("check_family_groups [1; 2; 3] %s\n %s", vh.List(oc), vh.List(obs)))
}

func familiesCases(out *vh.Out, root string, r *vh.Rand, n int, id *int) {
	// a family created after a reopen, flushes into both, another restart
	c := 10
	dir := []famOp{{K: "create", N: 1}, {K: "flush", N: 1, C: c}, {K: "reopen"}, {K: "create", N: 2}, {K: "flush", N: 2, C: c + 1},
		{K: "flush", N: 1, C: c + 2}, {K: "crash"}, {K: "create", N: 3}, {K: "flush", N: 3, C: c + 3}, {K: "flush", N: 2, C: c + 4}, {K: "reopen"}}
	runFamilies(out, root, *id, dir, "family created after a reopen")
	*id++
	// three commits at once: one of another family holds the manifest lock while two of the same family queue behind it
	runFamilies(out, root, *id, []famOp{{K: "create", N: 1}, {K: "create", N: 2}, {K: "flush", N: 1, C: 10}, {K: "race", N: 1, M: 2, C: 11, C2: 12, C3: 13},
		{K: "flush", N: 1, C: 14}, {K: "crash"}, {K: "race", N: 2, M: 1, C: 15, C2: 16, C3: 17}, {K: "sweepflush", N: 1, C: 18}, {K: "reopen"}}, "racing commits of one family behind a commit of another; a flush committing inside an obsolete-file sweep")
	*id++
	for i := 0; i < n; i++ {
		var ops []famOp
		created := map[int]bool{}
		next := 10
		for j := r.Range(5, 14); j > 0; j-- {
			x := r.Intn(100)
			switch {
			case len(created) == 0 || (x < 22 && len(created) < 3):
				k := r.Range(1, 3)
				created[k] = true
				ops = append(ops, famOp{K: "create", N: k})
			case x < 34 && len(created) >= 2:
				var ks []int
				for k := range created {
					ks = append(ks, k)
				}
				sort.Ints(ks)
				p := r.Perm(len(ks))
				ops = append(ops, famOp{K: "race", N: ks[p[0]], M: ks[p[1]], C: next + 1, C2: next + 2, C3: next + 3})
				next += 3
			case x < 70:
				var ks []int
				for k := range created {
					ks = append(ks, k)
				}
				sort.Ints(ks)
				next++
				kind := "flush"
				if r.Chance(25) {
					kind = "sweepflush"
				}
				ops = append(ops, famOp{K: kind, N: ks[r.Intn(len(ks))], C: next})
			case x < 85:
				ops = append(ops, famOp{K: "reopen"})
			default:
				ops = append(ops, famOp{K: "crash"})
			}
		}
		runFamilies(out, root, *id, ops, "random")
		*id++
	}
}
