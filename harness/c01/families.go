package main

import (
	"fmt"
	"os"
	"path/filepath"
	"sort"

	"github.com/lindb/lindb/kv"
	"github.com/lindb/lindb/kv/table"

	"lindbverif/vh"
)

// several families of one store: create-family / flush / reopen at operation granularity; after every operation the id
// under which every pool name is registered and the contents its family shows (one content id per committed flush).
type famOp struct {
	K string `json:"k"` // create, flush, reopen, crash
	N int    `json:"n,omitempty"`
	C int    `json:"c,omitempty"`
}

func (o famOp) coq() string {
	switch o.K {
	case "create":
		return fmt.Sprintf("Families.CreateFam %d", o.N)
	case "flush":
		return fmt.Sprintf("Families.Flush %d %d", o.N, o.C)
	}
	return "Families.Reopen"
}

func famName(n int) string { return fmt.Sprintf("fam%d", n) }

const unreadable = 9999

func observeFamilies(st kv.Store, pool []int) string {
	var xs []string
	for _, n := range pool {
		fam := st.GetFamily(famName(n))
		if fam == nil {
			xs = append(xs, "(None, [])")
			continue
		}
		snap := fam.GetSnapshot()
		var nums []int
		for _, fm := range snap.GetCurrent().GetAllFiles() {
			nums = append(nums, int(fm.GetFileNumber()))
		}
		sort.Ints(nums)
		var cs []int
		for _, fn := range nums {
			kvs, err := readTable(snap, table.FileNumber(fn))
			if err != nil {
				cs = append(cs, unreadable)
				continue
			}
			var ks []int
			for k := range kvs {
				ks = append(ks, int(k))
			}
			sort.Ints(ks)
			cs = append(cs, ks...)
		}
		snap.Close()
		xs = append(xs, fmt.Sprintf("(Some %d, %s)", int(fam.ID()), vh.NatList(cs)))
	}
	return vh.List(xs)
}

func runFamilies(out *vh.Out, root string, id int, ops []famOp, name string) {
	p := filepath.Join(root, fmt.Sprintf("fams%d", id))
	defer os.RemoveAll(p)
	defer os.RemoveAll(p + ".crash")
	pool := []int{1, 2, 3}
	cur := p
	st, err := kv.GetStoreManager().CreateStore(cur, kv.DefaultStoreOption())
	if err != nil {
		out.Violation(0, "open", err.Error(), nil)
		return
	}
	defer func() { _ = kv.GetStoreManager().CloseStore(cur) }()
	var done []famOp
	var obs []string
	failed := ""
	generation := 0
	for _, o := range ops {
		switch o.K {
		case "create":
			if _, err := st.CreateFamily(famName(o.N), famOpt); err != nil {
				failed = "create family: " + err.Error()
			}
		case "flush":
			fam := st.GetFamily(famName(o.N))
			if fam == nil {
				continue // not generated; the model's Flush of an unknown family is a no-op too
			}
			fl := fam.NewFlusher()
			if err := fl.Add(uint32(o.C), []byte{byte(o.C)}); err != nil {
				failed = "flush add: " + err.Error()
			} else if err := fl.Commit(); err != nil {
				failed = "flush commit: " + err.Error()
			}
			fl.Release()
		case "reopen", "crash":
			next := cur
			if o.K == "crash" {
				// the directory as a dying process leaves it: copied while the store is open
				generation++
				next = fmt.Sprintf("%s.crash/g%d", p, generation)
				_ = os.MkdirAll(p+".crash", 0o755)
				if err := copyDir(cur, next); err != nil {
					failed = "image: " + err.Error()
					break
				}
				_ = os.Remove(filepath.Join(next, "LOCK"))
			}
			for _, n := range pool {
				if fam := st.GetFamily(famName(n)); fam != nil {
					kv.VerifWaitBackground(fam)
				}
			}
			_ = kv.GetStoreManager().CloseStore(cur)
			cur = next
			st, err = kv.GetStoreManager().CreateStore(cur, kv.DefaultStoreOption())
			if err != nil {
				failed = "reopen: " + err.Error()
			}
		}
		if failed != "" {
			break
		}
		done = append(done, o)
		obs = append(obs, observeFamilies(st, pool))
	}
	kinds := map[string]int{}
	var oc []string
	for _, o := range done {
		kinds[o.K]++
		oc = append(oc, o.coq())
		out.Count("families-op:" + o.K)
	}
	idx := out.Case(map[string]interface{}{"kind": "families", "name": name, "ops": ops, "failed": failed},
		kinds["create"] >= 2 && kinds["flush"] >= 2 && kinds["reopen"]+kinds["crash"] >= 1)
	out.Count("families-histories")
	if failed != "" {
		out.Violation(idx, "families", "an operation of a multi-family history failed: "+failed, nil)
	}
	out.Check(idx, fmt.Sprintf("check_families [1; 2; 3] %s\n %s", vh.List(oc), vh.List(obs)))
}

func familiesCases(out *vh.Out, root string, r *vh.Rand, n int, id *int) {
	// a family created after a reopen, flushes into both, another restart
	c := 10
	dir := []famOp{{K: "create", N: 1}, {K: "flush", N: 1, C: c}, {K: "reopen"}, {K: "create", N: 2}, {K: "flush", N: 2, C: c + 1},
		{K: "flush", N: 1, C: c + 2}, {K: "crash"}, {K: "create", N: 3}, {K: "flush", N: 3, C: c + 3}, {K: "flush", N: 2, C: c + 4}, {K: "reopen"}}
	runFamilies(out, root, *id, dir, "family created after a reopen")
	*id++
	for i := 0; i < n; i++ {
		var ops []famOp
		created := map[int]bool{}
		next := 10
		for j := r.Range(5, 14); j > 0; j-- {
			x := r.Intn(100)
			switch {
			case len(created) == 0 || (x < 22 && len(created) < 3):
				k := r.Range(1, 3)
				created[k] = true
				ops = append(ops, famOp{K: "create", N: k})
			case x < 70:
				var ks []int
				for k := range created {
					ks = append(ks, k)
				}
				sort.Ints(ks)
				next++
				ops = append(ops, famOp{K: "flush", N: ks[r.Intn(len(ks))], C: next})
			case x < 85:
				ops = append(ops, famOp{K: "reopen"})
			default:
				ops = append(ops, famOp{K: "crash"})
			}
		}
		runFamilies(out, root, *id, ops, "random")
		*id++
	}
}
