// C01 harness: histories of create / flush / compaction / reopen on a real kv store; at the scheduling point before
// every file-system operation (and after every operation) a copy of the store directory is taken; every copy is
// reopened with the real store manager and its content, and the number of the next table, are recorded.
package main

import (
	"fmt"
	"os"
	"os/exec"
	"path/filepath"
	"sort"
	"strings"
	"time"

	"github.com/lindb/lindb/kv"
	"github.com/lindb/lindb/kv/table"
	"github.com/lindb/lindb/pkg/verifhook"

	"lindbverif/vh"
)

type merger struct{ fl kv.Flusher }

func (m *merger) Init(map[string]interface{}) {}
func (m *merger) Merge(key uint32, values [][]byte) error {
	var b []byte
	for _, v := range values {
		b = append(b, v...)
	}
	return m.fl.Add(key, b)
}

var famOpt = kv.FamilyOption{Merger: "verif-c01", CompactThreshold: 2}

type yield struct {
	Kind  string   `json:"kind"`
	Files []string `json:"files_before"`
}

func listing(dir string) []string {
	var out []string
	_ = filepath.Walk(dir, func(p string, info os.FileInfo, err error) error {
		if err == nil && !info.IsDir() {
			rel, _ := filepath.Rel(dir, p)
			out = append(out, rel)
		}
		return nil
	})
	sort.Strings(out)
	return out
}

func numOf(name string) int {
	var n int
	base := filepath.Base(name)
	if strings.HasPrefix(base, "MANIFEST-") {
		fmt.Sscanf(base, "MANIFEST-%d", &n)
	} else {
		fmt.Sscanf(base, "%d.sst", &n)
	}
	return n
}

func tablesIn(files []string) map[int]bool {
	m := map[int]bool{}
	for _, f := range files {
		if strings.HasSuffix(f, ".sst") {
			m[numOf(f)] = true
		}
	}
	return m
}
func manifestsIn(files []string) map[int]bool {
	m := map[int]bool{}
	for _, f := range files {
		if strings.HasPrefix(f, "MANIFEST-") {
			m[numOf(f)] = true
		}
	}
	return m
}

func copyDir(src, dst string) error {
	_ = os.RemoveAll(dst)
	if _, err := os.Stat(src); err != nil {
		return os.MkdirAll(dst, 0o755)
	}
	return exec.Command("cp", "-r", src, dst).Run()
}

type opJ struct {
	K       string   `json:"k"` // open flush compact
	C       int      `json:"content,omitempty"`
	Table   int      `json:"table,omitempty"`
	Yields  []yield  `json:"fs_ops"`
	EndList []string `json:"files_after"`
	first   bool
}

type imageJ struct {
	Op    int         `json:"op"`
	T     int         `json:"before_fs_op"` // index of the real fs op the image was taken before; -1 = after the operation
	OK    bool        `json:"reopened"`
	Err   string      `json:"err,omitempty"`
	Files map[int]int `json:"tables"` // table number -> content id
	Next  int         `json:"next_table"`
	dir   string
	k     int
}

type world struct {
	p        string
	imgRoot  string
	st       kv.Store
	fam      kv.Family
	ops      []*opJ
	images   []*imageJ
	contents map[string]int // canonical kv content -> id
	nextC    int
	out      *vh.Out
	failed   bool
}

func (w *world) fail(what string, err error) {
	w.failed = true
	w.out.Violation(0, "harness", fmt.Sprintf("%s: %v", what, err), nil)
}

func canon(kvs map[uint32][]byte) string {
	var ks []int
	for k := range kvs {
		ks = append(ks, int(k))
	}
	sort.Ints(ks)
	var sb strings.Builder
	for _, k := range ks {
		fmt.Fprintf(&sb, "%d=%x;", k, kvs[uint32(k)])
	}
	return sb.String()
}

func readTable(snap interface {
	GetReader(table.FileNumber) (table.Reader, error)
}, n table.FileNumber) (map[uint32][]byte, error) {
	r, err := snap.GetReader(n)
	if err != nil {
		return nil, err
	}
	out := map[uint32][]byte{}
	it := r.Iterator()
	for it.HasNext() {
		out[it.Key()] = append([]byte(nil), it.Value()...)
	}
	return out, nil
}

// runOp runs one operation with the hook installed: trace + images
func (w *world) runOp(o *opJ, body func() error) {
	idx := len(w.ops)
	w.ops = append(w.ops, o)
	t := 0
	verifhook.Set(func(pt string) {
		if !strings.HasPrefix(pt, "kv.fs.") {
			return
		}
		files := listing(w.p)
		o.Yields = append(o.Yields, yield{Kind: strings.TrimPrefix(pt, "kv.fs."), Files: files})
		k := t
		if o.first && t > 1 {
			k = t + 1
		}
		img := &imageJ{Op: idx, T: t, dir: filepath.Join(w.imgRoot, fmt.Sprintf("op%d_%d", idx, t)), k: k}
		if err := copyDir(w.p, img.dir); err != nil {
			w.fail("image", err)
		}
		w.images = append(w.images, img)
		t++
	})
	err := body()
	verifhook.Set(nil)
	if err != nil {
		w.fail(o.K, err)
		return
	}
	o.EndList = listing(w.p)
	img := &imageJ{Op: idx, T: -1, dir: filepath.Join(w.imgRoot, fmt.Sprintf("op%d_end", idx)), k: 1000}
	if err := copyDir(w.p, img.dir); err != nil {
		w.fail("image", err)
	}
	w.images = append(w.images, img)
}

func (w *world) open(first bool) {
	o := &opJ{K: "open", first: first}
	w.runOp(o, func() error {
		st, err := kv.GetStoreManager().CreateStore(w.p, kv.DefaultStoreOption())
		if err != nil {
			return err
		}
		w.st = st
		return nil
	})
	if w.failed {
		return
	}
	fam, err := w.st.CreateFamily("f", famOpt)
	if err != nil {
		w.fail("create family", err)
		return
	}
	w.fam = fam
}

func (w *world) closeStore() {
	if w.fam != nil {
		kv.VerifWaitBackground(w.fam)
	}
	_ = kv.GetStoreManager().CloseStore(w.p)
	w.st, w.fam = nil, nil
}

func newTable(before, after []string) int {
	b := tablesIn(before)
	for n := range tablesIn(after) {
		if !b[n] {
			return n
		}
	}
	return 0
}

func (w *world) flush() {
	w.nextC++
	c := w.nextC
	o := &opJ{K: "flush", C: c}
	kvs := map[uint32][]byte{0: {byte(c)}, uint32(c + 1): {byte(c), 7}}
	w.contents[canon(kvs)] = c
	before := listing(w.p)
	w.runOp(o, func() error {
		fl := w.fam.NewFlusher()
		defer fl.Release()
		for _, k := range []uint32{0, uint32(c + 1)} {
			if err := fl.Add(k, kvs[k]); err != nil {
				return err
			}
		}
		return fl.Commit()
	})
	o.Table = newTable(before, o.EndList)
}

func (w *world) level0() int {
	snap := w.fam.GetSnapshot()
	defer snap.Close()
	return snap.GetCurrent().NumberOfFilesInLevel(0)
}

func (w *world) compact() bool {
	if w.level0() < 2 {
		return false
	}
	w.nextC++
	c := w.nextC
	o := &opJ{K: "compact", C: c}
	before := listing(w.p)
	w.runOp(o, func() error {
		w.fam.Compact()
		time.Sleep(2 * time.Millisecond)
		kv.VerifWaitBackground(w.fam)
		return nil
	})
	// the output table appeared during the run (the inputs are gone at the end): look through the yields
	for _, y := range o.Yields {
		if n := newTable(before, y.Files); n != 0 {
			o.Table = n
		}
	}
	if n := newTable(before, o.EndList); n != 0 {
		o.Table = n
	}
	if o.Table == 0 {
		w.fail("compact", fmt.Errorf("no output table"))
		return true
	}
	snap := w.fam.GetSnapshot()
	kvs, err := readTable(snap, table.FileNumber(o.Table))
	snap.Close()
	if err != nil {
		w.fail("read compaction output", err)
		return true
	}
	w.contents[canon(kvs)] = c
	return true
}

// evaluate reopens a copy of the image with the real store manager
func (w *world) evaluate(img *imageJ) {
	tmp := img.dir + ".open"
	defer os.RemoveAll(tmp)
	defer os.RemoveAll(img.dir)
	if err := copyDir(img.dir, tmp); err != nil {
		img.Err = err.Error()
		return
	}
	defer func() {
		if r := recover(); r != nil {
			img.Err = fmt.Sprintf("panic: %v", r)
			img.OK = false
		}
	}()
	st, err := kv.GetStoreManager().CreateStore(tmp, kv.DefaultStoreOption())
	if err != nil {
		img.Err = err.Error()
		return
	}
	defer func() { _ = kv.GetStoreManager().CloseStore(tmp) }()
	fam, err := st.CreateFamily("f", famOpt)
	if err != nil {
		img.Err = err.Error()
		return
	}
	img.Files = map[int]int{}
	snap := fam.GetSnapshot()
	for _, fm := range snap.GetCurrent().GetAllFiles() {
		kvs, err := readTable(snap, fm.GetFileNumber())
		if err != nil {
			snap.Close()
			img.Err = fmt.Sprintf("table %d: %v", fm.GetFileNumber(), err)
			return
		}
		id, ok := w.contents[canon(kvs)]
		if !ok {
			id = 9999
		}
		img.Files[int(fm.GetFileNumber())] = id
	}
	snap.Close()
	before := listing(tmp)
	fl := fam.NewFlusher()
	_ = fl.Add(0, []byte{0xEE})
	err = fl.Commit()
	fl.Release()
	if err != nil {
		img.Err = "flush after recovery: " + err.Error()
		return
	}
	img.Next = newTable(before, listing(tmp))
	img.OK = true
}

var kindCode = map[string]int{"createTable": 1, "closeTable": 2, "removeTable": 3, "createManifest": 4, "appendRecord": 5, "removeManifest": 6, "writeCurrentTmp": 7, "renameCurrent": 8}

// trace of one operation, projected like Check.proj (removals carry number 0 in both)
func (o *opJ) trace() string {
	var xs []string
	for i, y := range o.Yields {
		n := 0
		next := o.EndList
		if i+1 < len(o.Yields) {
			next = o.Yields[i+1].Files
		}
		switch y.Kind {
		case "createTable", "closeTable":
			n = o.Table
		case "createManifest":
			b := manifestsIn(y.Files)
			for m := range manifestsIn(next) {
				if !b[m] {
					n = m
				}
			}
		case "appendRecord", "writeCurrentTmp":
			for m := range manifestsIn(y.Files) {
				if m > n {
					n = m
				}
			}
		}
		xs = append(xs, vh.Pair(fmt.Sprintf("%d", kindCode[y.Kind]), fmt.Sprintf("%d", n)))
	}
	return vh.List(xs)
}

func runHistory(out *vh.Out, root string, id int, script []string) {
	w := &world{p: filepath.Join(root, fmt.Sprintf("h%d", id), "store"), imgRoot: filepath.Join(root, fmt.Sprintf("h%d", id), "img"), contents: map[string]int{}, out: out}
	_ = os.MkdirAll(w.imgRoot, 0o755)
	defer os.RemoveAll(filepath.Join(root, fmt.Sprintf("h%d", id)))
	w.open(true)
	for _, s := range script {
		if w.failed {
			break
		}
		switch s {
		case "f":
			w.flush()
		case "c":
			w.compact()
		case "o":
			w.closeStore()
			w.open(false)
		}
	}
	w.closeStore()
	for _, img := range w.images {
		w.evaluate(img)
	}
	var ops, traces, ds, ims []string
	kinds := map[string]int{}
	for _, o := range w.ops {
		kinds[o.K]++
		out.Count("op:" + o.K)
		switch o.K {
		case "open":
			ops = append(ops, "HOpen")
		case "flush":
			ops = append(ops, fmt.Sprintf("HFlush %d", o.C))
		default:
			ops = append(ops, fmt.Sprintf("HCompact %d", o.C))
		}
		traces = append(traces, o.trace())
		ds = append(ds, fmt.Sprintf("{| d_op := %s; d_table := %d |}", ops[len(ops)-1], o.Table))
	}
	for _, img := range w.images {
		var fs []string
		var ns []int
		for n := range img.Files {
			ns = append(ns, n)
		}
		sort.Ints(ns)
		for _, n := range ns {
			fs = append(fs, vh.Pair(fmt.Sprintf("%d", n), fmt.Sprintf("%d", img.Files[n])))
		}
		ims = append(ims, fmt.Sprintf("{| i_op := %d; i_k := %d; i_obs := {| r_ok := %s; r_files := %s; r_next := %d |} |}", img.Op, img.k, vh.Bool(img.OK), vh.List(fs), img.Next))
	}
	out.CountN("images", len(w.images))
	idx := out.Case(map[string]interface{}{"kind": "history", "script": strings.Join(script, " "), "ops": w.ops, "images": w.images},
		kinds["flush"] >= 3 && kinds["compact"] >= 1 && kinds["open"] >= 2)
	out.Check(idx, fmt.Sprintf("check_hist %s\n %s\n %s\n %s", vh.List(ops), vh.List(traces), vh.List(ds), vh.List(ims)))
}

func main() {
	cfg := vh.ParseFlags()
	r := vh.NewRand(cfg.Seed)
	kv.RegisterMerger("verif-c01", func(fl kv.Flusher) (kv.Merger, error) { return &merger{fl}, nil })
	out := vh.NewOut(cfg.Out, "From Coq Require Import List Arith Bool.\nImport ListNotations.\nFrom LinDBV.C01 Require Import Model Check.\nFrom LinDBV.C01 Require Families.\nOpen Scope nat_scope.\n")
	out.ShardSize = 4
	root, err := os.MkdirTemp("", "verif-c01-")
	if err != nil {
		panic(err)
	}
	defer os.RemoveAll(root)
	runHistory(out, root, 0, strings.Fields("f f f c o f f c f o o f"))
	for i := 0; i < cfg.N; i++ {
		n := r.Range(4, 14)
		var sc []string
		for j := 0; j < n; j++ {
			x := r.Intn(100)
			switch {
			case x < 60:
				sc = append(sc, "f")
			case x < 80:
				sc = append(sc, "c")
			default:
				sc = append(sc, "o")
			}
		}
		runHistory(out, root, i+1, sc)
	}
	famID := cfg.N + 1
	familiesCases(out, root, r, cfg.N/2+2, &famID)
	out.Notes = append(out.Notes, "an image is a copy of the store directory taken at the scheduling point before a file-system operation (table create/close, manifest create/append, CURRENT.tmp write, rename, manifest/table removal) or after an operation; buffered table bytes that have not reached the file are not in the image, as after process death")
	out.Finish()
}
