package main

import (
	"fmt"
	"os"
	"path/filepath"
	"sort"
	"strings"
	"time"

	"github.com/lindb/lindb/kv"

	"lindbverif/vh"
)

// a reader that starts after a commit sees it, key by key: rounds of flushes into a key window followed by a compaction
// (a later output can enclose the key range of a level-1 file it did not take as input); every flushed value is two
// bytes and the merger concatenates: what a FRESH snapshot loads for a key, cut into pairs, must be exactly the values
// flushed for the key so far - checked after every commit and every compaction, also with snapshots taken earlier
// (they must keep showing what they showed).
func runLookups(out *vh.Out, root string, id int, r *vh.Rand) {
	dir := filepath.Join(root, fmt.Sprintf("lk%d", id))
	defer os.RemoveAll(dir)
	st, err := kv.GetStoreManager().CreateStore(dir, kv.DefaultStoreOption())
	if err != nil {
		out.Violation(0, "open", err.Error(), nil)
		return
	}
	defer func() { _ = kv.GetStoreManager().CloseStore(dir) }()
	fam, err := st.CreateFamily("f", kv.FamilyOption{Merger: "verif-c02", CompactThreshold: 2})
	if err != nil {
		out.Violation(0, "family", err.Error(), nil)
		return
	}
	flushed := map[uint32][]string{}
	load := func(snap interface {
		Load(uint32, func([]byte) error) error
	}, k uint32) ([]string, error) {
		var got []string
		err := snap.Load(k, func(v []byte) error {
			for p := 0; p+1 < len(v); p += 2 {
				got = append(got, string(v[p:p+2]))
			}
			return nil
		})
		sort.Strings(got)
		return got, err
	}
	bad := ""
	checkFresh := func(when string) {
		for rep := 0; rep < 6 && bad == ""; rep++ { // the files of a level are visited in map order
			snap := fam.GetSnapshot()
			for k, want0 := range flushed {
				want := append([]string(nil), want0...)
				sort.Strings(want)
				got, err := load(snap, k)
				if err != nil {
					bad = fmt.Sprintf("%s: Load(%d): %v", when, k, err)
					break
				}
				if strings.Join(got, ",") != strings.Join(want, ",") {
					bad = fmt.Sprintf("%s: a reader that started afterwards loads %d of the %d values committed for key %d", when, len(got), len(want), k)
					break
				}
			}
			snap.Close()
		}
	}
	windows := [][2]int{{100, 200}, {1, 1001}, {150, 160}, {5000, 5001}, {120, 130}, {0, 5002}}
	perm := r.Perm(len(windows))
	nr := r.Range(2, 4)
	if id == 0 {
		perm, nr = []int{0, 1, 2, 3, 4, 5}, 2
	}
	serial := 0
	var rounds [][][]uint32
	type held struct {
		snap interface {
			Load(uint32, func([]byte) error) error
			Close()
		}
		want map[uint32][]string
	}
	var olds []held
	for rd := 0; rd < nr && bad == ""; rd++ {
		w := windows[perm[rd]]
		var files [][]uint32
		for f := 0; f < 2 && bad == ""; f++ {
			keys := map[uint32]bool{}
			if f == 0 {
				keys[uint32(w[0])] = true
			} else {
				keys[uint32(w[1])] = true
			}
			if id > 0 || rd > 0 {
				for x := r.Intn(3); x > 0; x-- {
					keys[uint32(r.Range(w[0], w[1]))] = true
				}
			} else if f == 0 {
				keys[150] = true
			}
			var ks []uint32
			for k := range keys {
				ks = append(ks, k)
			}
			sort.Slice(ks, func(a, b int) bool { return ks[a] < ks[b] })
			fl := fam.NewFlusher()
			for _, k := range ks {
				serial++
				v := []byte{byte(serial >> 8), byte(serial)}
				flushed[k] = append(flushed[k], string(v))
				_ = fl.Add(k, v)
			}
			if err := fl.Commit(); err != nil {
				bad = "commit: " + err.Error()
			}
			fl.Release()
			files = append(files, ks)
			checkFresh(fmt.Sprintf("after the commit of flush %d of round %d", f, rd))
			if r.Chance(40) && len(olds) < 3 {
				snap := fam.GetSnapshot()
				want := map[uint32][]string{}
				for k, v := range flushed {
					want[k] = append([]string(nil), v...)
				}
				olds = append(olds, held{snap, want})
			}
		}
		fam.Compact()
		time.Sleep(2 * time.Millisecond)
		kv.VerifWaitBackground(fam)
		rounds = append(rounds, files)
		checkFresh(fmt.Sprintf("after the compaction of round %d", rd))
		// snapshots taken earlier keep showing exactly what was committed when they were taken
		for _, h := range olds {
			for k, want0 := range h.want {
				want := append([]string(nil), want0...)
				sort.Strings(want)
				got, err := load(h.snap, k)
				if bad == "" && (err != nil || strings.Join(got, ",") != strings.Join(want, ",")) {
					bad = fmt.Sprintf("a snapshot taken earlier changed what it shows for key %d after the compaction of round %d (err %v)", k, rd, err)
				}
			}
		}
	}
	for _, h := range olds {
		h.snap.Close()
	}
	tmp := fam.GetSnapshot()
	l1 := tmp.GetCurrent().NumberOfFilesInLevel(1)
	tmp.Close()
	idx := out.Case(map[string]interface{}{"kind": "lookups", "rounds": rounds, "level1_files": l1, "held_snapshots": len(olds)}, l1 >= 2)
	out.Count("lookups")
	if bad != "" {
		out.Violation(idx, "later-reader-misses-a-commit", bad, nil)
	}
	out.Check(idx, "(0%nat, 0%nat)")
}
