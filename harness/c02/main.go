// C02 harness: one real kv family driven event by event - snapshot open/close, flush split into builder allocation /
// commit / pending-output removal, obsolete-file deletion split at its scheduling points (after the directory listing,
// after reading the pending outputs, after reading the active versions, before each removal), compaction runs; the
// goroutines of flush and deletion are parked at the scheduling points, so every schedule is chosen by the harness.
package main

import (
	"fmt"
	"os"
	"path/filepath"
	"sort"
	"strings"
	"time"

	"github.com/lindb/common/pkg/ltoml"

	"github.com/lindb/lindb/kv"
	"github.com/lindb/lindb/kv/table"
	"github.com/lindb/lindb/kv/version"
	"github.com/lindb/lindb/pkg/verifhook"

	"lindbverif/vh"
)

type merger struct{ fl kv.Flusher }

func (m *merger) Init(map[string]interface{}) {}
func (m *merger) Merge(key uint32, values [][]byte) error {
	var b []byte
	for _, v := range values {
		b = append(b, v...)
	}
	return m.fl.Add(key, b)
}

// ---- parked goroutines ----
type actor struct {
	resume chan struct{}
	parked chan string
	done   chan struct{}
	wants  map[string]bool
	at     string
}

var current *actor

func newActor(points ...string) *actor {
	a := &actor{resume: make(chan struct{}), parked: make(chan string), done: make(chan struct{}), wants: map[string]bool{}}
	for _, p := range points {
		a.wants[p] = true
	}
	return a
}
func (a *actor) wait() string {
	select {
	case p := <-a.parked:
		a.at = p
	case <-a.done:
		a.at = "done"
	}
	current = nil
	return a.at
}
func (a *actor) start(f func()) string {
	current = a
	go func() {
		f()
		close(a.done)
	}()
	return a.wait()
}
func (a *actor) step() string {
	if a.at == "done" {
		return a.at
	}
	current = a
	a.resume <- struct{}{}
	return a.wait()
}
func hook(point string) {
	a := current
	if a == nil || !a.wants[point] {
		return
	}
	a.parked <- point
	<-a.resume
}

type snapHeld struct {
	v       int
	snap    version.Snapshot
	content map[int]string // real file number -> content at acquisition
}

type world struct {
	dir      string
	st       kv.Store
	fam      kv.Family
	ids      map[int]int // real table number -> model file id (allocation order)
	nalloc   int
	commits  int
	snaps    []*snapHeld // newest first
	fl       kv.Flusher
	flFile   int // real number of the open flusher's table
	flActor  *actor
	flState  int // 0 none, 1 allocated, 2 committed (pending output not yet removed)
	dels     []*actor
	evs      []string
	obs      []string
	evJ      []string
	out      *vh.Out
	failed   bool
	nextVal  int
	deleted  int
	interlvd bool
	offModel bool // the code left the order of steps the model knows: events are no longer emitted, the run goes on
}

func (w *world) fail(what string, err error) {
	w.failed = true
	w.out.Violation(0, "harness", fmt.Sprintf("%s: %v", what, err), nil)
}

func (w *world) tables() []int {
	var out []int
	es, _ := os.ReadDir(filepath.Join(w.dir, "f"))
	for _, e := range es {
		var n int
		if strings.HasSuffix(e.Name(), ".sst") {
			fmt.Sscanf(e.Name(), "%d.sst", &n)
			out = append(out, n)
		}
	}
	sort.Ints(out)
	return out
}

func (w *world) mid(real int) int {
	if id, ok := w.ids[real]; ok {
		return id
	}
	return 9000 + real
}

func (w *world) mids(reals []int) string {
	var xs []int
	for _, r := range reals {
		xs = append(xs, w.mid(r))
	}
	return vh.NatList(xs)
}

func readContent(snap version.Snapshot, n table.FileNumber) (string, error) {
	r, err := snap.GetReader(n)
	if err != nil {
		return "", err
	}
	var sb strings.Builder
	it := r.Iterator()
	for it.HasNext() {
		fmt.Fprintf(&sb, "%d=%x;", it.Key(), it.Value())
	}
	return sb.String(), nil
}

func filesOf(snap version.Snapshot) []int {
	var out []int
	for _, fm := range snap.GetCurrent().GetAllFiles() {
		out = append(out, int(fm.GetFileNumber()))
	}
	sort.Ints(out)
	return out
}

func (w *world) observe() string {
	tmp := w.fam.GetSnapshot()
	cur := filesOf(tmp)
	tmp.Close()
	var active []int
	for _, n := range kv.VerifActiveFiles(w.fam) {
		active = append(active, int(n))
	}
	healthy := true
	var ss []string
	for _, h := range w.snaps {
		fs := filesOf(h.snap)
		ss = append(ss, w.mids(fs))
		for _, n := range fs {
			c, err := readContent(h.snap, table.FileNumber(n))
			if err != nil || c != h.content[n] {
				healthy = false
			}
		}
	}
	return fmt.Sprintf("Some {| o_disk := %s; o_cur := %s; o_active := %s; o_snaps := %s; o_healthy := %s |}",
		w.mids(w.tables()), w.mids(cur), w.mids(active), vh.List(ss), vh.Bool(healthy))
}

func (w *world) emit(ev string, observed bool) {
	if w.offModel {
		return
	}
	w.evs = append(w.evs, ev)
	w.evJ = append(w.evJ, ev)
	if observed {
		w.obs = append(w.obs, w.observe())
	} else {
		w.obs = append(w.obs, "None")
	}
}

func (w *world) snap() {
	s := w.fam.GetSnapshot()
	h := &snapHeld{v: w.commits, snap: s, content: map[int]string{}}
	for _, n := range filesOf(s) {
		c, err := readContent(s, table.FileNumber(n))
		if err != nil {
			w.fail("read at snapshot", err)
		}
		h.content[n] = c
	}
	w.snaps = append([]*snapHeld{h}, w.snaps...)
	w.emit("Snap", true)
}

func (w *world) closeSnap(i int) {
	h := w.snaps[i]
	// the model closes the first held snapshot of that version; snapshots of one version are interchangeable
	for j, x := range w.snaps {
		if x.v == h.v {
			i = j
			break
		}
	}
	w.snaps[i].snap.Close()
	w.snaps = append(w.snaps[:i:i], w.snaps[i+1:]...)
	w.emit(fmt.Sprintf("Close %d", h.v), true)
}

func (w *world) alloc() {
	before := map[int]bool{}
	for _, n := range w.tables() {
		before[n] = true
	}
	w.fl = w.fam.NewFlusher()
	w.nextVal++
	if err := w.fl.Add(0, []byte{byte(w.nextVal)}); err != nil {
		w.fail("add", err)
		return
	}
	_ = w.fl.Add(uint32(w.nextVal+1), []byte{byte(w.nextVal), 1})
	for _, n := range w.tables() {
		if !before[n] {
			w.flFile = n
		}
	}
	w.ids[w.flFile] = w.nalloc
	w.nalloc++
	w.flState = 1
	w.emit("Alloc", true)
}

func (w *world) commit() {
	w.flActor = newActor("kv.flush.afterCommit")
	fl := w.fl
	at := w.flActor.start(func() {
		if err := fl.Commit(); err != nil {
			w.fail("commit", err)
		}
		fl.Release()
	})
	if at != "kv.flush.afterCommit" {
		w.fail("commit", fmt.Errorf("did not reach the scheduling point after the commit (%s)", at))
		return
	}
	w.commits++
	w.flState = 2
	w.emit(fmt.Sprintf("Commit %d []", w.mid(w.flFile)), true)
}

func (w *world) unpend() {
	w.flActor.step()
	w.flState = 0
	w.emit(fmt.Sprintf("Unpend %d", w.mid(w.flFile)), true)
}

func (w *world) dlist() {
	a := newActor("kv.delobs.afterList", "kv.delobs.afterPending", "kv.delobs.afterActive", "kv.fs.removeTable")
	w.dels = append(w.dels, a)
	a.start(func() { kv.VerifDeleteObsolete(w.fam) })
	w.emit("DList", true)
}

// advance the deleter i by one model step
func (w *world) dstep(i int) bool {
	a := w.dels[i]
	switch a.at {
	case "kv.delobs.afterList":
		a.step()
		w.emit(fmt.Sprintf("DPend %d", i), true)
	case "kv.delobs.afterPending":
		a.step()
		w.emit(fmt.Sprintf("DActive %d", i), true)
		if a.at == "kv.delobs.afterActive" {
			a.step() // up to the point before the first removal (or the end): no effect yet
		}
	case "kv.fs.removeTable":
		before := w.tables()
		a.step()
		after := map[int]bool{}
		for _, n := range w.tables() {
			after[n] = true
		}
		for _, n := range before {
			if !after[n] {
				w.deleted++
				w.emit(fmt.Sprintf("DDelete %d %d", i, w.mid(n)), true)
			}
		}
	default:
		// the deleter stopped at a scheduling point in an order the model does not know (the code's steps were reordered)
		if !w.offModel {
			w.offModel = true
			w.out.Violation(0, "model-cannot-follow", fmt.Sprintf("obsolete-file deletion parked at %q out of the order list, pending, active, remove", a.at), nil)
		}
		a.step() // go on without the model: the files of every version are looked for at the end

	}
	return true
}

// a whole compaction run of the real code, nothing interleaved inside it
func (w *world) compact(raceDeletion bool) bool {
	tmp := w.fam.GetSnapshot()
	l0 := tmp.GetCurrent().NumberOfFilesInLevel(0)
	inputs := filesOf(tmp)
	tmp.Close()
	if l0 < 2 {
		return false
	}
	before := w.tables()
	seen := map[int]bool{}
	for _, n := range before {
		seen[n] = true
	}
	outFile := 0
	// the output table is seen at the scheduling points of the run itself
	watcher := func(string) {
		for _, n := range w.tables() {
			if !seen[n] {
				outFile = n
			}
		}
	}
	// a concurrent obsolete-file deletion placed between the finished output table and the commit of the run
	inlineDel := raceDeletion
	var inlineGone []int
	inlineDone := false
	verifhook.Set(func(p string) {
		watcher(p)
		if inlineDel && !inlineDone && p == "kv.fs.appendRecord" {
			inlineDone = true
			b := w.tables()
			kv.VerifDeleteObsolete(w.fam)
			a := map[int]bool{}
			for _, n := range w.tables() {
				a[n] = true
			}
			for _, n := range b {
				if !a[n] {
					inlineGone = append(inlineGone, n)
				}
			}
		}
	})
	w.fam.Compact()
	time.Sleep(2 * time.Millisecond)
	kv.VerifWaitBackground(w.fam)
	verifhook.Set(hook)
	watcher("")
	if outFile == 0 {
		w.fail("compact", fmt.Errorf("no output table seen"))
		return true
	}
	w.ids[outFile] = w.nalloc
	w.nalloc++
	v := w.commits
	w.commits++
	di := len(w.dels)
	w.dels = append(w.dels, &actor{at: "done"})
	w.emit("Snap", false)
	w.emit("Alloc", false)
	if inlineDone {
		w.interlvd = true
		ii := di
		di++
		w.dels = append(w.dels, &actor{at: "done"})
		w.emit("DList", false)
		w.emit(fmt.Sprintf("DPend %d", ii), false)
		w.emit(fmt.Sprintf("DActive %d", ii), false)
		for _, n := range inlineGone {
			w.deleted++
			w.emit(fmt.Sprintf("DDelete %d %d", ii, w.mid(n)), false)
		}
	}
	w.emit(fmt.Sprintf("Commit %d %s", w.mid(outFile), w.mids(inputs)), false)
	w.emit(fmt.Sprintf("Unpend %d", w.mid(outFile)), false)
	w.emit(fmt.Sprintf("Close %d", v), false)
	w.emit("DList", false)
	w.emit(fmt.Sprintf("DPend %d", di), false)
	after := map[int]bool{}
	for _, n := range w.tables() {
		after[n] = true
	}
	inl := map[int]bool{}
	for _, n := range inlineGone {
		inl[n] = true
	}
	var gone []int
	for _, n := range before {
		if !after[n] && !inl[n] {
			gone = append(gone, n)
		}
	}
	if len(gone) == 0 {
		w.emit(fmt.Sprintf("DActive %d", di), true)
	} else {
		w.emit(fmt.Sprintf("DActive %d", di), false)
		for k, n := range gone {
			w.deleted++
			w.emit(fmt.Sprintf("DDelete %d %d", di, w.mid(n)), k == len(gone)-1)
		}
	}
	return true
}

func runHistory(out *vh.Out, root string, id int, name string, script []string, r *vh.Rand) {
	w := &world{dir: filepath.Join(root, fmt.Sprintf("h%d", id)), ids: map[int]int{}, out: out}
	defer os.RemoveAll(w.dir)
	st, err := kv.GetStoreManager().CreateStore(w.dir, kv.DefaultStoreOption())
	if err != nil {
		out.Violation(0, "open", err.Error(), nil)
		return
	}
	w.st = st
	fam, err := st.CreateFamily("f", kv.FamilyOption{Merger: "verif-c02", CompactThreshold: 2})
	if err != nil {
		out.Violation(0, "family", err.Error(), nil)
		return
	}
	w.fam = fam
	verifhook.Set(hook)
	next := func() string {
		if len(script) > 0 {
			s := script[0]
			script = script[1:]
			return s
		}
		return ""
	}
	steps := 0
	for !w.failed {
		s := ""
		if script != nil {
			s = next()
			if s == "" {
				break
			}
		} else {
			steps++
			if steps > 60 {
				break
			}
			x := r.Intn(100)
			switch {
			case x < 14:
				s = "snap"
			case x < 26:
				s = "close"
			case x < 52:
				s = "flush"
			case x < 60:
				s = "compact"
			case x < 72:
				s = "dlist"
			default:
				s = "dstep"
			}
		}
		switch s {
		case "snap":
			if len(w.snaps) < 4 {
				w.snap()
			}
		case "close":
			if len(w.snaps) > 0 {
				w.closeSnap(r.Intn(len(w.snaps)))
			}
		case "flush": // next stage of the flush in progress, or a new one
			switch w.flState {
			case 0:
				w.alloc()
			case 1:
				w.commit()
			default:
				w.unpend()
			}
		case "compact":
			if w.flState == 0 {
				w.compact(r.Bool())
			}
		case "dlist":
			live := 0
			for _, d := range w.dels {
				if d.at != "done" {
					live++
				}
			}
			if live < 2 {
				w.dlist()
				if w.flState != 0 {
					w.interlvd = true
				}
			}
		case "dstep":
			var live []int
			for i, d := range w.dels {
				if d.at != "done" {
					live = append(live, i)
				}
			}
			if len(live) > 0 {
				w.dstep(live[r.Intn(len(live))])
				if w.flState != 0 {
					w.interlvd = true
				}
			}
		}
	}
	// drain; after a failure the parked goroutines are still run to their end (they hold the family's wait group)
	if w.failed {
		if w.flActor != nil && w.flState == 2 {
			w.flActor.step()
		} else if w.flState == 1 {
			w.fl.Release()
		}
		for _, d := range w.dels {
			for d.at != "done" {
				d.step()
			}
		}
		for _, h := range w.snaps {
			h.snap.Close()
		}
		w.snaps = nil
	}
	for w.flState != 0 && !w.failed {
		if w.flState == 1 {
			w.commit()
		} else {
			w.unpend()
		}
	}
	for i, d := range w.dels {
		for d.at != "done" && !w.failed {
			w.dstep(i)
		}
	}
	for len(w.snaps) > 0 && !w.failed {
		w.closeSnap(0)
	}
	if w.failed { // a failure during the drain: run what is still parked to its end
		if w.flActor != nil && w.flState == 2 {
			w.flActor.step()
			w.flState = 0
		}
		for _, d := range w.dels {
			for d.at != "done" {
				d.step()
			}
		}
		for _, h := range w.snaps {
			h.snap.Close()
		}
		w.snaps = nil
	}
	verifhook.Set(nil)
	kv.VerifWaitBackground(w.fam)
	if w.offModel {
		// without the model: the property itself on the implementation - every file of the current version is on disk
		tmp := w.fam.GetSnapshot()
		have := map[int]bool{}
		for _, n := range w.tables() {
			have[n] = true
		}
		for _, n := range filesOf(tmp) {
			if !have[n] {
				out.Violation(0, "file-of-the-current-version-deleted", fmt.Sprintf("table %06d.sst is in the current version but not on disk", n), nil)
			}
		}
		tmp.Close()
	}
	_ = kv.GetStoreManager().CloseStore(w.dir)
	out.CountN("model-events", len(w.evs))
	out.CountN("files-deleted", w.deleted)
	for _, e := range w.evJ {
		out.Count("ev:" + strings.Fields(e)[0])
	}
	idx := out.Case(map[string]interface{}{"kind": "history", "name": name, "events": w.evJ}, w.deleted >= 1 && w.interlvd && w.commits >= 3)
	out.Check(idx, fmt.Sprintf("check_hist %s\n %s", vh.List(w.evs), vh.List(w.obs)))
}

// ---- the table reader cache: snapshots request readers, close, the cache is cleaned up ----

func runCacheHistory(out *vh.Out, root string, id int, name string, script []string) {
	dir := filepath.Join(root, fmt.Sprintf("k%d", id))
	defer os.RemoveAll(dir)
	opt := kv.DefaultStoreOption()
	opt.TTL = ltoml.Duration(time.Millisecond) // every entry is expired when the cleanup runs (the harness sleeps before it)
	st, err := kv.GetStoreManager().CreateStore(dir, opt)
	if err != nil {
		out.Violation(0, "open", err.Error(), nil)
		return
	}
	defer func() { _ = kv.GetStoreManager().CloseStore(dir) }()
	fam, err := st.CreateFamily("f", kv.FamilyOption{Merger: "verif-c02", CompactThreshold: 100})
	if err != nil {
		out.Violation(0, "family", err.Error(), nil)
		return
	}
	// three tables
	for i := 0; i < 3; i++ {
		fl := fam.NewFlusher()
		_ = fl.Add(uint32(10+i), []byte{byte(i), 1, 2})
		if err := fl.Commit(); err != nil {
			out.Violation(0, "flush", err.Error(), nil)
			return
		}
		fl.Release()
	}
	tmp := fam.GetSnapshot()
	var files []table.FileNumber
	for _, fm := range tmp.GetCurrent().GetAllFiles() {
		files = append(files, fm.GetFileNumber())
	}
	tmp.Close()
	cache := kv.VerifStoreCache(st)
	fileIdx := func(name string) int {
		for i, f := range files {
			if version.Table(f) == name {
				return i
			}
		}
		return 99
	}
	observe := func() string {
		var es []string
		ents := table.VerifCacheEntries(cache)
		var names []string
		for k := range ents {
			names = append(names, k)
		}
		sort.Strings(names)
		for _, k := range names {
			es = append(es, fmt.Sprintf("(%d, %s)", fileIdx(k), vh.Z(int64(ents[k]))))
		}
		return vh.List(es)
	}
	snaps := map[int]version.Snapshot{}
	var evs, obs []string
	var evJ []string
	for _, op := range script {
		var a, b int
		switch {
		case strings.HasPrefix(op, "g"): // g<snapshot><file>: the snapshot asks for the reader of a file
			_, _ = fmt.Sscanf(op, "g%1d%1d", &a, &b)
			sn := snaps[a]
			if sn == nil {
				sn = fam.GetSnapshot()
				snaps[a] = sn
			}
			if _, err := sn.GetReader(files[b]); err != nil {
				out.Violation(0, "GetReader", err.Error(), nil)
				return
			}
			evs = append(evs, fmt.Sprintf("Cache.CGet %d %d", a, b))
		case strings.HasPrefix(op, "r"): // r<snapshot>: close the snapshot
			_, _ = fmt.Sscanf(op, "r%1d", &a)
			if sn := snaps[a]; sn != nil {
				sn.Close()
				delete(snaps, a)
			}
			evs = append(evs, fmt.Sprintf("Cache.CRelease %d", a))
		case op == "c":
			time.Sleep(3 * time.Millisecond)
			cache.Cleanup()
			evs = append(evs, "Cache.CCleanup")
		default:
			continue
		}
		evJ = append(evJ, op)
		obs = append(obs, observe())
	}
	for _, sn := range snaps {
		sn.Close()
	}
	idx := out.Case(map[string]interface{}{"kind": "reader-cache", "name": name, "script": strings.Join(evJ, " ")}, len(evJ) >= 6)
	out.Count("reader-cache-histories")
	out.CountN("reader-cache-events", len(evJ))
	out.Check(idx, fmt.Sprintf("check_cache %s\n %s", vh.List(evs), vh.List(obs)))
}

func randomCacheScript(r *vh.Rand) []string {
	var sc []string
	open := map[int]bool{}
	for i := r.Range(6, 16); i > 0; i-- {
		switch x := r.Intn(100); {
		case x < 50:
			a := r.Intn(3)
			open[a] = true
			sc = append(sc, fmt.Sprintf("g%d%d", a, r.Intn(3)))
		case x < 75:
			a := r.Intn(3)
			if open[a] {
				delete(open, a)
				sc = append(sc, fmt.Sprintf("r%d", a))
			}
		default:
			sc = append(sc, "c")
		}
	}
	return sc
}

func main() {
	cfg := vh.ParseFlags()
	r := vh.NewRand(cfg.Seed)
	kv.RegisterMerger("verif-c02", func(fl kv.Flusher) (kv.Merger, error) { return &merger{fl}, nil })
	out := vh.NewOut(cfg.Out, "From Coq Require Import List Arith ZArith Bool.\nImport ListNotations.\nFrom LinDBV.C02 Require Import Model Check.\nFrom LinDBV.C02 Require Cache.\nOpen Scope nat_scope.\n")
	out.ShardSize = 12
	root, err := os.MkdirTemp("", "verif-c02-")
	if err != nil {
		panic(err)
	}
	defer os.RemoveAll(root)
	// a deletion that listed the directory before a flush allocated its table, and reads pending/active at every later point
	runHistory(out, root, 0, "deletion racing a flush at every point",
		strings.Fields("flush flush flush flush flush flush snap compact flush flush flush flush flush flush compact dlist flush dstep flush dstep flush dstep dstep dstep dlist flush flush dstep dstep flush dstep dstep dstep close"), r)
	for i := 0; i < cfg.N; i++ {
		runHistory(out, root, i+1, "random", nil, r)
	}
	// the table reader cache
	runCacheHistory(out, root, 0, "two snapshots share a reader, the first closes, cleanup, the second still reads", strings.Fields("g10 g20 r1 c g21 c r2 c"))
	for i := 0; i < cfg.N/2; i++ {
		runCacheHistory(out, root, i+1, "random", randomCacheScript(r))
	}
	for i := 0; i < cfg.N/6+2; i++ {
		runLookups(out, root, i, r)
	}
	// the rollup layer
	runRollupHistory(out, root, 0, "a rollup whose work fails for both targets, a compaction, a retry", strings.Fields("F F R00 C S R11 C S"), r)
	runRollupHistory(out, root, 1, "one target fails, then the other", strings.Fields("F F R10 C F R01 C R11 F C"), r)
	for i := 0; i < cfg.N/3+3; i++ {
		runRollupHistory(out, root, i+2, "random", nil, r)
	}
	out.Notes = append(out.Notes, "every schedule is forced: flush commit and obsolete-file deletion run in goroutines parked at the scheduling points; a compaction run is taken as a whole (its model events are emitted as a block, observed at its end)")
	out.Finish()
}
