package main

import (
	"errors"
	"fmt"
	"os"
	"path/filepath"
	"sort"
	"strings"
	"sync"
	"sync/atomic"
	"time"

	"github.com/lindb/common/pkg/ltoml"

	"github.com/lindb/lindb/kv"
	"github.com/lindb/lindb/pkg/timeutil"
	"github.com/lindb/lindb/pkg/verifhook"

	"lindbverif/vh"
)

// The rollup layer: a source family of a 10 s store that rolls up into a 5 min store and a 1 h store.  Histories of
// flushes, Compact(), rollup runs (ForceRollup) whose work in each target succeeds or fails (the target's merger returns an
// error when told to), and obsolete-file sweeps; after every event the table files of the source family's directory are
// listed.  A file whose rollup to some target has not succeeded must stay.

// per target (by interval ratio: 30 = 5 min, 360 = 1 h): the rollup merge fails
var rollupFails sync.Map

// ... and whether a merge of that target was asked for and did fail since the flag was last cleared: a run whose target
// work has nothing to merge (the marked files are no longer in level 0 of the source: a compaction came first) calls no
// merger and succeeds - C04's open finding source-compaction-before-rollup; for the files of the source family that run
// is a success like any other
var rollupFailed sync.Map

type rollupMerger struct {
	fl    kv.Flusher
	ratio uint16
}

func (m *rollupMerger) Init(params map[string]interface{}) {
	if r, ok := params[kv.RollupContext].(kv.Rollup); ok && r != nil {
		m.ratio = r.IntervalRatio()
	}
}
func (m *rollupMerger) Merge(key uint32, values [][]byte) error {
	if m.ratio != 0 {
		if v, ok := rollupFails.Load(m.ratio); ok && v.(bool) {
			rollupFailed.Store(m.ratio, true)
			return errors.New("injected: the rollup merge fails")
		}
	}
	var b []byte
	for _, v := range values {
		b = append(b, v...)
	}
	return m.fl.Add(key, b)
}

var rollupMergerOnce sync.Once

func tableFiles(dir string) []int {
	es, _ := os.ReadDir(dir)
	var ns []int
	for _, e := range es {
		if strings.HasSuffix(e.Name(), ".sst") {
			var n int
			fmt.Sscanf(e.Name(), "%d.sst", &n)
			ns = append(ns, n)
		}
	}
	sort.Ints(ns)
	return ns
}

func runRollupHistory(out *vh.Out, root string, id int, name string, script []string, r *vh.Rand) {
	rollupMergerOnce.Do(func() {
		kv.RegisterMerger("verif-c02-rollup", func(fl kv.Flusher) (kv.Merger, error) { return &rollupMerger{fl: fl}, nil })
	})
	base := filepath.Join(root, fmt.Sprintf("ru%d", id))
	defer os.RemoveAll(base)
	src, t5m, t1h := timeutil.Interval(10*1000), timeutil.Interval(5*60*1000), timeutil.Interval(3600*1000)
	srcName := filepath.Join(base, "day", "20240101")
	opt := kv.StoreOption{Levels: 2, TTL: ltoml.Duration(time.Hour), Source: src, Rollup: []timeutil.Interval{t5m, t1h}}
	source, err := kv.GetStoreManager().CreateStore(srcName, opt)
	if err != nil {
		out.Violation(0, "open", err.Error(), nil)
		return
	}
	defer func() { _ = kv.GetStoreManager().CloseStore(srcName) }()
	segTime, _ := src.Calculator().ParseSegmentTime("20240101")
	famStart := src.Calculator().CalcFamilyStartTime(segTime, 10)
	for _, ti := range []timeutil.Interval{t5m, t1h} {
		tn := filepath.Join(base, ti.Type().String(), ti.Calculator().GetSegment(famStart))
		if _, err := kv.GetStoreManager().CreateStore(tn, kv.StoreOption{Levels: 2, TTL: ltoml.Duration(time.Hour)}); err != nil {
			out.Violation(0, "open-target", err.Error(), nil)
			return
		}
		defer func(n string) { _ = kv.GetStoreManager().CloseStore(n) }(tn)
	}
	fam, err := source.CreateFamily("10", kv.FamilyOption{Merger: "verif-c02-rollup", CompactThreshold: 2})
	if err != nil {
		out.Violation(0, "family", err.Error(), nil)
		return
	}
	dir := filepath.Join(srcName, "10")
	if script == nil {
		n := r.Range(5, 16)
		for i := 0; i < n; i++ {
			x := r.Intn(100)
			switch {
			case x < 40:
				script = append(script, "F")
			case x < 58:
				script = append(script, "C")
			case x < 90:
				script = append(script, []string{"R11", "R00", "R10", "R01", "R00", "R11"}[r.Intn(6)])
			default:
				script = append(script, "S")
			}
		}
	}
	var sweeps atomic.Int64
	verifhook.Set(func(pt string) {
		if pt == "kv.delobs.afterList" {
			sweeps.Add(1)
		}
	})
	defer verifhook.Set(nil)
	index := map[int]int{} // table file number -> order of first appearance
	var evs, obs []string
	var obsJ [][]int
	flushes, fails, compactions := 0, 0, 0
	for step, op := range script {
		switch op[0] {
		case 'F':
			fl := fam.NewFlusher()
			for k := uint32(1); k <= 3; k++ {
				_ = fl.Add(k, []byte(fmt.Sprintf("%02d", step%100)))
			}
			if err := fl.Commit(); err != nil {
				out.Violation(0, "flush", err.Error(), nil)
			}
			fl.Release()
			evs = append(evs, "Rollup.EFlush")
			flushes++
		case 'C':
			fam.Compact()
			kv.VerifWaitBackground(fam)
			time.Sleep(2 * time.Millisecond)
			evs = append(evs, "Rollup.ECompact")
			compactions++
		case 'R':
			ok0, ok1 := op[1] == '1', op[2] == '1'
			rollupFails.Store(uint16(30), !ok0)
			rollupFails.Store(uint16(360), !ok1)
			rollupFailed.Store(uint16(30), false)
			rollupFailed.Store(uint16(360), false)
			before := sweeps.Load()
			for try := 0; try < 200; try++ {
				source.ForceRollup()
				kv.VerifWaitBackground(fam)
				if sweeps.Load() > before {
					break
				}
				time.Sleep(5 * time.Millisecond) // the previous job has not cleared its running flag yet
			}
			time.Sleep(2 * time.Millisecond)
			rollupFails.Store(uint16(30), false)
			rollupFails.Store(uint16(360), false)
			// the work of a target failed iff its merger was called and returned the injected error
			if v, ok := rollupFailed.Load(uint16(30)); !ok || !v.(bool) {
				ok0 = true
			}
			if v, ok := rollupFailed.Load(uint16(360)); !ok || !v.(bool) {
				ok1 = true
			}
			evs = append(evs, fmt.Sprintf("(Rollup.ERollup %s %s)", vh.Bool(ok0), vh.Bool(ok1)))
			if !ok0 || !ok1 {
				fails++
			}
		case 'S':
			kv.VerifDeleteObsolete(fam)
			evs = append(evs, "Rollup.ESweep")
		}
		var ds []int
		var xs []string
		for _, n := range tableFiles(dir) {
			if _, ok := index[n]; !ok {
				index[n] = len(index)
			}
			ds = append(ds, index[n])
			xs = append(xs, fmt.Sprintf("%d", index[n]))
		}
		obsJ = append(obsJ, ds)
		obs = append(obs, vh.List(xs))
	}
	idx := out.Case(map[string]interface{}{"kind": "rollup-history", "name": name, "script": script, "directory_after_each_event": obsJ},
		flushes >= 2 && fails >= 1 && compactions >= 1)
	out.Count("rollup-histories")
	out.Check(idx, fmt.Sprintf("check_rollup %s %s", vh.List(evs), vh.List(obs)))
}
