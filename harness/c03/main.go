// C03 harness: metric data files flushed through the real flusher into a real kv family and compacted by the real
// compaction job with the metric data merger; after every step every file of the version is decoded with the real reader.
package main

import (
	"fmt"
	"os"
	"path/filepath"
	"sort"
	"strings"
	"time"

	"github.com/lindb/lindb/kv"
	"github.com/lindb/lindb/series/field"
	"github.com/lindb/lindb/tsdb/tblstore/metricsdata"

	"lindbverif/md"
	"lindbverif/vh"
)

var fieldPool = map[uint32][]md.Field{
	1: {{ID: 1, Type: field.SumField}, {ID: 2, Type: field.MinField}, {ID: 3, Type: field.MaxField}, {ID: 4, Type: field.LastField}},
	2: {{ID: 1, Type: field.HistogramField}, {ID: 5, Type: field.FirstField}},
	3: {{ID: 7, Type: field.SumField}},
}
var seriesPool = []uint32{1, 2, 65535, 65536, 131073}

func ftypeCode(t field.Type) int {
	switch t {
	case field.SumField, field.HistogramField:
		return 1
	case field.MinField:
		return 2
	case field.MaxField:
		return 3
	case field.LastField:
		return 4
	}
	return 5
}

func typeOf(metric uint32, fid uint8) field.Type {
	for _, f := range fieldPool[metric] {
		if f.ID == fid {
			return f.Type
		}
	}
	return field.SumField
}

func pointsCoq(vals map[uint16]float64) string {
	var slots []int
	for s := range vals {
		slots = append(slots, int(s))
	}
	sort.Ints(slots)
	var xs []string
	for _, s := range slots {
		xs = append(xs, vh.Pair(vh.Z(int64(s)), vh.Z(int64(vals[uint16(s)]))))
	}
	return vh.List(xs)
}

// one file as the model's cfile: (metric, series, field id, field type, points)
func cfileCoq(ms map[uint32]*md.Decoded) string {
	var es []string
	var mids []int
	for m := range ms {
		mids = append(mids, int(m))
	}
	sort.Ints(mids)
	for _, m := range mids {
		d := ms[uint32(m)]
		var sids []int
		for s := range d.Series {
			sids = append(sids, int(s))
		}
		sort.Ints(sids)
		for _, s := range sids {
			var fids []int
			for f := range d.Series[uint32(s)] {
				fids = append(fids, int(f))
			}
			sort.Ints(fids)
			for _, f := range fids {
				vals := d.Series[uint32(s)][uint8(f)]
				if len(vals) == 0 {
					continue
				}
				es = append(es, vh.Tuple(fmt.Sprintf("%d%%nat", m), vh.Z(int64(s)), fmt.Sprintf("%d%%nat", f),
					fmt.Sprintf("%d%%nat", ftypeCode(typeOf(uint32(m), uint8(f)))), pointsCoq(vals)))
			}
		}
	}
	return vh.List(es)
}

func metricsToDecoded(ms []md.Metric) map[uint32]*md.Decoded {
	out := map[uint32]*md.Decoded{}
	for _, m := range ms {
		d := &md.Decoded{Series: map[uint32]map[uint8]map[uint16]float64{}}
		for _, s := range m.Series {
			d.Series[s.ID] = s.Values
		}
		out[m.ID] = d
	}
	return out
}

func randomFile(r *vh.Rand) []md.Metric {
	var ms []md.Metric
	for _, mid := range []uint32{1, 2, 3} {
		if mid != 1 && !r.Chance(50) {
			continue
		}
		pool := fieldPool[mid]
		var fields []md.Field
		for _, f := range pool {
			if r.Chance(70) {
				fields = append(fields, f)
			}
		}
		if len(fields) == 0 {
			fields = pool[:1]
		}
		a := r.Intn(200)
		b := a + r.Intn(40)
		m := md.Metric{ID: mid, Fields: fields, Start: uint16(a), End: uint16(b)}
		for _, sid := range seriesPool {
			if !r.Chance(60) {
				continue
			}
			s := md.Series{ID: sid, Values: map[uint8]map[uint16]float64{}}
			for _, fd := range fields {
				if !r.Chance(80) {
					continue
				}
				vals := map[uint16]float64{}
				for sl := a; sl <= b; sl++ {
					if r.Chance(40) {
						vals[uint16(sl)] = float64(r.Range(1, 99))
					}
				}
				if len(vals) > 0 {
					s.Values[fd.ID] = vals
				}
			}
			if len(s.Values) > 0 {
				m.Series = append(m.Series, s)
			}
		}
		if len(m.Series) == 0 {
			m.Series = []md.Series{{ID: seriesPool[0], Values: map[uint8]map[uint16]float64{fields[0].ID: {uint16(a): 1}}}}
		}
		ms = append(ms, m)
	}
	return ms
}

func readVersion(fam kv.Family) ([]map[uint32]*md.Decoded, error) {
	all, _ := md.FileNumbers(fam)
	snap := fam.GetSnapshot()
	defer snap.Close()
	var out []map[uint32]*md.Decoded
	for _, n := range all {
		ds, err := md.ReadFile(snap, n, []uint32{1, 2, 3})
		if err != nil {
			return nil, err
		}
		out = append(out, ds)
	}
	return out, nil
}

func runHistory(out *vh.Out, root string, id int, name string, script []string, maxFile uint32, r *vh.Rand) {
	dir := filepath.Join(root, fmt.Sprintf("h%d", id))
	defer os.RemoveAll(dir)
	st, err := kv.GetStoreManager().CreateStore(dir, kv.DefaultStoreOption())
	if err != nil {
		out.Violation(0, "open", err.Error(), nil)
		return
	}
	defer func() { _ = kv.GetStoreManager().CloseStore(dir) }()
	fam, err := st.CreateFamily("f", kv.FamilyOption{Merger: string(metricsdata.MetricDataMerger), CompactThreshold: 2, MaxFileSize: maxFile})
	if err != nil {
		out.Violation(0, "family", err.Error(), nil)
		return
	}
	var evs, obs []string
	var evJ []interface{}
	nflush, ncompact, maxFiles := 0, 0, 0
	for _, s := range script {
		switch s {
		case "f":
			ms := randomFile(r)
			if err := md.WriteFile(fam, ms); err != nil {
				out.Violation(0, "flush", err.Error(), nil)
				return
			}
			nflush++
			evs = append(evs, "CFlush "+cfileCoq(metricsToDecoded(ms)))
			evJ = append(evJ, map[string]interface{}{"k": "flush", "file": ms})
		case "c":
			all, l0 := md.FileNumbers(fam)
			if len(l0) < 2 {
				continue
			}
			fam.Compact()
			time.Sleep(2 * time.Millisecond)
			kv.VerifWaitBackground(fam)
			after, _ := md.FileNumbers(fam)
			if len(after) > maxFiles {
				maxFiles = len(after)
			}
			ncompact++
			evs = append(evs, "CCompact")
			evJ = append(evJ, map[string]interface{}{"k": "compact", "files_before": all, "files_after": after})
		}
		vers, err := readVersion(fam)
		if err != nil {
			out.Violation(0, "read", err.Error(), nil)
			return
		}
		var fs []string
		for _, f := range vers {
			fs = append(fs, cfileCoq(f))
		}
		obs = append(obs, vh.List(fs))
	}
	out.Count(fmt.Sprintf("max-files-after-compaction:%d", maxFiles))
	out.CountN("flush", nflush)
	out.CountN("compact", ncompact)
	idx := out.Case(map[string]interface{}{"kind": "history", "name": name, "script": strings.Join(script, " "), "max_file_size": maxFile, "events": evJ},
		nflush >= 3 && ncompact >= 2)
	out.Check(idx, fmt.Sprintf("check_hist %s\n %s", vh.List(evs), vh.List(obs)))
}

func main() {
	cfg := vh.ParseFlags()
	r := vh.NewRand(cfg.Seed)
	out := vh.NewOut(cfg.Out, "From Coq Require Import List ZArith Bool.\nImport ListNotations.\nFrom LinDBV.C03 Require Import Model Check.\nOpen Scope Z_scope.\n")
	out.ShardSize = 6
	root, err := os.MkdirTemp("", "verif-c03-")
	if err != nil {
		panic(err)
	}
	defer os.RemoveAll(root)
	runHistory(out, root, 0, "compaction of level 0 on top of a level 1 file", strings.Fields("f f c f f c f c"), 0, r)
	runHistory(out, root, 1, "output split over several files", strings.Fields("f f f c f f c"), 700, r)
	for i := 0; i < cfg.N; i++ {
		n := r.Range(4, 10)
		sc := []string{"f", "f"}
		for j := 0; j < n; j++ {
			if r.Chance(65) {
				sc = append(sc, "f")
			} else {
				sc = append(sc, "c")
			}
		}
		sc = append(sc, "c")
		maxFile := uint32(0)
		if r.Chance(30) {
			maxFile = uint32(r.Range(400, 2000))
		}
		runHistory(out, root, 2+i, "random", sc, maxFile, r)
	}
	out.Finish()
}
