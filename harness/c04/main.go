// C04 harness: source-interval files written through the real metric data flusher into a real kv family, rolled up by
// kv.Store.ForceRollup into the target-interval store, with rollup runs cut by a crash image after the target commit or
// after the source commit, clean reopen, and re-runs; every target file is decoded through the real reader.
package main

import (
	"fmt"
	"os"
	"os/exec"
	"path/filepath"
	"sort"
	"strconv"
	"strings"
	"time"

	"github.com/lindb/lindb/kv"
	"github.com/lindb/lindb/kv/table"
	"github.com/lindb/lindb/pkg/timeutil"
	"github.com/lindb/lindb/pkg/verifhook"
	"github.com/lindb/lindb/series/field"
	"github.com/lindb/lindb/tsdb/tblstore/metricsdata"

	"lindbverif/md"
	"lindbverif/vh"
)

const metricID = uint32(7)

// ballastID: the metric of the sibling family's files (never observed)
const ballastID = uint32(9999)

var fieldPool = []md.Field{{ID: 1, Type: field.SumField}, {ID: 2, Type: field.MinField}, {ID: 3, Type: field.MaxField},
	{ID: 4, Type: field.LastField}, {ID: 5, Type: field.FirstField}, {ID: 6, Type: field.HistogramField}}

func ftypeCode(t field.Type) int {
	switch t {
	case field.SumField, field.HistogramField:
		return 1
	case field.MinField:
		return 2
	case field.MaxField:
		return 3
	case field.LastField:
		return 4
	}
	return 5
}

type config struct {
	Off int   `json:"zone_offset_s"`
	Si  int64 `json:"source_interval_ms"`
	Ti  int64 `json:"target_interval_ms"`
	Ts0 int64 `json:"source_family_timestamp_ms"`
}

type world struct {
	compactAt int
	cfg       config
	base      string // .../segment
	srcName   string
	tgtName   string
	famName   string
	sibName   string // a sibling family of the source store that rolls into the same target family ("" = none)
	tgtFam    string
	src, tgt  kv.Store
	srcFamily kv.Family
	out       *vh.Out
	failed    bool
}

func (w *world) fail(what string, err error) {
	w.failed = true
	w.out.Violation(0, "harness", fmt.Sprintf("%s: %v", what, err), nil)
}

func (w *world) open() error {
	opt := kv.DefaultStoreOption()
	opt.Source = timeutil.Interval(w.cfg.Si)
	opt.Rollup = []timeutil.Interval{timeutil.Interval(w.cfg.Ti)}
	src, err := kv.GetStoreManager().CreateStore(w.srcName, opt)
	if err != nil {
		return err
	}
	tgt, err := kv.GetStoreManager().CreateStore(w.tgtName, kv.DefaultStoreOption())
	if err != nil {
		return err
	}
	w.src, w.tgt = src, tgt
	fam, err := src.CreateFamily(w.famName, kv.FamilyOption{Merger: string(metricsdata.MetricDataMerger), RollupThreshold: 1000, CompactThreshold: w.compactAt})
	if err != nil {
		return err
	}
	w.srcFamily = fam
	return nil
}

func (w *world) close() {
	if w.srcFamily != nil {
		kv.VerifWaitBackground(w.srcFamily)
	}
	_ = kv.GetStoreManager().CloseStore(w.srcName)
	_ = kv.GetStoreManager().CloseStore(w.tgtName)
	w.src, w.tgt, w.srcFamily = nil, nil, nil
}

func (w *world) marks() []int {
	snap := w.srcFamily.GetSnapshot()
	defer snap.Close()
	var out []int
	for f, ivs := range snap.GetCurrent().GetRollupFiles() {
		for _, iv := range ivs {
			if int64(iv) == w.cfg.Ti {
				out = append(out, int(f))
			}
		}
	}
	sort.Ints(out)
	return out
}

type entry struct {
	Sid    uint32
	Fid    uint8
	Points [][2]int64
}

func decodedEntries(d *md.Decoded) []entry {
	var es []entry
	var sids []int
	for s := range d.Series {
		sids = append(sids, int(s))
	}
	sort.Ints(sids)
	for _, s := range sids {
		fm := d.Series[uint32(s)]
		var fids []int
		for f := range fm {
			fids = append(fids, int(f))
		}
		sort.Ints(fids)
		for _, f := range fids {
			var slots []int
			for sl := range fm[uint8(f)] {
				slots = append(slots, int(sl))
			}
			sort.Ints(slots)
			e := entry{Sid: uint32(s), Fid: uint8(f)}
			for _, sl := range slots {
				e.Points = append(e.Points, [2]int64{int64(sl), int64(fm[uint8(f)][uint16(sl)])})
			}
			if len(e.Points) > 0 {
				es = append(es, e)
			}
		}
	}
	return es
}

func pointsCoq(ps [][2]int64) string {
	var xs []string
	for _, p := range ps {
		xs = append(xs, vh.Pair(vh.Z(p[0]), vh.Z(p[1])))
	}
	return vh.List(xs)
}

func entriesCoq(es []entry) string {
	var xs []string
	for _, e := range es {
		xs = append(xs, vh.Tuple(vh.Z(int64(e.Sid)), fmt.Sprintf("%d%%nat", e.Fid), pointsCoq(e.Points)))
	}
	return vh.List(xs)
}

type obsJ struct {
	Marks  []int     `json:"marks"`
	Refs   []int     `json:"refs"`
	TFiles [][]entry `json:"target_files"`
}

func (w *world) observe() (obsJ, string) {
	o := obsJ{Marks: w.marks()}
	tf := w.tgt.GetFamily(w.tgtFam)
	if tf != nil {
		snap := tf.GetSnapshot()
		v := snap.GetCurrent()
		_, srcStore := filepath.Split(w.srcName)
		for _, files := range v.GetReferenceFiles(srcStore) {
			for _, f := range files {
				o.Refs = append(o.Refs, int(f))
			}
		}
		sort.Ints(o.Refs)
		var nums []table.FileNumber
		for _, fm := range v.GetAllFiles() {
			nums = append(nums, fm.GetFileNumber())
		}
		sort.Slice(nums, func(i, j int) bool { return nums[i] < nums[j] })
		for _, n := range nums {
			ds, err := md.ReadFile(snap, n, []uint32{metricID, ballastID})
			if err != nil {
				w.fail("read target file", err)
				continue
			}
			if _, sib := ds[ballastID]; sib && ds[metricID] == nil {
				continue // a file of the sibling family's run
			}
			if d, ok := ds[metricID]; ok {
				o.TFiles = append(o.TFiles, decodedEntries(d))
			} else {
				o.TFiles = append(o.TFiles, nil)
			}
		}
		snap.Close()
	}
	var ms, rs, ts []string
	for _, m := range o.Marks {
		ms = append(ms, fmt.Sprintf("%d%%nat", m))
	}
	for _, m := range o.Refs {
		rs = append(rs, fmt.Sprintf("%d%%nat", m))
	}
	for _, t := range o.TFiles {
		ts = append(ts, entriesCoq(t))
	}
	return o, fmt.Sprintf("{| o_marks := %s; o_refs := %s; o_tfiles := %s |}", vh.List(ms), vh.List(rs), vh.List(ts))
}

type evJ struct {
	K    string     `json:"k"` // flush rollup reopen compact
	N    int        `json:"cut,omitempty"`
	File *md.Metric `json:"file,omitempty"`
}

func metricCoq(m *md.Metric) string {
	var sbs []string
	ss := append([]md.Series(nil), m.Series...)
	sort.Slice(ss, func(i, j int) bool { return ss[i].ID < ss[j].ID })
	for _, s := range ss {
		var fbs []string
		for _, fd := range m.Fields {
			vals := s.Values[fd.ID]
			var slots []int
			for sl := range vals {
				slots = append(slots, int(sl))
			}
			sort.Ints(slots)
			var ps [][2]int64
			for _, sl := range slots {
				ps = append(ps, [2]int64{int64(sl), int64(vals[uint16(sl)])})
			}
			fbs = append(fbs, vh.Tuple(fmt.Sprintf("%d%%nat", fd.ID), fmt.Sprintf("%d%%nat", ftypeCode(fd.Type)), pointsCoq(ps)))
		}
		sbs = append(sbs, vh.Pair(vh.Z(int64(s.ID)), vh.List(fbs)))
	}
	return vh.List(sbs)
}

func copyDir(src, dst string) error {
	_ = os.RemoveAll(dst)
	return exec.Command("cp", "-r", src, dst).Run()
}

// siblingRun: another family of the same source store (a neighbouring hour / day) that rolls into the same target family
// gets a file of a metric of its own and completes a whole rollup run, reference bookkeeping included
func (w *world) siblingRun() {
	sib, err := w.src.CreateFamily(w.sibName, kv.FamilyOption{Merger: string(metricsdata.MetricDataMerger), RollupThreshold: 1000, CompactThreshold: 1000})
	if err != nil {
		w.fail("sibling family", err)
		return
	}
	m := md.Metric{ID: ballastID, Fields: []md.Field{{ID: 1, Type: field.SumField}}, Start: 5, End: 6,
		Series: []md.Series{{ID: 1, Values: map[uint8]map[uint16]float64{1: {5: 1, 6: 2}}}}}
	if err := md.WriteFile(sib, []md.Metric{m}); err != nil {
		w.fail("sibling file", err)
		return
	}
	w.src.ForceRollup()
	time.Sleep(2 * time.Millisecond)
	kv.VerifWaitBackground(sib)
	w.out.Count("sibling-rollup-runs")
}

func (w *world) rollup(n int) {
	img := w.base + ".img"
	taken := false
	sibling := n == 4 // as 1, with a sibling family's complete run between the target commit and the crash
	if sibling {
		n = 1
	}
	if n < 3 {
		point := "kv.rollup.afterTargetCommit"
		if n == 2 {
			point = "kv.rollup.afterSourceCommit"
		}
		verifhook.Set(func(p string) {
			if p == point && !taken {
				taken = true
				if sibling && w.sibName != "" {
					w.siblingRun()
				}
				if err := copyDir(w.base, img); err != nil {
					w.fail("crash image", err)
				}
			}
		})
	}
	w.src.ForceRollup()
	time.Sleep(2 * time.Millisecond)
	kv.VerifWaitBackground(w.srcFamily)
	verifhook.Set(nil)
	if n < 3 {
		if !taken {
			// nothing to roll up: the run ended before its first commit
			return
		}
		w.close()
		_ = os.RemoveAll(w.base)
		if err := os.Rename(img, w.base); err != nil {
			w.fail("switch to crash image", err)
			return
		}
		if err := w.open(); err != nil {
			w.fail("reopen crash image", err)
		}
	}
}

func (w *world) compactSource() []int {
	_, l0 := md.FileNumbers(w.srcFamily)
	if len(l0) < 2 {
		return nil
	}
	w.srcFamily.Compact()
	time.Sleep(2 * time.Millisecond)
	kv.VerifWaitBackground(w.srcFamily)
	if _, after := md.FileNumbers(w.srcFamily); len(after) == len(l0) {
		return nil // nothing was compacted
	}
	var out []int
	for _, f := range l0 {
		out = append(out, int(f))
	}
	return out
}

func randomFile(r *vh.Rand, cfg config, fields []md.Field, sids []uint32, lastFirstOwner map[[2]int]bool, fileIdx int) *md.Metric {
	maxSlot := int(3600000/cfg.Si) - 1
	a, b := r.Intn(maxSlot+1), r.Intn(maxSlot+1)
	if a > b {
		a, b = b, a
	}
	if b-a > 120 {
		b = a + r.Range(20, 120)
	}
	m := &md.Metric{ID: metricID, Fields: fields, Start: uint16(a), End: uint16(b)}
	for _, sid := range sids {
		if !r.Chance(75) {
			continue
		}
		s := md.Series{ID: sid, Values: map[uint8]map[uint16]float64{}}
		for _, fd := range fields {
			if !r.Chance(80) {
				continue
			}
			// order-sensitive aggregates (first/last): one file per series and field, see DESIGN (C04)
			if fd.Type == field.LastField || fd.Type == field.FirstField {
				key := [2]int{int(sid), int(fd.ID)}
				if lastFirstOwner[key] && os.Getenv("VERIF_C04_ORDER_PROBE") == "" {
					continue
				}
				lastFirstOwner[key] = true
			}
			vals := map[uint16]float64{}
			for sl := a; sl <= b; sl++ {
				if r.Chance(35) {
					vals[uint16(sl)] = float64(r.Range(1, 99))
				}
			}
			if len(vals) > 0 {
				s.Values[fd.ID] = vals
			}
		}
		if len(s.Values) > 0 {
			m.Series = append(m.Series, s)
		}
	}
	if len(m.Series) == 0 {
		// never an empty file; a series of its own keeps first/last fields to one file per series
		m.Series = append(m.Series, md.Series{ID: uint32(1000 + fileIdx), Values: map[uint8]map[uint16]float64{fields[0].ID: {uint16(a): 1}}})
	}
	return m
}

func runCase(out *vh.Out, root string, id int, name, sig string, cfg config, script []string, r *vh.Rand) {
	time.Local = time.FixedZone("V", cfg.Off)
	w := &world{cfg: cfg, out: out, compactAt: 1000}
	if sig == "source-compaction-before-rollup" {
		w.compactAt = 2
	}
	caseDir := filepath.Join(root, fmt.Sprintf("c%d", id))
	defer os.RemoveAll(caseDir)
	w.base = filepath.Join(caseDir, "segment")
	si, ti := timeutil.Interval(cfg.Si), timeutil.Interval(cfg.Ti)
	scalc, tcalc := si.Calculator(), ti.Calculator()
	segTime := scalc.CalcSegmentTime(cfg.Ts0)
	fam := scalc.CalcFamily(cfg.Ts0, segTime)
	famStart := scalc.CalcFamilyStartTime(segTime, fam)
	w.srcName = filepath.Join(w.base, si.Type().String(), scalc.GetSegment(cfg.Ts0))
	w.tgtName = filepath.Join(w.base, ti.Type().String(), tcalc.GetSegment(famStart))
	w.famName = strconv.Itoa(fam)
	tSeg := tcalc.CalcSegmentTime(famStart)
	w.tgtFam = strconv.Itoa(tcalc.CalcFamily(famStart, tSeg))
	// the neighbouring family (next or previous hour / day / month) if it lies in the same source segment and target family
	for _, d := range []int{1, -1} {
		sf := fam + d
		if sf < 0 {
			continue
		}
		sStart := scalc.CalcFamilyStartTime(segTime, sf)
		if scalc.CalcSegmentTime(sStart) == segTime && scalc.CalcFamily(sStart, segTime) == sf &&
			tcalc.CalcSegmentTime(sStart) == tSeg && tcalc.CalcFamily(sStart, tSeg) == tcalc.CalcFamily(famStart, tSeg) {
			w.sibName = strconv.Itoa(sf)
			break
		}
	}
	if err := w.open(); err != nil {
		out.Violation(0, "open", err.Error(), nil)
		return
	}
	defer w.close()
	// fields and series of this case
	nf := r.Range(1, 4)
	var fields []md.Field
	for _, i := range r.Perm(len(fieldPool))[:nf] {
		fields = append(fields, fieldPool[i])
	}
	sort.Slice(fields, func(i, j int) bool { return fields[i].ID < fields[j].ID })
	sids := []uint32{1, 2, 65536 + 3, 131072 + 1}[:r.Range(1, 4)]
	owner := map[[2]int]bool{}
	var evs []evJ
	var coq, obs []string
	var obsJs []obsJ
	nflush, nroll, ncut := 0, 0, 0
	for _, s := range script {
		if w.failed {
			break
		}
		var e evJ
		var c string
		switch s[0] {
		case 'A', 'B':
			// directed: a last-value field whose later slots arrive first
			before := map[int]bool{}
			for _, m := range w.marks() {
				before[m] = true
			}
			m := &md.Metric{ID: metricID, Fields: []md.Field{{ID: 4, Type: field.LastField}, {ID: 5, Type: field.FirstField}}, Start: 100, End: 105}
			vals := map[uint16]float64{100: 11, 105: 12}
			if s[0] == 'B' {
				m.Start, m.End = 10, 15
				vals = map[uint16]float64{10: 21, 15: 22}
			}
			m.Series = []md.Series{{ID: 1, Values: map[uint8]map[uint16]float64{4: vals, 5: vals}}}
			if err := md.WriteFile(w.srcFamily, []md.Metric{*m}); err != nil {
				w.fail("write source file", err)
				continue
			}
			fileNo := -1
			for _, x := range w.marks() {
				if !before[x] {
					fileNo = x
				}
			}
			nflush++
			e = evJ{K: "flush", File: m}
			c = fmt.Sprintf("HFlush %d%%nat %s", fileNo, metricCoq(m))
		case 'f':
			before := map[int]bool{}
			for _, m := range w.marks() {
				before[m] = true
			}
			m := randomFile(r, cfg, fields, sids, owner, nflush)
			if err := md.WriteFile(w.srcFamily, []md.Metric{*m}); err != nil {
				w.fail("write source file", err)
				continue
			}
			fileNo := -1
			for _, x := range w.marks() {
				if !before[x] {
					fileNo = x
				}
			}
			if fileNo < 0 {
				w.fail("flush", fmt.Errorf("no rollup mark for the new file"))
				continue
			}
			nflush++
			e = evJ{K: "flush", File: m}
			c = fmt.Sprintf("HFlush %d%%nat %s", fileNo, metricCoq(m))
		case 'r':
			n := int(s[1] - '0')
			w.rollup(n)
			if n == 4 {
				n = 1 // for the model: a crash after the target commit
			}
			nroll++
			if n < 3 {
				ncut++
			}
			e = evJ{K: "rollup", N: n}
			c = fmt.Sprintf("HRollup %d%%nat", n)
		case 'o':
			w.close()
			if err := w.open(); err != nil {
				w.fail("reopen", err)
				continue
			}
			e = evJ{K: "reopen"}
			c = "HReopen"
		case 'c':
			fs := w.compactSource()
			if fs == nil {
				continue
			}
			var xs []string
			for _, f := range fs {
				xs = append(xs, fmt.Sprintf("%d%%nat", f))
			}
			e = evJ{K: "compact"}
			c = fmt.Sprintf("HCompact %s", vh.List(xs))
		}
		evs = append(evs, e)
		coq = append(coq, c)
		o, oc := w.observe()
		obsJs = append(obsJs, o)
		obs = append(obs, oc)
		out.Count("ev:" + e.K)
	}
	d := map[string]interface{}{"kind": "history", "name": name, "config": cfg, "script": strings.Join(script, " "), "events": evs, "observed": obsJs,
		"source_store": w.srcName, "target_store": w.tgtName, "source_family": w.famName, "target_family": w.tgtFam}
	if sig != "" {
		d["sig"] = sig
	}
	idx := out.Case(d, nflush >= 2 && nroll >= 2 && ncut >= 1)
	out.Count(fmt.Sprintf("target:%s", timeutil.Interval(cfg.Ti).Type().String()))
	out.Check(idx, fmt.Sprintf("check_hist {| c_off := %d; c_si := %d; c_ti := %d; c_ts0 := %d |}\n %s\n %s", cfg.Off, cfg.Si, cfg.Ti, cfg.Ts0, vh.List(coq), vh.List(obs)))
}

var dates = [][3]int{{2019, 7, 2}, {2020, 2, 28}, {2020, 2, 29}, {2021, 2, 28}, {2021, 12, 31}, {2022, 1, 1}, {2023, 3, 31}, {2023, 4, 1}, {2024, 2, 29}, {2019, 12, 1}}

func randomConfig(r *vh.Rand) config {
	c := config{Off: []int{0, 0, 19800, -18000, 28800, 3600}[r.Intn(6)]}
	if r.Bool() {
		c.Si = []int64{10000, 30000, 60000}[r.Intn(3)]
		c.Ti = []int64{300000, 600000, 900000, 1800000}[r.Intn(4)]
	} else {
		c.Si = []int64{10000, 60000, 120000}[r.Intn(3)]
		c.Ti = []int64{3600000, 7200000, 10800000, 21600000}[r.Intn(4)]
	}
	d := dates[r.Intn(len(dates))]
	hour := []int{0, 1, 7, 12, 22, 23}[r.Intn(6)]
	t := time.Date(d[0], time.Month(d[1]), d[2], hour, r.Intn(60), r.Intn(60), 0, time.FixedZone("V", c.Off))
	c.Ts0 = t.UnixMilli()
	return c
}

func randomScript(r *vh.Rand) []string {
	var sc []string
	n := r.Range(4, 12)
	sc = append(sc, "f")
	for i := 0; i < n; i++ {
		x := r.Intn(100)
		switch {
		case x < 40:
			sc = append(sc, "f")
		case x < 60:
			sc = append(sc, "r3")
		case x < 66:
			sc = append(sc, "r1")
		case x < 72:
			sc = append(sc, "r4")
		case x < 84:
			sc = append(sc, "r2")
		default:
			sc = append(sc, "o")
		}
	}
	sc = append(sc, "r3")
	return sc
}

func main() {
	cfg := vh.ParseFlags()
	r := vh.NewRand(cfg.Seed)
	out := vh.NewOut(cfg.Out, "From Coq Require Import List ZArith Bool.\nImport ListNotations.\nFrom LinDBV.C04 Require Import Model Check.\nOpen Scope Z_scope.\n")
	out.ShardSize = 10
	root, err := os.MkdirTemp("", "verif-c04-")
	if err != nil {
		panic(err)
	}
	defer os.RemoveAll(root)
	id := 0
	july := time.Date(2019, 7, 2, 1, 0, 0, 0, time.UTC).UnixMilli()
	runCase(out, root, id, "every cut of a run, then re-run", "", config{Si: 10000, Ti: 300000, Ts0: july}, strings.Fields("f f r1 r3 f r2 r3 o f r3 f r1 o r3 o f r2 o o r3"), r)
	id++
	runCase(out, root, id, "target interval not dividing the hour (10s -> 7min)", "target-interval-not-dividing-family", config{Si: 10000, Ti: 420000, Ts0: july}, strings.Fields("f f r3"), r)
	id++
	runCase(out, root, id, "source compaction before the rollup", "source-compaction-before-rollup", config{Si: 10000, Ti: 300000, Ts0: july}, strings.Fields("f f c r3"), r)
	id++
	runCase(out, root, id, "last/first field: the later slots are flushed and rolled up first", "first-last-across-files-order", config{Si: 10000, Ti: 3600000, Ts0: july}, strings.Fields("A r3 B r3"), r)
	id++
	for i := 0; i < cfg.N; i++ {
		runCase(out, root, id, "random", "", randomConfig(r), randomScript(r), r)
		id++
	}
	time.Local = time.UTC
	out.Notes = append(out.Notes, "a cut rollup run is a copy of the segment directory taken at the scheduling point after the target commit (cut 1) or after the source commit (cut 2); the copy is then opened in place of the original",
		"first/last fields get their values from one source file per series and field: the order in which a rollup visits several source files is a Go map iteration")
	out.Finish()
}
