// C05 harness: histories of Put / crash-inside-Put / reopen on a real queue directory; mapped pages are wrapped
// (verif page-factory seam) so that the process can be "killed" between the individual stores of an append,
// and so that one appender can be held between alloc and copy while another one runs.
package main

import (
	"bytes"
	"encoding/binary"
	"fmt"
	"os"
	"path/filepath"
	"sync"
	"time"

	"github.com/lindb/lindb/pkg/queue"
	"github.com/lindb/lindb/pkg/queue/page"

	"lindbverif/vh"
)

const pageSize = 128 * 1024 * 1024

// ---------- page wrapper ----------
type crashSignal struct{}

type control struct {
	mu      sync.Mutex
	armed   bool // count stores of the current Put
	stores  int
	crashAt int           // panic before store #crashAt (1 = copy, 2..4 = index entry, 5 = meta); 6 = after the meta store
	torn    bool          // crashAt == 1: perform half of the copy first
	gate    chan struct{} // if set, the next WriteBytes waits on it once (held appender)
	held    chan struct{} // closed when an appender is waiting at the gate
}

var ctl control

func (c *control) before(kind string, do func(), half func()) {
	c.mu.Lock()
	if kind == "copy" && c.gate != nil {
		g, h := c.gate, c.held
		c.gate, c.held = nil, nil
		c.mu.Unlock()
		close(h)
		<-g
		c.mu.Lock()
	}
	if !c.armed {
		c.mu.Unlock()
		do()
		return
	}
	c.stores++
	n := c.stores
	at, torn := c.crashAt, c.torn
	c.mu.Unlock()
	if at == n {
		if torn && half != nil {
			half()
		}
		panic(crashSignal{})
	}
	do()
	if at == 6 && n == 5 {
		panic(crashSignal{})
	}
}

type wpage struct{ page.MappedPage }

func (p wpage) WriteBytes(data []byte, offset int) {
	ctl.before("copy", func() { p.MappedPage.WriteBytes(data, offset) }, func() { p.MappedPage.WriteBytes(data[:len(data)/2], offset) })
}
func (p wpage) PutUint64(v uint64, offset int) {
	ctl.before("u64", func() { p.MappedPage.PutUint64(v, offset) }, nil)
}
func (p wpage) PutUint32(v uint32, offset int) {
	ctl.before("u32", func() { p.MappedPage.PutUint32(v, offset) }, nil)
}

type wfactory struct{ page.Factory }

func (f wfactory) AcquirePage(i int64) (page.MappedPage, error) {
	p, err := f.Factory.AcquirePage(i)
	if err != nil {
		return nil, err
	}
	return wpage{p}, nil
}
func (f wfactory) GetPage(i int64) (page.MappedPage, bool) {
	p, ok := f.Factory.GetPage(i)
	if !ok {
		return nil, false
	}
	return wpage{p}, true
}

// ---------- messages ----------
var scratch = make([]byte, 0, pageSize)

func message(id int, n int) []byte {
	b := scratch[:n]
	for i := range b {
		b[i] = byte(id*37 + i%251 + i/65536)
	}
	if n >= 4 {
		binary.LittleEndian.PutUint32(b, uint32(id))
	}
	return b
}

type rec struct{ id, n int }

func identify(got []byte, sent []rec) int {
	if len(got) == 0 {
		return 0 // the empty message: content id 0 in the model
	}
	for _, s := range sent {
		if len(got) == s.n {
			want := make([]byte, s.n)
			copy(want, message(s.id, s.n))
			if bytes.Equal(got, want) {
				return s.id
			}
		}
	}
	return 999999 // bytes that no append ever supplied
}

type opJ struct {
	K     string `json:"k"` // put, crash, reopen
	ID    int    `json:"id,omitempty"`
	Len   int    `json:"len,omitempty"`
	Point string `json:"point,omitempty"`
}

var points = []string{"AfterCopyTorn", "AfterCopy", "AfterIndexPart", "AfterIndexPart", "AfterIndex", "AfterMeta"}

func (o opJ) coq() string {
	switch o.K {
	case "put":
		return fmt.Sprintf("Put %d %d%%N", cid(o), o.Len)
	case "crash":
		return fmt.Sprintf("PutCrash %d %d%%N %s", cid(o), o.Len, o.Point)
	}
	return "Reopen"
}

// content id of an operation's message: all empty messages are the same message
func cid(o opJ) int {
	if o.Len == 0 {
		return 0
	}
	return o.ID
}

func doPut(q queue.Queue, id, n int, crashAt int, torn bool) (crashed bool, err error) {
	defer func() {
		ctl.mu.Lock()
		ctl.armed = false
		ctl.mu.Unlock()
		if r := recover(); r != nil {
			if _, ok := r.(crashSignal); ok {
				crashed = true
				return
			}
			panic(r)
		}
	}()
	ctl.mu.Lock()
	ctl.armed, ctl.stores, ctl.crashAt, ctl.torn = true, 0, crashAt, torn
	ctl.mu.Unlock()
	msg := message(id, n)
	defer func() { // the queue keeps its own copy: the caller's buffer is reused for the next message
		for i := range msg {
			msg[i] = '#'
		}
	}()
	err = q.Put(msg)
	return
}

func readAll(q queue.Queue, sent []rec) (int, []string) {
	app := int(q.AppendedSeq()) + 1
	var gets []string
	for n := 0; n <= app; n++ {
		b, err := q.Get(int64(n))
		if err != nil {
			gets = append(gets, "None")
		} else {
			gets = append(gets, fmt.Sprintf("(Some %d)", identify(b, sent)))
		}
	}
	return app, gets
}

func main() {
	cfg := vh.ParseFlags()
	r := vh.NewRand(cfg.Seed)
	out := vh.NewOut(cfg.Out, "From Coq Require Import List Arith NArith Bool.\nImport ListNotations.\nFrom LinDBV.C05 Require Import Model Check.\n")
	out.ShardSize = 40
	root, err := os.MkdirTemp("", "verif-c05-")
	if err != nil {
		panic(err)
	}
	defer os.RemoveAll(root)
	queue.VerifSetPageFactory(func(path string, ps int) (page.Factory, error) {
		f, err := page.NewFactory(path, ps)
		if err != nil {
			return nil, err
		}
		return wfactory{f}, nil
	})

	bigBudget := 2
	if cfg.Tier == "thorough" {
		bigBudget = 12
	}
	// ---------- sequential histories with crashes ----------
	for hi := 0; hi < cfg.N; hi++ {
		dir := filepath.Join(root, fmt.Sprintf("q%d", hi))
		q, err := queue.NewQueue(dir, 0)
		if err != nil {
			out.Violation(0, "open", err.Error(), nil)
			continue
		}
		big := bigBudget > 0 && r.Chance(4)
		if big {
			bigBudget--
		}
		var ops []opJ
		var sent []rec
		var apps []int
		nOps := r.Range(3, 25)
		if big {
			nOps = r.Range(4, 7)
		}
		used := 0 // bytes used in the current page (mirror, only to aim at the page boundary)
		nextID := 1
		sizes := map[int]bool{}
		crashes := 0
		acks := 0
		for step := 0; step < nOps; step++ {
			x := r.Intn(100)
			n := r.Range(1, 64)
			switch {
			case r.Chance(25):
				n = r.Range(1000, 300000)
			case r.Chance(10):
				n = 1
			case r.Chance(8):
				n = 0 // the empty message is a message like any other
			}
			if big {
				rem := pageSize - used
				switch r.Intn(5) {
				case 0:
					n = 100 * 1024 * 1024
				case 1:
					n = rem // fits exactly
				case 2:
					n = rem + 1 // rolls over
				case 3:
					n = 60*1024*1024 + r.Intn(1000)
				default:
					n = r.Range(1, 5000)
				}
				if n < 1 {
					n = 1
				}
				if n > pageSize {
					n = pageSize
				}
			}
			var o opJ
			if x < 8 && q.AppendedSeq() >= 0 {
				// the read barrier moves (a consumer acknowledged): no operation of the model - nothing about the
				// appended messages may change, now or after a reopen
				lo, hi := q.AcknowledgedSeq()+1, q.AppendedSeq()
				if r.Chance(70) && hi > lo {
					hi-- // mostly below the appended sequence
				}
				if hi >= lo {
					q.SetAcknowledgedSeq(lo + int64(r.Intn(int(hi-lo)+1)))
					acks++
				}
				continue
			}
			switch {
			case x < 62:
				o = opJ{K: "put", ID: nextID, Len: n}
			case x < 85:
				o = opJ{K: "crash", ID: nextID, Len: n, Point: ""}
			default:
				o = opJ{K: "reopen"}
			}
			switch o.K {
			case "put":
				if _, err := doPut(q, o.ID, o.Len, 0, false); err != nil {
					out.Violation(0, "put-error", err.Error(), nil)
				}
				sent = append(sent, rec{o.ID, o.Len})
				nextID++
				sizes[o.Len] = true
			case "crash":
				at := r.Range(1, 6)
				torn := at == 1 && r.Bool()
				o.Point = points[at-1]
				if at == 1 && torn {
					o.Point = "AfterCopyTorn"
				} else if at == 1 {
					// crash before the copy even started: nothing happened except the cursor moved
					o.Point = "AfterCopyTorn"
				}
				if at == 2 {
					o.Point = "AfterCopy"
				}
				crashed, err := doPut(q, o.ID, o.Len, at, torn)
				if !crashed {
					out.Violation(0, "crash-not-reached", fmt.Sprintf("store %d, err %v", at, err), nil)
				}
				sent = append(sent, rec{o.ID, o.Len})
				nextID++
				crashes++
				// the process is dead: drop the queue object, reopen from the directory
				q.Close()
				q, err = queue.NewQueue(dir, 0)
				if err != nil {
					out.Violation(0, "reopen-after-crash", err.Error(), nil)
				}
			case "reopen":
				q.Close()
				q, err = queue.NewQueue(dir, 0)
				if err != nil {
					out.Violation(0, "reopen", err.Error(), nil)
				}
			}
			if o.K != "reopen" {
				if used+o.Len > pageSize {
					used = 0
				}
				used += o.Len
			}
			if q == nil {
				break
			}
			ops = append(ops, o)
			apps = append(apps, int(q.AppendedSeq())+1)
		}
		if q == nil {
			continue
		}
		_, gets := readAll(q, sent)
		acked := int(q.AcknowledgedSeq()) + 1
		// after the part the model follows (the reads above): the explicit index reset (SetAppendedSeq, what a follower runs
		// on the leader's Reset) forward to a sequence nobody appended, a restart, one more append - off the model, judged on
		// the reads alone: every successfully appended message that still lies above the acknowledged position reads back
		// byte for byte, and the new message is the next sequence
		resetProbe := ""
		if !big && r.Chance(35) && len(sent) >= 1 {
			before := map[int64]int{} // sequence -> content id of what is readable before the reset
			for n := q.AcknowledgedSeq() + 1; n <= q.AppendedSeq(); n++ {
				if b, err := q.Get(n); err == nil {
					before[n] = identify(b, sent)
				}
			}
			j := q.AppendedSeq() + int64(r.Range(1, 9))
			q.SetAppendedSeq(j)
			q.Close()
			var err error
			q, err = queue.NewQueue(dir, 0)
			if err != nil {
				resetProbe = "reopen after the reset: " + err.Error()
			} else {
				newID := nextID + 1000
				n := r.Range(8, 90)
				if _, err := doPut(q, newID, n, 0, false); err != nil {
					resetProbe = "append after the reset: " + err.Error()
				}
				sent = append(sent, rec{newID, n})
				if q.AppendedSeq() != j+1 {
					resetProbe = fmt.Sprintf("reset to %d, restart, append: the appended position is %d", j, q.AppendedSeq())
				}
				if b, err := q.Get(j + 1); err != nil || identify(b, sent) != newID {
					resetProbe = fmt.Sprintf("reset to %d, restart, append: Get(%d) does not return the appended message (err %v)", j, j+1, err)
				}
				for sq, want := range before {
					if sq <= q.AcknowledgedSeq() {
						continue
					}
					b, err := q.Get(sq)
					if err != nil || identify(b, sent) != want {
						resetProbe = fmt.Sprintf("reset to %d, restart, append: message %d lies above the acknowledged position %d and was readable before; now err %v, content of message %d",
							j, sq, q.AcknowledgedSeq(), err, identify(b, sent))
						break
					}
				}
			}
			out.Count("reset-restart-append-probes")
		}
		// ... or: the log is moved to the end of its first index page (262144 entries per page), a few messages are appended
		// across the page boundary while the acknowledged position stays behind in the first page, and GC runs (the periodic
		// clean-up calls it): every message above the acknowledged position still reads back, live and after a reopen
		if !big && resetProbe == "" && q != nil && r.Chance(25) {
			const perPage = 262144
			app := q.AppendedSeq()
			if app < perPage-40 {
				start := int64(perPage - 1 - r.Range(1, 5))
				q.SetAppendedSeq(start) // acknowledged = appended = start
				want := map[int64]int{}
				for k := 0; k < r.Range(3, 9); k++ {
					id, n := nextID+2000+k, r.Range(4, 60)
					if _, err := doPut(q, id, n, 0, false); err != nil {
						resetProbe = "append across the index page boundary: " + err.Error()
						break
					}
					sent = append(sent, rec{id, n})
					want[q.AppendedSeq()] = id
				}
				if r.Bool() {
					q.SetAcknowledgedSeq(start + 1) // still in the first index page
				}
				q.GC()
				verify := func(when string) {
					for sq, id := range want {
						if sq <= q.AcknowledgedSeq() {
							continue
						}
						b, err := q.Get(sq)
						if err != nil || identify(b, sent) != id {
							resetProbe = fmt.Sprintf("messages appended across the index page boundary at %d, acknowledged position %d, GC: %s Get(%d) fails or returns other bytes (err %v)",
								perPage, q.AcknowledgedSeq(), when, sq, err)
							return
						}
					}
				}
				verify("live,")
				if resetProbe == "" {
					q.Close()
					var err error
					if q, err = queue.NewQueue(dir, 0); err != nil {
						resetProbe = "reopen after GC: " + err.Error()
					} else {
						verify("after a reopen,")
					}
				}
				out.Count("gc-across-index-pages-probes")
			}
		}
		if q != nil {
			q.Close()
		}
		_ = os.RemoveAll(dir)
		idx := out.Case(map[string]interface{}{"kind": "history", "ops": ops, "big": big, "acknowledgements": acks, "acked_at_end": acked}, len(sent) >= 3 && len(sizes) >= 2 && crashes >= 1)
		out.Count("history")
		out.CountN("acknowledgements", acks)
		if big {
			out.Count("history:page-roll-over")
		}
		for _, o := range ops {
			out.Count("op:" + o.K)
			if o.K == "crash" {
				out.Count("crash:" + o.Point)
			}
		}
		var oc []string
		for _, o := range ops {
			oc = append(oc, o.coq())
		}
		if resetProbe != "" {
			out.Violation(idx, "reset-restart-append", resetProbe, nil)
		}
		out.Check(idx, fmt.Sprintf("check_hist_acked %d %s %s %s", acked, vh.List(oc), vh.NatList(apps), vh.List(gets)))
	}

	// ---------- overlapping appenders: A is held between alloc and copy while B appends ----------
	nConc := cfg.N / 4
	for ci := 0; ci < nConc; ci++ {
		dir := filepath.Join(root, fmt.Sprintf("c%d", ci))
		q, err := queue.NewQueue(dir, 0)
		if err != nil {
			continue
		}
		var sent []rec
		nextID := 1
		pre := r.Intn(3)
		var opsOrder []opJ
		for i := 0; i < pre; i++ {
			n := r.Range(1, 100)
			_ = q.Put(message(nextID, n))
			sent = append(sent, rec{nextID, n})
			opsOrder = append(opsOrder, opJ{K: "put", ID: nextID, Len: n})
			nextID++
		}
		la, lb, lc := r.Range(5, 200), r.Range(1, 200), r.Range(1, 200)
		idA, idB, idC := nextID, nextID+1, nextID+2
		sent = append(sent, rec{idA, la}, rec{idB, lb}, rec{idC, lc})
		msgA := append([]byte(nil), message(idA, la)...)
		msgB := append([]byte(nil), message(idB, lb)...)
		gate, held := make(chan struct{}), make(chan struct{})
		ctl.mu.Lock()
		ctl.gate, ctl.held = gate, held
		ctl.mu.Unlock()
		doneA, doneB := make(chan error, 1), make(chan error, 1)
		go func() { doneA <- q.Put(msgA) }()
		<-held // A has allocated its region and waits before copying
		go func() { doneB <- q.Put(msgB) }()
		bFirst := false
		select {
		case <-doneB:
			bFirst = true // B ran completely inside A's window (possible only if appends are not serialised)
		case <-time.After(40 * time.Millisecond):
		}
		close(gate)
		<-doneA
		if !bFirst {
			<-doneB
		}
		// which sequence did each get?
		order := []opJ{{K: "put", ID: idA, Len: la}, {K: "put", ID: idB, Len: lb}}
		if b, err := q.Get(int64(pre)); err == nil && identify(b, sent) == idB {
			order = []opJ{{K: "put", ID: idB, Len: lb}, {K: "put", ID: idA, Len: la}}
		}
		opsOrder = append(opsOrder, order...)
		q.Close()
		q, err = queue.NewQueue(dir, 0)
		if err != nil {
			out.Violation(0, "reopen", err.Error(), nil)
			continue
		}
		opsOrder = append(opsOrder, opJ{K: "reopen"})
		_ = q.Put(message(idC, lc))
		opsOrder = append(opsOrder, opJ{K: "put", ID: idC, Len: lc})
		_, gets := readAll(q, sent)
		q.Close()
		_ = os.RemoveAll(dir)
		desc := map[string]interface{}{"kind": "overlapping-appenders", "ops": opsOrder, "b_completed_inside_a": bFirst}
		idx := out.Case(desc, true)
		out.Count("overlapping-appenders")
		if bFirst {
			out.Count("overlapping-appenders:b-completed-inside-a")
		}
		var oc []string
		var apps []int
		k := 0
		for _, o := range opsOrder {
			oc = append(oc, o.coq())
			if o.K == "put" {
				k++
			}
			apps = append(apps, k)
		}
		out.Check(idx, fmt.Sprintf("check_hist %s %s %s", vh.List(oc), vh.NatList(apps), vh.List(gets)))
	}
	queue.VerifSetPageFactory(nil)

	// ---------- the index page boundary (262144 entries per index page): close with the last appended sequence just
	// before / in the last slot of / just after an index page, reopen, append, read everything back; compared with the
	// abstract log directly (the model's index is a map, it has no pages) ----------
	const perPage = 1024 * 256
	counts := []int{perPage, perPage - 1, perPage + 1}
	if cfg.Tier == "thorough" {
		counts = append(counts, 2*perPage)
	}
	body := func(i int) []byte { return []byte(fmt.Sprintf("m%09d", i)) }
	for bi, n := range counts {
		dir := filepath.Join(root, fmt.Sprintf("b%d", bi))
		idx := out.Case(map[string]interface{}{"kind": "index-page-boundary", "appended_before_reopen": n, "appended_after": 3}, true)
		out.Count("index-page-boundary")
		bad := func(what string) {
			out.Violation(idx, "index-page-boundary", what, map[string]int{"appended_before_reopen": n})
		}
		q, err := queue.NewQueue(dir, 0)
		if err != nil {
			bad("open: " + err.Error())
			continue
		}
		failed := false
		for i := 0; i < n && !failed; i++ {
			if err := q.Put(body(i)); err != nil {
				bad(fmt.Sprintf("put %d: %v", i, err))
				failed = true
			}
		}
		q.Close()
		if failed {
			continue
		}
		q, err = queue.NewQueue(dir, 0)
		if err != nil {
			bad("reopen: " + err.Error())
			continue
		}
		for i := n; i < n+3; i++ {
			if err := q.Put(body(i)); err != nil {
				bad(fmt.Sprintf("put %d after reopen: %v", i, err))
				failed = true
			}
		}
		for round := 0; round < 2 && !failed; round++ {
			if got := q.AppendedSeq(); got != int64(n+2) {
				bad(fmt.Sprintf("appended sequence %d after %d appends", got, n+3))
				failed = true
			}
			for i := 0; i < n+3 && !failed; i++ {
				b, err := q.Get(int64(i))
				if err != nil || string(b) != string(body(i)) {
					bad(fmt.Sprintf("Get(%d) = %q, %v; appended %q (reopened after %d messages)", i, b, err, body(i), n))
					failed = true
				}
			}
			if round == 0 && !failed {
				q.Close()
				if q, err = queue.NewQueue(dir, 0); err != nil {
					bad("second reopen: " + err.Error())
					failed = true
				}
			}
		}
		if q != nil {
			q.Close()
		}
		_ = os.RemoveAll(dir)
	}
	out.Finish()
}
