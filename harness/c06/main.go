// C06 harness: histories of append / consume / ack / set-consumed / sync / gc / create / stop / reopen on a real
// fan-out queue; after every operation all positions and a set of readability probes are recorded.
package main

import (
	"context"
	"fmt"
	"os"
	"path/filepath"
	"sort"

	"github.com/lindb/lindb/models"
	"github.com/lindb/lindb/pkg/queue"
	"github.com/lindb/lindb/replica"
	"github.com/lindb/lindb/tsdb"

	"lindbverif/vh"
)

type opJ struct {
	K   string `json:"k"`
	N   int    `json:"n,omitempty"`
	V   int64  `json:"v,omitempty"`
	Via string `json:"via,omitempty"` // setappended: "partition" = through the follower-side handler of the leader's Reset
}

// the log's partition (replica.NewPartition over the same fan-out queue): its ResetReplicaIndex(idx) is what the leader's
// Reset request runs on a follower; it sets the log to appended = idx - 1
type fakeDatabase struct{ tsdb.Database }

func (fakeDatabase) Name() string { return "db" }

type fakeShard struct{ tsdb.Shard }

func (fakeShard) Database() tsdb.Database { return fakeDatabase{} }
func (fakeShard) ShardID() models.ShardID { return 1 }
func (fakeShard) Indicator() string       { return "db/1" }

type fakeFamily struct{ tsdb.DataFamily }

func (o opJ) coq() string {
	switch o.K {
	case "append":
		return fmt.Sprintf("Append %s", vh.Z(o.V))
	case "consume":
		return fmt.Sprintf("Consume %d%%nat", o.N)
	case "ack":
		return fmt.Sprintf("Ack %d%%nat %s", o.N, vh.Z(o.V))
	case "setconsumed":
		return fmt.Sprintf("SetConsumed %d%%nat %s", o.N, vh.Z(o.V))
	case "sync":
		return "Sync"
	case "gc":
		return "GC"
	case "create":
		return fmt.Sprintf("Create %d%%nat", o.N)
	case "stop":
		return fmt.Sprintf("Stop %d%%nat", o.N)
	case "setappended":
		return fmt.Sprintf("SetAppended %s", vh.Z(o.V))
	}
	return "Reopen"
}

type world struct {
	dir    string
	fq     queue.FanOutQueue
	groups map[int]queue.ConsumerGroup
	paused map[int]bool
}

func gname(n int) string { return fmt.Sprintf("g%d", n) }

func (w *world) observe(res int64) string {
	q := w.fq.Queue()
	app, ack := q.AppendedSeq(), q.AcknowledgedSeq()
	var ids []int
	for n := range w.groups {
		ids = append(ids, n)
	}
	sort.Ints(ids)
	var gs []string
	minAck := app
	for _, n := range ids {
		g := w.groups[n]
		gs = append(gs, vh.Pair(fmt.Sprintf("%d%%nat", n), vh.Pair(vh.Z(g.ConsumedSeq()), vh.Z(g.AcknowledgedSeq()))))
		if g.AcknowledgedSeq() < minAck {
			minAck = g.AcknowledgedSeq()
		}
	}
	probes := map[int64]bool{0: true, ack: true, ack + 1: true, app: true, app + 1: true, minAck + 1: true, 262143: true, 262144: true, app / 2: true}
	var ps []int64
	for p := range probes {
		if p >= 0 {
			ps = append(ps, p)
		}
	}
	sort.Slice(ps, func(i, j int) bool { return ps[i] < ps[j] })
	var rs []string
	for _, p := range ps {
		_, err := q.Get(p)
		rs = append(rs, vh.Pair(vh.Z(p), vh.Bool(err == nil)))
	}
	return fmt.Sprintf("{| o_app := %s; o_qack := %s; o_groups := %s; o_res := %s; o_reads := %s |}", vh.Z(app), vh.Z(ack), vh.List(gs), vh.Z(res), vh.List(rs))
}

func (w *world) open() error {
	fq, err := queue.NewFanOutQueue(w.dir, 0)
	if err != nil {
		return err
	}
	w.fq = fq
	w.groups = map[int]queue.ConsumerGroup{}
	w.paused = map[int]bool{}
	for _, name := range fq.ConsumerGroupNames() {
		var n int
		fmt.Sscanf(filepath.Base(name), "g%d", &n)
		g, err := fq.GetOrCreateConsumerGroup(filepath.Base(name))
		if err != nil {
			return err
		}
		w.groups[n] = g
	}
	return nil
}

func main() {
	cfg := vh.ParseFlags()
	r := vh.NewRand(cfg.Seed)
	out := vh.NewOut(cfg.Out, "From Coq Require Import List ZArith Bool.\nImport ListNotations.\nFrom LinDBV.C06 Require Import Model Check.\nOpen Scope Z_scope.\n")
	out.ShardSize = 25
	root, err := os.MkdirTemp("", "verif-c06-")
	if err != nil {
		panic(err)
	}
	defer os.RemoveAll(root)
	msg := []byte("12345678")

	corpus := [][]opJ{}
	{ // the history that broke the unrepaired code: stopped group falls behind the queue ack, then reopen
		h := []opJ{{K: "create", N: 1}, {K: "create", N: 2}, {K: "append", V: 10}}
		for i := int64(0); i < 10; i++ {
			h = append(h, opJ{K: "consume", N: 1}, opJ{K: "ack", N: 1, V: i}, opJ{K: "consume", N: 2}, opJ{K: "ack", N: 2, V: i})
		}
		h = append(h, opJ{K: "stop", N: 1}, opJ{K: "append", V: 5})
		for i := int64(10); i < 15; i++ {
			h = append(h, opJ{K: "consume", N: 2}, opJ{K: "ack", N: 2, V: i})
		}
		h = append(h, opJ{K: "sync"}, opJ{K: "reopen"}, opJ{K: "consume", N: 1})
		corpus = append(corpus, h)
	}
	{ // a group created after the queue's acknowledged position has advanced: its small ack must not pull it back
		h := []opJ{{K: "create", N: 1}, {K: "append", V: 6}}
		for i := 0; i < 6; i++ {
			h = append(h, opJ{K: "consume", N: 1})
		}
		h = append(h, opJ{K: "ack", N: 1, V: 5}, opJ{K: "sync"}, opJ{K: "gc"}, opJ{K: "create", N: 2},
			opJ{K: "consume", N: 2}, opJ{K: "ack", N: 2, V: 0}, opJ{K: "sync"}, opJ{K: "reopen"}, opJ{K: "consume", N: 2})
		corpus = append(corpus, h)
	}

	nHist := cfg.N
	for hi := 0; hi < nHist+len(corpus); hi++ {
		w := &world{dir: filepath.Join(root, fmt.Sprintf("q%d", hi))}
		if err := w.open(); err != nil {
			out.Violation(0, "open", err.Error(), nil)
			continue
		}
		big := hi >= len(corpus) && r.Chance(6) // cross an index page boundary, so that GC really removes a page
		nOps := r.Range(10, 70)
		// a third of the random histories start with a group that is created late: the first group has consumed and
		// acknowledged far ahead and the queue was synced before the second group exists
		var prefix []opJ
		if hi >= len(corpus) && r.Chance(33) {
			g1 := r.Range(1, 4)
			g2 := g1%4 + 1
			k := r.Range(3, 12)
			prefix = append(prefix, opJ{K: "create", N: g1}, opJ{K: "append", V: int64(k)})
			for i := 0; i < k; i++ {
				prefix = append(prefix, opJ{K: "consume", N: g1})
			}
			prefix = append(prefix, opJ{K: "ack", N: g1, V: int64(k - 1 - r.Intn(2))}, opJ{K: "sync"})
			if r.Chance(40) {
				prefix = append(prefix, opJ{K: "gc"})
			}
			prefix = append(prefix, opJ{K: "create", N: g2})
			j := r.Range(1, 3)
			for i := 0; i < j; i++ {
				prefix = append(prefix, opJ{K: "consume", N: g2})
			}
			prefix = append(prefix, opJ{K: "ack", N: g2, V: int64(j - 1)}, opJ{K: "sync"})
			nOps += len(prefix)
		}
		var ops []opJ
		var obs []string
		stoppedEver, afterConsume := false, false
		stopped := map[int]int64{} // stopped groups: the consumed position their meta file holds
		// mirror of positions for choosing meaningful operations
		for step := 0; step < nOps || (hi < len(corpus) && step < len(corpus[hi])); step++ {
			var o opJ
			if hi < len(corpus) {
				if step >= len(corpus[hi]) {
					break
				}
				o = corpus[hi][step]
			} else if step < len(prefix) {
				o = prefix[step]
			} else {
				var ids []int
				for n := range w.groups {
					ids = append(ids, n)
				}
				sort.Ints(ids)
				pick := func() int {
					if len(ids) == 0 {
						return 1
					}
					return ids[r.Intn(len(ids))]
				}
				x := r.Intn(100)
				switch {
				case len(ids) == 0 || (x < 8 && len(ids) < 4):
					o = opJ{K: "create", N: r.Range(1, 4)}
				case x < 30:
					o = opJ{K: "append", V: int64(r.Range(1, 5))}
					if big && r.Chance(15) {
						o.V = 262144 - int64(r.Range(0, 3))
					}
				case x < 55:
					o = opJ{K: "consume", N: pick()}
				case x < 75:
					n := pick()
					g := w.groups[n]
					a, c := g.AcknowledgedSeq(), g.ConsumedSeq()
					v := a + int64(r.Intn(int(c-a)+1))
					if r.Chance(25) {
						v = []int64{a - 1, c + 1, c + 100, -5}[r.Intn(4)]
					}
					o = opJ{K: "ack", N: n, V: v}
				case x < 78:
					n := pick()
					g := w.groups[n]
					a := g.AcknowledgedSeq()
					app := w.fq.Queue().AppendedSeq()
					if app >= a {
						o = opJ{K: "setconsumed", N: n, V: a + int64(r.Intn(int(app-a)+1))}
					} else {
						o = opJ{K: "sync"}
					}
				case x < 80 && !big:
					// the explicit index reset (a follower's log reset by its leader): mostly backwards, never below the
					// stored position of a stopped group
					lo := int64(-1)
					for _, c := range stopped {
						if c > lo {
							lo = c
						}
					}
					app := w.fq.Queue().AppendedSeq()
					v := lo
					if app > lo {
						v = lo + int64(r.Intn(int(app-lo)+1))
					}
					if r.Chance(20) {
						v = app + int64(r.Range(1, 3))
					}
					o = opJ{K: "setappended", V: v}
					if r.Bool() {
						o.Via = "partition"
					}
				case x < 86:
					o = opJ{K: "sync"}
				case x < 90:
					o = opJ{K: "gc"}
				case x < 94:
					o = opJ{K: "stop", N: pick()}
				case x < 97:
					o = opJ{K: "create", N: r.Range(1, 4)}
				default:
					o = opJ{K: "reopen"}
				}
			}
			res := int64(0)
			switch o.K {
			case "append":
				for i := int64(0); i < o.V; i++ {
					if err := w.fq.Queue().Put(msg); err != nil {
						out.Violation(0, "put", err.Error(), nil)
					}
				}
			case "consume":
				g, ok := w.groups[o.N]
				if !ok {
					res = -1
				} else if g.ConsumedSeq() < w.fq.Queue().AppendedSeq() && !w.paused[o.N] {
					res = g.Consume()
					afterConsume = true
				} else {
					// Consume blocks on an empty queue: pause the group (Consume then returns at once);
					// the pause is permanent for this group object, so the history continues with stop + create
					g.Pause()
					w.paused[o.N] = true
					res = g.Consume()
					ops = append(ops, o)
					obs = append(obs, w.observe(res))
					w.fq.StopConsumerGroup(gname(o.N))
					delete(w.groups, o.N)
					delete(w.paused, o.N)
					ops = append(ops, opJ{K: "stop", N: o.N})
					obs = append(obs, w.observe(0))
					stoppedEver = true
					ng, _ := w.fq.GetOrCreateConsumerGroup(gname(o.N))
					w.groups[o.N] = ng
					o = opJ{K: "create", N: o.N}
					res = 0
				}
			case "ack":
				if g, ok := w.groups[o.N]; ok {
					g.Ack(o.V)
				}
			case "setconsumed":
				if g, ok := w.groups[o.N]; ok {
					g.SetConsumedSeq(o.V)
				}
			case "setappended":
				if o.Via == "partition" {
					replica.NewPartition(context.Background(), fakeShard{}, fakeFamily{}, 2, w.fq, nil, nil).ResetReplicaIndex(o.V + 1)
				} else {
					w.fq.SetAppendedSeq(o.V)
				}
			case "sync":
				w.fq.Sync()
				if afterConsume {
					stoppedEver = stoppedEver || len(w.groups) >= 2
				}
			case "gc":
				w.fq.Queue().GC()
			case "create":
				if _, ok := w.groups[o.N]; !ok {
					g, err := w.fq.GetOrCreateConsumerGroup(gname(o.N))
					if err != nil {
						out.Violation(0, "create-group", err.Error(), nil)
					} else {
						w.groups[o.N] = g
						delete(stopped, o.N)
					}
				}
			case "stop":
				if g, ok := w.groups[o.N]; ok {
					stopped[o.N] = g.ConsumedSeq()
					w.fq.StopConsumerGroup(gname(o.N))
					delete(w.groups, o.N)
					delete(w.paused, o.N)
					stoppedEver = true
				}
			case "reopen":
				stopped = map[int]int64{}
				w.fq.Close()
				if err := w.open(); err != nil {
					out.Violation(0, "reopen", err.Error(), nil)
				}
				stoppedEver = true
			}
			ops = append(ops, o)
			obs = append(obs, w.observe(res))
		}
		w.fq.Close()
		_ = os.RemoveAll(w.dir)
		kinds := map[string]bool{}
		gset := map[int]bool{}
		for _, o := range ops {
			kinds[o.K] = true
			out.Count("op:" + o.K)
			if o.K == "create" {
				gset[o.N] = true
			}
		}
		idx := out.Case(map[string]interface{}{"kind": "history", "ops": ops, "big": big}, kinds["append"] && len(gset) >= 2 && stoppedEver && kinds["consume"])
		if big {
			out.Count("history:crosses-index-page")
		}
		var oc []string
		for _, o := range ops {
			oc = append(oc, o.coq())
		}
		out.Check(idx, fmt.Sprintf("check_hist %s\n %s", vh.List(oc), vh.List(obs)))
	}
	out.Finish()
}
